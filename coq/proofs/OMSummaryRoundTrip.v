(* C04 L5, summaries: a summary family - quantile samples, _count, _sum, _created - meets family_acc of
   proofs/OMFamilyRoundTrip.v, hence is read back by the OpenMetrics parser. *)
From V Require Import lib.PyBase lib.Tac lib.PyStr model.Utils model.Validation model.Expo model.TextParser model.OMParser
  proofs.LabelRoundTrip proofs.OMSampleRoundTrip proofs.OMDocRoundTrip proofs.OMCounterRoundTrip proofs.OMFamilyRoundTrip
  proofs.OMGroupingFacts.
From Coq Require Import Permutation.
Ltac Zify.zify_post_hook ::= Z.to_euclidean_division_equations.
Open Scope N_scope.

(* ---------- dictionary facts ---------- *)
Lemma d_find_In (l : list (str * str)) k v : NoDup (map fst l) -> In (k, v) l -> d_find str_eqb l k = Some v.
Proof.
  induction l as [|[a b] l IH]; intros Hnd Hin; [destruct Hin|]. cbn [map fst] in Hnd. inversion Hnd as [|? ? Hnin Hnd']; subst.
  cbn [d_find]. destruct Hin as [E|Hin].
  - inversion E; subst. rewrite str_eqb_refl. reflexivity.
  - destruct (str_eqb k a) eqn:E; [|apply IH; assumption]. apply str_eqb_eq in E. subst a.
    exfalso. apply Hnin. apply (in_map fst) in Hin. exact Hin.
Qed.

Lemma d_find_sorted (l : list (str * str)) k v : NoDup (map fst l) -> In (k, v) l -> d_find str_eqb (sort_kv l) k = Some v.
Proof.
  intros Hnd Hin. apply d_find_In.
  - eapply Permutation_NoDup; [apply Permutation_map, sort_kv_perm|exact Hnd].
  - eapply Permutation_in; [apply sort_kv_perm|exact Hin].
Qed.

Lemma self_neq_app (n sfx : str) : sfx <> [] -> str_eqb n (n ++ sfx) = false.
Proof.
  intro H. apply str_eqb_neq. intro E. apply (f_equal (@length char)) in E. rewrite app_length in E.
  destruct sfx; [congruence|cbn [length] in E; lia].
Qed.

Section Summary.
  Variable fix_nhkeys fix_nhsfx fix_tsmix fix_isnan fix_tsexp fix_sname : bool.
  Variable NUM : Type.
  Variable parse_num parse_float : str -> option NUM.
  Variable parse_int : str -> option Z.
  Variable num_lt num_eqb : NUM -> NUM -> bool.
  Variable num_isinf num_integral num_huge : NUM -> bool.
  Variable num_zero num_one num_inf : NUM.
  Variable ts_float : Z -> Z -> option NUM.
  Variable is_word is_space_re is_digit_re : char -> bool.
  Variable val_of : sample -> NUM.
  Variable ts_of : sample -> option (om_tsv NUM).
  Variable ex_of : sample -> option (om_exemplar NUM).
  Variable n : str.

  Notation ps := (g_ps_of NUM val_of ts_of ex_of).
  Notation rd_ok := (read_ok fix_tsexp NUM parse_num parse_float parse_int num_eqb num_isinf val_of ts_of ex_of).
  Notation num_le := (om_num_le NUM num_lt num_eqb).
  Notation pre_checks := (om_pre_checks NUM parse_float num_lt num_eqb num_integral num_zero num_one num_inf).
  Notation post_checks := (om_post_checks fix_isnan NUM num_lt num_eqb num_huge num_zero num_one).
  Notation s_acc := (sample_acc fix_nhkeys fix_nhsfx fix_isnan fix_tsexp NUM parse_num parse_float parse_int num_lt num_eqb
                       num_isinf num_integral num_huge num_zero num_one num_inf is_word is_space_re is_digit_re val_of ts_of ex_of).
  Notation f_acc := (family_acc fix_nhkeys fix_nhsfx fix_tsmix fix_isnan fix_tsexp NUM parse_num parse_float parse_int num_lt
                       num_eqb num_isinf num_integral num_huge num_zero num_one num_inf ts_float is_word is_space_re is_digit_re
                       val_of ts_of ex_of).
  Notation p_text := (om_parse false true fix_nhkeys fix_nhsfx fix_tsmix fix_isnan true true fix_tsexp fix_sname NUM
                      parse_num parse_float parse_int num_lt num_eqb num_isinf num_integral num_huge num_zero num_one num_inf
                      ts_float is_word is_space_re is_digit_re).

  (* a value the rules for counter-like samples accept: a number (not NaN), not negative *)
  Definition counts_ok (v : NUM) : Prop :=
    num_eqb v v = true /\ num_lt v num_zero = false /\ (fix_isnan = true \/ num_huge v = false).

  (* one sample of a summary family *)
  Definition om_ssample_ok (s : sample) : Prop :=
    rd_ok s /\ s_ex s = None /\ s_ts_om s = None /\
    ((s_name s = n /\ exists qv q, In (OM_quantile, qv) (s_labels s) /\ parse_float qv = Some q /\
                       num_le num_zero q = true /\ num_le q num_one = true /\
                       num_eqb q num_inf && negb (str_eqb qv OM_pInf) = false /\
                       num_lt (val_of s) num_zero = false)
     \/ (s_name s = n ++ OM_count /\ num_integral (val_of s) = true /\ counts_ok (val_of s))
     \/ (s_name s = n ++ OM_sum /\ counts_ok (val_of s))
     \/ s_name s = n ++ OM_created).

  (* the group key: the labels without quantile for a quantile sample, all labels otherwise *)
  Definition skey (s : sample) : list (str * str) :=
    if str_eqb (s_name s) n then sort_kv (d_remove str_eqb (sort_kv (s_labels s)) OM_quantile)
    else sort_kv (sort_kv (s_labels s)).

  Lemma ssample_none s : om_ssample_ok s -> ts_of s = None /\ ex_of s = None.
  Proof.
    intros ((_ & _ & _ & _ & Hts & Hex) & He & Ht & _). rewrite Ht in Hts. rewrite He in Hex. split; [exact Hts|exact Hex].
  Qed.

  Lemma ssample_name s : om_ssample_ok s ->
    s_name s = n \/ exists sfx, s_name s = n ++ sfx /\ (sfx = OM_count \/ sfx = OM_sum \/ sfx = OM_created).
  Proof.
    intros (_ & _ & _ & [(H & _)|[(H & _)|[(H & _)|H]]]); [left; exact H|right..]; eexists; split; eauto.
  Qed.

  Lemma ssample_pre s : om_ssample_ok s -> pre_checks n (Some OM_summary) (ps s) = Ok tt.
  Proof.
    intros (Hr & He & Ht & Hk). unfold om_pre_checks. cbn [os_name os_labels os_value g_ps_of].
    change (om_typ_is (Some OM_summary) OM_stateset) with false. change (om_typ_is (Some OM_summary) OM_summary) with true.
    cbv iota. cbn [bind andb].
    destruct Hk as [(Hn & qv & q & Hin & Hpq & H0 & H1 & Hun & _)|[(Hn & Hint & _)|[(Hn & _)|Hn]]]; rewrite Hn.
    - rewrite (app_neq_self n OM_bucket), (app_neq_self n OM_count), (app_neq_self n OM_gcount) by discriminate.
      cbn [orb bind]. rewrite str_eqb_refl. unfold om_labels_of. cbn [os_labels g_ps_of bind].
      destruct Hr as (_ & Hnd & _). rewrite (d_find_sorted _ _ _ Hnd Hin), Hpq, H0, H1. cbn [andb negb].
      unfold om_uncanonical. rewrite Hpq. cbn [bind]. rewrite Hun. reflexivity.
    - rewrite !str_eqb_app_head. rewrite (self_neq_app n OM_count) by discriminate.
      change (str_eqb OM_bucket OM_count) with false. change (str_eqb OM_count OM_count) with true. cbn [orb bind].
      unfold om_not_integral. rewrite Hint. reflexivity.
    - rewrite !str_eqb_app_head. rewrite (self_neq_app n OM_sum) by discriminate. reflexivity.
    - rewrite !str_eqb_app_head. rewrite (self_neq_app n OM_created) by discriminate. reflexivity.
  Qed.

  Lemma counts_isnan v : counts_ok v -> om_isnan fix_isnan NUM num_eqb num_huge (Some v) = Ok false.
  Proof.
    intros (Hnan & _ & Hhuge). unfold om_isnan, om_num_nan. rewrite Hnan. destruct Hhuge as [-> | ->]; [reflexivity|].
    destruct fix_isnan; reflexivity.
  Qed.

  Lemma ssample_post s : om_ssample_ok s -> post_checks n (Some OM_summary) (ps s) = Ok tt.
  Proof.
    intro Hs. destruct (ssample_none s Hs) as [_ Hex]. destruct Hs as (Hr & He & Ht & Hk).
    unfold om_post_checks. cbn [os_name os_value os_ex g_ps_of]. rewrite Hex.
    change (om_typ_is (Some OM_summary) OM_stateset) with false. change (om_typ_is (Some OM_summary) OM_info) with false.
    change (om_typ_is (Some OM_summary) OM_summary) with true. cbn [andb]. cbv zeta.
    destruct Hk as [(Hn & qv & q & _ & _ & _ & _ & _ & Hneg)|[(Hn & _ & Hc)|[(Hn & Hc)|Hn]]]; rewrite Hn.
    - rewrite str_eqb_refl. unfold om_value_of. cbn [os_value g_ps_of bind]. rewrite Hneg. cbn [bind].
      rewrite skipn_all. reflexivity.
    - rewrite (self_neq_app n OM_count) by discriminate. cbn [bind].
      rewrite skipn_app, skipn_all, Nat.sub_diag. cbn [skipn app].
      change (mem_str OM_count [OM_total; OM_sum; OM_count; OM_bucket; OM_gcount; OM_gsum]) with true.
      change (mem_str OM_count [OM_total; OM_sum; OM_count; OM_bucket; OM_gcount]) with true. cbv iota.
      rewrite (counts_isnan _ Hc). unfold om_value_of. cbn [bind os_value g_ps_of]. destruct Hc as (_ & -> & _). reflexivity.
    - rewrite (self_neq_app n OM_sum) by discriminate. cbn [bind].
      rewrite skipn_app, skipn_all, Nat.sub_diag. cbn [skipn app].
      change (mem_str OM_sum [OM_total; OM_sum; OM_count; OM_bucket; OM_gcount; OM_gsum]) with true.
      change (mem_str OM_sum [OM_total; OM_sum; OM_count; OM_bucket; OM_gcount]) with true. cbv iota.
      rewrite (counts_isnan _ Hc). unfold om_value_of. cbn [bind os_value g_ps_of]. destruct Hc as (_ & -> & _). reflexivity.
    - rewrite (self_neq_app n OM_created) by discriminate. cbn [bind].
      rewrite skipn_app, skipn_all, Nat.sub_diag. cbn [skipn app]. reflexivity.
  Qed.

  Lemma ssample_acc s : om_ssample_ok s -> s_acc OM_summary n s.
  Proof.
    intro Hs. pose proof (ssample_pre s Hs) as Hpre. pose proof (ssample_post s Hs) as Hpost.
    destruct (ssample_name s Hs) as [Hn|(sfx & Hn & Hsfx)]; destruct Hs as (Hr & He & _);
      (split; [exact Hr|]); (split; [left; exact He|]); (split; [|split; [exact Hpre|split; [exact Hpost|discriminate]]]).
    - rewrite Hn. unfold allowed_names. change (om_type_suffixes OM_summary [[]]) with [[]; OM_count; OM_sum; OM_created].
      cbn [map mem_str]. rewrite app_nil_r, str_eqb_refl. reflexivity.
    - rewrite Hn. unfold allowed_names. change (om_type_suffixes OM_summary [[]]) with [[]; OM_count; OM_sum; OM_created].
      cbn [map mem_str]. rewrite !str_eqb_app_head. destruct Hsfx as [->|[->| ->]]; rewrite ?orb_true_r; reflexivity.
  Qed.

  Lemma ssample_key s : om_ssample_ok s -> key_of NUM val_of ts_of ex_of OM_summary n skey s.
  Proof.
    intro Hs. unfold key_of, skey, om_group_for_sample. cbn [os_name os_labels g_ps_of].
    change (str_eqb OM_summary OM_info) with false. change (str_eqb OM_summary OM_summary) with true. cbn [andb].
    destruct (ssample_name s Hs) as [Hn|(sfx & Hn & Hsfx)]; rewrite Hn.
    - rewrite str_eqb_refl. unfold om_labels_of. cbn [os_labels g_ps_of bind].
      destruct Hs as (Hr & _ & _ & [(_ & qv & q & Hin & _)|[(Hn2 & _)|[(Hn2 & _)|Hn2]]]);
        try (exfalso; rewrite Hn in Hn2; apply (f_equal (@length char)) in Hn2; rewrite app_length in Hn2; cbn in Hn2; lia).
      destruct Hr as (_ & Hnd & _). unfold d_del, d_mem. rewrite (d_find_sorted _ _ _ Hnd Hin). cbn [bind].
      eexists. split; reflexivity.
    - assert (Hne : sfx <> []) by (destruct Hsfx as [->|[->| ->]]; discriminate).
      rewrite (app_neq_self n sfx Hne).
      change (str_eqb OM_summary OM_stateset) with false. change (str_eqb OM_summary OM_histogram) with false.
      change (str_eqb OM_summary OM_gaugehistogram) with false. cbn [orb andb].
      eexists. split; reflexivity.
  Qed.

  (* the hypotheses on a summary family; wgk skey is the grouping rule as a computable test, met by any group-by-group
     listing (wgk_groups) *)
  Definition summary_family_ok (f : family) : Prop :=
    f_name f = n /\ n <> [] /\ f_type f = Expo.S_summary /\
    (f_unit f = [] \/ ends_with (USCORE :: f_unit f) n = true) /\
    Forall om_ssample_ok (f_samples f) /\ wgk skey None [] [] (f_samples f) = true.

  Theorem summary_family_acc f : summary_family_ok f -> f_acc f.
  Proof.
    intros (Hfn & Hne & Hty & Hun & Hok & Hwg). unfold family_acc. rewrite Hfn, Hty.
    split; [exact Hne|]. split; [reflexivity|]. split.
    { unfold unit_ok. rewrite Hfn, Hty. destruct Hun as [Hun|Hun]; [left; exact Hun|right]. repeat split; auto. }
    split; [eapply Forall_impl; [|exact Hok]; apply ssample_acc|].
    split; [|discriminate].
    apply (grun_nots fix_tsmix NUM num_lt num_eqb ts_float val_of ts_of ex_of Expo.S_summary n skey (f_samples f) None [] []);
      [|exact Hwg].
    eapply Forall_impl; [|exact Hok]. intros s Hs. split; [apply ssample_key; exact Hs|apply (ssample_none s Hs)].
  Qed.

  (* C04 L5, summary: one summary family and the end marker *)
  Theorem om_summary_family_roundtrip f text :
    summary_family_ok f -> om_render true [f] = Ok text -> p_text text = Ok [gfam_of NUM val_of ts_of ex_of f].
  Proof.
    intros Hf Hr.
    apply (om_document_roundtrip fix_nhkeys fix_nhsfx fix_tsmix fix_isnan fix_tsexp fix_sname NUM parse_num parse_float parse_int
             num_lt num_eqb num_isinf num_integral num_huge num_zero num_one num_inf ts_float is_word is_space_re is_digit_re
             val_of ts_of ex_of [f] text); [|repeat constructor|exact Hr].
    constructor; [apply summary_family_acc; exact Hf|constructor].
  Qed.
End Summary.
