(* Lemmas about model/Wrappers.v (property C16). *)
From V Require Import lib.PyBase lib.Tac model.Wrappers.
Ltac Zify.zify_post_hook ::= Z.to_euclidean_division_equations.
Open Scope N_scope.

(* ====================================================================================================== *)
(* the exception hierarchy                                                                                *)
(* ====================================================================================================== *)

Lemma cls_eqb_eq a b : cls_eqb a b = true <-> a = b.
Proof.
  split.
  - destruct a, b; vm_compute; intro H; try reflexivity; discriminate.
  - intros ->. unfold cls_eqb. apply N.eqb_refl.
Qed.

Lemma issubclass_step c p d : In p (parents c) -> issubclass p d = true -> issubclass c d = true.
Proof.
  destruct c; simpl; intro H;
    repeat (destruct H as [<-|H]; [destruct d; vm_compute; intro; try reflexivity; discriminate|]); destruct H.
Qed.

Lemma issub_fuel_sound f : forall c d, issub_fuel f c d = true -> Ancestor c d.
Proof.
  induction f as [|f IH]; intros c d H; simpl in H; apply orb_true_iff in H; destruct H as [H|H].
  - apply cls_eqb_eq in H. subst. apply anc_refl.
  - discriminate.
  - apply cls_eqb_eq in H. subst. apply anc_refl.
  - apply existsb_exists in H. destruct H as (p & Hin & Hp). eapply anc_step; [exact Hin|]. apply IH. exact Hp.
Qed.

Lemma issubclass_sound c d : issubclass c d = true -> Ancestor c d.
Proof. apply issub_fuel_sound. Qed.

Lemma issubclass_iff c d : issubclass c d = true <-> Ancestor c d.
Proof.
  split; [apply issubclass_sound|].
  induction 1 as [c|c p d Hp _ IH].
  - destruct c; reflexivity.
  - eapply issubclass_step; eauto.
Qed.

Lemma isinstance_any_iff k ds : isinstance_any k ds = true <-> exists d, In d ds /\ Ancestor k d.
Proof.
  unfold isinstance_any. rewrite existsb_exists.
  split; intros [d [H1 H2]]; exists d; split; auto; apply issubclass_iff; auto.
Qed.

(* ---- exception specs: induction through the nested lists ---- *)
Fixpoint espec_ind' (P : espec -> Prop) (Hc : forall d, P (EClass d))
                    (Ht : forall l, Forall P l -> P (ETuple l)) (e : espec) : P e :=
  match e with
  | EClass d => Hc d
  | ETuple l =>
      Ht l ((fix go (l : list espec) : Forall P l :=
               match l with
               | [] => Forall_nil P
               | x :: r => Forall_cons x (espec_ind' P Hc Ht x) (go r)
               end) l)
  end.

(* isinstance(value, spec) is `except spec` *)
Lemma isinstance_spec_iff k e : isinstance_spec k e = true <-> Matches k e.
Proof.
  induction e as [d|l IH] using espec_ind'.
  - simpl. rewrite issubclass_iff. split; [apply m_class|]. intro H. inversion H; subst. assumption.
  - cbn [isinstance_spec]. rewrite existsb_exists. rewrite Forall_forall in IH. split.
    + intros (x & Hin & Hx). apply (m_tuple k l x Hin). apply IH; assumption.
    + intro H. inversion H as [|l' x Hin Hx]; subst. exists x. split; [assumption|]. apply IH; assumption.
Qed.

Lemma existsb_flat_map {A B} (f : B -> bool) (g : A -> list B) l :
  existsb f (flat_map g l) = existsb (fun a => existsb f (g a)) l.
Proof. induction l as [|a l IH]; simpl; [reflexivity|]. rewrite existsb_app, IH. reflexivity. Qed.

(* nesting, order and repetition do not matter: only the set of classes named *)
Lemma isinstance_spec_flat k e : isinstance_spec k e = isinstance_any k (spec_classes e).
Proof.
  unfold isinstance_any. induction e as [d|l IH] using espec_ind'.
  - simpl. rewrite orb_false_r. reflexivity.
  - cbn [isinstance_spec spec_classes]. rewrite existsb_flat_map.
    induction IH as [|x r Hx _ IHr]; simpl; [reflexivity|]. rewrite Hx, IHr. reflexivity.
Qed.

Lemma isinstance_spec_classes k e :
  isinstance_spec k e = true <-> exists d, In d (spec_classes e) /\ Ancestor k d.
Proof. rewrite isinstance_spec_flat. apply isinstance_any_iff. Qed.

Lemma spec_same_classes k e e' :
  (forall d, In d (spec_classes e) <-> In d (spec_classes e')) -> isinstance_spec k e = isinstance_spec k e'.
Proof.
  intro H. apply Bool.eq_iff_eq_true. rewrite !isinstance_spec_classes.
  split; intros (d & Hin & Ha); exists d; (split; [apply H; assumption|assumption]).
Qed.

(* a tuple that names no class - the empty tuple, or tuples of empty tuples - matches nothing *)
Lemma spec_no_class k e : spec_classes e = [] -> isinstance_spec k e = false.
Proof. intro H. rewrite isinstance_spec_flat, H. reflexivity. Qed.

Lemma empty_tuple_matches_nothing k : isinstance_spec k (ETuple []) = false.
Proof. reflexivity. Qed.

(* a class and the one-element tuple of it, and a tuple and itself nested once more, are the same configuration *)
Lemma spec_singleton k e : isinstance_spec k (ETuple [e]) = isinstance_spec k e.
Proof. cbn [isinstance_spec existsb]. apply orb_false_r. Qed.

(* count_exceptions() without argument: exactly the classes below Exception *)
Lemma default_matches k : isinstance_spec k default_exceptions = true <-> Ancestor k C_Exception.
Proof. unfold default_exceptions. simpl. apply issubclass_iff. Qed.

Lemma default_excludes :
  forall k, In k [C_BaseException; C_KeyboardInterrupt; C_SystemExit; C_GeneratorExit; C_UserBase; C_UserExit;
                  C_BaseExceptionGroup; C_UserBaseGroup] ->
  isinstance_spec k default_exceptions = false.
Proof. intros k H. simpl in H. repeat (destruct H as [<-|H]; [reflexivity|]). destruct H. Qed.

(* ---- exception groups: classes of the hierarchy like any other; what they hold is not looked at ---- *)
Lemma exception_group_ancestors d :
  Ancestor C_ExceptionGroup d <-> In d [C_ExceptionGroup; C_BaseExceptionGroup; C_Exception; C_BaseException].
Proof.
  rewrite <- issubclass_iff.
  destruct d; split; intro H; try reflexivity; try discriminate H; try (simpl; auto 8);
    simpl in H; intuition discriminate.
Qed.

Lemma base_exception_group_ancestors d :
  Ancestor C_BaseExceptionGroup d <-> In d [C_BaseExceptionGroup; C_BaseException].
Proof.
  rewrite <- issubclass_iff.
  destruct d; split; intro H; try reflexivity; try discriminate H; try (simpl; auto 8);
    simpl in H; intuition discriminate.
Qed.

Lemma group_matches_by_class e :
  (isinstance_spec C_ExceptionGroup e = true <->
   exists d, In d (spec_classes e) /\ In d [C_ExceptionGroup; C_BaseExceptionGroup; C_Exception; C_BaseException]) /\
  (isinstance_spec C_BaseExceptionGroup e = true <->
   exists d, In d (spec_classes e) /\ In d [C_BaseExceptionGroup; C_BaseException]).
Proof.
  rewrite !isinstance_spec_classes. split; split; intros (d & Hin & Ha); exists d; (split; [exact Hin|]).
  - apply exception_group_ancestors; exact Ha.
  - apply exception_group_ancestors; exact Ha.
  - apply base_exception_group_ancestors; exact Ha.
  - apply base_exception_group_ancestors; exact Ha.
Qed.

(* ====================================================================================================== *)
(* part (a): field-by-field behaviour of tick / enter / exit                                              *)
(* ====================================================================================================== *)

Lemma tick_fields s :
  let s' := snd (tick s) in
  cnt s' = cnt s /\ gau s' = gau s /\ olog s' = olog s /\ plog s' = plog s /\
  t_fresh s' = t_fresh s /\ next_t s' = next_t s /\ t_held s' = t_held s.
Proof. unfold tick. destruct (clock s); simpl; repeat split; reflexivity. Qed.

Lemma upd_same {A} (f : N -> A) k v : upd f k v k = v.
Proof. unfold upd. rewrite N.eqb_refl. reflexivity. Qed.

Lemma upd_other {A} (f : N -> A) k v k' : k' <> k -> upd f k v k' = f k'.
Proof. unfold upd. intro H. apply N.eqb_neq in H. rewrite H. reflexivity. Qed.

(* __exit__ never returns a true value *)
Lemma cm_exit_false m o s : fst (cm_exit m o s) = false.
Proof. destruct m; simpl; try reflexivity. destruct (tick s). reflexivity. Qed.

Lemma with_stmt_fst m blk s : fst (with_stmt m blk s) = fst (blk (cm_enter m s)).
Proof.
  unfold with_stmt. destruct (blk (cm_enter m s)) as [o s2]. simpl.
  pose proof (cm_exit_false m o s2) as H. destruct (cm_exit m o s2) as [sw s3]. simpl in H. subst sw.
  destruct o; reflexivity.
Qed.

Lemma with_stmt_snd m blk s :
  snd (with_stmt m blk s) = snd (cm_exit m (fst (blk (cm_enter m s))) (snd (blk (cm_enter m s)))).
Proof.
  unfold with_stmt. destruct (blk (cm_enter m s)) as [o s2]. simpl.
  destruct (cm_exit m o s2) as [sw s3]. reflexivity.
Qed.

(* ---- transparency ---- *)
Lemma eval_result b : forall s, fst (eval b s) = result b.
Proof.
  induction b as [v|c o|g|b1 IH1 b2 IH2|b1 IH1 cs h IH2|w b1 IH|t tg b1 IH]; intro s; simpl; try reflexivity.
  - specialize (IH1 s). destruct (eval b1 s) as [o1 s1]. simpl in IH1. subst o1.
    destruct (result b1); [apply IH2|reflexivity].
  - specialize (IH1 s). destruct (eval b1 s) as [o1 s1]. simpl in IH1. subst o1.
    destruct (result b1) as [v|c o]; [reflexivity|].
    destruct (isinstance_any c cs); [apply IH2|reflexivity].
  - destruct (make_cm w s) as [m s1]. rewrite with_stmt_fst. apply IH.
  - rewrite with_stmt_fst. apply IH.
Qed.

Lemma result_erase b : result (erase b) = result b.
Proof.
  induction b; simpl; try reflexivity; try assumption.
  - rewrite IHb1, IHb2. reflexivity.
  - rewrite IHb1, IHb2. reflexivity.
Qed.

Lemma transparent b s s' : fst (eval b s) = fst (eval (erase b) s').
Proof. rewrite !eval_result. symmetry. apply result_erase. Qed.

Lemma transparent_call w b s s' : fst (eval (Call w b) s) = fst (eval b s').
Proof. rewrite !eval_result. reflexivity. Qed.

Lemma transparent_recurse k w b s s' : fst (eval (recurse k w b) s) = fst (eval b s').
Proof. rewrite !eval_result. induction k; simpl; auto. Qed.

(* decompose one step of eval *)
Lemma eval_seq b1 b2 s :
  eval (Seq b1 b2) s =
  match result b1 with Ret _ => eval b2 (snd (eval b1 s)) | Exn c o => (Exn c o, snd (eval b1 s)) end.
Proof.
  simpl. pose proof (eval_result b1 s) as H. destruct (eval b1 s) as [o1 s1]. simpl in *. subst o1.
  destruct (result b1); reflexivity.
Qed.

Lemma eval_try b1 cs h s :
  eval (Try b1 cs h) s =
  match result b1 with
  | Ret v => (Ret v, snd (eval b1 s))
  | Exn c o => if isinstance_any c cs then eval h (snd (eval b1 s)) else (Exn c o, snd (eval b1 s))
  end.
Proof.
  simpl. pose proof (eval_result b1 s) as H. destruct (eval b1 s) as [o1 s1]. simpl in *. subst o1.
  destruct (result b1); reflexivity.
Qed.

Lemma eval_with_snd m b s :
  snd (with_stmt m (eval b) s) = snd (cm_exit m (result b) (snd (eval b (cm_enter m s)))).
Proof. rewrite with_stmt_snd, eval_result. reflexivity. Qed.

(* ---- the in-progress gauge ---- *)
Lemma gau_enter m s g :
  gau (cm_enter m s) g = match m with CmTrack g' => if N.eqb g g' then (gau s g + 1)%Z else gau s g | _ => gau s g end.
Proof.
  destruct m as [c excs|g'|t tg]; simpl; try reflexivity.
  - unfold upd. destruct (N.eqb g g') eqn:E; [apply N.eqb_eq in E; subst; reflexivity|reflexivity].
  - pose proof (tick_fields s) as T. destruct (tick s) as [r s1]. simpl in T. destruct T as (_ & T & _).
    destruct t; simpl; rewrite T; reflexivity.
Qed.

Lemma gau_exit m o s g :
  gau (snd (cm_exit m o s)) g =
  match m with
  | CmTrack g' => if N.eqb g g' then (gau s g - 1)%Z else gau s g
  | CmTimer _ (TSet g') => if N.eqb g g' then Z.max (fst (tick s) - get_start
        match m with CmTimer t _ => t | _ => Fresh 0 end (snd (tick s))) 0 else gau s g
  | _ => gau s g
  end.
Proof.
  destruct m as [c excs|g'|t tg]; simpl.
  - destruct o as [v|k ob]; [reflexivity|]. destruct (isinstance_spec k excs); reflexivity.
  - unfold upd. destruct (N.eqb g g') eqn:E; [apply N.eqb_eq in E; subst; reflexivity|reflexivity].
  - pose proof (tick_fields s) as T. destruct (tick s) as [r s1]. simpl in *. destruct T as (_ & T & _).
    destruct tg as [m'|g']; simpl; [rewrite T; reflexivity|].
    unfold upd. destruct (N.eqb g g'); [reflexivity|rewrite T; reflexivity].
Qed.

Lemma gau_make_cm w s : gau (snd (make_cm w s)) = gau s.
Proof. destruct w; reflexivity. Qed.

Lemma balanced b : forall s g, no_set_on g b = true -> gau (snd (eval b s)) g = gau s g.
Proof.
  induction b as [v|c o|g0|b1 IH1 b2 IH2|b1 IH1 cs h IH2|w b1 IH|t tg b1 IH]; intros s g Hn; try reflexivity.
  - simpl in Hn. apply andb_true_iff in Hn as [H1 H2]. rewrite eval_seq.
    destruct (result b1); simpl; [rewrite IH2 by assumption|]; apply IH1; assumption.
  - simpl in Hn. apply andb_true_iff in Hn as [H1 H2]. rewrite eval_try.
    destruct (result b1) as [v|c o]; simpl; [apply IH1; assumption|].
    destruct (isinstance_any c cs); simpl; [rewrite IH2 by assumption|]; apply IH1; assumption.
  - simpl in Hn. apply andb_true_iff in Hn as [H1 H2]. simpl eval.
    pose proof (gau_make_cm w s) as G. destruct (make_cm w s) as [m s1] eqn:E. simpl in G.
    rewrite eval_with_snd, gau_exit, IH by assumption. rewrite gau_enter, G.
    destruct w as [c excs|g'|[m'|g']]; simpl in E; inversion E; subst; clear E; try reflexivity.
    + destruct (N.eqb g g'); [lia|reflexivity].
    + apply negb_true_iff in H1. rewrite H1. reflexivity.
  - simpl in Hn. apply andb_true_iff in Hn as [H1 H2]. simpl eval.
    rewrite eval_with_snd, gau_exit, IH by assumption. rewrite gau_enter.
    destruct tg as [m'|g']; [reflexivity|]. apply negb_true_iff in H1. rewrite H1. reflexivity.
Qed.

(* ---- observations ---- *)
Lemma olog_enter m s : olog (cm_enter m s) = olog s.
Proof.
  destruct m as [c excs|g'|t tg]; simpl; try reflexivity.
  pose proof (tick_fields s) as T. destruct (tick s) as [r s1]. simpl in T. destruct T as (_ & _ & T & _).
  destruct t; simpl; exact T.
Qed.

Definition exit_duration (t : tref) (s : st) : Z := Z.max (fst (tick s) - get_start t (snd (tick s))) 0.

Lemma olog_exit m o s :
  olog (snd (cm_exit m o s)) =
  match m with
  | CmTimer t tg => olog s ++ [(target_mid tg, exit_duration t s)]
  | _ => olog s
  end.
Proof.
  destruct m as [c excs|g'|t tg]; simpl.
  - destruct o as [v|k ob]; [reflexivity|]. destruct (isinstance_spec k excs); reflexivity.
  - reflexivity.
  - unfold exit_duration. pose proof (tick_fields s) as T. destruct (tick s) as [r s1]. simpl in *.
    destruct T as (_ & _ & T & _). destruct tg; simpl; rewrite T; reflexivity.
Qed.

Lemma exit_duration_nonneg t s : (0 <= exit_duration t s)%Z.
Proof. unfold exit_duration. lia. Qed.

Lemma olog_make_cm w s : olog (snd (make_cm w s)) = olog s.
Proof. destruct w; reflexivity. Qed.

Definition nonneg_entries (l : list (mid * Z)) : Prop := Forall (fun e => (0 <= snd e)%Z) l.

Lemma observations b : forall s, exists new,
  olog (snd (eval b s)) = olog s ++ new /\ length new = timers_entered b /\ nonneg_entries new.
Proof.
  induction b as [v|c o|g0|b1 IH1 b2 IH2|b1 IH1 cs h IH2|w b1 IH|t tg b1 IH]; intro s.
  - exists []. simpl. rewrite app_nil_r. repeat split. constructor.
  - exists []. simpl. rewrite app_nil_r. repeat split. constructor.
  - exists []. simpl. rewrite app_nil_r. repeat split. constructor.
  - rewrite eval_seq. destruct (IH1 s) as (n1 & E1 & L1 & F1). simpl timers_entered.
    destruct (result b1).
    + destruct (IH2 (snd (eval b1 s))) as (n2 & E2 & L2 & F2). exists (n1 ++ n2).
      rewrite E2, E1, app_assoc, app_length. repeat split; [lia|apply Forall_app; auto].
    + exists n1. simpl. repeat split; auto. lia.
  - rewrite eval_try. destruct (IH1 s) as (n1 & E1 & L1 & F1). simpl timers_entered.
    destruct (result b1) as [v|c o].
    + exists n1. simpl. repeat split; auto. lia.
    + destruct (isinstance_any c cs).
      * destruct (IH2 (snd (eval b1 s))) as (n2 & E2 & L2 & F2). exists (n1 ++ n2).
        rewrite E2, E1, app_assoc, app_length. repeat split; [lia|apply Forall_app; auto].
      * exists n1. simpl. repeat split; auto. lia.
  - simpl eval. pose proof (olog_make_cm w s) as G. destruct (make_cm w s) as [m s1] eqn:E. simpl in G.
    rewrite eval_with_snd, olog_exit.
    destruct (IH (cm_enter m s1)) as (n1 & E1 & L1 & F1). rewrite olog_enter, G in E1.
    destruct w as [c excs|g'|tg]; simpl in E; inversion E; subst; clear E; simpl timers_entered.
    + exists n1. auto.
    + exists n1. auto.
    + eexists (n1 ++ [_]). rewrite E1, app_assoc. split; [reflexivity|]. rewrite app_length. simpl.
      split; [lia|]. apply Forall_app. split; [assumption|]. constructor; [apply exit_duration_nonneg|constructor].
  - simpl eval. rewrite eval_with_snd, olog_exit.
    destruct (IH (cm_enter (CmTimer (Held t) tg) s)) as (n1 & E1 & L1 & F1). rewrite olog_enter in E1.
    eexists (n1 ++ [_]). rewrite E1, app_assoc. split; [reflexivity|]. rewrite app_length. simpl.
    split; [lia|]. apply Forall_app. split; [assumption|]. constructor; [apply exit_duration_nonneg|constructor].
Qed.

(* one timed call: exactly one more observation than its body makes, non-negative, whatever the body does *)
Lemma one_observation tg b s :
  exists d, (0 <= d)%Z /\
    olog (snd (eval (Call (WTime tg) b) s)) =
    olog (snd (eval b (cm_enter (CmTimer (Fresh (next_t s)) tg) (set_next s (next_t s + 1))))) ++ [(target_mid tg, d)].
Proof.
  simpl eval. rewrite eval_with_snd, olog_exit. eexists. split; [apply exit_duration_nonneg|reflexivity].
Qed.

(* ---- the Timer made for a decorated call is nobody else's: its _start survives the body ---- *)
Lemma fresh_enter m s :
  next_t (cm_enter m s) = next_t s /\
  forall i, t_fresh (cm_enter m s) i =
    match m with CmTimer (Fresh j) _ => if N.eqb i j then fst (tick s) else t_fresh s i | _ => t_fresh s i end.
Proof.
  destruct m as [c excs|g'|t tg]; simpl; try (split; reflexivity).
  pose proof (tick_fields s) as T. destruct (tick s) as [r s1]. simpl in *.
  destruct T as (_ & _ & _ & _ & T5 & T6 & _).
  destruct t; simpl; rewrite ?T5, ?T6; split; try reflexivity; intro i'; unfold upd; rewrite ?T5; reflexivity.
Qed.

Lemma fresh_exit m o s : next_t (snd (cm_exit m o s)) = next_t s /\ t_fresh (snd (cm_exit m o s)) = t_fresh s.
Proof.
  destruct m as [c excs|g'|t tg]; simpl.
  - destruct o as [v|k ob]; [split; reflexivity|]. destruct (isinstance_spec k excs); split; reflexivity.
  - split; reflexivity.
  - pose proof (tick_fields s) as T. destruct (tick s) as [r s1]. simpl in *.
    destruct T as (_ & _ & _ & _ & T5 & T6 & _). destruct tg; simpl; rewrite T5, T6; split; reflexivity.
Qed.

Lemma fresh_stable b : forall s,
  next_t s <= next_t (snd (eval b s)) /\
  forall i, i < next_t s -> t_fresh (snd (eval b s)) i = t_fresh s i.
Proof.
  induction b as [v|c o|g0|b1 IH1 b2 IH2|b1 IH1 cs h IH2|w b1 IH|t tg b1 IH]; intro s;
    try (simpl; split; [lia|reflexivity]).
  - rewrite eval_seq. destruct (IH1 s) as [A1 B1]. destruct (result b1); simpl; [|split; assumption].
    destruct (IH2 (snd (eval b1 s))) as [A2 B2]. split; [lia|]. intros i Hi. rewrite B2 by lia. apply B1. exact Hi.
  - rewrite eval_try. destruct (IH1 s) as [A1 B1]. destruct (result b1) as [v|c o]; simpl; [split; assumption|].
    destruct (isinstance_any c cs); [|split; assumption].
    destruct (IH2 (snd (eval b1 s))) as [A2 B2]. split; [lia|]. intros i Hi. rewrite B2 by lia. apply B1. exact Hi.
  - simpl eval. destruct (make_cm w s) as [m s1] eqn:E. rewrite eval_with_snd.
    destruct (fresh_exit m (result b1) (snd (eval b1 (cm_enter m s1)))) as [X1 X2]. rewrite X1, X2.
    destruct (IH (cm_enter m s1)) as [A B]. destruct (fresh_enter m s1) as [Y1 Y2]. rewrite Y1 in A, B.
    destruct w as [c excs|g'|tg]; simpl in E; inversion E; subst; clear E; simpl in *.
    + split; [exact A|]. intros i Hi. rewrite B by exact Hi. apply Y2.
    + split; [exact A|]. intros i Hi. rewrite B by exact Hi. apply Y2.
    + split; [lia|]. intros i Hi. rewrite B by lia. rewrite Y2.
      assert (N.eqb i (next_t s) = false) as -> by (apply N.eqb_neq; lia). reflexivity.
  - simpl eval. rewrite eval_with_snd.
    destruct (fresh_exit (CmTimer (Held t) tg) (result b1) (snd (eval b1 (cm_enter (CmTimer (Held t) tg) s)))) as [X1 X2].
    rewrite X1, X2. destruct (IH (cm_enter (CmTimer (Held t) tg) s)) as [A B].
    destruct (fresh_enter (CmTimer (Held t) tg) s) as [Y1 Y2]. rewrite Y1 in A, B.
    split; [exact A|]. intros i Hi. rewrite B by exact Hi. apply Y2.
Qed.

(* the duration observed by a decorated / with-block timed call is max(exit reading - entry reading, 0) of that very call *)
Lemma own_interval tg b s :
  let s_in := cm_enter (CmTimer (Fresh (next_t s)) tg) (set_next s (next_t s + 1)) in
  let s_out := snd (eval b s_in) in
  olog (snd (eval (Call (WTime tg) b) s)) =
  olog s_out ++ [(target_mid tg, Z.max (fst (tick s_out) - fst (tick s)) 0)].
Proof.
  intros s_in s_out. simpl eval. rewrite eval_with_snd, olog_exit. fold s_in. fold s_out.
  f_equal. f_equal. f_equal. unfold exit_duration. f_equal. f_equal. simpl get_start.
  pose proof (tick_fields s_out) as T. destruct T as (_ & _ & _ & _ & T5 & _). rewrite T5.
  destruct (fresh_stable b s_in) as [_ B]. destruct (fresh_enter (CmTimer (Fresh (next_t s)) tg) (set_next s (next_t s + 1))) as [Y1 Y2].
  fold s_in in Y1, Y2. unfold s_out. rewrite B by (rewrite Y1; simpl; lia).
  rewrite Y2. rewrite N.eqb_refl. unfold tick. simpl. destruct (clock s); reflexivity.
Qed.

(* ---- the exception counter ---- *)
Lemma cnt_enter m s : cnt (cm_enter m s) = cnt s.
Proof.
  destruct m as [c excs|g'|t tg]; simpl; try reflexivity.
  pose proof (tick_fields s) as T. destruct (tick s) as [r s1]. simpl in T. destruct T as (T & _).
  destruct t; simpl; exact T.
Qed.

Lemma cnt_exit m o s c :
  cnt (snd (cm_exit m o s)) c =
  cnt s c + match m, o with
            | CmCount c' excs, Exn k _ => if N.eqb c c' && isinstance_spec k excs then 1 else 0
            | _, _ => 0
            end.
Proof.
  destruct m as [c' excs|g'|t tg]; simpl.
  - destruct o as [v|k ob]; [lia|]. destruct (isinstance_spec k excs); simpl.
    + unfold upd. destruct (N.eqb c c') eqn:E; simpl; [apply N.eqb_eq in E; subst; reflexivity|lia].
    + rewrite andb_false_r. lia.
  - lia.
  - pose proof (tick_fields s) as T. destruct (tick s) as [r s1]. simpl in *. destruct T as (T & _).
    destruct tg; simpl; rewrite T; lia.
Qed.

Lemma cnt_make_cm w s : cnt (snd (make_cm w s)) = cnt s.
Proof. destruct w; reflexivity. Qed.

Lemma counts b : forall s c, cnt (snd (eval b s)) c = cnt s c + counted c b.
Proof.
  induction b as [v|k o|g0|b1 IH1 b2 IH2|b1 IH1 cs h IH2|w b1 IH|t tg b1 IH]; intros s c; try (simpl; lia).
  - rewrite eval_seq. simpl counted. destruct (result b1); simpl; [rewrite IH2, IH1|rewrite IH1]; lia.
  - rewrite eval_try. simpl counted. destruct (result b1) as [v|k o]; simpl; [rewrite IH1; lia|].
    destruct (isinstance_any k cs); [rewrite IH2, IH1|simpl; rewrite IH1]; lia.
  - simpl eval. pose proof (cnt_make_cm w s) as G. destruct (make_cm w s) as [m s1] eqn:E. simpl in G.
    rewrite eval_with_snd, cnt_exit, IH, cnt_enter, G. simpl counted. unfold escapes_matching.
    destruct w as [c' excs|g'|tg]; simpl in E; inversion E; subst; clear E.
    + destruct (result b1) as [v|k o]; [rewrite andb_false_r; lia|lia].
    + destruct (result b1); lia.
    + destruct (result b1); lia.
  - simpl eval. rewrite eval_with_snd, cnt_exit, IH, cnt_enter. simpl counted. destruct (result b1); lia.
Qed.

Lemma counts_call c excs b s :
  forall c', cnt (snd (eval (Call (WCount c excs) b) s)) c' =
             cnt (snd (eval b s)) c' + (if N.eqb c' c && escapes_matching b excs then 1 else 0).
Proof. intro c'. rewrite !counts. simpl counted. lia. Qed.

Lemma escapes_matching_iff b excs :
  escapes_matching b excs = true <->
  exists k o d, result b = Exn k o /\ In d (spec_classes excs) /\ Ancestor k d.
Proof.
  unfold escapes_matching. destruct (result b) as [v|k o].
  - split; [discriminate|]. intros (k & o & d & H & _). discriminate.
  - rewrite isinstance_spec_classes. split.
    + intros (d & H1 & H2). exists k, o, d. auto.
    + intros (k' & o' & d & H & H1 & H2). inversion H; subst. exists d. auto.
Qed.

Lemma escapes_matching_except b excs :
  escapes_matching b excs = true <-> exists k o, result b = Exn k o /\ Matches k excs.
Proof.
  unfold escapes_matching. destruct (result b) as [v|k o].
  - split; [discriminate|]. intros (k & o & H & _). discriminate.
  - rewrite isinstance_spec_iff. split.
    + intro H. exists k, o. auto.
    + intros (k' & o' & H & H1). inversion H; subst. assumption.
Qed.

(* the factory: the configuration that was given is the configuration that is used *)
Lemma counts_configured c arg b s :
  forall c', cnt (snd (eval (Call (count_exceptions c arg) b) s)) c' =
             cnt (snd (eval b s)) c' +
             (if N.eqb c' c && escapes_matching b (match arg with Some e => e | None => EClass C_Exception end)
              then 1 else 0).
Proof. intro c'. unfold count_exceptions, default_exceptions. apply counts_call. Qed.

(* nothing configured, nothing counted: whatever the body does *)
Lemma counts_nothing_configured c e b s :
  spec_classes e = [] -> forall c', cnt (snd (eval (Call (count_exceptions c (Some e)) b) s)) c' = cnt (snd (eval b s)) c'.
Proof.
  intros H c'. rewrite counts_configured. unfold escapes_matching.
  destruct (result b) as [v|k o]; [rewrite andb_false_r; lia|]. rewrite (spec_no_class k e H), andb_false_r. lia.
Qed.

(* a raised exception of class k under count_exceptions(e): one more exactly when isinstance(k-object, e) *)
Lemma raise_counted c e k o s :
  cnt (snd (eval (Call (count_exceptions c (Some e)) (Raise k o)) s)) c - cnt s c =
  if isinstance_spec k e then 1 else 0.
Proof.
  rewrite counts_configured, N.eqb_refl. unfold escapes_matching. cbn [result eval snd andb].
  destruct (isinstance_spec k e); lia.
Qed.

Lemma group_counted_by_class c e o s :
  let run := fun k => cnt (snd (eval (Call (count_exceptions c (Some e)) (Raise k o)) s)) c - cnt s c in
  (run C_ExceptionGroup = 1 <->
   exists d, In d (spec_classes e) /\ In d [C_ExceptionGroup; C_BaseExceptionGroup; C_Exception; C_BaseException]) /\
  (run C_BaseExceptionGroup = 1 <->
   exists d, In d (spec_classes e) /\ In d [C_BaseExceptionGroup; C_BaseException]) /\
  (forall k, run k = if isinstance_spec k e then 1 else 0).
Proof.
  intro run. unfold run. destruct (group_matches_by_class e) as [H1 H2].
  split; [|split].
  - rewrite raise_counted, <- H1. destruct (isinstance_spec C_ExceptionGroup e); split; intro; auto; discriminate.
  - rewrite raise_counted, <- H2. destruct (isinstance_spec C_BaseExceptionGroup e); split; intro; auto; discriminate.
  - intro k. apply raise_counted.
Qed.

(* ---- what the body sees while it runs ---- *)
Lemma plog_enter m s : plog (cm_enter m s) = plog s.
Proof.
  destruct m as [c excs|g'|t tg]; simpl; try reflexivity.
  pose proof (tick_fields s) as T. destruct (tick s) as [r s1]. simpl in T. destruct T as (_ & _ & _ & T & _).
  destruct t; simpl; exact T.
Qed.

Lemma plog_exit m o s : plog (snd (cm_exit m o s)) = plog s.
Proof.
  destruct m as [c excs|g'|t tg]; simpl.
  - destruct o as [v|k ob]; [reflexivity|]. destruct (isinstance_spec k excs); reflexivity.
  - reflexivity.
  - pose proof (tick_fields s) as T. destruct (tick s) as [r s1]. simpl in *. destruct T as (_ & _ & _ & T & _).
    destruct tg; simpl; exact T.
Qed.

Lemma plog_make_cm w s : plog (snd (make_cm w s)) = plog s.
Proof. destruct w; reflexivity. Qed.

Lemma no_set_timer_on b g : no_set_timer b = true -> no_set_on g b = true.
Proof.
  induction b as [v|k o|g0|b1 IH1 b2 IH2|b1 IH1 cs h IH2|w b1 IH|t tg b1 IH]; simpl; intro H; try reflexivity.
  - apply andb_true_iff in H as [H1 H2]. rewrite IH1, IH2; auto.
  - apply andb_true_iff in H as [H1 H2]. rewrite IH1, IH2; auto.
  - apply andb_true_iff in H as [H1 H2]. rewrite IH by assumption.
    destruct w as [c excs|g'|[m|g']]; try reflexivity. discriminate.
  - apply andb_true_iff in H as [H1 H2]. rewrite IH by assumption. destruct tg; [reflexivity|discriminate].
Qed.

Lemma probe_spec_ext b : forall f1 f2, (forall g, f1 g = f2 g) -> probe_spec f1 b = probe_spec f2 b.
Proof.
  induction b as [v|k o|g0|b1 IH1 b2 IH2|b1 IH1 cs h IH2|w b1 IH|t tg b1 IH]; intros f1 f2 H; simpl; try reflexivity.
  - rewrite H. reflexivity.
  - rewrite (IH1 f1 f2 H), (IH2 f1 f2 H). reflexivity.
  - rewrite (IH1 f1 f2 H), (IH2 f1 f2 H). reflexivity.
  - destruct w as [c excs|g'|tg]; try (apply IH; assumption).
    apply IH. intro g. unfold upd. rewrite H. destruct (N.eqb g g'); [reflexivity|apply H].
  - apply IH; assumption.
Qed.

Lemma probes b : forall s, no_set_timer b = true ->
  plog (snd (eval b s)) = plog s ++ probe_spec (gau s) b.
Proof.
  induction b as [v|k o|g0|b1 IH1 b2 IH2|b1 IH1 cs h IH2|w b1 IH|t tg b1 IH]; intros s Hn; simpl probe_spec.
  - simpl. rewrite app_nil_r. reflexivity.
  - simpl. rewrite app_nil_r. reflexivity.
  - reflexivity.
  - simpl in Hn. apply andb_true_iff in Hn as [H1 H2]. rewrite eval_seq.
    destruct (result b1); simpl; [|rewrite app_nil_r; apply IH1; assumption].
    rewrite IH2, IH1 by assumption. rewrite <- app_assoc. f_equal. f_equal.
    apply probe_spec_ext. intro g. apply balanced. apply no_set_timer_on. assumption.
  - simpl in Hn. apply andb_true_iff in Hn as [H1 H2]. rewrite eval_try.
    destruct (result b1) as [v|k o]; simpl; [rewrite app_nil_r; apply IH1; assumption|].
    destruct (isinstance_any k cs); simpl; [|rewrite app_nil_r; apply IH1; assumption].
    rewrite IH2, IH1 by assumption. rewrite <- app_assoc. f_equal. f_equal.
    apply probe_spec_ext. intro g. apply balanced. apply no_set_timer_on. assumption.
  - simpl in Hn. apply andb_true_iff in Hn as [H1 H2]. simpl eval.
    pose proof (plog_make_cm w s) as G. pose proof (gau_make_cm w s) as G2.
    destruct (make_cm w s) as [m s1] eqn:E. simpl in G, G2.
    rewrite eval_with_snd, plog_exit, IH, plog_enter, G by assumption. f_equal.
    destruct w as [c excs|g'|tg]; simpl in E; inversion E; subst; clear E.
    + reflexivity.
    + apply probe_spec_ext. intro g. rewrite gau_enter. unfold upd.
      destruct (N.eqb g g') eqn:Eg; [apply N.eqb_eq in Eg; subst; reflexivity|reflexivity].
    + apply probe_spec_ext. intro g. rewrite gau_enter, G2. reflexivity.
  - simpl in Hn. apply andb_true_iff in Hn as [H1 H2]. simpl eval.
    rewrite eval_with_snd, plog_exit, IH, plog_enter by assumption. f_equal.
    apply probe_spec_ext. intro g. rewrite gau_enter. reflexivity.
Qed.

(* ====================================================================================================== *)
(* part (b): binding and forwarding                                                                       *)
(* ====================================================================================================== *)

Definition keys (kw : assoc str val) : list str := map fst kw.

(* a `def` has no duplicate parameter names; a call has no duplicate keywords *)
Definition wf_params (p : params) : Prop := NoDup (posonly p ++ args p ++ kwonly p).
Definition wf_call (kw : assoc str val) : Prop := NoDup (keys kw).
(* no keyword of the call is spelled like a positional-only parameter *)
Definition no_collision (p : params) (kw : assoc str val) : Prop := forall k, In k (keys kw) -> ~ In k (posonly p).

Lemma mem_str_app s a b : mem_str s (a ++ b) = mem_str s a || mem_str s b.
Proof. induction a as [|x a IH]; simpl; [reflexivity|]. rewrite IH, orb_assoc. reflexivity. Qed.

Lemma mem_str_false s l : mem_str s l = false <-> ~ In s l.
Proof.
  destruct (mem_str s l) eqn:E.
  - split; [discriminate|]. intro H. exfalso. apply H. apply mem_str_In. exact E.
  - split; [|reflexivity]. intros _ Hin. apply mem_str_In in Hin. congruence.
Qed.

Lemma kw_find_notin kw k : ~ In k (keys kw) -> kw_find kw k = None.
Proof.
  unfold kw_find, keys. induction kw as [|[k' v] kw IH]; simpl; intro H; [reflexivity|].
  destruct (str_eqb k k') eqn:E.
  - apply str_eqb_eq in E. subst. exfalso. apply H. left. reflexivity.
  - apply IH. intro. apply H. right. assumption.
Qed.

Lemma kw_find_in kw k v : kw_find kw k = Some v -> In k (keys kw).
Proof.
  unfold kw_find, keys. induction kw as [|[k' v'] kw IH]; simpl; intro H; [discriminate|].
  destruct (str_eqb k k') eqn:E.
  - apply str_eqb_eq in E. left. auto.
  - right. apply IH. exact H.
Qed.

Lemma kw_mem_notin kw k : ~ In k (keys kw) -> kw_mem kw k = false.
Proof. intro H. unfold kw_mem. rewrite kw_find_notin by assumption. reflexivity. Qed.

Lemma kw_find_app_notin pre kw k : ~ In k (keys pre) -> kw_find (pre ++ kw) k = kw_find kw k.
Proof.
  unfold kw_find, keys. induction pre as [|[k' v'] pre IH]; simpl; intro H; [reflexivity|].
  destruct (str_eqb k k') eqn:E.
  - apply str_eqb_eq in E. subst. exfalso. apply H. left. reflexivity.
  - apply IH. intro. apply H. right. assumption.
Qed.

Lemma filter_all {A} (f : A -> bool) l : (forall x, In x l -> f x = true) -> filter f l = l.
Proof.
  induction l as [|x l IH]; simpl; intro H; [reflexivity|].
  rewrite (H x) by (left; reflexivity). f_equal. apply IH. intros. apply H. right. assumption.
Qed.

Lemma filter_none {A} (f : A -> bool) l : (forall x, In x l -> f x = false) -> filter f l = [].
Proof.
  induction l as [|x l IH]; simpl; intro H; [reflexivity|].
  rewrite (H x) by (left; reflexivity). apply IH. intros. apply H. right. assumption.
Qed.

(* every failure of a call is a TypeError *)
Lemma bind_pos_err nm : forall dfl pos kw e, bind_pos nm dfl pos kw = Err e -> e = TypeError.
Proof.
  induction nm as [|[n kwable] nm IH]; intros dfl pos kw e; simpl; [discriminate|].
  destruct pos as [|v pos'].
  - destruct (if kwable then kw_find kw n else None).
    + destruct (bind_pos nm (tl dfl) [] kw) eqn:E; simpl; [discriminate|]. intro H; inversion H; subst. eapply IH; eauto.
    + destruct (hd None dfl); [|intro H; inversion H; reflexivity].
      destruct (bind_pos nm (tl dfl) [] kw) eqn:E; simpl; [discriminate|]. intro H; inversion H; subst. eapply IH; eauto.
  - destruct (kwable && kw_mem kw n); [intro H; inversion H; reflexivity|].
    destruct (bind_pos nm (tl dfl) pos' kw) eqn:E; simpl; [discriminate|]. intro H; inversion H; subst. eapply IH; eauto.
Qed.

Lemma bind_kwonly_err ks : forall kwd kw e, bind_kwonly ks kwd kw = Err e -> e = TypeError.
Proof.
  induction ks as [|k ks IH]; intros kwd kw e; simpl; [discriminate|].
  destruct (kw_find kw k).
  - destruct (bind_kwonly ks kwd kw) eqn:E; simpl; [discriminate|]. intro H; inversion H; subst. eapply IH; eauto.
  - destruct (kw_find kwd k); [|intro H; inversion H; reflexivity].
    destruct (bind_kwonly ks kwd kw) eqn:E; simpl; [discriminate|]. intro H; inversion H; subst. eapply IH; eauto.
Qed.

Lemma bind_args_err p pos kw e : bind_args p pos kw = Err e -> e = TypeError.
Proof.
  unfold bind_args.
  destruct (nonempty (skipn (length (pos_names p)) pos) && negb (has (varargs p))); [intro H; inversion H; reflexivity|].
  destruct (nonempty (leftover p kw) && negb (has (varkw p))); [intro H; inversion H; reflexivity|].
  destruct (bind_pos (pos_names p) _ pos kw) eqn:E1; simpl; [|intro H; inversion H; subst; eapply bind_pos_err; eauto].
  destruct (bind_kwonly (kwonly p) (kwdefaults p) kw) eqn:E2; simpl; [discriminate|].
  intro H; inversion H; subst; eapply bind_kwonly_err; eauto.
Qed.

Lemma bind_args_ok_inv p pos kw e : bind_args p pos kw = Ok e ->
  let n := length (pos_names p) in
  nonempty (skipn n pos) && negb (has (varargs p)) = false /\
  nonempty (leftover p kw) && negb (has (varkw p)) = false /\
  bind_pos (pos_names p) (align n (defaults p)) pos kw = Ok (e_pos e) /\
  bind_kwonly (kwonly p) (kwdefaults p) kw = Ok (e_kwo e) /\
  e_var e = skipn n pos /\ e_kw e = leftover p kw.
Proof.
  intro H. unfold bind_args in H. cbv zeta. set (n := length (pos_names p)) in *.
  destruct (nonempty (skipn n pos) && negb (has (varargs p))); [discriminate|].
  destruct (nonempty (leftover p kw) && negb (has (varkw p))); [discriminate|].
  destruct (bind_pos (pos_names p) (align n (defaults p)) pos kw) eqn:E1; simpl in H; [|discriminate].
  destruct (bind_kwonly (kwonly p) (kwdefaults p) kw) eqn:E2; simpl in H; [|discriminate].
  inversion H; subst; simpl. repeat split; reflexivity.
Qed.

(* ---- step A: declaring the positional-only parameters as ordinary ones changes nothing without a collision ---- *)
Definition relax (l : list (str * bool)) : list (str * bool) := map (fun nb => (fst nb, true)) l.

Lemma bind_pos_relax l : forall dfl pos kw,
  (forall n, In (n, false) l -> ~ In n (keys kw)) ->
  bind_pos (relax l) dfl pos kw = bind_pos l dfl pos kw.
Proof.
  induction l as [|[n b] l IH]; intros dfl pos kw H; simpl; [reflexivity|].
  assert (IH' : forall pos', bind_pos (relax l) (tl dfl) pos' kw = bind_pos l (tl dfl) pos' kw).
  { intro pos'. apply IH. intros n' Hn'. apply H. right. exact Hn'. }
  destruct b; simpl.
  - destruct pos; [|rewrite IH'; reflexivity].
    rewrite IH'. reflexivity.
  - assert (Hn : ~ In n (keys kw)) by (apply H; left; reflexivity).
    rewrite kw_mem_notin, kw_find_notin by assumption. simpl.
    destruct pos; rewrite IH'; reflexivity.
Qed.

Lemma pos_names_wrapper p : pos_names (wrapper_params p) = relax (pos_names p).
Proof.
  unfold pos_names, wrapper_params, relax. simpl.
  rewrite !map_app, !map_map. simpl. reflexivity.
Qed.

Lemma relax_length l : length (relax l) = length l.
Proof. unfold relax. apply map_length. Qed.

Lemma leftover_wrapper p kw : no_collision p kw -> leftover (wrapper_params p) kw = leftover p kw.
Proof.
  intro H. unfold leftover. simpl. apply filter_ext_in. intros [k v] Hin. simpl.
  rewrite <- app_assoc, mem_str_app.
  assert (mem_str k (posonly p) = false) as ->; [|reflexivity].
  apply mem_str_false. apply H. unfold keys. apply in_map_iff. exists (k, v). auto.
Qed.

Lemma bind_wrapper_params p pos kw :
  no_collision p kw -> bind_args (wrapper_params p) pos kw = bind_args p pos kw.
Proof.
  intro H. unfold bind_args. rewrite pos_names_wrapper, relax_length, leftover_wrapper by assumption.
  rewrite bind_pos_relax; [reflexivity|].
  intros n Hin Hk. apply (H n Hk). unfold pos_names in Hin. apply in_app_or in Hin as [Hin|Hin].
  - apply in_map_iff in Hin as (x & Hx & Hx'). inversion Hx; subst. exact Hx'.
  - apply in_map_iff in Hin as (x & Hx & _). discriminate.
Qed.

(* ---- step B: re-binding what was bound gives the same environment ---- *)
Lemma bind_pos_length nm : forall dfl pos kw ep, bind_pos nm dfl pos kw = Ok ep -> length ep = length nm.
Proof.
  induction nm as [|[n kwable] nm IH]; intros dfl pos kw ep; simpl.
  - intro H; inversion H; reflexivity.
  - destruct pos as [|v pos'].
    + destruct (if kwable then kw_find kw n else None).
      * destruct (bind_pos nm (tl dfl) [] kw) eqn:E; simpl; [|discriminate].
        intro H; inversion H; subst; simpl. f_equal. eapply IH; eauto.
      * destruct (hd None dfl); [|discriminate].
        destruct (bind_pos nm (tl dfl) [] kw) eqn:E; simpl; [|discriminate].
        intro H; inversion H; subst; simpl. f_equal. eapply IH; eauto.
    + destruct (kwable && kw_mem kw n); [discriminate|].
      destruct (bind_pos nm (tl dfl) pos' kw) eqn:E; simpl; [|discriminate].
      intro H; inversion H; subst; simpl. f_equal. eapply IH; eauto.
Qed.

Lemma bind_pos_positional nm : forall dfl ep extra kw,
  length ep = length nm ->
  (forall n, In (n, true) nm -> ~ In n (keys kw)) ->
  bind_pos nm dfl (ep ++ extra) kw = Ok ep.
Proof.
  induction nm as [|[n kwable] nm IH]; intros dfl ep extra kw L H; destruct ep as [|v ep]; try discriminate.
  - reflexivity.
  - simpl. assert (kwable && kw_mem kw n = false) as ->.
    { destruct kwable; [|reflexivity]. simpl. apply kw_mem_notin. apply H. left. reflexivity. }
    rewrite IH; [reflexivity|simpl in L; lia|]. intros n' Hn'. apply H. right. exact Hn'.
Qed.

Lemma bind_kwonly_length ks : forall kwd kw ek, bind_kwonly ks kwd kw = Ok ek -> length ek = length ks.
Proof.
  induction ks as [|k ks IH]; intros kwd kw ek; simpl.
  - intro H; inversion H; reflexivity.
  - destruct (kw_find kw k).
    + destruct (bind_kwonly ks kwd kw) eqn:E; simpl; [|discriminate].
      intro H; inversion H; subst; simpl. f_equal. eapply IH; eauto.
    + destruct (kw_find kwd k); [|discriminate].
      destruct (bind_kwonly ks kwd kw) eqn:E; simpl; [|discriminate].
      intro H; inversion H; subst; simpl. f_equal. eapply IH; eauto.
Qed.

Lemma bind_kwonly_combine ks : forall ek pre lo kwd,
  NoDup ks -> length ek = length ks -> (forall k, In k ks -> ~ In k (keys pre)) ->
  bind_kwonly ks kwd (pre ++ combine ks ek ++ lo) = Ok ek.
Proof.
  induction ks as [|k ks IH]; intros ek pre lo kwd ND L H; destruct ek as [|v ek]; try discriminate.
  - reflexivity.
  - simpl. rewrite kw_find_app_notin by (apply H; left; reflexivity).
    unfold kw_find at 1. simpl. rewrite str_eqb_refl.
    inversion ND as [|? ? Hk ND']; subst.
    replace (pre ++ (k, v) :: combine ks ek ++ lo) with ((pre ++ [(k, v)]) ++ combine ks ek ++ lo)
      by (rewrite <- app_assoc; reflexivity).
    rewrite IH; [reflexivity|assumption|simpl in L; lia|].
    intros k' Hk'. unfold keys. rewrite map_app. simpl. intro Hin. apply in_app_or in Hin as [Hin|[Hin|[]]].
    + apply (H k'); [right; assumption|exact Hin].
    + subst. contradiction.
Qed.

Lemma keys_combine ks (ek : list val) : forall k, In k (keys (combine ks ek)) -> In k ks.
Proof.
  revert ek. induction ks as [|k0 ks IH]; intros ek k; destruct ek as [|v ek]; simpl; try tauto.
  intros [H|H]; [left; assumption|right; eapply IH; eauto].
Qed.

Lemma leftover_keys p kw k : In k (keys (leftover p kw)) -> ~ In k (args p ++ kwonly p).
Proof.
  unfold leftover, keys. intro H. apply in_map_iff in H as ([k' v] & <- & Hin).
  apply filter_In in Hin as [_ Hf]. simpl in *. apply negb_true_iff in Hf. apply mem_str_false. exact Hf.
Qed.

Lemma leftover_forward p ek lo :
  (forall k, In k (keys lo) -> ~ In k (args p ++ kwonly p)) ->
  leftover p (combine (kwonly p) ek ++ lo) = lo.
Proof.
  intro H. unfold leftover. rewrite filter_app, filter_none, filter_all; [reflexivity| |].
  - intros [k v] Hin. simpl. apply negb_true_iff. apply mem_str_false. apply H.
    unfold keys. apply in_map_iff. exists (k, v). auto.
  - intros [k v] Hin. simpl. apply negb_false_iff. apply mem_str_In. apply in_or_app. right.
    apply (keys_combine _ ek). unfold keys. apply in_map_iff. exists (k, v). auto.
Qed.

Lemma skipn_app_exact {A} (a b : list A) n : length a = n -> skipn n (a ++ b) = b.
Proof. intros <-. induction a; simpl; auto. Qed.

Lemma nodup_app_r {A} (a b : list A) : NoDup (a ++ b) -> NoDup b.
Proof. induction a; simpl; intro H; [exact H|]. inversion H; auto. Qed.

Lemma nodup_app_disjoint {A} (a b : list A) x : NoDup (a ++ b) -> In x a -> ~ In x b.
Proof.
  induction a as [|y a IH]; simpl; intros H Hin; [contradiction|]. inversion H; subst.
  destruct Hin as [->|Hin]; [intro Hb; apply H2; apply in_or_app; right; exact Hb|auto].
Qed.

Lemma rebind p pos kw e :
  wf_params p -> bind_args p pos kw = Ok e ->
  bind_args p (e_pos e ++ e_var e) (combine (kwonly p) (e_kwo e) ++ e_kw e) = Ok e.
Proof.
  intros WF H. apply bind_args_ok_inv in H. cbv zeta in H. destruct H as (G1 & G2 & Bp & Bk & Ev & Ek).
  set (n := length (pos_names p)) in *.
  pose proof (bind_pos_length _ _ _ _ _ Bp) as Lp. pose proof (bind_kwonly_length _ _ _ _ Bk) as Lk.
  assert (Hlo : forall k, In k (keys (e_kw e)) -> ~ In k (args p ++ kwonly p))
    by (rewrite Ek; apply leftover_keys).
  unfold bind_args. fold n. rewrite skipn_app_exact by exact Lp.
  rewrite leftover_forward by exact Hlo.
  rewrite Ev, Ek in *. rewrite G1, G2.
  rewrite bind_pos_positional; [|exact Lp|].
  - simpl. pose proof (bind_kwonly_combine (kwonly p) (e_kwo e) [] (leftover p kw) (kwdefaults p)) as C.
    simpl in C. rewrite C; [simpl; destruct e; simpl in *; subst; reflexivity| |exact Lk|intros ? ? []].
    unfold wf_params in WF. rewrite app_assoc in WF. apply nodup_app_r in WF. exact WF.
  - intros k Hin Hk. unfold pos_names in Hin. apply in_app_or in Hin as [Hin|Hin].
    + apply in_map_iff in Hin as (x & Hx & _). discriminate.
    + apply in_map_iff in Hin as (x & Hx & Hx'). inversion Hx; subst x.
      unfold keys in Hk. rewrite map_app in Hk. apply in_app_or in Hk as [Hk|Hk].
      * apply keys_combine in Hk. unfold wf_params in WF. apply nodup_app_r in WF.
        exact (nodup_app_disjoint _ _ _ WF Hx' Hk).
      * apply (Hlo k Hk). apply in_or_app. left. exact Hx'.
Qed.

(* ---- step C: through `wrapped(func, /, *args, **kwargs)` ---- *)
Lemma through_caller f pos kw :
  bind_args caller_params (f :: pos) kw = Ok (mkEnv [f] pos [] kw).
Proof.
  unfold bind_args. simpl. rewrite andb_false_r. simpl.
  assert (leftover caller_params kw = kw) as ->.
  { unfold leftover. simpl. apply filter_all. reflexivity. }
  rewrite andb_false_r. reflexivity.
Qed.

Lemma forwarding_general p f pos kw :
  wf_params p -> shadowed p = false -> no_collision p kw ->
  wrapped_call p f pos kw = bind_args p pos kw.
Proof.
  intros WF SH NC. unfold wrapped_call, wrapped_call_with.
  rewrite bind_wrapper_params by exact NC. rewrite SH.
  destruct (bind_args p pos kw) as [e|x] eqn:E; simpl; [|reflexivity].
  rewrite through_caller. simpl. exact (rebind p pos kw e WF E).
Qed.

Lemma forwarding p f pos kw :
  posonly p = [] -> wf_params p -> shadowed p = false ->
  wrapped_call p f pos kw = bind_args p pos kw.
Proof.
  intros PO WF SH. apply forwarding_general; auto. intros k _. rewrite PO. intros [].
Qed.

Lemma wrapped_call_err cp p f pos kw e : wrapped_call_with cp p f pos kw = Err e -> e = TypeError.
Proof.
  unfold wrapped_call_with.
  destruct (bind_args (wrapper_params p) pos kw) eqn:E1; simpl; [|intro H; inversion H; subst; eapply bind_args_err; eauto].
  destruct (shadowed p); [intro H; inversion H; reflexivity|].
  destruct (bind_args cp _ _) eqn:E2; simpl; [|intro H; inversion H; subst; eapply bind_args_err; eauto].
  apply bind_args_err.
Qed.

(* ---- witnesses ---- *)
Definition S_a : str := Eval compute in s2l "a".
Definition S_b : str := Eval compute in s2l "b".
Definition S_kw : str := Eval compute in s2l "kw".

(* def f(a, /, **kw) *)
Definition p_posonly_kw : params := mkParams [S_a] [] [] None [] [] (Some S_kw).
(* def f(a, b=5, /) *)
Definition p_posonly_default : params := mkParams [S_a; S_b] [] [5] None [] [] None.
(* def f( **kw ) *)
Definition p_only_kw : params := mkParams [] [] [] None [] [] (Some S_kw).
(* def f( *, _call_=1) *)
Definition p_kwonly_call : params := mkParams [] [] [] None [N_CALL] [(N_CALL, 1)] None.

Lemma posonly_refuted :
  wf_params p_posonly_kw /\ shadowed p_posonly_kw = false /\ wf_call [(S_a, 2)] /\
  bind_args p_posonly_kw [1] [(S_a, 2)] = Ok (mkEnv [1] [] [] [(S_a, 2)]) /\
  wrapped_call p_posonly_kw 0 [1] [(S_a, 2)] = Err TypeError.
Proof.
  repeat split; try (vm_compute; reflexivity).
  - unfold wf_params. simpl. repeat constructor; simpl; tauto.
  - unfold wf_call. simpl. repeat constructor; simpl; tauto.
Qed.

Lemma posonly_accepts_refuted :
  bind_args p_posonly_default [1] [(S_b, 3)] = Err TypeError /\
  wrapped_call p_posonly_default 0 [1] [(S_b, 3)] = Ok (mkEnv [1; 3] [] [] []).
Proof. split; vm_compute; reflexivity. Qed.

Lemma func_keyword_orig_refuted :
  wf_params p_only_kw /\ posonly p_only_kw = [] /\ shadowed p_only_kw = false /\
  bind_args p_only_kw [] [(N_func, 1)] = Ok (mkEnv [] [] [] [(N_func, 1)]) /\
  wrapped_call_orig p_only_kw 0 [] [(N_func, 1)] = Err TypeError.
Proof.
  repeat split; try (vm_compute; reflexivity). unfold wf_params. simpl. constructor.
Qed.

Lemma reserved_kwonly_refuted :
  wf_params p_kwonly_call /\ posonly p_kwonly_call = [] /\
  decorate_ok S_a p_kwonly_call = true /\
  bind_args p_kwonly_call [] [] = Ok (mkEnv [] [] [1] []) /\
  wrapped_call p_kwonly_call 0 [] [] = Err TypeError.
Proof.
  repeat split; try (vm_compute; reflexivity). unfold wf_params. simpl. repeat constructor. simpl. tauto.
Qed.

Lemma reserved_positional_refused : decorate_ok S_a (mkParams [] [N_CALL] [] None [] [] None) = false
  /\ decorate_ok N_FUNC (mkParams [] [S_a] [] None [] [] None) = false.
Proof. split; vm_compute; reflexivity. Qed.

Lemma name_preserved n : decorated_name n = n.
Proof. reflexivity. Qed.

Lemma name_orig_refuted : exists n, decorated_name_orig n <> n.
Proof. exists N_lambda. vm_compute. discriminate. Qed.
