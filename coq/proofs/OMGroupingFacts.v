(* C04 L5: sufficient conditions for the group bookkeeping of the OpenMetrics line loop (gstep / grun of
   proofs/OMFamilyRoundTrip.v) to accept a sample sequence without dropping anything:
   - samples without timestamps listed group by group (one group key per group, different series inside a group,
     different keys from group to group): the shape every instrumentation class produces;
   - samples with pairwise different group keys, whatever their timestamps. *)
From V Require Import lib.PyBase lib.Tac lib.PyStr model.Utils model.Validation model.Expo model.TextParser model.OMParser
  proofs.LabelRoundTrip proofs.OMSampleRoundTrip proofs.OMDocRoundTrip proofs.OMCounterRoundTrip proofs.OMFamilyRoundTrip.
From Coq Require Import Permutation.
Ltac Zify.zify_post_hook ::= Z.to_euclidean_division_equations.
Open Scope N_scope.

(* the series identity the duplicate test uses: name and sorted labels *)
Definition sid_of (s : sample) : str * list (str * str) := (s_name s, sort_kv (sort_kv (s_labels s))).

Section Grouping.
  Variable fix_tsmix : bool.
  Variable NUM : Type.
  Variable num_lt num_eqb : NUM -> NUM -> bool.
  Variable ts_float : Z -> Z -> option NUM.
  Variable val_of : sample -> NUM.
  Variable ts_of : sample -> option (om_tsv NUM).
  Variable ex_of : sample -> option (om_exemplar NUM).
  Variable typ n : str.
  (* the group key of a sample: sorted(_group_for_sample(...).items()) *)
  Variable key : sample -> list (str * str).

  Notation ps := (g_ps_of NUM val_of ts_of ex_of).
  Notation gstep_ := (gstep fix_tsmix NUM num_lt num_eqb ts_float typ n).
  Notation grun_ := (grun fix_tsmix NUM num_lt num_eqb ts_float val_of ts_of ex_of typ n).

  Definition key_of (s : sample) : Prop :=
    exists gd, om_group_for_sample (ps s) n typ = Ok (Some gd) /\ key s = sort_kv gd.

  (* the grouping rule as a test on a sequence without timestamps *)
  Fixpoint wgk (cur : option (list (str * str))) (seen : list (list (str * str)))
           (sids : list (str * list (str * str))) (l : list sample) : bool :=
    match l with
    | [] => true
    | s :: r =>
        let g := key s in
        let same := match cur with Some g0 => om_kvs_eqb g g0 | None => false end in
        (if same then negb (om_mem_sid (sid_of s) sids)
         else negb ((match cur with Some _ => true | None => false end) && om_mem_kvs g seen))
        && wgk (Some g) (g :: seen) (sid_of s :: (if same then sids else [])) r
    end.

  Lemma gstep_nots (g : gst NUM) s :
    key_of s -> ts_of s = None -> g_gts NUM g = None ->
    let k := key s in
    let same := match g_cur NUM g with Some g0 => om_kvs_eqb k g0 | None => false end in
    (if same then negb (om_mem_sid (sid_of s) (g_sids NUM g))
     else negb ((match g_cur NUM g with Some _ => true | None => false end) && om_mem_kvs k (g_seen NUM g))) = true ->
    gstep_ g (ps s) = Some {| g_cur := Some k; g_seen := k :: g_seen NUM g; g_gts := None;
                              g_sids := sid_of s :: (if same then g_sids NUM g else []) |}.
  Proof.
    intros (gd & Hgd & Hk) Hts Hgts k same Hcond. unfold gstep, om_group_step.
    cbn [st_of_gst st_typ st_group st_seen_groups st_gts st_gts_samples st_samples st_name st_allowed st_eof st_seen st_doc
         st_unit]. cbv zeta. rewrite Hgd. cbn [bind]. rewrite <- Hk. fold k. rewrite Hgts.
    unfold om_labels_of. cbn [os_labels os_ts os_name g_ps_of bind]. rewrite Hts.
    change (s_name s, sort_kv (sort_kv (s_labels s))) with (sid_of s).
    subst same. destruct (g_cur NUM g) as [g0|].
    - destruct (om_kvs_eqb k g0) eqn:E.
      + cbn [negb andb bind Bool.eqb om_ts_eqb]. apply negb_true_iff in Hcond. rewrite Hcond. reflexivity.
      + cbn [negb andb]. apply negb_true_iff in Hcond. cbn [andb] in Hcond. rewrite Hcond. reflexivity.
    - reflexivity.
  Qed.

  Lemma grun_nots l : forall cur seen sids,
    Forall (fun s => key_of s /\ ts_of s = None) l -> wgk cur seen sids l = true ->
    exists gf, grun_ {| g_cur := cur; g_seen := seen; g_gts := None; g_sids := sids |} l = Some gf.
  Proof.
    induction l as [|s l IH]; intros cur seen sids Hall Hwg; [eexists; reflexivity|].
    inversion Hall as [|? ? [Hk Hts] Hall']; subst. cbn [wgk] in Hwg. cbv zeta in Hwg.
    apply andb_true_iff in Hwg as [Hc Hr]. cbn [grun].
    rewrite (gstep_nots {| g_cur := cur; g_seen := seen; g_gts := None; g_sids := sids |} s Hk Hts eq_refl Hc).
    cbn [g_cur g_seen g_sids]. apply IH; assumption.
  Qed.

  (* ---------- samples listed group by group ---------- *)
  Lemma wgk_same_run g grp : forall seen sids r,
    Forall (fun s => key s = g) grp -> NoDup (map sid_of grp) ->
    (forall s, In s grp -> ~ In (sid_of s) sids) ->
    exists seen' sids', wgk (Some g) seen sids (grp ++ r) = wgk (Some g) seen' sids' r /\
      (forall x, In x seen' -> x = g \/ In x seen) /\ (forall x, In x seen -> In x seen').
  Proof.
    induction grp as [|s grp IH]; intros seen sids r Hg Hnd Hfresh.
    - exists seen, sids. split; [reflexivity|]. split; auto.
    - inversion Hg as [|? ? Hs Hgs]; subst. inversion Hnd as [|? ? Hnin Hnd']; subst.
      cbn [app wgk]. cbv zeta. rewrite (proj2 (om_kvs_eqb_eq _ _) eq_refl).
      rewrite om_mem_sid_false by (apply (Hfresh s); left; reflexivity).
      cbn [negb andb].
      destruct (IH (key s :: seen) (sid_of s :: sids) r Hgs Hnd') as (seen' & sids' & E & H1 & H2).
      { intros s' Hs' [Hin|Hin]; [apply Hnin; rewrite Hin; apply in_map; exact Hs'|].
        apply (Hfresh s' (or_intror Hs')). exact Hin. }
      exists seen', sids'. split; [exact E|]. split.
      + intros x Hx. destruct (H1 x Hx) as [->|[<-|Hin]]; auto.
      + intros x Hx. apply H2. right. exact Hx.
  Qed.

  Definition grp_key (grp : list sample) : list (str * str) := match grp with s :: _ => key s | [] => [] end.
  (* one group: non-empty, one key, pairwise different series *)
  Definition grp_ok (grp : list sample) : Prop :=
    grp <> [] /\ Forall (fun s => key s = grp_key grp) grp /\ NoDup (map sid_of grp).

  Theorem wgk_groups groups : forall cur seen sids,
    (match cur with Some g0 => In g0 seen | None => True end) ->
    Forall grp_ok groups -> NoDup (map grp_key groups) ->
    (forall grp, In grp groups -> ~ In (grp_key grp) seen) ->
    wgk cur seen sids (concat groups) = true.
  Proof.
    induction groups as [|grp groups IH]; intros cur seen sids Hcur Hok Hnd Hfresh; [reflexivity|].
    inversion Hok as [|? ? (Hne & Hkeys & Hsids) Hoks]; subst. inversion Hnd as [|? ? Hnin Hnd']; subst.
    destruct grp as [|s rest]; [congruence|]. cbn [concat app wgk]. cbv zeta.
    cbn [grp_key] in *. inversion Hkeys as [|? ? _ Hrest]; subst. inversion Hsids as [|? ? Hsn Hnd2]; subst.
    assert (Hg : ~ In (key s) seen) by (apply (Hfresh (s :: rest)); left; reflexivity).
    assert (Hsame : match cur with Some g0 => om_kvs_eqb (key s) g0 | None => false end = false).
    { destruct cur as [g0|]; [|reflexivity]. destruct (om_kvs_eqb (key s) g0) eqn:E; [|reflexivity].
      apply om_kvs_eqb_eq in E. subst g0. contradiction. }
    rewrite Hsame. rewrite (om_mem_kvs_false _ _ Hg), andb_false_r. cbn [negb andb].
    destruct (wgk_same_run (key s) rest (key s :: seen) [sid_of s] (concat groups) Hrest Hnd2)
      as (seen' & sids' & E & H1 & H2).
    { intros s' Hs' [Hin|[]]. apply Hsn. rewrite Hin. apply in_map. exact Hs'. }
    rewrite E. apply IH; auto.
    - apply H2. left. reflexivity.
    - intros grp Hgrp Hin. destruct (H1 _ Hin) as [Heq|[Heq|Hin']].
      + apply Hnin. rewrite <- Heq. apply in_map. exact Hgrp.
      + apply Hnin. rewrite Heq. apply in_map. exact Hgrp.
      + apply (Hfresh grp (or_intror Hgrp)). exact Hin'.
  Qed.

  (* the instrumentation-class shape, in one statement *)
  Corollary grun_groups groups :
    Forall (fun s => key_of s /\ ts_of s = None) (concat groups) ->
    Forall grp_ok groups -> NoDup (map grp_key groups) ->
    exists gf, grun_ (gst_init NUM) (concat groups) = Some gf.
  Proof.
    intros Hall Hok Hnd. apply (grun_nots (concat groups) None [] [] Hall).
    apply wgk_groups; auto.
  Qed.

  (* ---------- pairwise different group keys, any timestamps ---------- *)
  Lemma gstep_fresh (g : gst NUM) s :
    key_of s ->
    match g_cur NUM g with Some g0 => om_kvs_eqb (key s) g0 = false | None => True end ->
    om_mem_kvs (key s) (g_seen NUM g) = false ->
    gstep_ g (ps s) = Some {| g_cur := Some (key s); g_seen := key s :: g_seen NUM g; g_gts := ts_of s; g_sids := [sid_of s] |}.
  Proof.
    intros (gd & Hgd & Hk) Hcur Hseen. unfold gstep, om_group_step.
    cbn [st_of_gst st_typ st_group st_seen_groups st_gts st_gts_samples st_samples st_name st_allowed st_eof st_seen st_doc
         st_unit]. cbv zeta. rewrite Hgd. cbn [bind]. rewrite <- Hk. rewrite Hseen, andb_false_r.
    unfold om_labels_of. cbn [os_labels os_ts os_name g_ps_of bind].
    change (s_name s, sort_kv (sort_kv (s_labels s))) with (sid_of s).
    destruct (g_cur NUM g) as [g0|].
    - rewrite Hcur. cbn [bind]. match goal with |- context [if negb ?b then [] else _] => destruct b end;
        cbn [om_mem_sid negb orb]; rewrite ?orb_true_r; reflexivity.
    - cbn [bind]. match goal with |- context [if negb ?b then [] else _] => destruct b end;
        cbn [om_mem_sid negb orb]; rewrite ?orb_true_r; reflexivity.
  Qed.

  Lemma grun_fresh l : forall g,
    Forall key_of l -> NoDup (map key l) ->
    (forall s, In s l -> ~ In (key s) (g_seen NUM g)) ->
    (match g_cur NUM g with Some g0 => In g0 (g_seen NUM g) | None => True end) ->
    exists gf, grun_ g l = Some gf.
  Proof.
    induction l as [|s l IH]; intros g Hk Hnd Hfresh Hcur; [eexists; reflexivity|].
    inversion Hk as [|? ? Hks Hkl]; subst. inversion Hnd as [|? ? Hnin Hnd']; subst. cbn [grun].
    rewrite gstep_fresh; auto.
    - apply IH; auto; cbn [g_seen g_cur].
      + intros s' Hs' [Hin|Hin]; [apply Hnin; rewrite Hin; apply in_map; exact Hs'|]. apply (Hfresh s' (or_intror Hs')). exact Hin.
      + left. reflexivity.
    - destruct (g_cur NUM g) as [g0|]; [|exact I]. destruct (om_kvs_eqb (key s) g0) eqn:E; [|reflexivity].
      apply om_kvs_eqb_eq in E. subst g0. exfalso. apply (Hfresh s); [left; reflexivity|exact Hcur].
    - apply om_mem_kvs_false. apply Hfresh. left. reflexivity.
  Qed.
End Grouping.
