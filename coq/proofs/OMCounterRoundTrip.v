(* C04 L5, counters: a whole counter family - _total samples with optional exemplars, _created samples - and the end
   marker are read back by the OpenMetrics parser's line loop. *)
From V Require Import lib.PyBase lib.Tac lib.PyStr model.Utils model.Validation model.Expo model.TextParser model.OMParser
  proofs.EscapeProofs proofs.ScanFacts proofs.TextParserTotal proofs.LabelRoundTrip proofs.SampleRoundTrip
  proofs.LineProofs proofs.DocRoundTrip proofs.OMLabelRoundTrip proofs.OMSampleRoundTrip proofs.OMDocRoundTrip.
From Coq Require Import Permutation.
Ltac Zify.zify_post_hook ::= Z.to_euclidean_division_equations.
Open Scope N_scope.

(* ---------- small facts ---------- *)
Lemma str_eqb_app_head (n a b : str) : str_eqb (n ++ a) (n ++ b) = str_eqb a b.
Proof. induction n as [|c n IH]; [reflexivity|]. cbn [app str_eqb]. rewrite N.eqb_refl, IH. reflexivity. Qed.

Lemma ends_with_app (p n : str) : ends_with p (n ++ p) = true.
Proof. unfold ends_with. rewrite rev_app_distr. apply starts_with_app. Qed.

Lemma om_sid_eqb_eq (a b : str * list (str * str)) : om_sid_eqb a b = true <-> a = b.
Proof.
  destruct a as [a1 a2], b as [b1 b2]. unfold om_sid_eqb. cbn [fst snd]. rewrite andb_true_iff, str_eqb_eq, om_kvs_eqb_eq.
  split; [intros [-> ->]; reflexivity|intro H; inversion H; auto].
Qed.

Lemma nlf_ex_text fix_tsexp NUM parse_num parse_float parse_int num_eqb num_isinf e exr :
  ex_reads fix_tsexp NUM parse_num parse_float parse_int num_eqb num_isinf e exr -> nlf (ex_text e) = 0%nat.
Proof.
  destruct e as [e|]; [|reflexivity]. intros (_ & _ & _ & Hv & ev & ets & _ & Hts & _).
  unfold ex_text. rewrite exemplar_str_shape. rewrite !cnt_app, nlf_ltext, (nlf_om_token _ Hv). cbn [cnt].
  change (SP =? LF) with false. change (HASH =? LF) with false. change (LBRACE =? LF) with false.
  change (RBRACE =? LF) with false. cbv iota.
  unfold OMSampleRoundTrip.ts_text. red in Hts. destruct (ex_ts e) as [t|]; [|reflexivity].
  destruct Hts as [Ht _]. rewrite nlf_sp, (nlf_om_token _ Ht). reflexivity.
Qed.

Section Counter.
  Variable fix_nhkeys fix_nhsfx fix_tsmix fix_isnan fix_tsexp fix_sname : bool.
  Variable NUM : Type.
  Variable parse_num parse_float : str -> option NUM.
  Variable parse_int : str -> option Z.
  Variable num_lt num_eqb : NUM -> NUM -> bool.
  Variable num_isinf num_integral num_huge : NUM -> bool.
  Variable num_zero num_one num_inf : NUM.
  Variable ts_float : Z -> Z -> option NUM.
  Variable is_word is_space_re is_digit_re : char -> bool.
  Variable val_of : sample -> NUM.
  Variable ex_of : sample -> option (om_exemplar NUM).
  Variable n : str.

  Notation step := (om_step_line false true fix_nhkeys fix_nhsfx fix_tsmix fix_isnan true true fix_tsexp fix_sname NUM
                      parse_num parse_float parse_int num_lt num_eqb num_isinf num_integral num_huge num_zero num_one num_inf
                      ts_float is_word is_space_re is_digit_re).
  Notation run := (om_run_lines false true fix_nhkeys fix_nhsfx fix_tsmix fix_isnan true true fix_tsexp fix_sname NUM
                      parse_num parse_float parse_int num_lt num_eqb num_isinf num_integral num_huge num_zero num_one num_inf
                      ts_float is_word is_space_re is_digit_re).
  Notation p_sample := (om_parse_sample false true true fix_tsexp fix_sname NUM parse_num parse_float parse_int num_eqb num_isinf).
  Notation p_text := (om_parse false true fix_nhkeys fix_nhsfx fix_tsmix fix_isnan true true fix_tsexp fix_sname NUM
                      parse_num parse_float parse_int num_lt num_eqb num_isinf num_integral num_huge num_zero num_one num_inf
                      ts_float is_word is_space_re is_digit_re).
  Notation meta := (om_meta_line false true true NUM parse_float num_lt num_eqb num_zero num_inf).
  Notation flush_ := (om_flush false NUM parse_float num_lt num_eqb num_zero num_inf).

  (* one sample of a counter family: name_total (value a number that is not NaN and not negative, optional exemplar)
     or name_created (no exemplar); no timestamps (the instrumentation classes never set one) *)
  Definition om_csample_ok (s : sample) : Prop :=
    Forall key_ok (map fst (s_labels s)) /\ NoDup (map fst (s_labels s)) /\
    om_token_ok (go_string (s_value s)) /\ parse_num (go_string (s_value s)) = Some (val_of s) /\
    s_ts_om s = None /\
    ex_reads fix_tsexp NUM parse_num parse_float parse_int num_eqb num_isinf (s_ex s) (ex_of s) /\
    ((s_name s = n ++ OM_total /\ num_eqb (val_of s) (val_of s) = true /\ num_lt (val_of s) num_zero = false /\
      (fix_isnan = true \/ num_huge (val_of s) = false))
     \/ (s_name s = n ++ OM_created /\ s_ex s = None)).

  Definition om_cps_of (s : sample) : om_sample NUM :=
    {| os_name := s_name s; os_labels := Some (sort_kv (s_labels s)); os_value := Some (val_of s); os_ts := None;
       os_ex := ex_of s; os_nh := None |}.

  Definition ckey (s : sample) : list (str * str) := sort_kv (sort_kv (s_labels s)).

  (* the parser's grouping rule, as a test on the sample list: samples with the same label set are consecutive and
     differently named (cur = label set of the previous sample, seen = all label sets so far, sids = the series of the
     current run) *)
  Fixpoint well_grouped (cur : option (list (str * str))) (seen : list (list (str * str)))
           (sids : list (str * list (str * str))) (l : list sample) : bool :=
    match l with
    | [] => true
    | s :: r =>
        let g := ckey s in
        let same := match cur with Some g0 => om_kvs_eqb g g0 | None => false end in
        (if same then negb (om_mem_sid (s_name s, g) sids)
         else negb ((match cur with Some _ => true | None => false end) && om_mem_kvs g seen))
        && well_grouped (Some g) (g :: seen) ((s_name s, g) :: (if same then sids else [])) r
    end.

  Lemma om_cbody_facts s : om_csample_ok s ->
    (exists c r, om_body s = c :: r /\ c <> HASH) /\ ~ In LF (om_body s) /\
    p_sample (om_body s) = Ok (om_cps_of s).
  Proof.
    intros (Hk & Hnd & Hv & Hpv & Hts & Hex & Hkind). split; [|split].
    - unfold om_body. pose proof (om_head_cases s) as H. cbv zeta in H.
      destruct (is_valid_legacy_metric_name (s_name s)) eqn:E; rewrite H.
      + destruct (legacy_name_chars (s_name s) E) as (c & r & En & Hall).
        assert (Hc : name_rest c = true) by (inversion Hall; assumption).
        rewrite En. destruct (s_labels s); cbn [app]; eexists _, _; (split; [reflexivity|]);
          intro Ec; subst c; vm_compute in Hc; discriminate.
      + cbn [app]. eexists _, _. split; [reflexivity|discriminate].
    - apply cnt_zero_iff. unfold om_body.
      rewrite !cnt_app, nlf_om_head, (nlf_om_token _ Hv), Hts, (nlf_ex_text _ _ _ _ _ _ _ _ _ Hex). reflexivity.
    - assert (Hline : Expo.om_sample_line true S_counter n s = Ok (om_body s ++ [LF])).
      { unfold Expo.om_sample_line. cbv zeta.
        assert (Hexs : (match s_ex s with
                        | None => Ok []
                        | Some e => if is_valid_exemplar_metric S_counter n s then Ok (exemplar_str true e) else Err ValueError
                        end) = Ok (ex_text (s_ex s))).
        { destruct (s_ex s) as [e|] eqn:Ee; [|reflexivity].
          destruct Hkind as [(Hn & _)|(_ & Hnone)]; [|discriminate].
          unfold is_valid_exemplar_metric. rewrite Hn. change (str_eqb S_counter S_counter) with true.
          change S_total with OM_total. rewrite ends_with_app. reflexivity. }
        rewrite Hexs. cbn [bind]. f_equal. unfold om_body. exact (line_assoc (om_head s) _ _ _). }
      assert (Htsr : ts_reads fix_tsexp NUM parse_float parse_int num_eqb num_isinf (s_ts_om s) None)
        by (rewrite Hts; reflexivity).
      destruct (om_sample_roundtrip fix_tsexp fix_sname NUM parse_num parse_float parse_int num_eqb num_isinf
                  S_counter n s (om_body s ++ [LF]) (val_of s) None (ex_of s) Hk Hnd Hv Hpv Htsr Hex Hline)
        as (body & Hb & Hp).
      apply app_inv_tail in Hb. subst body. exact Hp.
  Qed.

  Lemma name_cases s : om_csample_ok s -> exists sfx, s_name s = n ++ sfx /\ (sfx = OM_total \/ sfx = OM_created).
  Proof. intros (_ & _ & _ & _ & _ & _ & [(H & _)|(H & _)]); eexists; split; eauto. Qed.

  Lemma pre_checks_counter s : om_csample_ok s ->
    om_pre_checks NUM parse_float num_lt num_eqb num_integral num_zero num_one num_inf n (Some OM_counter) (om_cps_of s) = Ok tt.
  Proof.
    intro H. destruct (name_cases s H) as (sfx & Hn & Hs). unfold om_pre_checks. cbn [os_name om_cps_of]. rewrite Hn.
    change (om_typ_is (Some OM_counter) OM_stateset) with false. cbv iota. cbn [bind].
    rewrite !str_eqb_app_head. change (om_typ_is (Some OM_counter) OM_summary) with false.
    destruct Hs as [-> | ->]; reflexivity.
  Qed.

  Lemma post_checks_counter s : om_csample_ok s ->
    om_post_checks fix_isnan NUM num_lt num_eqb num_huge num_zero num_one n (Some OM_counter) (om_cps_of s) = Ok tt.
  Proof.
    intros (_ & _ & _ & _ & _ & Hex & Hkind). unfold om_post_checks. cbn [os_name os_value os_ex om_cps_of].
    change (om_typ_is (Some OM_counter) OM_stateset) with false. change (om_typ_is (Some OM_counter) OM_info) with false.
    change (om_typ_is (Some OM_counter) OM_summary) with false. cbn [andb]. cbv zeta. cbn [bind].
    change (om_typ_is (Some OM_counter) OM_histogram) with false. change (om_typ_is (Some OM_counter) OM_gaugehistogram) with false.
    change (om_typ_is (Some OM_counter) OM_counter) with true. cbn [orb andb].
    destruct Hkind as [(Hn & Hnan & Hneg & Hhuge)|(Hn & Hnone)]; rewrite Hn.
    - rewrite skipn_app, skipn_all, Nat.sub_diag. cbn [skipn app].
      change (mem_str OM_total [OM_total; OM_sum; OM_count; OM_bucket; OM_gcount; OM_gsum]) with true.
      change (mem_str OM_total [OM_total; OM_sum; OM_count; OM_bucket; OM_gcount]) with true. cbv iota.
      assert (Hisnan : om_isnan fix_isnan NUM num_eqb num_huge (Some (val_of s)) = Ok false).
      { unfold om_isnan, om_num_nan. rewrite Hnan. destruct Hhuge as [-> | ->]; [reflexivity|].
        destruct fix_isnan; reflexivity. }
      rewrite Hisnan. unfold om_value_of. cbn [bind os_value om_cps_of]. rewrite Hneg. cbn [bind]. rewrite ends_with_app.
      destruct (ex_of s); reflexivity.
    - rewrite skipn_app, skipn_all, Nat.sub_diag. cbn [skipn app].
      change (mem_str OM_created [OM_total; OM_sum; OM_count; OM_bucket; OM_gcount; OM_gsum]) with false.
      change (mem_str OM_created [OM_total; OM_sum; OM_count; OM_bucket; OM_gcount]) with false. cbv iota. cbn [bind].
      rewrite Hnone in Hex. red in Hex. rewrite Hex. reflexivity.
  Qed.

  (* the parser state inside the family *)
  Definition CInv (seen : list str) (doc unit : option str) (st : om_st NUM) (done : list sample)
             (cur : option (list (str * str))) (sg : list (list (str * str))) (sids : list (str * list (str * str))) : Prop :=
    st_name st = Some n /\ st_allowed st = [n ++ OM_total; n ++ OM_created] /\ st_eof st = false /\ st_seen st = seen /\
    st_typ st = Some OM_counter /\ st_doc st = doc /\ st_unit st = unit /\
    st_samples st = rev (map om_cps_of done) /\
    st_group st = cur /\ st_seen_groups st = sg /\ st_gts st = None /\ st_gts_samples st = sids.

  Lemma group_step_counter (st : om_st NUM) s cur sg sids :
    st_typ st = Some OM_counter -> st_group st = cur -> st_seen_groups st = sg -> st_gts st = None ->
    st_gts_samples st = sids ->
    let g := ckey s in
    let same := match cur with Some g0 => om_kvs_eqb g g0 | None => false end in
    (if same then negb (om_mem_sid (s_name s, g) sids)
     else negb ((match cur with Some _ => true | None => false end) && om_mem_kvs g sg)) = true ->
    om_group_step fix_tsmix NUM num_lt num_eqb ts_float st n (om_cps_of s)
    = Ok {| st_name := st_name st; st_allowed := st_allowed st; st_eof := st_eof st;
            st_seen := st_seen st; st_typ := st_typ st; st_doc := st_doc st; st_unit := st_unit st;
            st_group := Some g; st_seen_groups := g :: sg; st_gts := None;
            st_gts_samples := (s_name s, g) :: (if same then sids else []);
            st_samples := om_cps_of s :: st_samples st |}.
  Proof.
    intros Htyp Hcur Hsg Hgts Hsids g same Hcond. unfold om_group_step. rewrite Htyp, Hcur, Hsg, Hgts, Hsids. cbv zeta.
    unfold om_group_for_sample. change (str_eqb OM_counter OM_info) with false.
    change (str_eqb OM_counter OM_summary) with false. change (str_eqb OM_counter OM_stateset) with false.
    change (str_eqb OM_counter OM_histogram) with false. change (str_eqb OM_counter OM_gaugehistogram) with false.
    cbn [andb orb os_labels os_ts os_name om_cps_of bind]. fold (ckey s). fold g.
    unfold om_labels_of. cbn [os_labels bind]. fold (ckey s). fold g.
    subst same. destruct cur as [g0|].
    - destruct (om_kvs_eqb g g0) eqn:E.
      + cbn [negb andb bind Bool.eqb]. apply negb_true_iff in Hcond.
        cbn [os_labels om_cps_of bind]. change (sort_kv (sort_kv (s_labels s))) with g.
        cbn [negb orb om_ts_eqb]. rewrite Hcond. cbn [negb orb]. reflexivity.
      + cbn [negb andb]. apply negb_true_iff in Hcond. cbn [andb] in Hcond. rewrite Hcond.
        cbn [bind os_labels om_cps_of]. change (sort_kv (sort_kv (s_labels s))) with g.
        reflexivity.
    - cbn [negb andb bind os_labels om_cps_of]. change (sort_kv (sort_kv (s_labels s))) with g.
      reflexivity.
  Qed.

  Lemma step_counter_sample seen doc unit st done cur sg sids s :
    CInv seen doc unit st done cur sg sids -> om_csample_ok s ->
    let g := ckey s in
    let same := match cur with Some g0 => om_kvs_eqb g g0 | None => false end in
    (if same then negb (om_mem_sid (s_name s, g) sids)
     else negb ((match cur with Some _ => true | None => false end) && om_mem_kvs g sg)) = true ->
    exists st', step st (om_body s) = Ok (st', []) /\
      CInv seen doc unit st' (done ++ [s]) (Some g) (g :: sg) ((s_name s, g) :: (if same then sids else [])).
  Proof.
    intros (Hname & Hal & Heof & Hseen & Htyp & Hdoc & Hunit & Hsm & Hcur & Hsg & Hgts & Hsids) Hok g same Hcond.
    destruct (om_cbody_facts s Hok) as ((c & r & Eb & Hc) & _ & Hp).
    destruct (name_cases s Hok) as (sfx & Hn & Hsfx).
    assert (Hgs := group_step_counter st s cur sg sids Htyp Hcur Hsg Hgts Hsids Hcond).
    eexists. split.
    - unfold om_step_line. rewrite Heof. rewrite Eb in *.
      change OM_EOF with (HASH :: [32; 69; 79; 70]). cbn [str_eqb].
      destruct (N.eqb_spec c HASH); [contradiction|]. cbn [andb].
      unfold OMParser.om_sample_line, om_read_sample. rewrite Htyp.
      change (om_typ_is (Some OM_counter) OM_histogram) with false. cbv iota.
      rewrite Hp. cbn [bind]. unfold om_enter_family. cbn [os_name om_cps_of]. rewrite Hal.
      assert (Hmem : mem_str (s_name s) [n ++ OM_total; n ++ OM_created] = true).
      { rewrite Hn. cbn [mem_str]. rewrite !str_eqb_app_head. destruct Hsfx as [-> | ->]; reflexivity. }
      rewrite Hmem. cbn [negb andb bind]. cbv beta iota.
      rewrite Hname, Htyp. rewrite (pre_checks_counter s Hok). cbn [bind negb].
      rewrite Hgs. cbn [bind]. rewrite (post_checks_counter s Hok). cbn [bind]. reflexivity.
    - unfold CInv. cbn [st_name st_allowed st_eof st_seen st_typ st_doc st_unit st_samples st_seen_groups st_group st_gts
                          st_gts_samples].
      repeat split; auto. rewrite map_app, rev_app_distr, Hsm. reflexivity.
  Qed.

  Lemma run_counter_samples seen doc unit ss : forall st done cur sg sids more acc,
    CInv seen doc unit st done cur sg sids -> Forall om_csample_ok ss -> well_grouped cur sg sids ss = true ->
    exists st' cur' sg' sids', CInv seen doc unit st' (done ++ ss) cur' sg' sids' /\
      run st (map om_body ss ++ more) acc = run st' more acc.
  Proof.
    induction ss as [|s ss IH]; intros st done cur sg sids more acc HI Hok Hwg.
    - exists st, cur, sg, sids. rewrite app_nil_r. split; [exact HI|reflexivity].
    - inversion Hok as [|? ? Hs Hss]; subst. cbn [well_grouped] in Hwg. cbv zeta in Hwg.
      apply andb_true_iff in Hwg as [Hc Hr].
      destruct (step_counter_sample seen doc unit st done cur sg sids s HI Hs Hc) as (st1 & Hst & HI1).
      destruct (IH st1 (done ++ [s]) _ _ _ more (acc ++ []) HI1 Hss Hr) as (st2 & c2 & g2 & i2 & HI2 & Hrun).
      exists st2, c2, g2, i2. rewrite <- app_assoc in HI2. cbn [app] in HI2. split; [exact HI2|].
      cbn [map app om_run_lines]. rewrite Hst. cbn [bind]. rewrite Hrun, app_nil_r. reflexivity.
  Qed.

  (* build_metric for a counter whose names are new *)
  Lemma build_counter seen doc unit samples :
    n <> [] ->
    mem_str (n ++ OM_total) seen = false -> mem_str (n ++ OM_created) seen = false -> mem_str (n ++ []) seen = false ->
    (match unit with None => True | Some u => u = [] \/ ends_with (USCORE :: u) n = true end) ->
    om_build_metric false NUM parse_float num_lt num_eqb num_zero num_inf seen n (Some doc) (Some OM_counter) unit samples
    = Ok ({| of_name := n; of_doc := doc; of_type := OM_counter;
             of_unit := match unit with None => [] | Some u => u end; of_samples := samples |},
          seen ++ [n ++ OM_total; n ++ OM_created; n ++ []]).
  Proof.
    intros Hne H1 H2 H3 Hu. unfold om_build_metric.
    change (om_type_suffixes OM_counter []) with [OM_total; OM_created].
    change (om_nodup_str ([OM_total; OM_created] ++ [[]])) with [OM_total; OM_created; @nil char].
    cbn [map existsb]. rewrite H1, H2, H3. cbn [orb].
    change (str_eqb OM_counter OM_info) with false. change (str_eqb OM_counter OM_stateset) with false.
    change (str_eqb OM_counter OM_histogram) with false. change (str_eqb OM_counter OM_gaugehistogram) with false.
    cbn [orb]. rewrite andb_false_r.
    assert (Hv : om_validate_metric_name false n = Ok tt).
    { unfold om_validate_metric_name, validate_metric_name_utf8. destruct n; [congruence|reflexivity]. }
    rewrite Hv. cbn [bind].
    destruct unit as [[|u0 ur]|]; cbn [andb negb bind].
    - change (mem_str OM_counter OM_METRIC_TYPES) with true. reflexivity.
    - destruct Hu as [Hu|Hu]; [discriminate|]. rewrite Hu. cbn [negb bind].
      change (mem_str OM_counter OM_METRIC_TYPES) with true. reflexivity.
    - change (mem_str OM_counter OM_METRIC_TYPES) with true. reflexivity.
  Qed.

  (* the hypotheses on a counter family *)
  Definition counter_family_ok (f : family) : Prop :=
    f_name f = n /\ n <> [] /\ f_type f = Expo.S_counter /\
    (f_unit f = [] \/ ends_with (USCORE :: f_unit f) n = true) /\
    Forall om_csample_ok (f_samples f) /\ well_grouped None [] [] (f_samples f) = true.

  Definition cfam_of (f : family) : om_family NUM :=
    {| of_name := f_name f; of_doc := f_doc f; of_type := OM_counter; of_unit := f_unit f;
       of_samples := map om_cps_of (f_samples f) |}.

  Lemma cfamily_lines_no_lf f : counter_family_ok f -> Forall (fun l => ~ In LF l) (om_family_lines_of f).
  Proof.
    intros (Hfn & Hne & Hty & _ & Hok & _).
    assert (Hmn : nlf (mname_tok n) = 0%nat) by apply nlf_escape_metric_name.
    unfold om_family_lines_of. rewrite Hfn, Hty. constructor; [|constructor; [|apply Forall_app; split]].
    - apply nlf_meta_line; [reflexivity|exact Hmn|apply nlf_escape].
    - apply nlf_meta_line; [reflexivity|exact Hmn|reflexivity].
    - unfold om_unit_lines. destruct (f_unit f); [constructor|]. constructor; [|constructor].
      apply nlf_meta_line; [reflexivity|exact Hmn|apply nlf_escape].
    - rewrite Forall_forall in *. intros l Hl. apply in_map_iff in Hl as (s & <- & Hs).
      destruct (om_cbody_facts s (Hok s Hs)) as (_ & H & _). exact H.
  Qed.

  (* C04 L5, counter: one counter family and the end marker *)
  Theorem om_counter_family_roundtrip f text :
    counter_family_ok f -> om_render true [f] = Ok text -> p_text text = Ok [cfam_of f].
  Proof.
    intros Hf Hr. pose proof (cfamily_lines_no_lf f Hf) as Hnl.
    destruct Hf as (Hfn & Hne & Hty & Hun & Hok & Hwg).
    apply om_render_unlines in Hr. subst text.
    assert (Hlf : Forall (fun l => ~ In LF l) (om_family_lines_of f ++ [S_EOF])).
    { apply Forall_app. split; [exact Hnl|repeat constructor; vm_compute; intuition discriminate]. }
    unfold om_parse, om_lines. rewrite (split_unlines _ Hlf). rewrite rev_app_distr. cbn [rev app]. rewrite rev_involutive.
    unfold om_family_lines_of. rewrite Hfn, Hty. cbn [app om_run_lines].
    rewrite step_help by reflexivity.
    rewrite (meta_help NUM parse_float num_lt num_eqb num_zero num_inf om_st_init n (f_doc f) [] [] Hne eq_refl eq_refl).
    cbn [bind app].
    rewrite step_type by reflexivity.
    rewrite meta_type by (try reflexivity; exact Hne).
    cbn [bind app st_name st_allowed st_eof st_seen st_typ st_doc st_unit st_group st_seen_groups st_gts st_gts_samples st_samples].
    change (om_type_suffixes Expo.S_counter [[]]) with [OM_total; OM_created]. cbn [map].
    destruct (f_unit f) as [|u0 ur] eqn:Eu.
    - cbn [om_unit_lines app].
      match goal with |- context [@Build_om_st ?a ?b ?c ?d ?e ?f0 ?g ?h ?i ?j ?k ?l ?m] =>
        set (st2 := @Build_om_st a b c d e f0 g h i j k l m) end.
      assert (HI : CInv [] (Some (f_doc f)) None st2 [] None [] []).
      { subst st2. unfold CInv. cbn [st_name st_allowed st_eof st_seen st_typ st_doc st_unit st_samples st_seen_groups st_group
                                       st_gts st_gts_samples]. repeat split; auto. }
      destruct (run_counter_samples [] (Some (f_doc f)) None (f_samples f) st2 [] None [] [] [S_EOF] [] HI Hok Hwg)
        as (st3 & c3 & g3 & i3 & HI3 & Hrun).
      rewrite Hrun. destruct HI3 as (Hname & Hal & Heof & Hseen & Htyp & Hdoc & Hunit & Hsm & _).
      cbn [om_run_lines].
      rewrite step_eof by exact Heof.
      cbn [bind om_run_lines]. unfold om_flush.
      cbn [st_name st_seen st_doc st_typ st_unit st_samples st_eof]. rewrite Hname, Hseen, Hdoc, Htyp, Hunit, Hsm.
      cbn [app]. rewrite rev_involutive. rewrite (build_counter [] (f_doc f) None _ Hne eq_refl eq_refl eq_refl I).
      unfold cfam_of. rewrite Hfn, Eu. reflexivity.
    - cbn [om_unit_lines app om_run_lines].
      rewrite step_unit by reflexivity.
      rewrite meta_unit by (try reflexivity; exact Hne).
      cbn [bind app st_name st_allowed st_eof st_seen st_typ st_doc st_unit st_group st_seen_groups st_gts st_gts_samples st_samples].
      match goal with |- context [@Build_om_st ?a ?b ?c ?d ?e ?f0 ?g ?h ?i ?j ?k ?l ?m] =>
        set (st2 := @Build_om_st a b c d e f0 g h i j k l m) end.
      assert (HI : CInv [] (Some (f_doc f)) (Some (u0 :: ur)) st2 [] None [] []).
      { subst st2. unfold CInv. cbn [st_name st_allowed st_eof st_seen st_typ st_doc st_unit st_samples st_seen_groups st_group
                                       st_gts st_gts_samples]. repeat split; auto. }
      destruct (run_counter_samples [] (Some (f_doc f)) (Some (u0 :: ur)) (f_samples f) st2 [] None [] [] [S_EOF] [] HI Hok Hwg)
        as (st3 & c3 & g3 & i3 & HI3 & Hrun).
      rewrite Hrun. destruct HI3 as (Hname & Hal & Heof & Hseen & Htyp & Hdoc & Hunit & Hsm & _).
      cbn [om_run_lines].
      rewrite step_eof by exact Heof.
      cbn [bind om_run_lines]. unfold om_flush.
      cbn [st_name st_seen st_doc st_typ st_unit st_samples st_eof]. rewrite Hname, Hseen, Hdoc, Htyp, Hunit, Hsm.
      cbn [app]. rewrite rev_involutive. rewrite (build_counter [] (f_doc f) (Some (u0 :: ur)) _ Hne eq_refl eq_refl eq_refl Hun).
      unfold cfam_of. rewrite Hfn, Eu. reflexivity.
  Qed.

  (* ---------- the shape the instrumentation classes produce meets the grouping rule ---------- *)
  Lemma om_mem_sid_false sid l : ~ In sid l -> om_mem_sid sid l = false.
  Proof.
    induction l as [|x l IH]; intro H; [reflexivity|]. cbn [om_mem_sid].
    destruct (om_sid_eqb sid x) eqn:E; [apply om_sid_eqb_eq in E; subst; exfalso; apply H; left; reflexivity|].
    apply IH. intro Hin. apply H. right. exact Hin.
  Qed.

  Lemma wg_same_run g grp : forall seen sids r,
    Forall (fun s => ckey s = g) grp -> NoDup (map s_name grp) ->
    (forall s, In s grp -> ~ In (s_name s) (map fst sids)) ->
    exists seen' sids', well_grouped (Some g) seen sids (grp ++ r) = well_grouped (Some g) seen' sids' r /\
      (forall x, In x seen' -> x = g \/ In x seen) /\ (forall x, In x seen -> In x seen').
  Proof.
    induction grp as [|s grp IH]; intros seen sids r Hg Hnd Hfresh.
    - exists seen, sids. split; [reflexivity|]. split; auto.
    - inversion Hg as [|? ? Hs Hgs]; subst. inversion Hnd as [|? ? Hnin Hnd']; subst.
      cbn [app well_grouped]. cbv zeta. rewrite (proj2 (om_kvs_eqb_eq _ _) eq_refl).
      rewrite om_mem_sid_false.
      2:{ intro Hin. apply (Hfresh s (or_introl eq_refl)). apply (in_map fst) in Hin. exact Hin. }
      cbn [negb andb].
      destruct (IH (ckey s :: seen) ((s_name s, ckey s) :: sids) r Hgs Hnd') as (seen' & sids' & E & H1 & H2).
      { intros s' Hs' [Hin|Hin]; [cbn [fst] in Hin; apply Hnin; rewrite Hin; apply in_map; exact Hs'|].
        apply (Hfresh s' (or_intror Hs')). exact Hin. }
      exists seen', sids'. split; [exact E|]. split.
      + intros x Hx. destruct (H1 x Hx) as [->|[<-|Hin]]; auto.
      + intros x Hx. apply H2. right. exact Hx.
  Qed.

  Definition group_key (grp : list sample) : list (str * str) := match grp with s :: _ => ckey s | [] => [] end.
  Definition group_ok (grp : list sample) : Prop :=
    grp <> [] /\ Forall (fun s => ckey s = group_key grp) grp /\ NoDup (map s_name grp).

  (* samples listed group by group - each group one label set, differently named samples (name_total, name_created) -
     with different label sets from group to group *)
  Theorem well_grouped_groups groups : forall cur seen sids,
    (match cur with Some g0 => In g0 seen | None => True end) ->
    Forall group_ok groups -> NoDup (map group_key groups) ->
    (forall grp, In grp groups -> ~ In (group_key grp) seen) ->
    well_grouped cur seen sids (concat groups) = true.
  Proof.
    induction groups as [|grp groups IH]; intros cur seen sids Hcur Hok Hnd Hfresh; [reflexivity|].
    inversion Hok as [|? ? (Hne & Hkeys & Hnames) Hoks]; subst. inversion Hnd as [|? ? Hnin Hnd']; subst.
    destruct grp as [|s rest]; [congruence|]. cbn [concat app well_grouped]. cbv zeta.
    cbn [group_key] in *. inversion Hkeys as [|? ? _ Hrest]; subst. inversion Hnames as [|? ? Hsn Hnd2]; subst.
    assert (Hg : ~ In (ckey s) seen) by (apply (Hfresh (s :: rest)); left; reflexivity).
    assert (Hsame : match cur with Some g0 => om_kvs_eqb (ckey s) g0 | None => false end = false).
    { destruct cur as [g0|]; [|reflexivity]. destruct (om_kvs_eqb (ckey s) g0) eqn:E; [|reflexivity].
      apply om_kvs_eqb_eq in E. subst g0. contradiction. }
    rewrite Hsame. rewrite (om_mem_kvs_false _ _ Hg), andb_false_r. cbn [negb andb].
    destruct (wg_same_run (ckey s) rest (ckey s :: seen) [(s_name s, ckey s)] (concat groups) Hrest Hnd2)
      as (seen' & sids' & E & H1 & H2).
    { intros s' Hs' [Hin|[]]. cbn [fst] in Hin. apply Hsn. rewrite Hin. apply in_map. exact Hs'. }
    rewrite E. apply IH; auto.
    - apply H2. left. reflexivity.
    - intros grp Hgrp Hin. destruct (H1 _ Hin) as [Heq|[Heq|Hin']].
      + apply Hnin. rewrite <- Heq. apply in_map. exact Hgrp.
      + apply Hnin. rewrite Heq. apply in_map. exact Hgrp.
      + apply (Hfresh grp (or_intror Hgrp)). exact Hin'.
  Qed.
End Counter.
