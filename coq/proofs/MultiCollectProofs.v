(* C08 over worker histories: Part C - the collector over the shared directory, in terms of the workers' in-memory
   registries; pid reuse included (proofs/MultiReuseProofs.v explains every file of the directory by a single-process run). *)
From V Require Import lib.PyBase lib.Tac.
From V Require Import model.Metrics model.Equiv model.MultiHist.
From V Require Import proofs.EquivProofs proofs.EquivHistProofs proofs.EquivLenProofs proofs.MultiHistProofs proofs.MultiReuseProofs.
From V Require model.Multiproc model.Values model.MultiprocSpec proofs.MultiprocProofs proofs.ValuesProofs.
From Coq Require Import Permutation.
Ltac Zify.zify_post_hook ::= Z.to_euclidean_division_equations.
Open Scope N_scope.

(* ================= Part C: the shared directory, file by file ================= *)
Lemma NoDup_filter_fst {A B} (f : A * B -> bool) (l : list (A * B)) : NoDup (map fst l) -> NoDup (map fst (filter f l)).
Proof.
  induction l as [|a l IH]; intro H; [constructor|]. cbn [map] in H. inversion H; subst. cbn [filter].
  destruct (f a); [|auto]. cbn [map]. constructor; [|auto]. intro Hin. apply H2.
  apply in_map_iff in Hin as [x [E Hx]]. apply filter_In in Hx as [Hx _]. rewrite <- E. apply in_map. exact Hx.
Qed.

Lemma count_str_NoDup p l : NoDup l -> (count_str p l <= 1)%nat.
Proof.
  induction 1 as [|x l Hx _ IH]; cbn [count_str]; [lia|]. destruct (str_eqb p x) eqn:E; [|exact IH].
  apply str_eqb_eq in E; subst x. assert (count_str p l = 0)%nat; [|lia].
  clear IH. induction l as [|y l IH]; [reflexivity|]. cbn [count_str].
  destruct (str_eqb p y) eqn:E; [apply str_eqb_eq in E; subst; exfalso; apply Hx; left; reflexivity|].
  apply IH. intro; apply Hx; right; assumption.
Qed.

Section Shared.
  Variable F : Type.
  Variables fzero fone : F.
  Variable fadd : F -> F -> F.
  Variable fneg : F -> F.
  Variables flt fle feqb : F -> F -> bool.
  Variable of_Z : Z -> res F.
  Variable zlef : Z -> F -> bool.
  Variable fmt_le : F -> str.
  Variable fams0 : mregistry F.
  Variable metas : list fmeta.
  Variable steps : list (hstep F).

  Notation fams := (map (shape_of F) fams0).
  Notation fs := (Values.fs F).
  Notation content := (Values.content F).
  Notation fneq := Values.fname_eqb.
  Let fneq_eq := ValuesProofs.fname_eqb_eq.
  Notation rp := (fs_of_pid F).
  Notation mp_step := (mp_step F fzero fone fadd fneg flt fle feqb of_Z zlef fmt_le).
  Notation mh_step := (mh_step F fzero fone fadd fneg flt fle feqb of_Z zlef fmt_le fams metas).
  Notation run := (mp_run_multi F fzero fone fadd fneg flt fle feqb of_Z zlef fmt_le fams metas).
  Notation MEM ops := (mem_run F fzero fadd fneg flt fle of_Z zlef metas (mem_init F fams0) ops).
  Notation MP p ops := (mp_run F fzero fone fadd fneg flt fle feqb of_Z zlef fmt_le metas p (mp_init F fzero fmt_le metas p fams0) ops).
  Notation Inv := (Inv F fzero fone fadd flt fmt_le).
  Notation fam_inv := (fam_inv F fzero fone fadd flt fmt_le).
  Notation enc_kids := (enc_kids F fzero fone fadd fmt_le).
  Notation kids := (kids F).
  Notation fam_file := (fam_file F).

  (* the domain: C12's (wf_reg, call_ok on every call) and pids without underscore; pid reuse is allowed *)
  Definition hcall_ok (st : hstep F) : Prop :=
    match st with HCall _ now o => call_ok F fzero flt (now, o) | _ => True end.
  Hypothesis Hwf : wf_reg F fzero fmt_le metas fams0.
  Hypothesis Hus : Forall (fun st => ~ In Multiproc.US (hpid F st)) steps.
  Hypothesis Hcalls : Forall hcall_ok steps.
  Hypothesis FLT_pos : forall t, flt fzero t = true -> feqb t fzero = false.

  Definition DIR : fs := h_fs F (run (mh_init F) steps).

  (* ----- which single-process run explains the files of a pid (pid reuse included) ----- *)
  Notation src_ops := (src_ops F).

  Lemma Hfresh : forall fam, In fam fams0 -> f_children fam = [].
  Proof. intros fam H. destruct Hwf as (_ & _ & Hw & _). destruct (Hw fam H) as (_ & _ & [Hc _]). exact Hc. Qed.

  Lemma life2_calls p : forall (sts : list (hstep F)) (l : life2 F), Forall hcall_ok sts ->
    (forall ops, l_all F l = Some ops \/ l_live F l = Some ops -> Forall (call_ok F fzero flt) ops) ->
    forall ops, l_all F (fold_left (life2_step F p) sts l) = Some ops \/ l_live F (fold_left (life2_step F p) sts l) = Some ops ->
      Forall (call_ok F fzero flt) ops.
  Proof.
    induction sts as [|st sts IH]; intros l Hc Hl ops E; [apply Hl; exact E|]. inversion Hc; subst.
    cbn [fold_left] in E. eapply IH; [assumption| |exact E].
    intros ops' E'. unfold life2_step in E'. destruct (str_eqb (hpid F st) p); [|apply Hl; exact E'].
    destruct st as [q|q now o|q]; cbn [l_all l_live] in E'.
    - destruct E' as [E'|E']; [destruct (l_all F l) eqn:Ea|destruct (l_live F l) eqn:Ea]; cbn [or_nil] in E'; inversion E'; subst;
        try constructor; apply Hl; auto.
    - destruct (l_alive F l); [|apply Hl; exact E']. cbn [l_all l_live] in E'.
      destruct E' as [E'|E']; [destruct (l_all F l) eqn:Ea|destruct (l_live F l) eqn:Ea]; cbn [snoc_opt] in E'; inversion E'; subst;
        (apply Forall_app; split; [apply Hl; auto|constructor; [assumption|constructor]]).
    - destruct E' as [E'|E']; [apply Hl; left; exact E'|discriminate].
  Qed.

  Lemma src_ok p b ops : src_ops p b steps = Some ops -> Forall (call_ok F fzero flt) ops.
  Proof.
    intro E. apply (life2_calls p steps (mkL2 F None None false) Hcalls); [intros ? [H|H]; discriminate|].
    unfold MultiHist.src_ops, life2_of in E. destruct b; [right|left]; exact E.
  Qed.

  Lemma src_inv p b ops : src_ops p b steps = Some ops -> exists tsfs, Inv p metas (MEM ops) (MP p ops) tsfs.
  Proof.
    intro E. destruct Hwf as (Hlen & Hnd & Hw & Hg).
    apply (run_sim F fzero fone fadd fneg flt fle feqb of_Z zlef fmt_le p metas ops _ _ (fun _ _ => fzero)).
    - apply init_sim; assumption.
    - apply (call_ok_op_ok F fzero flt feqb FLT_pos). apply (src_ok p b ops E).
  Qed.

  Lemma life2_started p : forall (sts : list (hstep F)) (l : life2 F),
    l_all F (fold_left (life2_step F p) sts l) <> None \/ l_live F (fold_left (life2_step F p) sts l) <> None ->
    (l_all F l <> None \/ l_live F l <> None) \/ In p (map (hpid F) sts).
  Proof.
    induction sts as [|st sts IH]; intros l H; [left; exact H|]. cbn [fold_left] in H. apply IH in H as [H|H].
    - unfold life2_step in H. destruct (str_eqb (hpid F st) p) eqn:E; [|left; exact H].
      apply str_eqb_eq in E. right. left. exact E.
    - right. right. exact H.
  Qed.

  Lemma src_known p b ops : src_ops p b steps = Some ops -> In p (map (hpid F) steps).
  Proof.
    intro E. destruct (life2_started p steps (mkL2 F None None false)) as [[H|H]|H].
    - unfold MultiHist.src_ops, life2_of in E. destruct b; [right|left]; rewrite E; discriminate.
    - cbn in H. congruence.
    - cbn in H. congruence.
    - exact H.
  Qed.

  (* ----- the files of a pid ----- *)
  Lemma no_files_of_strangers p : ~ In p (map (hpid F) steps) -> rp p DIR = [].
  Proof.
    unfold DIR. assert (G : forall sts (s : mh F), ~ In p (map (hpid F) sts) -> rp p (h_fs F s) = [] ->
      rp p (h_fs F (run s sts)) = []); [|intros H; apply G; [exact H|reflexivity]].
    induction sts as [|st sts IH]; intros s Hn Hs; [exact Hs|]. unfold mp_run_multi. cbn [fold_left]. apply IH.
    - intro; apply Hn; right; assumption.
    - assert (Hne : p <> hpid F st) by (intro E; apply Hn; left; congruence).
      destruct st as [q|q now o|q]; cbn [hpid] in Hne; cbn [MultiHist.mh_step fst h_fs].
      + rewrite (init_other F fzero fmt_le q p Hne). exact Hs.
      + destruct (d_find str_eqb (h_procs F s) q) as [sh|]; [|exact Hs].
        pose proof (step_other F fzero fone fadd fneg flt fle feqb of_Z zlef fmt_le metas q p sh (h_fs F s) now o Hne) as Ho.
        destruct (mp_step metas q (mkMp F sh (h_fs F s)) now o) as [r out]. cbn [fst h_fs p_fs] in *. congruence.
      + rewrite dead_rp, Hs. reflexivity.
  Qed.

  Lemma pid_known fn c : In (fn, c) DIR -> In (snd fn) (map (hpid F) steps).
  Proof.
    intro Hin. destruct (mem_str (snd fn) (map (hpid F) steps)) eqn:E; [apply mem_str_In; exact E|]. exfalso.
    assert (Hn : ~ In (snd fn) (map (hpid F) steps)) by (intro H; apply mem_str_In in H; congruence).
    pose proof (no_files_of_strangers (snd fn) Hn) as H0.
    assert (Hx : In (fn, c) (rp (snd fn) DIR)) by (apply filter_In; split; [exact Hin|apply str_eqb_refl]).
    rewrite H0 in Hx. contradiction.
  Qed.

  Lemma known_nous p : In p (map (hpid F) steps) -> ~ In Multiproc.US p.
  Proof. intro H. apply in_map_iff in H as [st [<- Hst]]. rewrite Forall_forall in Hus. apply Hus. exact Hst. Qed.

  (* the files of pid p of one class *)
  Lemma class_dir p b : ~ In Multiproc.US p ->
    rq F (Qc p b) DIR = match src_ops p b steps with Some ops => rq F (Qc p b) (p_fs F (MP p ops)) | None => [] end.
  Proof. intro Hp. apply (class_files F fzero fone fadd fneg flt fle feqb of_Z zlef fmt_le fams0 metas p b Hfresh Hp steps Hus). Qed.

  Lemma Qc_self (fn : Values.fname) : Qc (snd fn) (live_prefix (fst fn)) fn = true.
  Proof. unfold MultiReuseProofs.Qc. rewrite str_eqb_refl. destruct (live_prefix (fst fn)); reflexivity. Qed.

  Lemma NoDup_by_class (d : fs) :
    (forall fn, NoDup (map fst (rq F (Qc (snd fn) (live_prefix (fst fn))) d))) -> NoDup (map fst d).
  Proof.
    induction d as [|[fn c] d IH]; intro H; [constructor|]. cbn [map fst]. constructor.
    - intro Hin. apply in_map_iff in Hin as [[fn' c'] [E Hin]]. cbn [fst] in E; subst fn'.
      specialize (H fn). unfold rq in H. cbn [filter fst] in H. rewrite Qc_self in H.
      cbn [map fst] in H. inversion H as [|? ? Hn _]; subst. apply Hn.
      apply in_map_iff. exists (fn, c'). split; [reflexivity|]. apply filter_In. split; [exact Hin|apply Qc_self].
    - apply IH. intro fn'. specialize (H fn'). unfold rq in *. cbn [filter fst] in H.
      destruct (Qc (snd fn') (live_prefix (fst fn')) fn); [cbn [map] in H; inversion H; assumption|exact H].
  Qed.

  Lemma dir_nodup : NoDup (map fst DIR).
  Proof.
    apply NoDup_by_class. intro fn. destruct (mem_str (snd fn) (map (hpid F) steps)) eqn:E.
    - apply mem_str_In in E. rewrite (class_dir _ _ (known_nous _ E)).
      destruct (src_ops (snd fn) (live_prefix (fst fn)) steps) as [ops|] eqn:Es; [|constructor].
      destruct (src_inv _ _ ops Es) as [tsfs (_ & _ & _ & Hnd & _)]. apply NoDup_filter_fst. exact Hnd.
    - rewrite (rq_rp F (snd fn)), no_files_of_strangers; [constructor|]. intro H. apply mem_str_In in H. congruence.
  Qed.

  (* a file of the shared directory is a file of the single-process run that explains its class, with the same content *)
  Lemma file_src fn c : In (fn, c) DIR -> exists ops,
    src_ops (snd fn) (live_prefix (fst fn)) steps = Some ops /\ In (fn, c) (p_fs F (MP (snd fn) ops)).
  Proof.
    intro Hin. pose proof (known_nous _ (pid_known fn c Hin)) as Hp.
    assert (Hx : In (fn, c) (rq F (Qc (snd fn) (live_prefix (fst fn))) DIR)) by (apply filter_In; split; [exact Hin|apply Qc_self]).
    rewrite (class_dir _ _ Hp) in Hx. destruct (src_ops (snd fn) (live_prefix (fst fn)) steps) as [ops|]; [|contradiction].
    exists ops. split; [reflexivity|]. apply filter_In in Hx as [Hx _]. exact Hx.
  Qed.

  (* ... and conversely *)
  Lemma src_file pre p c ops : src_ops p (live_prefix pre) steps = Some ops -> In ((pre, p), c) (p_fs F (MP p ops)) ->
    In ((pre, p), c) DIR.
  Proof.
    intros Es Hin. pose proof (known_nous _ (src_known _ _ _ Es)) as Hp.
    assert (Hx : In ((pre, p), c) (rq F (Qc p (live_prefix pre)) DIR)).
    { rewrite (class_dir _ _ Hp), Es. apply filter_In. split; [exact Hin|apply (Qc_self (pre, p))]. }
    apply filter_In in Hx as [Hx _]. exact Hx.
  Qed.

  Lemma statics_at f fam0 ops : nth_error fams0 f = Some fam0 ->
    exists fam, nth_error (m_reg F (MEM ops)) f = Some fam /\ statics F fam = statics F fam0.
  Proof.
    intro Hf. pose proof (mem_run_statics F fzero fadd fneg flt fle of_Z zlef metas ops (mem_init F fams0)) as Hst.
    cbn [mem_init m_reg] in Hst.
    assert (Hn : nth_error (map (statics F) fams0) f = Some (statics F fam0)) by (rewrite MetricsProofs.nth_error_map', Hf; reflexivity).
    rewrite <- Hst, MetricsProofs.nth_error_map' in Hn. destruct (nth_error (m_reg F (MEM ops)) f) as [fam|]; [|discriminate].
    exists fam. split; [reflexivity|]. cbn in Hn. congruence.
  Qed.

  Lemma statics_same (a b : mfamily F (child F)) : statics F a = statics F b -> same_static F a b.
  Proof. unfold statics. intro E. inversion E. repeat split; assumption. Qed.

  (* live-mode gauge families are the families whose file is a live-mode gauge file *)
  Definition live_fam (k : mkind) (me : fmeta) : bool :=
    match k with KGauge => mem_str (fm_mode me) Multiproc.LIVE_MODES | _ => false end.

  Lemma live_prefix_fam k me p : supported k = true -> live_prefix (fst (fname_of k (fm_mode me) p)) = live_fam k me.
  Proof.
    intro Hs. unfold live_prefix, fname_of. cbn [fst]. destruct k; try discriminate Hs; reflexivity.
  Qed.

  (* the calls that explain the file of family f of pid p *)
  Definition src (p : str) (f : nat) : option (list (F * mcall F)) :=
    match nth_error fams0 f, nth_error metas f with
    | Some fam0, Some me => src_ops p (live_fam (f_kind fam0) me) steps
    | _, _ => None
    end.

  Lemma wf_kind f fam0 me : nth_error fams0 f = Some fam0 -> nth_error metas f = Some me ->
    supported (f_kind fam0) = true /\ (f_kind fam0 = KGauge -> In (fm_mode me) GAUGE_MODES).
  Proof.
    intros Hf Hm. destruct Hwf as (_ & _ & Hw & Hg). split.
    - apply (Hw fam0 (nth_error_In _ _ Hf)).
    - intro Hk. apply (Hg f fam0 me Hf Hm Hk).
  Qed.

  Lemma src_of_file f fam0 me fn : nth_error fams0 f = Some fam0 -> nth_error metas f = Some me ->
    fneq fn (fam_file fam0 me (snd fn)) = true -> src (snd fn) f = src_ops (snd fn) (live_prefix (fst fn)) steps.
  Proof.
    intros Hf Hm E. apply fneq_eq in E. unfold src. rewrite Hf, Hm. f_equal.
    rewrite E at 1. unfold Equiv.fam_file. symmetry. apply live_prefix_fam. apply (wf_kind f fam0 me Hf Hm).
  Qed.

  (* ===== every file of the shared directory, seen from family f: either it is the family's file of that pid and holds,
     in order, the encoding of the in-memory children of the single-process run that explains it, or it has no entry
     of that name ===== *)
  Lemma file_view f fam0 me : nth_error fams0 f = Some fam0 -> nth_error metas f = Some me ->
    forall fn c, In (fn, c) DIR -> exists ops fam tsfs,
      src_ops (snd fn) (live_prefix (fst fn)) steps = Some ops
      /\ nth_error (m_reg F (MEM ops)) f = Some fam
      /\ statics F fam = statics F fam0
      /\ Inv (snd fn) metas (MEM ops) (MP (snd fn) ops) tsfs
      /\ view (f_name fam0) c = if fneq fn (fam_file fam0 me (snd fn)) then enc_kids fam me (tsfs f) (kids fam) else [].
  Proof.
    intros Hf Hm fn c Hin. destruct (file_src fn c Hin) as (ops & Hl & Hmp).
    destruct (src_inv _ _ ops Hl) as [tsfs HI]. destruct (statics_at f fam0 ops Hf) as (fam & Hfam & Hst).
    exists ops, fam, tsfs. repeat (split; [assumption|]).
    pose proof HI as (_ & _ & _ & Hnd & HF & _). destruct (HF f fam me Hfam Hm) as [_ _ _ _ Hview _ _ _].
    specialize (Hview fn). rewrite (content_of_in F _ fn c Hnd Hmp) in Hview.
    pose proof (statics_same fam fam0 Hst) as Hss. destruct Hss as (Hk & Hn & _).
    rewrite <- Hn. rewrite Hview. unfold Equiv.fam_file. rewrite Hk. reflexivity.
  Qed.

  (* ================= the collector over the shared directory ================= *)
  Variable parse_le : str -> F.
  Notation sample := (Multiproc.sample F).
  Notation skey := Multiproc.skey.
  Notation collect_mp := (collect_mp F fzero fadd flt feqb parse_le fmt_le).
  Notation spec_series := (MultiprocSpec.spec_series F fzero fadd flt feqb parse_le fmt_le).
  Notation sk := (sk F).

  (* the header multiprocess.py parses from the name of the family's file of pid p *)
  Definition hdr (k : mkind) (mode p : str) (c : content) : Multiproc.file F :=
    match k with KGauge => FILE F Multiproc.S_gauge mode p c | _ => FILE F (typ_of k) [] [] c end.
  Definition fmode (k : mkind) (me : fmeta) : str := match k with KGauge => fm_mode me | _ => [] end.

  Definition psamples (L : content) : list sample :=
    map (fun e => Multiproc.mkSample F (Multiproc.k_name (fst e)) (Multiproc.k_labels (fst e)) (fst (snd e)) fzero) L.
  Definition ksamples (k : mkind) (p : str) (L : content) : list sample :=
    match k with KGauge => gsamples F p L | _ => psamples L end.

  (* the samples _read_metrics makes of the entries of family fam0 in one file of the directory *)
  Definition file_samples (fam0 : mfamily F (child F)) (me : fmeta) (fc : Values.fname * content) : list sample :=
    if fneq (fst fc) (fam_file fam0 me (snd (fst fc)))
    then ksamples (f_kind fam0) (snd (fst fc)) (view (f_name fam0) (snd fc)) else [].

  Lemma entries_all n (d : fs) :
    MultiprocSpec.entries_of F n (map (Multiproc.file_of_named F) (named_files F d))
    = flat_map (fun fc => map (pair (Multiproc.file_of_named F (fname_str (fst fc), snd fc))) (view n (snd fc))) d.
  Proof.
    unfold named_files. induction d as [|fc d IH]; [reflexivity|]. rewrite (entries_of_cons F n fc d), IH. reflexivity.
  Qed.

  Lemma view_metric n (c : content) e : In e (view n c) -> Multiproc.k_metric (fst e) = n.
  Proof. unfold view. intro H. apply filter_In in H as [_ H]. apply str_eqb_eq in H. congruence. Qed.

  Lemma hdr_typ k mode p c : Multiproc.f_typ F (hdr k mode p c) = typ_of k.
  Proof. destruct k; reflexivity. Qed.
  Lemma hdr_mode k me p c : Multiproc.f_mode F (hdr k (fm_mode me) p c) = fmode k me.
  Proof. destruct k; reflexivity. Qed.

  Lemma hdr_samples k mode p c (L : content) :
    map (MultiprocSpec.sample_of F fzero) (map (pair (hdr k mode p c)) L) = ksamples k p L.
  Proof.
    destruct k; cbn [hdr ksamples]; try (apply (samples_plain F fzero); reflexivity). apply (samples_gauge F fzero).
  Qed.

  Lemma mode_after_all T M (es : list (MultiprocSpec.fentry F)) : es <> [] ->
    Forall (fun fe => Multiproc.f_typ F (fst fe) = T /\ Multiproc.f_mode F (fst fe) = M) es ->
    MultiprocSpec.mode_after F [] es = if str_eqb T Multiproc.S_gauge then M else [].
  Proof.
    intros Hne Hall. unfold MultiprocSpec.mode_after.
    assert (G : forall m0, fold_left (fun md (fe : MultiprocSpec.fentry F) =>
                  if MultiprocSpec.is_gauge_file F (fst fe) then Multiproc.f_mode F (fst fe) else md) es m0
                = if str_eqb T Multiproc.S_gauge then (match es with [] => m0 | _ => M end) else m0).
    { clear Hne. induction Hall as [|fe es [Hty Hmo] _ IH]; intro m0; cbn [fold_left]; [destruct (str_eqb T Multiproc.S_gauge); reflexivity|].
      rewrite IH. unfold MultiprocSpec.is_gauge_file. rewrite Hty, Hmo.
      destruct (str_eqb T Multiproc.S_gauge); [destruct es; reflexivity|reflexivity]. }
    rewrite G. destruct es; [contradiction|reflexivity].
  Qed.

  Lemma fm_ext_in {A B} (f g : A -> list B) l : (forall a, In a l -> f a = g a) -> flat_map f l = flat_map g l.
  Proof. induction l as [|a l IH]; intro H; cbn [flat_map]; [reflexivity|]. rewrite H by (left; reflexivity). rewrite IH; [reflexivity|]. intros; apply H; right; assumption. Qed.

  Lemma spec_series_nil T M n k : spec_series T M n [] k = None.
  Proof.
    unfold MultiprocSpec.spec_series, MultiprocSpec.spec_gauge, MultiprocSpec.spec_plain.
    destruct (str_eqb T Multiproc.S_gauge).
    - repeat match goal with |- context [if ?b then _ else _] => destruct b end; reflexivity.
    - destruct (str_eqb T Multiproc.S_histogram); reflexivity.
  Qed.

  (* ===== the collector's family of a registered metric over the shared directory: the C08 specification applied to
     the samples of the family's files, in directory order ===== *)
  Theorem shared_series f fam0 me k : nth_error fams0 f = Some fam0 -> nth_error metas f = Some me ->
    d_find Multiproc.skey_eqb (mp_family F (f_name fam0) (collect_mp DIR)) k
    = spec_series (typ_of (f_kind fam0)) (fmode (f_kind fam0) me) (f_name fam0) (flat_map (file_samples fam0 me) DIR) k.
  Proof.
    intros Hf Hm. destruct (wf_kind f fam0 me Hf Hm) as [Hsup Hmode].
    unfold Equiv.collect_mp, Multiproc.merge_named. rewrite (mp_family_eq F fzero fadd flt feqb parse_le fmt_le), entries_all.
    rewrite (fm_ext_in _ (fun fc : Values.fname * content =>
                     if fneq (fst fc) (fam_file fam0 me (snd (fst fc)))
                     then map (pair (hdr (f_kind fam0) (fm_mode me) (snd (fst fc)) (snd fc))) (view (f_name fam0) (snd fc)) else []) DIR).
    2:{ intros [fn c] Hin. cbn [fst snd].
      destruct (file_view f fam0 me Hf Hm fn c Hin) as (ops & fam & tsfs & _ & _ & _ & _ & Hv).
      destruct (fneq fn (fam_file fam0 me (snd fn))) eqn:E; [|rewrite Hv; reflexivity].
      apply fneq_eq in E. f_equal. f_equal. unfold Multiproc.file_of_named. cbn [fst snd]. rewrite E at 1. unfold Equiv.fam_file.
      rewrite (parse_file_name (f_kind fam0) (fm_mode me) (snd fn) Hsup Hmode (known_nous _ (pid_known fn c Hin))).
      destruct (f_kind fam0); try discriminate; reflexivity. }
    set (n := f_name fam0).
    set (es := flat_map _ DIR).
    assert (Hsam : map (MultiprocSpec.sample_of F fzero) es = flat_map (file_samples fam0 me) DIR).
    { subst es. rewrite map_flat_map. apply fm_ext_in. intros [fn c] _. unfold file_samples. cbn [fst snd].
      destruct (fneq fn (fam_file fam0 me (snd fn))); [apply hdr_samples|reflexivity]. }
    assert (Hall : Forall (fun fe => (Multiproc.f_typ F (fst fe) = typ_of (f_kind fam0)
                                      /\ Multiproc.f_mode F (fst fe) = fmode (f_kind fam0) me)
                                     /\ Multiproc.k_metric (fst (snd fe)) = n) es).
    { subst es. apply Forall_forall. intros fe Hfe. apply in_flat_map in Hfe as [[fn c] [_ Hfe]]. cbn [fst snd] in Hfe.
      destruct (fneq fn (fam_file fam0 me (snd fn))); [|contradiction]. apply in_map_iff in Hfe as [e [<- He]]. cbn [fst snd].
      split; [split; [apply hdr_typ|apply hdr_mode]|eapply view_metric; exact He]. }
    destruct es as [|[f0 [k0 x0]] r] eqn:Ees.
    - cbn [MultiprocProofs.metric_of d_find]. rewrite <- Hsam. cbn [map]. symmetry. apply spec_series_nil.
    - rewrite <- Ees in *. unfold MultiprocProofs.metric_of. rewrite Ees. rewrite <- Ees.
      rewrite (MultiprocProofs.accumulate_spec F fzero fadd flt feqb parse_le fmt_le).
      cbn [Multiproc.m_typ Multiproc.m_mode Multiproc.m_name Multiproc.m_samples]. rewrite Hsam.
      assert (H0 : (Multiproc.f_typ F f0 = typ_of (f_kind fam0) /\ Multiproc.f_mode F f0 = fmode (f_kind fam0) me)
                   /\ Multiproc.k_metric k0 = n).
      { rewrite Ees in Hall. inversion Hall; subst. assumption. }
      destruct H0 as [[Ht _] Hn]. rewrite Ht, Hn.
      rewrite (mode_after_all (typ_of (f_kind fam0)) (fmode (f_kind fam0) me) es).
      + destruct (f_kind fam0); try discriminate; reflexivity.
      + rewrite Ees. discriminate.
      + eapply Forall_impl; [|exact Hall]. intros fe [H _]. exact H.
  Qed.

  (* the entries the collector groups under the family's name: those of the family's own files, in directory order *)
  Lemma shared_entries f fam0 me : nth_error fams0 f = Some fam0 -> nth_error metas f = Some me ->
    MultiprocSpec.entries_of F (f_name fam0) (map (Multiproc.file_of_named F) (named_files F DIR))
    = flat_map (fun fc : Values.fname * content =>
                  if fneq (fst fc) (fam_file fam0 me (snd (fst fc)))
                  then map (pair (hdr (f_kind fam0) (fm_mode me) (snd (fst fc)) (snd fc))) (view (f_name fam0) (snd fc)) else []) DIR.
  Proof.
    intros Hf Hm. destruct (wf_kind f fam0 me Hf Hm) as [Hsup Hmode]. rewrite entries_all. apply fm_ext_in.
    intros [fn c] Hin. cbn [fst snd].
    destruct (file_view f fam0 me Hf Hm fn c Hin) as (ops & fam & tsfs & _ & _ & _ & _ & Hv).
    destruct (fneq fn (fam_file fam0 me (snd fn))) eqn:E; [|rewrite Hv; reflexivity].
    apply fneq_eq in E. f_equal. f_equal. unfold Multiproc.file_of_named. cbn [fst snd]. rewrite E at 1. unfold Equiv.fam_file.
    rewrite (parse_file_name (f_kind fam0) (fm_mode me) (snd fn) Hsup Hmode (known_nous _ (pid_known fn c Hin))).
    destruct (f_kind fam0); try discriminate; reflexivity.
  Qed.

  (* ===== the family itself: reported exactly once, with the declared help text and type, iff some file holds an entry
     of it; never under another help or type ===== *)
  Theorem shared_family f fam0 me : nth_error fams0 f = Some fam0 -> nth_error metas f = Some me ->
    match flat_map (file_samples fam0 me) DIR with
    | [] => forall h t ss, ~ In (f_name fam0, h, t, ss) (collect_mp DIR)
    | _ :: _ => exists ss, In (f_name fam0, fm_help me, typ_of (f_kind fam0), ss) (collect_mp DIR)
                  /\ NoDup (map fst ss)
                  /\ forall h t ss', In (f_name fam0, h, t, ss') (collect_mp DIR) -> (h, t, ss') = (fm_help me, typ_of (f_kind fam0), ss)
    end.
  Proof.
    intros Hf Hm. unfold Equiv.collect_mp, Multiproc.merge_named.
    pose proof (MultiprocProofs.merge_refines F fzero fadd flt feqb parse_le fmt_le
                  (map (Multiproc.file_of_named F) (named_files F DIR)) (f_name fam0)) as HR.
    rewrite (shared_entries f fam0 me Hf Hm) in HR.
    set (es := flat_map _ DIR) in HR.
    assert (Hsam : map (MultiprocSpec.sample_of F fzero) es = flat_map (file_samples fam0 me) DIR).
    { subst es. rewrite map_flat_map. apply fm_ext_in. intros [fn c] _. unfold file_samples. cbn [fst snd].
      destruct (fneq fn (fam_file fam0 me (snd fn))); [apply hdr_samples|reflexivity]. }
    rewrite <- Hsam.
    assert (Hmeta : forall fe, In fe es -> Multiproc.f_typ F (fst fe) = typ_of (f_kind fam0) /\ Multiproc.k_help (fst (snd fe)) = fm_help me).
    { subst es. intros fe Hfe. apply in_flat_map in Hfe as [[fn c] [Hin Hfe]]. cbn [fst snd] in Hfe.
      destruct (fneq fn (fam_file fam0 me (snd fn))) eqn:E; [|contradiction]. apply in_map_iff in Hfe as [e [<- He]]. cbn [fst snd].
      split; [apply hdr_typ|].
      destruct (file_view f fam0 me Hf Hm fn c Hin) as (ops & fam & tsfs & _ & Hfam & _ & HI & Hv). rewrite E in Hv. rewrite Hv in He.
      pose proof HI as (_ & _ & _ & _ & HF & _). destruct (HF f fam me Hfam Hm) as [_ _ _ Hok _ _ _ _].
      apply (enc_kids_meta F fzero fone fadd fmt_le fam me (tsfs f) (kids fam) e Hok He). }
    destruct es as [|[f0 [k0 x0]] r]; cbn [map]; [exact HR|].
    destruct (Hmeta (f0, (k0, x0)) (or_introl eq_refl)) as [Ht Hh]. cbn [fst snd] in Ht, Hh. rewrite Ht, Hh in HR.
    destruct HR as (ss & H1 & H2 & H3 & _). exists ss. split; [exact H1|split; [exact H2|exact H3]].
  Qed.

  (* ================= from the files back to the workers' in-memory registries ================= *)
  (* the child with label values lv of family f in the in-memory registry of the single-process run that explains the
     family's file of pid p: of all calls ever made under pid p, or - live-mode gauges - of those since p was last marked dead *)
  Definition mem_child (p : str) (f : nat) (lv : key) : option (child F) :=
    match src p f with
    | Some ops =>
        match nth_error (m_reg F (MEM ops)) f with Some fam => d_find key_eqb (kids fam) lv | None => None end
    | None => None
    end.
  (* the pids whose file of the family's type (and mode) is in the directory, in directory order = read order *)
  Definition readers (fam0 : mfamily F (child F)) (me : fmeta) : list str :=
    map (fun fc : Values.fname * content => snd (fst fc))
        (filter (fun fc => fneq (fst fc) (fam_file fam0 me (snd (fst fc)))) DIR).

  Lemma flat_map_readers {X} (G : str -> list X) fam0 me :
    flat_map G (readers fam0 me)
    = flat_map (fun fc : Values.fname * content => if fneq (fst fc) (fam_file fam0 me (snd (fst fc))) then G (snd (fst fc)) else []) DIR.
  Proof.
    unfold readers. induction DIR as [|fc d IH]; [reflexivity|]. cbn [filter flat_map].
    destruct (fneq (fst fc) (fam_file fam0 me (snd (fst fc)))); [cbn [map flat_map]; rewrite IH; reflexivity|exact IH].
  Qed.

  Lemma lab_eqb names lv lv' : NoDup names -> length lv = length names -> length lv' = length names ->
    Multiproc.labels_eqb (lab names lv) (lab names lv') = key_eqb lv lv'.
  Proof.
    intros Hnd H1 H2. destruct (key_eqb lv lv') eqn:E.
    - apply MetricsProofs.key_eqb_eq in E; subst. apply MultiprocProofs.labels_eqb_eq. reflexivity.
    - destruct (Multiproc.labels_eqb _ _) eqn:E2; [|reflexivity]. apply MultiprocProofs.labels_eqb_eq in E2.
      apply (lab_inj names lv lv' Hnd H1 H2) in E2. subst. rewrite (proj2 (MetricsProofs.key_eqb_eq lv' lv') eq_refl) in E. discriminate.
  Qed.

  Lemma fm_nil {A X} (l : list A) : flat_map (fun _ : A => @nil X) l = [].
  Proof. induction l; [reflexivity|exact IHl]. Qed.

  Lemma fm_pick {C X} (K : list (key * C)) lv (g : key * C -> list X) : NoDup (map fst K) ->
    flat_map (fun kc => if key_eqb lv (fst kc) then g kc else []) K
    = match d_find key_eqb K lv with Some c => g (lv, c) | None => [] end.
  Proof.
    induction K as [|[lv' c] K IH]; intro Hnd; [reflexivity|]. cbn [map fst] in Hnd. inversion Hnd as [|? ? Hn Hnd']; subst.
    cbn [flat_map d_find fst]. destruct (key_eqb lv lv') eqn:E; [|apply IH; assumption].
    apply MetricsProofs.key_eqb_eq in E; subst lv'. rewrite (fm_ext_in _ (fun _ => []) K), fm_nil; [apply app_nil_r|].
    intros [lv2 c2] Hin. cbn [fst]. destruct (key_eqb lv lv2) eqn:E2; [|reflexivity].
    apply MetricsProofs.key_eqb_eq in E2; subst. exfalso. apply Hn. apply (in_map fst) in Hin. exact Hin.
  Qed.

  Notation mkey := Multiproc.key.
  Notation enc_child := (enc_child F fzero fone fadd fmt_le).
  Notation kid_ok := (kid_ok F).
  Notation keys_wf := (keys_wf F fmt_le).
  Notation fcount := (fcount F fzero fone fadd).

  (* the entries of series (sname, labels of lv) *)
  Definition Qs (names : list str) (sname : str) (lv : key) (e : mkey * (F * F)) : bool :=
    Multiproc.skey_eqb (sname, lab names lv) (sk e).

  Lemma pick_enc {X} (fam : mfamily F (child F)) me tsf (K : list (key * child F)) sname lv
        (g : mkey * (F * F) -> X) (sel : key * child F -> list X) :
    NoDup (map fst K) ->
    (forall kc, In kc K ->
       map g (filter (Qs (f_labelnames fam) sname lv) (enc_child fam me (fst kc) (snd kc) (tsf (fst kc))))
       = if key_eqb lv (fst kc) then sel kc else []) ->
    map g (filter (Qs (f_labelnames fam) sname lv) (enc_kids fam me tsf K))
    = match d_find key_eqb K lv with Some c => sel (lv, c) | None => [] end.
  Proof.
    intros Hnd H. unfold EquivProofs.enc_kids. rewrite filter_flat_map, map_flat_map.
    rewrite (fm_ext_in _ (fun kc => if key_eqb lv (fst kc) then sel kc else []) K H). apply fm_pick. exact Hnd.
  Qed.

  (* what a child holds, by cell *)
  Definition ctr_val (c : child F) : list F := match c with Ctr (CF v) => [v] | _ => [] end.
  Definition gge_val (c : child F) : list F := match c with Gge v => [v] | _ => [] end.
  Definition smy_count (c : child F) : list F := match c with Smy n _ => [fcount n] | _ => [] end.
  Definition smy_sum (c : child F) : list F := match c with Smy _ s => [s] | _ => [] end.
  Definition hst_sum (c : child F) : list F := match c with Hst s _ => [s] | _ => [] end.

  Lemma Qs_entry names sname lv (fam : mfamily F (child F)) me name' lv' x : NoDup names ->
    length lv = length names -> length lv' = length names ->
    Qs names sname lv (ckey F fam me name' (lab names lv'), x) = str_eqb sname name' && key_eqb lv lv'.
  Proof.
    intros Hnd H1 H2. unfold Qs, EquivProofs.sk, Multiproc.skey_eqb, Equiv.ckey. cbn [fst snd Multiproc.k_name Multiproc.k_labels].
    rewrite (lab_eqb names lv lv' Hnd H1 H2). reflexivity.
  Qed.

  Lemma Qs_other names sname lv (fam : mfamily F (child F)) me name' ls x : str_eqb sname name' = false ->
    Qs names sname lv (ckey F fam me name' ls, x) = false.
  Proof.
    intros Hne. unfold Qs, EquivProofs.sk, Multiproc.skey_eqb, Equiv.ckey. cbn [fst snd Multiproc.k_name Multiproc.k_labels].
    rewrite Hne. reflexivity.
  Qed.

  Lemma suf_neqb (n a b : str) : a <> b -> str_eqb (n ++ a) (n ++ b) = false.
  Proof. intro H. apply str_eqb_neq. apply suffix_neq. exact H. Qed.

  Section PerKid.
    Variable fam : mfamily F (child F).
    Variable me : fmeta.
    Variable lv : key.
    Variable kc : key * child F.
    Variable ts : F.
    Hypothesis Hkw : keys_wf fam.
    Hypothesis Hlv : length lv = length (f_labelnames fam).
    Hypothesis Hok : kid_ok fam kc.
    Notation names := (f_labelnames fam).
    Notation nm := (f_name fam).
    Notation val := (fun e : mkey * (F * F) => fst (snd e)).

    Lemma pick_total : f_kind fam = KCounter ->
      map val (filter (Qs names (nm ++ SUF_total) lv) (enc_child fam me (fst kc) (snd kc) ts))
      = if key_eqb lv (fst kc) then ctr_val (snd kc) else [].
    Proof.
      intro Hk. destruct Hkw as [Hnd _]. destruct kc as [lv' c]. destruct Hok as [Hl Hc]. cbn [fst snd] in *.
      unfold EquivProofs.child_ok in Hc. rewrite Hk in Hc. destruct c as [[v|z]|v|n s|s cs|kv|i]; try contradiction.
      cbn [EquivProofs.enc_child filter]. unfold Equiv.k_total. rewrite (Qs_entry names _ lv fam me _ lv' _ Hnd Hlv Hl), str_eqb_refl.
      cbn [andb]. destruct (key_eqb lv lv'); reflexivity.
    Qed.

    Lemma pick_gauge : f_kind fam = KGauge ->
      map (fun e : mkey * (F * F) => snd e) (filter (Qs names nm lv) (enc_child fam me (fst kc) (snd kc) ts))
      = if key_eqb lv (fst kc) then map (fun v => (v, ts)) (gge_val (snd kc)) else [].
    Proof.
      intro Hk. destruct Hkw as [Hnd _]. destruct kc as [lv' c]. destruct Hok as [Hl Hc]. cbn [fst snd] in *.
      unfold EquivProofs.child_ok in Hc. rewrite Hk in Hc. destruct c as [[v|z]|v|n s|s cs|kv|i]; try contradiction.
      cbn [EquivProofs.enc_child filter]. unfold Equiv.k_gauge. rewrite (Qs_entry names _ lv fam me _ lv' _ Hnd Hlv Hl), str_eqb_refl.
      cbn [andb]. destruct (key_eqb lv lv'); reflexivity.
    Qed.

    Lemma pick_count : f_kind fam = KSummary ->
      map val (filter (Qs names (nm ++ SUF_count) lv) (enc_child fam me (fst kc) (snd kc) ts))
      = if key_eqb lv (fst kc) then smy_count (snd kc) else [].
    Proof.
      intro Hk. destruct Hkw as [Hnd _]. destruct kc as [lv' c]. destruct Hok as [Hl Hc]. cbn [fst snd] in *.
      unfold EquivProofs.child_ok in Hc. rewrite Hk in Hc. destruct c as [[v|z]|v|n s|s cs|kv|i]; try contradiction.
      cbn [EquivProofs.enc_child filter]. unfold Equiv.k_count, Equiv.k_sum.
      rewrite !(Qs_entry names _ lv fam me _ lv' _ Hnd Hlv Hl), str_eqb_refl, (suf_neqb nm SUF_count SUF_sum) by discriminate.
      cbn [andb]. destruct (key_eqb lv lv'); reflexivity.
    Qed.

    Lemma pick_sum : f_kind fam = KSummary ->
      map val (filter (Qs names (nm ++ SUF_sum) lv) (enc_child fam me (fst kc) (snd kc) ts))
      = if key_eqb lv (fst kc) then smy_sum (snd kc) else [].
    Proof.
      intro Hk. destruct Hkw as [Hnd _]. destruct kc as [lv' c]. destruct Hok as [Hl Hc]. cbn [fst snd] in *.
      unfold EquivProofs.child_ok in Hc. rewrite Hk in Hc. destruct c as [[v|z]|v|n s|s cs|kv|i]; try contradiction.
      cbn [EquivProofs.enc_child filter]. unfold Equiv.k_count, Equiv.k_sum.
      rewrite !(Qs_entry names _ lv fam me _ lv' _ Hnd Hlv Hl), str_eqb_refl, (suf_neqb nm SUF_sum SUF_count) by discriminate.
      cbn [andb]. destruct (key_eqb lv lv'); reflexivity.
    Qed.

    Lemma pick_hsum : f_kind fam = KHistogram ->
      map val (filter (Qs names (nm ++ SUF_sum) lv) (enc_child fam me (fst kc) (snd kc) ts))
      = if key_eqb lv (fst kc) then hst_sum (snd kc) else [].
    Proof.
      intro Hk. destruct Hkw as [Hnd _]. destruct kc as [lv' c]. destruct Hok as [Hl Hc]. cbn [fst snd] in *.
      unfold EquivProofs.child_ok in Hc. rewrite Hk in Hc. destruct c as [[v|z]|v|n s|s cs|kv|i]; try contradiction.
      cbn [EquivProofs.enc_child filter]. unfold Equiv.k_sum at 1.
      rewrite (Qs_entry names _ lv fam me _ lv' _ Hnd Hlv Hl), str_eqb_refl. cbn [andb].
      rewrite (filter_nil_all (Qs names (nm ++ SUF_sum) lv)).
      - destruct (key_eqb lv lv'); reflexivity.
      - intros e He. apply in_map_iff in He as [bc [<- _]]. unfold Equiv.k_bucket. apply Qs_other.
        apply suf_neqb. discriminate.
    Qed.
  End PerKid.

  (* ----- one file of the directory: the entries of a series are the cells of that worker's child ----- *)
  Lemma file_pick {X} f fam0 me sname lv (g : mkey * (F * F) -> X) (sel : (key -> F) -> child F -> list X) :
    nth_error fams0 f = Some fam0 -> nth_error metas f = Some me ->
    (forall (fam : mfamily F (child F)) tsf kc, statics F fam = statics F fam0 -> keys_wf fam -> kid_ok fam kc ->
       map g (filter (Qs (f_labelnames fam0) sname lv) (enc_child fam me (fst kc) (snd kc) (tsf (fst kc))))
       = if key_eqb lv (fst kc) then sel tsf (snd kc) else []) ->
    forall fn c, In (fn, c) DIR -> fneq fn (fam_file fam0 me (snd fn)) = true ->
      exists ops fam tsfs,
        src (snd fn) f = Some ops /\ nth_error (m_reg F (MEM ops)) f = Some fam
        /\ statics F fam = statics F fam0
        /\ fam_inv (snd fn) (p_fs F (MP (snd fn) ops)) (m_log F (MEM ops)) f fam me (tsfs f)
        /\ view (f_name fam0) c = enc_kids fam me (tsfs f) (kids fam)
        /\ map g (filter (Qs (f_labelnames fam0) sname lv) (view (f_name fam0) c))
           = match mem_child (snd fn) f lv with Some ch => sel (tsfs f) ch | None => [] end.
  Proof.
    intros Hf Hm HP fn c Hin Hfn.
    destruct (file_view f fam0 me Hf Hm fn c Hin) as (ops & fam & tsfs & Hl0 & Hfam & Hst & HI & Hv).
    assert (Hl : src (snd fn) f = Some ops) by (rewrite (src_of_file f fam0 me fn Hf Hm Hfn); exact Hl0).
    rewrite Hfn in Hv. exists ops, fam, tsfs. repeat (split; [assumption|]).
    pose proof HI as (_ & _ & _ & _ & HF & _). pose proof (HF f fam me Hfam Hm) as HFI. split; [exact HFI|split; [exact Hv|]].
    destruct HFI as [Hkw _ Hnd Hok _ _ _ _].
    pose proof (statics_same fam fam0 Hst) as (_ & _ & Hln & _).
    rewrite Hv. rewrite <- Hln.
    rewrite (pick_enc fam me (tsfs f) (kids fam) sname lv g (fun kc => sel (tsfs f) (snd kc)) Hnd).
    - unfold mem_child. rewrite Hl, Hfam. reflexivity.
    - intros kc Hkc. rewrite Hln. rewrite Forall_forall in Hok. apply (HP fam (tsfs f) kc Hst Hkw (Hok kc Hkc)).
  Qed.

  (* what worker p contributes to a series of child lv of family f *)
  Definition per_reader {X} (f : nat) (lv : key) (sel : child F -> list X) (p : str) : list X :=
    match mem_child p f lv with Some ch => sel ch | None => [] end.

  Notation val := (fun e : mkey * (F * F) => fst (snd e)).
  Notation agg_sum := (MultiprocSpec.agg_sum F fzero fadd).

  Lemma psamples_pick names sname lv (L : content) :
    map (Multiproc.s_value F)
        (filter (fun s => Multiproc.skey_eqb (sname, lab names lv) (Multiproc.full_key F s)) (psamples L))
    = map val (filter (Qs names sname lv) L).
  Proof. unfold psamples. rewrite filter_map_comm, map_map. reflexivity. Qed.

  (* ===== counters and summaries (and any series the collector only sums) ===== *)
  Theorem plain_series f fam0 me suf lv (sel : child F -> list F) :
    nth_error fams0 f = Some fam0 -> nth_error metas f = Some me ->
    (f_kind fam0 = KCounter \/ f_kind fam0 = KSummary) ->
    (forall (fam : mfamily F (child F)) tsf kc, statics F fam = statics F fam0 -> keys_wf fam -> kid_ok fam kc ->
       map val (filter (Qs (f_labelnames fam0) (f_name fam0 ++ suf) lv) (enc_child fam me (fst kc) (snd kc) (tsf (fst kc))))
       = if key_eqb lv (fst kc) then sel (snd kc) else []) ->
    d_find Multiproc.skey_eqb (mp_family F (f_name fam0) (collect_mp DIR)) (f_name fam0 ++ suf, lab (f_labelnames fam0) lv)
    = agg_sum (flat_map (per_reader f lv sel) (readers fam0 me)).
  Proof.
    intros Hf Hm Hk HP. rewrite (shared_series f fam0 me _ Hf Hm).
    assert (HT : str_eqb (typ_of (f_kind fam0)) Multiproc.S_gauge = false /\ str_eqb (typ_of (f_kind fam0)) Multiproc.S_histogram = false)
      by (destruct Hk as [-> | ->]; split; reflexivity).
    destruct HT as [HG HH]. unfold MultiprocSpec.spec_series. rewrite HG, HH.
    unfold MultiprocSpec.spec_plain, MultiprocSpec.contribs. f_equal.
    rewrite filter_flat_map, map_flat_map, flat_map_readers. apply fm_ext_in. intros [fn c] Hin.
    unfold file_samples. cbn [fst snd]. destruct (fneq fn (fam_file fam0 me (snd fn))) eqn:E; [|reflexivity].
    assert (Hks : ksamples (f_kind fam0) (snd fn) (view (f_name fam0) c) = psamples (view (f_name fam0) c))
      by (destruct Hk as [-> | ->]; reflexivity).
    rewrite Hks, psamples_pick.
    destruct (file_pick f fam0 me (f_name fam0 ++ suf) lv val (fun _ => sel) Hf Hm HP fn c Hin E)
      as (ops & fam & tsfs & _ & _ & _ & _ & _ & Hp).
    exact Hp.
  Qed.

  Lemma statics_fields (fam fam0 : mfamily F (child F)) : statics F fam = statics F fam0 ->
    f_kind fam = f_kind fam0 /\ f_name fam = f_name fam0 /\ f_labelnames fam = f_labelnames fam0 /\ f_bounds fam = f_bounds fam0.
  Proof. intro H. apply statics_same in H. exact H. Qed.

  Theorem counter_series f fam0 me lv :
    nth_error fams0 f = Some fam0 -> nth_error metas f = Some me -> f_kind fam0 = KCounter ->
    length lv = length (f_labelnames fam0) ->
    d_find Multiproc.skey_eqb (mp_family F (f_name fam0) (collect_mp DIR)) (f_name fam0 ++ SUF_total, lab (f_labelnames fam0) lv)
    = agg_sum (flat_map (per_reader f lv ctr_val) (readers fam0 me)).
  Proof.
    intros Hf Hm Hk Hlv. apply (plain_series f fam0 me SUF_total lv ctr_val Hf Hm (or_introl Hk)).
    intros fam tsf kc Hst Hkw Hok. destruct (statics_fields fam fam0 Hst) as (Ek & En & El & _).
    rewrite <- En, <- El. apply pick_total; [exact Hkw|congruence|exact Hok|congruence].
  Qed.

  Theorem summary_series f fam0 me lv :
    nth_error fams0 f = Some fam0 -> nth_error metas f = Some me -> f_kind fam0 = KSummary ->
    length lv = length (f_labelnames fam0) ->
    d_find Multiproc.skey_eqb (mp_family F (f_name fam0) (collect_mp DIR)) (f_name fam0 ++ SUF_count, lab (f_labelnames fam0) lv)
    = agg_sum (flat_map (per_reader f lv smy_count) (readers fam0 me))
    /\ d_find Multiproc.skey_eqb (mp_family F (f_name fam0) (collect_mp DIR)) (f_name fam0 ++ SUF_sum, lab (f_labelnames fam0) lv)
       = agg_sum (flat_map (per_reader f lv smy_sum) (readers fam0 me)).
  Proof.
    intros Hf Hm Hk Hlv. split.
    - apply (plain_series f fam0 me SUF_count lv smy_count Hf Hm (or_intror Hk)).
      intros fam tsf kc Hst Hkw Hok. destruct (statics_fields fam fam0 Hst) as (Ek & En & El & _).
      rewrite <- En, <- El. apply pick_count; [exact Hkw|congruence|exact Hok|congruence].
    - apply (plain_series f fam0 me SUF_sum lv smy_sum Hf Hm (or_intror Hk)).
      intros fam tsf kc Hst Hkw Hok. destruct (statics_fields fam fam0 Hst) as (Ek & En & El & _).
      rewrite <- En, <- El. apply pick_sum; [exact Hkw|congruence|exact Hok|congruence].
  Qed.

  (* ================= which workers are read: nothing dropped, nothing read twice ================= *)
  Lemma enc_child_nonempty (fam : mfamily F (child F)) me lv c ts :
    EquivProofs.child_ok F (f_kind fam) (f_bounds fam) c -> enc_child fam me lv c ts <> [].
  Proof. unfold EquivProofs.child_ok. destruct (f_kind fam), c as [[v|z]|v|n s|s cs|kv|i]; cbn; intro H; try contradiction; discriminate. Qed.

  Lemma d_find_key_in {C} (K : list (key * C)) lv ch : d_find key_eqb K lv = Some ch -> In (lv, ch) K.
  Proof. apply (df_some_in key_eqb MetricsProofs.key_eqb_eq). Qed.

  (* a pid whose explaining run holds child lv of family f is read (dead workers included; for a live-mode gauge the
     explaining run is the one since the pid was last marked dead, so a dead pid holds nothing) *)
  Theorem readers_complete f fam0 me p lv ch : nth_error fams0 f = Some fam0 -> nth_error metas f = Some me ->
    mem_child p f lv = Some ch -> In p (readers fam0 me).
  Proof.
    intros Hf Hm Hc. unfold mem_child in Hc. destruct (src p f) as [ops|] eqn:El; [|discriminate].
    unfold src in El. rewrite Hf, Hm in El.
    destruct (statics_at f fam0 ops Hf) as (fam & Hfam & Hst). rewrite Hfam in Hc.
    destruct (src_inv p _ ops El) as [tsfs HI]. pose proof HI as (_ & _ & _ & Hnd & HF & _).
    destruct (HF f fam me Hfam Hm) as [Hkw Hsup Hkn Hok Hview _ _ _].
    destruct (statics_fields fam fam0 Hst) as (Ek & En & _ & _).
    assert (Hfile : fam_file fam me p = fam_file fam0 me p) by (unfold Equiv.fam_file; rewrite Ek; reflexivity).
    set (fn := fam_file fam0 me p).
    assert (Hex : exists c, In (fn, c) (p_fs F (MP p ops))).
    { specialize (Hview fn). rewrite Hfile in Hview. subst fn. rewrite (kq_refl fneq fneq_eq) in Hview.
      unfold Values.fs_content in Hview. destruct (d_find fneq (p_fs F (MP p ops)) (fam_file fam0 me p)) as [c|] eqn:Ec.
      - exists c. apply (df_some_in fneq fneq_eq). exact Ec.
      - exfalso. cbn [view filter] in Hview. apply d_find_key_in in Hc.
        unfold EquivProofs.enc_kids in Hview. symmetry in Hview.
        assert (Hin : In (lv, ch) (kids fam)) by exact Hc.
        apply in_split in Hin as (l1 & l2 & Hs). rewrite Hs, flat_map_app in Hview. cbn [flat_map fst snd] in Hview.
        apply app_eq_nil in Hview as [_ Hview]. apply app_eq_nil in Hview as [Hview _].
        rewrite Forall_forall in Hok. destruct (Hok (lv, ch)) as [_ Hch]; [rewrite Hs; apply in_or_app; right; left; reflexivity|].
        apply (enc_child_nonempty fam me lv ch (tsfs f lv) Hch Hview). }
    destruct Hex as [c Hc'].
    assert (Hdir : In (fn, c) DIR).
    { subst fn. unfold Equiv.fam_file, fname_of in *. apply (src_file _ p c ops); [|exact Hc'].
      change (Values.prefix_of (Values.mkParams (typ_of (f_kind fam0)) (fm_mode me) K0))
        with (fst (fname_of (f_kind fam0) (fm_mode me) p)).
      rewrite (live_prefix_fam (f_kind fam0) me p); [exact El|rewrite <- Ek; exact Hsup]. }
    unfold readers. apply in_map_iff. exists (fn, c). split; [reflexivity|]. apply filter_In. split; [exact Hdir|].
    cbn [fst snd]. subst fn. apply (kq_refl fneq fneq_eq).
  Qed.

  Lemma readers_nodup fam0 me : NoDup (readers fam0 me).
  Proof.
    unfold readers. pose proof dir_nodup as Hnd. induction DIR as [|[fn c] d IH]; [constructor|].
    cbn [map fst] in Hnd. inversion Hnd as [|? ? Hn Hnd']; subst. cbn [filter fst snd].
    destruct (fneq fn (fam_file fam0 me (snd fn))) eqn:E; [|apply IH; exact Hnd'].
    cbn [map fst snd]. constructor; [|apply IH; exact Hnd'].
    intro Hin. apply in_map_iff in Hin as [[fn' c'] [Ep Hin]]. apply filter_In in Hin as [Hin E']. cbn [fst snd] in *.
    apply fneq_eq in E, E'. apply Hn. apply in_map_iff. exists (fn', c'). split; [|exact Hin]. cbn [fst]. congruence.
  Qed.

  (* a pid that is read has an explaining run for the family's file: it was started (a live-mode gauge: since it was
     last marked dead) *)
  Theorem readers_sound f fam0 me p : nth_error fams0 f = Some fam0 -> nth_error metas f = Some me ->
    In p (readers fam0 me) -> src p f <> None.
  Proof.
    intros Hf Hm Hin. unfold readers in Hin. apply in_map_iff in Hin as [[fn c] [Ep Hin]]. apply filter_In in Hin as [Hin E].
    cbn [fst snd] in *. subst p. destruct (file_src fn c Hin) as (ops & Hl & _).
    rewrite (src_of_file f fam0 me fn Hf Hm E), Hl. discriminate.
  Qed.

  (* ================= gauges ================= *)
  Notation S_pid := Multiproc.S_pid.
  (* the set-time stored with the series of child lv in the gauge file of pid p *)
  Definition stored_ts (fam0 : mfamily F (child F)) (me : fmeta) (lv : key) (p : str) : F :=
    match Values.fs_cell F DIR (fam_file fam0 me p) (k_gauge F fam0 me lv) with Some c => snd c | None => fzero end.

  Lemma gauge_no_pid f fam0 me : nth_error fams0 f = Some fam0 -> nth_error metas f = Some me -> f_kind fam0 = KGauge ->
    ~ In S_pid (f_labelnames fam0).
  Proof. intros Hf Hm Hk. destruct Hwf as (_ & _ & _ & Hg). apply (Hg f fam0 me Hf Hm Hk). Qed.

  Lemma gsamples_pick (fam : mfamily F (child F)) me tsf p names lv :
    f_kind fam = KGauge -> ~ In S_pid (f_labelnames fam) -> Forall (kid_ok fam) (kids fam) ->
    map (fun s => (Multiproc.s_value F s, Multiproc.s_ts F s))
        (filter (fun s => Multiproc.skey_eqb (f_name fam, lab names lv) (Multiproc.without_pid F s))
                (gsamples F p (enc_kids fam me tsf (kids fam))))
    = map (fun e : mkey * (F * F) => snd e) (filter (Qs names (f_name fam) lv) (enc_kids fam me tsf (kids fam))).
  Proof.
    intros Hk Hn Hok. unfold gsamples. rewrite filter_map_comm, map_map.
    rewrite (filter_ext_in _ (Qs names (f_name fam) lv)).
    - apply map_ext. intros [k [v ts]]. reflexivity.
    - intros e He. unfold Multiproc.without_pid. cbn [Multiproc.s_name Multiproc.s_labels].
      unfold Qs. f_equal. exact (without_pid_sk F fzero fone fadd fmt_le fam me tsf p Hk Hn Hok e He).
  Qed.

  (* one gauge file: the (value, set-time) pairs of the series of child lv *)
  Lemma gauge_file f fam0 me lv : nth_error fams0 f = Some fam0 -> nth_error metas f = Some me -> f_kind fam0 = KGauge ->
    length lv = length (f_labelnames fam0) ->
    forall fn c, In (fn, c) DIR -> fneq fn (fam_file fam0 me (snd fn)) = true ->
      map (fun s => (Multiproc.s_value F s, Multiproc.s_ts F s))
          (filter (fun s => Multiproc.skey_eqb (f_name fam0, lab (f_labelnames fam0) lv) (Multiproc.without_pid F s))
                  (gsamples F (snd fn) (view (f_name fam0) c)))
      = per_reader f lv (fun ch => map (fun v => (v, stored_ts fam0 me lv (snd fn))) (gge_val ch)) (snd fn).
  Proof.
    intros Hf Hm Hk Hlv fn c Hin E.
    pose proof (gauge_no_pid f fam0 me Hf Hm Hk) as Hnp.
    destruct (file_pick f fam0 me (f_name fam0) lv (fun e : mkey * (F * F) => snd e)
                (fun tsf ch => map (fun v => (v, tsf lv)) (gge_val ch)) Hf Hm) with (fn := fn) (c := c)
      as (ops & fam & tsfs & Hl & Hfam & Hst & HFI & Hv & Hp); [|exact Hin|exact E|].
    { intros fam tsf kc Hst Hkw Hok. destruct (statics_fields fam fam0 Hst) as (Ek & En & El & _).
      rewrite <- En, <- El. rewrite (pick_gauge fam me lv kc (tsf (fst kc)) Hkw ltac:(congruence) Hok ltac:(congruence)).
      destruct (key_eqb lv (fst kc)) eqn:E2; [|reflexivity]. apply MetricsProofs.key_eqb_eq in E2. rewrite <- E2. reflexivity. }
    destruct (statics_fields fam fam0 Hst) as (Ek & En & El & _).
    destruct HFI as [Hkw Hsup Hnd Hok Hview _ _ _].
    rewrite Hv. rewrite <- En, <- El.
    rewrite (gsamples_pick fam me (tsfs f) (snd fn) (f_labelnames fam) lv ltac:(congruence) ltac:(rewrite El; exact Hnp) Hok).
    rewrite En, El. rewrite <- Hv, Hp. unfold per_reader.
    destruct (mem_child (snd fn) f lv) as [ch|] eqn:Ec; [|reflexivity].
    destruct ch as [cc|v|n0 s0|s0 cs|kv|i]; try reflexivity. cbn [gge_val map]. do 2 f_equal.
    (* the set-time the invariant speaks of is the one stored in the shared directory *)
    unfold stored_ts, Values.fs_cell. rewrite (content_of_in F DIR fn c dir_nodup Hin) || idtac.
    apply fneq_eq in E. rewrite <- E. rewrite (content_of_in F DIR fn c dir_nodup Hin).
    rewrite <- (view_find F (f_name fam0) c (k_gauge F fam0 me lv) eq_refl). rewrite Hv.
    unfold mem_child in Ec. rewrite Hl, Hfam in Ec. apply d_find_key_in in Ec.
    assert (Hin2 : In (k_gauge F fam0 me lv, (v, tsfs f lv)) (enc_kids fam me (tsfs f) (kids fam))).
    { unfold EquivProofs.enc_kids. apply in_flat_map. exists (lv, Gge v). split; [exact Ec|]. cbn [fst snd EquivProofs.enc_child].
      left. unfold Equiv.k_gauge, Equiv.ckey. rewrite En, El. reflexivity. }
    rewrite (In_d_find_nodup Multiproc.key_eqb MultiprocProofs.key_eqb_eq _ _ _
               (enc_kids_nodup F fzero fone fadd fmt_le fam me (tsfs f) (kids fam) Hkw Hok Hnd) Hin2).
    reflexivity.
  Qed.

  Notation gkey fam0 lv := (f_name fam0, lab (f_labelnames fam0) lv).
  Notation gpairs f fam0 me lv :=
    (fun p => per_reader f lv (fun ch => map (fun v => (v, stored_ts fam0 me lv p)) (gge_val ch)) p).

  Lemma gauge_pairs f fam0 me lv : nth_error fams0 f = Some fam0 -> nth_error metas f = Some me -> f_kind fam0 = KGauge ->
    length lv = length (f_labelnames fam0) ->
    map (fun s => (Multiproc.s_value F s, Multiproc.s_ts F s))
        (MultiprocSpec.contribs F (Multiproc.without_pid F) (flat_map (file_samples fam0 me) DIR) (gkey fam0 lv))
    = flat_map (gpairs f fam0 me lv) (readers fam0 me).
  Proof.
    intros Hf Hm Hk Hlv. unfold MultiprocSpec.contribs. rewrite filter_flat_map, map_flat_map, flat_map_readers.
    apply fm_ext_in. intros [fn c] Hin. unfold file_samples. cbn [fst snd].
    destruct (fneq fn (fam_file fam0 me (snd fn))) eqn:E; [|reflexivity]. rewrite Hk. cbn [ksamples].
    apply (gauge_file f fam0 me lv Hf Hm Hk Hlv fn c Hin E).
  Qed.

  Lemma gauge_values f fam0 me lv : nth_error fams0 f = Some fam0 -> nth_error metas f = Some me -> f_kind fam0 = KGauge ->
    length lv = length (f_labelnames fam0) ->
    map (Multiproc.s_value F)
        (MultiprocSpec.contribs F (Multiproc.without_pid F) (flat_map (file_samples fam0 me) DIR) (gkey fam0 lv))
    = flat_map (per_reader f lv gge_val) (readers fam0 me).
  Proof.
    intros Hf Hm Hk Hlv.
    transitivity (map fst (map (fun s => (Multiproc.s_value F s, Multiproc.s_ts F s))
        (MultiprocSpec.contribs F (Multiproc.without_pid F) (flat_map (file_samples fam0 me) DIR) (gkey fam0 lv)))).
    - rewrite map_map. reflexivity.
    - rewrite (gauge_pairs f fam0 me lv Hf Hm Hk Hlv), map_flat_map. apply fm_ext_in. intros p _. unfold per_reader.
      destruct (mem_child p f lv) as [ch|]; [|reflexivity]. rewrite map_map. cbn [fst]. apply map_id.
  Qed.

  Lemma gauge_spec f fam0 me k : nth_error fams0 f = Some fam0 -> nth_error metas f = Some me -> f_kind fam0 = KGauge ->
    d_find Multiproc.skey_eqb (mp_family F (f_name fam0) (collect_mp DIR)) k
    = MultiprocSpec.spec_gauge F fzero fadd flt feqb (fm_mode me) (flat_map (file_samples fam0 me) DIR) k.
  Proof. intros Hf Hm Hk. rewrite (shared_series f fam0 me k Hf Hm), Hk. reflexivity. Qed.

  Section GaugeModes.
    Variables (f : nat) (fam0 : mfamily F (child F)) (me : fmeta) (lv : key).
    Hypothesis Hf : nth_error fams0 f = Some fam0.
    Hypothesis Hm : nth_error metas f = Some me.
    Hypothesis Hk : f_kind fam0 = KGauge.
    Hypothesis Hlv : length lv = length (f_labelnames fam0).
    Notation is_mode := Multiproc.is_mode.
    Notation RES := (d_find Multiproc.skey_eqb (mp_family F (f_name fam0) (collect_mp DIR)) (gkey fam0 lv)).

    Theorem gauge_min : is_mode Multiproc.M_min Multiproc.M_livemin (fm_mode me) = true ->
      RES = MultiprocSpec.agg_min F flt (flat_map (per_reader f lv gge_val) (readers fam0 me)).
    Proof.
      intro H1. rewrite (gauge_spec f fam0 me _ Hf Hm Hk). unfold MultiprocSpec.spec_gauge. rewrite H1.
      rewrite (gauge_values f fam0 me lv Hf Hm Hk Hlv). reflexivity.
    Qed.

    Theorem gauge_max : is_mode Multiproc.M_min Multiproc.M_livemin (fm_mode me) = false ->
      is_mode Multiproc.M_max Multiproc.M_livemax (fm_mode me) = true ->
      RES = MultiprocSpec.agg_max F flt (flat_map (per_reader f lv gge_val) (readers fam0 me)).
    Proof.
      intros H1 H2. rewrite (gauge_spec f fam0 me _ Hf Hm Hk). unfold MultiprocSpec.spec_gauge. rewrite H1, H2.
      rewrite (gauge_values f fam0 me lv Hf Hm Hk Hlv). reflexivity.
    Qed.

    Theorem gauge_sum : is_mode Multiproc.M_min Multiproc.M_livemin (fm_mode me) = false ->
      is_mode Multiproc.M_max Multiproc.M_livemax (fm_mode me) = false ->
      is_mode Multiproc.M_sum Multiproc.M_livesum (fm_mode me) = true ->
      RES = agg_sum (flat_map (per_reader f lv gge_val) (readers fam0 me)).
    Proof.
      intros H1 H2 H3. rewrite (gauge_spec f fam0 me _ Hf Hm Hk). unfold MultiprocSpec.spec_gauge. rewrite H1, H2, H3.
      rewrite (gauge_values f fam0 me lv Hf Hm Hk Hlv). reflexivity.
    Qed.

    Theorem gauge_mostrecent : is_mode Multiproc.M_min Multiproc.M_livemin (fm_mode me) = false ->
      is_mode Multiproc.M_max Multiproc.M_livemax (fm_mode me) = false ->
      is_mode Multiproc.M_sum Multiproc.M_livesum (fm_mode me) = false ->
      is_mode Multiproc.M_mostrecent Multiproc.M_livemostrecent (fm_mode me) = true ->
      RES = MultiprocSpec.agg_mr F fzero flt feqb (flat_map (gpairs f fam0 me lv) (readers fam0 me)).
    Proof.
      intros H1 H2 H3 H4. rewrite (gauge_spec f fam0 me _ Hf Hm Hk). unfold MultiprocSpec.spec_gauge. rewrite H1, H2, H3, H4.
      rewrite (gauge_pairs f fam0 me lv Hf Hm Hk Hlv). reflexivity.
    Qed.
  End GaugeModes.

  (* the stored set-time of a mostrecent gauge series is positive exactly when that worker's child accepted a set() *)
  Theorem stored_ts_spec f fam0 me lv p v : nth_error fams0 f = Some fam0 -> nth_error metas f = Some me ->
    f_kind fam0 = KGauge -> In p (readers fam0 me) -> mem_child p f lv = Some (Gge v) -> is_mr (fm_mode me) = true ->
    exists ops, src p f = Some ops
      /\ if in_log (m_log F (MEM ops)) f lv then flt fzero (stored_ts fam0 me lv p) = true else stored_ts fam0 me lv p = fzero.
  Proof.
    intros Hf Hm Hk Hin Hc Hmr. unfold readers in Hin. apply in_map_iff in Hin as [[fn c] [Ep Hin]].
    apply filter_In in Hin as [Hin E]. cbn [fst snd] in *. subst p.
    destruct (file_view f fam0 me Hf Hm fn c Hin) as (ops & fam & tsfs & Hl0 & Hfam & Hst & HI & Hv).
    assert (Hl : src (snd fn) f = Some ops) by (rewrite (src_of_file f fam0 me fn Hf Hm E); exact Hl0).
    rewrite E in Hv. exists ops. split; [exact Hl|].
    pose proof HI as (_ & _ & _ & _ & HF & _). destruct (HF f fam me Hfam Hm) as [Hkw Hsup Hnd Hok _ _ Hts _].
    destruct (statics_fields fam fam0 Hst) as (Ek & En & El & _).
    unfold mem_child in Hc. rewrite Hl, Hfam in Hc. apply d_find_key_in in Hc.
    assert (Hs : stored_ts fam0 me lv (snd fn) = tsfs f lv).
    { unfold stored_ts, Values.fs_cell. apply fneq_eq in E. rewrite <- E. rewrite (content_of_in F DIR fn c dir_nodup Hin).
      rewrite <- (view_find F (f_name fam0) c (k_gauge F fam0 me lv) eq_refl). rewrite Hv.
      assert (Hin2 : In (k_gauge F fam0 me lv, (v, tsfs f lv)) (enc_kids fam me (tsfs f) (kids fam))).
      { unfold EquivProofs.enc_kids. apply in_flat_map. exists (lv, Gge v). split; [exact Hc|]. cbn [fst snd EquivProofs.enc_child].
        left. unfold Equiv.k_gauge, Equiv.ckey. rewrite En, El. reflexivity. }
      rewrite (In_d_find_nodup Multiproc.key_eqb MultiprocProofs.key_eqb_eq _ _ _
                 (enc_kids_nodup F fzero fone fadd fmt_le fam me (tsfs f) (kids fam) Hkw Hok Hnd) Hin2).
      reflexivity. }
    rewrite Hs. apply Hts; [congruence|exact Hmr|]. apply (in_map fst) in Hc. exact Hc.
  Qed.

  (* ----- all / liveall: one series per pid ----- *)
  Lemma snoc_labels_eqb a b x y :
    Multiproc.labels_eqb (a ++ [x]) (b ++ [y]) = Multiproc.labels_eqb a b && Multiproc.label_eqb x y.
  Proof.
    apply eq_true_iff_eq. rewrite andb_true_iff, !MultiprocProofs.labels_eqb_eq, MultiprocProofs.label_eqb_eq. split.
    - intro H. apply app_inj_tail in H. exact H.
    - intros [-> ->]. reflexivity.
  Qed.

  Lemma fm_one {X} (G : str -> list X) p0 (l : list str) : NoDup l ->
    flat_map (fun p => if str_eqb p0 p then G p else []) l = if mem_str p0 l then G p0 else [].
  Proof.
    induction 1 as [|p l Hn Hnd IH]; [reflexivity|]. cbn [flat_map mem_str]. destruct (str_eqb p0 p) eqn:E; cbn [orb].
    - apply str_eqb_eq in E; subst p. rewrite IH. destruct (mem_str p0 l) eqn:E2; [apply mem_str_In in E2; contradiction|apply app_nil_r].
    - exact IH.
  Qed.

  Theorem gauge_all f fam0 me lv p0 : nth_error fams0 f = Some fam0 -> nth_error metas f = Some me -> f_kind fam0 = KGauge ->
    length lv = length (f_labelnames fam0) ->
    Multiproc.is_mode Multiproc.M_min Multiproc.M_livemin (fm_mode me) = false ->
    Multiproc.is_mode Multiproc.M_max Multiproc.M_livemax (fm_mode me) = false ->
    Multiproc.is_mode Multiproc.M_sum Multiproc.M_livesum (fm_mode me) = false ->
    Multiproc.is_mode Multiproc.M_mostrecent Multiproc.M_livemostrecent (fm_mode me) = false ->
    d_find Multiproc.skey_eqb (mp_family F (f_name fam0) (collect_mp DIR))
           (f_name fam0, lab (f_labelnames fam0) lv ++ [(S_pid, p0)])
    = MultiprocSpec.agg_last F (if mem_str p0 (readers fam0 me) then per_reader f lv gge_val p0 else []).
  Proof.
    intros Hf Hm Hk Hlv H1 H2 H3 H4. rewrite (gauge_spec f fam0 me _ Hf Hm Hk). unfold MultiprocSpec.spec_gauge.
    rewrite H1, H2, H3, H4. f_equal. rewrite <- (fm_one (per_reader f lv gge_val) p0 _ (readers_nodup fam0 me)).
    unfold MultiprocSpec.contribs. rewrite filter_flat_map, map_flat_map, flat_map_readers.
    apply fm_ext_in. intros [fn c] Hin. unfold file_samples. cbn [fst snd].
    destruct (fneq fn (fam_file fam0 me (snd fn))) eqn:E; [|reflexivity]. rewrite Hk. cbn [ksamples].
    unfold gsamples. rewrite filter_map_comm, map_map. cbn [Multiproc.s_value].
    rewrite (filter_ext _ (fun e : mkey * (F * F) => Qs (f_labelnames fam0) (f_name fam0) lv e && str_eqb p0 (snd fn))).
    2:{ intros [k x]. unfold Multiproc.full_key, Qs, EquivProofs.sk, Multiproc.skey_eqb.
        cbn [fst snd Multiproc.s_name Multiproc.s_labels]. rewrite snoc_labels_eqb. unfold Multiproc.label_eqb. cbn [fst snd].
        rewrite str_eqb_refl. cbn [andb]. rewrite andb_assoc. reflexivity. }
    destruct (str_eqb p0 (snd fn)) eqn:Ep.
    - rewrite (filter_ext _ (Qs (f_labelnames fam0) (f_name fam0) lv)) by (intro e; apply andb_true_r).
      destruct (file_pick f fam0 me (f_name fam0) lv val (fun _ => gge_val) Hf Hm) with (fn := fn) (c := c)
        as (ops & fam & tsfs & _ & _ & _ & _ & _ & Hp); [|exact Hin|exact E|exact Hp].
      intros fam tsf kc Hst Hkw Hok. destruct (statics_fields fam fam0 Hst) as (Ek & En & El & _).
      rewrite <- En, <- El.
      transitivity (map fst (map (fun e : mkey * (F * F) => snd e)
                      (filter (Qs (f_labelnames fam) (f_name fam) lv) (enc_child fam me (fst kc) (snd kc) (tsf (fst kc)))))).
      { rewrite map_map. reflexivity. }
      rewrite (pick_gauge fam me lv kc (tsf (fst kc)) Hkw ltac:(congruence) Hok ltac:(congruence)).
      destruct (key_eqb lv (fst kc)); [|reflexivity]. rewrite map_map. cbn [fst]. apply map_id.
    - rewrite (filter_ext _ (fun _ => false)) by (intro e; apply andb_false_r).
      rewrite (filter_nil_all (fun _ : mkey * (F * F) => false)); [reflexivity|]. intros; reflexivity.
  Qed.

  (* ================= histograms ================= *)
  Lemma filter_filter_imp {A} (P Q : A -> bool) l : (forall x, In x l -> P x = true -> Q x = true) ->
    filter P (filter Q l) = filter P l.
  Proof.
    induction l as [|a l IH]; intro H; [reflexivity|]. cbn [filter]. destruct (Q a) eqn:EQ.
    - cbn [filter]. rewrite IH; [reflexivity|]. intros; apply H; [right|]; assumption.
    - destruct (P a) eqn:EP; [rewrite (H a (or_introl eq_refl) EP) in EQ; discriminate|].
      apply IH. intros; apply H; [right|]; assumption.
  Qed.

  Lemma plain_contribs f fam0 me suf lv (sel : child F -> list F) :
    nth_error fams0 f = Some fam0 -> nth_error metas f = Some me -> f_kind fam0 <> KGauge ->
    (forall (fam : mfamily F (child F)) tsf kc, statics F fam = statics F fam0 -> keys_wf fam -> kid_ok fam kc ->
       map val (filter (Qs (f_labelnames fam0) (f_name fam0 ++ suf) lv) (enc_child fam me (fst kc) (snd kc) (tsf (fst kc))))
       = if key_eqb lv (fst kc) then sel (snd kc) else []) ->
    map (Multiproc.s_value F)
        (MultiprocSpec.contribs F (Multiproc.full_key F) (flat_map (file_samples fam0 me) DIR)
           (f_name fam0 ++ suf, lab (f_labelnames fam0) lv))
    = flat_map (per_reader f lv sel) (readers fam0 me).
  Proof.
    intros Hf Hm Hk HP. unfold MultiprocSpec.contribs.
    rewrite filter_flat_map, map_flat_map, flat_map_readers. apply fm_ext_in. intros [fn c] Hin.
    unfold file_samples. cbn [fst snd]. destruct (fneq fn (fam_file fam0 me (snd fn))) eqn:E; [|reflexivity].
    assert (Hks : ksamples (f_kind fam0) (snd fn) (view (f_name fam0) c) = psamples (view (f_name fam0) c))
      by (destruct (f_kind fam0); try reflexivity; contradiction).
    rewrite Hks, psamples_pick.
    destruct (file_pick f fam0 me (f_name fam0 ++ suf) lv val (fun _ => sel) Hf Hm HP fn c Hin E)
      as (ops & fam & tsfs & _ & _ & _ & _ & _ & Hp).
    exact Hp.
  Qed.

  Notation hwf := (hwf F fzero flt fle parse_le fmt_le).

  Theorem hist_sum_series f fam0 me lv :
    nth_error fams0 f = Some fam0 -> nth_error metas f = Some me -> f_kind fam0 = KHistogram -> hwf fam0 ->
    length lv = length (f_labelnames fam0) ->
    d_find Multiproc.skey_eqb (mp_family F (f_name fam0) (collect_mp DIR)) (f_name fam0 ++ SUF_sum, lab (f_labelnames fam0) lv)
    = agg_sum (flat_map (per_reader f lv hst_sum) (readers fam0 me)).
  Proof.
    intros Hf Hm Hk Hw Hlv. rewrite (shared_series f fam0 me _ Hf Hm), Hk.
    unfold MultiprocSpec.spec_series. cbn [typ_of].
    change (str_eqb Multiproc.S_histogram Multiproc.S_gauge) with false.
    change (str_eqb Multiproc.S_histogram Multiproc.S_histogram) with true. cbv iota.
    rewrite MultiprocProofs.find_last_none.
    2:{ intros kv Hkv. unfold MultiprocSpec.hist_writes in Hkv. apply in_flat_map in Hkv as [[ls inner] [_ Hkv]].
        apply MultiprocProofs.writes_keys in Hkv. unfold Multiproc.skey_eqb. cbn [fst snd].
        destruct Hkv as [[b ->]| ->]; unfold MultiprocSpec.bucket_key, MultiprocSpec.count_key; cbn [fst snd].
        - rewrite (suf_neqb (f_name fam0) SUF_sum Multiproc.S_bucket) by discriminate. reflexivity.
        - rewrite (suf_neqb (f_name fam0) SUF_sum Multiproc.S_count) by discriminate. reflexivity. }
    unfold MultiprocSpec.spec_plain. f_equal.
    assert (Hc : MultiprocSpec.contribs F (Multiproc.full_key F)
                   (filter (fun s => negb (Multiproc.has_le F s)) (flat_map (file_samples fam0 me) DIR))
                   (f_name fam0 ++ SUF_sum, lab (f_labelnames fam0) lv)
                 = MultiprocSpec.contribs F (Multiproc.full_key F) (flat_map (file_samples fam0 me) DIR)
                     (f_name fam0 ++ SUF_sum, lab (f_labelnames fam0) lv)).
    { unfold MultiprocSpec.contribs. apply filter_filter_imp. intros s _ Hs. apply MultiprocProofs.skey_eqb_eq in Hs.
      unfold Multiproc.full_key in Hs. injection Hs as _ Hls. unfold Multiproc.has_le. rewrite <- Hls.
      destruct (hw_keys _ _ _ _ _ _ _ Hw) as [_ Hh]. destruct (Hh Hk) as [Hle _]. rewrite (find_le_lab _ lv Hle). reflexivity. }
    rewrite Hc. apply (plain_contribs f fam0 me SUF_sum lv hst_sum Hf Hm); [congruence|].
    intros fam tsf kc Hst Hkw Hok. destruct (statics_fields fam fam0 Hst) as (Ek & En & El & _).
    rewrite <- En, <- El. apply pick_hsum; [exact Hkw|congruence|exact Hok|congruence].
  Qed.

  (* ----- buckets: the (bound, count) contributions of the group of child lv, worker by worker ----- *)
  Definition hitems (bs : list F) (ch : child F) : list (F * F) :=
    match ch with Hst _ cs => combine bs (map fcount cs) | _ => [] end.
  Definition hcells (ch : child F) : list (list N) := match ch with Hst _ cs => [cs] | _ => [] end.
  (* the bucket count cells of child lv in every worker that holds it, in read order *)
  Definition holders (f : nat) (lv : key) (fam0 : mfamily F (child F)) (me : fmeta) : list (list N) :=
    flat_map (per_reader f lv hcells) (readers fam0 me).

  Lemma vals_of_app {K A} (keq : K -> K -> bool) k (l1 l2 : list (K * A)) :
    Multiproc.vals_of keq k (l1 ++ l2) = Multiproc.vals_of keq k l1 ++ Multiproc.vals_of keq k l2.
  Proof. rewrite !MultiprocProofs.vals_of_filter, filter_app, map_app. reflexivity. Qed.

  Lemma vals_of_flat_map {K A X} (keq : K -> K -> bool) k (g : X -> list (K * A)) l :
    Multiproc.vals_of keq k (flat_map g l) = flat_map (fun x => Multiproc.vals_of keq k (g x)) l.
  Proof. induction l as [|x l IH]; [reflexivity|]. cbn [flat_map]. rewrite vals_of_app, IH. reflexivity. Qed.

  Lemma vals_of_pair {K A} (keq : K -> K -> bool) k k' (items : list A) :
    Multiproc.vals_of keq k (map (pair k') items) = if keq k k' then items else [].
  Proof.
    induction items as [|a items IH]; cbn [map Multiproc.vals_of]; [destruct (keq k k'); reflexivity|].
    rewrite IH. destruct (keq k k'); reflexivity.
  Qed.

  Lemma combine_map_r {A B C} (g : B -> C) (a : list A) : forall (b : list B),
    map (fun ab : A * B => (fst ab, g (snd ab))) (combine a b) = combine a (map g b).
  Proof. induction a as [|x a IH]; intros [|y b]; cbn [combine map]; try reflexivity. rewrite IH. reflexivity. Qed.

  Lemma mem_child_ok f fam0 me p lv ch : nth_error fams0 f = Some fam0 -> nth_error metas f = Some me ->
    mem_child p f lv = Some ch -> EquivProofs.child_ok F (f_kind fam0) (f_bounds fam0) ch.
  Proof.
    intros Hf Hm Hc. unfold mem_child in Hc. destruct (src p f) as [ops|] eqn:El; [|discriminate].
    unfold src in El. rewrite Hf, Hm in El.
    destruct (statics_at f fam0 ops Hf) as (fam & Hfam & Hst). rewrite Hfam in Hc.
    destruct (src_inv p _ ops El) as [tsfs HI]. pose proof HI as (_ & _ & _ & _ & HF & _).
    destruct (HF f fam me Hfam Hm) as [_ _ _ Hok _ _ _ _]. apply d_find_key_in in Hc.
    rewrite Forall_forall in Hok. destruct (Hok _ Hc) as [_ Hch]. cbn [snd] in Hch.
    destruct (statics_fields fam fam0 Hst) as (Ek & _ & _ & Eb). rewrite <- Ek, <- Eb. exact Hch.
  Qed.

  Lemma group_items_shared f fam0 me lv :
    nth_error fams0 f = Some fam0 -> nth_error metas f = Some me -> f_kind fam0 = KHistogram -> hwf fam0 ->
    length lv = length (f_labelnames fam0) ->
    MultiprocSpec.group_items F parse_le (flat_map (file_samples fam0 me) DIR) (lab (f_labelnames fam0) lv)
    = flat_map (per_reader f lv (hitems (f_bounds fam0))) (readers fam0 me).
  Proof.
    intros Hf Hm Hk Hw Hlv. unfold MultiprocSpec.group_items.
    rewrite filter_flat_map, map_flat_map, vals_of_flat_map, flat_map_readers. apply fm_ext_in. intros [fn c] Hin.
    unfold file_samples. cbn [fst snd]. destruct (fneq fn (fam_file fam0 me (snd fn))) eqn:E; [|reflexivity].
    rewrite Hk. cbn [ksamples].
    destruct (file_view f fam0 me Hf Hm fn c Hin) as (ops & fam & tsfs & Hl0 & Hfam & Hst & HI & Hv).
    assert (Hl : src (snd fn) f = Some ops) by (rewrite (src_of_file f fam0 me fn Hf Hm E); exact Hl0).
    rewrite E in Hv. pose proof HI as (_ & _ & _ & _ & HF & _). destruct (HF f fam me Hfam Hm) as [Hkw _ Hnd Hok _ _ _ _].
    destruct (statics_fields fam fam0 Hst) as (Ek & En & El & Eb).
    pose proof (hwf_statics F fzero flt fle parse_le fmt_le fam fam0 Hst Hw) as Hwf'.
    change (psamples (view (f_name fam0) c)) with (map (SM F fzero) (view (f_name fam0) c)).
    rewrite Hv, (enc_kids_hist F fzero fone fadd fmt_le fam me (tsfs f) (kids fam) ltac:(congruence) Hok).
    destruct (filters_family F fzero fone fadd flt fle parse_le fmt_le fam me (kids fam) Hwf' Hok) as [_ E2]. rewrite E2.
    rewrite map_flat_map.
    rewrite (fm_ext_in _ (fun kc => map (pair (lab (f_labelnames fam) (fst kc))) (gitems F fzero fone fadd fam kc)) (kids fam)).
    2:{ intros kc Hkc. rewrite Forall_forall in Hok.
        destruct (hist_kid F fzero fam kc ltac:(congruence) (Hok kc Hkc)) as (_ & _ & Hl').
        unfold EquivProofs.benc, gitems. rewrite !map_map. apply map_ext_in. intros [b cnt] Hbc. cbn [fst snd].
        apply (bucket_item_benc F fzero fone fadd flt fle parse_le fmt_le fam me (fst kc) b cnt Hwf' Hl').
        apply in_combine_l in Hbc. exact Hbc. }
    rewrite vals_of_flat_map.
    rewrite (fm_ext_in _ (fun kc => if key_eqb lv (fst kc) then gitems F fzero fone fadd fam kc else []) (kids fam)).
    2:{ intros kc Hkc. rewrite vals_of_pair. rewrite Forall_forall in Hok. destruct (Hok kc Hkc) as [Hl' _].
        rewrite <- El. rewrite (lab_eqb (f_labelnames fam) lv (fst kc)); [reflexivity|apply Hkw|congruence|exact Hl']. }
    rewrite (fm_pick (kids fam) lv _ Hnd). unfold per_reader, mem_child. rewrite Hl, Hfam.
    destruct (d_find key_eqb (kids fam) lv) as [ch|] eqn:Ec; [|reflexivity].
    apply d_find_key_in in Ec. rewrite Forall_forall in Hok. destruct (hist_kid F fzero fam (lv, ch) ltac:(congruence) (Hok _ Ec)) as (Ech & _ & _).
    cbn [snd] in Ech. rewrite Ech. unfold gitems, hitems. cbn [snd hc]. rewrite Eb. apply combine_map_r.
  Qed.

  Lemma holders_items f lv fam0 me :
    flat_map (per_reader f lv (hitems (f_bounds fam0))) (readers fam0 me)
    = flat_map (fun cs => combine (f_bounds fam0) (map fcount cs)) (holders f lv fam0 me).
  Proof.
    unfold holders. rewrite flat_map_flat_map. apply fm_ext_in. intros p _. unfold per_reader.
    destruct (mem_child p f lv) as [[cc|v|n0 s0|s0 cs|kv|i]|]; cbn [hitems hcells flat_map]; rewrite ?app_nil_r; reflexivity.
  Qed.

  Lemma holders_len f lv fam0 me : nth_error fams0 f = Some fam0 -> nth_error metas f = Some me -> f_kind fam0 = KHistogram ->
    Forall (fun cs => length cs = length (f_bounds fam0)) (holders f lv fam0 me).
  Proof.
    intros Hf Hm Hk. apply Forall_forall. intros cs Hin. unfold holders in Hin. apply in_flat_map in Hin as [p [_ Hin]].
    unfold per_reader in Hin. destruct (mem_child p f lv) as [ch|] eqn:Ec; [|contradiction].
    pose proof (mem_child_ok f fam0 me p lv ch Hf Hm Ec) as Hch. unfold EquivProofs.child_ok in Hch. rewrite Hk in Hch.
    destruct ch as [cc|v|n0 s0|s0 cs0|kv|i]; try contradiction. cbn [hcells] in Hin. destruct Hin as [<-|[]]. exact Hch.
  Qed.

  (* ----- the cells of all workers together are bounded by the number of steps of the multi-process history ----- *)
  Fixpoint natsum (l : list nat) : nat := match l with [] => O | x :: r => (x + natsum r)%nat end.
  Definition llen (b : bool) (l : life2 F) : nat :=
    match (if b then l_live F l else l_all F l) with Some ops => length ops | None => O end.

  Lemma life_step_len b (l : str -> life2 F) st : forall ps, NoDup ps ->
    (natsum (map (fun p => llen b (life2_step F p (l p) st)) ps) <= natsum (map (fun p => llen b (l p)) ps) + 1)%nat.
  Proof.
    assert (Hone : forall p, (llen b (life2_step F p (l p) st) <= llen b (l p) + 1)%nat).
    { intro p. unfold life2_step, llen. destruct (str_eqb (hpid F st) p); [|lia].
      destruct st as [q|q now o|q]; destruct (l p) as [[a|] [v|] [|]]; destruct b; cbn [l_all l_live l_alive or_nil snoc_opt length];
        try lia; rewrite app_length; cbn; lia. }
    assert (Hsame : forall p, hpid F st <> p -> life2_step F p (l p) st = l p).
    { intros p Hne. unfold life2_step. rewrite (proj2 (str_eqb_neq _ _) Hne). reflexivity. }
    induction 1 as [|p ps Hn Hnd IH]; cbn [map natsum]; [lia|].
    destruct (str_eqb (hpid F st) p) eqn:E.
    - apply str_eqb_eq in E. specialize (Hone p).
      assert (Hrest : map (fun q => llen b (life2_step F q (l q) st)) ps = map (fun q => llen b (l q)) ps).
      { apply map_ext_in. intros q Hq. rewrite Hsame; [reflexivity|]. intro E2. apply Hn. congruence. }
      rewrite Hrest. lia.
    - apply str_eqb_neq in E. rewrite (Hsame p E). lia.
  Qed.

  Lemma life_len_sum b ps : NoDup ps -> forall sts (l : str -> life2 F),
    (natsum (map (fun p => llen b (fold_left (life2_step F p) sts (l p))) ps) <= natsum (map (fun p => llen b (l p)) ps) + length sts)%nat.
  Proof.
    intros Hnd. induction sts as [|st sts IH]; intro l; cbn [fold_left length]; [lia|].
    specialize (IH (fun p => life2_step F p (l p) st)). cbn beta in IH.
    pose proof (life_step_len b l st ps Hnd). lia.
  Qed.

  Lemma nsum_app a b : nsum (a ++ b) = nsum a + nsum b.
  Proof. induction a as [|x a IH]; cbn [app nsum]; [reflexivity|]. rewrite IH. lia. Qed.

  Lemma nsum_flat_map {X} (g : X -> list (list N)) l :
    nsum (map nsum (flat_map g l)) = nsum (map (fun x => nsum (map nsum (g x))) l).
  Proof. induction l as [|x l IH]; [reflexivity|]. cbn [flat_map map nsum]. rewrite map_app, nsum_app, IH. reflexivity. Qed.

  Theorem holders_small f fam0 me lv : N.of_nat (length steps) < 2 ^ 53 ->
    nsum (map nsum (holders f lv fam0 me)) < 2 ^ 53.
  Proof.
    intro Hlen. unfold holders. rewrite nsum_flat_map.
    set (b := match nth_error fams0 f, nth_error metas f with Some fa, Some m => live_fam (f_kind fa) m | _, _ => false end).
    assert (Hp : forall p, nsum (map nsum (per_reader f lv hcells p)) <= N.of_nat (llen b (life2_of F p steps))).
    { intro p. unfold per_reader, mem_child. destruct (src p f) as [ops|] eqn:El; [|cbn; lia].
      destruct (nth_error (m_reg F (MEM ops)) f) as [fam|] eqn:Efam; [|cbn; lia].
      destruct (d_find key_eqb (kids fam) lv) as [ch|] eqn:Ec; [|cbn; lia]. apply d_find_key_in in Ec.
      destruct ch as [cc|v|n0 s0|s0 cs|kv|i]; cbn [hcells map nsum]; try lia.
      assert (Hfresh' : forall fam1, In fam1 fams0 -> fresh_fam F fzero fam1).
      { intros fam1 H1. destruct Hwf as (_ & _ & Hw & _). apply (Hw fam1 H1). }
      destruct (counts_bounded_by_observes F fzero fadd fneg flt fle of_Z zlef metas fams0 ops Hfresh' f fam Efam (lv, Hst s0 cs) Ec) as [Ht _].
      cbn [snd hc] in Ht. rewrite total_nsum in Ht. pose proof (n_observe_le_length F ops).
      assert (Hll : llen b (life2_of F p steps) = length ops).
      { unfold src in El. subst b. destruct (nth_error fams0 f) as [fa|]; [|discriminate]. destruct (nth_error metas f) as [m|]; [|discriminate].
        unfold llen. unfold MultiHist.src_ops in El. rewrite El. reflexivity. }
      rewrite Hll. lia. }
    assert (Hs : nsum (map (fun p => nsum (map nsum (per_reader f lv hcells p))) (readers fam0 me))
                 <= N.of_nat (natsum (map (fun p => llen b (life2_of F p steps)) (readers fam0 me)))).
    { induction (readers fam0 me) as [|p ps IH]; cbn [map nsum natsum]; [lia|]. specialize (Hp p). lia. }
    pose proof (life_len_sum b (readers fam0 me) (readers_nodup fam0 me) steps (fun _ => mkL2 F None None false)) as Hl.
    assert (E0 : forall ps : list str, natsum (map (fun _ : str => llen b (mkL2 F None None false)) ps) = O)
      by (induction ps as [|x ps IHps]; [reflexivity|cbn [map natsum]; rewrite IHps; destruct b; reflexivity]).
    rewrite E0 in Hl. unfold MultiHist.life2_of in Hs. lia.
  Qed.

  Hypothesis FLT_trans : forall a b c, flt a b = true -> flt b c = true -> flt a c = true.
  Hypothesis FLT_ne : forall a b, flt a b = true -> feqb b a = false.
  Hypothesis FL4 : forall a b, a + b < 2 ^ 53 -> fadd (fcount a) (fcount b) = fcount (a + b).

  Lemma last_map_f {A B} (g : A -> B) l d : last (map g l) (g d) = g (last l d).
  Proof. induction l as [|a l IH]; [reflexivity|]. cbn [map last]. destruct l; [reflexivity|exact IH]. Qed.

  Lemma nsum_fold_zipadd m : forall rest acc, length acc = m -> Forall (fun cs => length cs = m) rest ->
    nsum (fold_left zipadd rest acc) = nsum acc + nsum (map nsum rest).
  Proof.
    induction rest as [|cs rest IH]; intros acc Hla Hl; cbn [fold_left map nsum]; [lia|]. inversion Hl; subst.
    rewrite IH; [|rewrite zipadd_length; congruence|assumption]. rewrite nsum_zipadd by congruence. lia.
  Qed.

  Lemma fold_zipadd_length m : forall rest acc, length acc = m -> Forall (fun cs => length cs = m) rest ->
    length (fold_left zipadd rest acc) = m.
  Proof.
    induction rest as [|cs rest IH]; intros acc Hla Hl; cbn [fold_left]; [exact Hla|]. inversion Hl; subst.
    apply IH; [rewrite zipadd_length; congruence|assumption].
  Qed.

  Lemma map_snd_combine {A B} (a : list A) : forall (b : list B), length a = length b -> map snd (combine a b) = b.
  Proof. induction a as [|x a IH]; intros [|y b] H; try discriminate; [reflexivity|]. cbn [combine map snd]. f_equal. apply IH. cbn in H; lia. Qed.

  Lemma nsum_map_le (g h : list N -> N) l : (forall x, g x <= h x) -> nsum (map g l) <= nsum (map h l).
  Proof. intro H. induction l as [|x l IH]; cbn [map nsum]; [lia|]. specialize (H x). lia. Qed.

  (* ===== the bucket and _count series of child lv of a histogram family: the collector's value is the float sum, in
     read order, of the workers' in-memory CUMULATIVE bucket values / counts (count cells as 0.0 + 1 + ... + 1) =====
     hypotheses: the family is inside C12's histogram domain (hwf), its bounds are not NaN (b == b), at least one worker
     that is read holds the child, and the cells of all those workers together stay below 2^53 (FL4's domain) *)
  Theorem hist_bucket_series f fam0 me lv :
    nth_error fams0 f = Some fam0 -> nth_error metas f = Some me -> f_kind fam0 = KHistogram -> hwf fam0 ->
    (forall b, In b (f_bounds fam0) -> feqb b b = true) ->
    length lv = length (f_labelnames fam0) ->
    holders f lv fam0 me <> [] -> nsum (map nsum (holders f lv fam0 me)) < 2 ^ 53 ->
    (forall i b, nth_error (f_bounds fam0) i = Some b ->
       d_find Multiproc.skey_eqb (mp_family F (f_name fam0) (collect_mp DIR))
              (MultiprocSpec.bucket_key F fmt_le (f_name fam0) (lab (f_labelnames fam0) lv) b)
       = agg_sum (map (fun cs => fcount (nth i (accum 0 cs) 0)) (holders f lv fam0 me)))
    /\ d_find Multiproc.skey_eqb (mp_family F (f_name fam0) (collect_mp DIR))
             (MultiprocSpec.count_key (f_name fam0) (lab (f_labelnames fam0) lv))
       = agg_sum (map (fun cs => fcount (total cs)) (holders f lv fam0 me)).
  Proof.
    intros Hf Hm Hk Hw Hrefl Hlv Hne Hsm.
    pose proof (holders_len f lv fam0 me Hf Hm Hk) as Hlen.
    set (bs := f_bounds fam0) in *. set (ls := lab (f_labelnames fam0) lv).
    set (SS := flat_map (file_samples fam0 me) DIR).
    assert (Hacc : forall k, d_find Multiproc.skey_eqb (mp_family F (f_name fam0) (collect_mp DIR)) k
                             = d_find Multiproc.skey_eqb
                                 (Multiproc.acc_histogram F fzero fadd flt feqb parse_le fmt_le (f_name fam0) SS) k).
    { intro k. rewrite (shared_series f fam0 me k Hf Hm), Hk. rewrite MultiprocProofs.acc_histogram_spec. reflexivity. }
    assert (HG : MultiprocSpec.group_items F parse_le SS ls
                 = flat_map (fun cs => combine bs (map fcount cs)) (holders f lv fam0 me)).
    { subst SS ls. rewrite (group_items_shared f fam0 me lv Hf Hm Hk Hw Hlv). apply holders_items. }
    destruct (holders f lv fam0 me) as [|cs1 rest] eqn:EH; [contradiction|].
    pose proof (hw_strict _ _ _ _ _ _ _ Hw) as Hstrict. fold bs in Hstrict.
    set (col := fold_left zipadd rest cs1).
    assert (Hd : Multiproc.dfold feqb (Multiproc.upd_sum F fzero fadd) [] (MultiprocSpec.group_items F parse_le SS ls)
                 = combine bs (map fcount col)).
    { rewrite HG. apply (cols_all F fzero fone fadd flt feqb fmt_le FLT_trans FLT_ne FL4 bs cs1 rest Hstrict Hrefl Hlen Hsm). }
    inversion Hlen as [|? ? Hl1 Hlr]; subst.
    assert (Hcl : length col = length bs) by (apply fold_zipadd_length; assumption).
    assert (HB : Multiproc.sort_b F flt (combine bs (map fcount col)) = combine bs (map fcount col)).
    { apply (sort_b_sorted_id F fzero flt fmt_le). rewrite map_fst_combine by (rewrite map_length; congruence). exact Hstrict. }
    assert (Hcolsum : nsum col = nsum cs1 + nsum (map nsum rest)) by (apply (nsum_fold_zipadd (length bs)); assumption).
    cbn [map nsum] in Hsm.
    assert (Hps : MultiprocSpec.prefix_sums F fadd fzero (map fcount col) = map fcount (accum 0 col)).
    { change fzero with (fcount 0) at 1. apply (prefix_counts F fzero fone fadd flt feqb fmt_le FLT_trans FLT_ne FL4).
      change (last (accum 0 col) 0) with (total col). rewrite total_nsum. lia. }
    destruct (hist_lookup_nd F fzero fadd flt feqb parse_le fmt_le (f_name fam0) SS ls) as [Hbk Hct].
    { rewrite HG. pose proof (hw_ne _ _ _ _ _ _ _ Hw) as Hbne. fold bs in Hbne. cbn [flat_map].
      destruct bs as [|b0 bs']; [contradiction|]. destruct cs1; [discriminate|]. discriminate. }
    { rewrite Hd, HB. rewrite map_fst_combine by (rewrite map_length; congruence).
      destruct (hw_keys _ _ _ _ _ _ _ Hw) as [_ Hh]. destruct (Hh Hk) as [_ Hnd]. exact Hnd. }
    rewrite Hd, HB in Hbk, Hct. rewrite map_fst_combine in Hbk by (rewrite map_length; congruence).
    rewrite map_snd_combine in Hbk, Hct by (rewrite map_length; congruence). rewrite Hps in Hbk, Hct.
    split.
    - intros i b Hb. rewrite Hacc, (Hbk i b Hb).
      assert (Hi : (i < length bs)%nat) by (apply nth_error_Some; congruence).
      rewrite nth_error_map. rewrite (nth_error_nth' (accum 0 col) 0) by (rewrite accum_len; lia). cbn [option_map].
      rewrite <- (map_map (fun cs => nth i (accum 0 cs) 0) fcount (cs1 :: rest)).
      assert (Hle : nsum (map (fun cs => nth i (accum 0 cs) 0) (cs1 :: rest)) <= nsum (map nsum (cs1 :: rest))).
      { apply nsum_map_le. intro cs. pose proof (nth_accum_le cs 0 i). lia. }
      cbn [map nsum] in Hle.
      unfold MultiprocSpec.agg_sum. cbn [map]. f_equal.
      change (fold_left fadd (fcount (nth i (accum 0 cs1) 0) :: map fcount (map (fun cs => nth i (accum 0 cs) 0) rest)) fzero)
        with (fold_left fadd (map fcount (map (fun cs => nth i (accum 0 cs) 0) (cs1 :: rest))) (fcount 0)).
      rewrite (fold_fcount F fzero fone fadd flt feqb fmt_le FLT_trans FLT_ne FL4) by (cbn [map nsum]; lia). f_equal. cbn [map nsum].
      subst col. rewrite (nth_fold_zipadd F fzero flt feqb fmt_le FLT_trans FLT_ne (accum 0) (fun a b H => accum_zipadd a b 0 0 H) (fun a => accum_len a 0) (length bs) i rest cs1 Hl1 Hlr). lia.
    - rewrite Hacc, Hct. rewrite <- (map_map total fcount (cs1 :: rest)).
      unfold MultiprocSpec.agg_sum. cbn [map]. f_equal.
      replace (last (map fcount (accum 0 col)) fzero) with (fcount (last (accum 0 col) 0))
        by (symmetry; exact (last_map_f fcount (accum 0 col) 0)).
      change (last (accum 0 col) 0) with (total col). rewrite total_nsum, Hcolsum.
      change (fold_left fadd (fcount (total cs1) :: map fcount (map total rest)) fzero)
        with (fold_left fadd (map fcount (map total (cs1 :: rest))) (fcount 0)).
      assert (Ht : map total (cs1 :: rest) = map nsum (cs1 :: rest)) by (apply map_ext; intro; apply total_nsum).
      rewrite Ht. rewrite (fold_fcount F fzero fone fadd flt feqb fmt_le FLT_trans FLT_ne FL4) by (cbn [map nsum]; lia). cbn [map nsum]. f_equal.
  Qed.

  (* ----- no worker that is read holds the child: the collector reports neither its buckets nor its _count ----- *)
  Lemma find_le_app_none a b : Multiproc.find_le a = None -> Multiproc.find_le (a ++ b) = Multiproc.find_le b.
  Proof.
    induction a as [|l a IH]; intro H; [reflexivity|]. cbn [app Multiproc.find_le] in *.
    destruct (str_eqb (fst l) Multiproc.S_le); [discriminate|]. apply IH. exact H.
  Qed.

  Lemma nonle_samples_are_sums f fam0 me s :
    nth_error fams0 f = Some fam0 -> nth_error metas f = Some me -> f_kind fam0 = KHistogram -> hwf fam0 ->
    In s (flat_map (file_samples fam0 me) DIR) -> Multiproc.has_le F s = false ->
    Multiproc.s_name F s = f_name fam0 ++ SUF_sum.
  Proof.
    intros Hf Hm Hk Hw Hin Hle. apply in_flat_map in Hin as [[fn c] [Hin Hs]]. unfold file_samples in Hs. cbn [fst snd] in Hs.
    destruct (fneq fn (fam_file fam0 me (snd fn))) eqn:E; [|contradiction]. rewrite Hk in Hs. cbn [ksamples] in Hs.
    destruct (file_view f fam0 me Hf Hm fn c Hin) as (ops & fam & tsfs & Hl0 & Hfam & Hst & HI & Hv).
    assert (Hl : src (snd fn) f = Some ops) by (rewrite (src_of_file f fam0 me fn Hf Hm E); exact Hl0).
    rewrite E in Hv. pose proof HI as (_ & _ & _ & _ & HF & _). destruct (HF f fam me Hfam Hm) as [Hkw _ Hnd Hok _ _ _ _].
    destruct (statics_fields fam fam0 Hst) as (Ek & En & El & Eb).
    pose proof (hwf_statics F fzero flt fle parse_le fmt_le fam fam0 Hst Hw) as Hwf'.
    change (psamples (view (f_name fam0) c)) with (map (SM F fzero) (view (f_name fam0) c)) in Hs.
    rewrite Hv, (enc_kids_hist F fzero fone fadd fmt_le fam me (tsfs f) (kids fam) ltac:(congruence) Hok) in Hs.
    destruct (filters_family F fzero fone fadd flt fle parse_le fmt_le fam me (kids fam) Hwf' Hok) as [E1 _].
    assert (Hs' : In s (filter (fun s0 => negb (Multiproc.has_le F s0)) (map (SM F fzero) (flat_map (kidL F fzero fone fadd fmt_le fam me) (kids fam)))))
      by (apply filter_In; split; [exact Hs|rewrite Hle; reflexivity]).
    rewrite E1 in Hs'. apply in_map_iff in Hs' as [kc [<- _]]. cbn. rewrite En. reflexivity.
  Qed.

  Lemma hist_absent f fam0 me lv k :
    nth_error fams0 f = Some fam0 -> nth_error metas f = Some me -> f_kind fam0 = KHistogram -> hwf fam0 ->
    length lv = length (f_labelnames fam0) -> holders f lv fam0 me = [] ->
    ((exists b, k = MultiprocSpec.bucket_key F fmt_le (f_name fam0) (lab (f_labelnames fam0) lv) b)
     \/ k = MultiprocSpec.count_key (f_name fam0) (lab (f_labelnames fam0) lv)) ->
    d_find Multiproc.skey_eqb (mp_family F (f_name fam0) (collect_mp DIR)) k = None.
  Proof.
    intros Hf Hm Hk Hw Hlv HH Hkey. rewrite (shared_series f fam0 me k Hf Hm), Hk.
    unfold MultiprocSpec.spec_series. cbn [typ_of].
    change (str_eqb Multiproc.S_histogram Multiproc.S_gauge) with false.
    change (str_eqb Multiproc.S_histogram Multiproc.S_histogram) with true. cbv iota.
    rewrite (hist_writes_silent F fzero fadd flt feqb parse_le fmt_le (f_name fam0) _ (lab (f_labelnames fam0) lv) k).
    2:{ rewrite (group_items_shared f fam0 me lv Hf Hm Hk Hw Hlv), holders_items, HH. reflexivity. }
    2:{ exact Hkey. }
    unfold MultiprocSpec.spec_plain, MultiprocSpec.contribs.
    rewrite (filter_nil_all (fun s => Multiproc.skey_eqb k (Multiproc.full_key F s))); [reflexivity|].
    intros s Hs. apply filter_In in Hs as [Hs Hle]. destruct (Multiproc.has_le F s) eqn:Ele; [discriminate|].
    destruct (Multiproc.skey_eqb k (Multiproc.full_key F s)) eqn:E; [|reflexivity]. exfalso.
    apply MultiprocProofs.skey_eqb_eq in E. unfold Multiproc.full_key in E.
    destruct Hkey as [[b ->]| ->].
    - unfold MultiprocSpec.bucket_key in E. injection E as _ Els. unfold Multiproc.has_le in Ele. rewrite <- Els in Ele.
      destruct (hw_keys _ _ _ _ _ _ _ Hw) as [_ Hh]. destruct (Hh Hk) as [Hnle _].
      rewrite (find_le_app_none _ _ (find_le_lab _ lv Hnle)) in Ele. cbn in Ele. discriminate.
    - unfold MultiprocSpec.count_key in E. injection E as En _.
      rewrite (nonle_samples_are_sums f fam0 me s Hf Hm Hk Hw Hs Ele) in En.
      apply app_inv_head in En. discriminate.
  Qed.

  (* the same statement without the hypothesis that some worker holds the child *)
  Theorem hist_bucket_series_all f fam0 me lv :
    nth_error fams0 f = Some fam0 -> nth_error metas f = Some me -> f_kind fam0 = KHistogram -> hwf fam0 ->
    (forall b, In b (f_bounds fam0) -> feqb b b = true) ->
    length lv = length (f_labelnames fam0) ->
    nsum (map nsum (holders f lv fam0 me)) < 2 ^ 53 ->
    (forall i b, nth_error (f_bounds fam0) i = Some b ->
       d_find Multiproc.skey_eqb (mp_family F (f_name fam0) (collect_mp DIR))
              (MultiprocSpec.bucket_key F fmt_le (f_name fam0) (lab (f_labelnames fam0) lv) b)
       = agg_sum (map (fun cs => fcount (nth i (accum 0 cs) 0)) (holders f lv fam0 me)))
    /\ d_find Multiproc.skey_eqb (mp_family F (f_name fam0) (collect_mp DIR))
             (MultiprocSpec.count_key (f_name fam0) (lab (f_labelnames fam0) lv))
       = agg_sum (map (fun cs => fcount (total cs)) (holders f lv fam0 me)).
  Proof.
    intros Hf Hm Hk Hw Hrefl Hlv Hsm. destruct (holders f lv fam0 me) as [|cs1 rest] eqn:EH.
    - split; [intros i b _|]; cbn [map MultiprocSpec.agg_sum];
        apply (hist_absent f fam0 me lv _ Hf Hm Hk Hw Hlv EH); [left; exists b; reflexivity|right; reflexivity].
    - rewrite <- EH in *. apply hist_bucket_series; try assumption. rewrite EH. discriminate.
  Qed.

End Shared.

(* mark_process_dead on the directory is Multiproc.mark_dead on its listing *)
Lemma fs_mark_dead_names {F} (p : str) (d : Values.fs F) :
  map (fun fc => fname_str (fst fc)) (fs_mark_dead F p d)
  = Multiproc.mark_dead p (map (fun fc : Values.fname * Values.content F => fname_str (fst fc)) d).
Proof. unfold fs_mark_dead, Multiproc.mark_dead, dead_name. rewrite filter_map_comm. reflexivity. Qed.

(* ================= a toy instance inside the domain (exact integer arithmetic) ================= *)
Module ToyMulti.
  Import MetricsProofs.Toy Toy12.
  Definition P1 : str := Eval compute in s2l "1".
  Definition P2 : str := Eval compute in s2l "22".
  Definition P3 : str := Eval compute in s2l "3".
  Definition mfams : mregistry Z :=
    [mkMFamily KCounter (s2l "c") [] [] [] (Ctr (CF 0%Z)) [];
     mkMFamily KGauge (s2l "g") [s2l "l"] [] [] (Gge 0%Z) [];
     mkMFamily KHistogram (s2l "h") [] [0%Z; 5%Z; t_inf] [] (Hst 0%Z [0; 0; 0]) [];
     mkMFamily KGauge (s2l "m") [] [] [] (Gge 0%Z) []].
  Definition mmetas := [meta0; mkMeta Multiproc.M_livesum (s2l "doc"); meta0; mkMeta Multiproc.M_max (s2l "doc")].
  Definition call (p : str) (now : Z) (o : mcall Z) : hstep Z := HCall p now o.
  (* two workers interleaved, a third that starts late; worker 22 is marked dead, its later call is ignored; then a NEW
     process with pid 22 starts: it continues the counter file of the old one and gets a fresh livesum file *)
  Definition msteps : list (hstep Z) :=
    [HStart P1; HStart P2;
     call P1 1000 (CUpd 0 Parent (Inc (AInt 2)));
     call P2 1001 (CUpd 0 Parent (Inc (AInt 3)));
     call P2 1002 (CUpd 1 (Lab [s2l "x"] []) (SetV (AInt 7)));
     call P1 1003 (CUpd 1 (Lab [s2l "x"] []) (SetV (AInt 5)));
     call P1 1004 (CUpd 2 Parent (Observe (AInt 3)));
     call P2 1005 (CUpd 2 Parent (Observe (AInt 9)));
     call P2 1006 (CUpd 3 Parent (SetV (AInt 4)));
     HStart P3;
     call P3 1007 (CUpd 2 Parent (Observe (AInt 0)));
     call P1 1008 (CUpd 3 Parent (SetV (AInt (-1))));
     HDead P2;
     call P2 1009 (CUpd 0 Parent (Inc (AInt 100)));
     call P3 1010 (CUpd 1 (Lab [s2l "x"] []) (Inc (AInt 1)));
     HStart P2;
     call P2 1011 (CUpd 0 Parent (Inc (AInt 10)));
     call P2 1012 (CUpd 1 (Lab [s2l "x"] []) (SetV (AInt 9)))].
  Definition mrun := mp_run_multi Z 0%Z 1%Z Z.add Z.opp Z.ltb Z.leb Z.eqb t_of_Z Z.leb tfmt (map (shape_of Z) mfams) mmetas (mh_init Z) msteps.
  Definition mcollect := collect_mp Z 0%Z Z.add Z.ltb Z.eqb tparse tfmt (h_fs Z mrun).
  Definition mseries (n : str) : list (Multiproc.skey * Z) := mp_family Z n mcollect.

  Lemma m_wf : wf_reg Z 0%Z tfmt mmetas mfams.
  Proof.
    split; [reflexivity|split; [|split]].
    - cbn. repeat constructor; cbn; intuition discriminate.
    - intros fam [<-|[<-|[<-|[<-|[]]]]].
      + split; [split; [cbn; repeat constructor|discriminate]|split; [reflexivity|split; reflexivity]].
      + split; [split; [cbn; repeat constructor; cbn; intuition discriminate|discriminate]|split; [reflexivity|split; reflexivity]].
      + split; [split; [cbn; repeat constructor|]|split; [reflexivity|split; reflexivity]].
        intros _. split; [cbn; intuition discriminate|cbn; repeat constructor; cbn; intuition discriminate].
      + split; [split; [cbn; repeat constructor|discriminate]|split; [reflexivity|split; reflexivity]].
    - intros [|[|[|[|f]]]] fam me Hf Hm Hk; cbn in Hf, Hm; try discriminate; inversion Hf; inversion Hm; subst; try discriminate.
      + split; [cbn; intuition discriminate|cbn; tauto].
      + split; [cbn; intuition discriminate|cbn; tauto].
      + destruct f; discriminate.
  Qed.

  Lemma m_hwf : forall fam0, In fam0 mfams -> f_kind fam0 = KHistogram -> hwf Z 0%Z Z.ltb Z.leb tparse tfmt fam0.
  Proof.
    intros fam0 [<-|[<-|[<-|[<-|[]]]]] Hk; try discriminate. constructor; try reflexivity.
    - split; [cbn; repeat constructor|].
      intros _. split; [cbn; intuition discriminate|cbn; repeat constructor; cbn; intuition discriminate].
    - cbn. repeat split.
    - repeat constructor.
    - discriminate.
  Qed.

  Lemma m_nous : Forall (fun st => ~ In Multiproc.US (hpid Z st)) msteps.
  Proof. repeat constructor; cbn; unfold Multiproc.US; intuition discriminate. Qed.
  Lemma m_calls : Forall (hcall_ok Z 0%Z Z.ltb) msteps.
  Proof. repeat constructor. Qed.
End ToyMulti.
