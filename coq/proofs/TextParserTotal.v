(* C14 (text half): no exception class other than ValueError escapes the text parser model. *)
From V Require Import lib.PyBase lib.Tac lib.PyStr model.Validation model.TextParser.
Ltac Zify.zify_post_hook ::= Z.to_euclidean_division_equations.
Open Scope N_scope.

(* "VE or out of fuel": the shape of every intermediate result; fuel is handled separately *)
Definition veo {A} (m : res A) : Prop :=
  match m with Ok _ => True | Err e => e = ValueError \/ e = OutOfFuel end.

Lemma veo_bind {A B} (m : res A) (f : A -> res B) :
  veo m -> (forall a, m = Ok a -> veo (f a)) -> veo (bind m f).
Proof. destruct m as [a|e]; simpl; intros H1 H2; [apply H2; reflexivity|exact H1]. Qed.

Lemma only_VE_veo {A} (m : res A) : only_VE m -> veo m.
Proof. destruct m; simpl; auto. Qed.

Lemma unquote_unescape_fixed_VE t : only_VE (unquote_unescape_with true t).
Proof.
  unfold unquote_unescape_with. destruct t as [|a t']; [exact I|].
  destruct (strip (a :: t')) as [|c r]; [exact I|].
  destruct (c =? DQ); [|exact I].
  destruct ((zlen (c :: r) =? 1)%Z || _); simpl; auto.
Qed.

Lemma unquote_unescape_orig_IndexError :
  unquote_unescape_with false [28] = Err IndexError.
Proof. vm_compute. reflexivity. Qed.
