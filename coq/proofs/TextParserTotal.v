(* C14 (text half): no exception class other than ValueError escapes the text parser model. *)
From V Require Import lib.PyBase lib.Tac lib.PyStr model.Validation model.TextParser.
Ltac Zify.zify_post_hook ::= Z.to_euclidean_division_equations.
Open Scope N_scope.

(* "VE or out of fuel": the shape of every intermediate result; fuel is handled separately *)
Definition veo {A} (m : res A) : Prop :=
  match m with Ok _ => True | Err e => e = ValueError \/ e = OutOfFuel end.

Lemma veo_bind {A B} (m : res A) (f : A -> res B) :
  veo m -> (forall a, m = Ok a -> veo (f a)) -> veo (bind m f).
Proof. destruct m as [a|e]; simpl; intros H1 H2; [apply H2; reflexivity|exact H1]. Qed.

Lemma only_VE_veo {A} (m : res A) : only_VE m -> veo m.
Proof. destruct m; simpl; auto. Qed.

Lemma unquote_unescape_fixed_VE t : only_VE (unquote_unescape_with true t).
Proof.
  unfold unquote_unescape_with. destruct t as [|a t']; [exact I|].
  destruct (strip (a :: t')) as [|c r]; [exact I|].
  destruct (c =? DQ); [|exact I].
  destruct ((zlen (c :: r) =? 1)%Z || _); simpl; auto.
Qed.

Lemma unquote_unescape_orig_IndexError :
  unquote_unescape_with false [28] = Err IndexError.
Proof. vm_compute. reflexivity. Qed.

(* ------------------------------------------------------------------------------------------- *)
(* Part 1: exception classes.  With the two repairs in place (guard_fix = ovf_fix = true), every
   function of the model returns Ok, Err ValueError or Err OutOfFuel.                           *)
Lemma index0_nonempty c r : index (c :: r) 0 = Ok c.
Proof.
  unfold index, zlen. cbn [length]. rewrite Nat2Z.inj_succ.
  destruct (Z.ltb_spec 0 0); [lia|]. cbn [orb].
  destruct (Z.leb_spec (Z.succ (Z.of_nat (length r))) 0); [lia|]. reflexivity.
Qed.


Section Classes.
  Variable legacy : bool.
  Variable NUM : Type.
  Variable parse_num parse_float : str -> option NUM.
  Variable div1000 : NUM -> res NUM.

  Notation unq := (unquote_unescape true).
  Notation p_labels := (parse_labels legacy true).
  Notation p_sample := (parse_sample legacy true NUM parse_num parse_float div1000 true).
  Notation p_text := (text_parse legacy true NUM parse_num parse_float div1000 true).

  Lemma veo_unq t : veo (unq t).
  Proof. apply only_VE_veo. apply unquote_unescape_fixed_VE. Qed.

  Lemma veo_validate_labelname s : veo (validate_labelname legacy s).
  Proof.
    unfold validate_labelname, validate_labelname_legacy, validate_labelname_utf8.
    destruct legacy; [destruct (label_name_re s)|]; try destruct (reserved_label_re true s); simpl; auto.
  Qed.

  Lemma veo_next_term c r om : veo (next_term (c :: r) om).
  Proof.
    unfold next_term. rewrite index0_nonempty. cbn [bind].
    assert (K : forall text, veo (
      let sp0 := next_unquoted_char text [COMMA; RBRACE] 0 in
      let sp := if (sp0 =? -1)%Z then zlen text else sp0 in
      let term := slice_to text sp in
      match term with
      | [] => if om then Err ValueError else Ok (strip term, strip (slice_from text sp))
      | _ => Ok (strip term, strip (slice_from text sp))
      end)).
    { intro text. cbv zeta. destruct (slice_to text _); [destruct om|]; simpl; auto. }
    destruct (c =? COMMA).
    - destruct (slice_from (c :: r) 1) as [|c1 t1]; [simpl; auto|].
      destruct (c1 =? COMMA); [simpl; auto|]. apply K.
    - apply K.
  Qed.

  Lemma veo_parse_one_label term labels : veo (parse_one_label legacy true term labels).
  Proof.
    unfold parse_one_label.
    apply veo_bind.
    - destruct (_ =? -1)%Z; [exact I|]. apply veo_bind; [apply veo_unq|]. intros [n q] _. exact I.
    - intros [[label_name quoted_name] term1] _.
      destruct (negb quoted_name && _); [simpl; auto|].
      destruct (strip term1) as [|c rest]; [simpl; auto|].
      destruct (negb (c =? DQ)); [simpl; auto|].
      apply veo_bind.
      + destruct rest; [exact I|]. destruct (find_close _ _ _); simpl; auto.
      + intros i _. destruct (negb _); [simpl; auto|].
        apply veo_bind; [apply veo_unq|]. intros [label_value b] _.
        apply veo_bind.
        * destruct (str_eqb _ _); [exact I|apply veo_validate_labelname].
        * intros _ _. destruct (d_mem _ _ _); simpl; auto.
  Qed.

  Lemma veo_parse_labels_fuel fuel : forall sub om labels, veo (parse_labels_fuel legacy true fuel sub om labels).
  Proof.
    induction fuel as [|fuel IH]; intros sub om labels; [simpl; auto|].
    cbn [parse_labels_fuel]. destruct sub as [|c r]; [exact I|].
    apply veo_bind; [apply veo_next_term|]. intros [term sub'] _.
    destruct term as [|t0 tr].
    - destruct om; [simpl; auto|apply IH].
    - apply veo_bind; [apply veo_parse_one_label|]. intros labels' _. apply IH.
  Qed.

  Lemma veo_parse_labels s om : veo (p_labels s om).
  Proof.
    unfold parse_labels. destruct (strip s) as [|c r]; [exact I|].
    destruct (om && _); [simpl; auto|]. apply veo_parse_labels_fuel.
  Qed.

  Lemma veo_parse_value v : veo (parse_value NUM parse_num v).
  Proof.
    unfold parse_value. destruct (_ || _); [simpl; auto|]. destruct (parse_num v); simpl; auto.
  Qed.

  Lemma veo_pvt s : veo (parse_value_and_timestamp NUM parse_num parse_float div1000 true s).
  Proof.
    unfold parse_value_and_timestamp.
    destruct (map strip _) as [|v0 rest].
    - destruct (parse_float _); simpl; auto.
    - apply veo_bind; [apply veo_parse_value|]. intros value _.
      destruct rest as [|r0 rr]; [exact I|].
      apply veo_bind; [apply veo_parse_value|]. intros t _.
      destruct (div1000 t); simpl; auto.
  Qed.

  Lemma veo_parse_sample text : veo (p_sample text).
  Proof.
    unfold parse_sample.
    destruct (_ || _).
    - destruct (negb _); [simpl; auto|].
      apply veo_bind; [apply veo_pvt|]. intros [v ts] _. exact I.
    - apply veo_bind; [apply veo_parse_labels|]. intros labels _.
      apply veo_bind.
      + destruct (strip _) as [|n0 nr].
        * destruct (d_find _ _ _); simpl; auto.
        * destruct (d_mem _ _ _); simpl; auto.
      + intros [name' labels'] _.
        apply veo_bind; [apply veo_pvt|]. intros [v ts] _. exact I.
  Qed.

  Lemma veo_build_metric name doc typ samples : veo (build_metric legacy NUM name doc typ samples).
  Proof.
    unfold build_metric.
    destruct (if str_eqb typ S_counter then _ else _) as [name1 samples1].
    apply veo_bind.
    - unfold validate_metric_name_legacy, validate_metric_name_utf8.
      destruct legacy; destruct name1 as [|c0 n1]; simpl; auto.
      destruct (name_start c0 && match_rest false name_rest n1); simpl; auto.
    - intros _ _. destruct (mem_str _ _); simpl; auto.
  Qed.

  Lemma veo_flush st : veo (flush legacy NUM st).
  Proof.
    unfold flush. destruct (st_name NUM st); [exact I|].
    apply veo_bind; [apply veo_build_metric|]. intros m _. exact I.
  Qed.

  Lemma veo_split_quoted_fuel fuel : forall text chs ms x done last,
    veo (split_quoted_fuel fuel text chs ms x done last).
  Proof.
    induction fuel as [|fuel IH]; intros; [simpl; auto|].
    cbn [split_quoted_fuel]. destruct (_ <? _)%Z; [|exact I].
    destruct (_ =? -1)%Z; [exact I|]. destruct (_ && _); [exact I|]. apply IH.
  Qed.

  Lemma veo_step_line st line : veo (step_line legacy true NUM parse_num parse_float div1000 true st line).
  Proof.
    unfold step_line. destruct (strip line) as [|c r]; [exact I|].
    destruct (c =? HASH).
    - apply veo_bind; [apply veo_split_quoted_fuel|]. intros parts _.
      destruct parts as [|p0 [|kw rest]]; try exact I.
      apply veo_bind.
      + destruct rest as [|p2 rr]; [exact I|].
        apply veo_bind; [apply veo_unq|]. intros [n q] _.
        destruct (negb q && _); simpl; auto.
      + intros [cand q] _.
        destruct (str_eqb kw S_HELP).
        * apply veo_bind.
          -- destruct (negb _); [|exact I].
             apply veo_bind; [apply veo_flush|]. intros out _. exact I.
          -- intros [st1 out] _. exact I.
        * destruct (str_eqb kw S_TYPE); [|exact I].
          destruct rest as [|r0 [|typ [|x y]]]; try (simpl; auto; fail).
          apply veo_bind.
          -- destruct (negb _); [|exact I].
             apply veo_bind; [apply veo_flush|]. intros out _. exact I.
          -- intros [st1 out] _. exact I.
    - apply veo_bind; [apply veo_parse_sample|]. intros sample _.
      destruct (mem_str _ _); [exact I|].
      apply veo_bind; [apply veo_flush|]. intros out _.
      apply veo_bind; [apply veo_build_metric|]. intros m _. exact I.
  Qed.

  Lemma veo_run_lines lines : forall st acc,
    veo (run_lines legacy true NUM parse_num parse_float div1000 true st lines acc).
  Proof.
    induction lines as [|l r IH]; intros st acc; cbn [run_lines].
    - apply veo_bind; [apply veo_flush|]. intros out _. exact I.
    - apply veo_bind; [apply veo_step_line|]. intros [st' out] _. apply IH.
  Qed.

  Theorem text_parse_classes s : veo (p_text s).
  Proof. unfold text_parse. apply veo_run_lines. Qed.
End Classes.

(* ------------------------------------------------------------------------------------------- *)
(* Part 2: termination.  The fuel given to the two loops is always enough, so OutOfFuel is never
   returned: split_quoted advances its index at every round; the label loop shortens its input at
   every round PROVIDED the input holds no unquoted closing brace - which is what _parse_sample
   guarantees for the text between the first unquoted braces (the "fresh scan" argument).
   parse_labels called directly on a string starting with a closing brace does loop for ever in
   the Python source; it is unreachable from the public entry point.                            *)
From V Require Import proofs.ScanFacts.

Lemma only_VE_bind {A B} (m : res A) (f : A -> res B) :
  only_VE m -> (forall a, m = Ok a -> only_VE (f a)) -> only_VE (bind m f).
Proof. destruct m as [a|e]; simpl; intros H1 H2; [apply H2; reflexivity|exact H1]. Qed.

Lemma split_quoted_fuel_ok fuel : forall text chs ms x done last,
  (0 <= x)%Z -> (Z.max 0 (zlen text - x) + 1 <= Z.of_nat fuel)%Z ->
  exists l, split_quoted_fuel fuel text chs ms x done last = Ok l.
Proof.
  induction fuel as [|fuel IH]; intros text chs ms x done last Hx Hf; [lia|].
  cbn [split_quoted_fuel]. destruct (Z.ltb_spec x (zlen text)); [|eexists; reflexivity].
  destruct (Z.eqb_spec (next_unquoted_char text chs x) (-1)); [eexists; reflexivity|].
  destruct (_ && _); [eexists; reflexivity|].
  apply IH.
  - unfold next_unquoted_char in *. destruct (nuq_range chs text 0 x false false) as [H0|H0]; [contradiction|lia].
  - unfold next_unquoted_char in *. destruct (nuq_range chs text 0 x false false) as [H0|H0]; [contradiction|lia].
Qed.

Lemma split_quoted_ok text chs ms : exists l, split_quoted text chs ms = Ok l.
Proof. unfold split_quoted. apply split_quoted_fuel_ok; unfold zlen; lia. Qed.

Section Termination.
  Variable legacy : bool.
  Variable NUM : Type.
  Variable parse_num parse_float : str -> option NUM.
  Variable div1000 : NUM -> res NUM.

  Notation unq := (unquote_unescape true).
  Notation CB := [RBRACE].

  Lemma VE_unq t : only_VE (unq t).
  Proof. apply unquote_unescape_fixed_VE. Qed.

  Lemma VE_validate_labelname s : only_VE (validate_labelname legacy s).
  Proof.
    unfold validate_labelname, validate_labelname_legacy, validate_labelname_utf8.
    destruct legacy; [destruct (label_name_re s)|]; try destruct (reserved_label_re true s); simpl; auto.
  Qed.

  Lemma VE_parse_one_label term labels : only_VE (parse_one_label legacy true term labels).
  Proof.
    unfold parse_one_label.
    apply only_VE_bind.
    - destruct (_ =? -1)%Z; [exact I|]. apply only_VE_bind; [apply VE_unq|]. intros [n q] _. exact I.
    - intros [[label_name quoted_name] term1] _.
      destruct (negb quoted_name && _); [simpl; auto|].
      destruct (strip term1) as [|c rest]; [simpl; auto|].
      destruct (negb (c =? DQ)); [simpl; auto|].
      apply only_VE_bind.
      + destruct rest; [exact I|]. destruct (find_close _ _ _); simpl; auto.
      + intros i _. destruct (negb _); [simpl; auto|].
        apply only_VE_bind; [apply VE_unq|]. intros [label_value b] _.
        apply only_VE_bind.
        * destruct (str_eqb _ _); [exact I|apply VE_validate_labelname].
        * intros _ _. destruct (d_mem _ _ _); simpl; auto.
  Qed.

  (* the common tail of _next_term, on a text whose first character is not a comma *)
  Definition nt_tail (om : bool) (text : str) : res (str * str) :=
    let sp0 := next_unquoted_char text [COMMA; RBRACE] 0 in
    let sp := if (sp0 =? -1)%Z then zlen text else sp0 in
    let term := slice_to text sp in
    match term with
    | [] => if om then Err ValueError else Ok (strip term, strip (slice_from text sp))
    | _ => Ok (strip term, strip (slice_from text sp))
    end.

  Lemma nt_tail_progress om c r term sub' :
    c <> COMMA -> clean CB (c :: r) -> nt_tail om (c :: r) = Ok (term, sub') ->
    (length sub' < length (c :: r))%nat /\ clean CB sub'.
  Proof.
    intros Hc Hcl H. unfold nt_tail in H. rewrite next_unquoted_char_rel in H.
    assert (Hsub : exists sp, sub' = strip (slice_from (c :: r) sp) /\
              ((sp = zlen (c :: r) /\ nuq0 [COMMA; RBRACE] (c :: r) false false = None) \/
               (exists k, sp = Z.of_nat k /\ nuq0 [COMMA; RBRACE] (c :: r) false false = Some k))).
    { destruct (nuq0 [COMMA; RBRACE] (c :: r) false false) as [k|] eqn:E.
      - exists (Z.of_nat k). replace (Z.of_nat k =? -1)%Z with false in H by lia.
        split; [|right; exists k; auto].
        destruct (slice_to (c :: r) (Z.of_nat k)); [destruct om|]; inversion H; reflexivity.
      - exists (zlen (c :: r)). rewrite Z.eqb_refl in H. split; [|left; auto].
        destruct (slice_to (c :: r) (zlen (c :: r))); [destruct om|]; inversion H; reflexivity. }
    destruct Hsub as (sp & -> & [[-> Hn]|(k & -> & Hk)]).
    - unfold zlen. rewrite slice_from_skipn by lia. rewrite skipn_all. cbn. split; [lia|reflexivity].
    - destruct (nuq0_Some _ _ _ _ _ Hk) as (a & c' & rest & Hl & Hlen & Hna & Hm & Hst).
      assert (Hk0 : k <> 0%nat).
      { intro E; subst k. destruct a; [|discriminate]. cbn [app] in Hl. inversion Hl; subst c' rest.
        cbn [mem_char orb] in Hm. unfold COMMA, RBRACE in *.
        destruct (N.eqb_spec c 44); [contradiction|]. destruct (N.eqb_spec c 125) as [->|]; [|discriminate].
        unfold clean in Hcl. vm_compute in Hcl. discriminate. }
      assert (Hc' : c' <> DQ /\ c' <> BS).
      { cbn [mem_char orb] in Hm. unfold COMMA, RBRACE, DQ, BS in *.
        destruct (N.eqb_spec c' 44) as [->|]; [split; discriminate|].
        destruct (N.eqb_spec c' 125) as [->|]; [split; discriminate|discriminate]. }
      destruct Hc' as [Hq Hb].
      rewrite Hl. rewrite slice_from_skipn by (rewrite app_length; cbn; lia).
      replace (skipn k (a ++ c' :: rest)) with (c' :: rest)
        by (rewrite <- Hlen, skipn_app, skipn_all, Nat.sub_diag; reflexivity).
      split.
      + pose proof (length_strip (c' :: rest)) as Hls. rewrite app_length. cbn [length] in *. lia.
      + apply clean_strip. rewrite Hl in Hcl. unfold clean in *. rewrite nuq0_app in Hcl.
        destruct (nuq0 CB a false false); [discriminate|].
        destruct (nuq0 CB (c' :: rest) _ _) eqn:E; [discriminate|].
        cbv zeta in Hst. destruct (N.eqb_spec c' DQ); [contradiction|]. cbn [andb] in Hst.
        rewrite Hst in E. cbn [nuq0] in E |- *.
        destruct (N.eqb_spec c' BS); [contradiction|]. destruct (N.eqb_spec c' DQ); [contradiction|].
        cbn [andb negb] in E |- *. exact E.
  Qed.

  Lemma next_term_progress c r om term sub' :
    clean CB (c :: r) -> next_term (c :: r) om = Ok (term, sub') ->
    (length sub' < length (c :: r))%nat /\ clean CB sub'.
  Proof.
    intros Hcl H. unfold next_term in H. rewrite index0_nonempty in H. cbn [bind] in H.
    fold (nt_tail om) in H.
    destruct (N.eqb_spec c COMMA) as [->|Hc].
    - change 1%Z with (Z.of_nat 1) in H. rewrite slice_from_skipn in H by (cbn; lia). cbn [skipn] in H.
      assert (Hr : clean CB r) by (eapply clean_tail; eauto; discriminate).
      destruct r as [|c1 r1]; [inversion H; cbn; split; [lia|reflexivity]|].
      destruct (N.eqb_spec c1 COMMA); [discriminate|].
      destruct (nt_tail_progress om c1 r1 term sub' n Hr H) as [H1 H2]. split; [cbn [length] in *; lia|exact H2].
    - apply (nt_tail_progress om c r term sub' Hc Hcl H).
  Qed.

  Lemma VE_next_term c r om : only_VE (next_term (c :: r) om).
  Proof.
    unfold next_term. rewrite index0_nonempty. cbn [bind]. fold (nt_tail om).
    assert (K : forall text, only_VE (nt_tail om text)).
    { intro text. unfold nt_tail. cbv zeta. destruct (slice_to text _); [destruct om|]; simpl; auto. }
    destruct (c =? COMMA); [|apply K].
    destruct (slice_from (c :: r) 1) as [|c1 t1]; [simpl; auto|].
    destruct (c1 =? COMMA); [simpl; auto|]. apply K.
  Qed.

  Lemma VE_parse_labels_fuel fuel : forall sub om labels,
    clean CB sub -> (length sub < fuel)%nat -> only_VE (parse_labels_fuel legacy true fuel sub om labels).
  Proof.
    induction fuel as [|fuel IH]; intros sub om labels Hcl Hf; [lia|].
    cbn [parse_labels_fuel]. destruct sub as [|c r]; [exact I|].
    apply only_VE_bind; [apply VE_next_term|]. intros [term sub'] Hnt.
    destruct (next_term_progress c r om term sub' Hcl Hnt) as [Hlen Hcl'].
    destruct term as [|t0 tr].
    - destruct om; [simpl; auto|]. apply IH; [exact Hcl'|lia].
    - apply only_VE_bind; [apply VE_parse_one_label|]. intros labels' _. apply IH; [exact Hcl'|lia].
  Qed.

  Lemma VE_parse_labels s om : clean CB s -> only_VE (parse_labels legacy true s om).
  Proof.
    intro Hcl. unfold parse_labels. pose proof (clean_strip CB s Hcl) as Hs.
    destruct (strip s) as [|c r] eqn:E; [exact I|].
    destruct (om && _); [simpl; auto|]. apply VE_parse_labels_fuel; [exact Hs|lia].
  Qed.

  (* _parse_sample hands the label loop a brace-free string *)
  Lemma label_slice_clean text :
    clean CB (slice text (next_unquoted_char text [LBRACE] 0 + 1)%Z (next_unquoted_char text CB 0)).
  Proof.
    rewrite !next_unquoted_char_rel.
    destruct (nuq0 [LBRACE] text false false) as [ls|] eqn:Els.
    2:{ (* no opening brace: the slice starts at index 0 *)
      destruct (nuq0 CB text false false) as [le|] eqn:Ele.
      - destruct (nuq0_Some _ _ _ _ _ Ele) as (a & c' & rest & Hl & Hlen & Hna & _).
        change (-1 + 1)%Z with (Z.of_nat 0). rewrite slice_nat by (apply nuq0_lt in Ele; lia).
        rewrite Nat.sub_0_r. cbn [skipn]. rewrite Hl, <- Hlen, firstn_app, firstn_all, Nat.sub_diag.
        cbn [firstn]. rewrite app_nil_r. exact Hna.
      - (* text[0:-1]: a prefix of a brace-free text *)
        change (-1 + 1)%Z with (Z.of_nat 0).
        destruct (slice_lo_nat text 0 (-1) ltac:(lia)) as [n ->]. cbn [skipn]. apply clean_firstn. exact Ele. }
    destruct (nuq0_Some _ _ _ _ _ Els) as (a & c' & rest & Hl & Hlen & Hna & Hm & Hst).
    assert (Hc' : c' = LBRACE).
    { cbn [mem_char orb] in Hm. destruct (N.eqb_spec c' LBRACE); [auto|discriminate]. }
    subst c'. cbv zeta in Hst. cbn [N.eqb LBRACE DQ andb] in Hst.
    (* state after the opening brace is fresh: (false, false) *)
    assert (Hfresh : forall chs, nuq0 chs text false false =
              match nuq0 chs a false false with
              | Some k => Some k
              | None => if mem_char LBRACE chs then Some (length a)
                        else option_map (fun k => (length a + S k)%nat) (nuq0 chs rest false false)
              end).
    { intro chs. rewrite Hl, nuq0_app. destruct (nuq0 chs a false false); [reflexivity|].
      cbn [nuq0]. cbn [N.eqb LBRACE DQ BS andb]. rewrite Hst. cbn [negb andb].
      destruct (mem_char LBRACE chs); [cbn; f_equal; lia|].
      change (123 =? 92)%positive with false. cbv iota. destruct (nuq0 chs rest false false); cbn [option_map]; [f_equal; lia|reflexivity]. }
    pose proof (Hfresh CB) as Hcb. cbn [mem_char orb N.eqb LBRACE RBRACE] in Hcb.
    assert (Hlt : (ls < length text)%nat) by (apply nuq0_lt in Els; exact Els).
    destruct (nuq0 CB text false false) as [le|] eqn:Ele.
    - destruct (nuq0 CB a false false) as [ka|] eqn:Eka.
      + (* the first closing brace comes before the opening one: empty slice *)
        inversion Hcb; subst le. assert (ka < length a)%nat by (eapply nuq0_lt; eauto).
        unfold slice, zlen. rewrite !norm_idx_id by lia.
        destruct (Z.leb_spec (Z.of_nat ka) (Z.of_nat ls + 1)); [reflexivity|lia].
      + destruct (nuq0 CB rest false false) as [kr|] eqn:Ekr; [|discriminate].
        cbn [option_map] in Hcb. inversion Hcb; subst le.
        destruct (nuq0_Some _ _ _ _ _ Ekr) as (b & c2 & rest2 & Hl2 & Hlen2 & Hnb & _).
        replace (Z.of_nat ls + 1)%Z with (Z.of_nat (S ls)) by lia.
        assert (kr < length rest)%nat by (eapply nuq0_lt; eauto).
        rewrite slice_nat by (rewrite Hl, app_length; cbn [length]; lia).
        rewrite Hl, <- Hlen.
        replace (skipn (S (length a)) (a ++ LBRACE :: rest)) with rest
          by (rewrite skipn_app, skipn_all2 by lia;
              replace (S (length a) - length a)%nat with 1%nat by lia; reflexivity).
        replace (length a + S kr - S (length a))%nat with kr by lia.
        rewrite Hl2, <- Hlen2, firstn_app, firstn_all, Nat.sub_diag. cbn [firstn]. rewrite app_nil_r. exact Hnb.
    - (* no closing brace at all: text[ls+1:-1], a prefix of the brace-free rest *)
      destruct (nuq0 CB a false false); [discriminate|].
      destruct (nuq0 CB rest false false) eqn:Ekr; [discriminate|].
      replace (Z.of_nat ls + 1)%Z with (Z.of_nat (S ls)) by lia.
      destruct (slice_lo_nat text (S ls) (-1) ltac:(lia)) as [n ->].
      rewrite Hl, <- Hlen.
      replace (skipn (S (length a)) (a ++ LBRACE :: rest)) with rest
        by (rewrite skipn_app, skipn_all2 by lia;
            replace (S (length a) - length a)%nat with 1%nat by lia; reflexivity).
      apply clean_firstn. exact Ekr.
  Qed.

  Lemma VE_parse_value v : only_VE (parse_value NUM parse_num v).
  Proof.
    unfold parse_value. destruct (_ || _); [simpl; auto|]. destruct (parse_num v); simpl; auto.
  Qed.

  Lemma VE_pvt s : only_VE (parse_value_and_timestamp NUM parse_num parse_float div1000 true s).
  Proof.
    unfold parse_value_and_timestamp.
    destruct (map strip _) as [|v0 rest].
    - destruct (parse_float _); simpl; auto.
    - apply only_VE_bind; [apply VE_parse_value|]. intros value _.
      destruct rest as [|r0 rr]; [exact I|].
      apply only_VE_bind; [apply VE_parse_value|]. intros t _.
      destruct (div1000 t); simpl; auto.
  Qed.

  Lemma VE_parse_sample text : only_VE (parse_sample legacy true NUM parse_num parse_float div1000 true text).
  Proof.
    unfold parse_sample.
    destruct (_ || _).
    - destruct (negb _); [simpl; auto|].
      apply only_VE_bind; [apply VE_pvt|]. intros [v ts] _. exact I.
    - apply only_VE_bind; [apply VE_parse_labels, label_slice_clean|]. intros labels _.
      apply only_VE_bind.
      + destruct (strip _) as [|n0 nr].
        * destruct (d_find _ _ _); simpl; auto.
        * destruct (d_mem _ _ _); simpl; auto.
      + intros [name' labels'] _.
        apply only_VE_bind; [apply VE_pvt|]. intros [v ts] _. exact I.
  Qed.

  Lemma VE_build_metric name doc typ samples : only_VE (build_metric legacy NUM name doc typ samples).
  Proof.
    unfold build_metric.
    destruct (if str_eqb typ S_counter then _ else _) as [name1 samples1].
    apply only_VE_bind.
    - unfold validate_metric_name_legacy, validate_metric_name_utf8.
      destruct legacy; destruct name1 as [|c0 n1]; simpl; auto.
      destruct (name_start c0 && match_rest false name_rest n1); simpl; auto.
    - intros _ _. destruct (mem_str _ _); simpl; auto.
  Qed.

  Lemma VE_flush st : only_VE (flush legacy NUM st).
  Proof.
    unfold flush. destruct (st_name NUM st); [exact I|].
    apply only_VE_bind; [apply VE_build_metric|]. intros m _. exact I.
  Qed.

  Lemma VE_step_line st line :
    only_VE (step_line legacy true NUM parse_num parse_float div1000 true st line).
  Proof.
    unfold step_line. destruct (strip line) as [|c r]; [exact I|].
    destruct (c =? HASH).
    - destruct (split_quoted_ok (c :: r) WS_ASCII 3) as [parts ->]. cbn [bind].
      destruct parts as [|p0 [|kw rest]]; try exact I.
      apply only_VE_bind.
      + destruct rest as [|p2 rr]; [exact I|].
        apply only_VE_bind; [apply VE_unq|]. intros [n q] _.
        destruct (negb q && _); simpl; auto.
      + intros [cand q] _.
        destruct (str_eqb kw S_HELP).
        * apply only_VE_bind.
          -- destruct (negb _); [|exact I].
             apply only_VE_bind; [apply VE_flush|]. intros out _. exact I.
          -- intros [st1 out] _. exact I.
        * destruct (str_eqb kw S_TYPE); [|exact I].
          destruct rest as [|r0 [|typ [|x y]]]; try (simpl; auto; fail).
          apply only_VE_bind.
          -- destruct (negb _); [|exact I].
             apply only_VE_bind; [apply VE_flush|]. intros out _. exact I.
          -- intros [st1 out] _. exact I.
    - apply only_VE_bind; [apply VE_parse_sample|]. intros sample _.
      destruct (mem_str _ _); [exact I|].
      apply only_VE_bind; [apply VE_flush|]. intros out _.
      apply only_VE_bind; [apply VE_build_metric|]. intros m _. exact I.
  Qed.

  Lemma VE_run_lines lines : forall st acc,
    only_VE (run_lines legacy true NUM parse_num parse_float div1000 true st lines acc).
  Proof.
    induction lines as [|l r IH]; intros st acc; cbn [run_lines].
    - apply only_VE_bind; [apply VE_flush|]. intros out _. exact I.
    - apply only_VE_bind; [apply VE_step_line|]. intros [st' out] _. apply IH.
  Qed.

  Theorem text_parse_total s :
    only_VE (text_parse legacy true NUM parse_num parse_float div1000 true s).
  Proof. unfold text_parse. apply VE_run_lines. Qed.
End Termination.
