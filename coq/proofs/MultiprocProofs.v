(* Proofs about model/Multiproc.v (C08). *)
From V Require Import lib.PyBase lib.Tac model.Multiproc.
From Coq Require Import Permutation.
Ltac Zify.zify_post_hook ::= Z.to_euclidean_division_equations.
Open Scope N_scope.

(* ---------- key equalities reflect Leibniz equality ---------- *)
Lemma label_eqb_eq a b : label_eqb a b = true <-> a = b.
Proof.
  destruct a as [a1 a2], b as [b1 b2]; unfold label_eqb; cbn [fst snd].
  rewrite andb_true_iff, !str_eqb_eq. split; [intros [-> ->]; reflexivity | intros H; inversion H; auto].
Qed.

Lemma labels_eqb_eq a b : labels_eqb a b = true <-> a = b.
Proof.
  revert b; induction a as [|x a IH]; intros [|y b]; cbn [labels_eqb]; split; intro H;
    try reflexivity; try discriminate.
  - apply andb_true_iff in H as [H1 H2]. apply label_eqb_eq in H1. apply IH in H2. congruence.
  - inversion H; subst. apply andb_true_iff; split; [apply label_eqb_eq | apply IH]; reflexivity.
Qed.

Lemma skey_eqb_eq a b : skey_eqb a b = true <-> a = b.
Proof.
  destruct a as [a1 a2], b as [b1 b2]; unfold skey_eqb; cbn [fst snd].
  rewrite andb_true_iff, str_eqb_eq, labels_eqb_eq. split; [intros [-> ->]; reflexivity | intros H; inversion H; auto].
Qed.

Lemma key_eqb_eq a b : key_eqb a b = true <-> a = b.
Proof.
  destruct a as [a1 a2 a3 a4], b as [b1 b2 b3 b4]; unfold key_eqb; cbn.
  rewrite !andb_true_iff, !str_eqb_eq, labels_eqb_eq.
  split; [intros [[[-> ->] ->] ->]; reflexivity | intros H; inversion H; auto].
Qed.

(* ---------- dictionaries whose key comparison is an equivalence on the keys in use ---------- *)
Section Dict.
  Context {K : Type} (keq : K -> K -> bool) (P : K -> Prop).
  Hypothesis keq_refl : forall a, P a -> keq a a = true.
  Hypothesis keq_sym : forall a b, P a -> P b -> keq a b = keq b a.
  Hypothesis keq_trans : forall a b c, P a -> P b -> P c -> keq a b = true -> keq b c = true -> keq a c = true.

  Definition PK {V} (d : assoc K V) : Prop := Forall (fun kv => P (fst kv)) d.

  (* no two keys of d are equal for keq: what a Python dict guarantees *)
  Inductive NoDupK {V} : assoc K V -> Prop :=
  | NDK_nil : NoDupK []
  | NDK_cons k v r : d_find keq r k = None -> NoDupK r -> NoDupK ((k, v) :: r).

  Lemma keq_false_l a b c : P a -> P b -> P c -> keq a b = true -> keq a c = false -> keq b c = false.
  Proof.
    intros Pa Pb Pc Hab Hac. destruct (keq b c) eqn:E; [|reflexivity].
    rewrite (keq_trans a b c Pa Pb Pc Hab E) in Hac. discriminate.
  Qed.

  Lemma d_find_congr {V} (d : assoc K V) a b : PK d -> P a -> P b -> keq a b = true -> d_find keq d a = d_find keq d b.
  Proof.
    intros Hd Pa Pb Hab. induction d as [|[k v] r IH]; [reflexivity|].
    inversion Hd as [|? ? Pk Hr]; subst. cbn [fst] in Pk. cbn [d_find].
    destruct (keq a k) eqn:E1.
    - rewrite (keq_sym a b Pa Pb) in Hab. rewrite (keq_trans b a k Pb Pa Pk Hab E1). reflexivity.
    - rewrite (keq_false_l a b k Pa Pb Pk Hab E1). apply IH, Hr.
  Qed.

  Lemma PK_set {V} (d : assoc K V) k v : PK d -> P k -> PK (d_set keq d k v).
  Proof.
    intros Hd Pk. induction d as [|[k0 v0] r IH]; cbn [d_set].
    - constructor; [exact Pk | constructor].
    - inversion Hd as [|? ? Pk0 Hr]; subst. cbn [fst] in Pk0.
      destruct (keq k k0); constructor; cbn [fst]; try assumption. apply IH, Hr.
  Qed.

  Lemma d_find_set {V} (d : assoc K V) k v a : PK d -> P k -> P a ->
    d_find keq (d_set keq d k v) a = if keq a k then Some v else d_find keq d a.
  Proof.
    intros Hd Pk Pa. induction d as [|[k0 v0] r IH]; cbn [d_set d_find].
    - reflexivity.
    - inversion Hd as [|? ? Pk0 Hr]; subst. cbn [fst] in Pk0.
      destruct (keq k k0) eqn:E; cbn [d_find].
      + destruct (keq a k) eqn:E1.
        * rewrite (keq_trans a k k0 Pa Pk Pk0 E1 E). reflexivity.
        * destruct (keq a k0) eqn:E2; [|reflexivity].
          rewrite (keq_sym k k0 Pk Pk0) in E. rewrite (keq_trans a k0 k Pa Pk0 Pk E2 E) in E1. discriminate.
      + destruct (keq a k0) eqn:E2.
        * destruct (keq a k) eqn:E1; [|reflexivity].
          rewrite (keq_sym a k Pa Pk) in E1. rewrite (keq_trans k a k0 Pk Pa Pk0 E1 E2) in E. discriminate.
        * apply IH, Hr.
  Qed.

  Lemma NoDupK_set {V} (d : assoc K V) k v : PK d -> P k -> NoDupK d -> NoDupK (d_set keq d k v).
  Proof.
    intros Hd Pk Hn. induction Hn as [|k0 v0 r Hf Hn IH]; cbn [d_set].
    - constructor; [reflexivity | constructor].
    - inversion Hd as [|? ? Pk0 Hr]; subst. cbn [fst] in Pk0.
      destruct (keq k k0) eqn:E.
      + constructor; assumption.
      + constructor; [|apply IH, Hr].
        rewrite (d_find_set r k v k0 Hr Pk Pk0), (keq_sym k0 k Pk0 Pk), E. exact Hf.
  Qed.

  Section Fold.
    Context {S A : Type} (upd : option S -> A -> S).
    Definition PI (items : list (K * A)) : Prop := Forall (fun ka => P (fst ka)) items.

    Lemma dfold_PK items : forall d, PK d -> PI items -> PK (dfold keq upd d items).
    Proof.
      induction items as [|[k a] r IH]; intros d Hd Hi; cbn [dfold]; [exact Hd|].
      inversion Hi; subst. apply IH; [apply PK_set; assumption | assumption].
    Qed.

    Lemma dfold_NoDupK items : forall d, PK d -> PI items -> NoDupK d -> NoDupK (dfold keq upd d items).
    Proof.
      induction items as [|[k a] r IH]; intros d Hd Hi Hn; cbn [dfold]; [exact Hn|].
      inversion Hi; subst. apply IH; [apply PK_set | | apply NoDupK_set]; assumption.
    Qed.

    (* the value under key k is the fold of upd over exactly the items of key k, in order *)
    Lemma dfold_find items : forall d k, PK d -> PI items -> P k ->
      d_find keq (dfold keq upd d items) k = kfold upd (d_find keq d k) (vals_of keq k items).
    Proof.
      induction items as [|[k' a] r IH]; intros d k Hd Hi Pk; cbn [dfold vals_of kfold]; [reflexivity|].
      inversion Hi as [|? ? Pk' Hr]; subst. cbn [fst] in Pk'.
      rewrite IH by (try apply PK_set; assumption).
      rewrite d_find_set by assumption.
      destruct (keq k k') eqn:E; cbn [kfold]; [|reflexivity].
      rewrite (d_find_congr d k k' Hd Pk Pk' E). reflexivity.
    Qed.

    Lemma kfold_some o l : l <> [] -> exists s, kfold upd o l = Some s.
    Proof.
      revert o; induction l as [|a r IH]; intros o H; [contradiction|]. cbn [kfold].
      destruct r as [|b r']; [eexists; reflexivity|]. apply IH. discriminate.
    Qed.

    Lemma kfold_app o l1 l2 : kfold upd o (l1 ++ l2) = kfold upd (kfold upd o l1) l2.
    Proof. revert o; induction l1 as [|a r IH]; intros o; cbn [kfold app]; [reflexivity | apply IH]. Qed.

    Lemma vals_of_app k (l1 l2 : list (K * A)) : vals_of keq k (l1 ++ l2) = vals_of keq k l1 ++ vals_of keq k l2.
    Proof.
      induction l1 as [|[k' a] r IH]; cbn [vals_of app]; [reflexivity|].
      destruct (keq k k'); cbn [app]; rewrite IH; reflexivity.
    Qed.
  End Fold.

  (* set_all: the last assignment to a key wins; untouched keys keep their value *)
  Lemma set_all_find {V} (l : list (K * V)) : forall d k, PK d -> PI l -> P k ->
    d_find keq (set_all keq d l) k = find_last keq l k (d_find keq d k).
  Proof.
    induction l as [|[k' v] r IH]; intros d k Hd Hl Pk; cbn [set_all find_last]; [reflexivity|].
    inversion Hl as [|? ? Pk' Hr]; subst. cbn [fst] in Pk'.
    rewrite IH by (try apply PK_set; assumption).
    rewrite d_find_set by assumption. reflexivity.
  Qed.

  Lemma set_all_NoDupK {V} (l : list (K * V)) : forall d, PK d -> PI l -> NoDupK d -> NoDupK (set_all keq d l).
  Proof.
    induction l as [|[k' v] r IH]; intros d Hd Hl Hn; cbn [set_all]; [exact Hn|].
    inversion Hl; subst. apply IH; [apply PK_set | | apply NoDupK_set]; assumption.
  Qed.
End Dict.

(* Leibniz instances *)
Section Leibniz.
  Context {K : Type} (keq : K -> K -> bool) (keq_eq : forall a b, keq a b = true <-> a = b).
  Definition PT (_ : K) : Prop := True.
  Lemma L_refl a : PT a -> keq a a = true. Proof. intros _. apply keq_eq. reflexivity. Qed.
  Lemma L_sym a b : PT a -> PT b -> keq a b = keq b a.
  Proof.
    intros _ _. destruct (keq a b) eqn:E1, (keq b a) eqn:E2; try reflexivity.
    - apply keq_eq in E1. subst. rewrite (proj2 (keq_eq b b) eq_refl) in E2. discriminate.
    - apply keq_eq in E2. subst. rewrite (proj2 (keq_eq a a) eq_refl) in E1. discriminate.
  Qed.
  Lemma L_trans a b c : PT a -> PT b -> PT c -> keq a b = true -> keq b c = true -> keq a c = true.
  Proof. intros _ _ _ H1 H2. apply keq_eq in H1, H2. subst. apply keq_eq. reflexivity. Qed.
  Lemma PK_T {V} (d : assoc K V) : PK PT d.
  Proof. apply Forall_forall. intros; exact I. Qed.
  Lemma PI_T {A} (l : list (K * A)) : PI PT l.
  Proof. apply Forall_forall. intros; exact I. Qed.

  Lemma d_find_In {V} (d : assoc K V) k v : d_find keq d k = Some v -> In (k, v) d.
  Proof.
    induction d as [|[k0 v0] r IH]; cbn [d_find]; [discriminate|].
    destruct (keq k k0) eqn:E.
    - intros H; inversion H; subst. apply keq_eq in E. subst. left; reflexivity.
    - intros H. right. apply IH, H.
  Qed.

  Lemma d_find_None_notin {V} (d : assoc K V) k : d_find keq d k = None -> ~ In k (map fst d).
  Proof.
    induction d as [|[k0 v0] r IH]; cbn [d_find map fst]; [intros _ []|].
    destruct (keq k k0) eqn:E; [discriminate|].
    intros H [H1|H1]; [subst; rewrite (proj2 (keq_eq k k) eq_refl) in E; discriminate | exact (IH H H1)].
  Qed.

  Lemma NoDupK_NoDup {V} (d : assoc K V) : NoDupK keq d -> NoDup (map fst d).
  Proof.
    induction 1 as [|k v r Hf Hn IH]; cbn [map fst]; constructor; [apply d_find_None_notin, Hf | exact IH].
  Qed.

  Lemma In_d_find {V} (d : assoc K V) k v : NoDupK keq d -> In (k, v) d -> d_find keq d k = Some v.
  Proof.
    induction 1 as [|k0 v0 r Hf Hn IH]; [intros []|].
    intros [H|H]; cbn [d_find].
    - inversion H; subst. rewrite (proj2 (keq_eq k k) eq_refl). reflexivity.
    - destruct (keq k k0) eqn:E; [|apply IH, H].
      apply keq_eq in E; subst. apply d_find_None_notin in Hf. exfalso. apply Hf.
      apply in_map_iff. exists (k0, v). split; [reflexivity | exact H].
  Qed.

  (* vals_of with a Leibniz key = the values of the items carrying that key *)
  Lemma vals_of_filter {A} (k : K) (items : list (K * A)) :
    vals_of keq k items = map snd (filter (fun ka => keq k (fst ka)) items).
  Proof.
    induction items as [|[k' a] r IH]; cbn [vals_of filter map fst snd]; [reflexivity|].
    destruct (keq k k'); cbn [map snd]; rewrite IH; reflexivity.
  Qed.

  Lemma vals_of_nil_iff {A} (k : K) (items : list (K * A)) : vals_of keq k items = [] <-> ~ In k (map fst items).
  Proof.
    induction items as [|[k' a] r IH]; cbn [vals_of map fst In]; [tauto|].
    destruct (keq k k') eqn:E.
    - apply keq_eq in E. subst. split; [discriminate | intros H; exfalso; apply H; left; reflexivity].
    - rewrite IH. split; [intros H [H1|H1]; [subst; rewrite (proj2 (keq_eq k k) eq_refl) in E; discriminate | auto] | tauto].
  Qed.
End Leibniz.

From V Require Import model.MultiprocSpec.

Lemma vals_of_map {K A B} (keq : K -> K -> bool) (kf : B -> K) (g : B -> A) k (l : list B) :
  vals_of keq k (map (fun s => (kf s, g s)) l) = map g (filter (fun s => keq k (kf s)) l).
Proof.
  induction l as [|s r IH]; cbn [map vals_of filter]; [reflexivity|].
  destruct (keq k (kf s)); cbn [map]; rewrite IH; reflexivity.
Qed.

Section MergeProofs.
  Variable F : Type.
  Variable fzero : F.
  Variable fadd : F -> F -> F.
  Variable flt : F -> F -> bool.
  Variable feqb : F -> F -> bool.
  Variable parse_le : str -> F.
  Variable fmt_le : F -> str.

  Notation sample := (sample F).
  Notation upd_sum := (upd_sum F fzero fadd).
  Notation upd_min := (upd_min F flt).
  Notation upd_max := (upd_max F flt).
  Notation upd_last := (upd_last F).
  Notation upd_mr := (upd_mr F fzero flt feqb).
  Notation agg_sum := (agg_sum F fzero fadd).
  Notation agg_min := (agg_min F flt).
  Notation agg_max := (agg_max F flt).
  Notation agg_last := (agg_last F).
  Notation agg_mr := (agg_mr F fzero flt feqb).
  Notation mr_step := (mr_step F fzero flt feqb).

  (* ----- what one key sees under each update rule ----- *)
  Lemma kfold_sum o l :
    kfold upd_sum o l = match l with [] => o | _ => Some (fold_left fadd l (opt_default fzero o)) end.
  Proof.
    revert o; induction l as [|a r IH]; intros o; cbn [kfold]; [reflexivity|].
    rewrite IH. destruct r; reflexivity.
  Qed.
  Lemma kfold_sum_None l : kfold upd_sum None l = agg_sum l.
  Proof. rewrite kfold_sum. destruct l; reflexivity. Qed.

  Lemma kfold_min_Some c l : kfold upd_min (Some c) l = Some (fold_left (pick_min F flt) l c).
  Proof. revert c; induction l as [|a r IH]; intros c; cbn [kfold fold_left]; [reflexivity | apply IH]. Qed.
  Lemma kfold_min_None l : kfold upd_min None l = agg_min l.
  Proof. destruct l as [|a r]; cbn [kfold]; [reflexivity | apply kfold_min_Some]. Qed.

  Lemma kfold_max_Some c l : kfold upd_max (Some c) l = Some (fold_left (pick_max F flt) l c).
  Proof. revert c; induction l as [|a r IH]; intros c; cbn [kfold fold_left]; [reflexivity | apply IH]. Qed.
  Lemma kfold_max_None l : kfold upd_max None l = agg_max l.
  Proof. destruct l as [|a r]; cbn [kfold]; [reflexivity | apply kfold_max_Some]. Qed.

  Lemma last_cons_default (a c : F) r : last r a = last (a :: r) c.
  Proof.
    revert a c; induction r as [|b r IH]; intros a c; [reflexivity|].
    change (last (a :: b :: r) c) with (last (b :: r) c). rewrite <- (IH b a), <- (IH b c). reflexivity.
  Qed.
  Lemma kfold_last_Some c l : kfold upd_last (Some c) l = Some (last l c).
  Proof.
    revert c; induction l as [|a r IH]; intros c; cbn [kfold]; [reflexivity|].
    rewrite IH. unfold Multiproc.upd_last. f_equal. apply last_cons_default.
  Qed.
  Lemma kfold_last_None l : kfold upd_last None l = agg_last l.
  Proof. destruct l as [|a r]; cbn [kfold]; [reflexivity | apply kfold_last_Some]. Qed.

  Lemma upd_mr_step o vt : upd_mr o vt = mr_step (opt_default (None, fzero) o) vt.
  Proof.
    unfold Multiproc.upd_mr, MultiprocSpec.mr_step. destruct (opt_default (None, fzero) o) as [cv cts].
    cbn [fst snd]. reflexivity.
  Qed.
  Lemma kfold_mr o l :
    kfold upd_mr o l = match l with [] => o | _ => Some (fold_left mr_step l (opt_default (None, fzero) o)) end.
  Proof.
    revert o; induction l as [|a r IH]; intros o; cbn [kfold]; [reflexivity|].
    rewrite IH, upd_mr_step. destruct r; reflexivity.
  Qed.

  (* ----- dictionaries keyed by (sample name, labels) ----- *)
  Notation sk_find := (d_find skey_eqb).
  Let SK_refl := L_refl skey_eqb skey_eqb_eq.
  Let SK_sym := L_sym skey_eqb skey_eqb_eq.
  Let SK_trans := L_trans skey_eqb skey_eqb_eq.

  Lemma sk_dfold_find {S A} (upd : option S -> A -> S) (kf : sample -> skey) (g : sample -> A) ss k :
    sk_find (dfold skey_eqb upd [] (map (fun s => (kf s, g s)) ss)) k
    = kfold upd None (map g (contribs F kf ss k)).
  Proof.
    rewrite (dfold_find skey_eqb PT SK_sym SK_trans upd _ [] k (PK_T _) (PI_T _) I).
    rewrite vals_of_map. reflexivity.
  Qed.

  Lemma sk_dfold_NoDup {S A} (upd : option S -> A -> S) items :
    NoDupK skey_eqb (dfold skey_eqb upd [] items).
  Proof.
    apply (dfold_NoDupK skey_eqb PT SK_sym SK_trans upd items [] (PK_T _) (PI_T _)). constructor.
  Qed.

  Lemma keep_assigned_find d k : NoDupK skey_eqb d ->
    sk_find (keep_assigned F d) k = match sk_find d k with Some (Some v, _) => Some v | _ => None end.
  Proof.
    induction 1 as [|k0 [ov ts] r Hf Hn IH]; [reflexivity|].
    cbn [keep_assigned d_find]. destruct (skey_eqb k k0) eqn:E.
    - apply skey_eqb_eq in E; subst k0. destruct ov as [v|]; cbn [d_find].
      + rewrite (proj2 (skey_eqb_eq k k) eq_refl). reflexivity.
      + rewrite IH, Hf. reflexivity.
    - destruct ov as [v|]; cbn [d_find]; [rewrite E|]; exact IH.
  Qed.

  Lemma keep_assigned_keys d : forall k, In k (map fst (keep_assigned F d)) -> In k (map fst d).
  Proof.
    induction d as [|[k0 [[v|] ts]] r IH]; cbn [keep_assigned map fst In]; intros k H; auto.
    destruct H; auto.
  Qed.

  Lemma keep_assigned_NoDup d : NoDup (map fst d) -> NoDup (map fst (keep_assigned F d)).
  Proof.
    induction d as [|[k0 [[v|] ts]] r IH]; cbn [keep_assigned map fst]; intros H; inversion H; subst; auto.
    constructor; auto. intro Hin. apply keep_assigned_keys in Hin. contradiction.
  Qed.

  (* ----- C08 refinement, per metric: every series of the output is the per-mode aggregate of its contributions ----- *)
  Lemma acc_plain_spec ss k : sk_find (acc_plain F fzero fadd ss) k = spec_plain F fzero fadd ss k.
  Proof. unfold acc_plain, spec_plain. rewrite sk_dfold_find, kfold_sum_None. reflexivity. Qed.

  Lemma acc_gauge_spec mode ss k :
    sk_find (acc_gauge F fzero fadd flt feqb mode ss) k = spec_gauge F fzero fadd flt feqb mode ss k.
  Proof.
    unfold acc_gauge, spec_gauge.
    destruct (is_mode M_min M_livemin mode); [rewrite sk_dfold_find; apply kfold_min_None|].
    destruct (is_mode M_max M_livemax mode); [rewrite sk_dfold_find; apply kfold_max_None|].
    destruct (is_mode M_sum M_livesum mode); [rewrite sk_dfold_find; apply kfold_sum_None|].
    destruct (is_mode M_mostrecent M_livemostrecent mode); [|rewrite sk_dfold_find; apply kfold_last_None].
    rewrite keep_assigned_find by apply sk_dfold_NoDup.
    rewrite (sk_dfold_find upd_mr (without_pid F) (fun s => (s_value F s, s_ts F s))), kfold_mr.
    unfold MultiprocSpec.agg_mr.
    destruct (map _ (contribs F (without_pid F) ss k)) as [|a r]; [reflexivity|].
    cbn [opt_default]. destruct (fold_left mr_step (a :: r) (None, fzero)) as [[v|] t]; reflexivity.
  Qed.

  Lemma acc_plain_NoDup ss : NoDup (map fst (acc_plain F fzero fadd ss)).
  Proof. apply (NoDupK_NoDup skey_eqb skey_eqb_eq), sk_dfold_NoDup. Qed.

  Lemma acc_gauge_NoDup mode ss : NoDup (map fst (acc_gauge F fzero fadd flt feqb mode ss)).
  Proof.
    unfold acc_gauge.
    repeat match goal with |- context [if ?b then _ else _] => destruct b end;
      try (apply (NoDupK_NoDup skey_eqb skey_eqb_eq), sk_dfold_NoDup).
    apply keep_assigned_NoDup, (NoDupK_NoDup skey_eqb skey_eqb_eq), sk_dfold_NoDup.
  Qed.
End MergeProofs.

(* ---------- _read_metrics groups the entry stream by metric name ---------- *)
Section ReadProofs.
  Variable F : Type.
  Variable fzero : F.
  Notation file := (file F).
  Notation fentry := (fentry F).
  Notation read_upd := (read_upd F fzero).
  Notation sample_of := (sample_of F fzero).
  Notation mode_after := (mode_after F).

  Lemma all_entries_stream (files : list file) :
    all_entries F files = map (fun fe : fentry => (k_metric (fst (snd fe)), fe)) (stream F files).
  Proof.
    unfold all_entries, stream. induction files as [|f r IH]; cbn [flat_map map]; [reflexivity|].
    rewrite map_app, IH. f_equal. rewrite map_map. reflexivity.
  Qed.

  Lemma kfold_read_Some (es : list fentry) : forall m,
    kfold read_upd (Some m) es
    = Some (mkMetric F (m_name F m) (m_help F m) (m_typ F m) (mode_after (m_mode F m) es)
              (m_samples F m ++ map sample_of es)).
  Proof.
    induction es as [|[f [k [v ts]]] r IH]; intros m; cbn [kfold map fold_left].
    - unfold MultiprocSpec.mode_after. cbn [fold_left]. rewrite app_nil_r. destruct m; reflexivity.
    - rewrite IH. unfold Multiproc.read_upd, MultiprocSpec.mode_after, MultiprocSpec.sample_of, is_gauge_file.
      cbn [fold_left fst]. destruct (str_eqb (f_typ F f) S_gauge); cbn [m_name m_help m_typ m_mode m_samples];
        rewrite <- app_assoc; reflexivity.
  Qed.

  Definition metric_of (es : list fentry) : option (metric F) :=
    match es with
    | [] => None
    | (f0, (k0, _)) :: _ =>
        Some (mkMetric F (k_metric k0) (k_help k0) (f_typ F f0) (mode_after [] es) (map sample_of es))
    end.

  Lemma kfold_read_None (es : list fentry) : kfold read_upd None es = metric_of es.
  Proof.
    destruct es as [|[f0 [k0 [v0 ts0]]] r]; [reflexivity|].
    change (kfold read_upd None ((f0, (k0, (v0, ts0))) :: r))
      with (kfold read_upd (Some (mkMetric F (k_metric k0) (k_help k0) (f_typ F f0) [] [])) ((f0, (k0, (v0, ts0))) :: r)).
    rewrite kfold_read_Some. reflexivity.
  Qed.

  Let ST_sym := L_sym str_eqb str_eqb_eq.
  Let ST_trans := L_trans str_eqb str_eqb_eq.

  Lemma read_metrics_find (files : list file) (mname : str) :
    d_find str_eqb (read_metrics F fzero files) mname = metric_of (entries_of F mname files).
  Proof.
    unfold read_metrics.
    rewrite (dfold_find str_eqb PT ST_sym ST_trans read_upd _ [] mname (PK_T _) (PI_T _) I).
    rewrite all_entries_stream, (vals_of_map str_eqb (fun fe : fentry => k_metric (fst (snd fe))) (fun fe => fe)).
    rewrite map_id. cbn [d_find]. apply kfold_read_None.
  Qed.

  Lemma read_metrics_NoDup (files : list file) : NoDup (map fst (read_metrics F fzero files)).
  Proof.
    apply (NoDupK_NoDup str_eqb str_eqb_eq).
    apply (dfold_NoDupK str_eqb PT ST_sym ST_trans read_upd _ [] (PK_T _) (PI_T _)). constructor.
  Qed.

  Lemma read_metrics_In (files : list file) n m :
    In (n, m) (read_metrics F fzero files) <-> metric_of (entries_of F n files) = Some m.
  Proof.
    rewrite <- read_metrics_find. split.
    - apply (In_d_find str_eqb str_eqb_eq).
      apply (dfold_NoDupK str_eqb PT ST_sym ST_trans read_upd _ [] (PK_T _) (PI_T _)). constructor.
    - apply (d_find_In str_eqb str_eqb_eq).
  Qed.

  Lemma entries_of_metric n files f k x r : entries_of F n files = (f, (k, x)) :: r -> k_metric k = n.
  Proof.
    intros H.
    assert (Hin : In (f, (k, x)) (entries_of F n files)) by (rewrite H; left; reflexivity).
    unfold entries_of in Hin.
    apply filter_In in Hin as [_ Hin]. cbn [fst snd] in Hin. apply str_eqb_eq in Hin. congruence.
  Qed.
End ReadProofs.

(* ---------- mark_process_dead ---------- *)
Lemma mark_dead_spec pid dir n :
  In n (mark_dead pid dir) <-> In n dir /\ ~ exists m, In m LIVE_MODES /\ n = gauge_fname m pid.
Proof.
  unfold mark_dead. rewrite filter_In. split; intros [H1 H2]; split; try assumption.
  - intros [m [Hm ->]]. apply negb_true_iff in H2.
    assert (mem_str (gauge_fname m pid) (map (fun m0 => gauge_fname m0 pid) LIVE_MODES) = true)
      by (apply mem_str_In, in_map_iff; exists m; auto).
    congruence.
  - apply negb_true_iff. destruct (mem_str n _) eqn:E; [|reflexivity].
    exfalso. apply H2. apply mem_str_In, in_map_iff in E as [m [<- Hm]]. exists m; auto.
Qed.

Lemma mark_dead_order pid dir : exists keep, mark_dead pid dir = filter keep dir.
Proof. eexists; reflexivity. Qed.

(* ---------- min / max do not depend on the read order (NaN-free contributions) ---------- *)
Section Order.
  Variable F : Type.
  Variable flt : F -> F -> bool.
  Variable feqb : F -> F -> bool.
  Variable fin : F -> Prop.                       (* not NaN *)
  Hypothesis flt_irrefl : forall a, flt a a = false.
  Hypothesis flt_trans : forall a b c, flt a b = true -> flt b c = true -> flt a c = true.
  Hypothesis flt_negtrans : forall a b c, fin c -> flt a b = true -> flt a c = true \/ flt c b = true.
  Hypothesis flt_total : forall a b, fin a -> fin b -> flt a b = false -> flt b a = false -> feqb a b = true.

  Notation pick_min := (pick_min F flt).
  Notation pick_max := (pick_max F flt).

  Lemma min_fold_in l : forall c, In (fold_left pick_min l c) (c :: l).
  Proof.
    induction l as [|v l IH]; intros c; cbn [fold_left]; [left; reflexivity|].
    destruct (IH (pick_min c v)) as [H|H]; [|right; right; exact H].
    rewrite <- H. unfold MultiprocSpec.pick_min. destruct (flt v c); [right; left|left]; reflexivity.
  Qed.

  Lemma min_fold_lb l : forall c, Forall fin (c :: l) ->
    forall x, In x (c :: l) -> flt x (fold_left pick_min l c) = false.
  Proof.
    induction l as [|v l IH]; intros c Hf x Hx; cbn [fold_left].
    - destruct Hx as [<-|[]]. apply flt_irrefl.
    - inversion Hf as [|? ? Fc Hf']; subst. inversion Hf' as [|? ? Fv Fl]; subst.
      assert (Fp : Forall fin (pick_min c v :: l))
        by (constructor; [unfold MultiprocSpec.pick_min; destruct (flt v c); assumption | exact Fl]).
      pose proof (IH _ Fp) as Hlb. set (r := fold_left pick_min l (pick_min c v)) in *.
      assert (Hp : flt (pick_min c v) r = false) by (apply Hlb; left; reflexivity).
      destruct Hx as [Hx|[Hx|Hx]]; [subst x|subst x|apply Hlb; right; exact Hx].
      + unfold MultiprocSpec.pick_min in Hp. destruct (flt v c) eqn:E; [|exact Hp].
        destruct (flt c r) eqn:E2; [|reflexivity]. rewrite (flt_trans _ _ _ E E2) in Hp. discriminate.
      + unfold MultiprocSpec.pick_min in Hp. destruct (flt v c) eqn:E; [exact Hp|].
        destruct (flt v r) eqn:E2; [|reflexivity].
        destruct (flt_negtrans v r c Fc E2) as [H|H]; congruence.
  Qed.

  Lemma max_fold_in l : forall c, In (fold_left pick_max l c) (c :: l).
  Proof.
    induction l as [|v l IH]; intros c; cbn [fold_left]; [left; reflexivity|].
    destruct (IH (pick_max c v)) as [H|H]; [|right; right; exact H].
    rewrite <- H. unfold MultiprocSpec.pick_max. destruct (flt c v); [right; left|left]; reflexivity.
  Qed.

  Lemma max_fold_ub l : forall c, Forall fin (c :: l) ->
    forall x, In x (c :: l) -> flt (fold_left pick_max l c) x = false.
  Proof.
    induction l as [|v l IH]; intros c Hf x Hx; cbn [fold_left].
    - destruct Hx as [<-|[]]. apply flt_irrefl.
    - inversion Hf as [|? ? Fc Hf']; subst. inversion Hf' as [|? ? Fv Fl]; subst.
      assert (Fp : Forall fin (pick_max c v :: l))
        by (constructor; [unfold MultiprocSpec.pick_max; destruct (flt c v); assumption | exact Fl]).
      pose proof (IH _ Fp) as Hub. set (r := fold_left pick_max l (pick_max c v)) in *.
      assert (Hp : flt r (pick_max c v) = false) by (apply Hub; left; reflexivity).
      destruct Hx as [Hx|[Hx|Hx]]; [subst x|subst x|apply Hub; right; exact Hx].
      + unfold MultiprocSpec.pick_max in Hp. destruct (flt c v) eqn:E; [|exact Hp].
        destruct (flt r c) eqn:E2; [|reflexivity]. rewrite (flt_trans _ _ _ E2 E) in Hp. discriminate.
      + unfold MultiprocSpec.pick_max in Hp. destruct (flt c v) eqn:E; [exact Hp|].
        destruct (flt r v) eqn:E2; [|reflexivity].
        destruct (flt_negtrans r v c Fc E2) as [H|H]; congruence.
  Qed.

  (* the reported minimum is a contribution and no contribution is smaller *)
  Lemma agg_min_least l r : Forall fin l -> agg_min F flt l = Some r ->
    In r l /\ forall x, In x l -> flt x r = false.
  Proof.
    destruct l as [|c l]; [discriminate|]. intros Hf H. inversion H; subst.
    split; [apply min_fold_in | apply min_fold_lb, Hf].
  Qed.
  Lemma agg_max_greatest l r : Forall fin l -> agg_max F flt l = Some r ->
    In r l /\ forall x, In x l -> flt r x = false.
  Proof.
    destruct l as [|c l]; [discriminate|]. intros Hf H. inversion H; subst.
    split; [apply max_fold_in | apply max_fold_ub, Hf].
  Qed.

  Definition same_opt (a b : option F) : Prop :=
    match a, b with
    | None, None => True
    | Some x, Some y => feqb x y = true
    | _, _ => False
    end.

  Lemma agg_min_perm l l' : Permutation l l' -> Forall fin l -> same_opt (agg_min F flt l) (agg_min F flt l').
  Proof.
    intros Hp Hf.
    assert (Hf' : Forall fin l') by (eapply Permutation_Forall; eassumption).
    destruct (agg_min F flt l) as [r|] eqn:E, (agg_min F flt l') as [r'|] eqn:E'; cbn [same_opt]; auto.
    - destruct (agg_min_least _ _ Hf E) as [Hin Hlb], (agg_min_least _ _ Hf' E') as [Hin' Hlb'].
      apply flt_total.
      + eapply Forall_forall in Hf; eassumption.
      + eapply Forall_forall in Hf'; eassumption.
      + apply Hlb'. eapply Permutation_in; eassumption.
      + apply Hlb. eapply Permutation_in; [apply Permutation_sym|]; eassumption.
    - destruct l' as [|? ?]; [|discriminate]. apply Permutation_sym, Permutation_nil in Hp. subst; discriminate.
    - destruct l as [|? ?]; [|discriminate]. apply Permutation_nil in Hp. subst; discriminate.
  Qed.

  Lemma agg_max_perm l l' : Permutation l l' -> Forall fin l -> same_opt (agg_max F flt l) (agg_max F flt l').
  Proof.
    intros Hp Hf.
    assert (Hf' : Forall fin l') by (eapply Permutation_Forall; eassumption).
    destruct (agg_max F flt l) as [r|] eqn:E, (agg_max F flt l') as [r'|] eqn:E'; cbn [same_opt]; auto.
    - destruct (agg_max_greatest _ _ Hf E) as [Hin Hub], (agg_max_greatest _ _ Hf' E') as [Hin' Hub'].
      apply flt_total.
      + eapply Forall_forall in Hf; eassumption.
      + eapply Forall_forall in Hf'; eassumption.
      + apply Hub. eapply Permutation_in; [apply Permutation_sym|]; eassumption.
      + apply Hub'. eapply Permutation_in; eassumption.
    - destruct l' as [|? ?]; [|discriminate]. apply Permutation_sym, Permutation_nil in Hp. subst; discriminate.
    - destruct l as [|? ?]; [|discriminate]. apply Permutation_nil in Hp. subst; discriminate.
  Qed.
End Order.

(* ---------- the whole merge ---------- *)
Section Top.
  Variable F : Type.
  Variable fzero : F.
  Variable fadd : F -> F -> F.
  Variable flt : F -> F -> bool.
  Variable feqb : F -> F -> bool.
  Variable parse_le : str -> F.
  Variable fmt_le : F -> str.

  Notation merge := (merge F fzero fadd flt feqb parse_le fmt_le).
  Notation accumulate := (accumulate F fzero fadd flt feqb parse_le fmt_le).
  Notation spec_series := (spec_series F fzero fadd flt feqb parse_le fmt_le).
  Notation hist_writes := (hist_writes F fzero fadd flt feqb parse_le fmt_le).

  Let SK_sym := L_sym skey_eqb skey_eqb_eq.
  Let SK_trans := L_trans skey_eqb skey_eqb_eq.

  Lemma acc_histogram_spec mname ss k :
    d_find skey_eqb (acc_histogram F fzero fadd flt feqb parse_le fmt_le mname ss) k
    = find_last skey_eqb (hist_writes mname ss) k
        (spec_plain F fzero fadd (filter (fun s => negb (has_le F s)) ss) k).
  Proof.
    unfold acc_histogram.
    rewrite (set_all_find skey_eqb PT SK_sym SK_trans _ _ k (PK_T _) (PI_T _) I), acc_plain_spec. reflexivity.
  Qed.

  Lemma acc_histogram_NoDup mname ss :
    NoDup (map fst (acc_histogram F fzero fadd flt feqb parse_le fmt_le mname ss)).
  Proof.
    apply (NoDupK_NoDup skey_eqb skey_eqb_eq). unfold acc_histogram.
    apply (set_all_NoDupK skey_eqb PT SK_sym SK_trans _ _ (PK_T _) (PI_T _)).
    apply (dfold_NoDupK skey_eqb PT SK_sym SK_trans _ _ [] (PK_T _) (PI_T _)). constructor.
  Qed.

  Lemma accumulate_spec m k :
    d_find skey_eqb (accumulate m) k = spec_series (m_typ F m) (m_mode F m) (m_name F m) (m_samples F m) k.
  Proof.
    unfold Multiproc.accumulate, MultiprocSpec.spec_series.
    destruct (str_eqb (m_typ F m) S_gauge); [apply acc_gauge_spec|].
    destruct (str_eqb (m_typ F m) S_histogram); [apply acc_histogram_spec | apply acc_plain_spec].
  Qed.

  Lemma accumulate_NoDup m : NoDup (map fst (accumulate m)).
  Proof.
    unfold Multiproc.accumulate.
    destruct (str_eqb (m_typ F m) S_gauge); [apply acc_gauge_NoDup|].
    destruct (str_eqb (m_typ F m) S_histogram); [apply acc_histogram_NoDup | apply acc_plain_NoDup].
  Qed.

  Lemma merge_In files n h t ss :
    In (n, h, t, ss) (merge files) <->
    exists m, metric_of F fzero (entries_of F n files) = Some m
              /\ (n, h, t, ss) = (m_name F m, m_help F m, m_typ F m, accumulate m).
  Proof.
    unfold Multiproc.merge. rewrite in_map_iff. split.
    - intros [[n' m] [Heq Hin]]. cbn [snd] in Heq. exists m. split; [|symmetry; exact Heq].
      apply read_metrics_In in Hin.
      assert (n' = n); [|subst; exact Hin].
      unfold metric_of in Hin. destruct (entries_of F n' files) as [|[f0 [k0 x0]] r] eqn:E; [discriminate|].
      inversion Hin; subst m. cbn [m_name] in Heq. inversion Heq; subst.
      symmetry. eapply entries_of_metric. exact E.
    - intros [m [Hm Heq]]. exists (n, m). split; [symmetry; exact Heq | apply read_metrics_In; exact Hm].
  Qed.

  (* C08_aggregate_refines_spec + no family duplicated or dropped *)
  Theorem merge_refines files n :
    match entries_of F n files with
    | [] => forall h t ss, ~ In (n, h, t, ss) (merge files)
    | ((f0, (k0, _)) :: _) as es =>
        exists ss, In (n, k_help k0, f_typ F f0, ss) (merge files)
          /\ NoDup (map fst ss)
          /\ (forall h t ss', In (n, h, t, ss') (merge files) -> (h, t, ss') = (k_help k0, f_typ F f0, ss))
          /\ forall k, d_find skey_eqb ss k
                       = spec_series (f_typ F f0) (mode_after F [] es) n (map (sample_of F fzero) es) k
    end.
  Proof.
    destruct (entries_of F n files) as [|[f0 [k0 x0]] r] eqn:E.
    - intros h t ss Hin. apply merge_In in Hin as [m [Hm _]]. rewrite E in Hm. discriminate.
    - pose proof (entries_of_metric F n files f0 k0 x0 r E) as Hn.
      set (es := (f0, (k0, x0)) :: r) in *.
      set (m := mkMetric F (k_metric k0) (k_help k0) (f_typ F f0) (mode_after F [] es) (map (sample_of F fzero) es)).
      assert (Hm : metric_of F fzero (entries_of F n files) = Some m) by (rewrite E; reflexivity).
      exists (accumulate m). split; [|split; [apply accumulate_NoDup|split]].
      + apply merge_In. exists m. split; [exact Hm|]. subst m. cbn [m_name m_help m_typ]. rewrite Hn. reflexivity.
      + intros h t ss' Hin. apply merge_In in Hin as [m' [Hm' Heq]]. rewrite Hm in Hm'. inversion Hm'; subst m'.
        inversion Heq; subst. reflexivity.
      + intros k. rewrite accumulate_spec. subst m. cbn [m_name m_help m_typ m_mode m_samples]. rewrite Hn. reflexivity.
  Qed.
End Top.

(* ---------- order independence lifted to samples and files ---------- *)
Lemma Permutation_filter' {A} (f : A -> bool) l l' : Permutation l l' -> Permutation (filter f l) (filter f l').
Proof.
  induction 1 as [|x l l' H IH|x y l|l l' l'' H1 IH1 H2 IH2]; cbn [filter].
  - constructor.
  - destruct (f x); [constructor|]; exact IH.
  - destruct (f x), (f y); try apply Permutation_refl. apply perm_swap.
  - eapply Permutation_trans; eassumption.
Qed.

Section OrderTop.
  Variable F : Type.
  Variable fzero : F.
  Variable fadd : F -> F -> F.
  Variable flt : F -> F -> bool.
  Variable feqb : F -> F -> bool.
  Variable fin : F -> Prop.
  Hypothesis flt_irrefl : forall a, flt a a = false.
  Hypothesis flt_trans : forall a b c, flt a b = true -> flt b c = true -> flt a c = true.
  Hypothesis flt_negtrans : forall a b c, fin c -> flt a b = true -> flt a c = true \/ flt c b = true.
  Hypothesis flt_total : forall a b, fin a -> fin b -> flt a b = false -> flt b a = false -> feqb a b = true.

  Lemma entries_perm (files files' : list (file F)) n :
    Permutation files files' -> Permutation (entries_of F n files) (entries_of F n files').
  Proof. intros H. unfold entries_of, stream. apply Permutation_filter', Permutation_flat_map, H. Qed.

  Lemma gauge_min_max_perm mode (ss ss' : list (sample F)) k :
    Permutation ss ss' -> Forall (fun s => fin (s_value F s)) ss ->
    is_mode M_min M_livemin mode = true \/ is_mode M_max M_livemax mode = true ->
    same_opt F feqb (spec_gauge F fzero fadd flt feqb mode ss k) (spec_gauge F fzero fadd flt feqb mode ss' k).
  Proof.
    intros Hp Hf Hm.
    assert (Hpc : Permutation (map (s_value F) (contribs F (without_pid F) ss k))
                              (map (s_value F) (contribs F (without_pid F) ss' k)))
      by (apply Permutation_map, Permutation_filter', Hp).
    assert (Hfc : Forall fin (map (s_value F) (contribs F (without_pid F) ss k))).
    { apply Forall_forall. intros x Hx. apply in_map_iff in Hx as [s [<- Hs]].
      apply filter_In in Hs as [Hs _]. eapply Forall_forall in Hf; eassumption. }
    unfold spec_gauge. destruct (is_mode M_min M_livemin mode).
    - apply (agg_min_perm F flt feqb fin flt_irrefl flt_trans flt_negtrans flt_total); assumption.
    - destruct Hm as [Hm|Hm]; [discriminate|]. rewrite Hm.
      apply (agg_max_perm F flt feqb fin flt_irrefl flt_trans flt_negtrans flt_total); assumption.
  Qed.

  (* C08_min_max_order_independent: the files may be read in any order *)
  Theorem min_max_order_independent (files files' : list (file F)) n mode k :
    Permutation files files' ->
    (forall f e, In f files -> In e (f_entries F f) -> fin (fst (snd e))) ->
    is_mode M_min M_livemin mode = true \/ is_mode M_max M_livemax mode = true ->
    same_opt F feqb
      (spec_gauge F fzero fadd flt feqb mode (map (sample_of F fzero) (entries_of F n files)) k)
      (spec_gauge F fzero fadd flt feqb mode (map (sample_of F fzero) (entries_of F n files')) k).
  Proof.
    intros Hp Hfin Hm. apply gauge_min_max_perm; [apply Permutation_map, entries_perm, Hp | | exact Hm].
    apply Forall_forall. intros s Hs. apply in_map_iff in Hs as [[f [k0 [v ts]]] [<- Hin]].
    unfold entries_of in Hin. apply filter_In in Hin as [Hin _]. unfold stream in Hin.
    apply in_flat_map in Hin as [f' [Hf' Hin]]. apply in_map_iff in Hin as [e [He Hin]]. inversion He; subst.
    specialize (Hfin _ _ Hf' Hin). cbn [fst snd] in Hfin.
    unfold sample_of. destruct (is_gauge_file F f); exact Hfin.
  Qed.
End OrderTop.

(* ---------- which series exist: no series is invented, duplicated or dropped ---------- *)
Section Presence00.
  Variable F : Type.
  Notation sample := (sample F).
  Lemma contribs_nil_iff (keyf : sample -> skey) ss k : contribs F keyf ss k = [] <-> ~ In k (map keyf ss).
  Proof.
    unfold contribs. induction ss as [|s r IH]; cbn [filter map In]; [tauto|].
    destruct (skey_eqb k (keyf s)) eqn:E.
    - apply skey_eqb_eq in E. split; [discriminate | intros H; exfalso; apply H; left; auto].
    - rewrite IH. split; [intros H [H1|H1]; [subst; rewrite (proj2 (skey_eqb_eq _ _) eq_refl) in E; discriminate|auto] | tauto].
  Qed.

  Lemma map_nil_iff {A B} (f : A -> B) l : map f l = [] <-> l = [].
  Proof. destruct l; cbn; split; intros; try reflexivity; discriminate. Qed.

  Lemma skey_in_dec (k : skey) l : {In k l} + {~ In k l}.
  Proof.
    apply in_dec. intros a b. destruct (skey_eqb a b) eqn:E.
    - left. apply skey_eqb_eq, E.
    - right. intros ->. rewrite (proj2 (skey_eqb_eq b b) eq_refl) in E. discriminate.
  Qed.

  Lemma agg_present (agg : list F -> option F) (keyf : sample -> skey) ss k :
    (forall l, agg l = None <-> l = []) ->
    agg (map (s_value F) (contribs F keyf ss k)) <> None <-> In k (map keyf ss).
  Proof.
    intros Hagg. rewrite Hagg, map_nil_iff, contribs_nil_iff.
    destruct (skey_in_dec k (map keyf ss)); tauto.
  Qed.

End Presence00.

Section Presence0.
  Variable F : Type.
  Variable fzero : F.
  Variable fadd : F -> F -> F.
  Notation sample := (sample F).
  Lemma plain_present ss k : spec_plain F fzero fadd ss k <> None <-> In k (map (full_key F) ss).
  Proof.
    unfold spec_plain, agg_sum.
    destruct (map (s_value F) (contribs F (full_key F) ss k)) eqn:E.
    - apply map_nil_iff, contribs_nil_iff in E. tauto.
    - split; [intros _|discriminate].
      destruct (in_dec (fun a b => match Bool.bool_dec (skey_eqb a b) true with
                                   | left e => left (proj1 (skey_eqb_eq a b) e)
                                   | right ne => right (fun e => ne (proj2 (skey_eqb_eq a b) e)) end)
                       k (map (full_key F) ss)) as [Hin|Hn]; [exact Hin|].
      apply contribs_nil_iff in Hn. rewrite Hn in E. discriminate.
  Qed.

End Presence0.

Section Presence.
  Variable F : Type.
  Variable fzero : F.
  Variable fadd : F -> F -> F.
  Variable flt : F -> F -> bool.
  Variable feqb : F -> F -> bool.
  Notation sample := (sample F).

  (* the key under which a gauge sample is aggregated *)
  Definition gauge_keyf (mode : str) : sample -> skey :=
    if is_mode M_min M_livemin mode || is_mode M_max M_livemax mode || is_mode M_sum M_livesum mode
       || is_mode M_mostrecent M_livemostrecent mode
    then without_pid F else full_key F.

  Lemma gauge_present mode ss k : is_mode M_mostrecent M_livemostrecent mode = false ->
    spec_gauge F fzero fadd flt feqb mode ss k <> None <-> In k (map (gauge_keyf mode) ss).
  Proof.
    intros Hmr. unfold spec_gauge, gauge_keyf. rewrite Hmr.
    destruct (is_mode M_min M_livemin mode); cbn [orb].
    { apply agg_present. intros [|? ?]; cbn; split; intros; try reflexivity; discriminate. }
    destruct (is_mode M_max M_livemax mode); cbn [orb].
    { apply agg_present. intros [|? ?]; cbn; split; intros; try reflexivity; discriminate. }
    destruct (is_mode M_sum M_livesum mode); cbn [orb].
    { apply agg_present. intros [|? ?]; cbn; split; intros; try reflexivity; discriminate. }
    apply agg_present. intros [|? ?]; cbn; split; intros; try reflexivity; discriminate.
  Qed.

  (* mostrecent: a series is reported iff some contribution has a set-time > 0; never invented *)
  Notation mr_step := (mr_step F fzero flt feqb).
  Definition ts_pos (vt : F * F) : bool := flt fzero (ts_norm F fzero feqb (snd vt)).

  Lemma mr_fold_some l : forall v t, exists v' t', fold_left mr_step l (Some v, t) = (Some v', t').
  Proof.
    induction l as [|a r IH]; intros v t; cbn [fold_left]; [eauto|].
    unfold MultiprocSpec.mr_step at 2. cbn [fst snd]. destruct (flt t _); apply IH.
  Qed.

  Lemma agg_mr_none_iff l : agg_mr F fzero flt feqb l = None <-> Forall (fun vt => ts_pos vt = false) l.
  Proof.
    unfold agg_mr. induction l as [|a r IH]; cbn [fold_left]; [split; [constructor|reflexivity]|].
    unfold MultiprocSpec.mr_step at 2. cbn [fst snd]. fold (ts_pos a). destruct (ts_pos a) eqn:E.
    - split.
      + intros H. destruct (mr_fold_some r (fst a) (ts_norm F fzero feqb (snd a))) as [v' [t' Hf]].
        rewrite Hf in H. discriminate.
      + intros H. inversion H; subst. congruence.
    - rewrite IH. split; [intros H; constructor; assumption | intros H; inversion H; assumption].
  Qed.

  Lemma mostrecent_present mode ss k : is_mode M_min M_livemin mode = false -> is_mode M_max M_livemax mode = false ->
    is_mode M_sum M_livesum mode = false -> is_mode M_mostrecent M_livemostrecent mode = true ->
    spec_gauge F fzero fadd flt feqb mode ss k <> None <->
    exists s, In s ss /\ without_pid F s = k /\ ts_pos (s_value F s, s_ts F s) = true.
  Proof.
    intros H1 H2 H3 H4. unfold spec_gauge. rewrite H1, H2, H3, H4.
    split.
    - intros H. destruct (existsb ts_pos (map (fun s => (s_value F s, s_ts F s)) (contribs F (without_pid F) ss k))) eqn:E.
      + apply existsb_exists in E as [vt [Hin Hpos]]. apply in_map_iff in Hin as [s [<- Hs]].
        unfold contribs in Hs. apply filter_In in Hs as [Hs Hk]. apply skey_eqb_eq in Hk.
        exists s. auto.
      + exfalso. apply H. apply agg_mr_none_iff. apply Forall_forall. intros vt Hin.
        destruct (ts_pos vt) eqn:E2; [|reflexivity].
        assert (existsb ts_pos (map (fun s => (s_value F s, s_ts F s)) (contribs F (without_pid F) ss k)) = true)
          by (apply existsb_exists; eauto).
        congruence.
    - intros [s [Hs [Hk Hpos]]] Hn. apply agg_mr_none_iff in Hn.
      eapply Forall_forall in Hn.
      + rewrite Hn in Hpos. discriminate.
      + apply in_map_iff. exists s. split; [reflexivity|]. unfold contribs. apply filter_In. split; [exact Hs|].
        apply skey_eqb_eq. auto.
  Qed.
End Presence.

(* ---------- histogram: what is written for one group ---------- *)
Section Hist.
  Variable F : Type.
  Variable fzero : F.
  Variable fadd : F -> F -> F.
  Variable flt : F -> F -> bool.
  Variable fmt_le : F -> str.
  Notation cumulate := (cumulate F fadd fmt_le).
  Notation prefix_sums := (prefix_sums F fadd).
  Notation bucket_key := (bucket_key F fmt_le).

  Lemma cumulate_spec mname ls l : forall acc,
    cumulate mname ls acc l
    = (combine (map (bucket_key mname ls) (map fst l)) (prefix_sums acc (map snd l)),
       fold_left fadd (map snd l) acc).
  Proof.
    induction l as [|[b v] r IH]; intros acc; cbn [Multiproc.cumulate map fst snd combine MultiprocSpec.prefix_sums fold_left];
      [reflexivity|].
    rewrite IH. reflexivity.
  Qed.

  Lemma prefix_sums_last l : forall acc, last (prefix_sums acc l) acc = fold_left fadd l acc.
  Proof.
    induction l as [|v r IH]; intros acc; cbn [MultiprocSpec.prefix_sums fold_left]; [reflexivity|].
    rewrite <- IH. symmetry. apply last_cons_default.
  Qed.

  Lemma prefix_sums_nth l : forall acc i, (i < length l)%nat ->
    nth_error (prefix_sums acc l) i = Some (fold_left fadd (firstn (S i) l) acc).
  Proof.
    induction l as [|v r IH]; intros acc i Hi; cbn [length] in Hi; [inversion Hi|].
    destruct i as [|i]; cbn [MultiprocSpec.prefix_sums nth_error firstn fold_left].
    - destruct r; reflexivity.
    - apply IH. apply PeanoNat.Nat.succ_lt_mono. exact Hi.
  Qed.

  (* the writes for one group: the cumulative buckets in sorted bound order, then _count = the last of them *)
  Lemma bucket_writes_spec mname ls inner :
    let B := sort_b F flt inner in
    bucket_writes F fzero fadd flt fmt_le mname (ls, inner)
    = combine (map (bucket_key mname ls) (map fst B)) (prefix_sums fzero (map snd B))
      ++ [(count_key mname ls, last (prefix_sums fzero (map snd B)) fzero)].
  Proof.
    intros B. unfold bucket_writes. cbn [fst snd]. fold B. rewrite cumulate_spec, prefix_sums_last. reflexivity.
  Qed.

  Lemma insert_b_perm x l : Permutation (insert_b F flt x l) (x :: l).
  Proof.
    induction l as [|y r IH]; cbn [insert_b]; [apply Permutation_refl|].
    destruct (flt (fst x) (fst y)); [apply Permutation_refl|].
    eapply Permutation_trans; [apply perm_skip, IH | apply perm_swap].
  Qed.
  Lemma sort_b_perm l : Permutation (sort_b F flt l) l.
  Proof.
    induction l as [|x r IH]; cbn [sort_b]; [constructor|].
    eapply Permutation_trans; [apply insert_b_perm | apply perm_skip, IH].
  Qed.
End Hist.

(* ---------- histogram: lifting the writes of one group to lookups in the collector output ---------- *)
Lemma find_last_app {K V} (keq : K -> K -> bool) (l1 l2 : list (K * V)) k acc :
  find_last keq (l1 ++ l2) k acc = find_last keq l2 k (find_last keq l1 k acc).
Proof.
  revert acc; induction l1 as [|[k' v] r IH]; intros acc; cbn [app find_last]; [reflexivity | apply IH].
Qed.

Lemma find_last_none {K V} (keq : K -> K -> bool) (l : list (K * V)) k acc :
  (forall kv, In kv l -> keq k (fst kv) = false) -> find_last keq l k acc = acc.
Proof.
  revert acc; induction l as [|[k' v] r IH]; intros acc H; cbn [find_last]; [reflexivity|].
  pose proof (H (k', v) (or_introl eq_refl)) as H0. cbn [fst] in H0. rewrite H0.
  apply IH. intros kv Hkv. apply H. right; exact Hkv.
Qed.

(* a key that occurs exactly once among the assignments, at position i *)
Lemma find_last_unique {K V} (keq : K -> K -> bool) (keq_eq : forall a b, keq a b = true <-> a = b)
      (ks : list K) (vs : list V) : forall i k v acc, length ks = length vs -> NoDup ks ->
  nth_error ks i = Some k -> nth_error vs i = Some v -> find_last keq (combine ks vs) k acc = Some v.
Proof.
  revert vs; induction ks as [|k0 ks IH]; intros [|v0 vs] i k v acc Hl Hn Hk Hv;
    try (destruct i; discriminate); try discriminate.
  inversion Hn as [|? ? Hnot Hn']; subst. cbn [combine find_last].
  destruct i as [|i]; cbn [nth_error] in Hk, Hv.
  - inversion Hk; inversion Hv; subst. rewrite (proj2 (keq_eq k k) eq_refl).
    apply find_last_none. intros [k1 v1] Hin. cbn [fst].
    destruct (keq k k1) eqn:E; [|reflexivity]. apply keq_eq in E; subst.
    exfalso. apply Hnot. apply in_combine_l in Hin. exact Hin.
  - eapply IH; eauto.
Qed.

Section HistLift.
  Variable F : Type.
  Variable fzero : F.
  Variable fadd : F -> F -> F.
  Variable flt : F -> F -> bool.
  Variable feqb : F -> F -> bool.
  Variable parse_le : str -> F.
  Variable fmt_le : F -> str.
  Variable fin : F -> Prop.         (* a bound that is not NaN *)
  Hypothesis feqb_sym : forall a b, fin a -> fin b -> feqb a b = feqb b a.
  Hypothesis feqb_trans : forall a b c, fin a -> fin b -> fin c -> feqb a b = true -> feqb b c = true -> feqb a c = true.
  (* floatToGoString is injective on numerically different bounds (C13) *)
  Hypothesis fmt_le_inj : forall a b, fin a -> fin b -> fmt_le a = fmt_le b -> feqb a b = true.

  Notation sample := (sample F).
  Notation upd_sum := (upd_sum F fzero fadd).
  Notation upd_bucket := (upd_bucket F fzero fadd feqb).
  Notation hist_groups := (hist_groups F fzero fadd feqb parse_le).
  Notation hist_writes := (hist_writes F fzero fadd flt feqb parse_le fmt_le).
  Notation group_items := (group_items F parse_le).
  Notation bucket_key := (bucket_key F fmt_le).
  Notation bucket_writes := (bucket_writes F fzero fadd flt fmt_le).
  Notation prefix_sums := (prefix_sums F fadd).

  Lemma kfold_bucket_Some G : forall inner, kfold upd_bucket (Some inner) G = Some (dfold feqb upd_sum inner G).
  Proof.
    induction G as [|[b v] r IH]; intros inner; cbn [kfold dfold]; [reflexivity|]. rewrite IH. reflexivity.
  Qed.
  Lemma kfold_bucket_None G : kfold upd_bucket None G = match G with [] => None | _ => Some (dfold feqb upd_sum [] G) end.
  Proof.
    destruct G as [|[b v] r]; [reflexivity|].
    change (kfold upd_bucket None ((b, v) :: r)) with (kfold upd_bucket (Some []) ((b, v) :: r)).
    apply kfold_bucket_Some.
  Qed.

  Let LB_sym := L_sym labels_eqb labels_eqb_eq.
  Let LB_trans := L_trans labels_eqb labels_eqb_eq.

  (* the per-bound sums of group ls *)
  Lemma hist_groups_find ss ls :
    d_find labels_eqb (hist_groups ss) ls
    = match group_items ss ls with [] => None | G => Some (dfold feqb upd_sum [] G) end.
  Proof.
    unfold MultiprocSpec.hist_groups.
    rewrite (dfold_find labels_eqb PT LB_sym LB_trans upd_bucket _ [] ls (PK_T _) (PI_T _) I).
    cbn [d_find]. unfold MultiprocSpec.group_items. rewrite kfold_bucket_None.
    destruct (vals_of labels_eqb ls _); reflexivity.
  Qed.

  Lemma hist_groups_NoDup ss : NoDup (map fst (hist_groups ss)).
  Proof.
    apply (NoDupK_NoDup labels_eqb labels_eqb_eq).
    apply (dfold_NoDupK labels_eqb PT LB_sym LB_trans upd_bucket _ [] (PK_T _) (PI_T _)). constructor.
  Qed.

  (* bounds of one group: each merged bound holds the left-to-right sum of the values filed under it *)
  Lemma inner_find G b : Forall (fun bv => fin (fst bv)) G -> fin b ->
    d_find feqb (dfold feqb upd_sum [] G) b = agg_sum F fzero fadd (vals_of feqb b G).
  Proof.
    intros HG Hb.
    rewrite (dfold_find feqb fin feqb_sym feqb_trans upd_sum G [] b (Forall_nil _) HG Hb).
    cbn [d_find]. apply kfold_sum_None.
  Qed.

  Lemma inner_NoDupK G : Forall (fun bv => fin (fst bv)) G -> NoDupK feqb (dfold feqb upd_sum [] G).
  Proof. intros HG. apply (dfold_NoDupK feqb fin feqb_sym feqb_trans upd_sum G [] (Forall_nil _) HG). constructor. Qed.

  Lemma inner_PK G : Forall (fun bv => fin (fst bv)) G -> PK fin (dfold feqb upd_sum [] G).
  Proof. intros HG. apply (dfold_PK feqb fin upd_sum G [] (Forall_nil _) HG). Qed.

  (* keys of different kinds / groups never collide *)
  Lemma bucket_key_inj mname ls ls' b b' : bucket_key mname ls b = bucket_key mname ls' b' -> ls = ls' /\ fmt_le b = fmt_le b'.
  Proof.
    unfold MultiprocSpec.bucket_key. intros H. inversion H as [[H1]].
    apply app_inj_tail in H1 as [H1 H2]. inversion H2. auto.
  Qed.
  Lemma bucket_not_count mname ls ls' b : bucket_key mname ls b <> count_key mname ls'.
  Proof.
    unfold MultiprocSpec.bucket_key, count_key. intros H. inversion H as [[H1 H2]].
    apply app_inv_head in H1. vm_compute in H1. discriminate.
  Qed.

  Lemma writes_keys mname ls inner kv : In kv (bucket_writes mname (ls, inner)) ->
    (exists b, fst kv = bucket_key mname ls b) \/ fst kv = count_key mname ls.
  Proof.
    rewrite bucket_writes_spec. rewrite in_app_iff. intros [H|[<-|[]]]; [left|right; reflexivity].
    destruct kv as [k v]. apply in_combine_l in H. apply in_map_iff in H as [b [<- _]]. exists b. reflexivity.
  Qed.

  Lemma other_group_silent mname (groups : assoc labels (assoc F F)) ls k :
    ~ In ls (map fst groups) -> ((exists b, k = bucket_key mname ls b) \/ k = count_key mname ls) ->
    forall kv, In kv (flat_map (bucket_writes mname) groups) -> skey_eqb k (fst kv) = false.
  Proof.
    intros Hnot Hk kv Hin. apply in_flat_map in Hin as [[ls' inner'] [Hg Hin]].
    assert (Hne : ls <> ls') by (intros ->; apply Hnot, in_map_iff; exists (ls', inner'); auto).
    destruct (skey_eqb k (fst kv)) eqn:E; [|reflexivity]. apply skey_eqb_eq in E. exfalso.
    destruct (writes_keys _ _ _ _ Hin) as [[b' Hb']|Hc]; destruct Hk as [[b Hb]|Hc0]; subst k.
    - rewrite Hb' in E. apply bucket_key_inj in E as [E _]. contradiction.
    - rewrite Hb' in E. symmetry in E. exact (bucket_not_count _ _ _ _ E).
    - rewrite Hc in E. exact (bucket_not_count _ _ _ _ E).
    - rewrite Hc in E. unfold count_key in E. inversion E. contradiction.
  Qed.

  Lemma d_find_none_all {K V} (keq : K -> K -> bool) (d : assoc K V) k :
    d_find keq d k = None -> forall kv, In kv d -> keq k (fst kv) = false.
  Proof.
    induction d as [|[k0 v0] r IH]; cbn [d_find]; [intros _ ? []|].
    destruct (keq k k0) eqn:E; [discriminate|]. intros H kv [<-|Hin]; [exact E | apply IH; assumption].
  Qed.

  Lemma inner_fmt_NoDup (inner : assoc F F) : PK fin inner -> NoDupK feqb inner -> NoDup (map fmt_le (map fst inner)).
  Proof.
    intros HP Hn. induction Hn as [|b v r Hf Hn IH]; cbn [map fst]; [constructor|].
    inversion HP as [|? ? Pb Pr]; subst. cbn [fst] in Pb. constructor; [|apply IH, Pr].
    intros Hin. apply in_map_iff in Hin as [b' [Heq Hin]]. apply in_map_iff in Hin as [[b'' v'] [<- Hin]].
    cbn [fst] in Heq.
    assert (Pb' : fin b'') by (exact (proj1 (Forall_forall _ _) Pr (b'', v') Hin)).
    pose proof (d_find_none_all feqb r b Hf _ Hin) as Hne. cbn [fst] in Hne.
    rewrite (fmt_le_inj b b'' Pb Pb' (eq_sym Heq)) in Hne. discriminate.
  Qed.

  Lemma NoDup_map_inj {A B} (g : A -> B) l : (forall x y, g x = g y -> x = y) -> NoDup l -> NoDup (map g l).
  Proof.
    intros Hg Hn. induction Hn as [|x l Hx Hn IH]; cbn [map]; constructor; [|exact IH].
    intros Hin. apply in_map_iff in Hin as [y [Hy Hin]]. apply Hg in Hy. subst. contradiction.
  Qed.

  Lemma prefix_sums_length l : forall acc, length (prefix_sums acc l) = length l.
  Proof. induction l as [|v r IH]; intros acc; cbn [MultiprocSpec.prefix_sums length]; [reflexivity | rewrite IH; reflexivity]. Qed.

  (* C08 histogram, lifted: what the collector reports for the bucket and _count series of one label group *)
  Theorem hist_lookup mname ss ls :
    let G := group_items ss ls in
    let B := sort_b F flt (dfold feqb upd_sum [] G) in
    G <> [] -> Forall (fun bv => fin (fst bv)) G ->
    (forall i b, nth_error (map fst B) i = Some b ->
       d_find skey_eqb (acc_histogram F fzero fadd flt feqb parse_le fmt_le mname ss) (bucket_key mname ls b)
       = nth_error (prefix_sums fzero (map snd B)) i)
    /\ d_find skey_eqb (acc_histogram F fzero fadd flt feqb parse_le fmt_le mname ss) (count_key mname ls)
       = Some (last (prefix_sums fzero (map snd B)) fzero).
  Proof.
    intros G B HG Hfin.
    set (inner := dfold feqb upd_sum [] G) in *.
    assert (Hfind : d_find labels_eqb (hist_groups ss) ls = Some inner).
    { rewrite hist_groups_find. fold G. destruct G; [contradiction | reflexivity]. }
    apply (d_find_In labels_eqb labels_eqb_eq) in Hfind. apply in_split in Hfind as [g1 [g2 Hsplit]].
    pose proof (hist_groups_NoDup ss) as Hnd. rewrite Hsplit, map_app in Hnd. cbn [map fst] in Hnd.
    pose proof (NoDup_remove_2 _ _ _ Hnd) as Hnot. rewrite in_app_iff in Hnot.
    assert (Hw : hist_writes mname ss
                 = flat_map (bucket_writes mname) g1 ++ bucket_writes mname (ls, inner) ++ flat_map (bucket_writes mname) g2).
    { unfold MultiprocSpec.hist_writes. fold (hist_groups ss). rewrite Hsplit, flat_map_app. cbn [flat_map]. reflexivity. }
    assert (Hks : NoDup (map (bucket_key mname ls) (map fst B))).
    { assert (Hn1 : NoDup (map fmt_le (map fst B))).
      { eapply Permutation_NoDup; [|apply (inner_fmt_NoDup inner (inner_PK G Hfin) (inner_NoDupK G Hfin))].
        apply Permutation_map, Permutation_map, Permutation_sym, sort_b_perm. }
      rewrite <- (map_map fmt_le (fun s => (mname ++ S_bucket, ls ++ [(S_le, s)]))) .
      apply NoDup_map_inj; [|exact Hn1].
      intros x y H. inversion H as [[H1]]. apply app_inv_head in H1. inversion H1. reflexivity. }
    assert (Hlen : length (map (bucket_key mname ls) (map fst B)) = length (prefix_sums fzero (map snd B)))
      by (rewrite prefix_sums_length, !map_length; reflexivity).
    split.
    - intros i b Hb. rewrite acc_histogram_spec, Hw, !find_last_app.
      rewrite (find_last_none skey_eqb (flat_map (bucket_writes mname) g2)).
      2:{ apply (other_group_silent mname g2 ls); [tauto | left; exists b; reflexivity]. }
      rewrite bucket_writes_spec. fold B. rewrite find_last_app. cbn [find_last].
      destruct (skey_eqb (bucket_key mname ls b) (count_key mname ls)) eqn:E.
      { apply skey_eqb_eq in E. exfalso. exact (bucket_not_count _ _ _ _ E). }
      destruct (nth_error (prefix_sums fzero (map snd B)) i) as [v|] eqn:Ev.
      + eapply (find_last_unique skey_eqb skey_eqb_eq); eauto.
        rewrite nth_error_map, Hb. reflexivity.
      + exfalso. apply nth_error_None in Ev. rewrite <- Hlen, map_length in Ev.
        assert (i < length (map fst B))%nat by (apply nth_error_Some; congruence). lia.
    - rewrite acc_histogram_spec, Hw, !find_last_app.
      rewrite (find_last_none skey_eqb (flat_map (bucket_writes mname) g2)).
      2:{ apply (other_group_silent mname g2 ls); [tauto | right; reflexivity]. }
      rewrite bucket_writes_spec. fold B. rewrite find_last_app. cbn [find_last].
      rewrite (proj2 (skey_eqb_eq _ _) eq_refl). reflexivity.
  Qed.
End HistLift.

(* ---------- sorted(values.items()): the bounds come out in increasing order ---------- *)
From Coq Require Import Sorted.
Section SortB.
  Variable F : Type.
  Variable flt : F -> F -> bool.
  Hypothesis flt_irrefl : forall a, flt a a = false.
  Hypothesis flt_trans : forall a b c, flt a b = true -> flt b c = true -> flt a c = true.

  (* y does not come before x *)
  Definition bound_le (x y : F * F) : Prop := flt (fst y) (fst x) = false.

  Lemma insert_b_sorted x l : StronglySorted bound_le l -> StronglySorted bound_le (insert_b F flt x l).
  Proof.
    induction 1 as [|y r Hs IH Hall]; cbn [insert_b]; [repeat constructor|].
    destruct (flt (fst x) (fst y)) eqn:E.
    - constructor; [constructor; assumption|]. constructor.
      + unfold bound_le. destruct (flt (fst y) (fst x)) eqn:E2; [|reflexivity].
        pose proof (flt_trans _ _ _ E E2) as H0. rewrite flt_irrefl in H0. discriminate.
      + eapply Forall_impl; [|exact Hall]. intros z Hz. unfold bound_le in *.
        destruct (flt (fst z) (fst x)) eqn:E2; [|reflexivity]. rewrite (flt_trans _ _ _ E2 E) in Hz. discriminate.
    - constructor; [exact IH|].
      eapply Permutation_Forall; [apply Permutation_sym, insert_b_perm|]. constructor; [exact E | exact Hall].
  Qed.

  Lemma sort_b_sorted l : StronglySorted bound_le (sort_b F flt l).
  Proof. induction l as [|x r IH]; cbn [sort_b]; [constructor | apply insert_b_sorted, IH]. Qed.
End SortB.
