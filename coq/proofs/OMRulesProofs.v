(* C15, second part: the remaining validation rules of the OpenMetrics line loop (model/OMParser.v), proved for
   arbitrary oracles and every setting of the repair flags.
     (a) repeated / late metadata            (b) interleaved / clashing families     (c) units
     (d) repeated '# EOF'                    (e) histogram groups, every placement   (f) timestamps, lifted to documents
   Shape: a rule that fails on the offending line itself is a statement about om_step_line in the state the prefix
   leads to; a rule that fails when the family is closed (clash, unit, histogram) is an invariant of the state that no
   later line can repair (Doomed), so the final flush - or the flush forced by the next family - fails. *)
From V Require Import lib.PyBase lib.PyStr lib.Tac model.Validation model.Expo model.TextParser model.OMParser
  proofs.ScanFacts proofs.OMProofs proofs.OMRulesLines.
Ltac Zify.zify_post_hook ::= Z.to_euclidean_division_equations.
Open Scope N_scope.

Lemma is_err_not_ok {A} (r : res A) a : is_err r -> r = Ok a -> False.
Proof. intros [e H] E. congruence. Qed.

Lemma not_ok_is_err {A} (r : res A) : (forall a, r <> Ok a) -> is_err r.
Proof. destruct r as [a|e]; intro H; [exfalso; apply (H a); reflexivity | exists e; reflexivity]. Qed.

(* a line the loop hands to the sample reader / to the metadata reader *)
Definition is_sample_line (l : str) : bool := match l with c :: _ => negb (c =? HASH) | [] => false end.
Definition is_comment_line (l : str) : bool :=
  match l with c :: _ => (c =? HASH) && negb (str_eqb l OM_EOF) | [] => false end.

Section R.
  Variable legacy guard_fix fix_nhkeys fix_nhsfx fix_tsmix fix_isnan fix_unit fix_quote fix_tsexp fix_sname : bool.
  Variable NUM : Type.
  Variable parse_num parse_float : str -> option NUM.
  Variable parse_int : str -> option Z.
  Variable num_lt num_eqb : NUM -> NUM -> bool.
  Variable num_isinf num_integral num_huge : NUM -> bool.
  Variable num_zero num_one num_inf : NUM.
  Variable ts_float : Z -> Z -> option NUM.
  Variable is_word is_space_re is_digit_re : char -> bool.

  Notation step := (om_step_line legacy guard_fix fix_nhkeys fix_nhsfx fix_tsmix fix_isnan fix_unit fix_quote fix_tsexp fix_sname
                      NUM parse_num parse_float parse_int num_lt num_eqb num_isinf num_integral num_huge
                      num_zero num_one num_inf ts_float is_word is_space_re is_digit_re).
  Notation run := (om_run_lines legacy guard_fix fix_nhkeys fix_nhsfx fix_tsmix fix_isnan fix_unit fix_quote fix_tsexp fix_sname
                      NUM parse_num parse_float parse_int num_lt num_eqb num_isinf num_integral num_huge
                      num_zero num_one num_inf ts_float is_word is_space_re is_digit_re).
  Notation parse := (om_parse legacy guard_fix fix_nhkeys fix_nhsfx fix_tsmix fix_isnan fix_unit fix_quote fix_tsexp fix_sname
                      NUM parse_num parse_float parse_int num_lt num_eqb num_isinf num_integral num_huge
                      num_zero num_one num_inf ts_float is_word is_space_re is_digit_re).
  Notation prefix := (om_prefix legacy guard_fix fix_nhkeys fix_nhsfx fix_tsmix fix_isnan fix_unit fix_quote fix_tsexp fix_sname
                      NUM parse_num parse_float parse_int num_lt num_eqb num_isinf num_integral num_huge
                      num_zero num_one num_inf ts_float is_word is_space_re is_digit_re).
  Notation flush := (om_flush legacy NUM parse_float num_lt num_eqb num_zero num_inf).
  Notation build_metric := (om_build_metric legacy NUM parse_float num_lt num_eqb num_zero num_inf).
  Notation check_hist := (om_check_histogram NUM parse_float num_lt num_eqb num_zero num_inf).
  Notation hist_step := (om_check_hist_step NUM parse_float num_lt num_eqb num_zero num_inf).
  Notation hist_run := (om_check_hist_run NUM parse_float num_lt num_eqb num_zero num_inf).
  Notation do_checks := (om_do_checks NUM num_eqb num_inf).
  Notation meta_line := (om_meta_line legacy guard_fix fix_unit NUM parse_float num_lt num_eqb num_zero num_inf).
  Notation sample_line := (om_sample_line legacy guard_fix fix_nhkeys fix_nhsfx fix_tsmix fix_isnan fix_quote fix_tsexp fix_sname
                      NUM parse_num parse_float parse_int num_lt num_eqb num_isinf num_integral num_huge
                      num_zero num_one num_inf ts_float is_word is_space_re is_digit_re).
  Notation enter_family := (om_enter_family legacy guard_fix fix_nhsfx fix_sname NUM parse_float num_lt num_eqb num_zero num_inf).
  Notation implicit_name := (om_implicit_name guard_fix fix_sname NUM).
  Notation group_step := (om_group_step fix_tsmix NUM num_lt num_eqb ts_float).
  Notation read_sample := (om_read_sample legacy guard_fix fix_nhkeys fix_nhsfx fix_quote fix_tsexp fix_sname NUM parse_num parse_float
                             parse_int num_eqb num_isinf is_word is_space_re is_digit_re).
  Notation post_checks := (om_post_checks fix_isnan NUM num_lt num_eqb num_huge num_zero num_one).
  Notation pre_checks := (om_pre_checks NUM parse_float num_lt num_eqb num_integral num_zero num_one num_inf).
  Notation num_le := (om_num_le NUM num_lt num_eqb).
  Notation ts_eqb := (om_ts_eqb NUM num_eqb).
  Notation st0 := (@om_st_init NUM).
  Notation hinit := {| hs_group := None; hs_ts := None; hs_hv := @None (om_hv NUM) |}.

  (* ---------------- which reader a line goes to ---------------- *)
  Lemma sample_line_not_eof l : is_sample_line l = true -> str_eqb l OM_EOF = false.
  Proof.
    destruct l as [|c r]; [discriminate|]. cbn [is_sample_line]. intro H.
    unfold OM_EOF. cbn [str_eqb]. change HASH with 35 in H. destruct (c =? 35); [discriminate|reflexivity].
  Qed.

  Lemma step_sample_line st l :
    is_sample_line l = true -> st_eof st = false -> step st l = sample_line st l.
  Proof.
    intros H E. unfold om_step_line. rewrite E. pose proof (sample_line_not_eof l H) as N.
    destruct l as [|c r]; [discriminate|]. rewrite N. cbn [is_sample_line] in H.
    destruct (c =? HASH); [discriminate|reflexivity].
  Qed.

  Lemma step_comment_line st l :
    is_comment_line l = true -> st_eof st = false -> step st l = meta_line st l.
  Proof.
    intros H E. unfold om_step_line. rewrite E. destruct l as [|c r]; [discriminate|].
    cbn [is_comment_line] in H. apply andb_true_iff in H as [H1 H2].
    destruct (str_eqb (c :: r) OM_EOF); [discriminate|]. rewrite H1. reflexivity.
  Qed.

  Lemma step_err_sample st l : is_sample_line l = true -> is_err (sample_line st l) -> is_err (step st l).
  Proof.
    intros H K. destruct (st_eof st) eqn:E; [apply step_after_eof; exact E|].
    rewrite step_sample_line; auto.
  Qed.

  Lemma step_err_comment st l : is_comment_line l = true -> is_err (meta_line st l) -> is_err (step st l).
  Proof.
    intros H K. destruct (st_eof st) eqn:E; [apply step_after_eof; exact E|].
    rewrite step_comment_line; auto.
  Qed.

  (* the shape of a line step that succeeded *)
  Lemma step_ok_cases st l st' out :
    step st l = Ok (st', out) ->
    st_eof st = false /\
    ((l = OM_EOF /\ out = [] /\ st_name st' = st_name st /\ st_seen st' = st_seen st /\ st_typ st' = st_typ st /\
      st_unit st' = st_unit st /\ st_doc st' = st_doc st /\ st_samples st' = st_samples st /\
      st_allowed st' = st_allowed st /\ st_group st' = st_group st /\ st_gts st' = st_gts st)
     \/ (is_comment_line l = true /\ meta_line st l = Ok (st', out))
     \/ (is_sample_line l = true /\ sample_line st l = Ok (st', out))).
  Proof.
    unfold om_step_line. intro H. destruct (st_eof st); [discriminate|]. split; [reflexivity|].
    destruct l as [|c r]; [discriminate|].
    destruct (str_eqb (c :: r) OM_EOF) eqn:E.
    - left. apply str_eqb_eq in E. inversion H; subst. cbn. repeat split; auto.
    - destruct (c =? HASH) eqn:Ec.
      + right; left. split; [|exact H]. cbn [is_comment_line]. rewrite Ec, E. reflexivity.
      + right; right. split; [|exact H]. cbn [is_sample_line]. rewrite Ec. reflexivity.
  Qed.

  (* ---------------- a successful step either keeps the family in progress or closes it ---------------- *)
  (* no build_metric ran: name and seen names unchanged, fields only filled in, samples only appended *)
  Definition Keeps (st st' : om_st NUM) : Prop :=
    st_name st' = st_name st /\ st_seen st' = st_seen st /\
    (st_typ st' = st_typ st \/ st_typ st = None) /\
    (st_unit st' = st_unit st \/ st_unit st = None) /\
    (st_doc st' = st_doc st \/ st_doc st = None) /\
    (exists l, st_samples st' = l ++ st_samples st).
  (* build_metric succeeded on the family in progress and another family was opened *)
  Definition Flushed (st st' : om_st NUM) : Prop :=
    exists fams seen', flush st = Ok (fams, seen') /\ st_seen st' = seen' /\ exists n, st_name st' = Some n.

  Lemma Keeps_refl st : Keeps st st.
  Proof. unfold Keeps. repeat split; auto. exists []. reflexivity. Qed.

  Lemma Keeps_trans a b c : Keeps a b -> Keeps b c -> Keeps a c.
  Proof.
    intros (A1 & A2 & A3 & A4 & A5 & [la A6]) (B1 & B2 & B3 & B4 & B5 & [lb B6]). unfold Keeps.
    repeat split; try congruence.
    - destruct A3 as [X|X]; [|right; exact X]. destruct B3 as [Y|Y]; [left; congruence | right; congruence].
    - destruct A4 as [X|X]; [|right; exact X]. destruct B4 as [Y|Y]; [left; congruence | right; congruence].
    - destruct A5 as [X|X]; [|right; exact X]. destruct B5 as [Y|Y]; [left; congruence | right; congruence].
    - exists (lb ++ la). rewrite B6, A6, app_assoc. reflexivity.
  Qed.

  (* what a line that reads as  # kw name text  is: it starts with '#', _split_quoted gives at least four parts
     (so it is not '# EOF'), the second is kw, the third unquotes to the name, the fourth is the text *)
  Definition reads_meta (line kw cand p3 : str) : Prop :=
    exists p0 p2 rest quoted,
      (exists r, line = HASH :: r) /\
      split_quoted line [SP] 3 = Ok (p0 :: kw :: p2 :: p3 :: rest) /\
      unquote_unescape_with guard_fix p2 = Ok (cand, quoted).

  Lemma reads_meta_comment line kw cand p3 : reads_meta line kw cand p3 -> is_comment_line line = true.
  Proof.
    intros (p0 & p2 & rest & q & [r ->] & Hs & _). cbn [is_comment_line]. rewrite N.eqb_refl. cbn [andb].
    destruct (str_eqb (HASH :: r) OM_EOF) eqn:E; [|reflexivity].
    apply str_eqb_eq in E. rewrite E in Hs. vm_compute in Hs. discriminate.
  Qed.

  Lemma meta_line_reads st line st' out :
    meta_line st line = Ok (st', out) -> (exists r, line = HASH :: r) -> exists kw cand p3, reads_meta line kw cand p3.
  Proof.
    unfold om_meta_line. intro H. apply bind_ok in H as (parts & Hs & H).
    destruct parts as [|p0 [|kw [|p2 [|p3 rest]]]]; try discriminate.
    apply bind_ok in H as ([cand quoted] & Hu & H).
    intro Hh. exists kw, cand, p3, p0, p2, rest, quoted. auto.
  Qed.

  Ltac meta_kw H :=
    repeat match type of H with
           | (if ?c then _ else _) = Ok _ => let D := fresh "K" in destruct c eqn:D
           | (match ?x with Some _ => _ | None => _ end) = Ok _ => let D := fresh "F" in destruct x eqn:D
           end; try discriminate H; inversion H; subst; clear H.

  Lemma meta_line_cases st line st' out :
    meta_line st line = Ok (st', out) -> Flushed st st' \/ (Keeps st st' /\ out = []).
  Proof.
    unfold om_meta_line. intro H. apply bind_ok in H as (parts & Hs & H).
    destruct parts as [|p0 [|kw [|p2 [|p3 rest]]]]; try discriminate.
    apply bind_ok in H as ([cand quoted] & Hu & H).
    destruct (negb quoted && negb (is_valid_legacy_metric_name cand)); [discriminate|].
    destruct (om_opt_str_eqb (st_name st) cand) eqn:Same.
    - destruct (match st_samples st with [] => false | _ => true end) eqn:Sm; [discriminate|].
      assert (Hsm : st_samples st = []) by (destruct (st_samples st); [reflexivity|discriminate]).
      cbn [andb negb bind] in H. right.
      meta_kw H; (split; [|reflexivity]); unfold Keeps; cbn; repeat split; auto; exists []; reflexivity.
    - cbn [andb negb] in H. apply bind_ok in H as ([st1 out1] & H1 & H).
      apply bind_ok in H1 as ([fams seen'] & Hf & H1). inversion H1; subst st1 out1; clear H1. left.
      exists fams, seen'. split; [exact Hf|].
      meta_kw H; cbn; split; eauto.
  Qed.

  Lemma enter_family_cases st s b st' out :
    enter_family st s b = Ok (st', out) ->
    (exists fams seen' cand, flush st = Ok (fams, seen') /\ st_seen st' = seen' /\ st_name st' = Some cand /\
                             st_samples st' = [] /\ st_group st' = None /\ st_typ st' = Some OM_unknown /\
                             st_allowed st' = [os_name s] /\
                             b = false /\ mem_str (os_name s) (st_allowed st) = false /\
                             implicit_name s = Ok cand)
    \/ (st' = st /\ out = []).
  Proof.
    unfold om_enter_family. intro H.
    destruct (negb (mem_str (os_name s) (st_allowed st)) && negb (b && _)) eqn:C.
    - destruct b; [discriminate|].
      apply bind_ok in H as ([fams seen'] & Hf & H). apply bind_ok in H as (cand & Hu & H).
      inversion H; subst st' out; clear H. left. exists fams, seen', cand. cbn.
      apply andb_true_iff in C as [C1 _]. apply negb_true_iff in C1. repeat split; eauto.
    - inversion H; subst. right. auto.
  Qed.

  Lemma group_step_fields st name s st' :
    group_step st name s = Ok st' ->
    st_name st' = st_name st /\ st_seen st' = st_seen st /\ st_typ st' = st_typ st /\ st_unit st' = st_unit st /\
    st_doc st' = st_doc st /\ st_allowed st' = st_allowed st /\ st_eof st' = st_eof st /\
    (st_samples st' = st_samples st \/ st_samples st' = s :: st_samples st).
  Proof.
    unfold om_group_step. intros H. crack H; inversion H; subst; clear H; cbn; repeat split; auto;
      match goal with |- context[if ?c then _ else _] => destruct c; auto end.
  Qed.

  Lemma sample_line_cases st line st' out :
    sample_line st line = Ok (st', out) -> Flushed st st' \/ (Keeps st st' /\ out = []).
  Proof.
    unfold om_sample_line. intro H.
    apply bind_ok in H as ([s b] & Hr & H). apply bind_ok in H as ([st1 out1] & He & H).
    destruct (st_name st1) as [name|] eqn:Hn; [|discriminate].
    apply bind_ok in H as ([] & Hpre & H). apply bind_ok in H as (st2 & Hg & H).
    apply bind_ok in H as ([] & Hpost & H). inversion H; subst st2 out1; clear H.
    assert (G : st_name st' = st_name st1 /\ st_seen st' = st_seen st1 /\ st_typ st' = st_typ st1 /\
                st_unit st' = st_unit st1 /\ st_doc st' = st_doc st1 /\
                (st_samples st' = st_samples st1 \/ st_samples st' = s :: st_samples st1)).
    { destruct b; cbn [negb] in Hg.
      - inversion Hg; subst; cbn. repeat split; auto.
      - apply group_step_fields in Hg. tauto. }
    destruct G as (G1 & G2 & G3 & G4 & G5 & G6).
    apply enter_family_cases in He as [(fams & seen' & cand & Hf & Hs & Hc & _) | [-> ->]].
    - left. exists fams, seen'. split; [exact Hf|]. split; [congruence|]. exists cand. congruence.
    - right. split; [|reflexivity]. unfold Keeps. repeat split; auto.
      destruct G6 as [G6|G6]; [exists []; exact G6 | exists [s]; exact G6].
  Qed.

  Lemma step_cases st l st' out :
    step st l = Ok (st', out) -> Flushed st st' \/ (Keeps st st' /\ out = []).
  Proof.
    intro H. apply step_ok_cases in H as (_ & [H | [[_ H] | [_ H]]]).
    - right. destruct H as (_ & -> & A & B & C & D & E & F & _). split; [|reflexivity].
      unfold Keeps. repeat split; auto. exists []. exact F.
    - apply meta_line_cases in H. exact H.
    - apply sample_line_cases in H. exact H.
  Qed.

  (* ---------------- doomed states: an invariant that makes build_metric fail and that no line repairs -------- *)
  Section Doomed.
    Variable P : om_st NUM -> Prop.
    Hypothesis P_flush : forall st, P st -> is_err (flush st).
    Hypothesis P_keeps : forall st st', P st -> Keeps st st' -> P st'.

    Lemma doomed_step st l st' out : P st -> step st l = Ok (st', out) -> P st'.
    Proof.
      intros Hp H. apply step_cases in H as [(fams & seen' & Hf & _) | [K _]].
      - exfalso. eapply is_err_not_ok; [apply P_flush; exact Hp | exact Hf].
      - eapply P_keeps; eauto.
    Qed.

    Lemma doomed_run lines : forall st acc, P st -> is_err (run st lines acc).
    Proof.
      induction lines as [|l r IH]; intros st acc Hp; cbn [om_run_lines].
      - apply is_err_bind_l. apply P_flush. exact Hp.
      - apply is_err_bind. intros [st' out] E. cbn. apply IH. eapply doomed_step; eauto.
    Qed.

    Lemma doomed_document pre post st acc :
      prefix st0 pre [] = Ok (st, acc) -> P st -> is_err (run st0 (pre ++ post) []).
    Proof. intros E Hp. rewrite run_app, E. cbn. apply doomed_run. exact Hp. Qed.
  End Doomed.

  Lemma prefix_app st a b acc :
    prefix st (a ++ b) acc = do '(st', acc') <- prefix st a acc; prefix st' b acc'.
  Proof.
    revert st acc. induction a as [|l a IH]; intros st acc; cbn [app om_prefix]; [reflexivity|].
    destruct (step st l) as [[st' out]|e]; cbn [bind]; [apply IH | reflexivity].
  Qed.

  Lemma prefix_snoc st a l acc st' acc' :
    prefix st (a ++ [l]) acc = Ok (st', acc') ->
    exists st1 acc1 out, prefix st a acc = Ok (st1, acc1) /\ step st1 l = Ok (st', out) /\ acc' = acc1 ++ out.
  Proof.
    rewrite prefix_app. intro H. apply bind_ok in H as ([st1 acc1] & E & H). cbn [om_prefix] in H.
    apply bind_ok in H as ([st2 out] & E2 & H). inversion H; subst. eauto 7.
  Qed.

  (* =========================== (a) repeated or late metadata =========================== *)
  (* the field a metadata keyword fills is already filled (an unknown keyword is rejected outright) *)
  Definition meta_field (st : om_st NUM) (kw : str) : bool :=
    if str_eqb kw OM_HELP then (match st_doc st with Some _ => true | None => false end)
    else if str_eqb kw OM_TYPE then (match st_typ st with Some _ => true | None => false end)
    else if str_eqb kw OM_UNIT then (match st_unit st with Some _ => true | None => false end)
    else true.

  Lemma om_opt_str_eqb_refl n : om_opt_str_eqb (Some n) n = true.
  Proof. cbn. apply str_eqb_refl. Qed.

  (* a second HELP / TYPE / UNIT for the family in progress, or any metadata for it once it has samples *)
  Lemma meta_repeated_or_late_rejected st line kw n p3 :
    reads_meta line kw n p3 -> st_name st = Some n ->
    meta_field st kw = true \/ st_samples st <> [] ->
    is_err (meta_line st line).
  Proof.
    intros (p0 & p2 & rest & q & _ & Hs & Hu) Hn Hbad. unfold om_meta_line.
    rewrite Hs. cbn [bind]. rewrite Hu. cbn [bind].
    destruct (negb q && negb (is_valid_legacy_metric_name n)); [eauto with om|].
    rewrite Hn, om_opt_str_eqb_refl. cbn [andb negb].
    destruct (st_samples st) as [|s0 ss] eqn:Es; [|eauto with om].
    destruct Hbad as [Hf|Hf]; [|congruence]. cbn [bind]. unfold meta_field in Hf.
    destruct (str_eqb kw OM_HELP).
    { destruct (st_doc st); [eauto with om|discriminate]. }
    destruct (str_eqb kw OM_TYPE).
    { destruct (st_typ st); [eauto with om|discriminate]. }
    destruct (str_eqb kw OM_UNIT).
    { destruct (st_unit st); [eauto with om|discriminate]. }
    eauto with om.
  Qed.

  Lemma meta_step_rejected st line kw n p3 :
    reads_meta line kw n p3 -> st_name st = Some n ->
    meta_field st kw = true \/ st_samples st <> [] ->
    is_err (step st line).
  Proof.
    intros R Hn Hb. apply step_err_comment; [eapply reads_meta_comment; eauto|].
    eapply meta_repeated_or_late_rejected; eauto.
  Qed.

  (* a metadata line that was accepted: afterwards its family is in progress and its field is filled; a line for the
     family already in progress changes nothing else *)
  Lemma meta_line_after st line kw n p3 st' out :
    reads_meta line kw n p3 -> meta_line st line = Ok (st', out) ->
    st_name st' = Some n /\ meta_field st' kw = true /\
    (st_name st = Some n ->
       st_samples st' = st_samples st /\ st_seen st' = st_seen st /\ st_group st' = st_group st /\
       forall k, meta_field st k = true -> meta_field st' k = true).
  Proof.
    intros (p0 & p2 & rest & q & _ & Hs & Hu) H. unfold om_meta_line in H.
    rewrite Hs in H. cbn [bind] in H. rewrite Hu in H. cbn [bind] in H.
    destruct (negb q && negb (is_valid_legacy_metric_name n)); [discriminate|].
    destruct (om_opt_str_eqb (st_name st) n) eqn:Same.
    - destruct (match st_samples st with [] => false | _ => true end); [discriminate|].
      cbn [andb negb bind] in H.
      assert (Hn : st_name st = Some n).
      { destruct (st_name st) as [m|]; [|discriminate]. cbn in Same. apply str_eqb_eq in Same. congruence. }
      unfold meta_field.
      destruct (str_eqb kw OM_HELP) eqn:K1; [|destruct (str_eqb kw OM_TYPE) eqn:K2; [|destruct (str_eqb kw OM_UNIT) eqn:K3]].
      + destruct (st_doc st); [discriminate|]. inversion H; subst; clear H. cbn. rewrite ?K1.
        repeat split; auto. intros k Hk. destruct (str_eqb k OM_HELP); auto.
      + destruct (st_typ st); [discriminate|]. destruct (str_eqb p3 OM_untyped); [discriminate|].
        inversion H; subst; clear H. cbn. rewrite ?K1, ?K2.
        repeat split; auto. intros k Hk. destruct (str_eqb k OM_HELP); auto. destruct (str_eqb k OM_TYPE); auto.
      + destruct (st_unit st); [discriminate|]. inversion H; subst; clear H. cbn. rewrite ?K1, ?K2, ?K3.
        repeat split; auto. intros k Hk. destruct (str_eqb k OM_HELP); auto. destruct (str_eqb k OM_TYPE); auto.
        destruct (str_eqb k OM_UNIT); auto.
      + discriminate.
    - cbn [andb negb] in H. apply bind_ok in H as ([st1 out1] & H1 & H).
      apply bind_ok in H1 as ([fams seen'] & Hf & H1). inversion H1; subst st1 out1; clear H1.
      assert (Hne : st_name st <> Some n).
      { intro X. rewrite X in Same. rewrite om_opt_str_eqb_refl in Same. discriminate. }
      unfold meta_field.
      destruct (str_eqb kw OM_HELP) eqn:K1; [|destruct (str_eqb kw OM_TYPE) eqn:K2; [|destruct (str_eqb kw OM_UNIT) eqn:K3]];
        cbn in H; try discriminate.
      + inversion H; subst; clear H. cbn. rewrite ?K1. (split; [reflexivity|]; split; [reflexivity|]; intro; contradiction).
      + destruct (str_eqb p3 OM_untyped); [discriminate|]. inversion H; subst; clear H. cbn. rewrite ?K1, ?K2.
        (split; [reflexivity|]; split; [reflexivity|]; intro; contradiction).
      + inversion H; subst; clear H. cbn. rewrite ?K1, ?K2, ?K3. (split; [reflexivity|]; split; [reflexivity|]; intro; contradiction).
  Qed.

  Definition meta_for (n line : str) : Prop := exists kw p3, reads_meta line kw n p3.

  Lemma prefix_meta_same n kw mid : forall st acc st' acc',
    Forall (meta_for n) mid -> st_name st = Some n -> meta_field st kw = true ->
    prefix st mid acc = Ok (st', acc') ->
    st_name st' = Some n /\ meta_field st' kw = true /\ st_samples st' = st_samples st.
  Proof.
    induction mid as [|l r IH]; intros st acc st' acc' Hall Hn Hf H; cbn [om_prefix] in H.
    - inversion H; subst. auto.
    - inversion Hall as [|? ? (k & p3 & R) Hall']; subst.
      apply bind_ok in H as ([st1 out] & E & H).
      assert (E' : meta_line st l = Ok (st1, out)).
      { pose proof E as E0. apply step_ok_cases in E0 as (Eof & _).
        rewrite step_comment_line in E; [exact E | eapply reads_meta_comment; eauto | exact Eof]. }
      destruct (meta_line_after st l k n p3 st1 out R E') as (A & _ & B).
      destruct (B Hn) as (B1 & B2 & B3 & B4).
      destruct (IH st1 (acc ++ out) st' acc' Hall' A (B4 kw Hf) H) as (C1 & C2 & C3).
      repeat split; auto. congruence.
  Qed.

  (* document level: the same keyword twice for one family, only metadata of that family in between *)
  Lemma meta_repeated_document a m1 mid m2 b n kw p3 p3' :
    reads_meta m1 kw n p3 -> Forall (meta_for n) mid -> reads_meta m2 kw n p3' ->
    is_err (run st0 (a ++ m1 :: mid ++ m2 :: b) []).
  Proof.
    intros R1 Hmid R2.
    replace (a ++ m1 :: mid ++ m2 :: b) with ((a ++ [m1] ++ mid) ++ m2 :: b)
      by (rewrite <- !app_assoc; reflexivity).
    apply run_step_err_at. intros st acc E.
    rewrite prefix_app in E. apply bind_ok in E as ([sa acca] & Ea & E).
    rewrite prefix_app in E. apply bind_ok in E as ([s1 acc1] & E1 & E).
    cbn [om_prefix] in E1. apply bind_ok in E1 as ([s1' out1] & E1 & X). inversion X; subst s1' acc1; clear X.
    assert (E1' : meta_line sa m1 = Ok (s1, out1)).
    { pose proof E1 as E0. apply step_ok_cases in E0 as (Eof & _).
      rewrite step_comment_line in E1; [exact E1 | eapply reads_meta_comment; eauto | exact Eof]. }
    destruct (meta_line_after sa m1 kw n p3 s1 out1 R1 E1') as (A & F & _).
    destruct (prefix_meta_same n kw mid s1 _ st acc Hmid A F E) as (C1 & C2 & _).
    eapply meta_step_rejected; eauto.
  Qed.

  (* reachable states: a family that has a current group has samples *)
  Definition GroupInv (st : om_st NUM) : Prop := st_group st = None \/ st_samples st <> [].

  Lemma group_step_samples st name s st' :
    GroupInv st -> group_step st name s = Ok st' -> st_samples st' <> [].
  Proof.
    intros Inv H. unfold om_group_step in H.
    apply bind_ok in H as (go & _ & H). apply bind_ok in H as (gd & _ & H).
    destruct (st_group st) as [g0|] eqn:Eg.
    - destruct Inv as [X|X]; [congruence|].
      crack H; inversion H; subst; clear H; cbn;
        match goal with |- context[if ?c then _ else _] => destruct c end; auto; discriminate.
    - cbn [andb negb bind] in H. apply bind_ok in H as (labels & _ & H). inversion H; subst; clear H. cbn.
      destruct (negb (ts_eqb (os_ts s) (st_gts st))); cbn; discriminate.
  Qed.

  Lemma sample_line_samples st line st' out :
    GroupInv st -> sample_line st line = Ok (st', out) -> st_samples st' <> [].
  Proof.
    intros Inv H. unfold om_sample_line in H.
    apply bind_ok in H as ([s b] & Hr & H). apply bind_ok in H as ([st1 out1] & He & H).
    destruct (st_name st1) as [name|] eqn:Hn; [|discriminate].
    apply bind_ok in H as ([] & Hpre & H). apply bind_ok in H as (st2 & Hg & H).
    apply bind_ok in H as ([] & Hpost & H). inversion H; subst st2 out1; clear H.
    assert (Inv1 : GroupInv st1).
    { apply enter_family_cases in He as [(fams & seen' & cand & _ & _ & _ & _ & G & _) | [-> _]]; [left; exact G | exact Inv]. }
    destruct b; cbn [negb] in Hg.
    - inversion Hg; subst. cbn. discriminate.
    - eapply group_step_samples; eauto.
  Qed.

  Lemma meta_line_group st line st' out :
    meta_line st line = Ok (st', out) ->
    st_group st' = None \/ (st_group st' = st_group st /\ st_samples st' = st_samples st).
  Proof.
    unfold om_meta_line. intro H. apply bind_ok in H as (parts & Hs & H).
    destruct parts as [|p0 [|kw [|p2 [|p3 rest]]]]; try discriminate.
    apply bind_ok in H as ([cand quoted] & Hu & H).
    destruct (negb quoted && negb (is_valid_legacy_metric_name cand)); [discriminate|].
    destruct (om_opt_str_eqb (st_name st) cand) eqn:Same.
    - destruct (match st_samples st with [] => false | _ => true end) eqn:Sm; [discriminate|].
      cbn [andb negb bind] in H. right. meta_kw H; cbn; auto.
    - cbn [andb negb] in H. apply bind_ok in H as ([st1 out1] & H1 & H).
      apply bind_ok in H1 as ([fams seen'] & Hf & H1). inversion H1; subst st1 out1; clear H1. left.
      meta_kw H; cbn; auto.
  Qed.

  Lemma GroupInv_step st l st' out : GroupInv st -> step st l = Ok (st', out) -> GroupInv st'.
  Proof.
    intros Inv H. apply step_ok_cases in H as (_ & [H | [[_ H] | [_ H]]]).
    - destruct H as (_ & _ & _ & _ & _ & _ & _ & S & _ & G & _). unfold GroupInv in *. rewrite S, G. exact Inv.
    - apply meta_line_group in H as [G | [G S]]; [left; exact G|]. unfold GroupInv in *. rewrite S, G. exact Inv.
    - right. eapply sample_line_samples; eauto.
  Qed.

  Lemma GroupInv_prefix lines : forall st acc st' acc',
    GroupInv st -> prefix st lines acc = Ok (st', acc') -> GroupInv st'.
  Proof.
    induction lines as [|l r IH]; intros st acc st' acc' Inv H; cbn [om_prefix] in H.
    - inversion H; subst; exact Inv.
    - apply bind_ok in H as ([st1 out] & E & H). eapply IH; [|exact H]. eapply GroupInv_step; eauto.
  Qed.

  Lemma GroupInv_init : GroupInv st0.
  Proof. left. reflexivity. Qed.

  (* document level: metadata for the family in progress straight after a sample line *)
  Lemma meta_late_document a s m b n kw p3 :
    is_sample_line s = true -> reads_meta m kw n p3 ->
    (forall st acc, prefix st0 (a ++ [s]) [] = Ok (st, acc) -> st_name st = Some n) ->
    is_err (run st0 ((a ++ [s]) ++ m :: b) []).
  Proof.
    intros Hs R Hn. apply run_step_err_at. intros st acc E.
    eapply meta_step_rejected; eauto. right.
    apply prefix_snoc in E as (st1 & acc1 & out & E1 & E2 & _).
    pose proof (GroupInv_prefix a st0 [] st1 acc1 GroupInv_init E1) as Inv.
    pose proof E2 as E0. apply step_ok_cases in E0 as (Eof & _).
    rewrite step_sample_line in E2 by assumption.
    eapply sample_line_samples; eauto.
  Qed.

  (* =========================== (b) interleaved or clashing families =========================== *)
  (* the sample names build_metric reserves for a family: name + each suffix of its type, and the name itself *)
  Definition fam_names (n : str) (typ : option str) : list str :=
    map (fun sfx => n ++ sfx)
        (om_nodup_str (om_type_suffixes (match typ with None => OM_unknown | Some t => t end) [] ++ [[]])).

  Lemma nodup_In x l : In x (om_nodup_str l) <-> In x l.
  Proof.
    induction l as [|y r IH]; cbn [om_nodup_str]; [tauto|].
    destruct (mem_str y r) eqn:E.
    - rewrite IH. split; [right; auto|]. intros [<-|H]; auto. apply mem_str_In. exact E.
    - cbn [In]. rewrite IH. tauto.
  Qed.

  Lemma fam_names_self n typ : In n (fam_names n typ).
  Proof.
    unfold fam_names. apply in_map_iff. exists []. split; [apply app_nil_r|].
    apply nodup_In. apply in_or_app. right. left. reflexivity.
  Qed.

  Lemma fam_names_suffix n t sfx : In sfx (om_type_suffixes t []) -> In (n ++ sfx) (fam_names n (Some t)).
  Proof.
    intro H. unfold fam_names. apply in_map_iff. exists sfx. split; [reflexivity|].
    apply nodup_In. apply in_or_app. left. exact H.
  Qed.

  Lemma fam_names_None n y typ : In y (fam_names n None) -> In y (fam_names n typ).
  Proof.
    unfold fam_names at 1. change (om_type_suffixes OM_unknown []) with (@nil str). cbn.
    intros [<-|[]]. rewrite app_nil_r. apply fam_names_self.
  Qed.

  Lemma mem_str_app y a b : mem_str y (a ++ b) = mem_str y a || mem_str y b.
  Proof. induction a as [|x a IH]; cbn; [reflexivity|]. rewrite IH. apply orb_assoc. Qed.

  Lemma build_metric_seen seen n doc typ unit samples m seen' :
    build_metric seen n doc typ unit samples = Ok (m, seen') ->
    seen' = seen ++ fam_names n typ /\ existsb (fun x => mem_str x seen) (fam_names n typ) = false.
  Proof.
    unfold om_build_metric, fam_names. cbv zeta. intro H.
    match type of H with (if ?c then _ else _) = _ => destruct c eqn:E end; [discriminate|].
    split; [|reflexivity].
    crack H; inversion H; subst; reflexivity.
  Qed.

  Lemma flush_seen st fams seen' :
    flush st = Ok (fams, seen') ->
    match st_name st with
    | None => seen' = st_seen st
    | Some n => seen' = st_seen st ++ fam_names n (st_typ st)
                /\ existsb (fun x => mem_str x (st_seen st)) (fam_names n (st_typ st)) = false
    end.
  Proof.
    unfold om_flush. destruct (st_name st) as [n|]; intro H.
    - apply bind_ok in H as ([m s'] & E & H). inversion H; subst. eapply build_metric_seen; eauto.
    - inversion H; reflexivity.
  Qed.

  Lemma flush_seen_mono st fams seen' y :
    flush st = Ok (fams, seen') -> mem_str y (st_seen st) = true -> mem_str y seen' = true.
  Proof.
    intros H Hy. apply flush_seen in H. destruct (st_name st); [destruct H as [-> _]|subst; exact Hy].
    rewrite mem_str_app, Hy. reflexivity.
  Qed.

  Lemma flush_seen_names st fams seen' n y :
    flush st = Ok (fams, seen') -> st_name st = Some n -> In y (fam_names n (st_typ st)) -> mem_str y seen' = true.
  Proof.
    intros H Hn Hy. apply flush_seen in H. rewrite Hn in H. destruct H as [-> _].
    rewrite mem_str_app. apply mem_str_In in Hy. rewrite Hy. apply orb_true_r.
  Qed.

  (* the family in progress reserves a name that an earlier family already owns: build_metric will fail *)
  Definition Clash (st : om_st NUM) : Prop :=
    exists n y, st_name st = Some n /\ In y (fam_names n (st_typ st)) /\ mem_str y (st_seen st) = true.

  Lemma Clash_flush st : Clash st -> is_err (flush st).
  Proof.
    intros (n & y & Hn & Hy & Hs). apply not_ok_is_err. intros [fams seen'] E.
    apply flush_seen in E. rewrite Hn in E. destruct E as [_ E].
    assert (X : existsb (fun x => mem_str x (st_seen st)) (fam_names n (st_typ st)) = true).
    { apply existsb_exists. exists y. auto. }
    congruence.
  Qed.

  Lemma Clash_keeps st st' : Clash st -> Keeps st st' -> Clash st'.
  Proof.
    intros (n & y & Hn & Hy & Hs) (K1 & K2 & K3 & _). exists n, y. rewrite K1, K2. repeat split; auto.
    destruct K3 as [->|K3]; [exact Hy|]. rewrite K3 in Hy. apply fam_names_None. exact Hy.
  Qed.

  Lemma Clash_run lines st acc : Clash st -> is_err (run st lines acc).
  Proof. apply (doomed_run Clash Clash_flush Clash_keeps). Qed.

  (* the names of a family that was in progress are reserved as soon as another family is in progress *)
  Lemma step_seen_mono st l st' out y :
    step st l = Ok (st', out) -> mem_str y (st_seen st) = true -> mem_str y (st_seen st') = true.
  Proof.
    intros H Hy. apply step_cases in H as [(fams & seen' & Hf & <- & _) | [(_ & K & _) _]].
    - eapply flush_seen_mono; eauto.
    - rewrite K. exact Hy.
  Qed.

  Lemma prefix_seen_mono lines : forall st acc st' acc' y,
    prefix st lines acc = Ok (st', acc') -> mem_str y (st_seen st) = true -> mem_str y (st_seen st') = true.
  Proof.
    induction lines as [|l r IH]; intros st acc st' acc' y H Hy; cbn [om_prefix] in H.
    - inversion H; subst; exact Hy.
    - apply bind_ok in H as ([st1 out] & E & H). eapply IH; [exact H|]. eapply step_seen_mono; eauto.
  Qed.

  Lemma prefix_family_done lines : forall st acc st' acc' n y,
    prefix st lines acc = Ok (st', acc') -> st_name st = Some n -> In y (fam_names n (st_typ st)) ->
    mem_str y (st_seen st') = true \/ (st_name st' = Some n /\ In y (fam_names n (st_typ st'))).
  Proof.
    induction lines as [|l r IH]; intros st acc st' acc' n y H Hn Hy; cbn [om_prefix] in H.
    - inversion H; subst. right. auto.
    - apply bind_ok in H as ([st1 out] & E & H).
      pose proof E as E0. apply step_cases in E0 as [(fams & seen' & Hf & Hs & _) | [(K1 & K2 & K3 & _) _]].
      + left. eapply prefix_seen_mono; [exact H|]. rewrite Hs. eapply flush_seen_names; eauto.
      + eapply IH; [exact H | congruence |].
        destruct K3 as [->|K3]; [exact Hy|]. rewrite K3 in Hy. apply fam_names_None. exact Hy.
  Qed.

  (* a metadata line for another name than the family in progress closes it and opens that family *)
  Lemma meta_line_opens st line kw x p3 st' out :
    reads_meta line kw x p3 -> st_name st <> Some x -> meta_line st line = Ok (st', out) ->
    exists seen', flush st = Ok (out, seen') /\ st_name st' = Some x /\ st_seen st' = seen' /\ st_samples st' = [] /\
                  (str_eqb kw OM_TYPE = true -> st_typ st' = Some p3).
  Proof.
    intros (p0 & p2 & rest & q & _ & Hs & Hu) Hne H. unfold om_meta_line in H.
    rewrite Hs in H. cbn [bind] in H. rewrite Hu in H. cbn [bind] in H.
    destruct (negb q && negb (is_valid_legacy_metric_name x)); [discriminate|].
    destruct (om_opt_str_eqb (st_name st) x) eqn:Same.
    { exfalso. apply Hne. destruct (st_name st) as [m|]; [|discriminate]. cbn in Same. apply str_eqb_eq in Same. congruence. }
    cbn [andb negb] in H. apply bind_ok in H as ([st1 out1] & H1 & H).
    apply bind_ok in H1 as ([fams seen'] & Hf & H1). inversion H1; subst st1 out1; clear H1.
    exists seen'.
    destruct (str_eqb kw OM_HELP) eqn:K1; [|destruct (str_eqb kw OM_TYPE) eqn:K2; [|destruct (str_eqb kw OM_UNIT) eqn:K3]];
      cbn in H; try discriminate.
    - inversion H; subst; clear H. cbn. repeat split; auto.
      intro X. apply str_eqb_eq in K1, X. subst kw. discriminate.
    - destruct (str_eqb p3 OM_untyped); [discriminate|]. inversion H; subst; clear H. cbn. repeat split; auto.
    - inversion H; subst; clear H. cbn. repeat split; auto. intro; discriminate.
  Qed.

  (* a sample whose name the family in progress does not allow closes it and opens an unknown family *)
  Lemma sample_line_opens st line s x st' out :
    read_sample (st_typ st) line = Ok (s, false) -> mem_str (os_name s) (st_allowed st) = false ->
    implicit_name s = Ok x ->
    sample_line st line = Ok (st', out) ->
    exists seen', flush st = Ok (out, seen') /\ st_name st' = Some x /\ st_seen st' = seen' /\
                  st_typ st' = Some OM_unknown.
  Proof.
    intros Hr Hm Hu H. unfold om_sample_line in H. rewrite Hr in H. cbn [bind] in H.
    unfold om_enter_family in H. rewrite Hm in H. cbn [negb andb] in H.
    apply bind_ok in H as ([st1 out1] & He & H).
    apply bind_ok in He as ([fams seen'] & Hf & He). rewrite Hu in He. cbn [bind] in He.
    inversion He; subst st1 out1; clear He. cbn [st_name om_new_family] in H.
    apply bind_ok in H as ([] & _ & H). apply bind_ok in H as (st2 & Hg & H).
    apply bind_ok in H as ([] & _ & H). inversion H; subst st2 out; clear H.
    cbn [negb] in Hg. apply group_step_fields in Hg as (G1 & G2 & G3 & _).
    exists seen'. rewrite G1, G2, G3. cbn. auto.
  Qed.

  (* the general document-level statement: once a clashing family is in progress the document is lost *)
  Lemma Clash_document pre post st acc :
    prefix st0 pre [] = Ok (st, acc) -> Clash st -> is_err (run st0 (pre ++ post) []).
  Proof. intros E C. rewrite run_app, E. cbn. apply Clash_run. exact C. Qed.

  Lemma opened_clash s1 acc1 mid s2 acc2 n y fams seen' :
    st_name s1 = Some n -> In y (fam_names n (st_typ s1)) -> prefix s1 mid acc1 = Ok (s2, acc2) ->
    flush s2 = Ok (fams, seen') -> mem_str y seen' = true.
  Proof.
    intros Hn Hy Em Hf.
    destruct (prefix_family_done mid s1 acc1 s2 acc2 n y Em Hn Hy) as [X | [X1 X2]].
    - eapply flush_seen_mono; eauto.
    - eapply flush_seen_names; eauto.
  Qed.

  (* a family name (or a sample name an earlier family owns) comes back in a metadata line after another family
     started; or a TYPE line opens a family one of whose suffixed names an earlier family owns *)
  Lemma family_clash_meta_document a mid l b s1 acc1 s2 acc2 n y kw x p3 :
    prefix st0 a [] = Ok (s1, acc1) -> st_name s1 = Some n -> In y (fam_names n (st_typ s1)) ->
    prefix s1 mid acc1 = Ok (s2, acc2) -> st_name s2 <> Some x ->
    reads_meta l kw x p3 ->
    y = x \/ (kw = OM_TYPE /\ exists sfx, In sfx (om_type_suffixes p3 []) /\ y = x ++ sfx) ->
    is_err (run st0 (a ++ mid ++ l :: b) []).
  Proof.
    intros Ea Hn Hy Em Hne R Hxy.
    rewrite run_app, Ea. cbn [bind]. rewrite run_app, Em. cbn [bind om_run_lines].
    apply is_err_bind. intros [s3 out] E3. cbn.
    pose proof E3 as E0. apply step_ok_cases in E0 as (Eof & _).
    rewrite step_comment_line in E3; [|eapply reads_meta_comment; eauto|exact Eof].
    destruct (meta_line_opens s2 l kw x p3 s3 out R Hne E3) as (seen' & Hf & N3 & S3 & _ & T3).
    apply Clash_run. exists x, y. split; [exact N3|]. split.
    - destruct Hxy as [->|(-> & sfx & Hs & ->)]; [apply fam_names_self|].
      rewrite (T3 eq_refl). apply fam_names_suffix. exact Hs.
    - rewrite S3. exact (opened_clash s1 acc1 mid s2 acc2 n y out seen' Hn Hy Em Hf).
  Qed.

  (* the same for a sample line that is not allowed in the family in progress: it opens an unknown family under
     its own name, which an earlier family (possibly the one it just closed) owns *)
  Lemma family_clash_sample_document a mid l b s1 acc1 s2 acc2 n s x :
    prefix st0 a [] = Ok (s1, acc1) -> st_name s1 = Some n -> In x (fam_names n (st_typ s1)) ->
    prefix s1 mid acc1 = Ok (s2, acc2) ->
    is_sample_line l = true -> read_sample (st_typ s2) l = Ok (s, false) ->
    mem_str (os_name s) (st_allowed s2) = false -> implicit_name s = Ok x ->
    is_err (run st0 (a ++ mid ++ l :: b) []).
  Proof.
    intros Ea Hn Hy Em Hsl Hr Hm Hu.
    rewrite run_app, Ea. cbn [bind]. rewrite run_app, Em. cbn [bind om_run_lines].
    apply is_err_bind. intros [s3 out] E3. cbn.
    pose proof E3 as E0. apply step_ok_cases in E0 as (Eof & _).
    rewrite step_sample_line in E3 by assumption.
    destruct (sample_line_opens s2 l s x s3 out Hr Hm Hu E3) as (seen' & Hf & N3 & S3 & T3).
    apply Clash_run. exists x, x. split; [exact N3|]. split; [apply fam_names_self|].
    rewrite S3. exact (opened_clash s1 acc1 mid s2 acc2 n x out seen' Hn Hy Em Hf).
  Qed.

  (* =========================== (c) units =========================== *)
  (* the family in progress carries a non-empty unit that does not suffix its name, or it is an info / stateset *)
  Definition BadUnit (st : om_st NUM) : Prop :=
    exists n u, st_name st = Some n /\ st_unit st = Some u /\ u <> [] /\
                (ends_with (USCORE :: u) n = false \/ st_typ st = Some OM_info \/ st_typ st = Some OM_stateset).

  Lemma BadUnit_flush st : BadUnit st -> is_err (flush st).
  Proof.
    intros (n & u & Hn & Hu & Hne & Hbad). unfold om_flush. rewrite Hn, Hu. apply is_err_bind_l.
    unfold om_build_metric. cbv zeta.
    match goal with |- is_err (if ?c then _ else _) => destruct c; [eauto with om|] end.
    destruct u as [|u0 ur]; [congruence|]. cbn [andb].
    destruct Hbad as [H|[H|H]].
    - rewrite H. cbn. eauto with om.
    - destruct (negb (ends_with (USCORE :: u0 :: ur) n)); [eauto with om|]. rewrite H.
      change (str_eqb OM_info OM_info) with true. cbn. eauto with om.
    - destruct (negb (ends_with (USCORE :: u0 :: ur) n)); [eauto with om|]. rewrite H.
      change (str_eqb OM_stateset OM_stateset) with true. rewrite orb_true_r. eauto with om.
  Qed.

  Lemma BadUnit_keeps st st' : BadUnit st -> Keeps st st' -> BadUnit st'.
  Proof.
    intros (n & u & Hn & Hu & Hne & Hbad) (K1 & _ & K3 & K4 & _). exists n, u.
    split; [congruence|]. split; [destruct K4; congruence|]. split; [exact Hne|].
    destruct Hbad as [H|[H|H]]; [left; exact H | |]; right; destruct K3 as [K3|K3]; try congruence;
      [left|right]; congruence.
  Qed.

  Lemma BadUnit_run lines st acc : BadUnit st -> is_err (run st lines acc).
  Proof. apply (doomed_run BadUnit BadUnit_flush BadUnit_keeps). Qed.

  (* what the parser stores for  # UNIT name text  (repaired source: the text is unescaped like a HELP text) *)
  Definition stored_unit (p3 : str) : str := if fix_unit then om_unescape_help p3 else p3.

  Lemma unit_line_after st line n p3 st' out :
    reads_meta line OM_UNIT n p3 -> meta_line st line = Ok (st', out) ->
    st_name st' = Some n /\ st_unit st' = Some (stored_unit p3) /\
    (st_name st = Some n -> Keeps st st').
  Proof.
    intros (p0 & p2 & rest & q & _ & Hs & Hu) H. unfold om_meta_line in H.
    rewrite Hs in H. cbn [bind] in H. rewrite Hu in H. cbn [bind] in H.
    destruct (negb q && negb (is_valid_legacy_metric_name n)); [discriminate|].
    change (str_eqb OM_UNIT OM_HELP) with false in H. change (str_eqb OM_UNIT OM_TYPE) with false in H.
    change (str_eqb OM_UNIT OM_UNIT) with true in H. cbv iota in H.
    destruct (om_opt_str_eqb (st_name st) n) eqn:Same.
    - destruct (match st_samples st with [] => false | _ => true end); [discriminate|].
      cbn [andb negb bind] in H. destruct (st_unit st) eqn:U; [discriminate|]. inversion H; subst; clear H. cbn.
      assert (Hn : st_name st = Some n).
      { destruct (st_name st) as [m|]; [|discriminate]. cbn in Same. apply str_eqb_eq in Same. congruence. }
      split; [exact Hn|]. split; [reflexivity|]. intros _. unfold Keeps. cbn. repeat split; auto. exists []. reflexivity.
    - cbn [andb negb] in H. apply bind_ok in H as ([st1 out1] & H1 & H).
      apply bind_ok in H1 as ([fams seen'] & Hf & H1). inversion H1; subst st1 out1; clear H1.
      cbn in H. inversion H; subst; clear H. cbn. split; [reflexivity|]. split; [reflexivity|].
      intro X. rewrite X, om_opt_str_eqb_refl in Same. discriminate.
  Qed.

  Lemma type_line_after st line n t st' out :
    reads_meta line OM_TYPE n t -> meta_line st line = Ok (st', out) ->
    st_name st' = Some n /\ st_typ st' = Some t /\ (st_name st = Some n -> Keeps st st').
  Proof.
    intros (p0 & p2 & rest & q & _ & Hs & Hu) H. unfold om_meta_line in H.
    rewrite Hs in H. cbn [bind] in H. rewrite Hu in H. cbn [bind] in H.
    destruct (negb q && negb (is_valid_legacy_metric_name n)); [discriminate|].
    change (str_eqb OM_TYPE OM_HELP) with false in H. change (str_eqb OM_TYPE OM_TYPE) with true in H. cbv iota in H.
    destruct (om_opt_str_eqb (st_name st) n) eqn:Same.
    - destruct (match st_samples st with [] => false | _ => true end); [discriminate|].
      cbn [andb negb bind] in H. destruct (st_typ st) eqn:U; [discriminate|].
      destruct (str_eqb t OM_untyped); [discriminate|]. inversion H; subst; clear H. cbn.
      assert (Hn : st_name st = Some n).
      { destruct (st_name st) as [m|]; [|discriminate]. cbn in Same. apply str_eqb_eq in Same. congruence. }
      split; [exact Hn|]. split; [reflexivity|]. intros _. unfold Keeps. cbn. repeat split; auto. exists []. reflexivity.
    - cbn [andb negb] in H. apply bind_ok in H as ([st1 out1] & H1 & H).
      apply bind_ok in H1 as ([fams seen'] & Hf & H1). inversion H1; subst st1 out1; clear H1.
      cbn in H. destruct (str_eqb t OM_untyped); [discriminate|]. inversion H; subst; clear H. cbn.
      split; [reflexivity|]. split; [reflexivity|].
      intro X. rewrite X, om_opt_str_eqb_refl in Same. discriminate.
  Qed.

  (* a # UNIT line whose (stored) unit is not empty and does not suffix the family name: at ANY position, after ANY
     prefix, followed by anything *)
  Lemma unit_mismatch_document pre l post n p3 :
    reads_meta l OM_UNIT n p3 -> stored_unit p3 <> [] -> ends_with (USCORE :: stored_unit p3) n = false ->
    is_err (run st0 (pre ++ l :: post) []).
  Proof.
    intros R Hne Hm. rewrite run_app. apply is_err_bind. intros [st acc] _. cbn [om_run_lines].
    apply is_err_bind. intros [st' out] E. cbn.
    pose proof E as E0. apply step_ok_cases in E0 as (Eof & _).
    rewrite step_comment_line in E; [|eapply reads_meta_comment; eauto|exact Eof].
    destruct (unit_line_after st l n p3 st' out R E) as (A & B & _).
    apply BadUnit_run. exists n, (stored_unit p3). auto.
  Qed.

  (* metadata lines of the family in progress keep it in progress *)
  Lemma meta_same_keeps st line kw n p3 st' out :
    reads_meta line kw n p3 -> st_name st = Some n -> meta_line st line = Ok (st', out) -> Keeps st st'.
  Proof.
    intros (p0 & p2 & rest & q & _ & Hs & Hu) Hn H. unfold om_meta_line in H.
    rewrite Hs in H. cbn [bind] in H. rewrite Hu in H. cbn [bind] in H.
    destruct (negb q && negb (is_valid_legacy_metric_name n)); [discriminate|].
    rewrite Hn, om_opt_str_eqb_refl in H. cbn [andb negb] in H.
    destruct (match st_samples st with [] => false | _ => true end) eqn:Sm; [discriminate|].
    cbn [bind] in H.
    meta_kw H; unfold Keeps; cbn; repeat split; auto; exists []; reflexivity.
  Qed.

  Lemma prefix_meta_keeps n mid : forall st acc st' acc',
    Forall (meta_for n) mid -> st_name st = Some n -> prefix st mid acc = Ok (st', acc') -> Keeps st st'.
  Proof.
    induction mid as [|l r IH]; intros st acc st' acc' Hall Hn H; cbn [om_prefix] in H.
    - inversion H; subst. apply Keeps_refl.
    - inversion Hall as [|? ? (k & p3 & R) Hall']; subst.
      apply bind_ok in H as ([st1 out] & E & H).
      pose proof E as E0. apply step_ok_cases in E0 as (Eof & _).
      rewrite step_comment_line in E; [|eapply reads_meta_comment; eauto|exact Eof].
      pose proof (meta_same_keeps st l k n p3 st1 out R Hn E) as K.
      eapply Keeps_trans; [exact K|]. eapply IH; eauto. destruct K as (K1 & _). congruence.
  Qed.

  (* a unit on an info / stateset family: TYPE then UNIT, or UNIT then TYPE, only metadata of the family in between *)
  Lemma unit_on_info_stateset_document a m1 mid m2 b n t p3 :
    t = OM_info \/ t = OM_stateset -> stored_unit p3 <> [] -> Forall (meta_for n) mid ->
    (reads_meta m1 OM_TYPE n t /\ reads_meta m2 OM_UNIT n p3) \/
    (reads_meta m1 OM_UNIT n p3 /\ reads_meta m2 OM_TYPE n t) ->
    is_err (run st0 (a ++ m1 :: mid ++ m2 :: b) []).
  Proof.
    intros Ht Hne Hmid Hord.
    replace (a ++ m1 :: mid ++ m2 :: b) with ((a ++ [m1] ++ mid) ++ m2 :: b)
      by (rewrite <- !app_assoc; reflexivity).
    rewrite run_app. apply is_err_bind. intros [st acc] E. cbn [om_run_lines].
    apply is_err_bind. intros [st' out] E2. cbn.
    rewrite prefix_app in E. apply bind_ok in E as ([sa acca] & Ea & E).
    rewrite prefix_app in E. apply bind_ok in E as ([s1 acc1] & E1 & E).
    cbn [om_prefix] in E1. apply bind_ok in E1 as ([s1' out1] & E1 & X). inversion X; subst s1' acc1; clear X.
    pose proof E1 as E0. apply step_ok_cases in E0 as (Eof1 & _).
    pose proof E2 as E0. apply step_ok_cases in E0 as (Eof2 & _).
    apply BadUnit_run.
    destruct Hord as [[R1 R2] | [R1 R2]].
    - rewrite step_comment_line in E1; [|eapply reads_meta_comment; eauto|exact Eof1].
      rewrite step_comment_line in E2; [|eapply reads_meta_comment; eauto|exact Eof2].
      destruct (type_line_after sa m1 n t s1 out1 R1 E1) as (A1 & A2 & _).
      pose proof (prefix_meta_keeps n mid s1 _ st acc Hmid A1 E) as K.
      assert (Hn : st_name st = Some n) by (destruct K as (K1 & _); congruence).
      assert (Htt : st_typ st = Some t).
      { destruct K as (_ & _ & [K3|K3] & _); [rewrite K3; exact A2 | rewrite A2 in K3; discriminate]. }
      destruct (unit_line_after st m2 n p3 st' out R2 E2) as (B1 & B2 & B3).
      specialize (B3 Hn). exists n, (stored_unit p3). repeat split; auto. right.
      assert (Ht' : st_typ st' = Some t).
      { destruct B3 as (_ & _ & [K3|K3] & _); [rewrite K3; exact Htt | rewrite Htt in K3; discriminate]. }
      rewrite Ht'. destruct Ht as [->| ->]; [left|right]; reflexivity.
    - rewrite step_comment_line in E1; [|eapply reads_meta_comment; eauto|exact Eof1].
      rewrite step_comment_line in E2; [|eapply reads_meta_comment; eauto|exact Eof2].
      destruct (unit_line_after sa m1 n p3 s1 out1 R1 E1) as (A1 & A2 & _).
      pose proof (prefix_meta_keeps n mid s1 _ st acc Hmid A1 E) as K.
      assert (Hn : st_name st = Some n) by (destruct K as (K1 & _); congruence).
      assert (Hu : st_unit st = Some (stored_unit p3)).
      { destruct K as (_ & _ & _ & [K4|K4] & _); [rewrite K4; exact A2 | rewrite A2 in K4; discriminate]. }
      destruct (type_line_after st m2 n t st' out R2 E2) as (B1 & B2 & B3).
      specialize (B3 Hn). exists n, (stored_unit p3). repeat split; auto.
      + destruct B3 as (_ & _ & _ & [K4|K4] & _); [rewrite K4; exact Hu | rewrite Hu in K4; discriminate].
      + right. rewrite B2. destruct Ht as [->| ->]; [left|right]; reflexivity.
  Qed.

  (* =========================== (d) '# EOF' =========================== *)
  Lemma eof_repeated_rejected a mid b : is_err (run st0 (a ++ OM_EOF :: mid ++ OM_EOF :: b) []).
  Proof.
    destruct mid as [|m mid]; cbn [app]; apply content_after_eof_rejected.
  Qed.

  (* every accepted document has exactly one '# EOF' line, and it is the last line *)
  Lemma accepted_eof_unique lines fams :
    run st0 lines [] = Ok fams -> exists a, lines = a ++ [OM_EOF] /\ ~ In OM_EOF a.
  Proof.
    intro H.
    assert (Hin : In OM_EOF lines).
    { destruct (in_dec (list_eq_dec N.eq_dec) OM_EOF lines) as [i|ni]; [exact i|].
      exfalso. eapply is_err_not_ok; [apply eof_missing_rejected; exact ni | exact H]. }
    apply in_split in Hin as (a & b & ->). destruct b as [|l b].
    - exists a. split; [reflexivity|]. intro Hin. apply in_split in Hin as (a1 & a2 & ->).
      rewrite <- app_assoc in H. cbn [app] in H.
      eapply is_err_not_ok; [apply (eof_repeated_rejected a1 a2 []) | exact H].
    - exfalso. eapply is_err_not_ok; [apply content_after_eof_rejected | exact H].
  Qed.

  (* =========================== (e) histogram groups: every group, every placement =========================== *)
  Notation gfs name s := (om_group_for_sample s name OM_histogram).
  Definition hsfx (name : str) (s : om_sample NUM) : str := skipn (length name) (os_name s).
  Definition hkey (name : str) (s : om_sample NUM) : option (assoc str str) :=
    match gfs name s with Ok g => g | Err _ => None end.

  (* the samples of one group as the scan of _check_histogram sees them: a sample without suffix is skipped, every
     other one compares equal - group key and timestamp - to the sample before it.  g, t: key and timestamp of the
     sample in front of the list *)
  Fixpoint hchain (name : str) (g : option (assoc str str)) (t : option (om_tsv NUM)) (r : list (om_sample NUM)) : Prop :=
    match r with
    | [] => True
    | s :: r' =>
        match hsfx name s with
        | [] => (exists gs, gfs name s = Ok gs) /\ hchain name g t r'
        | _ => (exists gd, gfs name s = Ok (Some gd)) /\ om_optdict_eqb (hkey name s) g = true /\
               ts_eqb (os_ts s) t = true /\ hchain name (hkey name s) (os_ts s) r'
        end
    end.
  (* key and timestamp of the last sample with a suffix *)
  Fixpoint chain_end (name : str) (g : option (assoc str str)) (t : option (om_tsv NUM)) (r : list (om_sample NUM))
    : option (assoc str str) * option (om_tsv NUM) :=
    match r with
    | [] => (g, t)
    | s :: r' => match hsfx name s with
                 | [] => chain_end name g t r'
                 | _ => chain_end name (hkey name s) (os_ts s) r'
                 end
    end.

  Definition is_bucket_sfx (name : str) (s : om_sample NUM) : bool := str_eqb (hsfx name s) OM_bucket.
  Definition is_count_sfx (name : str) (s : om_sample NUM) : bool :=
    str_eqb (hsfx name s) OM_count || str_eqb (hsfx name s) OM_gcount.
  (* the variables `value` and `count` of the scan *)
  Definition step_val (name : str) (v : NUM) (s : om_sample NUM) : NUM :=
    if is_bucket_sfx name s then match os_value s with Some x => x | None => v end else v.
  Definition step_cnt (name : str) (c : option NUM) (s : om_sample NUM) : option NUM :=
    if is_count_sfx name s then os_value s else c.
  (* value of the last bucket / of the last _count or _gcount of a group *)
  Definition step_valo (name : str) (o : option NUM) (s : om_sample NUM) : option NUM :=
    if is_bucket_sfx name s then os_value s else o.
  Definition grp_bucket_value (name : str) (grp : list (om_sample NUM)) : option NUM :=
    fold_left (step_valo name) grp None.
  Definition grp_count (name : str) (grp : list (om_sample NUM)) : option NUM :=
    fold_left (step_cnt name) grp None.
  (* the variable `bucket` of the scan: the bound of the last bucket *)
  Definition step_bnd (name : str) (o : option NUM) (s : om_sample NUM) : option NUM :=
    if is_bucket_sfx name s then
      match os_labels s with
      | Some l => match d_find str_eqb l OM_le with Some lv => parse_float lv | None => o end
      | None => o
      end
    else o.
  Definition grp_last_bound (name : str) (grp : list (om_sample NUM)) : option NUM :=
    fold_left (step_bnd name) grp None.

  Lemma bucket_not_count sfx : str_eqb sfx OM_bucket = true -> str_eqb sfx OM_count || str_eqb sfx OM_gcount = false.
  Proof. intro H. apply str_eqb_eq in H. subst. reflexivity. Qed.

  Lemma hchain_app name a : forall b g t,
    hchain name g t (a ++ b) <->
    hchain name g t a /\ hchain name (fst (chain_end name g t a)) (snd (chain_end name g t a)) b.
  Proof.
    induction a as [|s a IH]; intros b g t; cbn [app hchain chain_end fst snd]; [tauto|].
    destruct (hsfx name s); rewrite IH; tauto.
  Qed.

  Lemma chain_end_app name a : forall b g t,
    chain_end name g t (a ++ b) = chain_end name (fst (chain_end name g t a)) (snd (chain_end name g t a)) b.
  Proof.
    induction a as [|s a IH]; intros b g t; cbn [app chain_end fst snd]; [reflexivity|].
    destruct (hsfx name s); apply IH.
  Qed.

  Lemma chain_end_some name r : forall g t,
    hchain name g t r -> (exists gd, g = Some gd) -> exists gd, fst (chain_end name g t r) = Some gd.
  Proof.
    induction r as [|s r IH]; intros g t H Hg; cbn [hchain chain_end] in *; [exact Hg|].
    destruct (hsfx name s).
    - apply IH; tauto.
    - destruct H as ([gd Hgd] & _ & _ & H). apply (IH _ _ H). unfold hkey. rewrite Hgd. eauto.
  Qed.

  (* one step of the scan on a sample that stays in the current group *)
  Lemma hist_step_chain name st s gd st' :
    hsfx name s <> [] -> gfs name s = Ok (Some gd) ->
    om_optdict_eqb (Some gd) (hs_group st) = true -> ts_eqb (os_ts s) (hs_ts st) = true ->
    hist_step name st s = Ok st' ->
    hs_group st' = Some gd /\ hs_ts st' = os_ts s /\
    match hs_hv st with
    | None => hs_hv st' = None
    | Some h => exists h', hs_hv st' = Some h' /\ hv_value h' = step_val name (hv_value h) s /\
                           hv_count h' = step_cnt name (hv_count h) s /\
                           hv_bucket h' = step_bnd name (hv_bucket h) s
    end.
  Proof.
    intros Hs Hg He Ht H. unfold om_check_hist_step in H. rewrite Hg in H. cbn [bind] in H.
    unfold step_val, step_cnt, step_bnd, is_bucket_sfx, is_count_sfx. unfold hsfx in *.
    destruct (skipn (length name) (os_name s)) as [|c0 sf] eqn:Es; [contradiction|].
    rewrite He, Ht in H. cbn [negb orb bind] in H.
    destruct (str_eqb (c0 :: sf) OM_bucket) eqn:B.
    { rewrite (bucket_not_count _ B).
      destruct (os_labels s) as [l|]; [|discriminate H]. unfold d_get in H.
      destruct (d_find str_eqb l OM_le) as [lv|]; [|discriminate H]. cbn [bind] in H.
      destruct (parse_float lv) as [b|]; [|discriminate H]. cbn [bind] in H.
      destruct (hs_hv st) as [h|]; [|discriminate H].
      destruct (match hv_bucket h with Some bk => num_le b bk | None => false end); [discriminate H|].
      apply bind_ok in H as (v & Ev & H). destruct (num_lt v (hv_value h)); [discriminate H|].
      inversion H; subst; clear H. cbn.
      split; [reflexivity|]. split; [reflexivity|]. eexists. split; [reflexivity|]. cbn.
      unfold om_value_of in Ev. destruct (os_value s); inversion Ev; subst. repeat split; reflexivity. }
    destruct (str_eqb (c0 :: sf) OM_count || str_eqb (c0 :: sf) OM_gcount) eqn:C.
    { destruct (hs_hv st) as [h|]; destruct (os_value s); inversion H; subst; clear H; cbn; repeat split; auto;
        eexists; repeat split; eauto. }
    destruct (str_eqb (c0 :: sf) OM_sum).
    { destruct (hs_hv st) as [h|]; inversion H; subst; clear H; cbn; repeat split; auto;
        eexists; repeat split; eauto. }
    destruct (str_eqb (c0 :: sf) OM_gsum).
    { apply bind_ok in H as (v & _ & H).
      destruct (hs_hv st) as [h|]; inversion H; subst; clear H; cbn; repeat split; auto;
        eexists; repeat split; eauto. }
    destruct (hs_hv st) as [h|]; inversion H; subst; clear H; cbn; repeat split; auto;
      eexists; repeat split; eauto.
  Qed.

  Lemma hist_step_skip name st s st' :
    hsfx name s = [] -> hist_step name st s = Ok st' -> st' = st.
  Proof.
    intros Hs H. unfold om_check_hist_step in H. apply bind_ok in H as (g & _ & H).
    unfold hsfx in Hs. rewrite Hs in H. inversion H. reflexivity.
  Qed.

  Definition nonbucket (name : str) (s : om_sample NUM) : Prop := is_bucket_sfx name s = false.

  (* the scan over the rest of a group *)
  Lemma hist_run_chain name r : forall st st',
    hchain name (hs_group st) (hs_ts st) r -> hist_run name st r = Ok st' ->
    hs_group st' = fst (chain_end name (hs_group st) (hs_ts st) r) /\
    hs_ts st' = snd (chain_end name (hs_group st) (hs_ts st) r) /\
    match hs_hv st with
    | None => hs_hv st' = None
    | Some h => exists h', hs_hv st' = Some h' /\ hv_value h' = fold_left (step_val name) r (hv_value h) /\
                           hv_count h' = fold_left (step_cnt name) r (hv_count h) /\
                           hv_bucket h' = fold_left (step_bnd name) r (hv_bucket h)
    end.
  Proof.
    induction r as [|s r IH]; intros st st' Hc H; cbn [om_check_hist_run hchain chain_end fold_left] in *.
    - inversion H; subst. repeat split; auto. destruct (hs_hv st'); eauto 6.
    - apply bind_ok in H as (st1 & E1 & H).
      destruct (hsfx name s) as [|c0 sf] eqn:Es.
      + apply hist_step_skip in E1; [|exact Es]. subst st1. destruct Hc as [_ Hc].
        destruct (IH st st' Hc H) as (A & B & C). repeat split; auto.
        destruct (hs_hv st) as [h|]; [|exact C]. destruct C as (h' & C1 & C2 & C3 & C4).
        exists h'. unfold step_val, step_cnt, step_bnd, is_bucket_sfx, is_count_sfx. rewrite Es. cbn [str_eqb orb].
        repeat split; auto.
      + destruct Hc as ([gd Hgd] & He & Ht & Hc).
        assert (Hk : hkey name s = Some gd) by (unfold hkey; rewrite Hgd; reflexivity).
        rewrite Hk in *.
        assert (Hne : hsfx name s <> []) by (rewrite Es; discriminate).
        destruct (hist_step_chain name st s gd st1 Hne Hgd He Ht E1) as (G1 & T1 & V1).
        rewrite <- G1, <- T1 in Hc. destruct (IH st1 st' Hc H) as (A & B & C).
        rewrite G1, T1 in A, B. repeat split; auto.
        destruct (hs_hv st) as [h|].
        * destruct V1 as (h1 & V1 & V2 & V3 & V4). rewrite V1 in C. destruct C as (h' & C1 & C2 & C3 & C4).
          exists h'. rewrite <- V2, <- V3, <- V4. repeat split; auto.
        * rewrite V1 in C. exact C.
  Qed.

  (* the first sample of a group, reached in any state *)
  Lemma hist_step_first name st s gd st' :
    hsfx name s <> [] -> gfs name s = Ok (Some gd) -> hist_step name st s = Ok st' ->
    hs_group st' = Some gd /\ hs_ts st' = os_ts s /\
    match hs_hv st' with
    | None => True
    | Some h1 => (is_bucket_sfx name s = true -> os_value s = Some (hv_value h1)) /\
                 (is_count_sfx name s = true -> hv_count h1 = os_value s) /\
                 (is_bucket_sfx name s = true -> hv_bucket h1 = step_bnd name None s)
    end.
  Proof.
    intros Hs Hg H. unfold om_check_hist_step in H. rewrite Hg in H. cbn [bind] in H.
    unfold step_bnd, is_bucket_sfx, is_count_sfx. unfold hsfx in *.
    destruct (skipn (length name) (os_name s)) as [|c0 sf] eqn:Es; [contradiction|].
    apply bind_ok in H as (hv0 & _ & H).
    destruct (str_eqb (c0 :: sf) OM_bucket) eqn:B.
    { rewrite (bucket_not_count _ B).
      destruct (os_labels s) as [l|]; [|discriminate H]. unfold d_get in H.
      destruct (d_find str_eqb l OM_le) as [lv|]; [|discriminate H]. cbn [bind] in H.
      destruct (parse_float lv) as [b|]; [|discriminate H]. cbn [bind] in H.
      destruct hv0 as [h|]; [|discriminate H].
      destruct (match hv_bucket h with Some bk => num_le b bk | None => false end); [discriminate H|].
      apply bind_ok in H as (v & Ev & H). destruct (num_lt v (hv_value h)); [discriminate H|].
      inversion H; subst; clear H. cbn.
      unfold om_value_of in Ev. destruct (os_value s); inversion Ev; subst.
      repeat split; auto; discriminate. }
    destruct (str_eqb (c0 :: sf) OM_count || str_eqb (c0 :: sf) OM_gcount) eqn:C.
    { destruct hv0 as [h|]; destruct (os_value s); inversion H; subst; clear H; cbn; repeat split; auto; discriminate. }
    destruct (str_eqb (c0 :: sf) OM_sum).
    { destruct hv0 as [h|]; inversion H; subst; clear H; cbn; repeat split; auto; discriminate. }
    destruct (str_eqb (c0 :: sf) OM_gsum).
    { apply bind_ok in H as (v & _ & H).
      destruct hv0 as [h|]; inversion H; subst; clear H; cbn; repeat split; auto; discriminate. }
    destruct hv0 as [h|]; inversion H; subst; clear H; cbn; repeat split; auto; discriminate.
  Qed.

  Lemma fold_val_rel name vb r : forall o v,
    o = None \/ o = Some v -> fold_left (step_valo name) r o = Some vb -> fold_left (step_val name) r v = vb.
  Proof.
    induction r as [|s r IH]; intros o v Ho H; cbn [fold_left] in *.
    - destruct Ho as [->| ->]; [discriminate | inversion H; reflexivity].
    - unfold step_valo at 2 in H. unfold step_val at 2. destruct (is_bucket_sfx name s).
      + destruct (os_value s) as [x|]; [apply (IH (Some x) x); auto | apply (IH None v); auto].
      + apply (IH o v); auto.
  Qed.

  Lemma fold_cnt_any name c r : forall x,
    fold_left (step_cnt name) r None = Some c -> fold_left (step_cnt name) r x = Some c.
  Proof.
    induction r as [|s r IH]; intros x H; cbn [fold_left] in *; [discriminate|].
    unfold step_cnt at 2 in H. unfold step_cnt at 2. destruct (is_count_sfx name s); [exact H | apply IH; exact H].
  Qed.

  (* a group as a list: its first sample carries a suffix and a key, the rest chains onto it *)
  Definition hgroup (name : str) (grp : list (om_sample NUM)) : Prop :=
    match grp with
    | [] => False
    | s0 :: rest => hsfx name s0 <> [] /\ (exists gd0, gfs name s0 = Ok (Some gd0)) /\
                    hchain name (hkey name s0) (os_ts s0) rest
    end.
  Definition hgroup_end (name : str) (grp : list (om_sample NUM)) : option (assoc str str) * option (om_tsv NUM) :=
    match grp with
    | [] => (None, None)
    | s0 :: rest => chain_end name (hkey name s0) (os_ts s0) rest
    end.

  Lemma fold_bnd_any name b r : forall x,
    fold_left (step_bnd name) r None = Some b -> fold_left (step_bnd name) r x = Some b.
  Proof.
    induction r as [|s r IH]; intros x H; cbn [fold_left] in *; [discriminate|].
    unfold step_bnd at 2 in H. unfold step_bnd at 2.
    destruct (is_bucket_sfx name s); [|apply IH; exact H].
    destruct (os_labels s) as [l|]; [|apply IH; exact H].
    destruct (d_find str_eqb l OM_le); [exact H | apply IH; exact H].
  Qed.

  (* the state of the scan after a whole group *)
  Lemma hist_group_state name grp st st' :
    hgroup name grp -> hist_run name st grp = Ok st' ->
    hs_group st' = fst (hgroup_end name grp) /\ hs_ts st' = snd (hgroup_end name grp) /\
    (exists gd, hs_group st' = Some gd) /\
    (hs_hv st' = None \/
     exists h', hs_hv st' = Some h' /\
                (forall vb, grp_bucket_value name grp = Some vb -> hv_value h' = vb) /\
                (forall c, grp_count name grp = Some c -> hv_count h' = Some c) /\
                (forall b, grp_last_bound name grp = Some b -> hv_bucket h' = Some b)).
  Proof.
    destruct grp as [|s0 rest]; [intros []|]. intros (Hs & [gd0 Hg] & Hc) H.
    cbn [om_check_hist_run] in H. apply bind_ok in H as (st1 & E1 & H).
    assert (Hk : hkey name s0 = Some gd0) by (unfold hkey; rewrite Hg; reflexivity).
    destruct (hist_step_first name st s0 gd0 st1 Hs Hg E1) as (G1 & T1 & V1).
    cbn [hgroup_end]. rewrite Hk in *. rewrite <- G1, <- T1 in Hc.
    destruct (hist_run_chain name rest st1 st' Hc H) as (A & B & C). rewrite G1, T1 in A, B, Hc.
    split; [exact A|]. split; [exact B|]. split.
    { rewrite A. apply (chain_end_some name rest _ _ Hc). eauto. }
    destruct (hs_hv st1) as [h1|]; [|left; exact C]. right.
    destruct C as (h' & C1 & C2 & C3 & C4). exists h'. split; [exact C1|].
    destruct V1 as (Vb & Vc & Vd).
    unfold grp_bucket_value, grp_count, grp_last_bound. cbn [fold_left]. repeat split.
    - intros vb Hv. rewrite C2. apply (fold_val_rel name vb rest (step_valo name None s0) (hv_value h1)); [|exact Hv].
      unfold step_valo. destruct (is_bucket_sfx name s0) eqn:Ib; [right; apply Vb; reflexivity | left; reflexivity].
    - intros c Hcn. rewrite C3. unfold step_cnt at 2 in Hcn. destruct (is_count_sfx name s0) eqn:Ic.
      + rewrite (Vc eq_refl). exact Hcn.
      + apply fold_cnt_any. exact Hcn.
    - intros b Hb. rewrite C4. destruct (is_bucket_sfx name s0) eqn:Ib.
      + rewrite (Vd eq_refl). exact Hb.
      + unfold step_bnd at 2 in Hb. rewrite Ib in Hb. apply fold_bnd_any. exact Hb.
  Qed.

  (* what makes the end-of-group checks fail: _count differs from the last bucket, or the last bucket is not +Inf *)
  Definition grp_offends (name : str) (grp : list (om_sample NUM)) : Prop :=
    (exists vb c, grp_bucket_value name grp = Some vb /\ grp_count name grp = Some c /\ num_eqb vb c = false)
    \/ (exists b, grp_last_bound name grp = Some b /\ num_eqb b num_inf = false).

  Lemma hist_group_offends_state name grp st st' :
    hgroup name grp -> grp_offends name grp -> hist_run name st grp = Ok st' ->
    hs_group st' = fst (hgroup_end name grp) /\ hs_ts st' = snd (hgroup_end name grp) /\
    (exists gd, hs_group st' = Some gd) /\ is_err (do_checks (hs_hv st')).
  Proof.
    intros Hg Hbad H. destruct (hist_group_state name grp st st' Hg H) as (A & B & C & D).
    split; [exact A|]. split; [exact B|]. split; [exact C|].
    destruct D as [D | (h' & D & Dv & Dc & Db)]; rewrite D; [cbn; eauto with om|].
    destruct Hbad as [(vb & c & Hv & Hc & Hne) | (b & Hb & Hne)].
    - apply do_checks_count_mismatch with (c := c); [apply Dc; exact Hc | rewrite (Dv vb Hv); exact Hne].
    - apply do_checks_no_inf. rewrite (Db b Hb). exact Hne.
  Qed.

  (* an offending group as the last group of the family ... *)
  Lemma hist_group_offends_end name pre grp :
    hgroup name grp -> grp_offends name grp -> is_err (check_hist (pre ++ grp) name).
  Proof.
    intros Hg Hbad. unfold om_check_histogram. apply is_err_bind. intros st E.
    rewrite hist_run_app in E. apply bind_ok in E as (st1 & _ & E).
    destruct (hist_group_offends_state name grp st1 st Hg Hbad E) as (_ & _ & [gd G] & D).
    rewrite G. exact D.
  Qed.

  (* a sample that opens another group (or timestamp) runs the checks of the group before it *)
  Lemma hist_step_switch_any name st s g0 :
    hs_group st = Some g0 -> is_err (do_checks (hs_hv st)) ->
    hsfx name s <> [] ->
    (forall g, gfs name s = Ok g ->
               om_optdict_eqb g (hs_group st) = false \/ ts_eqb (os_ts s) (hs_ts st) = false) ->
    is_err (hist_step name st s).
  Proof.
    intros Hg Hc Hs Hd. unfold om_check_hist_step.
    apply is_err_bind. intros g Eg. unfold hsfx in Hs.
    destruct (skipn (length name) (os_name s)) eqn:Es; [contradiction|].
    apply is_err_bind_l.
    destruct (Hd g Eg) as [X|X]; rewrite X; cbn [negb orb]; rewrite ?orb_true_r;
      apply is_err_bind_l; rewrite Hg; exact Hc.
  Qed.

  (* ... and as any other group, wherever it stands: it is followed by a sample of another group or timestamp *)
  Lemma hist_group_offends_inner name pre grp nxt post :
    hgroup name grp -> grp_offends name grp ->
    hsfx name nxt <> [] ->
    (forall g, gfs name nxt = Ok g ->
               om_optdict_eqb g (fst (hgroup_end name grp)) = false \/
               ts_eqb (os_ts nxt) (snd (hgroup_end name grp)) = false) ->
    forall st, is_err (hist_run name st (pre ++ grp ++ nxt :: post)).
  Proof.
    intros Hg Hbad Hs Hd st. rewrite hist_run_app. apply is_err_bind. intros st1 _.
    rewrite hist_run_app. apply is_err_bind. intros st2 E. cbn [om_check_hist_run]. apply is_err_bind_l.
    destruct (hist_group_offends_state name grp st1 st2 Hg Hbad E) as (A & B & [gd G] & D).
    eapply hist_step_switch_any; eauto. rewrite A, B. exact Hd.
  Qed.

  (* _count / _gcount different from the last bucket of its group *)
  Lemma hist_count_mismatch_end name pre grp vb c :
    hgroup name grp -> grp_bucket_value name grp = Some vb -> grp_count name grp = Some c -> num_eqb vb c = false ->
    is_err (check_hist (pre ++ grp) name).
  Proof. intros Hg Hv Hc Hne. apply hist_group_offends_end; [exact Hg|]. left. eauto. Qed.

  Lemma hist_count_mismatch_inner name pre grp nxt post vb c :
    hgroup name grp -> grp_bucket_value name grp = Some vb -> grp_count name grp = Some c -> num_eqb vb c = false ->
    hsfx name nxt <> [] ->
    (forall g, gfs name nxt = Ok g ->
               om_optdict_eqb g (fst (hgroup_end name grp)) = false \/
               ts_eqb (os_ts nxt) (snd (hgroup_end name grp)) = false) ->
    forall st, is_err (hist_run name st (pre ++ grp ++ nxt :: post)).
  Proof. intros Hg Hv Hc Hne. apply hist_group_offends_inner; [exact Hg|]. left. eauto. Qed.

  (* a group whose last bucket is not +Inf, whatever follows that bucket inside the group *)
  Lemma hist_no_inf_end name pre grp b :
    hgroup name grp -> grp_last_bound name grp = Some b -> num_eqb b num_inf = false ->
    is_err (check_hist (pre ++ grp) name).
  Proof. intros Hg Hb Hne. apply hist_group_offends_end; [exact Hg|]. right. eauto. Qed.

  Lemma hist_no_inf_inner name pre grp nxt post b :
    hgroup name grp -> grp_last_bound name grp = Some b -> num_eqb b num_inf = false ->
    hsfx name nxt <> [] ->
    (forall g, gfs name nxt = Ok g ->
               om_optdict_eqb g (fst (hgroup_end name grp)) = false \/
               ts_eqb (os_ts nxt) (snd (hgroup_end name grp)) = false) ->
    forall st, is_err (hist_run name st (pre ++ grp ++ nxt :: post)).
  Proof. intros Hg Hb Hne. apply hist_group_offends_inner; [exact Hg|]. right. eauto. Qed.

  (* bounds not strictly increasing / counts not cumulative between two buckets of one group that are consecutive
     among its buckets: other samples of the group (_count, _sum, _created, ...) may stand between them *)
  Lemma hist_buckets_in_group name pre s1 mid s2 post l1 l2 b1 b2 :
    is_bucket_of NUM parse_float name s1 l1 b1 -> is_bucket_of NUM parse_float name s2 l2 b2 ->
    hchain name (Some (d_remove str_eqb l1 OM_le)) (os_ts s1) (mid ++ [s2]) -> Forall (nonbucket name) mid ->
    num_le b2 b1 = true
    \/ (match os_value s1, os_value s2 with Some v1, Some v2 => num_lt v2 v1 = true | _, _ => True end) ->
    forall st, is_err (hist_run name st (pre ++ s1 :: mid ++ s2 :: post)).
  Proof.
    intros B1 B2 Hc Hnb Hbad st. rewrite hist_run_app. apply is_err_bind. intros st1 _.
    cbn [om_check_hist_run]. apply is_err_bind. intros st2 E1.
    destruct (hist_step_bucket NUM parse_float num_lt num_eqb num_zero num_inf name st1 s1 l1 b1 st2 B1 E1)
      as (G & T & h & Hh & Hb & Hv).
    rewrite hist_run_app. apply is_err_bind. intros st3 E2. cbn [om_check_hist_run]. apply is_err_bind_l.
    apply hchain_app in Hc as [Hc1 Hc2]. rewrite <- G, <- T in Hc1.
    destruct (hist_run_chain name mid st2 st3 Hc1 E2) as (A & Bt & C).
    rewrite Hh in C. destruct C as (h3 & C1 & C2 & _ & C4).
    assert (C4' : hv_bucket h3 = hv_bucket h).
    { rewrite C4. clear - Hnb. induction Hnb as [|x r Hx _ IH]; cbn [fold_left]; [reflexivity|].
      unfold step_bnd at 2. unfold nonbucket in Hx. rewrite Hx. exact IH. }
    rewrite G, T in A, Bt. rewrite <- A, <- Bt in Hc2.
    destruct B2 as (Hn2 & Hl2 & lev & Hf2 & Hp2).
    pose proof (group_of_bucket NUM s2 name l2 lev Hn2 Hl2 Hf2) as Hg2.
    cbn [hchain] in Hc2. unfold hsfx in Hc2. rewrite Hn2, skipn_app_len in Hc2. unfold OM_bucket at 1 in Hc2.
    destruct Hc2 as (_ & He & Ht & _). unfold hkey in He. rewrite Hg2 in He.
    destruct (hs_group st3) as [g3|] eqn:G3; [|discriminate]. cbn [om_optdict_eqb] in He.
    eapply (hist_step_bucket_after NUM parse_float num_lt num_eqb num_zero num_inf name st3 s2 l2 b2 g3 h3); eauto.
    - repeat split; eauto.
    - rewrite C4', Hb.
      assert (Hval : hv_value h3 = hv_value h).
      { rewrite C2. clear - Hnb. induction Hnb as [|x r Hx _ IH]; cbn [fold_left]; [reflexivity|].
        unfold step_val at 2. unfold nonbucket in Hx. rewrite Hx. exact IH. }
      rewrite Hval. destruct Hbad as [X|X]; [left; exact X | right].
      rewrite Hv in X. destruct (os_value s2); auto.
  Qed.

  (* ---- from the sample list of the family in progress to the document ---- *)
  Notation BadFamilyS := (BadFamily NUM parse_float num_lt num_eqb num_zero num_inf).
  Notation BadRunS := (BadRun NUM parse_float num_lt num_eqb num_zero num_inf).

  (* a line that closes the family in progress fails when build_metric fails on it *)
  Lemma closing_meta_rejected st l kw x p3 :
    reads_meta l kw x p3 -> st_name st <> Some x -> is_err (flush st) -> is_err (step st l).
  Proof.
    intros R Hne Hf. apply step_err_comment; [eapply reads_meta_comment; eauto|].
    apply not_ok_is_err. intros [st' out] E.
    destruct (meta_line_opens st l kw x p3 st' out R Hne E) as (seen' & F & _).
    eapply is_err_not_ok; eauto.
  Qed.

  Lemma closing_sample_rejected st l s :
    is_sample_line l = true -> read_sample (st_typ st) l = Ok (s, false) ->
    mem_str (os_name s) (st_allowed st) = false -> is_err (flush st) -> is_err (step st l).
  Proof.
    intros Hl Hr Hm Hf. apply step_err_sample; [exact Hl|].
    unfold om_sample_line. rewrite Hr. cbn [bind]. apply is_err_bind_l.
    unfold om_enter_family. rewrite Hm. cbn [negb andb]. apply is_err_bind_l. exact Hf.
  Qed.

  Lemma step_eof_flush st st' out : step st OM_EOF = Ok (st', out) -> flush st' = flush st.
  Proof.
    unfold om_step_line. destruct (st_eof st); [discriminate|].
    change (str_eqb OM_EOF OM_EOF) with true. unfold OM_EOF at 1. cbv iota.
    intro H. inversion H; subst. reflexivity.
  Qed.

  (* the family in progress when '# EOF' closes the document *)
  Lemma flush_err_at_eof pre st acc :
    prefix st0 pre [] = Ok (st, acc) -> is_err (flush st) -> is_err (run st0 (pre ++ [OM_EOF]) []).
  Proof.
    intros E Hf. rewrite run_app, E. cbn [bind om_run_lines].
    apply is_err_bind. intros [st' out] E2. cbn. apply is_err_bind_l.
    rewrite (step_eof_flush st st' out E2). exact Hf.
  Qed.

  (* =========================== (f) timestamps inside a group, at document level =========================== *)
  Lemma sample_line_group_err st line s name :
    read_sample (st_typ st) line = Ok (s, false) ->
    mem_str (os_name s) (st_allowed st) = true -> st_name st = Some name ->
    is_err (group_step st name s) -> is_err (sample_line st line).
  Proof.
    intros Hr Hm Hn Hc. unfold om_sample_line. rewrite Hr. cbn [bind].
    unfold om_enter_family. rewrite Hm. cbn [negb andb bind]. rewrite Hn.
    apply is_err_bind. intros [] _. apply is_err_bind_l. exact Hc.
  Qed.

  (* an accepted sample line of the family in progress becomes the reference of its group *)
  Lemma sample_line_after st line s name st' out :
    read_sample (st_typ st) line = Ok (s, false) ->
    mem_str (os_name s) (st_allowed st) = true -> st_name st = Some name ->
    sample_line st line = Ok (st', out) ->
    exists gd, om_group_for_sample s name (match st_typ st with Some t => t | None => [] end) = Ok (Some gd) /\
               st_group st' = Some (sort_kv gd) /\ st_gts st' = os_ts s /\
               st_name st' = Some name /\ st_typ st' = st_typ st /\ st_allowed st' = st_allowed st.
  Proof.
    intros Hr Hm Hn H. unfold om_sample_line in H. rewrite Hr in H. cbn [bind] in H.
    unfold om_enter_family in H. rewrite Hm in H. cbn [negb andb bind] in H. rewrite Hn in H.
    apply bind_ok in H as ([] & _ & H). apply bind_ok in H as (st2 & Hg & H).
    apply bind_ok in H as ([] & _ & H). inversion H; subst st2 out; clear H.
    cbn [negb] in Hg. unfold om_group_step in Hg.
    apply bind_ok in Hg as (go & Ego & Hg). apply bind_ok in Hg as (gd & Egd & Hg).
    destruct go as [gd'|]; [|discriminate]. inversion Egd; subst gd'; clear Egd.
    exists gd. split; [exact Ego|].
    crack Hg; inversion Hg; subst; clear Hg; cbn; auto.
  Qed.

  Definition ts_violation (typ : option str) (prev cur : option (om_tsv NUM)) : Prop :=
    match cur, prev with
    | None, Some _ | Some _, None => True                                   (* present on only part of the group *)
    | Some b, Some a => om_ts_gt fix_tsmix NUM num_lt ts_float a b = Ok true /\ om_typ_is typ OM_info = false
    | None, None => False
    end.

  (* two consecutive sample lines of one group of the family in progress *)
  Lemma timestamps_two_lines_document a l1 l2 b st acc name s1 s2 gd1 gd2 :
    prefix st0 a [] = Ok (st, acc) -> st_name st = Some name ->
    mem_str (os_name s1) (st_allowed st) = true -> mem_str (os_name s2) (st_allowed st) = true ->
    is_sample_line l1 = true -> is_sample_line l2 = true ->
    read_sample (st_typ st) l1 = Ok (s1, false) -> read_sample (st_typ st) l2 = Ok (s2, false) ->
    om_group_for_sample s1 name (match st_typ st with Some t => t | None => [] end) = Ok (Some gd1) ->
    om_group_for_sample s2 name (match st_typ st with Some t => t | None => [] end) = Ok (Some gd2) ->
    om_kvs_eqb (sort_kv gd2) (sort_kv gd1) = true ->
    ts_violation (st_typ st) (os_ts s1) (os_ts s2) ->
    is_err (run st0 (a ++ l1 :: l2 :: b) []).
  Proof.
    intros Ea Hn Hm1 Hm2 Hl1 Hl2 Hr1 Hr2 Hg1 Hg2 Hk Hv.
    rewrite run_app, Ea. cbn [bind om_run_lines].
    apply is_err_bind. intros [st1 out1] E1. cbn. apply is_err_bind_l.
    pose proof E1 as E0. apply step_ok_cases in E0 as (Eof & _).
    rewrite step_sample_line in E1 by assumption.
    destruct (sample_line_after st l1 s1 name st1 out1 Hr1 Hm1 Hn E1) as (gd & Eg & G & T & N & Ty & Al).
    rewrite Hg1 in Eg. inversion Eg; subst gd; clear Eg.
    apply step_err_sample; [exact Hl2|].
    eapply sample_line_group_err; [rewrite Ty; exact Hr2 | rewrite Al; exact Hm2 | exact N |].
    eapply (group_step_ts_rejected fix_tsmix NUM num_lt num_eqb ts_float st1 name s2 gd2 (sort_kv gd1)).
    - rewrite Ty. exact Hg2.
    - exact G.
    - exact Hk.
    - rewrite T, Ty. unfold ts_violation in Hv.
      destruct (os_ts s2), (os_ts s1); auto.
  Qed.

  (* ---- the concrete metadata lines meet the reading hypothesis ---- *)
  Lemma reads_meta_legacy kw n text :
    skipsp kw -> is_valid_legacy_metric_name n = true ->
    reads_meta (HASH :: SP :: kw ++ SP :: n ++ SP :: text) kw n text.
  Proof.
    intros Hk Hn. destruct (legacy_name_token n Hn) as [Hs Hu].
    exists [HASH], n, [], false. split; [eexists; reflexivity|]. split; [apply om_split_meta; assumption | apply Hu].
  Qed.

  Lemma reads_meta_quoted kw n text :
    skipsp kw -> reads_meta (HASH :: SP :: kw ++ SP :: quote (escape n) ++ SP :: text) kw n text.
  Proof.
    intros Hk. destruct (quoted_name_token n) as [Hs Hu].
    exists [HASH], (quote (escape n)), [], true. split; [eexists; reflexivity|].
    split; [apply om_split_meta; assumption | apply Hu].
  Qed.

  Lemma skipsp_keywords : skipsp OM_HELP /\ skipsp OM_TYPE /\ skipsp OM_UNIT.
  Proof. repeat split; apply skipsp_plain; vm_compute; repeat constructor; discriminate. Qed.

  (* ---- histogram: from the sample list to the document ---- *)
  Lemma hist_count_mismatch_document pre post st acc name spre grp nxt spost vb c :
    prefix st0 pre [] = Ok (st, acc) -> st_name st = Some name ->
    hist_typ (st_typ st) -> rev (st_samples st) = spre ++ grp ++ nxt :: spost ->
    hgroup name grp -> grp_bucket_value name grp = Some vb -> grp_count name grp = Some c -> num_eqb vb c = false ->
    hsfx name nxt <> [] ->
    (forall g, gfs name nxt = Ok g ->
               om_optdict_eqb g (fst (hgroup_end name grp)) = false \/
               ts_eqb (os_ts nxt) (snd (hgroup_end name grp)) = false) ->
    is_err (run st0 (pre ++ post) []).
  Proof.
    intros E Hn Ht Hs Hg Hv Hc Hne Hx Hd.
    eapply (BadRun_document legacy guard_fix fix_nhkeys fix_nhsfx fix_tsmix fix_isnan fix_unit fix_quote fix_tsexp fix_sname
              NUM parse_num parse_float parse_int num_lt num_eqb num_isinf num_integral num_huge num_zero num_one num_inf
              ts_float is_word is_space_re is_digit_re pre post st acc E).
    exists name. split; [exact Hn|]. split; [exact Ht|]. rewrite Hs.
    eapply hist_count_mismatch_inner; eauto.
  Qed.

  Lemma hist_count_mismatch_last_document pre st acc name spre grp vb c :
    prefix st0 pre [] = Ok (st, acc) -> st_name st = Some name ->
    hist_typ (st_typ st) -> rev (st_samples st) = spre ++ grp ->
    hgroup name grp -> grp_bucket_value name grp = Some vb -> grp_count name grp = Some c -> num_eqb vb c = false ->
    is_err (flush st).
  Proof.
    intros E Hn Ht Hs Hg Hv Hc Hne.
    apply (flush_bad legacy NUM parse_float num_lt num_eqb num_zero num_inf).
    exists name. split; [exact Hn|]. split; [exact Ht|]. rewrite Hs.
    eapply hist_count_mismatch_end; eauto.
  Qed.

  (* the same for either way a group offends its end-of-group checks *)
  Lemma hist_group_offends_document pre post st acc name spre grp nxt spost :
    prefix st0 pre [] = Ok (st, acc) -> st_name st = Some name ->
    hist_typ (st_typ st) -> rev (st_samples st) = spre ++ grp ++ nxt :: spost ->
    hgroup name grp -> grp_offends name grp ->
    hsfx name nxt <> [] ->
    (forall g, gfs name nxt = Ok g ->
               om_optdict_eqb g (fst (hgroup_end name grp)) = false \/
               ts_eqb (os_ts nxt) (snd (hgroup_end name grp)) = false) ->
    is_err (run st0 (pre ++ post) []).
  Proof.
    intros E Hn Ht Hs Hg Hbad Hx Hd.
    eapply (BadRun_document legacy guard_fix fix_nhkeys fix_nhsfx fix_tsmix fix_isnan fix_unit fix_quote fix_tsexp fix_sname
              NUM parse_num parse_float parse_int num_lt num_eqb num_isinf num_integral num_huge num_zero num_one num_inf
              ts_float is_word is_space_re is_digit_re pre post st acc E).
    exists name. split; [exact Hn|]. split; [exact Ht|]. rewrite Hs.
    eapply hist_group_offends_inner; eauto.
  Qed.

  Lemma hist_group_offends_flush pre st acc name spre grp :
    prefix st0 pre [] = Ok (st, acc) -> st_name st = Some name ->
    hist_typ (st_typ st) -> rev (st_samples st) = spre ++ grp ->
    hgroup name grp -> grp_offends name grp ->
    is_err (flush st).
  Proof.
    intros E Hn Ht Hs Hg Hbad.
    apply (flush_bad legacy NUM parse_float num_lt num_eqb num_zero num_inf).
    exists name. split; [exact Hn|]. split; [exact Ht|]. rewrite Hs.
    eapply hist_group_offends_end; eauto.
  Qed.

  (* ---- counts not integral, at document level (composition of the per-sample rule and the two liftings) ---- *)
  Lemma count_integral_document a l b st acc name s v :
    prefix st0 a [] = Ok (st, acc) -> st_name st = Some name -> is_sample_line l = true ->
    read_sample (st_typ st) l = Ok (s, false) -> mem_str (os_name s) (st_allowed st) = true ->
    os_name s = name ++ OM_bucket \/ os_name s = name ++ OM_count \/ os_name s = name ++ OM_gcount ->
    os_value s = Some v -> num_integral v = false ->
    is_err (run st0 (a ++ l :: b) []).
  Proof.
    intros E Hn Hl Hr Hm Hs Hv Hi. rewrite run_app, E. cbn [bind om_run_lines]. apply is_err_bind_l.
    apply step_err_sample; [exact Hl|].
    eapply (sample_line_checks_err legacy guard_fix fix_nhkeys fix_nhsfx fix_tsmix fix_isnan fix_quote fix_tsexp fix_sname
              NUM parse_num parse_float parse_int num_lt num_eqb num_isinf num_integral num_huge num_zero num_one num_inf
              ts_float is_word is_space_re is_digit_re st l s name Hr Hm Hn).
    left. eapply pre_nonintegral_rejected; eauto.
  Qed.

  (* ---- the repaired duplicate suppression: a later exposure of a group is recorded ---- *)
  (* the sample that moves the group to another timestamp is recorded, and it is then the only member of the duplicate
     set: the next sample of the group at that timestamp is recorded too unless it is the same series *)
  Lemma group_step_dedup st name s l st' :
    group_step st name s = Ok st' -> os_labels s = Some l ->
    exists gs, (gs = [] \/ gs = st_gts_samples st) /\
      st_gts_samples st' = (os_name s, sort_kv l) :: (if negb (ts_eqb (os_ts s) (st_gts st)) then [] else gs) /\
      st_samples st' =
        (if negb (ts_eqb (os_ts s) (st_gts st))
            || negb (om_mem_sid (os_name s, sort_kv l) (if negb (ts_eqb (os_ts s) (st_gts st)) then [] else gs))
         then s :: st_samples st else st_samples st) /\
      st_gts st' = os_ts s.
  Proof.
    intros H Hl. unfold om_group_step in H.
    apply bind_ok in H as (go & _ & H). apply bind_ok in H as (gd & _ & H).
    match type of H with (if ?c then _ else _) = _ => destruct c end; [discriminate|].
    apply bind_ok in H as (gs & Egs & H). unfold om_labels_of in H. rewrite Hl in H. cbn [bind] in H.
    inversion H; subst; clear H. exists gs. split.
    - crack Egs; inversion Egs; subst; auto.
    - cbn. repeat split; reflexivity.
  Qed.

  Lemma later_exposure_recorded st name s1 s2 l1 l2 st1 st2 :
    group_step st name s1 = Ok st1 -> ts_eqb (os_ts s1) (st_gts st) = false ->
    group_step st1 name s2 = Ok st2 ->
    os_labels s1 = Some l1 -> os_labels s2 = Some l2 ->
    om_sid_eqb (os_name s2, sort_kv l2) (os_name s1, sort_kv l1) = false ->
    st_samples st2 = s2 :: s1 :: st_samples st.
  Proof.
    intros H1 Ht H2 Hl1 Hl2 Hne.
    destruct (group_step_dedup st name s1 l1 st1 H1 Hl1) as (g1 & _ & A2 & A1 & _).
    destruct (group_step_dedup st1 name s2 l2 st2 H2 Hl2) as (g2 & G2 & _ & B1 & _).
    rewrite Ht in A1, A2. cbn [negb orb] in A1, A2.
    rewrite B1, A1.
    destruct (negb (ts_eqb (os_ts s2) (st_gts st1))); [reflexivity|].
    destruct G2 as [-> | ->]; [reflexivity|]. rewrite A2. cbn [om_mem_sid]. rewrite Hne. reflexivity.
  Qed.

  Lemma BadUnit_document pre post st acc :
    prefix st0 pre [] = Ok (st, acc) -> BadUnit st -> is_err (run st0 (pre ++ post) []).
  Proof. intros E B. rewrite run_app, E. cbn. apply BadUnit_run. exact B. Qed.

  Lemma closing_meta_document pre l post st acc kw x p3 :
    prefix st0 pre [] = Ok (st, acc) -> is_err (flush st) -> reads_meta l kw x p3 -> st_name st <> Some x ->
    is_err (run st0 (pre ++ l :: post) []).
  Proof.
    intros E F R N. rewrite run_app, E. cbn [bind om_run_lines]. apply is_err_bind_l.
    eapply closing_meta_rejected; eassumption.
  Qed.

  Lemma closing_sample_document pre l post st acc s :
    prefix st0 pre [] = Ok (st, acc) -> is_err (flush st) ->
    is_sample_line l = true -> read_sample (st_typ st) l = Ok (s, false) ->
    mem_str (os_name s) (st_allowed st) = false ->
    is_err (run st0 (pre ++ l :: post) []).
  Proof.
    intros E F L R M. rewrite run_app, E. cbn [bind om_run_lines]. apply is_err_bind_l.
    eapply closing_sample_rejected; eassumption.
  Qed.
  (* =========================== (g) the native-histogram exemption belongs to the line =========================== *)
  (* Whether a sample line skips the group block and the family switch is decided by that line and the type of the family
     in progress alone: outside a histogram family no line is read as a native histogram, whatever lines (native
     histograms included) were read before. *)
  Lemma read_sample_flag typ line s nh :
    om_typ_is typ OM_histogram = false -> read_sample typ line = Ok (s, nh) -> nh = false.
  Proof.
    intros Ht H. unfold om_read_sample in H. rewrite Ht in H.
    apply bind_ok in H as (s' & _ & H). inversion H. reflexivity.
  Qed.

  Lemma sample_line_group_err_any_flag st line s nh name :
    om_typ_is (st_typ st) OM_histogram = false -> read_sample (st_typ st) line = Ok (s, nh) ->
    mem_str (os_name s) (st_allowed st) = true -> st_name st = Some name ->
    is_err (group_step st name s) -> is_err (sample_line st line).
  Proof.
    intros Ht Hr. pose proof (read_sample_flag _ _ _ _ Ht Hr) as ->. apply sample_line_group_err. exact Hr.
  Qed.

  Lemma timestamps_two_lines_any_flag a l1 l2 b st acc name s1 s2 nh1 nh2 gd1 gd2 :
    prefix st0 a [] = Ok (st, acc) -> st_name st = Some name -> om_typ_is (st_typ st) OM_histogram = false ->
    mem_str (os_name s1) (st_allowed st) = true -> mem_str (os_name s2) (st_allowed st) = true ->
    is_sample_line l1 = true -> is_sample_line l2 = true ->
    read_sample (st_typ st) l1 = Ok (s1, nh1) -> read_sample (st_typ st) l2 = Ok (s2, nh2) ->
    om_group_for_sample s1 name (match st_typ st with Some t => t | None => [] end) = Ok (Some gd1) ->
    om_group_for_sample s2 name (match st_typ st with Some t => t | None => [] end) = Ok (Some gd2) ->
    om_kvs_eqb (sort_kv gd2) (sort_kv gd1) = true ->
    ts_violation (st_typ st) (os_ts s1) (os_ts s2) ->
    is_err (run st0 (a ++ l1 :: l2 :: b) []).
  Proof.
    intros Ea Hn Ht Hm1 Hm2 Hl1 Hl2 Hr1 Hr2.
    pose proof (read_sample_flag _ _ _ _ Ht Hr1) as F1. pose proof (read_sample_flag _ _ _ _ Ht Hr2) as F2. subst nh1 nh2.
    eapply timestamps_two_lines_document; eassumption.
  Qed.

  (* a sample whose name the family in progress does not allow is never attached to it: the family is closed - its closing
     checks run - and the sample starts an unknown family of its own name.  In every family that is not a histogram,
     for every setting of the flags; in the repaired source (fix_nhsfx, fixes/C15-om-native-foreign-name.diff) also in a
     histogram family, as soon as the sample does not carry the family's own name (a native-histogram sample named like
     the family is the one exemption; the pinned source exempted every native sample). *)
  Lemma opt_str_neq (o : option str) x : o <> Some x -> om_opt_str_eqb o x = false.
  Proof.
    intro N. destruct o as [y|]; [|reflexivity]. unfold om_opt_str_eqb. apply str_eqb_neq. intro E. apply N. congruence.
  Qed.

  (* repaired source: a native-histogram sample of a foreign name is rejected *)
  Lemma foreign_native_sample_rejected st line s :
    fix_nhsfx = true -> read_sample (st_typ st) line = Ok (s, true) ->
    mem_str (os_name s) (st_allowed st) = false -> st_name st <> Some (os_name s) ->
    is_err (sample_line st line).
  Proof.
    intros Hfix Hr Hm Hn. unfold om_sample_line. rewrite Hr. cbn [bind]. apply is_err_bind_l.
    unfold om_enter_family. rewrite Hm, Hfix, (opt_str_neq _ _ Hn). cbn [negb andb orb]. eexists. reflexivity.
  Qed.

  Lemma foreign_native_sample_document pre l post st acc s :
    fix_nhsfx = true -> prefix st0 pre [] = Ok (st, acc) ->
    is_sample_line l = true -> read_sample (st_typ st) l = Ok (s, true) ->
    mem_str (os_name s) (st_allowed st) = false -> st_name st <> Some (os_name s) ->
    is_err (run st0 (pre ++ l :: post) []).
  Proof.
    intros Hfix E L R M N. rewrite run_app, E. cbn [bind om_run_lines]. apply is_err_bind_l.
    apply step_err_sample; [exact L|]. eapply foreign_native_sample_rejected; eassumption.
  Qed.

  (* ... so in the repaired source an attached native-histogram sample carries the name of the family in progress
     (or one of its allowed names) *)
  Lemma native_sample_attached_own_name st line s st' out :
    fix_nhsfx = true -> read_sample (st_typ st) line = Ok (s, true) -> sample_line st line = Ok (st', out) ->
    st_name st = Some (os_name s) \/ mem_str (os_name s) (st_allowed st) = true.
  Proof.
    intros Hfix Hr H. destruct (mem_str (os_name s) (st_allowed st)) eqn:Hm; [right; reflexivity|]. left.
    destruct (om_opt_str_eqb (st_name st) (os_name s)) eqn:E.
    - destruct (st_name st) as [n|]; [|discriminate]. unfold om_opt_str_eqb in E. apply str_eqb_eq in E. congruence.
    - exfalso. eapply is_err_not_ok; [|exact H]. apply (foreign_native_sample_rejected st line s Hfix Hr Hm).
      intro X. rewrite X in E. unfold om_opt_str_eqb in E. rewrite str_eqb_refl in E. discriminate.
  Qed.

  Lemma foreign_sample_switches_family st line s nh st' out :
    om_typ_is (st_typ st) OM_histogram = false \/ (fix_nhsfx = true /\ st_name st <> Some (os_name s)) ->
    read_sample (st_typ st) line = Ok (s, nh) ->
    mem_str (os_name s) (st_allowed st) = false -> sample_line st line = Ok (st', out) ->
    st_allowed st' = [os_name s] /\ st_typ st' = Some OM_unknown /\ (exists seen', flush st = Ok (out, seen')) /\ nh = false.
  Proof.
    intros Hc Hr Hm H.
    assert (Hnh : nh = false).
    { destruct Hc as [Ht|[Hfix Hn]]; [exact (read_sample_flag _ _ _ _ Ht Hr)|].
      destruct nh; [|reflexivity]. exfalso. eapply is_err_not_ok; [|exact H].
      eapply foreign_native_sample_rejected; eassumption. }
    subst nh.
    unfold om_sample_line in H. rewrite Hr in H. cbn [bind] in H.
    unfold om_enter_family in H. rewrite Hm in H. cbn [negb andb] in H.
    apply bind_ok in H as ([st1 out1] & He & H).
    apply bind_ok in He as ([fams seen'] & Hf & He). apply bind_ok in He as (cand & _ & He).
    inversion He; subst st1 out1; clear He. cbn [st_name om_new_family] in H.
    apply bind_ok in H as ([] & _ & H). apply bind_ok in H as (st2 & Hg & H).
    apply bind_ok in H as ([] & _ & H). inversion H; subst st2 out; clear H.
    cbn [negb] in Hg. apply group_step_fields in Hg as (_ & _ & G3 & _ & _ & G6 & _).
    rewrite G3, G6. cbn. repeat split. exists seen'. exact Hf.
  Qed.
End R.
