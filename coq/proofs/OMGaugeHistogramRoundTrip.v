(* C04 L5, gaugehistogram: per label set the buckets with increasing bounds ending in +Inf (exemplars allowed), then
   optionally _gcount and _gsum (the latter may be negative when a bound is) - the second flavour of the histogram
   argument of proofs/OMHistogramRoundTrip.v, whose definitions (bound_of, hgd, hkey, bchain, lastb, lastv, negf,
   same_route, new_route) are reused. *)
From V Require Import lib.PyBase lib.Tac lib.PyStr model.Utils model.Validation model.Expo model.TextParser model.OMParser
  proofs.LabelRoundTrip proofs.OMSampleRoundTrip proofs.OMDocRoundTrip proofs.OMCounterRoundTrip proofs.OMFamilyRoundTrip
  proofs.OMGroupingFacts proofs.OMSummaryRoundTrip proofs.OMGaugeCounterInst proofs.OMHistogramRoundTrip.
From Coq Require Import Permutation.
Ltac Zify.zify_post_hook ::= Z.to_euclidean_division_equations.
Open Scope N_scope.

Section GaugeHistogram.
  Variable fix_nhkeys fix_nhsfx fix_tsmix fix_isnan fix_tsexp fix_sname : bool.
  Variable NUM : Type.
  Variable parse_num parse_float : str -> option NUM.
  Variable parse_int : str -> option Z.
  Variable num_lt num_eqb : NUM -> NUM -> bool.
  Variable num_isinf num_integral num_huge : NUM -> bool.
  Variable num_zero num_one num_inf : NUM.
  Variable ts_float : Z -> Z -> option NUM.
  Variable is_word is_space_re is_digit_re : char -> bool.
  Variable val_of : sample -> NUM.
  Variable ts_of : sample -> option (om_tsv NUM).
  Variable ex_of : sample -> option (om_exemplar NUM).
  Variable n : str.

  Notation ps := (g_ps_of NUM val_of ts_of ex_of).
  Notation rd_ok := (read_ok fix_tsexp NUM parse_num parse_float parse_int num_eqb num_isinf val_of ts_of ex_of).
  Notation num_le := (om_num_le NUM num_lt num_eqb).
  Notation cnt_ok := (counts_ok fix_isnan NUM num_lt num_eqb num_huge num_zero).
  Notation pre_checks := (om_pre_checks NUM parse_float num_lt num_eqb num_integral num_zero num_one num_inf).
  Notation post_checks := (om_post_checks fix_isnan NUM num_lt num_eqb num_huge num_zero num_one).
  Notation s_acc := (sample_acc fix_nhkeys fix_nhsfx fix_isnan fix_tsexp NUM parse_num parse_float parse_int num_lt num_eqb
                       num_isinf num_integral num_huge num_zero num_one num_inf is_word is_space_re is_digit_re val_of ts_of ex_of).
  Notation f_acc := (family_acc fix_nhkeys fix_nhsfx fix_tsmix fix_isnan fix_tsexp NUM parse_num parse_float parse_int num_lt
                       num_eqb num_isinf num_integral num_huge num_zero num_one num_inf ts_float is_word is_space_re is_digit_re
                       val_of ts_of ex_of).
  Notation hist_step := (om_check_hist_step NUM parse_float num_lt num_eqb num_zero num_inf).
  Notation hist_run := (om_check_hist_run NUM parse_float num_lt num_eqb num_zero num_inf).
  Notation do_checks := (om_do_checks NUM num_eqb num_inf).
  Notation check_hist := (om_check_histogram NUM parse_float num_lt num_eqb num_zero num_inf).
  Notation bnd := (bound_of NUM parse_float).
  Notation hgd_ := (hgd n).
  Notation hkey_ := (hkey n).
  Notation bchain_ := (bchain NUM parse_float num_lt num_eqb val_of).
  Notation lastb_ := (lastb NUM parse_float).
  Notation lastv_ := (lastv NUM val_of).
  Notation negf_ := (negf NUM parse_float num_lt num_zero).
  Notation same_rt := (same_route NUM).
  Notation new_rt := (new_route NUM num_eqb num_inf).

  (* a number (not NaN); it may be negative *)
  Definition number_ok (v : NUM) : Prop := num_eqb v v = true /\ (fix_isnan = true \/ num_huge v = false).

  (* one sample of a gaugehistogram family *)
  Definition om_ghsample_ok (s : sample) : Prop :=
    rd_ok s /\ s_ts_om s = None /\
    ((s_name s = n ++ OM_bucket /\
      (exists lv b, In (OM_le, lv) (s_labels s) /\ parse_float lv = Some b /\ str_eqb lv OM_NaN = false /\
                    num_eqb b num_inf && negb (str_eqb lv OM_pInf) = false) /\
      num_integral (val_of s) = true /\ cnt_ok (val_of s))
     \/ (s_name s = n ++ OM_gcount /\ s_ex s = None /\ num_integral (val_of s) = true /\ cnt_ok (val_of s))
     \/ (s_name s = n ++ OM_gsum /\ s_ex s = None /\ number_ok (val_of s))).

  Lemma ghsample_ts s : om_ghsample_ok s -> ts_of s = None.
  Proof. intros ((_ & _ & _ & _ & Hts & _) & Ht & _). rewrite Ht in Hts. exact Hts. Qed.

  Lemma ghsample_name s : om_ghsample_ok s ->
    exists sfx, s_name s = n ++ sfx /\ (sfx = OM_bucket \/ sfx = OM_gcount \/ sfx = OM_gsum).
  Proof. intros (_ & _ & [(H & _)|[(H & _)|(H & _)]]); eexists; split; eauto. Qed.

  Lemma ghsample_ex s : om_ghsample_ok s -> s_name s <> n ++ OM_bucket -> ex_of s = None.
  Proof.
    intros ((_ & _ & _ & _ & _ & Hex) & _ & [(H & _)|[(_ & He & _)|(_ & He & _)]]) Hn; [contradiction|..];
      rewrite He in Hex; exact Hex.
  Qed.

  Lemma ghsample_bound s : om_ghsample_ok s -> s_name s = n ++ OM_bucket ->
    exists lv b, d_find str_eqb (sort_kv (s_labels s)) OM_le = Some lv /\ parse_float lv = Some b /\ bnd s = Some b /\
                 str_eqb lv OM_NaN = false /\ num_eqb b num_inf && negb (str_eqb lv OM_pInf) = false.
  Proof.
    intros ((_ & Hnd & _) & _ & [(_ & (lv & b & Hin & Hp & H1 & H2) & _)|[(H & _)|(H & _)]]) Hn;
      try (rewrite Hn in H; apply app_inv_head in H; discriminate).
    exists lv, b. pose proof (d_find_sorted _ _ _ Hnd Hin) as Hf. unfold bound_of. rewrite Hf. auto.
  Qed.

  Lemma ghsample_gfs typ s : om_ghsample_ok s -> typ = OM_histogram \/ typ = OM_gaugehistogram ->
    om_group_for_sample (ps s) n typ = Ok (Some (hgd_ s)).
  Proof.
    intros Hs Hty. unfold om_group_for_sample, hgd. cbn [os_name os_labels g_ps_of].
    assert (Ht : str_eqb typ OM_info = false /\ str_eqb typ OM_summary = false /\ str_eqb typ OM_stateset = false /\
                 str_eqb typ OM_histogram || str_eqb typ OM_gaugehistogram = true)
      by (destruct Hty as [-> | ->]; repeat split; reflexivity).
    destruct Ht as (-> & -> & -> & ->). cbn [andb].
    destruct (str_eqb (s_name s) (n ++ OM_bucket)) eqn:E; [|reflexivity].
    apply str_eqb_eq in E. destruct (ghsample_bound s Hs E) as (lv & b & Hf & _).
    unfold om_labels_of. cbn [os_labels g_ps_of bind]. unfold d_del, d_mem. rewrite Hf. reflexivity.
  Qed.

  Lemma ghsample_key s : om_ghsample_ok s -> key_of NUM val_of ts_of ex_of OM_gaugehistogram n hkey_ s.
  Proof. intro Hs. exists (hgd_ s). split; [apply ghsample_gfs; auto|reflexivity]. Qed.

  Lemma ghsample_pre s : om_ghsample_ok s -> pre_checks n (Some OM_gaugehistogram) (ps s) = Ok tt.
  Proof.
    intro Hs. unfold om_pre_checks. cbn [os_name os_labels os_value g_ps_of].
    change (om_typ_is (Some OM_gaugehistogram) OM_stateset) with false.
    change (om_typ_is (Some OM_gaugehistogram) OM_summary) with false.
    cbv iota. cbn [bind andb]. pose proof Hs as Hs'.
    destruct Hs as (Hr & Ht & [(Hn & Hle & Hint & _)|[(Hn & _ & Hint & _)|(Hn & _)]]); rewrite Hn.
    - destruct (ghsample_bound s Hs' Hn) as (lv & b & Hf & Hp & _ & Hnan & Hun).
      rewrite str_eqb_refl. unfold om_labels_of. cbn [os_labels g_ps_of bind]. rewrite Hf, Hnan.
      unfold om_uncanonical. rewrite Hp. cbn [bind]. rewrite Hun. cbn [bind]. unfold om_not_integral. rewrite Hint. cbn [negb bind].
      rewrite !str_eqb_app_head. reflexivity.
    - rewrite !str_eqb_app_head. change (str_eqb OM_bucket OM_gcount) with false. change (str_eqb OM_count OM_gcount) with false.
      change (str_eqb OM_gcount OM_gcount) with true. cbn [orb bind]. unfold om_not_integral. rewrite Hint. reflexivity.
    - rewrite !str_eqb_app_head. reflexivity.
  Qed.

  Lemma number_isnan v : number_ok v -> om_isnan fix_isnan NUM num_eqb num_huge (Some v) = Ok false.
  Proof.
    intros (Hnan & Hhuge). unfold om_isnan, om_num_nan. rewrite Hnan. destruct Hhuge as [-> | ->]; [reflexivity|].
    destruct fix_isnan; reflexivity.
  Qed.

  Lemma ghsample_post s : om_ghsample_ok s -> post_checks n (Some OM_gaugehistogram) (ps s) = Ok tt.
  Proof.
    intro Hs. pose proof (ghsample_ex s Hs) as Hex. destruct Hs as (Hr & Ht & Hk).
    unfold om_post_checks. cbn [os_name os_value os_ex g_ps_of].
    change (om_typ_is (Some OM_gaugehistogram) OM_stateset) with false. change (om_typ_is (Some OM_gaugehistogram) OM_info) with false.
    change (om_typ_is (Some OM_gaugehistogram) OM_summary) with false.
    change (om_typ_is (Some OM_gaugehistogram) OM_histogram) with false.
    change (om_typ_is (Some OM_gaugehistogram) OM_gaugehistogram) with true.
    change (om_typ_is (Some OM_gaugehistogram) OM_counter) with false.
    cbn [andb orb]. cbv zeta. cbn [bind].
    destruct Hk as [(Hn & _ & _ & Hc)|[(Hn & _ & _ & Hc)|(Hn & _ & Hc)]]; rewrite Hn;
      rewrite skipn_app, skipn_all, Nat.sub_diag; cbn [skipn app].
    - change (mem_str OM_bucket [OM_total; OM_sum; OM_count; OM_bucket; OM_gcount; OM_gsum]) with true.
      change (mem_str OM_bucket [OM_total; OM_sum; OM_count; OM_bucket; OM_gcount]) with true. cbv iota.
      rewrite (counts_isnan _ _ _ _ _ _ _ Hc). unfold om_value_of. cbn [bind os_value g_ps_of]. destruct Hc as (_ & -> & _).
      cbn [bind]. rewrite ends_with_app. destruct (ex_of s); reflexivity.
    - change (mem_str OM_gcount [OM_total; OM_sum; OM_count; OM_bucket; OM_gcount; OM_gsum]) with true.
      change (mem_str OM_gcount [OM_total; OM_sum; OM_count; OM_bucket; OM_gcount]) with true. cbv iota.
      rewrite (counts_isnan _ _ _ _ _ _ _ Hc). unfold om_value_of. cbn [bind os_value g_ps_of]. destruct Hc as (_ & -> & _).
      cbn [bind]. rewrite Hex; [reflexivity|]. rewrite Hn. intro E. apply app_inv_head in E. discriminate.
    - change (mem_str OM_gsum [OM_total; OM_sum; OM_count; OM_bucket; OM_gcount; OM_gsum]) with true.
      change (mem_str OM_gsum [OM_total; OM_sum; OM_count; OM_bucket; OM_gcount]) with false. cbv iota.
      rewrite (number_isnan _ Hc). cbn [bind].
      rewrite Hex; [reflexivity|]. rewrite Hn. intro E. apply app_inv_head in E. discriminate.
  Qed.

  Lemma ghsample_acc s : om_ghsample_ok s -> s_acc OM_gaugehistogram n s.
  Proof.
    intro Hs. pose proof (ghsample_pre s Hs) as Hpre. pose proof (ghsample_post s Hs) as Hpost.
    destruct (ghsample_name s Hs) as (sfx & Hn & Hsfx). destruct Hs as (Hr & Ht & Hk).
    split; [exact Hr|]. split; [|split; [|split; [exact Hpre|split; [exact Hpost|discriminate]]]].
    - destruct Hk as [(Hb & _)|[(_ & He & _)|(_ & He & _)]]; [right|left; exact He..].
      unfold is_valid_exemplar_metric. rewrite Hb. change S_bucket with OM_bucket. rewrite ends_with_app.
      change (str_eqb OM_gaugehistogram S_gaugehistogram) with true. cbn [andb orb]. rewrite !orb_true_r. reflexivity.
    - rewrite Hn. unfold allowed_names. change (om_type_suffixes OM_gaugehistogram [[]]) with [OM_gcount; OM_gsum; OM_bucket].
      cbn [map mem_str]. rewrite !str_eqb_app_head. destruct Hsfx as [->|[->| ->]]; reflexivity.
  Qed.

  (* ---------- _check_histogram ---------- *)
  Definition GHV (c b : option NUM) (nb gs ng : bool) (v : NUM) : om_hv NUM :=
    {| hv_count := c; hv_bucket := b; hv_negb := nb; hv_sum := false; hv_gsum := gs; hv_neggsum := ng; hv_value := v |}.

  Lemma gh_step_bucket st s h0 b :
    om_ghsample_ok s -> s_name s = n ++ OM_bucket -> bnd s = Some b ->
    (same_rt st (hkey_ s) h0 \/ (new_rt st (hkey_ s) /\ h0 = om_hv_init NUM num_zero)) ->
    (match hv_bucket h0 with Some bk => num_le b bk = false | None => True end) ->
    num_lt (val_of s) (hv_value h0) = false ->
    hist_step n st (ps s)
    = Ok {| hs_group := Some (hgd_ s); hs_ts := None;
            hs_hv := Some {| hv_count := hv_count h0; hv_bucket := Some b;
                             hv_negb := if num_lt b num_zero then true else hv_negb h0; hv_sum := hv_sum h0;
                             hv_gsum := hv_gsum h0; hv_neggsum := hv_neggsum h0; hv_value := val_of s |} |}.
  Proof.
    intros Hs Hn Hb Hroute Hbk Hv. unfold om_check_hist_step.
    rewrite (ghsample_gfs OM_histogram s Hs (or_introl eq_refl)). cbn [bind os_name os_ts os_labels os_value g_ps_of].
    rewrite (ghsample_ts s Hs). rewrite Hn, skipn_app, skipn_all, Nat.sub_diag. cbn [skipn app].
    destruct OM_bucket as [|c0 r0] eqn:Eb; [discriminate|]. rewrite <- Eb.
    match goal with |- bind ?m _ = _ => assert (Hm : m = Ok (Some h0)) end.
    { destruct Hroute as [(gd0 & Hg & Hk & Hts & Hhv)|[(Hts & Hg) ->]].
      - rewrite Hg, Hts, (optdict_same _ _ Hk), Hhv. reflexivity.
      - rewrite Hts. destruct Hg as [Hg|(gd0 & Hg & Hk & Hdc)]; rewrite Hg.
        + reflexivity.
        + rewrite (optdict_diff _ _ Hk), Hdc. reflexivity. }
    rewrite Hm. cbn [bind]. rewrite str_eqb_refl.
    unfold bound_of in Hb. destruct (d_find str_eqb (sort_kv (s_labels s)) OM_le) as [lv|] eqn:Ef; [|discriminate].
    unfold d_get. rewrite Ef. cbn [bind]. rewrite Hb. cbn [bind].
    assert (Hbk' : (match hv_bucket h0 with Some bk => num_le b bk | None => false end) = false)
      by (destruct (hv_bucket h0); [exact Hbk|reflexivity]).
    rewrite Hbk'. unfold om_value_of. cbn [os_value g_ps_of bind]. rewrite Hv. reflexivity.
  Qed.

  Lemma gh_step_gcount st s h0 :
    om_ghsample_ok s -> s_name s = n ++ OM_gcount -> same_rt st (hkey_ s) h0 ->
    hist_step n st (ps s)
    = Ok {| hs_group := Some (hgd_ s); hs_ts := None;
            hs_hv := Some {| hv_count := Some (val_of s); hv_bucket := hv_bucket h0; hv_negb := hv_negb h0;
                             hv_sum := hv_sum h0; hv_gsum := hv_gsum h0; hv_neggsum := hv_neggsum h0;
                             hv_value := hv_value h0 |} |}.
  Proof.
    intros Hs Hn (gd0 & Hg & Hk & Hts & Hhv). unfold om_check_hist_step.
    rewrite (ghsample_gfs OM_histogram s Hs (or_introl eq_refl)). cbn [bind os_name os_ts os_labels os_value g_ps_of].
    rewrite (ghsample_ts s Hs). rewrite Hn, skipn_app, skipn_all, Nat.sub_diag. cbn [skipn app].
    rewrite Hg, Hts, (optdict_same _ _ Hk), Hhv. reflexivity.
  Qed.

  Lemma gh_step_gsum st s h0 :
    om_ghsample_ok s -> s_name s = n ++ OM_gsum -> same_rt st (hkey_ s) h0 ->
    hist_step n st (ps s)
    = Ok {| hs_group := Some (hgd_ s); hs_ts := None;
            hs_hv := Some {| hv_count := hv_count h0; hv_bucket := hv_bucket h0; hv_negb := hv_negb h0;
                             hv_sum := hv_sum h0; hv_gsum := true;
                             hv_neggsum := if num_lt (val_of s) num_zero then true else hv_neggsum h0;
                             hv_value := hv_value h0 |} |}.
  Proof.
    intros Hs Hn (gd0 & Hg & Hk & Hts & Hhv). unfold om_check_hist_step.
    rewrite (ghsample_gfs OM_histogram s Hs (or_introl eq_refl)). cbn [bind os_name os_ts os_labels os_value g_ps_of].
    rewrite (ghsample_ts s Hs). rewrite Hn, skipn_app, skipn_all, Nat.sub_diag. cbn [skipn app].
    rewrite Hg, Hts, (optdict_same _ _ Hk), Hhv. reflexivity.
  Qed.

  Lemma gh_run_buckets l : forall st k pb pv nb rest,
    same_rt st k (GHV None pb nb false false pv) ->
    Forall (fun s => om_ghsample_ok s /\ s_name s = n ++ OM_bucket /\ hkey_ s = k) l ->
    bchain_ pb pv l ->
    exists st', hist_run n st (map ps l ++ rest) = hist_run n st' rest /\
                same_rt st' k (GHV None (lastb_ pb l) (negf_ nb l) false false (lastv_ pv l)).
  Proof.
    induction l as [|s l IH]; intros st k pb pv nb rest Hst Hall Hch.
    - exists st. split; [reflexivity|exact Hst].
    - inversion Hall as [|? ? (Hs & Hn & Hk) Hall']; subst. cbn [bchain] in Hch.
      destruct (bnd s) as [b|] eqn:Eb; [|destruct Hch]. destruct Hch as (Hbk & Hv & Hch).
      cbn [map app om_check_hist_run].
      rewrite (gh_step_bucket st s (GHV None pb nb false false pv) b Hs Hn Eb (or_introl Hst) Hbk Hv). cbn [bind].
      cbn [GHV hv_count hv_bucket hv_negb hv_sum hv_gsum hv_neggsum hv_value].
      match goal with |- exists st', hist_run n ?s1 _ = _ /\ _ =>
        destruct (IH s1 (hkey_ s) (Some b) (val_of s) (if num_lt b num_zero then true else nb) rest) as (st' & Hrun & Hst'); auto end.
      { exists (hgd_ s). repeat split; reflexivity. }
      exists st'. split; [exact Hrun|]. unfold lastb, lastv, negf in *. cbn [fold_left]. rewrite Eb. exact Hst'.
  Qed.

  (* one group: buckets, then optionally _gcount and _gsum; a negative _gsum needs a negative bound *)
  Definition ghgroup_ok (grp : list sample) : Prop :=
    exists k bks cs, grp = bks ++ cs /\
      Forall (fun s => om_ghsample_ok s /\ hkey_ s = k) grp /\
      bks <> [] /\ Forall (fun s => s_name s = n ++ OM_bucket) bks /\ bchain_ None num_zero bks /\
      (exists b, lastb_ None bks = Some b /\ num_eqb b num_inf = true) /\
      (cs = [] \/ exists c sm, cs = [c; sm] /\ s_name c = n ++ OM_gcount /\ s_name sm = n ++ OM_gsum /\
                               num_eqb (lastv_ num_zero bks) (val_of c) = true /\
                               (num_lt (val_of sm) num_zero = true -> negf_ false bks = true)).

  Definition ghgroup_key (grp : list sample) : list (str * str) := match grp with s :: _ => hkey_ s | [] => [] end.

  Lemma run_ghgroup grp st rest :
    ghgroup_ok grp -> new_rt st (ghgroup_key grp) ->
    exists st' h, hist_run n st (map ps grp ++ rest) = hist_run n st' rest /\
                  same_rt st' (ghgroup_key grp) h /\ do_checks (Some h) = Ok tt.
  Proof.
    intros (k & bks & cs & Eg & Hall & Hne & Hbn & Hch & (bl & Hbl & Hinf) & Hcs) Hnew.
    destruct bks as [|s0 bks]; [congruence|].
    assert (Hk0 : ghgroup_key grp = k).
    { rewrite Eg. cbn [app ghgroup_key]. rewrite Eg in Hall. inversion Hall as [|? ? [_ H] _]. exact H. }
    rewrite Hk0 in *. clear Hk0. rewrite Eg in *. clear Eg.
    apply Forall_app in Hall as [Hb Hcsa].
    inversion Hb as [|? ? [Hs0 Hks0] Hb']; subst. inversion Hbn as [|? ? Hn0 Hbn']; subst.
    cbn [bchain] in Hch. destruct (bnd s0) as [b0|] eqn:Eb0; [|destruct Hch]. destruct Hch as (_ & Hv0 & Hch).
    rewrite !map_app, <- !app_assoc. cbn [map app om_check_hist_run].
    rewrite (gh_step_bucket st s0 (om_hv_init NUM num_zero) b0 Hs0 Hn0 Eb0 (or_intror (conj Hnew eq_refl)) I Hv0).
    cbn [bind om_hv_init hv_count hv_bucket hv_negb hv_sum hv_gsum hv_neggsum hv_value].
    set (st1 := {| hs_group := Some (hgd_ s0); hs_ts := None; hs_hv := _ |}).
    assert (Hst1 : same_rt st1 (hkey_ s0) (GHV None (Some b0) (if num_lt b0 num_zero then true else false) false false (val_of s0)))
      by (exists (hgd_ s0); repeat split; reflexivity).
    destruct (gh_run_buckets bks st1 (hkey_ s0) (Some b0) (val_of s0) _ (map ps cs ++ rest) Hst1) as (st2 & Hrun2 & Hst2); auto.
    { rewrite Forall_forall in *. intros s Hs. destruct (Hb' s Hs) as [H1 H2]. auto. }
    rewrite Hrun2.
    assert (Elb : lastb_ (Some b0) bks = Some bl) by (unfold lastb in *; cbn [fold_left] in Hbl; rewrite Eb0 in Hbl; exact Hbl).
    assert (Elv : lastv_ (val_of s0) bks = lastv_ num_zero (s0 :: bks)) by reflexivity.
    assert (Enf : negf_ (if num_lt b0 num_zero then true else false) bks = negf_ false (s0 :: bks))
      by (unfold negf; cbn [fold_left]; rewrite Eb0; reflexivity).
    rewrite Elb in Hst2.
    destruct Hcs as [->|(c & sm & -> & Hnc & Hnsm & Hceq & Hneg)].
    - exists st2. eexists. split; [reflexivity|]. split; [exact Hst2|].
      unfold om_do_checks, GHV. cbn [hv_bucket hv_count hv_sum hv_gsum hv_negb hv_neggsum hv_value]. rewrite Hinf.
      cbn [negb andb orb]. rewrite !andb_false_r. reflexivity.
    - inversion Hcsa as [|? ? [Hc Hkc] Hcsa']; subst. inversion Hcsa' as [|? ? [Hsm Hksm] _]; subst.
      cbn [map app om_check_hist_run].
      rewrite <- Hkc in Hst2.
      rewrite (gh_step_gcount st2 c _ Hc Hnc Hst2). cbn [bind].
      cbn [GHV hv_count hv_bucket hv_negb hv_sum hv_gsum hv_neggsum hv_value].
      set (st3 := {| hs_group := Some (hgd_ c); hs_ts := None; hs_hv := _ |}).
      assert (Hst3 : same_rt st3 (hkey_ sm) (GHV (Some (val_of c)) (Some bl) (negf_ (if num_lt b0 num_zero then true else false) bks)
                                                false false (lastv_ (val_of s0) bks))).
      { exists (hgd_ c). split; [reflexivity|]. split; [fold (hkey_ c); congruence|]. split; reflexivity. }
      rewrite (gh_step_gsum st3 sm _ Hsm Hnsm Hst3). cbn [bind].
      cbn [GHV hv_count hv_bucket hv_negb hv_sum hv_gsum hv_neggsum hv_value].
      eexists. eexists. split; [reflexivity|]. split.
      + exists (hgd_ sm). split; [reflexivity|]. split; [fold (hkey_ sm); congruence|]. split; reflexivity.
      + unfold om_do_checks. cbn [hv_bucket hv_count hv_sum hv_gsum hv_negb hv_neggsum hv_value]. rewrite Hinf.
        rewrite Elv, Hceq, Enf. cbn [negb andb orb].
        destruct (num_lt (val_of sm) num_zero) eqn:Eg; [rewrite (Hneg eq_refl); reflexivity|].
        rewrite !andb_false_r. reflexivity.
  Qed.

  Lemma run_ghgroups groups : forall st,
    Forall ghgroup_ok groups -> NoDup (map ghgroup_key groups) ->
    hs_ts st = None ->
    (hs_group st = None \/ exists gd0 h, hs_group st = Some gd0 /\ hs_hv st = Some h /\ do_checks (Some h) = Ok tt /\
                                         ~ In (sort_kv gd0) (map ghgroup_key groups)) ->
    exists st', hist_run n st (map ps (concat groups)) = Ok st' /\
                (hs_group st' = None \/ exists h, hs_hv st' = Some h /\ do_checks (Some h) = Ok tt).
  Proof.
    induction groups as [|grp groups IH]; intros st Hok Hnd Hts Hst.
    - exists st. split; [reflexivity|]. destruct Hst as [H|(gd0 & h & _ & Hh & Hd & _)]; [left; exact H|right; eauto].
    - inversion Hok as [|? ? Hg Hoks]; subst. inversion Hnd as [|? ? Hnin Hnd']; subst.
      cbn [concat]. rewrite map_app.
      destruct (run_ghgroup grp st (map ps (concat groups)) Hg) as (st1 & h1 & Hrun & (gd1 & Hg1 & Hk1 & Hts1 & Hhv1) & Hdc).
      { split; [exact Hts|]. destruct Hst as [H|(gd0 & h & Hg0 & Hh & Hd & Hni)]; [left; exact H|right].
        exists gd0. split; [exact Hg0|]. split; [|rewrite Hh; exact Hd]. intro E. apply Hni. left. symmetry. exact E. }
      rewrite Hrun. apply IH; auto. right. exists gd1, h1. repeat split; auto. rewrite Hk1. exact Hnin.
  Qed.

  Theorem check_hist_ghgroups groups :
    Forall ghgroup_ok groups -> NoDup (map ghgroup_key groups) ->
    check_hist (map ps (concat groups)) n = Ok tt.
  Proof.
    intros Hok Hnd. unfold om_check_histogram.
    destruct (run_ghgroups groups {| hs_group := None; hs_ts := None; hs_hv := None |} Hok Hnd eq_refl (or_introl eq_refl))
      as (st' & Hrun & Hst'). rewrite Hrun. cbn [bind].
    destruct Hst' as [->|(h & Hh & Hd)]; [reflexivity|]. rewrite Hh. destruct (hs_group st'); [exact Hd|reflexivity].
  Qed.

  (* ---------- the family ---------- *)
  Definition gaugehistogram_family_wf (f : family) : Prop :=
    f_name f = n /\ n <> [] /\ f_type f = Expo.S_gaugehistogram /\
    (f_unit f = [] \/ ends_with (USCORE :: f_unit f) n = true) /\
    exists groups, f_samples f = concat groups /\ Forall ghgroup_ok groups /\ NoDup (map ghgroup_key groups) /\
                   Forall (fun grp => NoDup (map sid_of grp)) groups.

  Lemma ghgroup_samples grp : ghgroup_ok grp ->
    Forall om_ghsample_ok grp /\ grp <> [] /\ Forall (fun s => hkey_ s = ghgroup_key grp) grp.
  Proof.
    intros (k & bks & cs & Eg & Hall & Hne & _). split; [eapply Forall_impl; [|exact Hall]; intros s [H _]; exact H|].
    assert (Hk : ghgroup_key grp = k).
    { rewrite Eg. destruct bks as [|s0 bks]; [congruence|]. cbn [app ghgroup_key]. rewrite Eg in Hall.
      inversion Hall as [|? ? [_ H] _]. exact H. }
    split; [rewrite Eg; destruct bks; [congruence|discriminate]|].
    rewrite Hk. eapply Forall_impl; [|exact Hall]. intros s [_ H]. exact H.
  Qed.

  Theorem gaugehistogram_family_acc f : gaugehistogram_family_wf f -> f_acc f.
  Proof.
    intros (Hfn & Hne & Hty & Hun & groups & Es & Hok & Hnd & Hsids). unfold family_acc. rewrite Hfn, Hty.
    assert (Hall : Forall om_ghsample_ok (f_samples f)).
    { rewrite Es. apply Forall_concat. eapply Forall_impl; [|exact Hok]. intros grp Hg. apply (ghgroup_samples grp Hg). }
    split; [exact Hne|]. split; [reflexivity|]. split.
    { unfold unit_ok. rewrite Hfn, Hty. destruct Hun as [Hun|Hun]; [left; exact Hun|right]. repeat split; auto. }
    split; [eapply Forall_impl; [|exact Hall]; apply ghsample_acc|].
    split.
    - rewrite Es.
      apply (grun_groups fix_tsmix NUM num_lt num_eqb ts_float val_of ts_of ex_of Expo.S_gaugehistogram n hkey_ groups).
      + rewrite <- Es. eapply Forall_impl; [|exact Hall]. intros s Hs. split; [apply ghsample_key; exact Hs|apply ghsample_ts; exact Hs].
      + rewrite Forall_forall in *. intros grp Hg. destruct (ghgroup_samples grp (Hok grp Hg)) as (_ & Hne' & Hk).
        split; [exact Hne'|]. split; [|apply Hsids; exact Hg].
        destruct grp as [|s0 r0]; [congruence|]. exact Hk.
      + assert (E : map (grp_key hkey_) groups = map ghgroup_key groups) by (apply map_ext; intros [|? ?]; reflexivity).
        rewrite E. exact Hnd.
    - intros _. rewrite Es. apply check_hist_ghgroups; assumption.
  Qed.
End GaugeHistogram.
