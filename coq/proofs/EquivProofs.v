(* Lemmas for C12 (model/Equiv.v): the file-backed run keeps, for every family, exactly the cells of the in-memory
   family in its file (simulation), and the collector's merge of those files is, family by family, the in-memory
   collection up to the intended differences. *)
From V Require Import lib.PyBase lib.Tac.
From V Require model.Multiproc model.MultiprocSpec model.Values model.ValuesSpec model.Gateway.
From V Require proofs.MultiprocProofs proofs.ValuesProofs proofs.GatewayProofs.
From V Require Import model.Metrics proofs.MetricsProofs model.Equiv.
From Coq Require Import Permutation Sorted.
Ltac Zify.zify_post_hook ::= Z.to_euclidean_division_equations.
Open Scope N_scope.

Lemma supported_four k : supported k = true <-> k = KCounter \/ k = KGauge \/ k = KSummary \/ k = KHistogram.
Proof. destruct k; cbn; split; intro H; try discriminate; auto; destruct H as [H|[H|[H|H]]]; discriminate. Qed.

(* ================= association lists with a Leibniz key test ================= *)
Section AssocL.
  Context {K : Type} (keq : K -> K -> bool) (keq_eq : forall a b, keq a b = true <-> a = b).

  Lemma kq_refl a : keq a a = true.
  Proof. apply keq_eq. reflexivity. Qed.
  Lemma kq_neq a b : a <> b -> keq a b = false.
  Proof. intro H. destruct (keq a b) eqn:E; [apply keq_eq in E; contradiction|reflexivity]. Qed.

  Lemma df_notin {V} (d : assoc K V) k : ~ In k (map fst d) -> d_find keq d k = None.
  Proof.
    induction d as [|[k' v] d IH]; cbn [d_find map fst In]; intro H; [reflexivity|].
    rewrite kq_neq by (intro E; apply H; left; congruence). apply IH. intro; apply H; right; assumption.
  Qed.

  Lemma df_in {V} (d : assoc K V) k : In k (map fst d) -> exists v, d_find keq d k = Some v.
  Proof.
    induction d as [|[k' v] d IH]; cbn [d_find map fst In]; intro H; [contradiction|].
    destruct (keq k k') eqn:E; [eauto|]. destruct H as [H|H]; [subst; rewrite kq_refl in E; discriminate|auto].
  Qed.

  Lemma df_some_in {V} (d : assoc K V) k v : d_find keq d k = Some v -> In (k, v) d.
  Proof.
    induction d as [|[k' v'] d IH]; cbn [d_find]; [discriminate|].
    destruct (keq k k') eqn:E; [apply keq_eq in E; subst; intro H; inversion H; left; reflexivity|right; auto].
  Qed.

  Lemma df_app {V} (d1 d2 : assoc K V) k :
    d_find keq (d1 ++ d2) k = match d_find keq d1 k with Some v => Some v | None => d_find keq d2 k end.
  Proof. induction d1 as [|[k' v] d1 IH]; cbn [d_find app]; [reflexivity|]. destruct (keq k k'); auto. Qed.

  Lemma ds_notin {V} (d : assoc K V) k v : ~ In k (map fst d) -> d_set keq d k v = d ++ [(k, v)].
  Proof.
    induction d as [|[k' v'] d IH]; cbn [d_set map fst In app]; intro H; [reflexivity|].
    rewrite kq_neq by (intro E; apply H; left; congruence). f_equal. apply IH. intro; apply H; right; assumption.
  Qed.

  Lemma ds_app_l {V} (d1 d2 : assoc K V) k v : In k (map fst d1) -> d_set keq (d1 ++ d2) k v = d_set keq d1 k v ++ d2.
  Proof.
    induction d1 as [|[k' v'] d1 IH]; cbn [d_set map fst In app]; intro H; [contradiction|].
    destruct (keq k k') eqn:E; [reflexivity|]. cbn [app]. f_equal. apply IH.
    destruct H as [H|H]; [subst; rewrite kq_refl in E; discriminate|assumption].
  Qed.

  Lemma ds_app_r {V} (d1 d2 : assoc K V) k v : ~ In k (map fst d1) -> d_set keq (d1 ++ d2) k v = d1 ++ d_set keq d2 k v.
  Proof.
    induction d1 as [|[k' v'] d1 IH]; cbn [d_set map fst In app]; intro H; [reflexivity|].
    rewrite kq_neq by (intro E; apply H; left; congruence). f_equal. apply IH. intro; apply H; right; assumption.
  Qed.

  Lemma ds_keys {V} (d : assoc K V) k v : In k (map fst d) -> map fst (d_set keq d k v) = map fst d.
  Proof.
    induction d as [|[k' v'] d IH]; cbn [d_set map fst In]; intro H; [contradiction|].
    destruct (keq k k') eqn:E; [reflexivity|]. cbn [map fst]. f_equal. apply IH.
    destruct H as [H|H]; [subst; rewrite kq_refl in E; discriminate|assumption].
  Qed.

  Lemma in_dec_keys {V} (d : assoc K V) k : In k (map fst d) \/ ~ In k (map fst d).
  Proof.
    destruct (d_find keq d k) eqn:E.
    - left. apply df_some_in in E. apply (in_map fst) in E. exact E.
    - right. intro H. apply df_in in H as [v H]. congruence.
  Qed.

  Lemma ds_NoDup {V} (d : assoc K V) k v : NoDup (map fst d) -> NoDup (map fst (d_set keq d k v)).
  Proof.
    intro H. destruct (in_dec_keys d k) as [Hi|Hn].
    - rewrite ds_keys by assumption. exact H.
    - rewrite ds_notin by assumption. rewrite map_app. cbn [map fst].
      apply (ValuesProofs.NoDup_snoc); assumption.
  Qed.

  Lemma df_set {V} (d : assoc K V) k v k' :
    d_find keq (d_set keq d k v) k' = if keq k' k then Some v else d_find keq d k'.
  Proof.
    induction d as [|[k0 v0] d IH]; cbn [d_set d_find].
    - destruct (keq k' k); reflexivity.
    - destruct (keq k k0) eqn:E; cbn [d_find].
      + apply keq_eq in E; subst k0. destruct (keq k' k); reflexivity.
      + destruct (keq k' k0) eqn:E2.
        * apply keq_eq in E2; subst k0. destruct (keq k' k) eqn:E3; [|reflexivity].
          apply keq_eq in E3; subst. rewrite kq_refl in E. discriminate.
        * exact IH.
  Qed.

  (* a dict built by `d[k] = upd(d.get(k), item)` from items with pairwise distinct fresh keys *)
  Lemma dfold_fresh {S A} (upd : option S -> A -> S) (items : list (K * A)) : forall d,
    NoDup (map fst items) -> (forall k, In k (map fst items) -> ~ In k (map fst d)) ->
    Multiproc.dfold keq upd d items = d ++ map (fun ka => (fst ka, upd None (snd ka))) items.
  Proof.
    induction items as [|[k a] items IH]; intros d Hnd Hfresh; cbn [Multiproc.dfold map fst snd].
    - rewrite app_nil_r. reflexivity.
    - cbn [map fst] in Hnd. inversion Hnd as [|? ? Hk Hnd']; subst.
      assert (Hkd : ~ In k (map fst d)) by (apply Hfresh; left; reflexivity).
      rewrite (df_notin d k Hkd), (ds_notin d k _ Hkd). rewrite IH; [rewrite <- app_assoc; reflexivity|assumption|].
      intros k' Hk' Hin. rewrite map_app in Hin. apply in_app_or in Hin as [Hin|Hin].
      + apply (Hfresh k'); [right; assumption|assumption].
      + cbn in Hin. destruct Hin as [<-|[]]. contradiction.
  Qed.

  Lemma set_all_fresh {V} (l : list (K * V)) : forall d,
    NoDup (map fst l) -> (forall k, In k (map fst l) -> ~ In k (map fst d)) ->
    Multiproc.set_all keq d l = d ++ l.
  Proof.
    induction l as [|[k v] l IH]; intros d Hnd Hfresh; cbn [Multiproc.set_all].
    - rewrite app_nil_r. reflexivity.
    - cbn [map fst] in Hnd. inversion Hnd as [|? ? Hk Hnd']; subst.
      assert (Hkd : ~ In k (map fst d)) by (apply Hfresh; left; reflexivity).
      rewrite (ds_notin d k _ Hkd). rewrite IH; [rewrite <- app_assoc; reflexivity|assumption|].
      intros k' Hk' Hin. rewrite map_app in Hin. apply in_app_or in Hin as [Hin|Hin].
      + apply (Hfresh k'); [right; assumption|assumption].
      + cbn in Hin. destruct Hin as [<-|[]]. contradiction.
  Qed.
End AssocL.

Lemma filter_nil_all {A} (p : A -> bool) l : (forall x, In x l -> p x = false) -> filter p l = [].
Proof.
  induction l as [|x l IH]; intro H; cbn [filter]; [reflexivity|].
  rewrite (H x) by (left; reflexivity). apply IH. intros; apply H; right; assumption.
Qed.

Lemma NoDup_app_intro {A} (l1 l2 : list A) :
  NoDup l1 -> NoDup l2 -> (forall x, In x l1 -> ~ In x l2) -> NoDup (l1 ++ l2).
Proof.
  induction l1 as [|a l1 IH]; intros H1 H2 Hd; cbn [app]; [assumption|].
  inversion H1; subst. constructor.
  - intro Hin. apply in_app_or in Hin as [Hin|Hin]; [contradiction|]. apply (Hd a); [left; reflexivity|assumption].
  - apply IH; [assumption|assumption|]. intros x Hx. apply Hd. right. assumption.
Qed.

Lemma NoDup_app_l {A} (l1 l2 : list A) : NoDup (l1 ++ l2) -> NoDup l1.
Proof. induction l1 as [|a l1 IH]; cbn [app]; intro H; [constructor|]. inversion H; subst. constructor; [intro; apply H2; apply in_or_app; left; assumption|auto]. Qed.
Lemma NoDup_app_r {A} (l1 l2 : list A) : NoDup (l1 ++ l2) -> NoDup l2.
Proof. induction l1 as [|a l1 IH]; cbn [app]; intro H; [assumption|]. inversion H; subst. auto. Qed.
Lemma NoDup_app_disj {A} (l1 l2 : list A) x : NoDup (l1 ++ l2) -> In x l1 -> ~ In x l2.
Proof.
  induction l1 as [|a l1 IH]; cbn [app]; intros H H1; [contradiction|]. inversion H; subst.
  destruct H1 as [->|H1]; [intro; apply H3; apply in_or_app; right; assumption|auto].
Qed.

Lemma NoDup_flat_map {A B} (f : A -> list B) (l : list A) :
  NoDup l -> (forall a, In a l -> NoDup (f a)) ->
  (forall a b x, In a l -> In b l -> a <> b -> In x (f a) -> ~ In x (f b)) -> NoDup (flat_map f l).
Proof.
  induction l as [|a l IH]; intros Hnd Hf Hd; cbn [flat_map]; [constructor|].
  inversion Hnd; subst. apply NoDup_app_intro.
  - apply Hf. left. reflexivity.
  - apply IH; [assumption| |]. { intros; apply Hf; right; assumption. }
    intros a' b x Ha Hb. apply Hd; right; assumption.
  - intros x Hx Hin. apply in_flat_map in Hin as [b [Hb Hxb]].
    apply (Hd a b x); [left; reflexivity|right; assumption| |assumption|assumption].
    intro E; subst. contradiction.
Qed.

Lemma flat_map_app_perm {A B} (f g : A -> list B) l :
  Permutation (flat_map (fun a => f a ++ g a) l) (flat_map f l ++ flat_map g l).
Proof.
  induction l as [|a l IH]; cbn [flat_map app]; [constructor|].
  rewrite IH. rewrite <- !app_assoc. apply Permutation_app_head.
  rewrite !app_assoc. apply Permutation_app_tail. apply Permutation_app_comm.
Qed.

Lemma flat_map_singleton {A B} (f : A -> B) l : flat_map (fun a => [f a]) l = map f l.
Proof. induction l; cbn; congruence. Qed.

Lemma find_unique {A} (p : A -> bool) (key : A -> str) l x n :
  (forall y, p y = str_eqb n (key y)) -> NoDup (map key l) -> In x l -> key x = n -> find p l = Some x.
Proof.
  intros Hp. induction l as [|y l IH]; intros Hnd Hin Hk; [contradiction|]. cbn [find].
  cbn [map] in Hnd. inversion Hnd; subst. rewrite Hp.
  destruct Hin as [->|Hin]; [rewrite str_eqb_refl; reflexivity|].
  destruct (str_eqb (key x) (key y)) eqn:E.
  - apply str_eqb_eq in E. exfalso. apply H1. rewrite <- E. apply in_map. assumption.
  - apply IH; auto.
Qed.

Lemma find_none_all {A} (p : A -> bool) l : (forall y, In y l -> p y = false) -> find p l = None.
Proof. induction l as [|y l IH]; intro H; cbn [find]; [reflexivity|]. rewrite H by (left; reflexivity). apply IH. intros; apply H; right; assumption. Qed.

(* ================= label tuples ================= *)
Lemma combine_perm_values (names : list str) : forall (lv1 lv2 : list str), NoDup names ->
  length lv1 = length names -> length lv2 = length names ->
  Permutation (combine names lv1) (combine names lv2) -> lv1 = lv2.
Proof.
  induction names as [|n names IH]; intros [|v1 lv1] [|v2 lv2] Hnd H1 H2 Hp; try discriminate; [reflexivity|].
  cbn [combine] in Hp. inversion Hnd as [|? ? Hn Hnd']; subst.
  assert (Hin : In (n, v1) ((n, v2) :: combine names lv2)) by (eapply Permutation_in; [exact Hp|left; reflexivity]).
  destruct Hin as [E|Hin].
  - inversion E; subst. f_equal. apply IH; auto. eapply Permutation_cons_inv. exact Hp.
  - exfalso. apply Hn. apply in_combine_l in Hin. exact Hin.
Qed.

Lemma lab_inj names lv1 lv2 : NoDup names -> length lv1 = length names -> length lv2 = length names ->
  lab names lv1 = lab names lv2 -> lv1 = lv2.
Proof.
  intros Hnd H1 H2 E. apply (combine_perm_values names); auto.
  unfold lab in E. rewrite (GatewayProofs.sort_items_perm (combine names lv1)), E.
  symmetry. apply GatewayProofs.sort_items_perm.
Qed.

Lemma combine_snoc {A B} (l1 : list A) (l2 : list B) a b : length l1 = length l2 ->
  combine (l1 ++ [a]) (l2 ++ [b]) = combine l1 l2 ++ [(a, b)].
Proof.
  revert l2. induction l1 as [|x l1 IH]; intros [|y l2] H; try discriminate; cbn [combine app]; [reflexivity|].
  f_equal. apply IH. cbn in H. congruence.
Qed.

Lemma map_fst_combine {A B} (l1 : list A) (l2 : list B) : length l1 = length l2 -> map fst (combine l1 l2) = l1.
Proof. revert l2. induction l1 as [|x l1 IH]; intros [|y l2] H; try discriminate; cbn; [reflexivity|]. f_equal. apply IH. cbn in H. congruence. Qed.

Lemma snoc_inj {A} (l1 l2 : list A) a b : l1 ++ [a] = l2 ++ [b] -> l1 = l2 /\ a = b.
Proof. intro H. apply app_inj_tail in H. exact H. Qed.

(* ================= the directory, file by file, and the entries of one metric name in a file ================= *)
Definition view {F} (n : str) (c : Values.content F) : Values.content F :=
  filter (fun e => str_eqb n (Multiproc.k_metric (fst e))) c.

Section FsViews.
  Variable F : Type.
  Variable fzero : F.
  Notation fs := (Values.fs F).
  Notation content := (Values.content F).
  Notation fs_content := (Values.fs_content F).
  Notation init_key := (Values.init_key F fzero).
  Notation mkeq := Multiproc.key_eqb.
  Notation fneq := Values.fname_eqb.
  Let mkeq_eq := MultiprocProofs.key_eqb_eq.
  Let fneq_eq := ValuesProofs.fname_eqb_eq.

  Lemma content_set (d : fs) fn c fn' : fs_content (d_set fneq d fn c) fn' = if fneq fn' fn then c else fs_content d fn'.
  Proof. unfold Values.fs_content. rewrite (df_set fneq fneq_eq). destruct (fneq fn' fn); reflexivity. Qed.

  Lemma content_open (d : fs) fn fn' : fs_content (Values.fs_open F d fn) fn' = fs_content d fn'.
  Proof.
    unfold Values.fs_open. destruct (d_find fneq d fn) eqn:E; [reflexivity|].
    rewrite content_set. destruct (fneq fn' fn) eqn:E2; [|reflexivity].
    apply fneq_eq in E2; subst. unfold Values.fs_content. rewrite E. reflexivity.
  Qed.

  Lemma content_write (d : fs) fn k x fn' :
    fs_content (Values.fs_write F fzero d fn k x) fn'
    = if fneq fn' fn then d_set mkeq (init_key (fs_content d fn) k) k x else fs_content d fn'.
  Proof. unfold Values.fs_write. apply content_set. Qed.

  Lemma content_new (d : fs) fn k fn' :
    fs_content (mp_new F fzero d fn k) fn' = if fneq fn' fn then init_key (fs_content d fn) k else fs_content d fn'.
  Proof.
    unfold mp_new, Values.fs_read. cbn [fst]. rewrite content_set, !content_open. reflexivity.
  Qed.

  Lemma files_nodup_set (d : fs) fn c : NoDup (map fst d) -> NoDup (map fst (d_set fneq d fn c)).
  Proof. apply (ds_NoDup fneq fneq_eq). Qed.
  Lemma files_nodup_open (d : fs) fn : NoDup (map fst d) -> NoDup (map fst (Values.fs_open F d fn)).
  Proof. unfold Values.fs_open. destruct (d_find fneq d fn); [auto|apply files_nodup_set]. Qed.
  Lemma files_nodup_write (d : fs) fn k x : NoDup (map fst d) -> NoDup (map fst (Values.fs_write F fzero d fn k x)).
  Proof. apply files_nodup_set. Qed.
  Lemma files_nodup_new (d : fs) fn k : NoDup (map fst d) -> NoDup (map fst (mp_new F fzero d fn k)).
  Proof. intro H. unfold mp_new, Values.fs_read. cbn [fst]. apply files_nodup_set, files_nodup_open, H. Qed.

  (* ----- views ----- *)
  Lemma view_find n (c : content) k : Multiproc.k_metric k = n -> d_find mkeq (view n c) k = d_find mkeq c k.
  Proof.
    intro Hk. unfold view. induction c as [|[k' v] c IH]; cbn [filter d_find fst]; [reflexivity|].
    destruct (str_eqb n (Multiproc.k_metric k')) eqn:E; cbn [d_find]; [rewrite IH; reflexivity|].
    rewrite (kq_neq mkeq mkeq_eq); [exact IH|]. intro E2; subst k'. rewrite Hk, str_eqb_refl in E. discriminate.
  Qed.

  Lemma view_set_same n (c : content) k x : Multiproc.k_metric k = n -> view n (d_set mkeq c k x) = d_set mkeq (view n c) k x.
  Proof.
    intro Hk. unfold view. induction c as [|[k' v] c IH]; cbn [filter d_set fst].
    - rewrite Hk, str_eqb_refl. reflexivity.
    - destruct (mkeq k k') eqn:E.
      + apply mkeq_eq in E; subst k'. cbn [filter fst]. rewrite Hk, str_eqb_refl. cbn [d_set].
        rewrite (kq_refl mkeq mkeq_eq). reflexivity.
      + cbn [filter fst]. destruct (str_eqb n (Multiproc.k_metric k')); cbn [d_set]; [rewrite E, IH; reflexivity|exact IH].
  Qed.

  Lemma view_set_other n (c : content) k x : Multiproc.k_metric k <> n -> view n (d_set mkeq c k x) = view n c.
  Proof.
    intro Hk. unfold view. induction c as [|[k' v] c IH]; cbn [filter d_set fst].
    - destruct (str_eqb n (Multiproc.k_metric k)) eqn:E; [apply str_eqb_eq in E; congruence|reflexivity].
    - destruct (mkeq k k') eqn:E.
      + apply mkeq_eq in E; subst k'. cbn [filter fst].
        destruct (str_eqb n (Multiproc.k_metric k)) eqn:E; [apply str_eqb_eq in E; congruence|reflexivity].
      + cbn [filter fst]. rewrite IH. reflexivity.
  Qed.

  Lemma view_init_same n (c : content) k : Multiproc.k_metric k = n -> view n (init_key c k) = init_key (view n c) k.
  Proof.
    intro Hk. unfold Values.init_key. rewrite (view_find n c k Hk).
    destruct (d_find mkeq c k); [reflexivity|]. apply view_set_same. exact Hk.
  Qed.

  Lemma view_init_other n (c : content) k : Multiproc.k_metric k <> n -> view n (init_key c k) = view n c.
  Proof.
    intro Hk. unfold Values.init_key. destruct (d_find mkeq c k); [reflexivity|]. apply view_set_other. exact Hk.
  Qed.

  Lemma init_key_present (c : content) k v : d_find mkeq c k = Some v -> init_key c k = c.
  Proof. intro H. unfold Values.init_key. rewrite H. reflexivity. Qed.
  Lemma init_key_absent (c : content) k : ~ In k (map fst c) -> init_key c k = c ++ [(k, (fzero, fzero))].
  Proof.
    intro H. unfold Values.init_key. rewrite (df_notin mkeq mkeq_eq c k H). apply (ds_notin mkeq mkeq_eq). exact H.
  Qed.
End FsViews.

Lemma suffix_neq (n a b : str) : a <> b -> n ++ a <> n ++ b.
Proof. intros H E. apply app_inv_head in E. contradiction. Qed.

Lemma In_d_find_nodup {K V} (keq : K -> K -> bool) (keq_eq : forall a b, keq a b = true <-> a = b)
      (d : assoc K V) k v : NoDup (map fst d) -> In (k, v) d -> d_find keq d k = Some v.
Proof.
  induction d as [|[k' v'] d IH]; intros Hnd Hin; [contradiction|]. cbn [map fst] in Hnd. inversion Hnd; subst.
  cbn [d_find]. destruct Hin as [E|Hin].
  - inversion E; subst. rewrite (kq_refl keq keq_eq). reflexivity.
  - rewrite (kq_neq keq keq_eq); [auto|]. intro E; subst. apply H1. apply (in_map fst) in Hin. exact Hin.
Qed.

(* ================= the cells of a family: keys and encoding ================= *)
Section Enc.
  Variable F : Type.
  Variables fzero fone : F.
  Variable fadd : F -> F -> F.
  Variable fmt_le : F -> str.

  Notation mkey := Multiproc.key.
  Notation mkeq := Multiproc.key_eqb.
  Let mkeq_eq := MultiprocProofs.key_eqb_eq.
  Notation S_le := Multiproc.S_le.
  Notation fcount := (fcount F fzero fone fadd).
  Notation blab := (blab F fmt_le).
  Notation k_total := (k_total F).
  Notation k_gauge := (k_gauge F).
  Notation k_count := (k_count F).
  Notation k_sum := (k_sum F).
  Notation k_bucket := (k_bucket F fmt_le).
  Notation cell_keys := (cell_keys F fmt_le).

  Lemma blab_lab names lv b : length lv = length names ->
    blab names lv b = lab (names ++ [S_le]) (lv ++ [fmt_le b]).
  Proof. intro H. unfold Equiv.blab, lab. rewrite combine_snoc by (symmetry; exact H). reflexivity. Qed.

  Lemma NoDup_names_le names : NoDup names -> ~ In S_le names -> NoDup (names ++ [S_le]).
  Proof. intros. apply ValuesProofs.NoDup_snoc; assumption. Qed.

  Lemma blab_inj names lv1 lv2 b1 b2 : NoDup names -> ~ In S_le names ->
    length lv1 = length names -> length lv2 = length names ->
    blab names lv1 b1 = blab names lv2 b2 -> lv1 = lv2 /\ fmt_le b1 = fmt_le b2.
  Proof.
    intros Hnd Hle H1 H2 E. rewrite !blab_lab in E by assumption.
    apply lab_inj in E; [apply snoc_inj; exact E|apply NoDup_names_le; assumption| |]; rewrite !app_length; cbn [Datatypes.length]; rewrite ?H1, ?H2; reflexivity.
  Qed.

  (* the family-static side conditions the key lemmas need *)
  Definition keys_wf {C} (fam : mfamily F C) : Prop :=
    NoDup (f_labelnames fam)
    /\ (f_kind fam = KHistogram -> ~ In S_le (f_labelnames fam) /\ NoDup (map fmt_le (f_bounds fam))).

  Definition child_ok (k : mkind) (bounds : list F) (c : child F) : Prop :=
    match k, c with
    | KCounter, Ctr (CF _) => True
    | KGauge, Gge _ => True
    | KSummary, Smy _ _ => True
    | KHistogram, Hst _ cs => length cs = length bounds
    | _, _ => False
    end.

  Definition enc_child {C} (fam : mfamily F C) (me : fmeta) (lv : key) (c : child F) (ts : F)
    : list (mkey * (F * F)) :=
    match c with
    | Ctr (CF v) => [(k_total fam me lv, (v, fzero))]
    | Gge v => [(k_gauge fam me lv, (v, ts))]
    | Smy n s => [(k_count fam me lv, (fcount n, fzero)); (k_sum fam me lv, (s, fzero))]
    | Hst s cs =>
        (k_sum fam me lv, (s, fzero))
        :: map (fun bc => (k_bucket fam me lv (fst bc), (fcount (snd bc), fzero))) (combine (f_bounds fam) cs)
    | _ => []
    end.

  Lemma enc_child_keys {C} (fam : mfamily F C) me lv c ts : child_ok (f_kind fam) (f_bounds fam) c ->
    map fst (enc_child fam me lv c ts) = cell_keys fam me lv.
  Proof.
    unfold child_ok, Equiv.cell_keys. destruct (f_kind fam), c as [[v|z]|v|n s|s cs|kv|i]; cbn [enc_child map fst]; intro H;
      try contradiction; try reflexivity.
    f_equal. rewrite map_map. cbn [fst]. rewrite <- (map_map fst (k_bucket fam me lv)).
    rewrite map_fst_combine by (symmetry; exact H). reflexivity.
  Qed.

  Lemma cell_keys_metric {C} (fam : mfamily F C) me lv k : In k (cell_keys fam me lv) -> Multiproc.k_metric k = f_name fam.
  Proof.
    unfold Equiv.cell_keys. destruct (f_kind fam); cbn [In map]; intro H; try contradiction.
    - destruct H as [<-|[]]; reflexivity.
    - destruct H as [<-|[]]; reflexivity.
    - destruct H as [<-|[<-|[]]]; reflexivity.
    - destruct H as [<-|H]; [reflexivity|]. apply in_map_iff in H as [b [<- _]]. reflexivity.
  Qed.

  Lemma NoDup_map_inj_in {A B} (g : A -> B) l :
    (forall x y, In x l -> In y l -> g x = g y -> x = y) -> NoDup l -> NoDup (map g l).
  Proof.
    induction l as [|a l IH]; intros Hinj Hnd; cbn [map]; [constructor|]. inversion Hnd; subst. constructor.
    - intro Hin. apply in_map_iff in Hin as [y [E Hy]]. apply H1.
      rewrite <- (Hinj y a); [exact Hy|right; exact Hy|left; reflexivity|exact E].
    - apply IH; [|assumption]. intros x y Hx Hy. apply Hinj; right; assumption.
  Qed.

  Lemma NoDup_of_map {A B} (g : A -> B) l : NoDup (map g l) -> NoDup l.
  Proof.
    induction l as [|a l IH]; cbn [map]; intro H; [constructor|]. inversion H; subst.
    constructor; [intro Hin; apply H2; apply in_map; exact Hin|auto].
  Qed.

  Lemma cell_keys_nodup {C} (fam : mfamily F C) me lv : keys_wf fam -> length lv = length (f_labelnames fam) ->
    NoDup (cell_keys fam me lv).
  Proof.
    intros [Hn Hh] Hl. unfold Equiv.cell_keys. destruct (f_kind fam) eqn:Ek; try (repeat constructor; cbn; tauto).
    - constructor; [|repeat constructor; cbn; tauto]. cbn [In]. intros [E|[]].
      inversion E as [E1]. apply app_inv_head in E1. discriminate.
    - destruct (Hh eq_refl) as [Hle Hb]. constructor.
      + intro H. apply in_map_iff in H as [b [E _]]. inversion E as [E1]. apply app_inv_head in E1. discriminate.
      + apply NoDup_map_inj_in; [|apply (NoDup_of_map fmt_le); exact Hb].
        intros b1 b2 Hb1 Hb2 E. inversion E as [E1]. apply blab_inj in E1 as [_ E1]; auto.
        clear - Hb Hb1 Hb2 E1. induction (f_bounds fam) as [|b l IH]; [contradiction|].
        cbn [map] in Hb. inversion Hb; subst. destruct Hb1 as [<-|Hb1], Hb2 as [<-|Hb2]; auto.
        * exfalso. apply H1. rewrite E1. apply in_map. exact Hb2.
        * exfalso. apply H1. rewrite <- E1. apply in_map. exact Hb1.
  Qed.

  (* the cells of different children of one family never share a key *)
  Lemma cell_keys_disj {C} (fam : mfamily F C) me lv1 lv2 k : keys_wf fam ->
    length lv1 = length (f_labelnames fam) -> length lv2 = length (f_labelnames fam) -> lv1 <> lv2 ->
    In k (cell_keys fam me lv1) -> ~ In k (cell_keys fam me lv2).
  Proof.
    intros [Hn Hh] H1 H2 Hne. unfold Equiv.cell_keys.
    assert (HL : lab (f_labelnames fam) lv1 <> lab (f_labelnames fam) lv2)
      by (intro E; apply Hne; eapply lab_inj; eauto).
    destruct (f_kind fam) eqn:Ek; cbn [In map]; try tauto.
    - intros [<-|[]] [E|[]]. inversion E. congruence.
    - intros [<-|[]] [E|[]]. inversion E. congruence.
    - intros [<-|[<-|[]]] [E|[E|[]]]; inversion E; congruence.
    - destruct (Hh eq_refl) as [Hle Hb].
      intros [<-|Hin1] [E|Hin2].
      + inversion E. congruence.
      + apply in_map_iff in Hin2 as [b [E _]]. inversion E as [E1]. apply app_inv_head in E1. discriminate.
      + apply in_map_iff in Hin1 as [b [E1 _]]. subst k. inversion E as [E1]. apply app_inv_head in E1. discriminate.
      + apply in_map_iff in Hin1 as [b1 [E1 _]]. apply in_map_iff in Hin2 as [b2 [E2 _]]. subst k.
        inversion E2 as [E3]. apply blab_inj in E3 as [E3 _]; auto.
  Qed.
End Enc.

(* ================= the update methods on the cells of ONE child, as list operations ================= *)
Section ChildOps.
  Variable F : Type.
  Variables fzero fone : F.
  Variable fadd : F -> F -> F.
  Variable fneg : F -> F.
  Variables flt fle feqb : F -> F -> bool.
  Variable of_Z : Z -> res F.
  Variable zlef : Z -> F -> bool.
  Variable fmt_le : F -> str.

  Notation mkey := Multiproc.key.
  Notation mkeq := Multiproc.key_eqb.
  Let mkeq_eq := MultiprocProofs.key_eqb_eq.
  Notation content := (Values.content F).
  Notation init_key := (Values.init_key F fzero).
  Notation fcount := (fcount F fzero fone fadd).
  Notation k_total := (k_total F).
  Notation k_gauge := (k_gauge F).
  Notation k_count := (k_count F).
  Notation k_sum := (k_sum F).
  Notation k_bucket := (k_bucket F fmt_le).
  Notation cell_keys := (cell_keys F fmt_le).
  Notation enc_child := (enc_child F fzero fone fadd fmt_le).
  Notation child_ok := (child_ok F).
  Notation keys_wf := (keys_wf F fmt_le).
  Notation to_F := (to_F of_Z).
  Notation ale := (ale fle zlef).
  Notation first_le := (first_le F fle zlef).
  Notation APPLY := (apply_mop fzero fadd fneg flt fle of_Z zlef false).

  Definition l_rd (L : content) (k : mkey) : F := match d_find mkeq L k with Some c => fst c | None => fzero end.
  Definition l_wr (L : content) (k : mkey) (v ts : F) : content := d_set mkeq (init_key L k) k (v, ts).
  Definition l_inc (L : content) (k : mkey) (x : F) : content := l_wr L k (fadd (l_rd L k) x) fzero.

  (* mp_apply with the file replaced by a list of entries *)
  Definition l_apply {C} (fam : mfamily F C) (me : fmeta) (now : F) (L : content) (lv : key) (m : mop F)
    : content * res unit :=
    match f_kind fam, m with
    | KCounter, Inc a =>
        if alt0 fzero flt a then (L, Err ValueError)
        else match to_F a with
             | Ok x => (l_inc L (k_total fam me lv) x, Ok tt)
             | Err e => (L, Err e)
             end
    | KCounter, Reset => (l_wr L (k_total fam me lv) fzero fzero, Ok tt)
    | KGauge, Inc a => match to_F a with Ok x => (l_inc L (k_gauge fam me lv) x, Ok tt) | Err e => (L, Err e) end
    | KGauge, Dec a => match to_F (aneg fneg a) with Ok x => (l_inc L (k_gauge fam me lv) x, Ok tt) | Err e => (L, Err e) end
    | KGauge, SetV a =>
        match to_F a with
        | Ok x => (l_wr L (k_gauge fam me lv) x
                      (Values.ts_or_zero F fzero feqb (if is_mr (fm_mode me) then Some now else None)), Ok tt)
        | Err e => (L, Err e)
        end
    | KSummary, Observe a =>
        match to_F a with
        | Ok x => (l_inc (l_inc L (k_sum fam me lv) x) (k_count fam me lv) fone, Ok tt)
        | Err e => (L, Err e)
        end
    | KHistogram, Observe a =>
        match to_F a with
        | Ok x =>
            let L1 := l_inc L (k_sum fam me lv) x in
            (match first_le a (f_bounds fam) with
             | Some b => l_inc L1 (k_bucket fam me lv b) fone
             | None => L1
             end, Ok tt)
        | Err e => (L, Err e)
        end
    | _, _ => (L, Err AttributeError)
    end.

  (* ----- the primitives inside a context X ++ Lc ++ Y whose X has none of Lc's keys ----- *)
  Lemma l_rd_ctx (X Lc Y : content) k : In k (map fst Lc) -> ~ In k (map fst X) -> l_rd (X ++ Lc ++ Y) k = l_rd Lc k.
  Proof.
    intros Hin Hx. unfold l_rd. rewrite (df_app mkeq), (df_notin mkeq mkeq_eq X k Hx), (df_app mkeq).
    destruct (df_in mkeq mkeq_eq Lc k Hin) as [v ->]. reflexivity.
  Qed.

  Lemma init_key_in (L : content) k : In k (map fst L) -> init_key L k = L.
  Proof. intro H. destruct (df_in mkeq mkeq_eq L k H) as [v Hv]. eapply init_key_present. exact Hv. Qed.

  Lemma l_wr_ctx (X Lc Y : content) k v ts : In k (map fst Lc) -> ~ In k (map fst X) ->
    l_wr (X ++ Lc ++ Y) k v ts = X ++ l_wr Lc k v ts ++ Y.
  Proof.
    intros Hin Hx. unfold l_wr. rewrite !init_key_in; [|exact Hin|rewrite !map_app; apply in_or_app; right; apply in_or_app; left; exact Hin].
    rewrite (ds_app_r mkeq mkeq_eq) by exact Hx. rewrite (ds_app_l mkeq mkeq_eq) by exact Hin. reflexivity.
  Qed.

  Lemma l_wr_keys (Lc : content) k v ts : In k (map fst Lc) -> map fst (l_wr Lc k v ts) = map fst Lc.
  Proof. intro H. unfold l_wr. rewrite init_key_in by exact H. apply (ds_keys mkeq mkeq_eq). exact H. Qed.

  Lemma l_inc_ctx (X Lc Y : content) k x : In k (map fst Lc) -> ~ In k (map fst X) ->
    l_inc (X ++ Lc ++ Y) k x = X ++ l_inc Lc k x ++ Y.
  Proof. intros Hin Hx. unfold l_inc. rewrite l_rd_ctx, l_wr_ctx by assumption. reflexivity. Qed.

  Lemma l_inc_keys (Lc : content) k x : In k (map fst Lc) -> map fst (l_inc Lc k x) = map fst Lc.
  Proof. apply l_wr_keys. Qed.

  Lemma first_le_in a bs b : first_le a bs = Some b -> In b bs.
  Proof. induction bs as [|b0 bs IH]; cbn [Equiv.first_le]; [discriminate|]. destruct (ale a b0); [intro H; inversion H; left; reflexivity|right; auto]. Qed.

  (* l_apply touches only the keys of the child it addresses *)
  Lemma l_apply_ctx {C} (fam : mfamily F C) me now (X Lc Y : content) lv m :
    map fst Lc = cell_keys fam me lv -> (forall k, In k (cell_keys fam me lv) -> ~ In k (map fst X)) ->
    l_apply fam me now (X ++ Lc ++ Y) lv m
    = (X ++ fst (l_apply fam me now Lc lv m) ++ Y, snd (l_apply fam me now Lc lv m)).
  Proof.
    intros Hk Hx. unfold l_apply, Equiv.cell_keys in *.
    destruct (f_kind fam) eqn:Ek, m as [a|a|a|a| |kv|s]; cbn [fst snd]; try reflexivity.
    - destruct (alt0 fzero flt a); [reflexivity|]. destruct (to_F a); [|reflexivity]. cbn [fst snd].
      rewrite l_inc_ctx; [reflexivity|rewrite Hk; left; reflexivity|apply Hx; left; reflexivity].
    - rewrite l_wr_ctx; [reflexivity|rewrite Hk; left; reflexivity|apply Hx; left; reflexivity].
    - destruct (to_F a); [|reflexivity]. cbn [fst snd].
      rewrite l_inc_ctx; [reflexivity|rewrite Hk; left; reflexivity|apply Hx; left; reflexivity].
    - destruct (to_F (aneg fneg a)); [|reflexivity]. cbn [fst snd].
      rewrite l_inc_ctx; [reflexivity|rewrite Hk; left; reflexivity|apply Hx; left; reflexivity].
    - destruct (to_F a); [|reflexivity]. cbn [fst snd].
      rewrite l_wr_ctx; [reflexivity|rewrite Hk; left; reflexivity|apply Hx; left; reflexivity].
    - destruct (to_F a); [|reflexivity]. cbn [fst snd].
      rewrite l_inc_ctx; [|rewrite Hk; right; left; reflexivity|apply Hx; right; left; reflexivity].
      rewrite l_inc_ctx; [reflexivity| |apply Hx; left; reflexivity].
      rewrite l_inc_keys; rewrite Hk; [left; reflexivity|right; left; reflexivity].
    - destruct (to_F a); [|reflexivity]. cbn [fst snd].
      rewrite l_inc_ctx; [|rewrite Hk; left; reflexivity|apply Hx; left; reflexivity].
      destruct (first_le a (f_bounds fam)) as [b|] eqn:Eb; [|reflexivity].
      apply first_le_in in Eb.
      rewrite l_inc_ctx; [reflexivity| |apply Hx; right; apply in_map; exact Eb].
      rewrite l_inc_keys; rewrite Hk; [right; apply in_map; exact Eb|left; reflexivity].
  Qed.

  Lemma l_wr_head (R : content) k v t v' t' : l_wr ((k, (v, t)) :: R) k v' t' = (k, (v', t')) :: R.
  Proof.
    unfold l_wr. erewrite init_key_present by (cbn [d_find]; rewrite (kq_refl mkeq mkeq_eq); reflexivity).
    cbn [d_set]. rewrite (kq_refl mkeq mkeq_eq). reflexivity.
  Qed.
  Lemma l_inc_head (R : content) k v t x : l_inc ((k, (v, t)) :: R) k x = (k, (fadd v x, fzero)) :: R.
  Proof. unfold l_inc, l_rd. cbn [d_find]. rewrite (kq_refl mkeq mkeq_eq). cbn [fst]. apply l_wr_head. Qed.
  Lemma l_inc_skip (R : content) k0 c k x : k <> k0 -> l_inc ((k0, c) :: R) k x = (k0, c) :: l_inc R k x.
  Proof.
    intro H. unfold l_inc, l_rd, l_wr, Values.init_key. cbn [d_find]. rewrite (kq_neq mkeq mkeq_eq _ _ H).
    destruct (d_find mkeq R k); cbn [d_set]; rewrite ?(kq_neq mkeq mkeq_eq _ _ H); cbn [d_set]; rewrite ?(kq_neq mkeq mkeq_eq _ _ H); reflexivity.
  Qed.

  (* ----- on the encoding of a child: the list operations are apply_mop ----- *)
  Lemma fcount_succ n : fcount (n + 1) = fadd (fcount n) fone.
  Proof. unfold Equiv.fcount. rewrite N.add_1_r, N.iter_succ. reflexivity. Qed.

  Lemma first_le_none_bump a : forall bs cs, first_le a bs = None -> bump fle zlef bs cs a = cs.
  Proof.
    induction bs as [|b bs IH]; intros [|c cs]; cbn [Equiv.first_le bump]; try reflexivity.
    destruct (ale a b); [discriminate|]. intro H. f_equal. apply IH. exact H.
  Qed.

  Definition benc {C} (fam : mfamily F C) me lv (bs : list F) (cs : list N) : content :=
    map (fun bc => (k_bucket fam me lv (fst bc), (fcount (snd bc), fzero))) (combine bs cs).

  Lemma bucket_key_inj {C} (fam : mfamily F C) me lv b1 b2 : keys_wf fam -> f_kind fam = KHistogram ->
    length lv = length (f_labelnames fam) -> k_bucket fam me lv b1 = k_bucket fam me lv b2 -> fmt_le b1 = fmt_le b2.
  Proof.
    intros [Hn Hh] Ek Hl E. destruct (Hh Ek) as [Hle _]. inversion E as [E1]. eapply blab_inj in E1 as [_ E1]; eauto.
  Qed.

  Lemma benc_bump {C} (fam : mfamily F C) me lv a : keys_wf fam -> f_kind fam = KHistogram ->
    length lv = length (f_labelnames fam) ->
    forall bs cs b, NoDup (map fmt_le bs) -> length cs = length bs -> first_le a bs = Some b ->
      l_inc (benc fam me lv bs cs) (k_bucket fam me lv b) fone = benc fam me lv bs (bump fle zlef bs cs a).
  Proof.
    intros Hw Ek Hl. induction bs as [|b0 bs IH]; intros [|c cs] b Hnd Hlen Hf; try discriminate.
    cbn [Equiv.first_le] in Hf. cbn [bump]. cbn [map] in Hnd. inversion Hnd as [|? ? Hn0 Hnd']; subst.
    unfold benc. cbn [combine map fst snd]. destruct (ale a b0) eqn:Ea.
    - inversion Hf; subst b. rewrite l_inc_head. cbn [combine map fst snd]. rewrite fcount_succ. reflexivity.
    - assert (Hne : k_bucket fam me lv b <> k_bucket fam me lv b0).
      { intro E. apply (bucket_key_inj fam me lv b b0 Hw Ek Hl) in E. apply Hn0. rewrite <- E. apply in_map.
        eapply first_le_in. exact Hf. }
      assert (Hin : In (k_bucket fam me lv b) (map fst (benc fam me lv bs cs))).
      { unfold benc. rewrite map_map. cbn [fst]. rewrite <- (map_map fst (k_bucket fam me lv)).
        rewrite map_fst_combine by (cbn in Hlen; lia). apply in_map. eapply first_le_in. exact Hf. }
      specialize (IH cs b Hnd' ltac:(cbn in Hlen; lia) Hf). unfold benc in IH, Hin.
      set (T := map (fun bc : F * N => (k_bucket fam me lv (fst bc), (fcount (snd bc), fzero))) (combine bs cs)) in *.
      replace ((k_bucket fam me lv b0, (fcount c, fzero)) :: T)
        with ([(k_bucket fam me lv b0, (fcount c, fzero))] ++ T ++ []) by (rewrite app_nil_r; reflexivity).
      rewrite l_inc_ctx; [|exact Hin|cbn; intros [E|[]]; apply Hne; symmetry; exact E].
      rewrite IH. rewrite !app_nil_r. reflexivity.
  Qed.

  Lemma enc_child_apply {C} (fam : mfamily F C) me now lv c ts m : keys_wf fam ->
    length lv = length (f_labelnames fam) -> child_ok (f_kind fam) (f_bounds fam) c ->
    mr_blocked F (f_kind fam) (fm_mode me) m = false ->
    let (c', out) := APPLY (f_labelnames fam) (f_bounds fam) (f_states fam) c m in
    exists ts', l_apply fam me now (enc_child fam me lv c ts) lv m = (enc_child fam me lv c' ts', out)
                /\ child_ok (f_kind fam) (f_bounds fam) c'
                /\ (f_kind fam = KGauge -> is_mr (fm_mode me) = true ->
                    (c' = c /\ ts' = ts /\ (out = Ok tt -> False) \/
                     (is_set F m = true /\ out = Ok tt
                      /\ ts' = Values.ts_or_zero F fzero feqb (Some now)))).
  Proof.
    intros Hw Hl Hok Hmr. unfold child_ok in Hok. unfold l_apply.
    destruct (f_kind fam) eqn:Ek, c as [[v|z]|v|n s|s cs|kv|i]; try contradiction;
      destruct m as [a|a|a|a| |kv'|s']; cbn [apply_mop enc_child];
      try (exists ts; split; [reflexivity|split; [rewrite ?Ek; exact Hok|intros; try discriminate; left; repeat split; discriminate]]).
    - (* counter inc *)
      destruct (alt0 fzero flt a); [exists ts; repeat split; try discriminate|].
      unfold cell_add. destruct (to_F a) as [x|e]; cbn [bind]; [|exists ts; repeat split; discriminate].
      exists ts. split; [|split; [exact I|discriminate]]. rewrite l_inc_head. reflexivity.
    - (* counter reset *)
      exists ts. split; [|split; [exact I|discriminate]]. rewrite l_wr_head. reflexivity.
    - (* gauge inc *)
      cbn in Hmr. destruct (to_F a) as [x|e]; [|exists ts; split; [reflexivity|split; [exact I|intros _ _; left; repeat split; discriminate]]].
      exists fzero. split; [|split; [exact I|intros _ Hm; rewrite Hm in Hmr; discriminate]]. rewrite l_inc_head. reflexivity.
    - (* gauge dec *)
      cbn in Hmr. destruct (to_F (aneg fneg a)) as [x|e]; [|exists ts; split; [reflexivity|split; [exact I|intros _ _; left; repeat split; discriminate]]].
      exists fzero. split; [|split; [exact I|intros _ Hm; rewrite Hm in Hmr; discriminate]]. rewrite l_inc_head. reflexivity.
    - (* gauge set *)
      destruct (to_F a) as [x|e]; [|exists ts; split; [reflexivity|split; [exact I|intros _ _; left; repeat split; discriminate]]].
      exists (Values.ts_or_zero F fzero feqb (if is_mr (fm_mode me) then Some now else None)).
      split; [|split; [exact I|intros _ Hm; right; rewrite Hm; repeat split]]. rewrite l_wr_head. reflexivity.
    - (* summary observe *)
      destruct (to_F a) as [x|e]; [|exists ts; split; [reflexivity|split; [exact I|discriminate]]].
      exists ts. split; [|split; [exact I|discriminate]].
      assert (Hne : k_sum fam me lv <> k_count fam me lv).
      { intro E. inversion E as [E1]. apply app_inv_head in E1. discriminate. }
      cbn [enc_child]. rewrite (l_inc_skip _ _ _ _ _ Hne), l_inc_head, l_inc_head, fcount_succ. reflexivity.
    - (* histogram observe *)
      destruct (to_F a) as [x|e]; [|exists ts; split; [reflexivity|split; [exact Hok|discriminate]]].
      exists ts. split; [|split; [cbn; rewrite bump_length; exact Hok|discriminate]].
      f_equal.
      assert (H1 : l_inc ((k_sum fam me lv, (s, fzero)) :: benc fam me lv (f_bounds fam) cs) (k_sum fam me lv) x
                   = (k_sum fam me lv, (fadd s x, fzero)) :: benc fam me lv (f_bounds fam) cs).
      { apply l_inc_head. }
      fold (benc fam me lv (f_bounds fam) cs). rewrite H1.
      fold (benc fam me lv (f_bounds fam) (bump fle zlef (f_bounds fam) cs a)).
      destruct (first_le a (f_bounds fam)) as [b|] eqn:Eb.
      + destruct Hw as [Hn Hh]. destruct (Hh Ek) as [Hle Hb].
        replace ((k_sum fam me lv, (fadd s x, fzero)) :: benc fam me lv (f_bounds fam) cs)
          with ([(k_sum fam me lv, (fadd s x, fzero))] ++ benc fam me lv (f_bounds fam) cs ++ [])
          by (rewrite app_nil_r; reflexivity).
        rewrite l_inc_ctx.
        * rewrite (benc_bump fam me lv a (conj Hn Hh) Ek Hl (f_bounds fam) cs b Hb Hok Eb). rewrite app_nil_r. reflexivity.
        * unfold benc. rewrite map_map. cbn [fst]. rewrite <- (map_map fst (k_bucket fam me lv)).
          rewrite map_fst_combine by (symmetry; exact Hok). apply in_map. eapply first_le_in. exact Eb.
        * cbn. intros [E|[]]. inversion E as [E1]. apply app_inv_head in E1. discriminate.
      + rewrite (first_le_none_bump a _ _ Eb). reflexivity.
  Qed.
End ChildOps.

(* ================= a whole family: its children in order ================= *)
Section Fam.
  Variable F : Type.
  Variables fzero fone : F.
  Variable fadd : F -> F -> F.
  Variable fneg : F -> F.
  Variables flt fle feqb : F -> F -> bool.
  Variable of_Z : Z -> res F.
  Variable zlef : Z -> F -> bool.
  Variable fmt_le : F -> str.

  Notation mkey := Multiproc.key.
  Notation mkeq := Multiproc.key_eqb.
  Let mkeq_eq := MultiprocProofs.key_eqb_eq.
  Notation content := (Values.content F).
  Notation fs := (Values.fs F).
  Notation fs_content := (Values.fs_content F).
  Notation init_key := (Values.init_key F fzero).
  Notation fcount := (fcount F fzero fone fadd).
  Notation cell_keys := (cell_keys F fmt_le).
  Notation enc_child := (enc_child F fzero fone fadd fmt_le).
  Notation child_ok := (child_ok F).
  Notation keys_wf := (keys_wf F fmt_le).
  Notation l_apply := (l_apply F fzero fone fadd fneg flt fle feqb of_Z zlef fmt_le).
  Notation l_rd := (l_rd F fzero).
  Notation l_wr := (l_wr F fzero).
  Notation l_inc := (l_inc F fzero fadd).
  Notation APPLY := (apply_mop fzero fadd fneg flt fle of_Z zlef false).
  Notation rd := (rd F fzero).
  Notation wr := (wr F fzero).
  Notation mp_new := (mp_new F fzero).
  Notation mp_create := (mp_create F fzero).
  Notation mp_inc := (mp_inc F fzero fadd).
  Notation mp_apply := (mp_apply F fzero fone fadd fneg flt fle feqb of_Z zlef fmt_le).

  (* the metric's own cells when it has no label names, its children otherwise *)
  Definition kids {C} (fam : mfamily F C) : list (key * C) :=
    if is_nil (f_labelnames fam) then [([], f_solo fam)] else f_children fam.

  Definition enc_kids {C} (fam : mfamily F C) (me : fmeta) (tsf : key -> F) (l : list (key * child F)) : content :=
    flat_map (fun kc => enc_child fam me (fst kc) (snd kc) (tsf (fst kc))) l.

  Definition kid_ok {C} (fam : mfamily F C) (kc : key * child F) : Prop :=
    length (fst kc) = length (f_labelnames fam) /\ child_ok (f_kind fam) (f_bounds fam) (snd kc).

  Definition tupd (tsf : key -> F) (lv : key) (ts : F) : key -> F := fun k => if key_eqb k lv then ts else tsf k.

  Lemma enc_kids_app {C} (fam : mfamily F C) me tsf l1 l2 :
    enc_kids fam me tsf (l1 ++ l2) = enc_kids fam me tsf l1 ++ enc_kids fam me tsf l2.
  Proof. unfold enc_kids. apply flat_map_app. Qed.

  Lemma enc_kids_keys {C} (fam : mfamily F C) me tsf l : Forall (kid_ok fam) l ->
    map fst (enc_kids fam me tsf l) = flat_map (fun kc => cell_keys fam me (fst kc)) l.
  Proof.
    unfold enc_kids. induction 1 as [|kc l [_ Hc] _ IH]; cbn [flat_map]; [reflexivity|].
    rewrite map_app. f_equal; [apply enc_child_keys; exact Hc|exact IH].
  Qed.

  Lemma enc_kids_notin {C} (fam : mfamily F C) me tsf l lv k : keys_wf fam -> Forall (kid_ok fam) l ->
    length lv = length (f_labelnames fam) -> ~ In lv (map fst l) -> In k (cell_keys fam me lv) ->
    ~ In k (map fst (enc_kids fam me tsf l)).
  Proof.
    intros Hw Hok Hl Hn Hk Hin. rewrite enc_kids_keys in Hin by exact Hok.
    apply in_flat_map in Hin as [kc [Hkc Hin]]. rewrite Forall_forall in Hok. destruct (Hok kc Hkc) as [Hl2 _].
    revert Hin. apply (cell_keys_disj F fzero fadd fmt_le fam me lv (fst kc) k Hw Hl Hl2); [|exact Hk].
    intro E. apply Hn. rewrite E. apply in_map. exact Hkc.
  Qed.

  Lemma enc_kids_nodup {C} (fam : mfamily F C) me tsf l : keys_wf fam -> Forall (kid_ok fam) l ->
    NoDup (map fst l) -> NoDup (map fst (enc_kids fam me tsf l)).
  Proof.
    intros Hw Hok Hnd. induction l as [|kc l IH]; cbn [enc_kids flat_map map]; [constructor|].
    inversion Hok as [|? ? [Hl Hc] Hok']; subst. cbn [map] in Hnd. inversion Hnd as [|? ? Hn Hnd']; subst.
    rewrite map_app. apply NoDup_app_intro.
    - rewrite (enc_child_keys F fzero fone fadd fmt_le) by exact Hc.
      apply (cell_keys_nodup F fzero fadd fmt_le); assumption.
    - apply IH; assumption.
    - intros k Hk. rewrite (enc_child_keys F fzero fone fadd fmt_le) in Hk by exact Hc.
      apply (enc_kids_notin fam me tsf l (fst kc) k); assumption.
  Qed.

  Lemma enc_kids_ext {C} (fam : mfamily F C) me tsf tsf' l : (forall lv, In lv (map fst l) -> tsf lv = tsf' lv) ->
    enc_kids fam me tsf l = enc_kids fam me tsf' l.
  Proof.
    induction l as [|kc l IH]; intro H; cbn [enc_kids flat_map]; [reflexivity|].
    rewrite (H (fst kc)) by (left; reflexivity). f_equal. apply IH. intros; apply H; right; assumption.
  Qed.

  Lemma tupd_same tsf lv ts : tupd tsf lv ts lv = ts.
  Proof. unfold tupd. rewrite key_eqb_refl. reflexivity. Qed.
  Lemma tupd_other tsf lv ts k : k <> lv -> tupd tsf lv ts k = tsf k.
  Proof. intro H. unfold tupd. apply key_eqb_neq in H. rewrite H. reflexivity. Qed.

  Lemma enc_kids_tupd {C} (fam : mfamily F C) me tsf lv ts l : ~ In lv (map fst l) ->
    enc_kids fam me (tupd tsf lv ts) l = enc_kids fam me tsf l.
  Proof. intro H. apply enc_kids_ext. intros k Hk. apply tupd_other. intro E; subst; contradiction. Qed.

  (* the update of one child, inside the entries of the whole family *)
  Lemma enc_kids_apply {C} (fam : mfamily F C) me now tsf l1 lv c l2 m : keys_wf fam ->
    Forall (kid_ok fam) (l1 ++ (lv, c) :: l2) -> NoDup (map fst (l1 ++ (lv, c) :: l2)) ->
    mr_blocked F (f_kind fam) (fm_mode me) m = false ->
    let (c', out) := APPLY (f_labelnames fam) (f_bounds fam) (f_states fam) c m in
    exists ts', l_apply fam me now (enc_kids fam me tsf (l1 ++ (lv, c) :: l2)) lv m
                = (enc_kids fam me (tupd tsf lv ts') (l1 ++ (lv, c') :: l2), out)
                /\ kid_ok fam (lv, c')
                /\ (f_kind fam = KGauge -> is_mr (fm_mode me) = true ->
                    (c' = c /\ ts' = tsf lv /\ (out = Ok tt -> False) \/
                     (is_set F m = true /\ out = Ok tt /\ ts' = Values.ts_or_zero F fzero feqb (Some now)))).
  Proof.
    intros Hw Hok Hnd Hmr.
    assert (Hkc : kid_ok fam (lv, c)).
    { rewrite Forall_forall in Hok. apply Hok. apply in_or_app. right. left. reflexivity. }
    destruct Hkc as [Hl Hc]. cbn [fst snd] in Hl, Hc.
    pose proof (enc_child_apply F fzero fone fadd fneg flt fle feqb of_Z zlef fmt_le fam me now lv c (tsf lv) m Hw Hl Hc Hmr) as HA.
    destruct (APPLY (f_labelnames fam) (f_bounds fam) (f_states fam) c m) as [c' out].
    destruct HA as [ts' [HA [Hc' Hg]]]. exists ts'. split; [|split; [split; assumption|exact Hg]].
    rewrite map_app in Hnd. cbn [map fst] in Hnd.
    assert (Hn1 : ~ In lv (map fst l1)).
    { intro Hin. eapply (NoDup_app_disj _ _ lv Hnd Hin). left. reflexivity. }
    assert (Hn2 : ~ In lv (map fst l2)).
    { apply NoDup_app_r in Hnd. inversion Hnd; assumption. }
    assert (Hok1 : Forall (kid_ok fam) l1) by (apply Forall_app in Hok; tauto).
    rewrite !enc_kids_app. cbn [enc_kids flat_map fst snd]. fold (enc_kids fam me tsf l2).
    fold (enc_kids fam me (tupd tsf lv ts') l2). rewrite tupd_same, !enc_kids_tupd by assumption.
    rewrite (l_apply_ctx F fzero fone fadd fneg flt fle feqb of_Z zlef fmt_le).
    - rewrite HA. reflexivity.
    - apply enc_child_keys. exact Hc.
    - intros k Hk. apply (enc_kids_notin fam me tsf l1 lv k); assumption.
  Qed.

  (* ----- creating the cells of a new child ----- *)
  Lemma init_keys_absent (L : content) : forall ks, NoDup ks -> (forall k, In k ks -> ~ In k (map fst L)) ->
    fold_left (fun L k => init_key L k) ks L = L ++ map (fun k => (k, (fzero, fzero))) ks.
  Proof.
    intros ks. revert L. induction ks as [|k ks IH]; intros L Hnd Hf; cbn [fold_left map]; [rewrite app_nil_r; reflexivity|].
    inversion Hnd; subst. rewrite (init_key_absent F fzero) by (apply Hf; left; reflexivity).
    rewrite IH; [rewrite <- app_assoc; reflexivity|assumption|].
    intros k' Hk' Hin. rewrite map_app in Hin. apply in_app_or in Hin as [Hin|Hin].
    - apply (Hf k'); [right; assumption|assumption].
    - cbn in Hin. destruct Hin as [<-|[]]. contradiction.
  Qed.

  Lemma enc_init_child {C} (fam : mfamily F C) me lv : supported (f_kind fam) = true ->
    enc_child fam me lv (init_child fzero (f_kind fam) (f_bounds fam)) fzero
    = map (fun k => (k, (fzero, fzero))) (cell_keys fam me lv).
  Proof.
    unfold Equiv.cell_keys. destruct (f_kind fam); cbn [init_child enc_child map supported]; try discriminate; intros _; try reflexivity.
    f_equal. induction (f_bounds fam) as [|b l IH]; cbn [map combine fst snd]; [reflexivity|]. f_equal. exact IH.
  Qed.

  Lemma init_child_ok k bounds : supported k = true -> child_ok k bounds (init_child fzero k bounds).
  Proof. destruct k; cbn; try discriminate; intros _; auto. apply map_length. Qed.
End Fam.

(* ================= from the directory to the entries of one family ================= *)
Section FsToList.
  Variable F : Type.
  Variables fzero fone : F.
  Variable fadd : F -> F -> F.
  Variable fneg : F -> F.
  Variables flt fle feqb : F -> F -> bool.
  Variable of_Z : Z -> res F.
  Variable zlef : Z -> F -> bool.
  Variable fmt_le : F -> str.

  Notation mkey := Multiproc.key.
  Notation mkeq := Multiproc.key_eqb.
  Let mkeq_eq := MultiprocProofs.key_eqb_eq.
  Let fneq_eq := ValuesProofs.fname_eqb_eq.
  Notation fneq := Values.fname_eqb.
  Notation content := (Values.content F).
  Notation fs := (Values.fs F).
  Notation fs_content := (Values.fs_content F).
  Notation init_key := (Values.init_key F fzero).
  Notation cell_keys := (cell_keys F fmt_le).
  Notation l_apply := (l_apply F fzero fone fadd fneg flt fle feqb of_Z zlef fmt_le).
  Notation l_rd := (l_rd F fzero).
  Notation l_wr := (l_wr F fzero).
  Notation l_inc := (l_inc F fzero fadd).
  Notation rd := (rd F fzero).
  Notation wr := (wr F fzero).
  Notation mp_new := (mp_new F fzero).
  Notation mp_create := (mp_create F fzero).
  Notation mp_inc := (mp_inc F fzero fadd).
  Notation mp_apply := (mp_apply F fzero fone fadd fneg flt fle feqb of_Z zlef fmt_le).

  (* d' is d with the entries of metric n in file fn replaced by L'; every other (name, file) view unchanged *)
  Definition fs_upd (d d' : fs) (n : str) (fn : Values.fname) (L' : content) : Prop :=
    view n (fs_content d' fn) = L'
    /\ (forall n' fn', n' <> n \/ fn' <> fn -> view n' (fs_content d' fn') = view n' (fs_content d fn'))
    /\ (NoDup (map fst d) -> NoDup (map fst d')).

  Lemma fs_upd_refl d n fn : fs_upd d d n fn (view n (fs_content d fn)).
  Proof. repeat split; auto. Qed.

  Lemma fs_upd_trans d d1 d2 n fn L1 L2 : fs_upd d d1 n fn L1 -> fs_upd d1 d2 n fn L2 -> fs_upd d d2 n fn L2.
  Proof.
    intros [_ [H1 N1]] [H2 [H3 N2]]. split; [exact H2|split; [|auto]].
    intros n' fn' Hne. rewrite H3, H1 by exact Hne. reflexivity.
  Qed.

  Lemma rd_view d fn k n : Multiproc.k_metric k = n -> rd d fn k = l_rd (view n (fs_content d fn)) k.
  Proof. intro H. unfold Equiv.rd, EquivProofs.l_rd, Values.fs_cell. rewrite (view_find F n _ k H). reflexivity. Qed.

  Lemma wr_upd d fn k v ts n : Multiproc.k_metric k = n ->
    fs_upd d (wr d fn k v ts) n fn (l_wr (view n (fs_content d fn)) k v ts).
  Proof.
    intro Hk. unfold Equiv.wr, EquivProofs.l_wr. split; [|split].
    - rewrite (content_write F fzero), (kq_refl fneq fneq_eq).
      rewrite (view_set_same F n _ k _ Hk), (view_init_same F fzero n _ k Hk). reflexivity.
    - intros n' fn' Hne. rewrite (content_write F fzero). destruct (fneq fn' fn) eqn:E; [|reflexivity].
      apply fneq_eq in E; subst fn'. destruct Hne as [Hne|Hne]; [|contradiction].
      rewrite (view_set_other F n') by congruence. rewrite (view_init_other F fzero n') by congruence. reflexivity.
    - apply files_nodup_write.
  Qed.

  Lemma inc_upd d fn k x n : Multiproc.k_metric k = n ->
    fs_upd d (mp_inc d fn k x) n fn (l_inc (view n (fs_content d fn)) k x).
  Proof. intro Hk. unfold Equiv.mp_inc, EquivProofs.l_inc. rewrite (rd_view d fn k n Hk). apply wr_upd. exact Hk. Qed.

  Lemma new_upd d fn k n : Multiproc.k_metric k = n ->
    fs_upd d (mp_new d fn k) n fn (init_key (view n (fs_content d fn)) k).
  Proof.
    intro Hk. split; [|split].
    - rewrite (content_new F fzero), (kq_refl fneq fneq_eq). apply view_init_same. exact Hk.
    - intros n' fn' Hne. rewrite (content_new F fzero). destruct (fneq fn' fn) eqn:E; [|reflexivity].
      apply fneq_eq in E; subst fn'. destruct Hne as [Hne|Hne]; [|contradiction].
      apply view_init_other. congruence.
    - apply files_nodup_new.
  Qed.

  Lemma create_upd n fn : forall ks d, (forall k, In k ks -> Multiproc.k_metric k = n) ->
    fs_upd d (mp_create d fn ks) n fn (fold_left (fun L k => init_key L k) ks (view n (fs_content d fn))).
  Proof.
    induction ks as [|k ks IH]; intros d Hk; cbn [Equiv.mp_create fold_left]; [apply fs_upd_refl|].
    pose proof (new_upd d fn k n (Hk k (or_introl eq_refl))) as H1.
    eapply fs_upd_trans; [exact H1|]. destruct H1 as [H1 _]. rewrite <- H1.
    apply IH. intros; apply Hk; right; assumption.
  Qed.

  (* mp_apply acts on the entries of its family as l_apply does *)
  Lemma mp_apply_view (fam : shape F) me pid now d lv m :
    let fn := fam_file F fam me pid in
    let L := view (f_name fam) (fs_content d fn) in
    snd (mp_apply fam me pid now d lv m) = snd (l_apply fam me now L lv m)
    /\ fs_upd d (fst (mp_apply fam me pid now d lv m)) (f_name fam) fn (fst (l_apply fam me now L lv m)).
  Proof.
    intros fn L. unfold Equiv.mp_apply, EquivProofs.l_apply. fold fn.
    destruct (f_kind fam), m as [a|a|a|a| |kv|s]; cbn [fst snd]; try (split; [reflexivity|apply fs_upd_refl]).
    - destruct (alt0 fzero flt a); [split; [reflexivity|apply fs_upd_refl]|].
      destruct (to_F of_Z a); cbn [fst snd]; [|split; [reflexivity|apply fs_upd_refl]].
      split; [reflexivity|apply inc_upd; reflexivity].
    - split; [reflexivity|apply wr_upd; reflexivity].
    - destruct (to_F of_Z a); cbn [fst snd]; [|split; [reflexivity|apply fs_upd_refl]].
      split; [reflexivity|apply inc_upd; reflexivity].
    - destruct (to_F of_Z (aneg fneg a)); cbn [fst snd]; [|split; [reflexivity|apply fs_upd_refl]].
      split; [reflexivity|apply inc_upd; reflexivity].
    - destruct (to_F of_Z a); cbn [fst snd]; [|split; [reflexivity|apply fs_upd_refl]].
      split; [reflexivity|apply wr_upd; reflexivity].
    - destruct (to_F of_Z a) as [x|e]; cbn [fst snd]; [|split; [reflexivity|apply fs_upd_refl]].
      split; [reflexivity|].
      pose proof (inc_upd d fn (k_sum F fam me lv) x (f_name fam) eq_refl) as H1.
      eapply fs_upd_trans; [exact H1|]. destruct H1 as [H1 _]. fold L in H1. rewrite <- H1.
      apply inc_upd. reflexivity.
    - destruct (to_F of_Z a) as [x|e]; cbn [fst snd]; [|split; [reflexivity|apply fs_upd_refl]].
      split; [reflexivity|].
      pose proof (inc_upd d fn (k_sum F fam me lv) x (f_name fam) eq_refl) as H1.
      destruct (first_le F fle zlef a (f_bounds fam)) as [b|]; [|exact H1].
      eapply fs_upd_trans; [exact H1|]. destruct H1 as [H1 _]. fold L in H1. rewrite <- H1.
      apply inc_upd. reflexivity.
  Qed.
End FsToList.

Lemma nth_error_set_nth_other {A} (l : list A) : forall i j x, i <> j -> nth_error (set_nth l i x) j = nth_error l j.
Proof.
  induction l as [|a l IH]; intros [|i] [|j] x H; cbn [set_nth nth_error]; try reflexivity; try congruence.
  apply IH. congruence.
Qed.
Lemma set_nth_length {A} (l : list A) : forall i x, length (set_nth l i x) = length l.
Proof. induction l as [|a l IH]; intros [|i] x; cbn [set_nth length]; try reflexivity. rewrite IH. reflexivity. Qed.
Lemma map_set_nth_same {A B} (g : A -> B) (l : list A) : forall i x y, nth_error l i = Some y -> g x = g y ->
  map g (set_nth l i x) = map g l.
Proof.
  induction l as [|a l IH]; intros [|i] x y H E; cbn [set_nth map nth_error] in *; try discriminate.
  - inversion H; subst. rewrite E. reflexivity.
  - f_equal. eapply IH; eauto.
Qed.
Lemma set_nth_none {A} (l : list A) : forall i x, nth_error l i = None -> set_nth l i x = l.
Proof. induction l as [|a l IH]; intros [|i] x H; cbn [set_nth nth_error] in *; try reflexivity; try discriminate. f_equal. auto. Qed.

Lemma resolve_length names a k : resolve names a = Ok (Some k) -> length k = length names.
Proof.
  unfold resolve. destruct a as [|pos kw]; [discriminate|].
  destruct (is_nil names); [discriminate|]. destruct (negb (is_nil pos) && negb (is_nil kw)); [discriminate|].
  destruct (negb (is_nil kw)).
  - destruct (multiset_eqb (map fst kw) names); [|discriminate].
    destruct (kw_values kw names) as [vs|e] eqn:E; cbn [bind]; [|discriminate]. intro H. inversion H; subst.
    clear - E. revert k E. induction names as [|n names IH]; intros k E; cbn [kw_values] in E.
    + inversion E. reflexivity.
    + destruct (d_get str_eqb kw n); cbn [bind] in E; [|discriminate].
      destruct (kw_values kw names) eqn:E2; cbn [bind] in E; [|discriminate]. inversion E; subst. cbn. f_equal. eauto.
  - destruct (Nat.eqb (length pos) (length names)) eqn:E; [|discriminate]. intro H. inversion H; subst.
    apply Nat.eqb_eq. exact E.
Qed.

Lemma resolve_none_nil names a : resolve names a = Ok None -> a = Parent.
Proof.
  unfold resolve. destruct a as [|pos kw]; [reflexivity|].
  destruct (is_nil names); [discriminate|]. destruct (negb (is_nil pos) && negb (is_nil kw)); [discriminate|].
  destruct (negb (is_nil kw)).
  - destruct (multiset_eqb (map fst kw) names); [|discriminate]. destruct (kw_values kw names); cbn [bind]; discriminate.
  - destruct (Nat.eqb (length pos) (length names)); discriminate.
Qed.

Lemma resolve_some_labelled names a k : resolve names a = Ok (Some k) -> is_nil names = false.
Proof. unfold resolve. destruct a; [discriminate|]. destruct (is_nil names); [discriminate|reflexivity]. Qed.

Lemma in_log_cons_other log f k g lv : (g <> f \/ lv <> k) -> in_log ((f, k) :: log) g lv = in_log log g lv.
Proof.
  intro H. unfold in_log. cbn [existsb]. unfold lk_eqb at 1. cbn [fst snd].
  destruct H as [H|H].
  - apply Nat.eqb_neq in H. rewrite H. reflexivity.
  - apply key_eqb_neq in H. rewrite H, andb_false_r. reflexivity.
Qed.
Lemma in_log_cons_same log f k : in_log ((f, k) :: log) f k = true.
Proof. unfold in_log. cbn [existsb]. unfold lk_eqb at 1. cbn [fst snd]. rewrite Nat.eqb_refl, key_eqb_refl. reflexivity. Qed.

(* ================= the simulation: the file-backed run keeps the cells of the in-memory run ================= *)
Section Sim.
  Variable F : Type.
  Variables fzero fone : F.
  Variable fadd : F -> F -> F.
  Variable fneg : F -> F.
  Variables flt fle feqb : F -> F -> bool.
  Variable of_Z : Z -> res F.
  Variable zlef : Z -> F -> bool.
  Variable fmt_le : F -> str.
  Variable pid : str.
  Variable metas : list fmeta.

  Notation mkey := Multiproc.key.
  Notation mkeq := Multiproc.key_eqb.
  Let mkeq_eq := MultiprocProofs.key_eqb_eq.
  Let fneq_eq := ValuesProofs.fname_eqb_eq.
  Notation fneq := Values.fname_eqb.
  Notation content := (Values.content F).
  Notation fs := (Values.fs F).
  Notation fs_content := (Values.fs_content F).
  Notation init_key := (Values.init_key F fzero).
  Notation cell_keys := (cell_keys F fmt_le).
  Notation keys_wf := (keys_wf F fmt_le).
  Notation enc_kids := (enc_kids F fzero fone fadd fmt_le).
  Notation enc_child := (enc_child F fzero fone fadd fmt_le).
  Notation kids := (kids F).
  Notation kid_ok := (kid_ok F).
  Notation tupd := (tupd F).
  Notation l_apply := (l_apply F fzero fone fadd fneg flt fle feqb of_Z zlef fmt_le).
  Notation APPLY := (apply_mop fzero fadd fneg flt fle of_Z zlef false).
  Notation MSTEP := (mstep fzero fadd fneg flt fle of_Z zlef).
  Notation mem_step := (mem_step F fzero fadd fneg flt fle of_Z zlef metas).
  Notation mp_step := (mp_step F fzero fone fadd fneg flt fle feqb of_Z zlef fmt_le metas pid).
  Notation mp_apply := (mp_apply F fzero fone fadd fneg flt fle feqb of_Z zlef fmt_le).
  Notation mp_ensure := (mp_ensure F fzero fmt_le).
  Notation mp_create := (mp_create F fzero).
  Notation fs_upd := (fs_upd F).
  Notation fam_file := (fam_file F).
  Notation shape_of := (shape_of F).

  (* time.time() during a call: positive *)
  Definition tpos (now : F) : Prop := flt fzero now = true /\ feqb now fzero = false.

  Record fam_inv (d : fs) (log : list logkey) (f : nat) (fam : mfamily F (child F)) (me : fmeta) (tsf : key -> F)
    : Prop := mkFI {
    fi_wf : keys_wf fam;
    fi_sup : supported (f_kind fam) = true;
    fi_nd : NoDup (map fst (kids fam));
    fi_ok : Forall (kid_ok fam) (kids fam);
    fi_view : forall fn, view (f_name fam) (fs_content d fn)
                         = if fneq fn (fam_file fam me pid) then enc_kids fam me tsf (kids fam) else [];
    fi_log : forall lv, in_log log f lv = true -> In lv (map fst (kids fam));
    fi_ts : f_kind fam = KGauge -> is_mr (fm_mode me) = true -> forall lv, In lv (map fst (kids fam)) ->
            if in_log log f lv then flt fzero (tsf lv) = true else tsf lv = fzero;
    fi_gauge : f_kind fam = KGauge -> ~ In Multiproc.S_pid (f_labelnames fam) /\ In (fm_mode me) GAUGE_MODES }.

  Definition Inv (s : mem F) (p : mp F) (tsfs : nat -> key -> F) : Prop :=
    p_shape F p = map shape_of (m_reg F s)
    /\ length metas = length (m_reg F s)
    /\ NoDup (map (fun fam : mfamily F (child F) => f_name fam) (m_reg F s))
    /\ NoDup (map fst (p_fs F p))
    /\ (forall f fam me, nth_error (m_reg F s) f = Some fam -> nth_error metas f = Some me ->
         fam_inv (p_fs F p) (m_log F s) f fam me (tsfs f))
    /\ (forall n fn, ~ In n (map (fun fam : mfamily F (child F) => f_name fam) (m_reg F s)) ->
          view n (fs_content (p_fs F p) fn) = []).

  (* the static part of a family *)
  Definition same_static {C D} (a : mfamily F C) (b : mfamily F D) : Prop :=
    f_kind a = f_kind b /\ f_name a = f_name b /\ f_labelnames a = f_labelnames b /\ f_bounds a = f_bounds b.

  Lemma enc_kids_static {C D} (a : mfamily F C) (b : mfamily F D) me tsf l : same_static a b ->
    enc_kids a me tsf l = enc_kids b me tsf l.
  Proof.
    intros (Hk & Hn & Hl & Hb). unfold EquivProofs.enc_kids. apply flat_map_ext. intros [lv c].
    unfold EquivProofs.enc_child, Equiv.k_total, Equiv.k_gauge, Equiv.k_count, Equiv.k_sum, Equiv.k_bucket, Equiv.ckey.
    rewrite Hn, Hl, Hb. reflexivity.
  Qed.

  Lemma keys_wf_static {C D} (a : mfamily F C) (b : mfamily F D) : same_static a b -> keys_wf b -> keys_wf a.
  Proof. intros (Hk & Hn & Hl & Hb). unfold EquivProofs.keys_wf. rewrite Hk, Hl, Hb. tauto. Qed.

  Lemma kid_ok_static {C D} (a : mfamily F C) (b : mfamily F D) kc : same_static a b -> kid_ok b kc -> kid_ok a kc.
  Proof. intros (Hk & Hn & Hl & Hb). unfold EquivProofs.kid_ok. rewrite Hk, Hl, Hb. tauto. Qed.

  Lemma fam_file_static {C D} (a : mfamily F C) (b : mfamily F D) me : same_static a b -> fam_file a me pid = fam_file b me pid.
  Proof. intros (Hk & _). unfold Equiv.fam_file. rewrite Hk. reflexivity. Qed.

  (* ----- a family other than the one whose file entries change ----- *)
  Lemma fam_inv_frame d d' log log' g famg meg tsf n fn L' :
    fam_inv d log g famg meg tsf -> fs_upd d d' n fn L' -> f_name famg <> n ->
    (forall lv, in_log log' g lv = in_log log g lv) -> fam_inv d' log' g famg meg tsf.
  Proof.
    intros [H1 H2 H3 H4 H5 H6 H7 H8] [_ [Hfr _]] Hne Hlog. constructor; auto.
    - intros fn'. rewrite Hfr by (left; exact Hne). apply H5.
    - intros lv. rewrite Hlog. apply H6.
    - intros Hk Hm lv Hin. rewrite Hlog. apply H7; assumption.
  Qed.

  Lemma names_distinct (r : mregistry F) f g (fa fb : mfamily F (child F)) :
    NoDup (map (fun fam : mfamily F (child F) => f_name fam) r) ->
    nth_error r f = Some fa -> nth_error r g = Some fb -> f <> g -> f_name fa <> f_name fb.
  Proof.
    intros Hnd Hf Hg Hne E. apply Hne.
    assert (Hf' : nth_error (map (fun fam : mfamily F (child F) => f_name fam) r) f = Some (f_name fa))
      by (rewrite nth_error_map', Hf; reflexivity).
    assert (Hg' : nth_error (map (fun fam : mfamily F (child F) => f_name fam) r) g = Some (f_name fb))
      by (rewrite nth_error_map', Hg; reflexivity).
    rewrite <- E in Hg'. rewrite NoDup_nth_error in Hnd. apply Hnd; [|congruence].
    apply nth_error_Some. congruence.
  Qed.

  (* ----- installing the new state of the target family ----- *)
  Lemma install s p tsfs f fam me fam' d' log' tsf' L' :
    Inv s p tsfs -> nth_error (m_reg F s) f = Some fam -> nth_error metas f = Some me ->
    same_static fam' fam -> fs_upd (p_fs F p) d' (f_name fam) (fam_file fam me pid) L' ->
    fam_inv d' log' f fam' me tsf' ->
    (forall g lv, g <> f -> in_log log' g lv = in_log (m_log F s) g lv) ->
    Inv (mkMem F (set_nth (m_reg F s) f fam') log') (mkMp F (set_nth (p_shape F p) f (shape_of fam')) d')
        (fun g => if Nat.eqb g f then tsf' else tsfs g).
  Proof.
    intros (Hsh & Hlen & Hnames & Hfiles & Hfam & Hfor) Hf Hme Hst Hupd Hnew Hlog.
    unfold Inv. cbn [m_reg m_log p_shape p_fs]. split; [|split; [|split; [|split; [|split]]]].
    - rewrite Hsh. apply set_nth_map.
    - rewrite set_nth_length. exact Hlen.
    - rewrite (map_set_nth_same _ _ f fam' fam Hf); [exact Hnames|]. destruct Hst as (_ & Hn & _). exact Hn.
    - destruct Hupd as (_ & _ & Hnd). apply Hnd. exact Hfiles.
    - intros g famg meg Hg Hmg. destruct (Nat.eqb g f) eqn:E.
      + apply Nat.eqb_eq in E; subst g. rewrite (nth_error_set_nth _ f fam fam' Hf) in Hg. inversion Hg; subst famg.
        rewrite Hme in Hmg. inversion Hmg; subst meg. exact Hnew.
      + apply Nat.eqb_neq in E. rewrite nth_error_set_nth_other in Hg by congruence.
        eapply fam_inv_frame; [apply Hfam; eassumption|exact Hupd| |intro lv; apply Hlog; exact E].
        eapply names_distinct; eauto.
    - intros n fn Hn. rewrite (map_set_nth_same _ _ f fam' fam Hf) in Hn by (destruct Hst as (_ & Hn' & _); exact Hn').
      destruct Hupd as (_ & Hfr & _). rewrite Hfr; [apply Hfor; exact Hn|].
      left. intro E. apply Hn. rewrite E. apply (in_map (fun fam0 : mfamily F (child F) => f_name fam0)).
      eapply nth_error_In. exact Hf.
  Qed.

  Lemma ts_or_zero_pos now : tpos now -> flt fzero (Values.ts_or_zero F fzero feqb (Some now)) = true.
  Proof. intros [H1 H2]. unfold Values.ts_or_zero. rewrite H2. exact H1. Qed.

  Lemma kids_split (l : list (key * child F)) lv c c' : NoDup (map fst l) -> In (lv, c) l ->
    exists l1 l2, l = l1 ++ (lv, c) :: l2 /\ d_set key_eqb l lv c' = l1 ++ (lv, c') :: l2.
  Proof.
    intros Hnd Hin. apply in_split in Hin as [l1 [l2 ->]]. exists l1, l2. split; [reflexivity|].
    rewrite map_app in Hnd. cbn [map fst] in Hnd.
    rewrite (ds_app_r key_eqb key_eqb_eq).
    - cbn [d_set]. rewrite key_eqb_refl. reflexivity.
    - intro Hin. eapply (NoDup_app_disj _ _ lv Hnd Hin). left. reflexivity.
  Qed.

  (* ----- an update of an existing child (or of the metric's own cells) ----- *)
  Lemma apply_sim d log f fam me tsf now l1 lv c l2 m fam' :
    fam_inv d log f fam me tsf -> tpos now -> kids fam = l1 ++ (lv, c) :: l2 ->
    mr_blocked F (f_kind fam) (fm_mode me) m = false ->
    same_static fam' fam ->
    kids fam' = l1 ++ (lv, fst (APPLY (f_labelnames fam) (f_bounds fam) (f_states fam) c m)) :: l2 ->
    let out := snd (APPLY (f_labelnames fam) (f_bounds fam) (f_states fam) c m) in
    let log' := match out, f_kind fam, is_set F m with Ok _, KGauge, true => (f, lv) :: log | _, _, _ => log end in
    let dp := mp_apply (shape_of fam) me pid now d lv m in
    snd dp = out
    /\ exists tsf' L', fs_upd d (fst dp) (f_name fam) (fam_file fam me pid) L' /\ fam_inv (fst dp) log' f fam' me tsf'.
  Proof.
    intros [Hwf Hsup Hnd Hok Hview Hlog Hts Hgauge] Hpos Hk Hmr Hst Hk' out log' dp.
    pose proof (mp_apply_view F fzero fone fadd fneg flt fle feqb of_Z zlef fmt_le (shape_of fam) me pid now d lv m) as HV.
    cbv zeta in HV. fold dp in HV.
    change (f_name (shape_of fam)) with (f_name fam) in HV.
    change (Equiv.fam_file F (shape_of fam) me pid) with (fam_file fam me pid) in HV.
    rewrite (Hview (fam_file fam me pid)), (kq_refl fneq fneq_eq) in HV.
    change (l_apply (shape_of fam) me now (enc_kids fam me tsf (kids fam)) lv m)
      with (l_apply fam me now (enc_kids fam me tsf (kids fam)) lv m) in HV.
    rewrite Hk in Hnd, Hok.
    pose proof (enc_kids_apply F fzero fone fadd fneg flt fle feqb of_Z zlef fmt_le fam me now tsf l1 lv c l2 m Hwf Hok Hnd Hmr) as HA.
    subst out log'. destruct (APPLY (f_labelnames fam) (f_bounds fam) (f_states fam) c m) as [c' out] eqn:EA.
    cbn [fst snd] in *. destruct HA as [ts' [HA [Hc' Hg]]]. rewrite Hk, HA in HV. cbn [fst snd] in HV.
    destruct HV as [Hout Hupd]. split; [exact Hout|].
    exists (tupd tsf lv ts'), (enc_kids fam me (tupd tsf lv ts') (l1 ++ (lv, c') :: l2)). split; [exact Hupd|].
    assert (Hkeys : map fst (kids fam') = map fst (l1 ++ (lv, c) :: l2)).
    { rewrite Hk', !map_app. reflexivity. }
    destruct Hst as (Sk & Sn & Sl & Sb).
    constructor.
    - apply (keys_wf_static fam' fam); [repeat split; assumption|exact Hwf].
    - rewrite Sk. exact Hsup.
    - rewrite Hkeys. exact Hnd.
    - rewrite Hk'. apply Forall_app in Hok as [Ho1 Ho2]. inversion Ho2; subst.
      apply Forall_app. split; [|constructor].
      + eapply Forall_impl; [|exact Ho1]. intros kc. apply kid_ok_static. repeat split; assumption.
      + apply (kid_ok_static fam' fam); [repeat split; assumption|exact Hc'].
      + eapply Forall_impl; [|eassumption]. intros kc. apply kid_ok_static. repeat split; assumption.
    - intros fn. rewrite Sn, (fam_file_static fam' fam me) by (repeat split; assumption).
      rewrite (enc_kids_static fam' fam) by (repeat split; assumption). rewrite Hk'.
      destruct (fneq fn (fam_file fam me pid)) eqn:E.
      + apply fneq_eq in E; subst fn. destruct Hupd as [H1 _]. exact H1.
      + destruct Hupd as [_ [H2 _]]. rewrite H2; [rewrite Hview, E; reflexivity|].
        right. intro E2; subst fn. rewrite (kq_refl fneq fneq_eq) in E. discriminate.
    - intros lv0 Hin. rewrite Hkeys, <- Hk.
      destruct out as [[]|e]; [|apply Hlog; exact Hin].
      destruct (f_kind fam); try (apply Hlog; exact Hin).
      destruct (is_set F m); [|apply Hlog; exact Hin].
      destruct (key_eqb lv0 lv) eqn:E.
      + apply key_eqb_eq in E; subst lv0. rewrite Hk, map_app. apply in_or_app. right. left. reflexivity.
      + apply key_eqb_neq in E. rewrite in_log_cons_other in Hin by (right; exact E). apply Hlog. exact Hin.
    - intros HK Hm lv0 Hin. rewrite Sk in HK. rewrite Hkeys, <- Hk in Hin.
      specialize (Hg HK Hm). rewrite HK. destruct Hg as [(-> & -> & Hno)|(Hset & -> & ->)].
      + destruct out as [[]|e]; [exfalso; apply Hno; reflexivity|]. cbv iota.
        specialize (Hts HK Hm lv0 Hin).
        destruct (key_eqb lv0 lv) eqn:E.
        * apply key_eqb_eq in E; subst lv0. rewrite tupd_same. exact Hts.
        * apply key_eqb_neq in E. rewrite tupd_other by exact E. exact Hts.
      + rewrite Hset. cbv iota. destruct (key_eqb lv0 lv) eqn:E.
        * apply key_eqb_eq in E; subst lv0. rewrite in_log_cons_same, tupd_same. apply ts_or_zero_pos. exact Hpos.
        * apply key_eqb_neq in E. rewrite in_log_cons_other by (right; exact E). rewrite tupd_other by exact E.
          apply Hts; assumption.
    - rewrite Sk, Sl. exact Hgauge.
  Qed.

  (* ----- labels(): the child exists afterwards; a new child gets its cells, zero-initialised ----- *)
  Lemma ensure_sim d log f fam me tsf k :
    fam_inv d log f fam me tsf -> is_nil (f_labelnames fam) = false -> length k = length (f_labelnames fam) ->
    let fam1 := with_children fam (ensure (init_child fzero (f_kind fam) (f_bounds fam)) (f_children fam) k) in
    let sd := mp_ensure (shape_of fam) me pid d k in
    fst sd = shape_of fam1
    /\ exists tsf1 L1, fs_upd d (snd sd) (f_name fam) (fam_file fam me pid) L1 /\ fam_inv (snd sd) log f fam1 me tsf1.
  Proof.
    intros HI Hlab Hlen fam1 sd. pose proof HI as [Hwf Hsup Hnd Hok Hview Hlog Hts Hgauge].
    assert (Hkids : kids fam = f_children fam) by (unfold EquivProofs.kids; rewrite Hlab; reflexivity).
    rewrite Hkids in Hnd, Hok, Hlog, Hts.
    subst sd fam1. unfold Equiv.mp_ensure.
    change (f_children (shape_of fam)) with (MetricsSpec.mapv (fun _ : child F => tt) (f_children fam)).
    rewrite d_find_mapv. unfold ensure. destruct (d_find key_eqb (f_children fam) k) as [c|] eqn:E; cbn [option_map fst snd].
    - rewrite with_children_same. split; [reflexivity|].
      exists tsf, (view (f_name fam) (fs_content d (fam_file fam me pid))). split; [apply fs_upd_refl|exact HI].
    - apply d_find_none_notin in E.
      set (init := init_child fzero (f_kind fam) (f_bounds fam)).
      set (fam1 := with_children fam (f_children fam ++ [(k, init)])).
      split; [unfold Equiv.shape_of; cbn [f_kind f_name f_labelnames f_bounds f_states f_children with_children]; rewrite map_app; reflexivity|].
      change (Equiv.fam_file F (shape_of fam) me pid) with (fam_file fam me pid).
      change (Equiv.cell_keys F fmt_le (shape_of fam) me k) with (cell_keys fam me k).
      pose proof (create_upd F fzero (f_name fam) (fam_file fam me pid) (cell_keys fam me k) d
                    (fun k0 H => cell_keys_metric F fmt_le fam me k k0 H)) as Hupd.
      rewrite (Hview (fam_file fam me pid)), (kq_refl fneq fneq_eq), Hkids in Hupd.
      rewrite (init_keys_absent F fzero) in Hupd.
      2:{ apply (cell_keys_nodup F fzero fadd fmt_le); assumption. }
      2:{ intros k0 Hk0. apply (enc_kids_notin F fzero fone fadd fmt_le fam me tsf (f_children fam) k k0); assumption. }
      rewrite <- (enc_init_child F fzero fone fadd fmt_le fam me k Hsup) in Hupd. fold init in Hupd.
      assert (HL : enc_kids fam me tsf (f_children fam) ++ enc_child fam me k init fzero
                   = enc_kids fam1 me (tupd tsf k fzero) (f_children fam ++ [(k, init)])).
      { rewrite (enc_kids_static fam1 fam) by (repeat split; reflexivity).
        rewrite (enc_kids_app F fzero fone fadd fmt_le). rewrite (enc_kids_tupd F fzero fone fadd fmt_le) by exact E.
        f_equal. unfold EquivProofs.enc_kids. cbn [flat_map fst snd]. rewrite tupd_same, app_nil_r. reflexivity. }
      rewrite HL in Hupd.
      exists (tupd tsf k fzero), (enc_kids fam1 me (tupd tsf k fzero) (f_children fam ++ [(k, init)])).
      split; [exact Hupd|].
      assert (Hk1 : kids fam1 = f_children fam ++ [(k, init)]).
      { unfold EquivProofs.kids. change (f_labelnames fam1) with (f_labelnames fam). rewrite Hlab. reflexivity. }
      constructor; change (with_children fam (f_children fam ++ [(k, init)])) with fam1.
      + exact Hwf.
      + exact Hsup.
      + rewrite Hk1, map_app. apply ValuesProofs.NoDup_snoc; assumption.
      + rewrite Hk1. apply Forall_app. split; [exact Hok|]. constructor; [|constructor].
        split; [exact Hlen|]. cbn [snd]. apply init_child_ok. exact Hsup.
      + intros fn. rewrite Hk1. change (f_name fam1) with (f_name fam).
        change (fam_file fam1 me pid) with (fam_file fam me pid).
        destruct (fneq fn (fam_file fam me pid)) eqn:E2.
        * apply fneq_eq in E2; subst fn. destruct Hupd as [H1 _]. exact H1.
        * destruct Hupd as [_ [H2 _]]. rewrite H2; [rewrite Hview, E2; reflexivity|].
          right. intro E3; subst fn. rewrite (kq_refl fneq fneq_eq) in E2. discriminate.
      + intros lv Hin. rewrite Hk1, map_app. apply in_or_app. left. apply Hlog. exact Hin.
      + intros HK Hm lv Hin. rewrite Hk1, map_app in Hin. apply in_app_or in Hin as [Hin|Hin].
        * rewrite tupd_other by (intro E3; subst; contradiction). apply Hts; assumption.
        * cbn in Hin. destruct Hin as [<-|[]]. rewrite tupd_same.
          destruct (in_log log f k) eqn:E3; [|reflexivity]. exfalso. apply E. apply Hlog. exact E3.
      + exact Hgauge.
  Qed.

  (* ----- one call ----- *)
  Definition no_removal (o : mcall F) : Prop := match o with CUpd _ _ _ | CLabels _ _ => True | _ => False end.

  Lemma shape_nth s p tsfs f : Inv s p tsfs ->
    nth_error (p_shape F p) f = option_map shape_of (nth_error (m_reg F s) f).
  Proof. intros (Hsh & _). rewrite Hsh. apply nth_error_map'. Qed.

  Lemma Inv_eta s p tsfs : Inv s p tsfs -> Inv (mkMem F (m_reg F s) (m_log F s)) p tsfs.
  Proof. destruct s. exact (fun H => H). Qed.

  Lemma parent_outcome_err k (m : mop F) : exists e, parent_outcome false k m = Err e.
  Proof. unfold parent_outcome. destruct (negb (has_method k m)); [eauto|]. destruct m; eauto. Qed.

  Lemma log_match (out : res unit) k (b : bool) (tk : option key) lv (log : list logkey) (f : nat) : tk = Some lv ->
    match out, k, b, tk with Ok _, KGauge, true, Some k0 => (f, k0) :: log | _, _, _, _ => log end
    = match out, k, b with Ok _, KGauge, true => (f, lv) :: log | _, _, _ => log end.
  Proof. intros ->. destruct out, k, b; reflexivity. Qed.

  Lemma log_frame (out : res unit) k (b : bool) lv (log : list logkey) (f : nat) g lv0 : g <> f ->
    in_log (match out, k, b with Ok _, KGauge, true => (f, lv) :: log | _, _, _ => log end) g lv0 = in_log log g lv0.
  Proof. intro H. destruct out, k, b; try reflexivity. apply in_log_cons_other. left. exact H. Qed.

  Lemma shape_of_set (fam : mfamily F (child F)) ch l1 l2 k c0 c' :
    ch = l1 ++ (k, c0) :: l2 ->
    shape_of (with_children fam (l1 ++ (k, c') :: l2)) = shape_of (with_children fam ch).
  Proof. intros ->. unfold Equiv.shape_of. cbn [f_kind f_name f_labelnames f_bounds f_states f_children with_children]. rewrite !map_app. reflexivity. Qed.

  Lemma labels_sim s p tsfs f a fam me :
    Inv s p tsfs -> nth_error (m_reg F s) f = Some fam -> nth_error metas f = Some me ->
    forall k, resolve (f_labelnames fam) a = Ok (Some k) ->
    let fam1 := with_children fam (ensure (init_child fzero (f_kind fam) (f_bounds fam)) (f_children fam) k) in
    let sd := mp_ensure (shape_of fam) me pid (p_fs F p) k in
    exists tsfs', Inv (mkMem F (put_family (m_reg F s) f fam1) (m_log F s))
                      (mkMp F (set_nth (p_shape F p) f (fst sd)) (snd sd)) tsfs'.
  Proof.
    intros HI Ef Em k Er fam1 sd. pose proof HI as (_ & _ & _ & _ & HF & _). specialize (HF f fam me Ef Em).
    destruct (ensure_sim (p_fs F p) (m_log F s) f fam me (tsfs f) k HF (resolve_some_labelled _ _ _ Er)
                (resolve_length _ _ _ Er)) as [Hfst [tsf1 [L1 [Hupd Hinv]]]].
    fold sd in Hfst, Hupd, Hinv. fold fam1 in Hfst, Hinv. rewrite Hfst.
    eexists. unfold put_family. eapply (install s p tsfs f fam me fam1 (snd sd) (m_log F s) tsf1 L1); eauto.
    repeat split; reflexivity.
  Qed.

  Theorem step_sim s p tsfs now o : Inv s p tsfs -> tpos now -> no_removal o ->
    snd (mp_step p now o) = snd (mem_step s o)
    /\ exists tsfs', Inv (fst (mem_step s o)) (fst (mp_step p now o)) tsfs'.
  Proof.
    intros HI Hpos Hnr. destruct o as [f a m|f a|f vs|f]; try contradiction.
    - (* metric[.labels(..)].method(arg) *)
      unfold Equiv.mem_step, Equiv.mp_step. rewrite (shape_nth s p tsfs f HI).
      destruct (nth_error (m_reg F s) f) as [fam|] eqn:Ef; cbn [option_map];
        [|split; [reflexivity|exists tsfs; exact HI]].
      destruct (nth_error metas f) as [me|] eqn:Em; [|split; [reflexivity|exists tsfs; exact HI]].
      change (f_labelnames (shape_of fam)) with (f_labelnames fam). change (f_kind (shape_of fam)) with (f_kind fam).
      pose proof HI as (_ & _ & _ & _ & HF & _). specialize (HF f fam me Ef Em).
      unfold mstep, mstep_gen. rewrite Ef.
      destruct (mr_blocked F (f_kind fam) (fm_mode me) m) eqn:Hb.
      + (* inc/dec on a mostrecent gauge: labels() runs, then RuntimeError *)
        destruct (resolve (f_labelnames fam) a) as [[k|]|e] eqn:Er; cbn [fst snd].
        * destruct (labels_sim s p tsfs f a fam me HI Ef Em k Er) as [tsfs' HI'].
          destruct (mp_ensure (shape_of fam) me pid (p_fs F p) k) as [fam' d1]. cbn [fst snd] in *.
          split; [reflexivity|]. exists tsfs'. exact HI'.
        * split; [reflexivity|]. exists tsfs. apply Inv_eta. exact HI.
        * split; [reflexivity|]. exists tsfs. apply Inv_eta. exact HI.
      + destruct (resolve (f_labelnames fam) a) as [[k|]|e] eqn:Er.
        * (* a child, created on the way if new *)
          set (init := init_child fzero (f_kind fam) (f_bounds fam)).
          set (ch := ensure init (f_children fam) k).
          set (fam1 := with_children fam ch).
          pose proof (resolve_some_labelled _ _ _ Er) as Hlab. pose proof (resolve_length _ _ _ Er) as Hlen.
          destruct (ensure_sim (p_fs F p) (m_log F s) f fam me (tsfs f) k HF Hlab Hlen) as [Hfst [tsf1 [L1 [Hupd1 Hinv1]]]].
          fold init in Hfst, Hinv1. fold ch in Hfst, Hinv1. fold fam1 in Hfst, Hinv1.
          destruct (mp_ensure (shape_of fam) me pid (p_fs F p) k) as [fam' d1]. cbn [fst snd] in Hfst, Hupd1, Hinv1. subst fam'.
          assert (Hk1 : kids fam1 = ch).
          { unfold EquivProofs.kids. change (f_labelnames fam1) with (f_labelnames fam). rewrite Hlab. reflexivity. }
          assert (Hin : In (k, child_at init ch k) ch).
          { apply (df_some_in key_eqb key_eqb_eq). unfold ch. rewrite d_find_ensure, child_at_ensure. reflexivity. }
          pose proof (fi_nd _ _ _ _ _ _ Hinv1) as Hnd1. rewrite Hk1 in Hnd1.
          set (c0 := child_at init ch k) in *.
          destruct (APPLY (f_labelnames fam) (f_bounds fam) (f_states fam) c0 m) as [c' out] eqn:Eco.
          destruct (kids_split ch k c0 c' Hnd1 Hin) as [l1 [l2 [Hsplit Hset]]].
          set (fam2 := with_children fam (d_set key_eqb ch k c')).
          assert (Hk2 : kids fam2 = l1 ++ (k, fst (APPLY (f_labelnames fam1) (f_bounds fam1) (f_states fam1) c0 m)) :: l2).
          { change (APPLY (f_labelnames fam1) (f_bounds fam1) (f_states fam1) c0 m)
              with (APPLY (f_labelnames fam) (f_bounds fam) (f_states fam) c0 m). rewrite Eco. cbn [fst].
            unfold EquivProofs.kids. change (f_labelnames fam2) with (f_labelnames fam). rewrite Hlab. exact Hset. }
          rewrite <- Hk1 in Hsplit.
          pose proof (apply_sim d1 (m_log F s) f fam1 me tsf1 now l1 k c0 l2 m fam2 Hinv1 Hpos Hsplit Hb
                        ltac:(repeat split; reflexivity) Hk2) as HA.
          cbv zeta in HA.
          change (APPLY (f_labelnames fam1) (f_bounds fam1) (f_states fam1) c0 m)
            with (APPLY (f_labelnames fam) (f_bounds fam) (f_states fam) c0 m) in HA. rewrite Eco in HA. cbn [fst snd] in HA.
          change (mp_apply (shape_of fam1) me pid now d1 k m) with (mp_apply (shape_of fam) me pid now d1 k m) in HA.
          destruct HA as [Hout [tsf2 [L2 [Hupd2 Hinv2]]]].
          change (f_name fam1) with (f_name fam) in Hupd2. change (fam_file fam1 me pid) with (fam_file fam me pid) in Hupd2.
          change (f_kind fam1) with (f_kind fam) in Hinv2.
          destruct (mp_apply (shape_of fam) me pid now d1 k m) as [d2 out2]. cbn [fst snd] in *. subst out2.
          split; [reflexivity|].
          unfold Equiv.target_key. rewrite Er. cbv iota.
          assert (Hsh : shape_of fam1 = shape_of fam2).
          { unfold fam2. rewrite Hset. symmetry. apply (shape_of_set fam ch l1 l2 k c0 c'). rewrite <- Hk1. exact Hsplit. }
          rewrite Hsh. eexists. unfold put_family.
          eapply (install s p tsfs f fam me fam2 d2 _ tsf2 L2 HI Ef Em); [repeat split; reflexivity| |exact Hinv2|].
          -- eapply fs_upd_trans; eassumption.
          -- intros g lv0 Hg. apply log_frame. exact Hg.
        * (* the metric object itself *)
          destruct (is_nil (f_labelnames fam)) eqn:En.
          -- assert (Hk0 : kids fam = [] ++ ([], f_solo fam) :: []) by (unfold EquivProofs.kids; rewrite En; reflexivity).
             destruct (APPLY (f_labelnames fam) (f_bounds fam) (f_states fam) (f_solo fam) m) as [c' out] eqn:Eco.
             set (fam2 := with_solo fam c').
             assert (Hk2 : kids fam2 = [] ++ ([], fst (APPLY (f_labelnames fam) (f_bounds fam) (f_states fam) (f_solo fam) m)) :: []).
             { rewrite Eco. unfold EquivProofs.kids. change (f_labelnames fam2) with (f_labelnames fam). rewrite En. reflexivity. }
             pose proof (apply_sim (p_fs F p) (m_log F s) f fam me (tsfs f) now [] [] (f_solo fam) [] m fam2 HF Hpos Hk0 Hb
                           ltac:(repeat split; reflexivity) Hk2) as HA.
             cbv zeta in HA. rewrite Eco in HA. cbn [fst snd] in HA. destruct HA as [Hout [tsf2 [L2 [Hupd2 Hinv2]]]].
             destruct (mp_apply (shape_of fam) me pid now (p_fs F p) [] m) as [d2 out2]. cbn [fst snd] in *. subst out2.
             split; [reflexivity|]. unfold Equiv.target_key. rewrite Er, En. cbv iota.
             assert (Hsh : p_shape F p = set_nth (p_shape F p) f (shape_of fam2)).
             { symmetry. apply set_nth_same. rewrite (shape_nth s p tsfs f HI), Ef. reflexivity. }
             rewrite Hsh. eexists. unfold put_family.
             eapply (install s p tsfs f fam me fam2 d2 _ tsf2 L2 HI Ef Em); [repeat split; reflexivity|exact Hupd2|exact Hinv2|].
             intros g lv0 Hg. apply log_frame. exact Hg.
          -- destruct (parent_outcome_err (f_kind fam) m) as [e He]. rewrite He. cbn [fst snd].
             split; [reflexivity|]. exists tsfs. apply Inv_eta. exact HI.
        * split; [reflexivity|]. exists tsfs. apply Inv_eta. exact HI.
    - (* metric.labels(..) alone *)
      unfold Equiv.mem_step, Equiv.mp_step. rewrite (shape_nth s p tsfs f HI).
      unfold mstep, mstep_gen.
      destruct (nth_error (m_reg F s) f) as [fam|] eqn:Ef; cbn [option_map];
        [|split; [reflexivity|exists tsfs; apply Inv_eta; exact HI]].
      destruct (nth_error metas f) as [me|] eqn:Em.
      2:{ exfalso. apply nth_error_None in Em. destruct HI as (_ & Hlen & _). rewrite Hlen in Em.
          assert (nth_error (m_reg F s) f <> None) by congruence. apply nth_error_Some in H. lia. }
      change (f_labelnames (shape_of fam)) with (f_labelnames fam).
      destruct (resolve (f_labelnames fam) a) as [[k|]|e] eqn:Er; cbn [fst snd].
      + destruct (labels_sim s p tsfs f a fam me HI Ef Em k Er) as [tsfs' HI'].
        destruct (mp_ensure (shape_of fam) me pid (p_fs F p) k) as [fam' d1]. cbn [fst snd] in *.
        split; [reflexivity|]. exists tsfs'. exact HI'.
      + split; [reflexivity|]. exists tsfs. apply Inv_eta. exact HI.
      + split; [reflexivity|]. exists tsfs. apply Inv_eta. exact HI.
  Qed.

  (* ----- a whole history ----- *)
  Notation mem_run := (mem_run F fzero fadd fneg flt fle of_Z zlef metas).
  Notation mp_run := (mp_run F fzero fone fadd fneg flt fle feqb of_Z zlef fmt_le metas pid).

  Definition op_ok (o : F * mcall F) : Prop := tpos (fst o) /\ no_removal (snd o).

  Theorem run_sim ops : forall s p tsfs, Inv s p tsfs -> Forall op_ok ops ->
    exists tsfs', Inv (mem_run s ops) (mp_run p ops) tsfs'.
  Proof.
    induction ops as [|[now o] ops IH]; intros s p tsfs HI Hok; [exists tsfs; exact HI|].
    inversion Hok as [|? ? [Hpos Hnr] Hok']; subst. cbn [fst snd] in Hpos, Hnr.
    destruct (step_sim s p tsfs now o HI Hpos Hnr) as [_ [tsfs1 HI1]].
    unfold Equiv.mem_run, Equiv.mp_run. cbn [fold_left fst snd]. apply (IH _ _ tsfs1 HI1 Hok').
  Qed.

  (* outcome by outcome: the two back-ends accept and reject the same calls with the same exception *)
  Theorem run_outcomes ops : forall s p tsfs, Inv s p tsfs -> Forall op_ok ops ->
    forall pre now o post, ops = pre ++ (now, o) :: post ->
      snd (mp_step (mp_run p pre) now o) = snd (mem_step (mem_run s pre) o).
  Proof.
    intros s p tsfs HI Hok pre now o post ->. apply Forall_app in Hok as [Hpre Hrest].
    inversion Hrest as [|? ? [Hpos Hnr] _]; subst. cbn [fst snd] in Hpos, Hnr.
    destruct (run_sim pre s p tsfs HI Hpre) as [tsfs1 HI1].
    exact (proj1 (step_sim _ _ tsfs1 now o HI1 Hpos Hnr)).
  Qed.

  (* ----- the metrics as constructed ----- *)
  Definition fresh_fam (fam : mfamily F (child F)) : Prop :=
    f_children fam = [] /\ f_solo fam = init_child fzero (f_kind fam) (f_bounds fam).

  Notation mp_init_fs := (mp_init_fs F fzero fmt_le pid).

  Lemma kids_fresh fam : fresh_fam fam ->
    kids fam = if is_nil (f_labelnames fam) then [([], init_child fzero (f_kind fam) (f_bounds fam))] else [].
  Proof. intros [Hc Hs]. unfold EquivProofs.kids. rewrite Hc, Hs. reflexivity. Qed.

  Lemma init_fs_ok : forall (todo : list (mfamily F (child F))) (mtodo : list fmeta) (d : fs),
    length todo = length mtodo ->
    NoDup (map (fun fam : mfamily F (child F) => f_name fam) todo) ->
    (forall fam, In fam todo -> keys_wf fam /\ supported (f_kind fam) = true /\ fresh_fam fam) ->
    (forall fam, In fam todo -> forall fn, view (f_name fam) (fs_content d fn) = []) ->
    let d' := mp_init_fs (map shape_of todo) mtodo d in
    (forall i fam me, nth_error todo i = Some fam -> nth_error mtodo i = Some me -> forall fn,
        view (f_name fam) (fs_content d' fn)
        = if fneq fn (fam_file fam me pid) then enc_kids fam me (fun _ => fzero) (kids fam) else [])
    /\ (forall n, ~ In n (map (fun fam : mfamily F (child F) => f_name fam) todo) -> forall fn,
          view n (fs_content d' fn) = view n (fs_content d fn))
    /\ (NoDup (map fst d) -> NoDup (map fst d')).
  Proof.
    induction todo as [|fam todo IH]; intros [|me mtodo] d Hlen Hnd Hwf Hempty; try discriminate.
    - cbn. split; [intros [|i]; discriminate|split; auto].
    - cbn [map Equiv.mp_init_fs]. cbn [map] in Hnd. inversion Hnd as [|? ? Hn Hnd']; subst.
      destruct (Hwf fam (or_introl eq_refl)) as (Hkw & Hsup & Hfr).
      change (f_labelnames (shape_of fam)) with (f_labelnames fam).
      change (Equiv.fam_file F (shape_of fam) me pid) with (fam_file fam me pid).
      change (Equiv.cell_keys F fmt_le (shape_of fam) me []) with (cell_keys fam me []).
      set (d1 := if is_nil (f_labelnames fam) then mp_create d (fam_file fam me pid) (cell_keys fam me []) else d).
      assert (Hupd : fs_upd d d1 (f_name fam) (fam_file fam me pid) (enc_kids fam me (fun _ => fzero) (kids fam))).
      { rewrite (kids_fresh fam Hfr). subst d1. destruct (is_nil (f_labelnames fam)) eqn:En.
        - pose proof (create_upd F fzero (f_name fam) (fam_file fam me pid) (cell_keys fam me []) d
                        (fun k0 H => cell_keys_metric F fmt_le fam me [] k0 H)) as Hu.
          rewrite (Hempty fam (or_introl eq_refl)) in Hu.
          rewrite (init_keys_absent F fzero) in Hu; [|apply (cell_keys_nodup F fzero fadd fmt_le); [exact Hkw|]|intros ? ? []].
          2:{ destruct (f_labelnames fam); [reflexivity|discriminate]. }
          cbn [app] in Hu. rewrite <- (enc_init_child F fzero fone fadd fmt_le fam me [] Hsup) in Hu.
          unfold EquivProofs.enc_kids. cbn [flat_map fst snd]. rewrite app_nil_r. exact Hu.
        - replace (enc_kids fam me (fun _ => fzero) []) with (view (f_name fam) (fs_content d (fam_file fam me pid)))
            by (rewrite (Hempty fam (or_introl eq_refl)); reflexivity).
          apply fs_upd_refl. }
      specialize (IH mtodo d1 ltac:(cbn in Hlen; lia) Hnd').
      destruct IH as (IH1 & IH2 & IH3).
      { intros; apply Hwf; right; assumption. }
      { intros fam' Hin fn. destruct Hupd as (_ & Hfr2 & _). rewrite Hfr2; [apply Hempty; right; exact Hin|].
        left. intro E. apply Hn. rewrite <- E. apply (in_map (fun fam : mfamily F (child F) => f_name fam)). exact Hin. }
      split; [|split].
      + intros [|i] fam' me' Hf Hm fn; cbn [nth_error] in Hf, Hm.
        * inversion Hf; inversion Hm; subst fam' me'. rewrite (IH2 (f_name fam) Hn).
          destruct (fneq fn (fam_file fam me pid)) eqn:E.
          -- apply fneq_eq in E; subst fn. destruct Hupd as (H1 & _). exact H1.
          -- destruct Hupd as (_ & H2 & _). rewrite H2; [apply Hempty; left; reflexivity|].
             right. intro E2; subst fn. rewrite (kq_refl fneq fneq_eq) in E. discriminate.
        * apply IH1 with (i := i); assumption.
      + intros n Hnin fn. rewrite IH2 by (intro Hin; apply Hnin; right; exact Hin).
        destruct Hupd as (_ & H2 & _). apply H2. left. intro E. apply Hnin. left. symmetry. exact E.
      + intro Hd. apply IH3. destruct Hupd as (_ & _ & H3). apply H3. exact Hd.
  Qed.

  Theorem init_sim (fams : mregistry F) : length metas = length fams ->
    NoDup (map (fun fam : mfamily F (child F) => f_name fam) fams) ->
    (forall fam, In fam fams -> keys_wf fam /\ supported (f_kind fam) = true /\ fresh_fam fam) ->
    (forall f fam me, nth_error fams f = Some fam -> nth_error metas f = Some me -> f_kind fam = KGauge ->
       ~ In Multiproc.S_pid (f_labelnames fam) /\ In (fm_mode me) GAUGE_MODES) ->
    Inv (mem_init F fams) (mp_init F fzero fmt_le metas pid fams) (fun _ _ => fzero).
  Proof.
    intros Hlen Hnd Hwf Hg. unfold Inv, Equiv.mem_init, Equiv.mp_init. cbn [m_reg m_log p_shape p_fs].
    destruct (init_fs_ok fams metas [] (eq_sym Hlen) Hnd Hwf (fun _ _ _ => eq_refl)) as (H1 & H2 & H3).
    split; [reflexivity|split; [exact Hlen|split; [exact Hnd|split; [apply H3; constructor|split]]]].
    2:{ intros n fn Hn. rewrite (H2 n Hn fn). reflexivity. }
    intros f fam me Hf Hm. destruct (Hwf fam (nth_error_In _ _ Hf)) as (Hkw & Hsup & Hfr).
    constructor; try assumption.
    - rewrite (kids_fresh fam Hfr). destruct (is_nil (f_labelnames fam)); repeat constructor. cbn. tauto.
    - rewrite (kids_fresh fam Hfr). destruct (is_nil (f_labelnames fam)) eqn:En; repeat constructor; cbn [fst snd].
      + destruct (f_labelnames fam); [reflexivity|discriminate].
      + apply init_child_ok. exact Hsup.
    - intros fn. apply (H1 f fam me Hf Hm).
    - intros lv H. discriminate.
    - intros _ _ lv _. reflexivity.
    - apply (Hg f fam me Hf Hm).
  Qed.
End Sim.

(* ================= file names: values.py writes them, multiprocess.py parses them ================= *)
Lemma split_on_last c : forall a cur, ~ In c a -> Multiproc.split_on c cur a = [rev cur ++ a].
Proof.
  induction a as [|x a IH]; intros cur H; cbn [Multiproc.split_on]; [rewrite app_nil_r; reflexivity|].
  destruct (N.eqb x c) eqn:E; [apply N.eqb_eq in E; subst; exfalso; apply H; left; reflexivity|].
  rewrite IH by (intro; apply H; right; assumption). cbn [rev]. rewrite <- app_assoc. reflexivity.
Qed.
Lemma split_on_part c : forall a cur rest, ~ In c a ->
  Multiproc.split_on c cur (a ++ c :: rest) = (rev cur ++ a) :: Multiproc.split_on c [] rest.
Proof.
  induction a as [|x a IH]; intros cur rest H; cbn [Multiproc.split_on app].
  - rewrite N.eqb_refl, app_nil_r. reflexivity.
  - destruct (N.eqb x c) eqn:E; [apply N.eqb_eq in E; subst; exfalso; apply H; left; reflexivity|].
    rewrite IH by (intro; apply H; right; assumption). cbn [rev]. rewrite <- app_assoc. reflexivity.
Qed.

Definition nous (s : str) : bool := negb (mem_char Multiproc.US s).
Lemma nous_ok s : nous s = true -> ~ In Multiproc.US s.
Proof.
  unfold nous. induction s as [|x s IH]; cbn [mem_char In]; [tauto|].
  destruct (N.eqb Multiproc.US x) eqn:E; cbn [orb negb]; [discriminate|]. intros H [H1|H1]; [|exact (IH H H1)].
  subst. rewrite N.eqb_refl in E. discriminate.
Qed.

Lemma drop_last3_db pid : Multiproc.drop_last3 (pid ++ Multiproc.S_db) = pid.
Proof.
  unfold Multiproc.drop_last3. rewrite app_length. cbn [Multiproc.S_db Datatypes.length].
  replace (Datatypes.length pid + 3 - 3)%nat with (Datatypes.length pid + 0)%nat by lia.
  rewrite firstn_app_2. cbn [firstn]. apply app_nil_r.
Qed.

Lemma parse_file_name k mode pid : supported k = true -> (k = KGauge -> In mode GAUGE_MODES) ->
  ~ In Multiproc.US pid ->
  Multiproc.parse_fname (fname_str (fname_of k mode pid))
  = match k with KGauge => (Multiproc.S_gauge, mode, pid) | _ => (typ_of k, [], []) end.
Proof.
  intros Hs Hm Hp.
  assert (Hpd : ~ In Multiproc.US (pid ++ Multiproc.S_db)).
  { intro H. apply in_app_or in H as [H|H]; [contradiction|]. revert H. apply nous_ok. reflexivity. }
  destruct k; try discriminate; unfold fname_of, fname_str, prefix_str, Values.prefix_of, Multiproc.parse_fname;
    cbn [Values.p_typ Values.p_mode typ_of fst snd].
  - do 3 (change (str_eqb T_counter Multiproc.S_gauge) with false; cbv iota; cbn [fst snd]).
    change (T_counter ++ Multiproc.US :: pid ++ Multiproc.S_db) with (T_counter ++ Multiproc.US :: (pid ++ Multiproc.S_db)).
    rewrite split_on_part by (apply nous_ok; reflexivity). rewrite split_on_last by exact Hpd. cbn [rev app nth].
    reflexivity.
  - do 3 (change (str_eqb Multiproc.S_gauge Multiproc.S_gauge) with true; cbv iota; cbn [fst snd]).
    assert (Hmode : ~ In Multiproc.US mode).
    { specialize (Hm eq_refl). cbn [GAUGE_MODES In] in Hm.
      repeat (destruct Hm as [<-|Hm]; [apply nous_ok; reflexivity|]). contradiction. }
    rewrite <- app_assoc, <- app_comm_cons.
    rewrite split_on_part by (apply nous_ok; reflexivity). rewrite split_on_part by exact Hmode.
    rewrite split_on_last by exact Hpd. cbn [rev app nth]. rewrite str_eqb_refl, drop_last3_db. reflexivity.
  - do 3 (change (str_eqb T_summary Multiproc.S_gauge) with false; cbv iota; cbn [fst snd]).
    change (T_summary ++ Multiproc.US :: pid ++ Multiproc.S_db) with (T_summary ++ Multiproc.US :: (pid ++ Multiproc.S_db)).
    rewrite split_on_part by (apply nous_ok; reflexivity). rewrite split_on_last by exact Hpd. cbn [rev app nth].
    reflexivity.
  - do 3 (change (str_eqb Multiproc.S_histogram Multiproc.S_gauge) with false; cbv iota; cbn [fst snd]).
    change (Multiproc.S_histogram ++ Multiproc.US :: pid ++ Multiproc.S_db)
      with (Multiproc.S_histogram ++ Multiproc.US :: (pid ++ Multiproc.S_db)).
    rewrite split_on_part by (apply nous_ok; reflexivity). rewrite split_on_last by exact Hpd. cbn [rev app nth].
    reflexivity.
Qed.

(* ================= sim: equal as multisets of series ================= *)
Section SimFacts.
  Variable F : Type.
  Variable feqb : F -> F -> bool.
  Notation sim := (sim F feqb).
  Notation same_sample := (same_sample F feqb).

  Lemma sim_nil : sim [] [].
  Proof. exists []. split; constructor. Qed.

  Lemma sim_app A1 B1 A2 B2 : sim A1 B1 -> sim A2 B2 -> sim (A1 ++ A2) (B1 ++ B2).
  Proof.
    intros [A1' [P1 F1]] [A2' [P2 F2]]. exists (A1' ++ A2'). split; [apply Permutation_app; assumption|apply Forall2_app; assumption].
  Qed.

  Lemma sim_forall2 A B : Forall2 same_sample A B -> sim A B.
  Proof. intro H. exists A. split; [reflexivity|exact H]. Qed.

  Lemma sim_perm_l A A' B : Permutation A A' -> sim A' B -> sim A B.
  Proof. intros P [A2 [P2 F2]]. exists A2. split; [etransitivity; eassumption|exact F2]. Qed.

  Lemma Forall2_perm_r {X Y} (R : X -> Y -> Prop) A B B' : Forall2 R A B -> Permutation B B' ->
    exists A', Permutation A A' /\ Forall2 R A' B'.
  Proof.
    intros HF HP. revert A HF. induction HP as [|y B B' HP IH|y z B|B1 B2 B3 HP1 IH1 HP2 IH2]; intros A HF.
    - inversion HF; subst. exists []. split; constructor.
    - inversion HF as [|x ? A0 ? Hxy HF0]; subst. destruct (IH A0 HF0) as [A' [P' F']].
      exists (x :: A'). split; [constructor; exact P'|constructor; assumption].
    - inversion HF as [|x1 ? A1 ? H1 HF1]; subst. inversion HF1 as [|x2 ? A2 ? H2 HF2]; subst.
      exists (x2 :: x1 :: A2). split; [apply perm_swap|repeat constructor; assumption].
    - destruct (IH1 A HF) as [A1 [P1 F1]]. destruct (IH2 A1 F1) as [A2 [P2 F2]].
      exists A2. split; [etransitivity; eassumption|exact F2].
  Qed.

  Lemma sim_perm_r A B B' : Permutation B B' -> sim A B -> sim A B'.
  Proof.
    intros P [A1 [P1 F1]]. destruct (Forall2_perm_r _ A1 B B' F1 P) as [A2 [P2 F2]].
    exists A2. split; [etransitivity; eassumption|exact F2].
  Qed.

  Lemma sim_flat_map {X} (f g : X -> list (Multiproc.skey * F)) l :
    (forall x, In x l -> sim (f x) (g x)) -> sim (flat_map f l) (flat_map g l).
  Proof.
    induction l as [|x l IH]; intro H; cbn [flat_map]; [apply sim_nil|].
    apply sim_app; [apply H; left; reflexivity|apply IH; intros; apply H; right; assumption].
  Qed.
End SimFacts.

Lemma filter_flat_map {A B} (p : B -> bool) (g : A -> list B) l :
  filter p (flat_map g l) = flat_map (fun x => filter p (g x)) l.
Proof. induction l as [|x l IH]; cbn [flat_map filter]; [reflexivity|]. rewrite filter_app, IH. reflexivity. Qed.

Lemma filter_map_comm {A B} (p : B -> bool) (g : A -> B) l : filter p (map g l) = map g (filter (fun x => p (g x)) l).
Proof. induction l as [|x l IH]; cbn [map filter]; [reflexivity|]. destruct (p (g x)); cbn [map]; rewrite IH; reflexivity. Qed.

Lemma map_flat_map {A B C} (h : B -> C) (g : A -> list B) l : map h (flat_map g l) = flat_map (fun x => map h (g x)) l.
Proof. induction l as [|x l IH]; cbn [flat_map map]; [reflexivity|]. rewrite map_app, IH. reflexivity. Qed.

(* ================= what the collector reads for one family ================= *)
Section Entries.
  Variable F : Type.
  Variable fzero : F.
  Notation fs := (Values.fs F).
  Notation content := (Values.content F).
  Notation fneq := Values.fname_eqb.
  Let fneq_eq := ValuesProofs.fname_eqb_eq.
  Notation file_of := (fun fc : Values.fname * content => Multiproc.file_of_named F (fname_str (fst fc), snd fc)).

  Lemma entries_of_cons n (fc : Values.fname * content) l :
    MultiprocSpec.entries_of F n (map (Multiproc.file_of_named F) (map (fun fc => (fname_str (fst fc), snd fc)) (fc :: l)))
    = map (pair (file_of fc)) (view n (snd fc))
      ++ MultiprocSpec.entries_of F n (map (Multiproc.file_of_named F) (map (fun fc => (fname_str (fst fc), snd fc)) l)).
  Proof.
    unfold MultiprocSpec.entries_of, MultiprocSpec.stream. cbn [map flat_map]. rewrite filter_app. f_equal.
    rewrite filter_map_comm. cbn [snd fst]. unfold view.
    assert (E : Multiproc.f_entries F (Multiproc.file_of_named F (fname_str (fst fc), snd fc)) = snd fc).
    { unfold Multiproc.file_of_named. cbn [fst snd]. destruct (Multiproc.parse_fname (fname_str (fst fc))) as [[t md] p]. reflexivity. }
    rewrite E. reflexivity.
  Qed.

  Lemma entries_of_list n fn0 (L : content) (l : list (Values.fname * content)) : NoDup (map fst l) ->
    (forall fn c, In (fn, c) l -> view n c = if fneq fn fn0 then L else []) ->
    MultiprocSpec.entries_of F n (map (Multiproc.file_of_named F) (map (fun fc => (fname_str (fst fc), snd fc)) l))
    = match d_find fneq l fn0 with Some c => map (pair (file_of (fn0, c))) L | None => [] end.
  Proof.
    induction l as [|[fn c] l IH]; intros Hnd Hv; [reflexivity|].
    rewrite entries_of_cons. cbn [fst snd d_find]. cbn [map fst] in Hnd. inversion Hnd as [|? ? Hn Hnd']; subst.
    rewrite (Hv fn c (or_introl eq_refl)).
    rewrite IH; [|exact Hnd'|intros; apply Hv; right; assumption].
    destruct (fneq fn0 fn) eqn:E.
    - apply fneq_eq in E; subst fn0. rewrite (kq_refl fneq fneq_eq).
      rewrite (df_notin fneq fneq_eq l fn Hn). apply app_nil_r.
    - rewrite (kq_neq fneq fneq_eq); [reflexivity|]. intro E2; subst. rewrite (kq_refl fneq fneq_eq) in E. discriminate.
  Qed.

  Lemma content_of_in (d : fs) fn c : NoDup (map fst d) -> In (fn, c) d -> Values.fs_content F d fn = c.
  Proof. intros Hnd Hin. unfold Values.fs_content. rewrite (In_d_find_nodup fneq fneq_eq d fn c Hnd Hin). reflexivity. Qed.

  (* the entries the collector groups under family name n: those of the family's own file, in file order *)
  Lemma entries_of_views (d : fs) n fn0 (L : content) : NoDup (map fst d) ->
    (forall fn, view n (Values.fs_content F d fn) = if fneq fn fn0 then L else []) ->
    MultiprocSpec.entries_of F n (map (Multiproc.file_of_named F) (named_files F d))
    = map (pair (file_of (fn0, Values.fs_content F d fn0))) L.
  Proof.
    intros Hnd Hv. unfold named_files. rewrite (entries_of_list n fn0 L d Hnd).
    - unfold Values.fs_content. destruct (d_find fneq d fn0) eqn:E; [reflexivity|].
      specialize (Hv fn0). unfold Values.fs_content in Hv. rewrite E, (kq_refl fneq fneq_eq) in Hv.
      cbn in Hv. rewrite <- Hv. reflexivity.
    - intros fn c Hin. rewrite <- (content_of_in d fn c Hnd Hin). apply Hv.
  Qed.
End Entries.

(* ================= the collector's merge of one family's entries, explicitly ================= *)
Section Collect.
  Variable F : Type.
  Variables fzero fone finf : F.
  Variable fadd : F -> F -> F.
  Variables flt fle feqb : F -> F -> bool.
  Variable parse_le : str -> F.
  Variable fmt_le : F -> str.
  Variable pid : str.

  Notation mkey := Multiproc.key.
  Notation skey := Multiproc.skey.
  Notation sample := (Multiproc.sample F).
  Notation content := (Values.content F).
  Notation fs := (Values.fs F).
  Let skeq_eq := MultiprocProofs.skey_eqb_eq.
  Let fneq_eq := ValuesProofs.fname_eqb_eq.
  Notation fcount := (fcount F fzero fone fadd).
  Notation cell_keys := (cell_keys F fmt_le).
  Notation keys_wf := (keys_wf F fmt_le).
  Notation enc_kids := (enc_kids F fzero fone fadd fmt_le).
  Notation enc_child := (enc_child F fzero fone fadd fmt_le).
  Notation kids := (kids F).
  Notation kid_ok := (kid_ok F).
  Notation fam_file := (fam_file F).
  Notation merge := (Multiproc.merge F fzero fadd flt feqb parse_le fmt_le).
  Notation accumulate := (Multiproc.accumulate F fzero fadd flt feqb parse_le fmt_le).
  Notation collect_mp := (collect_mp F fzero fadd flt feqb parse_le fmt_le).
  Notation mp_family := (mp_family F).
  Notation norm_mem := (norm_mem F fzero fone fadd fle fmt_le).
  Notation norm_mp := (norm_mp F).
  Notation mem_ns := (mem_ns F fzero fone fadd fmt_le).
  Notation sim := (sim F feqb).
  Notation same_sample := (same_sample F feqb).
  Notation feq := (feq F feqb).
  Notation S_pid := Multiproc.S_pid.
  Notation S_le := Multiproc.S_le.

  Hypothesis FL1 : forall v, feq v (fadd fzero v).

  (* ----- which family the collector reports under a name ----- *)
  Lemma merge_names (files : list (Multiproc.file F)) :
    map (fam_name F) (merge files) = map fst (Multiproc.read_metrics F fzero files).
  Proof.
    unfold Multiproc.merge. rewrite map_map. apply map_ext_in. intros [n m] Hin. unfold fam_name. cbn [fst snd].
    apply (MultiprocProofs.read_metrics_In F fzero) in Hin. unfold MultiprocProofs.metric_of in Hin.
    destruct (MultiprocSpec.entries_of F n files) as [|[f0 [k0 x0]] r] eqn:E; [discriminate|].
    inversion Hin; subst m. cbn [Multiproc.m_name]. eapply MultiprocProofs.entries_of_metric. exact E.
  Qed.

  Lemma mp_family_eq (files : list (Multiproc.file F)) n :
    mp_family n (merge files)
    = match MultiprocProofs.metric_of F fzero (MultiprocSpec.entries_of F n files) with
      | Some m => accumulate m
      | None => []
      end.
  Proof.
    unfold Equiv.mp_family.
    destruct (MultiprocProofs.metric_of F fzero (MultiprocSpec.entries_of F n files)) as [m|] eqn:Em.
    - unfold MultiprocProofs.metric_of in Em.
      destruct (MultiprocSpec.entries_of F n files) as [|[f0 [k0 x0]] r] eqn:E; [discriminate|].
      pose proof (MultiprocProofs.entries_of_metric F n files f0 k0 x0 r E) as Hn.
      assert (Em' : MultiprocProofs.metric_of F fzero (MultiprocSpec.entries_of F n files) = Some m) by (rewrite E; exact Em).
      assert (Hmn : Multiproc.m_name F m = n /\ Multiproc.m_help F m = Multiproc.k_help k0 /\ Multiproc.m_typ F m = Multiproc.f_typ F f0).
      { inversion Em. cbn. auto. }
      destruct Hmn as (Hm1 & Hm2 & Hm3).
      assert (Hin : In (n, Multiproc.k_help k0, Multiproc.f_typ F f0, accumulate m) (merge files)).
      { apply (MultiprocProofs.merge_In F fzero fadd flt feqb parse_le fmt_le). exists m. split; [exact Em'|].
        rewrite Hm1, Hm2, Hm3. reflexivity. }
      assert (Hnd : NoDup (map (fam_name F) (merge files))) by (rewrite merge_names; apply MultiprocProofs.read_metrics_NoDup).
      rewrite (find_unique (fun fm => str_eqb n (fam_name F fm)) (fam_name F) (merge files)
                 (n, Multiproc.k_help k0, Multiproc.f_typ F f0, accumulate m) n (fun y => eq_refl) Hnd Hin eq_refl).
      reflexivity.
    - rewrite find_none_all; [reflexivity|]. intros [[[n' h] t] ss] Hin. unfold fam_name. cbn [fst].
      destruct (str_eqb n n') eqn:E; [|reflexivity]. apply str_eqb_eq in E; subst n'.
      apply (MultiprocProofs.merge_In F fzero fadd flt feqb parse_le fmt_le) in Hin as [m [Hm _]]. congruence.
  Qed.

  (* ----- the keys of a family's entries, as series keys ----- *)
  Lemma cell_keys_help {C} (fam : mfamily F C) me lv k : In k (cell_keys fam me lv) -> Multiproc.k_help k = fm_help me.
  Proof.
    unfold Equiv.cell_keys. destruct (f_kind fam); cbn [In map]; intro H; try contradiction.
    - destruct H as [<-|[]]; reflexivity.
    - destruct H as [<-|[]]; reflexivity.
    - destruct H as [<-|[<-|[]]]; reflexivity.
    - destruct H as [<-|H]; [reflexivity|]. apply in_map_iff in H as [b [<- _]]. reflexivity.
  Qed.

  Lemma enc_kids_meta {C} (fam : mfamily F C) me tsf l e : Forall (kid_ok fam) l -> In e (enc_kids fam me tsf l) ->
    Multiproc.k_metric (fst e) = f_name fam /\ Multiproc.k_help (fst e) = fm_help me.
  Proof.
    intros Hok Hin. assert (Hk : In (fst e) (map fst (enc_kids fam me tsf l))) by (apply in_map; exact Hin).
    rewrite (enc_kids_keys F fzero fone fadd fmt_le) in Hk by exact Hok. apply in_flat_map in Hk as [kc [_ Hk]].
    split; [eapply cell_keys_metric; exact Hk|eapply cell_keys_help; exact Hk].
  Qed.

  Definition sk (e : mkey * (F * F)) : skey := (Multiproc.k_name (fst e), Multiproc.k_labels (fst e)).

  Lemma sk_nodup (L : content) n h : (forall e, In e L -> Multiproc.k_metric (fst e) = n /\ Multiproc.k_help (fst e) = h) ->
    NoDup (map fst L) -> NoDup (map sk L).
  Proof.
    intros Hm Hnd. replace (map sk L) with (map (fun k : mkey => (Multiproc.k_name k, Multiproc.k_labels k)) (map fst L))
      by (rewrite map_map; reflexivity).
    apply NoDup_map_inj_in; [|exact Hnd]. intros k1 k2 H1 H2 E.
    apply in_map_iff in H1 as [e1 [<- H1]]. apply in_map_iff in H2 as [e2 [<- H2]].
    destruct (Hm e1 H1) as [M1 P1]. destruct (Hm e2 H2) as [M2 P2].
    destruct (fst e1) as [m1 n1 l1 h1], (fst e2) as [m2 n2 l2 h2]. cbn in *. inversion E. congruence.
  Qed.

  (* ----- norm_mem, child by child ----- *)
  Lemma norm_mem_kids me log f (fam : mfamily F (child F)) :
    norm_mem me log f fam
    = flat_map (fun kc => if keep_child me log f (f_kind fam) (fst kc)
                          then map mem_ns (child_samples fzero fone fle (f_name fam) (f_bounds fam) (f_states fam)
                                             (combine (f_labelnames fam) (fst kc)) (snd kc))
                          else []) (kids fam).
  Proof.
    unfold Equiv.norm_mem, EquivProofs.kids. destruct (is_nil (f_labelnames fam)) eqn:E; [|reflexivity].
    cbn [flat_map fst snd]. rewrite app_nil_r. destruct (f_labelnames fam); [reflexivity|discriminate].
  Qed.

  Lemma lab_perm names lv : Permutation (combine names lv) (lab names lv).
  Proof. apply GatewayProofs.sort_items_perm. Qed.

  (* ----- counters and summaries: every entry is reported under its own key with 0.0 + value ----- *)
  Definition plain_out (L : content) : assoc skey F := map (fun e => (sk e, fadd fzero (fst (snd e)))) L.

  Lemma acc_plain_explicit (ss : list sample) : NoDup (map (Multiproc.full_key F) ss) ->
    Multiproc.acc_plain F fzero fadd ss
    = map (fun s => (Multiproc.full_key F s, fadd fzero (Multiproc.s_value F s))) ss.
  Proof.
    intro Hnd. unfold Multiproc.acc_plain.
    rewrite (dfold_fresh Multiproc.skey_eqb skeq_eq); [|rewrite map_map; exact Hnd|intros ? ? []].
    cbn [app]. rewrite map_map. reflexivity.
  Qed.

  (* ----- the samples _read_metrics makes of a family's entries ----- *)
  Definition FILE (T M P : str) (c : content) : Multiproc.file F := Multiproc.mkFile F T M P c.

  Lemma samples_plain T M P c (L : content) : str_eqb T Multiproc.S_gauge = false ->
    map (MultiprocSpec.sample_of F fzero) (map (pair (FILE T M P c)) L)
    = map (fun e => Multiproc.mkSample F (Multiproc.k_name (fst e)) (Multiproc.k_labels (fst e)) (fst (snd e)) fzero) L.
  Proof.
    intro HT. rewrite map_map. apply map_ext. intros [k [v ts]]. unfold MultiprocSpec.sample_of, MultiprocSpec.is_gauge_file, FILE.
    cbn [Multiproc.f_typ fst snd]. rewrite HT. reflexivity.
  Qed.

  Lemma samples_gauge M P c (L : content) :
    map (MultiprocSpec.sample_of F fzero) (map (pair (FILE Multiproc.S_gauge M P c)) L)
    = map (fun e => Multiproc.mkSample F (Multiproc.k_name (fst e)) (Multiproc.k_labels (fst e) ++ [(S_pid, P)])
                      (fst (snd e)) (snd (snd e))) L.
  Proof.
    rewrite map_map. apply map_ext. intros [k [v ts]]. unfold MultiprocSpec.sample_of, MultiprocSpec.is_gauge_file, FILE.
    cbn [Multiproc.f_typ Multiproc.f_pid fst snd]. rewrite str_eqb_refl. reflexivity.
  Qed.

  Lemma mode_after_same M (es : list (MultiprocSpec.fentry F)) T P c : es <> [] ->
    Forall (fun fe => fst fe = FILE T M P c) es ->
    MultiprocSpec.mode_after F [] es = if str_eqb T Multiproc.S_gauge then M else [].
  Proof.
    intros Hne Hall. unfold MultiprocSpec.mode_after.
    assert (G : forall m0, fold_left (fun md (fe : MultiprocSpec.fentry F) =>
                  if MultiprocSpec.is_gauge_file F (fst fe) then Multiproc.f_mode F (fst fe) else md) es m0
                = if str_eqb T Multiproc.S_gauge then (match es with [] => m0 | _ => M end) else m0).
    { clear Hne. induction Hall as [|fe es Hfe _ IH]; intro m0; cbn [fold_left]; [destruct (str_eqb T Multiproc.S_gauge); reflexivity|].
      rewrite IH, Hfe. unfold MultiprocSpec.is_gauge_file, FILE. cbn [Multiproc.f_typ Multiproc.f_mode].
      destruct (str_eqb T Multiproc.S_gauge); [destruct es; reflexivity|reflexivity]. }
    rewrite G. destruct es; [contradiction|reflexivity].
  Qed.

  (* ----- counters and summaries ----- *)
  Lemma plain_family T M P c (L : content) n h :
    str_eqb T Multiproc.S_gauge = false -> str_eqb T Multiproc.S_histogram = false ->
    (forall e, In e L -> Multiproc.k_metric (fst e) = n /\ Multiproc.k_help (fst e) = h) -> NoDup (map fst L) ->
    match MultiprocProofs.metric_of F fzero (map (pair (FILE T M P c)) L) with
    | Some m => accumulate m
    | None => []
    end = plain_out L.
  Proof.
    intros HG HH Hm Hnd. destruct L as [|[k0 x0] L]; [reflexivity|].
    cbn [map MultiprocProofs.metric_of]. unfold Multiproc.accumulate. cbn [Multiproc.m_typ Multiproc.f_typ FILE].
    unfold FILE at 1 2. cbn [Multiproc.f_typ]. rewrite HG, HH. cbn [Multiproc.m_samples].
    change ((MultiprocSpec.sample_of F fzero (FILE T M P c, (k0, x0))) :: map (MultiprocSpec.sample_of F fzero) (map (pair (FILE T M P c)) L))
      with (map (MultiprocSpec.sample_of F fzero) (map (pair (FILE T M P c)) ((k0, x0) :: L))).
    rewrite (samples_plain T M P c _ HG). rewrite acc_plain_explicit.
    - unfold plain_out. rewrite map_map. reflexivity.
    - rewrite map_map. unfold Multiproc.full_key. cbn [Multiproc.s_name Multiproc.s_labels].
      apply (sk_nodup _ n h Hm Hnd).
  Qed.

  (* ----- what the collector reports under the name of a family whose entries are L ----- *)
  Lemma family_reduce (d : fs) (fam : mfamily F (child F)) me (L : content) :
    NoDup (map fst d) -> supported (f_kind fam) = true -> (f_kind fam = KGauge -> In (fm_mode me) GAUGE_MODES) ->
    ~ In Multiproc.US pid ->
    (forall fn, view (f_name fam) (Values.fs_content F d fn) = if Values.fname_eqb fn (fam_file fam me pid) then L else []) ->
    mp_family (f_name fam) (collect_mp d)
    = match MultiprocProofs.metric_of F fzero
              (map (pair (match f_kind fam with
                          | KGauge => FILE Multiproc.S_gauge (fm_mode me) pid (Values.fs_content F d (fam_file fam me pid))
                          | k => FILE (typ_of k) [] [] (Values.fs_content F d (fam_file fam me pid))
                          end)) L) with
      | Some m => accumulate m
      | None => []
      end.
  Proof.
    intros Hnd Hs Hm Hp Hv. unfold Equiv.collect_mp, Multiproc.merge_named.
    rewrite mp_family_eq. rewrite (entries_of_views F d (f_name fam) (fam_file fam me pid) L Hnd Hv).
    unfold Multiproc.file_of_named. cbn [fst snd]. unfold Equiv.fam_file.
    rewrite (parse_file_name (f_kind fam) (fm_mode me) pid Hs Hm Hp).
    destruct (f_kind fam); try discriminate; reflexivity.
  Qed.

  (* ----- C12 for counters and summaries ----- *)
  Lemma plain_kid_sim (fam : mfamily F (child F)) me log f tsf kc :
    (f_kind fam = KCounter \/ f_kind fam = KSummary) -> kid_ok fam kc ->
    sim (if keep_child me log f (f_kind fam) (fst kc)
         then map mem_ns (child_samples fzero fone fle (f_name fam) (f_bounds fam) (f_states fam)
                            (combine (f_labelnames fam) (fst kc)) (snd kc))
         else [])
        (plain_out (enc_child fam me (fst kc) (snd kc) (tsf (fst kc)))).
  Proof.
    intros Hk [Hl Hc]. destruct kc as [lv c]. cbn [fst snd] in *. unfold EquivProofs.child_ok in Hc.
    assert (HS : forall a b, fst (fst a) = fst (fst b) -> Permutation (snd (fst a)) (snd (fst b)) -> feq (snd a) (snd b) ->
                 same_sample a b) by (intros; repeat split; assumption).
    destruct Hk as [Hk|Hk]; rewrite Hk in *; cbn [keep_child];
      destruct c as [[v|z]|v|n s|s cs|kv|i]; try contradiction; cbn [child_samples map enc_child plain_out cell_val fst snd];
      apply sim_forall2.
    - constructor; [|constructor]. apply HS; cbn [fst snd Equiv.mem_ns ms_name ms_labels ms_le ms_val sval_F sk Multiproc.k_name Multiproc.k_labels Equiv.k_total Equiv.ckey];
        [reflexivity|rewrite app_nil_r; apply lab_perm|apply FL1].
    - constructor; [|constructor; [|constructor]]; apply HS;
        cbn [fst snd Equiv.mem_ns ms_name ms_labels ms_le ms_val sval_F sk Multiproc.k_name Multiproc.k_labels Equiv.k_count Equiv.k_sum Equiv.ckey];
        try reflexivity; try (rewrite app_nil_r; apply lab_perm); rewrite ?N2Z.id; apply FL1.
  Qed.

  Theorem plain_family_sim (d : fs) log f (fam : mfamily F (child F)) me tsf :
    (f_kind fam = KCounter \/ f_kind fam = KSummary) -> ~ In Multiproc.US pid -> NoDup (map fst d) ->
    fam_inv F fzero fone fadd flt fmt_le pid d log f fam me tsf ->
    sim (norm_mem me log f fam) (norm_mp (f_kind fam) me (mp_family (f_name fam) (collect_mp d))).
  Proof.
    intros Hk Hp Hnd [Hwf Hsup Hkn Hok Hview Hlog Hts Hgauge].
    rewrite (family_reduce d fam me (enc_kids fam me tsf (kids fam)) Hnd Hsup ltac:(destruct Hk; congruence) Hp Hview).
    assert (HT : str_eqb (typ_of (f_kind fam)) Multiproc.S_gauge = false /\ str_eqb (typ_of (f_kind fam)) Multiproc.S_histogram = false).
    { destruct Hk as [-> | ->]; split; reflexivity. }
    destruct HT as [HG HH].
    assert (HX : match f_kind fam with
                 | KGauge => FILE Multiproc.S_gauge (fm_mode me) pid (Values.fs_content F d (fam_file fam me pid))
                 | k => FILE (typ_of k) [] [] (Values.fs_content F d (fam_file fam me pid))
                 end = FILE (typ_of (f_kind fam)) [] [] (Values.fs_content F d (fam_file fam me pid))).
    { destruct Hk as [-> | ->]; reflexivity. }
    rewrite HX. rewrite (plain_family _ _ _ _ _ (f_name fam) (fm_help me) HG HH).
    - assert (Hn : norm_mp (f_kind fam) me (plain_out (enc_kids fam me tsf (kids fam))) = plain_out (enc_kids fam me tsf (kids fam))).
      { destruct Hk as [-> | ->]; reflexivity. }
      rewrite Hn, norm_mem_kids. unfold plain_out, EquivProofs.enc_kids. rewrite map_flat_map.
      apply sim_flat_map. intros kc Hin. rewrite Forall_forall in Hok.
      apply (plain_kid_sim fam me log f tsf kc Hk (Hok kc Hin)).
    - intros e He. apply (enc_kids_meta fam me tsf (kids fam) e Hok He).
    - apply (enc_kids_nodup F fzero fone fadd fmt_le); assumption.
  Qed.

  (* ----- gauges ----- *)
  Hypothesis FLT_zero : flt fzero fzero = false.
  Hypothesis FLT_pos : forall t, flt fzero t = true -> feqb t fzero = false.

  Lemma lab_not_pid names lv : ~ In S_pid names -> forall x, In x (lab names lv) -> Multiproc.not_pid x = true.
  Proof.
    intros Hn x Hx. apply (Permutation_in _ (Permutation_sym (lab_perm names lv))) in Hx.
    destruct x as [xn xv]. apply in_combine_l in Hx. unfold Multiproc.not_pid. cbn [fst].
    destruct (str_eqb xn S_pid) eqn:E; [|reflexivity].
    apply str_eqb_eq in E. rewrite E in Hx. contradiction.
  Qed.

  Lemma filter_pid_lab names lv P : ~ In S_pid names ->
    filter Multiproc.not_pid (lab names lv ++ [(S_pid, P)]) = lab names lv.
  Proof.
    intro Hn. rewrite filter_app. change (filter Multiproc.not_pid [(S_pid, P)]) with (@nil Multiproc.label).
    rewrite app_nil_r. apply filter_all. apply lab_not_pid. exact Hn.
  Qed.

  (* the entries of a gauge family: one per child, key k_gauge *)
  Definition gent (fam : mfamily F (child F)) me (tsf : key -> F) (kc : key * child F) : content :=
    enc_child fam me (fst kc) (snd kc) (tsf (fst kc)).

  Lemma gauge_entries_labels (fam : mfamily F (child F)) me tsf e : f_kind fam = KGauge -> Forall (kid_ok fam) (kids fam) ->
    In e (enc_kids fam me tsf (kids fam)) ->
    exists lv, In lv (map fst (kids fam)) /\ sk e = (f_name fam, lab (f_labelnames fam) lv).
  Proof.
    intros Hk Hok Hin. unfold EquivProofs.enc_kids in Hin. apply in_flat_map in Hin as [[lv c] [Hkc Hin]].
    rewrite Forall_forall in Hok. destruct (Hok _ Hkc) as [_ Hc]. cbn [fst snd] in *. unfold EquivProofs.child_ok in Hc.
    rewrite Hk in Hc. destruct c as [[v|z]|v|n s|s cs|kv|i]; try contradiction. cbn [enc_child In] in Hin.
    destruct Hin as [<-|[]]. exists lv. split; [apply (in_map fst) in Hkc; exact Hkc|reflexivity].
  Qed.

  Definition gsamples P (L : content) : list sample :=
    map (fun e => Multiproc.mkSample F (Multiproc.k_name (fst e)) (Multiproc.k_labels (fst e) ++ [(S_pid, P)])
                    (fst (snd e)) (snd (snd e))) L.

  Lemma without_pid_sk (fam : mfamily F (child F)) me tsf P : f_kind fam = KGauge -> ~ In S_pid (f_labelnames fam) ->
    Forall (kid_ok fam) (kids fam) ->
    forall e, In e (enc_kids fam me tsf (kids fam)) ->
      (Multiproc.k_name (fst e), filter Multiproc.not_pid (Multiproc.k_labels (fst e) ++ [(S_pid, P)])) = sk e.
  Proof.
    intros Hk Hn Hok e He. destruct (gauge_entries_labels fam me tsf e Hk Hok He) as [lv [_ E]].
    unfold sk in *. injection E as E1 E2. f_equal.
    pose proof (filter_pid_lab (f_labelnames fam) lv P Hn) as HF. rewrite <- E2 in HF. exact HF.
  Qed.

  Lemma map_ext_in' {A B} (f g : A -> B) l : (forall a, In a l -> f a = g a) -> map f l = map g l.
  Proof. apply map_ext_in. Qed.

  Lemma upd_mr_none v ts :
    Multiproc.upd_mr F fzero flt feqb None (v, ts)
    = if flt fzero (Multiproc.ts_norm F fzero feqb ts) then (Some v, Multiproc.ts_norm F fzero feqb ts) else (None, fzero).
  Proof. reflexivity. Qed.

  Lemma keep_assigned_map {X} (kf : X -> skey) (g : X -> option F * F) (L : list X) :
    Multiproc.keep_assigned F (map (fun x => (kf x, g x)) L)
    = flat_map (fun x => match fst (g x) with Some v => [(kf x, v)] | None => [] end) L.
  Proof.
    induction L as [|x L IH]; [reflexivity|]. cbn [map flat_map Multiproc.keep_assigned].
    destruct (g x) as [[v|] t]; cbn [fst app]; rewrite IH; reflexivity.
  Qed.

  Lemma NoDup_map_on {A B} (g : A -> B) l x y : NoDup (map g l) -> In x l -> In y l -> g x = g y -> x = y.
  Proof.
    induction l as [|a l IH]; intros Hnd Hx Hy E; [contradiction|]. cbn [map] in Hnd. inversion Hnd; subst.
    destruct Hx as [->|Hx], Hy as [->|Hy]; auto.
    - exfalso. apply H1. rewrite E. apply in_map. exact Hy.
    - exfalso. apply H1. rewrite <- E. apply in_map. exact Hx.
  Qed.

  (* the five branches of _accumulate_metrics for gauges, on pairwise distinct series *)
  Lemma acc_gauge_explicit (fam : mfamily F (child F)) me tsf P mode :
    f_kind fam = KGauge -> ~ In S_pid (f_labelnames fam) -> keys_wf fam ->
    Forall (kid_ok fam) (kids fam) -> NoDup (map fst (kids fam)) ->
    let L := enc_kids fam me tsf (kids fam) in
    Multiproc.acc_gauge F fzero fadd flt feqb mode (gsamples P L)
    = if Multiproc.is_mode Multiproc.M_min Multiproc.M_livemin mode then map (fun e => (sk e, fst (snd e))) L
      else if Multiproc.is_mode Multiproc.M_max Multiproc.M_livemax mode then map (fun e => (sk e, fst (snd e))) L
      else if Multiproc.is_mode Multiproc.M_sum Multiproc.M_livesum mode then map (fun e => (sk e, fadd fzero (fst (snd e)))) L
      else if Multiproc.is_mode Multiproc.M_mostrecent Multiproc.M_livemostrecent mode then
        flat_map (fun e => if flt fzero (Multiproc.ts_norm F fzero feqb (snd (snd e))) then [(sk e, fst (snd e))] else []) L
      else map (fun e => ((Multiproc.k_name (fst e), Multiproc.k_labels (fst e) ++ [(S_pid, P)]), fst (snd e))) L.
  Proof.
    intros Hk Hn Hwf Hok Hnd L.
    assert (HndL : NoDup (map fst L)) by (apply (enc_kids_nodup F fzero fone fadd fmt_le); assumption).
    assert (Hmeta : forall e, In e L -> Multiproc.k_metric (fst e) = f_name fam /\ Multiproc.k_help (fst e) = fm_help me)
      by (intros e He; apply (enc_kids_meta fam me tsf (kids fam) e Hok He)).
    pose proof (sk_nodup L _ _ Hmeta HndL) as Hsk.
    assert (Hwp : forall e, In e L ->
              (Multiproc.k_name (fst e), filter Multiproc.not_pid (Multiproc.k_labels (fst e) ++ [(S_pid, P)])) = sk e)
      by (apply without_pid_sk; assumption).
    unfold Multiproc.acc_gauge, gsamples.
    destruct (Multiproc.is_mode Multiproc.M_min Multiproc.M_livemin mode).
    { rewrite map_map. unfold Multiproc.without_pid. cbn [Multiproc.s_name Multiproc.s_labels Multiproc.s_value].
      rewrite (map_ext_in' _ (fun e => (sk e, fst (snd e))) L) by (intros e He; cbv beta; f_equal; exact (Hwp e He)).
      rewrite (dfold_fresh Multiproc.skey_eqb skeq_eq); [|rewrite map_map; exact Hsk|intros ? ? []].
      cbn [app]. rewrite map_map. reflexivity. }
    destruct (Multiproc.is_mode Multiproc.M_max Multiproc.M_livemax mode).
    { rewrite map_map. unfold Multiproc.without_pid. cbn [Multiproc.s_name Multiproc.s_labels Multiproc.s_value].
      rewrite (map_ext_in' _ (fun e => (sk e, fst (snd e))) L) by (intros e He; cbv beta; f_equal; exact (Hwp e He)).
      rewrite (dfold_fresh Multiproc.skey_eqb skeq_eq); [|rewrite map_map; exact Hsk|intros ? ? []].
      cbn [app]. rewrite map_map. reflexivity. }
    destruct (Multiproc.is_mode Multiproc.M_sum Multiproc.M_livesum mode).
    { rewrite map_map. unfold Multiproc.without_pid. cbn [Multiproc.s_name Multiproc.s_labels Multiproc.s_value].
      rewrite (map_ext_in' _ (fun e => (sk e, fst (snd e))) L) by (intros e He; cbv beta; f_equal; exact (Hwp e He)).
      rewrite (dfold_fresh Multiproc.skey_eqb skeq_eq); [|rewrite map_map; exact Hsk|intros ? ? []].
      cbn [app]. rewrite map_map. reflexivity. }
    destruct (Multiproc.is_mode Multiproc.M_mostrecent Multiproc.M_livemostrecent mode).
    { rewrite map_map. unfold Multiproc.without_pid. cbn [Multiproc.s_name Multiproc.s_labels Multiproc.s_value Multiproc.s_ts].
      rewrite (map_ext_in' _ (fun e => (sk e, (fst (snd e), snd (snd e)))) L) by (intros e He; cbv beta; f_equal; exact (Hwp e He)).
      rewrite (dfold_fresh Multiproc.skey_eqb skeq_eq); [|rewrite map_map; exact Hsk|intros ? ? []].
      cbn [app]. rewrite map_map. cbn [fst snd]. rewrite keep_assigned_map. apply flat_map_ext. intros [k [v ts]].
      cbn [fst snd]. rewrite upd_mr_none. destruct (flt fzero (Multiproc.ts_norm F fzero feqb ts)); reflexivity. }
    rewrite map_map. unfold Multiproc.full_key. cbn [Multiproc.s_name Multiproc.s_labels Multiproc.s_value].
    rewrite (dfold_fresh Multiproc.skey_eqb skeq_eq); [| |intros ? ? []].
    - cbn [app]. rewrite map_map. reflexivity.
    - rewrite map_map. cbn [fst]. apply NoDup_map_inj_in; [|apply (NoDup_of_map fst); exact HndL].
      intros e1 e2 H1 H2 E. apply (NoDup_map_on sk L e1 e2 Hsk H1 H2). unfold sk. injection E as E1 E2.
      apply app_inv_tail in E2. congruence.
  Qed.

  Lemma flat_map_flat_map {A B C} (f : B -> list C) (g : A -> list B) l :
    flat_map f (flat_map g l) = flat_map (fun x => flat_map f (g x)) l.
  Proof. induction l as [|x l IH]; cbn [flat_map]; [reflexivity|]. rewrite flat_map_app, IH. reflexivity. Qed.

  Lemma feq_refl v : feq v v.
  Proof. unfold Equiv.feq. destruct (feqb v v); auto. Qed.

  Lemma sim_rhs_eq A B B' : sim A B' -> B = B' -> sim A B.
  Proof. intros H ->. exact H. Qed.

  Lemma gauge_family (fam : mfamily F (child F)) me c (L : content) :
    match MultiprocProofs.metric_of F fzero (map (pair (FILE Multiproc.S_gauge (fm_mode me) pid c)) L) with
    | Some m => accumulate m
    | None => []
    end = Multiproc.acc_gauge F fzero fadd flt feqb (fm_mode me) (gsamples pid L).
  Proof.
    destruct L as [|[k0 [v0 ts0]] L].
    - cbn [map MultiprocProofs.metric_of gsamples]. unfold Multiproc.acc_gauge.
      destruct (Multiproc.is_mode _ _ _); [reflexivity|]. destruct (Multiproc.is_mode _ _ _); [reflexivity|].
      destruct (Multiproc.is_mode _ _ _); [reflexivity|]. destruct (Multiproc.is_mode _ _ _); reflexivity.
    - cbn [map MultiprocProofs.metric_of]. unfold Multiproc.accumulate.
      cbn [Multiproc.m_typ Multiproc.m_mode Multiproc.m_samples Multiproc.m_name].
      unfold FILE at 1. cbn [Multiproc.f_typ]. rewrite str_eqb_refl.
      change ((FILE Multiproc.S_gauge (fm_mode me) pid c, (k0, (v0, ts0))) :: map (pair (FILE Multiproc.S_gauge (fm_mode me) pid c)) L)
        with (map (pair (FILE Multiproc.S_gauge (fm_mode me) pid c)) ((k0, (v0, ts0)) :: L)).
      rewrite samples_gauge.
      rewrite (mode_after_same (fm_mode me) _ Multiproc.S_gauge pid c); [rewrite str_eqb_refl; reflexivity|discriminate|].
      apply Forall_forall. intros fe Hfe. apply in_map_iff in Hfe as [e [<- _]]. reflexivity.
  Qed.

  Definition po_val (e : mkey * (F * F)) : list (skey * F) := [(sk e, fst (snd e))].
  Definition po_sum (e : mkey * (F * F)) : list (skey * F) := [(sk e, fadd fzero (fst (snd e)))].
  Definition po_mr (e : mkey * (F * F)) : list (skey * F) :=
    if flt fzero (Multiproc.ts_norm F fzero feqb (snd (snd e))) then [(sk e, fst (snd e))] else [].

  Lemma gauge_kid_sim (po : mkey * (F * F) -> list (skey * F)) (fam : mfamily F (child F)) me log f tsf kc :
    f_kind fam = KGauge -> kid_ok fam kc ->
    (po = po_val /\ is_mr (fm_mode me) = false \/ po = po_sum /\ is_mr (fm_mode me) = false
     \/ po = po_mr /\ is_mr (fm_mode me) = true
        /\ (if in_log log f (fst kc) then flt fzero (tsf (fst kc)) = true else tsf (fst kc) = fzero)) ->
    sim (if keep_child me log f (f_kind fam) (fst kc)
         then map mem_ns (child_samples fzero fone fle (f_name fam) (f_bounds fam) (f_states fam)
                            (combine (f_labelnames fam) (fst kc)) (snd kc))
         else [])
        (flat_map po (enc_child fam me (fst kc) (snd kc) (tsf (fst kc)))).
  Proof.
    intros Hk [Hl Hc] Hpo. destruct kc as [lv c]. cbn [fst snd] in *. unfold EquivProofs.child_ok in Hc.
    rewrite Hk in *. destruct c as [[v|z]|v|n s|s cs|kv|i]; try contradiction.
    cbn [keep_child child_samples map enc_child flat_map]. rewrite app_nil_r.
    assert (HS : forall x, feq v x -> sim [mem_ns (mkMSample (f_name fam) (combine (f_labelnames fam) lv) None (VF v))]
                                          [(sk (Equiv.k_gauge F fam me lv, (v, tsf lv)), x)]).
    { intros x Hx. apply sim_forall2. constructor; [|constructor]. repeat split; cbn [fst snd Equiv.mem_ns ms_name ms_labels ms_le ms_val sval_F sk Multiproc.k_name Multiproc.k_labels Equiv.k_gauge Equiv.ckey].
      - rewrite app_nil_r. apply lab_perm.
      - exact Hx. }
    destruct Hpo as [[-> Hm]|[[-> Hm]|[-> [Hm Hts]]]]; rewrite Hm; cbn [negb orb].
    - apply HS. apply feq_refl.
    - apply HS. apply FL1.
    - unfold po_mr. cbn [fst snd]. destruct (in_log log f lv).
      + unfold Multiproc.ts_norm. rewrite (FLT_pos _ Hts), Hts. apply HS. apply feq_refl.
      + rewrite Hts. unfold Multiproc.ts_norm. destruct (feqb fzero fzero); rewrite FLT_zero; apply sim_nil.
  Qed.

  Theorem gauge_family_sim (d : fs) log f (fam : mfamily F (child F)) me tsf :
    f_kind fam = KGauge -> ~ In S_pid (f_labelnames fam) -> In (fm_mode me) GAUGE_MODES ->
    ~ In Multiproc.US pid -> NoDup (map fst d) ->
    fam_inv F fzero fone fadd flt fmt_le pid d log f fam me tsf ->
    sim (norm_mem me log f fam) (norm_mp (f_kind fam) me (mp_family (f_name fam) (collect_mp d))).
  Proof.
    intros Hk Hnp Hmode Hp Hnd [Hwf Hsup Hkn Hok Hview Hlog Hts Hgauge].
    rewrite (family_reduce d fam me (enc_kids fam me tsf (kids fam)) Hnd Hsup (fun _ => Hmode) Hp Hview).
    rewrite Hk. rewrite gauge_family. rewrite (acc_gauge_explicit fam me tsf pid (fm_mode me) Hk Hnp Hwf Hok Hkn).
    rewrite norm_mem_kids. unfold Equiv.norm_mp.
    assert (Hwp : forall e, In e (enc_kids fam me tsf (kids fam)) ->
              (Multiproc.k_name (fst e), filter Multiproc.not_pid (Multiproc.k_labels (fst e) ++ [(S_pid, pid)])) = sk e)
      by (apply without_pid_sk; assumption).
    assert (Hval : forall (po : mkey * (F * F) -> list (skey * F)),
              (po = po_val /\ is_mr (fm_mode me) = false \/ po = po_sum /\ is_mr (fm_mode me) = false
               \/ po = po_mr /\ is_mr (fm_mode me) = true) ->
              sim (flat_map (fun kc => if keep_child me log f (f_kind fam) (fst kc)
                                       then map mem_ns (child_samples fzero fone fle (f_name fam) (f_bounds fam) (f_states fam)
                                                          (combine (f_labelnames fam) (fst kc)) (snd kc))
                                       else []) (kids fam))
                  (flat_map po (enc_kids fam me tsf (kids fam)))).
    { intros po Hpo. unfold EquivProofs.enc_kids. rewrite flat_map_flat_map. apply sim_flat_map. intros kc Hin.
      rewrite Forall_forall in Hok. apply (gauge_kid_sim po fam me log f tsf kc Hk (Hok kc Hin)).
      destruct Hpo as [H|[H|[H1 H2]]]; [left; exact H|right; left; exact H|right; right; split; [exact H1|split; [exact H2|]]].
      apply (Hts Hk H2). apply in_map. exact Hin. }
    assert (Hstrip : map (fun kv : skey * F => ((fst (fst kv), filter Multiproc.not_pid (snd (fst kv))), snd kv))
                       (map (fun e : mkey * (F * F) => ((Multiproc.k_name (fst e), Multiproc.k_labels (fst e) ++ [(S_pid, pid)]), fst (snd e)))
                            (enc_kids fam me tsf (kids fam)))
                     = flat_map po_val (enc_kids fam me tsf (kids fam))).
    { rewrite map_map. cbn [fst snd]. unfold po_val. rewrite flat_map_singleton. apply map_ext_in. intros e He.
      f_equal. exact (Hwp e He). }
    cbn [GAUGE_MODES In] in Hmode.
    destruct Hmode as [Hm|[Hm|[Hm|[Hm|[Hm|[Hm|[Hm|[Hm|[Hm|[Hm|[]]]]]]]]]]]; rewrite <- Hm in *; clear Hm;
      repeat match goal with
             | |- context [Multiproc.is_mode ?a ?b ?c] =>
                 let v := eval vm_compute in (Multiproc.is_mode a b c) in change (Multiproc.is_mode a b c) with v
             | |- context [is_all ?c] => let v := eval vm_compute in (is_all c) in change (is_all c) with v
             end; cbv iota.
    all: try (eapply sim_rhs_eq; [apply Hval; left; split; reflexivity|exact Hstrip]).
    all: try (rewrite <- flat_map_singleton; apply Hval; first [left; split; reflexivity | right; left; split; reflexivity]).
    all: try (apply Hval; right; right; split; reflexivity).
    all: exact fam.
  Qed.
End Collect.

(* ================= C12 for counters, gauges (every mode) and summaries ================= *)
Section Main.
  Variable F : Type.
  Variables fzero fone finf : F.
  Variable fadd : F -> F -> F.
  Variable fneg : F -> F.
  Variables flt fle feqb : F -> F -> bool.
  Variable of_Z : Z -> res F.
  Variable zlef : Z -> F -> bool.
  Variable parse_le : str -> F.
  Variable fmt_le : F -> str.

  Hypothesis FL1 : forall v, feq F feqb v (fadd fzero v).
  Hypothesis FLT_zero : flt fzero fzero = false.
  Hypothesis FLT_pos : forall t, flt fzero t = true -> feqb t fzero = false.

  (* the metrics as constructed, with their modes and help texts *)
  Definition wf_reg (metas : list fmeta) (fams : mregistry F) : Prop :=
    length metas = length fams
    /\ NoDup (map (fun fam : mfamily F (child F) => f_name fam) fams)
    /\ (forall fam, In fam fams -> keys_wf F fmt_le fam /\ supported (f_kind fam) = true /\ fresh_fam F fzero fam)
    /\ (forall f fam me, nth_error fams f = Some fam -> nth_error metas f = Some me -> f_kind fam = KGauge ->
          ~ In Multiproc.S_pid (f_labelnames fam) /\ In (fm_mode me) GAUGE_MODES).

  Definition call_ok (o : F * mcall F) : Prop := flt fzero (fst o) = true /\ no_removal F (snd o).

  Lemma call_ok_op_ok ops : Forall call_ok ops -> Forall (op_ok F fzero flt feqb) ops.
  Proof. apply Forall_impl. intros [now o] [H1 H2]. split; [split; [exact H1|apply FLT_pos; exact H1]|exact H2]. Qed.

  Theorem equiv_non_histogram metas pid fams ops :
    wf_reg metas fams -> ~ In Multiproc.US pid -> Forall call_ok ops ->
    let S := mem_run F fzero fadd fneg flt fle of_Z zlef metas (mem_init F fams) ops in
    let P := mp_run F fzero fone fadd fneg flt fle feqb of_Z zlef fmt_le metas pid (mp_init F fzero fmt_le metas pid fams) ops in
    forall f fam me, nth_error (m_reg F S) f = Some fam -> nth_error metas f = Some me -> f_kind fam <> KHistogram ->
      sim F feqb (norm_mem F fzero fone fadd fle fmt_le me (m_log F S) f fam)
                 (norm_mp F (f_kind fam) me
                    (mp_family F (f_name fam) (collect_mp F fzero fadd flt feqb parse_le fmt_le (p_fs F P)))).
  Proof.
    intros (Hlen & Hnd & Hwf & Hg) Hpid Hops S P f fam me Hf Hm Hk.
    pose proof (init_sim F fzero fone fadd fneg flt fle feqb zlef fmt_le pid metas fams Hlen Hnd Hwf Hg) as HI0.
    destruct (run_sim F fzero fone fadd fneg flt fle feqb of_Z zlef fmt_le pid metas ops _ _ _ HI0 (call_ok_op_ok ops Hops))
      as [tsfs (_ & _ & _ & Hfiles & HF & _)].
    fold S in HF, Hfiles. fold P in HF, Hfiles. specialize (HF f fam me Hf Hm).
    pose proof (fi_sup _ _ _ _ _ _ _ _ _ _ _ _ _ HF) as Hsup.
    destruct (f_kind fam) eqn:Ek; try discriminate; try congruence.
    - rewrite <- Ek. apply (plain_family_sim F fzero fone fadd flt fle feqb parse_le fmt_le pid FL1 _ _ _ _ _ (tsfs f));
        [left; exact Ek|exact Hpid|exact Hfiles|exact HF].
    - destruct (fi_gauge _ _ _ _ _ _ _ _ _ _ _ _ _ HF Ek) as [Hnp Hmode]. rewrite <- Ek.
      apply (gauge_family_sim F fzero fone fadd flt fle feqb parse_le fmt_le pid FL1 FLT_zero FLT_pos _ _ _ _ _ (tsfs f));
        assumption.
    - rewrite <- Ek. apply (plain_family_sim F fzero fone fadd flt fle feqb parse_le fmt_le pid FL1 _ _ _ _ _ (tsfs f));
        [right; exact Ek|exact Hpid|exact Hfiles|exact HF].
  Qed.

  (* whatever the kind: the two back-ends accept and reject the same calls *)
  Theorem equiv_outcomes metas pid fams ops :
    wf_reg metas fams -> Forall call_ok ops ->
    forall pre now o post, ops = pre ++ (now, o) :: post ->
      snd (mp_step F fzero fone fadd fneg flt fle feqb of_Z zlef fmt_le metas pid
             (mp_run F fzero fone fadd fneg flt fle feqb of_Z zlef fmt_le metas pid (mp_init F fzero fmt_le metas pid fams) pre) now o)
      = snd (mem_step F fzero fadd fneg flt fle of_Z zlef metas
               (mem_run F fzero fadd fneg flt fle of_Z zlef metas (mem_init F fams) pre) o).
  Proof.
    intros (Hlen & Hnd & Hwf & Hg) Hops pre now o post E.
    pose proof (init_sim F fzero fone fadd fneg flt fle feqb zlef fmt_le pid metas fams Hlen Hnd Hwf Hg) as HI0.
    exact (run_outcomes F fzero fone fadd fneg flt fle feqb of_Z zlef fmt_le pid metas ops _ _ _ HI0
             (call_ok_op_ok ops Hops) pre now o post E).
  Qed.

  Lemma sim_length A B : sim F feqb A B -> length A = length B.
  Proof. intros [A' [P F2]]. rewrite (Permutation_length P). eapply Forall2_length'. exact F2. Qed.
End Main.

(* ================= each cell operation of the composition is Values.step on the directory ================= *)
Section Bridge.
  Variable F : Type.
  Variable fzero : F.
  Variable fadd : F -> F -> F.
  Variable feqb : F -> F -> bool.
  Notation vkey v := (Values.p_key (Values.v_params F v)).

  Lemma step_inc_bridge st d i v a :
    Values.st_pid F st = Values.st_actual F st -> nth_error (Values.st_values F st) i = Some v ->
    Values.v_val F v = rd F fzero d (Values.v_file F v) (vkey v) ->
    snd (fst (Values.step F fzero fadd feqb st d (Values.Inc F i a)))
    = mp_inc F fzero fadd d (Values.v_file F v) (vkey v) a.
  Proof.
    intros Hp Hv Hc. unfold Values.step, Values.check_pid. rewrite Hp, str_eqb_refl, Hv. cbn [fst snd Values.v_val Values.v_ts].
    unfold mp_inc, wr. rewrite Hc. reflexivity.
  Qed.

  Lemma step_set_bridge st d i v x ts :
    Values.st_pid F st = Values.st_actual F st -> nth_error (Values.st_values F st) i = Some v ->
    snd (fst (Values.step F fzero fadd feqb st d (Values.Set_ F i x ts)))
    = wr F fzero d (Values.v_file F v) (vkey v) x (Values.ts_or_zero F fzero feqb ts).
  Proof.
    intros Hp Hv. unfold Values.step, Values.check_pid. rewrite Hp, str_eqb_refl, Hv. reflexivity.
  Qed.

  Lemma step_new_bridge st d p :
    Values.st_pid F st = Values.st_actual F st ->
    d_find Values.prefix_eqb (Values.st_files F st) (Values.prefix_of p) = None ->
    snd (fst (Values.step F fzero fadd feqb st d (Values.New F p)))
    = mp_new F fzero d (Values.prefix_of p, Values.st_pid F st) (Values.p_key p).
  Proof.
    intros Hp Hf. unfold Values.step, Values.check_pid. rewrite Hp, str_eqb_refl. unfold Values.reset.
    rewrite <- Hp at 1. rewrite Hf. rewrite ValuesProofs.pp_set, (ValuesProofs.eqb_refl_of _ ValuesProofs.prefix_eqb_eq).
    unfold mp_new. rewrite Hp.
    destruct (Values.fs_read F fzero (Values.fs_open F d (Values.prefix_of p, Values.st_actual F st))
                (Values.prefix_of p, Values.st_actual F st) (Values.p_key p)) as [d2 [v ts]]. reflexivity.
  Qed.
End Bridge.

(* ================= a toy instance (integers as floats) for witnesses and non-vacuity ================= *)
Module Toy12.
  Import MetricsProofs.Toy.
  Definition tfmt (z : Z) : str := [Z.to_N (z + 2000000)%Z].
  Definition tparse (s : str) : Z := match s with [c] => (Z.of_N c - 2000000)%Z | _ => 0%Z end.
  Definition tpid : str := Eval compute in s2l "7".
  Definition tmem (metas : list fmeta) (fams : mregistry Z) (ops : list (Z * mcall Z)) : mem Z :=
    mem_run Z 0%Z Z.add Z.opp Z.ltb Z.leb t_of_Z Z.leb metas (mem_init Z fams) ops.
  Definition tmp (metas : list fmeta) (fams : mregistry Z) (ops : list (Z * mcall Z)) : mp Z :=
    mp_run Z 0%Z 1%Z Z.add Z.opp Z.ltb Z.leb Z.eqb t_of_Z Z.leb tfmt metas tpid (mp_init Z 0%Z tfmt metas tpid fams) ops.
  Definition tnorm_mem (metas : list fmeta) fams ops (f : nat) : list (Multiproc.skey * Z) :=
    match nth_error (m_reg Z (tmem metas fams ops)) f, nth_error metas f with
    | Some fam, Some me => norm_mem Z 0%Z 1%Z Z.add Z.leb tfmt me (m_log Z (tmem metas fams ops)) f fam
    | _, _ => []
    end.
  Definition tnorm_mp (metas : list fmeta) fams ops (f : nat) : list (Multiproc.skey * Z) :=
    match nth_error (m_reg Z (tmem metas fams ops)) f, nth_error metas f with
    | Some fam, Some me =>
        norm_mp Z (f_kind fam) me
          (mp_family Z (f_name fam) (collect_mp Z 0%Z Z.add Z.ltb Z.eqb tparse tfmt (p_fs Z (tmp metas fams ops))))
    | _, _ => []
    end.

  Definition hist (name : str) (bounds : list Z) : mfamily Z (child Z) :=
    mkMFamily KHistogram name [] bounds [] (Hst 0%Z (map (fun _ => 0) bounds)) [].
  Definition meta0 : fmeta := mkMeta [] (s2l "help").
  Definition obs (f : nat) (a : Z) : Z * mcall Z := (1000%Z, CUpd f Parent (Observe (AFloat a))).

  (* F9: Histogram(buckets=[-1, 1]) *)
  Definition w_neg_fams := [hist (s2l "h") [(-1)%Z; 1%Z; t_inf]].
  Definition w_neg_ops := [obs 0 1%Z].
  (* F10: Histogram(buckets=[1, 1, 2]) *)
  Definition w_dup_fams := [hist (s2l "h") [1%Z; 1%Z; 2%Z; t_inf]].
  (* a gauge with a label called pid, mode sum *)
  Definition w_pid_fams : mregistry Z := [mkMFamily KGauge (s2l "g") [s2l "pid"] [] [] (Gge 0%Z) []].
  Definition w_pid_metas := [mkMeta Multiproc.M_sum (s2l "help")].
  Definition w_pid_ops : list (Z * mcall Z) :=
    [(1000%Z, CUpd 0 (Lab [s2l "x"] []) (SetV (AInt 3))); (1000%Z, CUpd 0 (Lab [s2l "y"] []) (SetV (AInt 4)))].
  (* remove() *)
  Definition w_rm_fams : mregistry Z := [mkMFamily KCounter (s2l "c") [s2l "l"] [] [] (Ctr (CF 0%Z)) []].
  Definition w_rm_ops : list (Z * mcall Z) :=
    [(1000%Z, CUpd 0 (Lab [s2l "a"] []) (Inc (AInt 2))); (1000%Z, CRemove 0 [s2l "a"])].

  Lemma not_sim_by_length A B : length A <> length B -> ~ sim Z Z.eqb A B.
  Proof. intros H S. apply H. eapply sim_length. exact S. Qed.

  Lemma neg_bound_witness : ~ sim Z Z.eqb (tnorm_mem [meta0] w_neg_fams w_neg_ops 0) (tnorm_mp [meta0] w_neg_fams w_neg_ops 0).
  Proof. apply not_sim_by_length. vm_compute. discriminate. Qed.
  Lemma dup_bound_witness : ~ sim Z Z.eqb (tnorm_mem [meta0] w_dup_fams w_neg_ops 0) (tnorm_mp [meta0] w_dup_fams w_neg_ops 0).
  Proof. apply not_sim_by_length. vm_compute. discriminate. Qed.
  Lemma pid_label_witness : ~ sim Z Z.eqb (tnorm_mem w_pid_metas w_pid_fams w_pid_ops 0) (tnorm_mp w_pid_metas w_pid_fams w_pid_ops 0).
  Proof. apply not_sim_by_length. vm_compute. discriminate. Qed.
  Lemma remove_witness : ~ sim Z Z.eqb (tnorm_mem [meta0] w_rm_fams w_rm_ops 0) (tnorm_mp [meta0] w_rm_fams w_rm_ops 0).
  Proof. apply not_sim_by_length. vm_compute. discriminate. Qed.

  (* the float hypotheses hold of the toy instance *)
  Lemma t_FL1 : forall v : Z, feq Z Z.eqb v (0 + v)%Z.
  Proof. intro v. left. apply Z.eqb_eq. reflexivity. Qed.
  Lemma t_FLT_zero : Z.ltb 0 0 = false.
  Proof. reflexivity. Qed.
  Lemma t_FLT_pos : forall t : Z, Z.ltb 0 t = true -> Z.eqb t 0 = false.
  Proof. intros t H. apply Z.ltb_lt in H. apply Z.eqb_neq. lia. Qed.

  (* a registry inside the domain of the theorem: a counter, a mostrecent gauge, a summary *)
  Definition ex_fams : mregistry Z :=
    [mkMFamily KCounter (s2l "c") [s2l "l"; s2l "a"] [] [] (Ctr (CF 0%Z)) [];
     mkMFamily KGauge (s2l "g") [s2l "l"] [] [] (Gge 0%Z) [];
     mkMFamily KSummary (s2l "s") [] [] [] (Smy 0 0%Z) []].
  Definition ex_metas := [meta0; mkMeta Multiproc.M_mostrecent (s2l "doc"); meta0].
  Definition ex_ops : list (Z * mcall Z) :=
    [(1000%Z, CUpd 0 (Lab [s2l "x"; s2l "y"] []) (Inc (AInt 2)));
     (1001%Z, CUpd 0 (Lab [] [(s2l "a", s2l "y"); (s2l "l", s2l "x")]) (Inc (AFloat 3%Z)));
     (1002%Z, CLabels 1 (Lab [s2l "never"] []));
     (1003%Z, CUpd 1 (Lab [s2l "k"] []) (SetV (AInt 0)));
     (1004%Z, CUpd 1 (Lab [s2l "k"] []) (Inc (AInt 1)));
     (1005%Z, CUpd 2 Parent (Observe (AInt 5)));
     (1006%Z, CUpd 0 (Lab [s2l "x"] []) (Inc (AInt 1)))].
End Toy12.

(* the directory after any history, family by family (all four kinds, histograms included) *)
Section Cells.
  Variable F : Type.
  Variables fzero fone : F.
  Variable fadd : F -> F -> F.
  Variable fneg : F -> F.
  Variables flt fle feqb : F -> F -> bool.
  Variable of_Z : Z -> res F.
  Variable zlef : Z -> F -> bool.
  Variable fmt_le : F -> str.
  Hypothesis FLT_pos : forall t, flt fzero t = true -> feqb t fzero = false.

  Theorem files_hold_the_cells metas pid fams ops :
    wf_reg F fzero fmt_le metas fams -> Forall (call_ok F fzero flt) ops ->
    let S := mem_run F fzero fadd fneg flt fle of_Z zlef metas (mem_init F fams) ops in
    let P := mp_run F fzero fone fadd fneg flt fle feqb of_Z zlef fmt_le metas pid (mp_init F fzero fmt_le metas pid fams) ops in
    NoDup (map fst (p_fs F P))
    /\ exists tsfs : nat -> key -> F,
         forall f fam me, nth_error (m_reg F S) f = Some fam -> nth_error metas f = Some me ->
           (forall fn, view (f_name fam) (Values.fs_content F (p_fs F P) fn)
                       = if Values.fname_eqb fn (fam_file F fam me pid)
                         then enc_kids F fzero fone fadd fmt_le fam me (tsfs f) (kids F fam) else [])
           /\ NoDup (map fst (kids F fam))
           /\ (f_kind fam = KGauge -> is_mr (fm_mode me) = true -> forall lv, In lv (map fst (kids F fam)) ->
                 if in_log (m_log F S) f lv then flt fzero (tsfs f lv) = true else tsfs f lv = fzero).
  Proof.
    intros (Hlen & Hnd & Hwf & Hg) Hops S P.
    pose proof (init_sim F fzero fone fadd fneg flt fle feqb zlef fmt_le pid metas fams Hlen Hnd Hwf Hg) as HI0.
    destruct (run_sim F fzero fone fadd fneg flt fle feqb of_Z zlef fmt_le pid metas ops _ _ _ HI0
                (call_ok_op_ok F fzero flt feqb FLT_pos ops Hops)) as [tsfs (_ & _ & _ & Hfiles & HF & Hfor)].
    split; [exact Hfiles|]. exists tsfs. intros f fam me Hf Hm. destruct (HF f fam me Hf Hm) as [H1 H2 H3 H4 H5 H6 H7 H8].
    split; [exact H5|split; [exact H3|exact H7]].
  Qed.
End Cells.

Lemma toy_wf : wf_reg Z 0%Z Toy12.tfmt Toy12.ex_metas Toy12.ex_fams.
Proof.
  split; [reflexivity|split; [|split]].
  - cbn. repeat constructor; cbn; intuition discriminate.
  - intros fam [<-|[<-|[<-|[]]]].
    + split; [split; [cbn; repeat constructor; cbn; intuition discriminate|discriminate]|split; [reflexivity|split; reflexivity]].
    + split; [split; [cbn; repeat constructor; cbn; intuition discriminate|discriminate]|split; [reflexivity|split; reflexivity]].
    + split; [split; [cbn; repeat constructor|discriminate]|split; [reflexivity|split; reflexivity]].
  - intros [|[|[|f]]] fam me Hf Hm Hk; cbn in Hf, Hm; try discriminate; inversion Hf; inversion Hm; subst; try discriminate.
    + split; [cbn; intuition discriminate|cbn; tauto].
    + destruct f; discriminate.
Qed.

Lemma toy_calls : Forall (call_ok Z 0%Z Z.ltb) Toy12.ex_ops.
Proof. repeat constructor. Qed.

(* the collector reports no family the registry does not have *)
Section NoForeign.
  Variable F : Type.
  Variables fzero fone : F.
  Variable fadd : F -> F -> F.
  Variable fneg : F -> F.
  Variables flt fle feqb : F -> F -> bool.
  Variable of_Z : Z -> res F.
  Variable zlef : Z -> F -> bool.
  Variable parse_le : str -> F.
  Variable fmt_le : F -> str.
  Hypothesis FLT_pos : forall t, flt fzero t = true -> feqb t fzero = false.

  Theorem no_foreign_families metas pid fams ops :
    wf_reg F fzero fmt_le metas fams -> Forall (call_ok F fzero flt) ops ->
    let S := mem_run F fzero fadd fneg flt fle of_Z zlef metas (mem_init F fams) ops in
    let P := mp_run F fzero fone fadd fneg flt fle feqb of_Z zlef fmt_le metas pid (mp_init F fzero fmt_le metas pid fams) ops in
    forall n h t ss, In (n, h, t, ss) (collect_mp F fzero fadd flt feqb parse_le fmt_le (p_fs F P)) ->
      In n (map (fun fam : mfamily F (child F) => f_name fam) (m_reg F S)).
  Proof.
    intros (Hlen & Hnd & Hwf & Hg) Hops S P n h t ss Hin.
    pose proof (init_sim F fzero fone fadd fneg flt fle feqb zlef fmt_le pid metas fams Hlen Hnd Hwf Hg) as HI0.
    destruct (run_sim F fzero fone fadd fneg flt fle feqb of_Z zlef fmt_le pid metas ops _ _ _ HI0
                (call_ok_op_ok F fzero flt feqb FLT_pos ops Hops)) as [tsfs (_ & _ & _ & Hfiles & _ & Hfor)].
    fold S in Hfor. fold P in Hfor, Hfiles.
    destruct (mem_str n (map (fun fam : mfamily F (child F) => f_name fam) (m_reg F S))) eqn:E; [apply mem_str_In; exact E|].
    exfalso. assert (Hn : ~ In n (map (fun fam : mfamily F (child F) => f_name fam) (m_reg F S))).
    { intro H. apply mem_str_In in H. congruence. }
    unfold Equiv.collect_mp, Multiproc.merge_named in Hin.
    apply (MultiprocProofs.merge_In F fzero fadd flt feqb parse_le fmt_le) in Hin as [m [Hm _]].
    unfold MultiprocProofs.metric_of in Hm.
    destruct (MultiprocSpec.entries_of F n (map (Multiproc.file_of_named F) (named_files F (p_fs F P)))) as [|fe r] eqn:Ee; [discriminate|].
    assert (Hfe : In fe (MultiprocSpec.entries_of F n (map (Multiproc.file_of_named F) (named_files F (p_fs F P)))))
      by (rewrite Ee; left; reflexivity).
    unfold MultiprocSpec.entries_of in Hfe. apply filter_In in Hfe as [Hs Hmn].
    unfold MultiprocSpec.stream in Hs. apply in_flat_map in Hs as [fl [Hfl Hs]].
    apply in_map_iff in Hs as [e [<- He]]. cbn [fst snd] in Hmn.
    apply in_map_iff in Hfl as [nf [<- Hnf]]. unfold named_files in Hnf. apply in_map_iff in Hnf as [[fn c] [<- Hfc]].
    cbn [fst snd] in He.
    assert (Ec : Multiproc.f_entries F (Multiproc.file_of_named F (fname_str fn, c)) = c).
    { unfold Multiproc.file_of_named. cbn [fst snd]. destruct (Multiproc.parse_fname (fname_str fn)) as [[t0 md] p0]. reflexivity. }
    rewrite Ec in He.
    pose proof (Hfor n fn Hn) as Hv. rewrite (content_of_in F (p_fs F P) fn c Hfiles Hfc) in Hv.
    assert (Hiv : In e (view n c)) by (unfold view; apply filter_In; split; assumption).
    rewrite Hv in Hiv. exact Hiv.
  Qed.
End NoForeign.
