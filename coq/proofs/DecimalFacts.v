(* Facts about decimal digit strings shared by several properties. *)
From V Require Import lib.PyBase lib.Tac model.Utils model.Decimal.
Ltac Zify.zify_post_hook ::= Z.to_euclidean_division_equations.
Open Scope N_scope.

Lemma digits_val_app a s1 s2 : digits_val a (s1 ++ s2) = digits_val (digits_val a s1) s2.
Proof. revert a; induction s1 as [|c s1 IH]; intro a; simpl; auto. Qed.

Lemma digits_val_shift a s : digits_val a s = a * 10 ^ N.of_nat (length s) + digits_val 0 s.
Proof.
  revert a; induction s as [|c s IH]; intro a.
  - simpl. rewrite N.mul_1_r, N.add_0_r. reflexivity.
  - cbn [digits_val length]. rewrite IH. rewrite (IH (10 * 0 + (c - 48))).
    rewrite Nat2N.inj_succ, N.pow_succ_r'. lia.
Qed.

Lemma digits_val_zeros a k : digits_val a (repeat ZERO k) = a * 10 ^ N.of_nat k.
Proof.
  revert a; induction k as [|k IH]; intro a.
  - simpl. lia.
  - cbn [repeat digits_val]. rewrite IH. unfold ZERO.
    rewrite Nat2N.inj_succ, N.pow_succ_r'. lia.
Qed.

Lemma all_digits_app a b : all_digits (a ++ b) = all_digits a && all_digits b.
Proof. induction a as [|c a IH]; simpl; auto. rewrite IH, andb_assoc. reflexivity. Qed.

Lemma all_digits_repeat_zero k : all_digits (repeat ZERO k) = true.
Proof. induction k; simpl; auto. Qed.

Lemma is_digit_spec c : is_digit c = true <-> 48 <= c <= 57.
Proof. unfold is_digit. rewrite andb_true_iff, !N.leb_le. tauto. Qed.

(* --- dec_of_N is a correct, digits-only rendering --- *)
Lemma dec_digits_fuel_spec fuel : forall n acc,
  n < 2 ^ N.of_nat fuel -> (fuel <> 0)%nat ->
  digits_val 0 (dec_digits_fuel fuel n acc) = n * 10 ^ N.of_nat (length acc) + digits_val 0 acc
  /\ (all_digits acc = true -> all_digits (dec_digits_fuel fuel n acc) = true)
  /\ dec_digits_fuel fuel n acc <> [].
Proof.
  induction fuel as [|fuel IH]; intros n acc Hn Hf; [congruence|].
  cbn [dec_digits_fuel].
  assert (Hmod : n mod 10 < 10) by (apply N.mod_lt; lia).
  assert (Hdm : n = 10 * (n / 10) + n mod 10) by (apply N.div_mod'; lia).
  destruct (N.eqb_spec (n / 10) 0) as [Hq|Hq].
  - repeat split.
    + cbn [digits_val]. rewrite digits_val_shift.
      replace (10 * 0 + (48 + n mod 10 - 48)) with n by lia. reflexivity.
    + intro Ha. cbn [all_digits]. rewrite Ha, andb_true_r. apply is_digit_spec. lia.
    + discriminate.
  - assert (Hq2 : n / 10 < 2 ^ N.of_nat fuel).
    { rewrite Nat2N.inj_succ, N.pow_succ_r' in Hn.
      apply N.div_lt_upper_bound; lia. }
    assert (Hf2 : (fuel <> 0)%nat).
    { intro E; subst fuel. simpl in Hq2. assert (n / 10 = 0) by lia. contradiction. }
    destruct (IH (n / 10) ((48 + n mod 10) :: acc) Hq2 Hf2) as (H1 & H2 & H3).
    repeat split.
    + rewrite H1. cbn [length digits_val]. rewrite (digits_val_shift (10 * 0 + _)).
      rewrite Nat2N.inj_succ, N.pow_succ_r'.
      replace (10 * 0 + (48 + n mod 10 - 48)) with (n mod 10) by lia.
      rewrite Hdm at 3. ring.
    + intro Ha. apply H2. cbn [all_digits]. rewrite Ha, andb_true_r. apply is_digit_spec. lia.
    + exact H3.
Qed.

Lemma dec_of_N_spec n :
  digits_val 0 (dec_of_N n) = n /\ all_digits (dec_of_N n) = true /\ dec_of_N n <> [].
Proof.
  unfold dec_of_N.
  assert (Hn : n < 2 ^ N.of_nat (S (N.to_nat (N.log2 n)))).
  { rewrite Nat2N.inj_succ, N2Nat.id.
    destruct (N.eq_dec n 0) as [->|Hz]; [simpl; lia|].
    apply N.log2_spec. lia. }
  destruct (dec_digits_fuel_spec _ n [] Hn ltac:(lia)) as (H1 & H2 & H3).
  repeat split; auto. rewrite H1. simpl. lia.
Qed.
