(* C08 over worker histories with PID REUSE: every file of the shared directory is explained by ONE single-process run.
   The files of pid p fall in two classes (model/MultiHist.v live_prefix): the live-mode gauge files, which
   mark_process_dead(p) removes, and all other files, which every later process with pid p re-opens and continues.
   class_files: after ANY multi-process history the files of pid p of a class are the files of that class of
   Equiv.mp_run of src_ops = all calls ever made under pid p (other files) / the calls made since p was last marked dead
   (live-mode gauge files).  Key step (step_canon): what a call does to the files of a class depends only on the metric
   declarations, the files of the class and the call - not on which children the worker's metric objects hold; a worker
   that starts over existing files re-creates no cell (init_noop_q). *)
From V Require Import lib.PyBase lib.Tac.
From V Require Import model.Metrics model.Equiv model.MultiHist.
From V Require Import proofs.EquivProofs proofs.EquivHistProofs proofs.EquivLenProofs proofs.MultiHistProofs.
From V Require model.Multiproc model.Values model.MultiprocSpec proofs.MultiprocProofs proofs.ValuesProofs proofs.MetricsProofs.
Ltac Zify.zify_post_hook ::= Z.to_euclidean_division_equations.
Open Scope N_scope.


(* ================= restriction of the directory to a class of files ================= *)
Section RestrictQ.
  Variable F : Type.
  Variable Q : Values.fname -> bool.
  Notation fs := (Values.fs F).
  Notation fneq := Values.fname_eqb.
  Let fneq_eq := ValuesProofs.fname_eqb_eq.
  Definition rq (d : fs) : fs := filter (fun fc => Q (fst fc)) d.

  Lemma rq_find (d : fs) fn : Q fn = true -> d_find fneq (rq d) fn = d_find fneq d fn.
  Proof.
    intro HQ. induction d as [|[fn' c] d IH]; [reflexivity|]. unfold rq in *. cbn [filter fst d_find].
    destruct (fneq fn fn') eqn:E.
    - apply fneq_eq in E; subst fn'. rewrite HQ. cbn [d_find]. rewrite (kq_refl fneq fneq_eq). reflexivity.
    - destruct (Q fn'); [cbn [d_find]; rewrite E|]; exact IH.
  Qed.

  Lemma rq_set_same (d : fs) fn c : Q fn = true -> rq (d_set fneq d fn c) = d_set fneq (rq d) fn c.
  Proof.
    intro HQ. induction d as [|[fn' c0] d IH]; unfold rq in *.
    - cbn [d_set filter fst]. rewrite HQ. reflexivity.
    - cbn [d_set]. destruct (fneq fn fn') eqn:E.
      + apply fneq_eq in E; subst fn'. cbn [filter fst]. rewrite HQ. cbn [d_set]. rewrite (kq_refl fneq fneq_eq). reflexivity.
      + cbn [filter fst]. destruct (Q fn'); [cbn [d_set]; rewrite E; f_equal|]; exact IH.
  Qed.

  Lemma rq_set_other (d : fs) fn c : Q fn = false -> rq (d_set fneq d fn c) = rq d.
  Proof.
    intro HQ. induction d as [|[fn' c0] d IH]; unfold rq in *.
    - cbn [d_set filter fst]. rewrite HQ. reflexivity.
    - cbn [d_set]. destruct (fneq fn fn') eqn:E.
      + apply fneq_eq in E; subst fn'. cbn [filter fst]. rewrite HQ. reflexivity.
      + cbn [filter fst]. destruct (Q fn'); [f_equal|]; exact IH.
  Qed.

  Lemma rq_idem (d : fs) : rq (rq d) = rq d.
  Proof. apply filter_idem. Qed.

  Lemma rq_content (d : fs) fn : Q fn = true -> Values.fs_content F (rq d) fn = Values.fs_content F d fn.
  Proof. intro H. unfold Values.fs_content. rewrite rq_find by exact H. reflexivity. Qed.
End RestrictQ.

Section LocalQ.
  Variable F : Type.
  Variables fzero fone : F.
  Variable fadd : F -> F -> F.
  Variable fneg : F -> F.
  Variables flt fle feqb : F -> F -> bool.
  Variable of_Z : Z -> res F.
  Variable zlef : Z -> F -> bool.
  Variable fmt_le : F -> str.
  Variable Q : Values.fname -> bool.

  Notation fs := (Values.fs F).
  Notation fneq := Values.fname_eqb.
  Let fneq_eq := ValuesProofs.fname_eqb_eq.
  Notation rq := (rq F Q).
  Notation rd := (rd F fzero).
  Notation wr := (wr F fzero).
  Notation mp_new := (mp_new F fzero).
  Notation mp_create := (mp_create F fzero).
  Notation mp_inc := (mp_inc F fzero fadd).
  Notation mp_apply := (mp_apply F fzero fone fadd fneg flt fle feqb of_Z zlef fmt_le).
  Notation mp_ensure := (mp_ensure F fzero fmt_le).
  Notation mp_step := (mp_step F fzero fone fadd fneg flt fle feqb of_Z zlef fmt_le).
  Notation mp_init_fs := (mp_init_fs F fzero fmt_le).
  Notation fam_file := (fam_file F).
  Notation shape := (shape F).

  (* ----- primitives on a file inside the class ----- *)
  Lemma rdq d fn k : Q fn = true -> rd (rq d) fn k = rd d fn k.
  Proof. intro H. unfold Equiv.rd, Values.fs_cell. rewrite (rq_content F Q) by exact H. reflexivity. Qed.
  Lemma wrq d fn k v ts : Q fn = true -> rq (wr d fn k v ts) = wr (rq d) fn k v ts.
  Proof. intro H. unfold Equiv.wr, Values.fs_write. rewrite (rq_set_same F Q), (rq_content F Q) by exact H. reflexivity. Qed.
  Lemma wrq_other d fn k v ts : Q fn = false -> rq (wr d fn k v ts) = rq d.
  Proof. intro H. unfold Equiv.wr, Values.fs_write. apply (rq_set_other F Q). exact H. Qed.
  Lemma incq d fn k x : Q fn = true -> rq (mp_inc d fn k x) = mp_inc (rq d) fn k x.
  Proof. intro H. unfold Equiv.mp_inc. rewrite wrq, rdq by exact H. reflexivity. Qed.
  Lemma incq_other d fn k x : Q fn = false -> rq (mp_inc d fn k x) = rq d.
  Proof. intro H. unfold Equiv.mp_inc. apply wrq_other. exact H. Qed.
  Lemma openq d fn : Q fn = true -> rq (Values.fs_open F d fn) = Values.fs_open F (rq d) fn.
  Proof.
    intro H. unfold Values.fs_open. rewrite (rq_find F Q) by exact H. destruct (d_find fneq d fn); [reflexivity|].
    apply (rq_set_same F Q). exact H.
  Qed.
  Lemma openq_other d fn : Q fn = false -> rq (Values.fs_open F d fn) = rq d.
  Proof. intro H. unfold Values.fs_open. destruct (d_find fneq d fn); [reflexivity|]. apply (rq_set_other F Q). exact H. Qed.
  Lemma newq d fn k : Q fn = true -> rq (mp_new d fn k) = mp_new (rq d) fn k.
  Proof.
    intro H. unfold Equiv.mp_new, Values.fs_read. cbn [fst]. rewrite (rq_set_same F Q) by exact H.
    rewrite <- (rq_content F Q (Values.fs_open F d fn) fn H). rewrite openq by exact H. reflexivity.
  Qed.
  Lemma newq_other d fn k : Q fn = false -> rq (mp_new d fn k) = rq d.
  Proof. intro H. unfold Equiv.mp_new, Values.fs_read. cbn [fst]. rewrite (rq_set_other F Q) by exact H. apply openq_other. exact H. Qed.
  Lemma createq fn ks : Q fn = true -> forall d, rq (mp_create d fn ks) = mp_create (rq d) fn ks.
  Proof.
    intro H. unfold Equiv.mp_create. induction ks as [|k ks IH]; intro d; [reflexivity|]. cbn [fold_left].
    rewrite IH, newq by exact H. reflexivity.
  Qed.
  Lemma createq_other fn ks : Q fn = false -> forall d, rq (mp_create d fn ks) = rq d.
  Proof.
    intro H. unfold Equiv.mp_create. induction ks as [|k ks IH]; intro d; [reflexivity|]. cbn [fold_left].
    rewrite IH. apply newq_other. exact H.
  Qed.

  Lemma applyq (fam : shape) me p now d lv m : Q (fam_file fam me p) = true ->
    mp_apply fam me p now (rq d) lv m = (rq (fst (mp_apply fam me p now d lv m)), snd (mp_apply fam me p now d lv m)).
  Proof.
    intro H. unfold Equiv.mp_apply. revert H. generalize (fam_file fam me p) as fn. intros fn H.
    destruct (f_kind fam), m as [a|a|a|a| |kv|st]; cbn [fst snd]; try reflexivity;
      repeat match goal with
             | |- context [if ?b then _ else _] => destruct b
             | |- context [match ?x with Ok _ => _ | Err _ => _ end] => destruct x
             | |- context [match ?x with Some _ => _ | None => _ end] => destruct x
             end; cbn [fst snd]; rewrite ?incq, ?wrq by exact H; reflexivity.
  Qed.
  Lemma applyq_other (fam : shape) me p now d lv m : Q (fam_file fam me p) = false ->
    rq (fst (mp_apply fam me p now d lv m)) = rq d.
  Proof.
    intro H. unfold Equiv.mp_apply. revert H. generalize (fam_file fam me p) as fn. intros fn H.
    destruct (f_kind fam), m as [a|a|a|a| |kv|st]; cbn [fst snd]; try reflexivity;
      repeat match goal with
             | |- context [if ?b then _ else _] => destruct b
             | |- context [match ?x with Ok _ => _ | Err _ => _ end] => destruct x
             | |- context [match ?x with Some _ => _ | None => _ end] => destruct x
             end; cbn [fst snd]; rewrite ?incq_other by exact H; rewrite ?wrq_other by exact H; reflexivity.
  Qed.
  (* the outcome of an update does not depend on the directory *)
  Lemma apply_out (fam : shape) me p now d d' lv m : snd (mp_apply fam me p now d lv m) = snd (mp_apply fam me p now d' lv m).
  Proof.
    unfold Equiv.mp_apply. destruct (f_kind fam), m as [a|a|a|a| |kv|st]; cbn [fst snd]; try reflexivity;
      repeat match goal with
             | |- context [if ?b then _ else _] => destruct b
             | |- context [match ?x with Ok _ => _ | Err _ => _ end] => destruct x
             | |- context [match ?x with Some _ => _ | None => _ end] => destruct x
             end; reflexivity.
  Qed.
End LocalQ.


Lemma ds_same {K V} (keq : K -> K -> bool) (keq_eq : forall a b, keq a b = true <-> a = b) (d : assoc K V) k v :
  d_find keq d k = Some v -> d_set keq d k v = d.
Proof.
  induction d as [|[k' v'] d IH]; cbn [d_find d_set]; [discriminate|]. destruct (keq k k') eqn:E.
  - intro H. inversion H; subst. reflexivity.
  - intro H. rewrite IH by exact H. reflexivity.
Qed.

Section Keys.
  Variable F : Type.
  Variables fzero fone : F.
  Variable fadd : F -> F -> F.
  Variable fneg : F -> F.
  Variables flt fle feqb : F -> F -> bool.
  Variable of_Z : Z -> res F.
  Variable zlef : Z -> F -> bool.
  Variable fmt_le : F -> str.
  Notation fs := (Values.fs F).
  Notation fneq := Values.fname_eqb.
  Let fneq_eq := ValuesProofs.fname_eqb_eq.
  Notation mkeq := Multiproc.key_eqb.
  Let mkeq_eq := MultiprocProofs.key_eqb_eq.
  Notation wr := (wr F fzero).
  Notation mp_new := (mp_new F fzero).
  Notation mp_create := (mp_create F fzero).
  Notation mp_inc := (mp_inc F fzero fadd).
  Notation mp_apply := (mp_apply F fzero fone fadd fneg flt fle feqb of_Z zlef fmt_le).
  Notation shape := (shape F).

  (* the key is in the file *)
  Definition has_key (d : fs) (fn : Values.fname) (k : Multiproc.key) : Prop := Values.fs_cell F d fn k <> None.

  Lemma hk_new d fn k fn' k' : has_key d fn' k' -> has_key (mp_new d fn k) fn' k'.
  Proof.
    unfold has_key, Equiv.mp_new. rewrite (ValuesProofs.cell_read F fzero), (ValuesProofs.cell_open F).
    destruct (fneq fn' fn && mkeq k' k); [discriminate|auto].
  Qed.
  Lemma hk_new_same d fn k : has_key (mp_new d fn k) fn k.
  Proof.
    unfold has_key, Equiv.mp_new. rewrite (ValuesProofs.cell_read F fzero).
    rewrite (kq_refl fneq fneq_eq), (kq_refl mkeq mkeq_eq). discriminate.
  Qed.
  Lemma hk_create d fn ks fn' k' : has_key d fn' k' -> has_key (mp_create d fn ks) fn' k'.
  Proof. unfold Equiv.mp_create. revert d. induction ks as [|k ks IH]; intros d H; [exact H|]. cbn [fold_left]. apply IH, hk_new, H. Qed.
  Lemma hk_create_in d fn ks k : In k ks -> has_key (mp_create d fn ks) fn k.
  Proof.
    unfold Equiv.mp_create. revert d. induction ks as [|k0 ks IH]; intros d Hin; [contradiction|]. cbn [fold_left].
    destruct Hin as [<-|Hin].
    - apply (hk_create (mp_new d fn k0) fn ks). apply hk_new_same.
    - apply IH. exact Hin.
  Qed.
  Lemma hk_wr d fn k v ts fn' k' : has_key d fn' k' -> has_key (wr d fn k v ts) fn' k'.
  Proof.
    unfold has_key, Equiv.wr. rewrite (ValuesProofs.cell_write F fzero). destruct (fneq fn' fn && mkeq k' k); [discriminate|auto].
  Qed.
  Lemma hk_inc d fn k x fn' k' : has_key d fn' k' -> has_key (mp_inc d fn k x) fn' k'.
  Proof. unfold Equiv.mp_inc. apply hk_wr. Qed.
  Lemma hk_apply (fam : shape) me p now d lv m fn' k' : has_key d fn' k' -> has_key (fst (mp_apply fam me p now d lv m)) fn' k'.
  Proof.
    intro H. unfold Equiv.mp_apply.
    destruct (f_kind fam), m as [a|a|a|a| |kv|st]; cbn [fst snd]; try exact H;
      repeat match goal with
             | |- context [if ?b then _ else _] => destruct b
             | |- context [match ?x with Ok _ => _ | Err _ => _ end] => destruct x
             | |- context [match ?x with Some _ => _ | None => _ end] => destruct x
             end; cbn [fst snd]; repeat (first [apply hk_inc | apply hk_wr]); exact H.
  Qed.

  Lemma new_noop d fn k : has_key d fn k -> mp_new d fn k = d.
  Proof.
    unfold has_key, Values.fs_cell, Values.fs_content. intro H.
    destruct (d_find fneq d fn) as [c|] eqn:E; [|cbn in H; congruence].
    unfold Equiv.mp_new, Values.fs_read, Values.fs_open. rewrite E. cbn [fst]. unfold Values.fs_content. rewrite E.
    unfold Values.init_key. destruct (d_find mkeq c k); [|congruence]. apply (ds_same fneq fneq_eq). exact E.
  Qed.
  Lemma create_noop fn ks : forall d, (forall k, In k ks -> has_key d fn k) -> mp_create d fn ks = d.
  Proof.
    unfold Equiv.mp_create. induction ks as [|k ks IH]; intros d H; [reflexivity|]. cbn [fold_left].
    rewrite new_noop by (apply H; left; reflexivity). apply IH. intros; apply H; right; assumption.
  Qed.

  Lemma hk_rq Q d fn k : Q fn = true -> (has_key (rq F Q d) fn k <-> has_key d fn k).
  Proof. intro H. unfold has_key, Values.fs_cell. rewrite (rq_content F Q) by exact H. tauto. Qed.
End Keys.


Section Canon.
  Variable F : Type.
  Variables fzero fone : F.
  Variable fadd : F -> F -> F.
  Variable fneg : F -> F.
  Variables flt fle feqb : F -> F -> bool.
  Variable of_Z : Z -> res F.
  Variable zlef : Z -> F -> bool.
  Variable fmt_le : F -> str.
  Variable Q : Values.fname -> bool.
  Variable p : str.
  Variable metas : list fmeta.

  Notation fs := (Values.fs F).
  Notation rq := (rq F Q).
  Notation mp_create := (mp_create F fzero).
  Notation mp_apply := (mp_apply F fzero fone fadd fneg flt fle feqb of_Z zlef fmt_le).
  Notation mp_ensure := (mp_ensure F fzero fmt_le).
  Notation mp_step := (mp_step F fzero fone fadd fneg flt fle feqb of_Z zlef fmt_le).
  Notation mp_init_fs := (mp_init_fs F fzero fmt_le).
  Notation fam_file := (fam_file F).
  Notation cell_keys := (cell_keys F fmt_le).
  Notation shape := (shape F).
  Notation has_key := (has_key F).

  (* a worker's metric objects with their children forgotten *)
  Definition strip (fam : shape) : shape := with_children fam [].

  (* every child the worker holds (and the metric itself when unlabelled) has its cells in the family's file *)
  Definition fam_cov (d : fs) (fam : shape) (me : fmeta) : Prop :=
    Q (fam_file fam me p) = true ->
    (is_nil (f_labelnames fam) = true -> forall k, In k (cell_keys fam me []) -> has_key d (fam_file fam me p) k)
    /\ (forall lv, In lv (map fst (f_children fam)) -> forall k, In k (cell_keys fam me lv) -> has_key d (fam_file fam me p) k).
  Definition covered (sh : list shape) (d : fs) : Prop :=
    forall f fam me, nth_error sh f = Some fam -> nth_error metas f = Some me -> fam_cov d fam me.

  Lemma cov_mono sh d d' : covered sh d -> (forall fn k, has_key d fn k -> has_key d' fn k) -> covered sh d'.
  Proof.
    intros H Hm f fam me Hf Hme HQ. destruct (H f fam me Hf Hme HQ) as [H1 H2]. split.
    - intros Hn k Hk. apply Hm, H1; assumption.
    - intros lv Hlv k Hk. apply Hm, (H2 lv); assumption.
  Qed.

  Lemma cov_set sh d f fam fam' : covered sh d -> nth_error sh f = Some fam ->
    (forall me, nth_error metas f = Some me -> fam_cov d fam' me) -> covered (set_nth sh f fam') d.
  Proof.
    intros H Hf H' g famg me Hg Hme. destruct (Nat.eq_dec f g) as [<-|Hne].
    - rewrite (MetricsProofs.nth_error_set_nth sh f fam fam' Hf) in Hg. inversion Hg; subst. apply H'. exact Hme.
    - rewrite nth_error_set_nth_other in Hg by exact Hne. apply (H g famg me Hg Hme).
  Qed.

  Lemma strip_set sh f fam fam' : nth_error sh f = Some fam -> strip fam' = strip fam -> map strip (set_nth sh f fam') = map strip sh.
  Proof. intros Hf E. eapply map_set_nth_same; eauto. Qed.

  Lemma nth_strip sh f : nth_error (map strip sh) f = option_map strip (nth_error sh f).
  Proof. apply MetricsProofs.nth_error_map'. Qed.

  Lemma in_children_add (fam : shape) k lv :
    In lv (map fst (f_children fam ++ [(k, tt)])) -> In lv (map fst (f_children fam)) \/ lv = k.
  Proof. rewrite map_app, in_app_iff. cbn. intros [H|[H|[]]]; auto. Qed.

  (* ----- labels(): the child is there afterwards, with its cells ----- *)
  Lemma ensure_canon (fam : shape) me d k : fam_cov d fam me ->
    let r := mp_ensure fam me p d k in
    rq (snd r) = rq (mp_create (rq d) (fam_file fam me p) (cell_keys fam me k))
    /\ strip (fst r) = strip fam
    /\ (forall fn k', has_key d fn k' -> has_key (snd r) fn k')
    /\ fam_cov (snd r) (fst r) me
    /\ (Q (fam_file fam me p) = true -> forall k', In k' (cell_keys fam me k) -> has_key (snd r) (fam_file fam me p) k').
  Proof.
    intro Hc. unfold Equiv.mp_ensure. destruct (d_find key_eqb (f_children fam) k) as [u|] eqn:E; cbn [fst snd].
    - assert (Hin : In k (map fst (f_children fam))).
      { apply (df_some_in key_eqb MetricsProofs.key_eqb_eq) in E. apply (in_map fst) in E. exact E. }
      split; [|split; [reflexivity|split; [auto|split; [exact Hc|]]]].
      + destruct (Q (fam_file fam me p)) eqn:HQ.
        * destruct (Hc HQ) as [_ H2]. rewrite <- (createq F fzero Q _ _ HQ).
          rewrite (create_noop F fzero); [rewrite (rq_idem F Q); reflexivity|]. intros k' Hk'. apply (H2 k Hin k' Hk').
        * rewrite (createq_other F fzero Q _ _ HQ). rewrite (rq_idem F Q). reflexivity.
      + intros HQ k' Hk'. destruct (Hc HQ) as [_ H2]. apply (H2 k Hin k' Hk').
    - split; [|split; [reflexivity|split; [|split]]].
      + destruct (Q (fam_file fam me p)) eqn:HQ.
        * rewrite (createq F fzero Q _ _ HQ). rewrite (createq F fzero Q _ _ HQ), (rq_idem F Q). reflexivity.
        * rewrite !(createq_other F fzero Q _ _ HQ). rewrite (rq_idem F Q). reflexivity.
      + intros fn k' H. apply (hk_create F fzero). exact H.
      + intro HQ. destruct (Hc HQ) as [H1 H2]. split.
        * intros Hn k' Hk'. apply (hk_create F fzero). apply H1; assumption.
        * intros lv Hlv k' Hk'. apply in_children_add in Hlv as [Hlv| ->].
          -- apply (hk_create F fzero). apply (H2 lv Hlv k' Hk').
          -- apply (hk_create_in F fzero). exact Hk'.
      + intros HQ k' Hk'. apply (hk_create_in F fzero). exact Hk'.
  Qed.

  Lemma strip_apply (fam : shape) me now d lv m : mp_apply (strip fam) me p now d lv m = mp_apply fam me p now d lv m.
  Proof. reflexivity. Qed.
  Lemma strip_ensure (fam : shape) me d k :
    mp_ensure (strip fam) me p d k = (with_children (strip fam) [(k, tt)], mp_create d (fam_file fam me p) (cell_keys fam me k)).
  Proof. reflexivity. Qed.
  Lemma strip_strip (fam : shape) ch : strip (with_children fam ch) = strip fam.
  Proof. reflexivity. Qed.

  Lemma trivial_canon sh d (out : res unit) : covered sh d ->
    out = out /\ rq d = rq (rq d) /\ map strip sh = map strip sh /\ covered sh d.
  Proof. intro H. rewrite (rq_idem F Q). auto. Qed.

  (* one call: what it does to the files of the class depends only on the metric declarations, the files of the class
     and the call - not on which children the worker's metric objects currently hold *)
  Lemma step_canon sh d now o : covered sh d ->
    let r := mp_step metas p (mkMp F sh d) now o in
    let c := mp_step metas p (mkMp F (map strip sh) (rq d)) now o in
    snd r = snd c /\ rq (p_fs F (fst r)) = rq (p_fs F (fst c))
    /\ map strip (p_shape F (fst r)) = map strip sh /\ covered (p_shape F (fst r)) (p_fs F (fst r)).
  Proof.
    intro Hc. unfold Equiv.mp_step. cbn [p_shape p_fs]. destruct o as [f a m|f a|f vs|f]; rewrite nth_strip.
    - (* update *)
      destruct (nth_error sh f) as [fam|] eqn:Ef; cbn [option_map]; [|apply trivial_canon; exact Hc].
      destruct (nth_error metas f) as [me|] eqn:Em; [|apply trivial_canon; exact Hc].
      change (f_labelnames (strip fam)) with (f_labelnames fam). change (f_kind (strip fam)) with (f_kind fam).
      pose proof (Hc f fam me Ef Em) as Hcf.
      destruct (resolve (f_labelnames fam) a) as [[k|]|e]; [| |apply trivial_canon; exact Hc].
      + rewrite strip_ensure. destruct (ensure_canon fam me d k Hcf) as (E1 & E2 & E3 & E4 & E5).
        destruct (mp_ensure fam me p d k) as [fam' d1]. cbn [fst snd] in *.
        assert (Hst : map strip (set_nth sh f fam') = map strip sh) by (apply (strip_set sh f fam fam' Ef E2)).
        assert (Hcov1 : covered (set_nth sh f fam') d1).
        { apply (cov_set sh d1 f fam fam'); [apply (cov_mono sh d d1 Hc E3)|exact Ef|]. intros me' Hme'. rewrite Em in Hme'. inversion Hme'; subst. exact E4. }
        destruct (mr_blocked F (f_kind fam) (fm_mode me) m); cbn [fst snd p_fs p_shape].
        { split; [reflexivity|split; [exact E1|split; [exact Hst|exact Hcov1]]]. }
        rewrite strip_apply.
        pose proof (hk_apply F fzero fone fadd fneg flt fle feqb of_Z zlef fmt_le fam me p now d1 k m) as Hk2.
        pose proof (apply_out F fzero fone fadd fneg flt fle feqb of_Z zlef fmt_le fam me p now d1
                      (mp_create (rq d) (fam_file fam me p) (cell_keys fam me k)) k m) as Ho.
        destruct (Q (fam_file fam me p)) eqn:HQ.
        * pose proof (applyq F fzero fone fadd fneg flt fle feqb of_Z zlef fmt_le Q fam me p now d1 k m HQ) as Ha1.
          pose proof (applyq F fzero fone fadd fneg flt fle feqb of_Z zlef fmt_le Q fam me p now
                        (mp_create (rq d) (fam_file fam me p) (cell_keys fam me k)) k m HQ) as Ha2.
          rewrite <- E1 in Ha2. rewrite Ha1 in Ha2.
          destruct (mp_apply fam me p now d1 k m) as [d2 out]. destruct (mp_apply fam me p now (mp_create _ _ _) k m) as [d2c outc].
          cbn [fst snd p_fs p_shape] in *. inversion Ha2. split; [reflexivity|split; [|split; [exact Hst|]]].
          -- reflexivity.
          -- apply (cov_mono _ d1 d2 Hcov1). intros fn k' H. apply Hk2. exact H.
        * pose proof (applyq_other F fzero fone fadd fneg flt fle feqb of_Z zlef fmt_le Q fam me p now d1 k m HQ) as Ha1.
          pose proof (applyq_other F fzero fone fadd fneg flt fle feqb of_Z zlef fmt_le Q fam me p now
                        (mp_create (rq d) (fam_file fam me p) (cell_keys fam me k)) k m HQ) as Ha2.
          destruct (mp_apply fam me p now d1 k m) as [d2 out]. destruct (mp_apply fam me p now (mp_create _ _ _) k m) as [d2c outc].
          cbn [fst snd p_fs p_shape] in *. split; [exact Ho|split; [congruence|split; [exact Hst|]]].
          apply (cov_mono _ d1 d2 Hcov1). intros fn k' H. apply Hk2. exact H.
      + destruct (mr_blocked F (f_kind fam) (fm_mode me) m); [apply trivial_canon; exact Hc|].
        destruct (is_nil (f_labelnames fam)); [|apply trivial_canon; exact Hc].
        rewrite strip_apply.
        pose proof (hk_apply F fzero fone fadd fneg flt fle feqb of_Z zlef fmt_le fam me p now d [] m) as Hk2.
        pose proof (apply_out F fzero fone fadd fneg flt fle feqb of_Z zlef fmt_le fam me p now d (rq d) [] m) as Ho.
        destruct (Q (fam_file fam me p)) eqn:HQ.
        * pose proof (applyq F fzero fone fadd fneg flt fle feqb of_Z zlef fmt_le Q fam me p now d [] m HQ) as Ha1.
          rewrite Ha1. destruct (mp_apply fam me p now d [] m) as [d2 out]. cbn [fst snd p_fs p_shape] in *.
          split; [reflexivity|split; [rewrite (rq_idem F Q); reflexivity|split; [reflexivity|]]]. apply (cov_mono sh d d2 Hc). intros fn k' H. apply Hk2. exact H.
        * pose proof (applyq_other F fzero fone fadd fneg flt fle feqb of_Z zlef fmt_le Q fam me p now d [] m HQ) as Ha1.
          pose proof (applyq_other F fzero fone fadd fneg flt fle feqb of_Z zlef fmt_le Q fam me p now (rq d) [] m HQ) as Ha2.
          destruct (mp_apply fam me p now d [] m) as [d2 out]. destruct (mp_apply fam me p now (rq d) [] m) as [d2c outc].
          cbn [fst snd p_fs p_shape] in *. rewrite (rq_idem F Q) in Ha2. split; [exact Ho|split; [congruence|split; [reflexivity|]]]. apply (cov_mono sh d d2 Hc). intros fn k' H. apply Hk2. exact H.
    - (* labels *)
      destruct (nth_error sh f) as [fam|] eqn:Ef; cbn [option_map]; [|apply trivial_canon; exact Hc].
      destruct (nth_error metas f) as [me|] eqn:Em; [|apply trivial_canon; exact Hc].
      change (f_labelnames (strip fam)) with (f_labelnames fam).
      pose proof (Hc f fam me Ef Em) as Hcf.
      destruct (resolve (f_labelnames fam) a) as [[k|]|e]; try (apply trivial_canon; exact Hc).
      rewrite strip_ensure. destruct (ensure_canon fam me d k Hcf) as (E1 & E2 & E3 & E4 & E5).
      destruct (mp_ensure fam me p d k) as [fam' d1]. cbn [fst snd p_fs p_shape] in *.
      split; [reflexivity|split; [exact E1|split; [apply (strip_set sh f fam fam' Ef E2)|]]].
      apply (cov_set sh d1 f fam fam'); [apply (cov_mono sh d d1 Hc E3)|exact Ef|]. intros me' Hme'. rewrite Em in Hme'. inversion Hme'; subst. exact E4.
    - (* remove *)
      destruct (nth_error sh f) as [fam|] eqn:Ef; cbn [option_map]; [|apply trivial_canon; exact Hc].
      change (f_labelnames (strip fam)) with (f_labelnames fam).
      destruct (is_nil (f_labelnames fam)); [apply trivial_canon; exact Hc|].
      destruct (negb _); [apply trivial_canon; exact Hc|]. cbn [fst snd p_fs p_shape].
      split; [reflexivity|split; [rewrite (rq_idem F Q); reflexivity|split; [apply (strip_set sh f fam _ Ef); reflexivity|]]].
      apply (cov_set sh d f fam _ Hc Ef). intros me Hme HQ. destruct (Hc f fam me Ef Hme HQ) as [H1 H2]. split; [exact H1|].
      intros lv Hlv. apply H2. cbn [f_children with_children] in Hlv. eapply dr_keys_in. exact Hlv.
    - (* clear *)
      destruct (nth_error sh f) as [fam|] eqn:Ef; cbn [option_map]; [|apply trivial_canon; exact Hc].
      change (f_labelnames (strip fam)) with (f_labelnames fam). change (f_kind (strip fam)) with (f_kind fam).
      destruct (is_nil (f_labelnames fam)); [destruct (f_kind fam); apply trivial_canon; exact Hc|]. cbn [fst snd p_fs p_shape].
      split; [reflexivity|split; [rewrite (rq_idem F Q); reflexivity|split; [apply (strip_set sh f fam _ Ef); reflexivity|]]].
      apply (cov_set sh d f fam _ Hc Ef). intros me Hme HQ. destruct (Hc f fam me Ef Hme HQ) as [H1 H2]. split; [exact H1|].
      intros lv [].
  Qed.
End Canon.


Section InitQ.
  Variable F : Type.
  Variables fzero fone : F.
  Variable fadd : F -> F -> F.
  Variable fneg : F -> F.
  Variables flt fle feqb : F -> F -> bool.
  Variable of_Z : Z -> res F.
  Variable zlef : Z -> F -> bool.
  Variable fmt_le : F -> str.
  Variable Q : Values.fname -> bool.
  Variable p : str.

  Notation fs := (Values.fs F).
  Notation rq := (rq F Q).
  Notation mp_create := (mp_create F fzero).
  Notation mp_init_fs := (mp_init_fs F fzero fmt_le).
  Notation fam_file := (fam_file F).
  Notation cell_keys := (cell_keys F fmt_le).
  Notation shape := (shape F).
  Notation has_key := (has_key F).
  Notation strip := (strip F).

  (* the construction of the metrics respects the class ... *)
  Lemma init_resp : forall (fams : list shape) metas d, rq (mp_init_fs p fams metas d) = rq (mp_init_fs p fams metas (rq d)).
  Proof.
    induction fams as [|fam fams IH]; intros [|me metas] d; cbn [Equiv.mp_init_fs]; try (rewrite (rq_idem F Q); reflexivity).
    destruct (is_nil (f_labelnames fam)); [|apply IH].
    rewrite IH. rewrite (IH metas (mp_create (rq d) _ _)). f_equal. f_equal.
    destruct (Q (fam_file fam me p)) eqn:HQ.
    - rewrite !(createq F fzero Q _ _ HQ), (rq_idem F Q). reflexivity.
    - rewrite !(createq_other F fzero Q _ _ HQ), (rq_idem F Q). reflexivity.
  Qed.

  (* ... keeps every key, and leaves the cells of every unlabelled metric in its file *)
  Lemma init_keys : forall (fams : list shape) metas d,
    (forall fn k, has_key d fn k -> has_key (mp_init_fs p fams metas d) fn k)
    /\ (forall f fam me, nth_error fams f = Some fam -> nth_error metas f = Some me -> is_nil (f_labelnames fam) = true ->
          forall k, In k (cell_keys fam me []) -> has_key (mp_init_fs p fams metas d) (fam_file fam me p) k).
  Proof.
    induction fams as [|fam fams IH]; intros [|me metas] d; cbn [Equiv.mp_init_fs].
    - split; [auto|intros [|f]; discriminate].
    - split; [auto|intros [|f]; discriminate].
    - split; [auto|intros [|f] ? ? ? H; discriminate H].
    - set (d1 := if is_nil (f_labelnames fam) then mp_create d (fam_file fam me p) (cell_keys fam me []) else d).
      assert (Hm : forall fn k, has_key d fn k -> has_key d1 fn k).
      { intros fn k H. subst d1. destruct (is_nil (f_labelnames fam)); [apply (hk_create F fzero); exact H|exact H]. }
      destruct (IH metas d1) as [IH1 IH2]. split; [intros; apply IH1, Hm; assumption|].
      intros [|f] fam' me' Hf Hme Hn k Hk; cbn [nth_error] in Hf, Hme.
      + inversion Hf; inversion Hme; subst fam' me'. apply IH1. subst d1. rewrite Hn. apply (hk_create_in F fzero). exact Hk.
      + apply (IH2 f fam' me' Hf Hme Hn k Hk).
  Qed.

  (* when the cells of the unlabelled metrics of the class are already there, the files of the class do not change *)
  Lemma init_noop_q : forall (fams : list shape) metas d,
    (forall f fam me, nth_error fams f = Some fam -> nth_error metas f = Some me -> Q (fam_file fam me p) = true ->
       is_nil (f_labelnames fam) = true -> forall k, In k (cell_keys fam me []) -> has_key d (fam_file fam me p) k) ->
    rq (mp_init_fs p fams metas d) = rq d.
  Proof.
    induction fams as [|fam fams IH]; intros [|me metas] d H; cbn [Equiv.mp_init_fs]; try reflexivity.
    destruct (is_nil (f_labelnames fam)) eqn:En.
    - destruct (Q (fam_file fam me p)) eqn:HQ.
      + rewrite (create_noop F fzero); [|intros k Hk; apply (H O fam me eq_refl eq_refl HQ En k Hk)].
        apply IH. intros f fam' me' Hf Hme. apply (H (S f) fam' me' Hf Hme).
      + rewrite IH; [apply (createq_other F fzero Q _ _ HQ)|].
        intros f fam' me' Hf Hme HQ' Hn k Hk. apply (hk_create F fzero). apply (H (S f) fam' me' Hf Hme HQ' Hn k Hk).
    - apply IH. intros f fam' me' Hf Hme. apply (H (S f) fam' me' Hf Hme).
  Qed.
End InitQ.




Lemma str_eqb_app_tail (a b t : str) : str_eqb (a ++ t) (b ++ t) = str_eqb a b.
Proof.
  apply eq_true_iff_eq. rewrite !str_eqb_eq. split; [apply app_inv_tail|intros ->; reflexivity].
Qed.

Lemma dead_name_prefix p pre : dead_name p (fname_str (pre, p)) = live_prefix pre.
Proof.
  unfold dead_name, live_prefix, fname_str. cbn [fst snd]. induction Multiproc.LIVE_MODES as [|m l IH]; [reflexivity|].
  cbn [map mem_str]. rewrite IH. f_equal. unfold Multiproc.gauge_fname.
  replace (Multiproc.S_gauge ++ [Multiproc.US] ++ m ++ [Multiproc.US] ++ p ++ Multiproc.S_db)
    with ((Multiproc.S_gauge ++ Multiproc.US :: m) ++ Multiproc.US :: p ++ Multiproc.S_db)
    by (rewrite <- !app_assoc; reflexivity).
  apply str_eqb_app_tail.
Qed.

Lemma filter_andb {A} (f g : A -> bool) l : filter (fun x => f x && g x) l = filter g (filter f l).
Proof.
  induction l as [|a l IH]; [reflexivity|]. cbn [filter]. destruct (f a); cbn [andb filter]; [destruct (g a); rewrite IH; reflexivity|exact IH].
Qed.

Section Reuse.
  Variable F : Type.
  Variables fzero fone : F.
  Variable fadd : F -> F -> F.
  Variable fneg : F -> F.
  Variables flt fle feqb : F -> F -> bool.
  Variable of_Z : Z -> res F.
  Variable zlef : Z -> F -> bool.
  Variable fmt_le : F -> str.
  Variable fams0 : mregistry F.
  Variable metas : list fmeta.
  Variable p : str.
  Variable b : bool.          (* the class: live-mode gauge files (true) / all other files (false) of pid p *)

  Notation fams := (map (shape_of F) fams0).
  Notation fs := (Values.fs F).
  Notation rp := (fs_of_pid F).
  Notation mp_step := (mp_step F fzero fone fadd fneg flt fle feqb of_Z zlef fmt_le).
  Notation mp_init_fs := (mp_init_fs F fzero fmt_le).
  Notation mh_step := (mh_step F fzero fone fadd fneg flt fle feqb of_Z zlef fmt_le fams metas).
  Notation run := (mp_run_multi F fzero fone fadd fneg flt fle feqb of_Z zlef fmt_le fams metas).
  Notation MP ops := (mp_run F fzero fone fadd fneg flt fle feqb of_Z zlef fmt_le metas p (mp_init F fzero fmt_le metas p fams0) ops).
  Notation strip := (strip F).
  Notation has_key := (has_key F).
  Let seq_eq := str_eqb_eq.

  Definition Qc (fn : Values.fname) : bool := str_eqb (snd fn) p && Bool.eqb (live_prefix (fst fn)) b.
  Notation rq := (rq F Qc).
  Notation covered := (covered F fmt_le Qc p metas).

  Hypothesis Hfresh : forall fam, In fam fams0 -> f_children fam = [].

  Lemma rq_rp d : rq d = filter (fun fc : Values.fname * Values.content F => Bool.eqb (live_prefix (fst (fst fc))) b) (rp p d).
  Proof. unfold rq, Qc, fs_of_pid. apply filter_andb. Qed.

  Lemma rq_of_rp d d' : rp p d = rp p d' -> rq d = rq d'.
  Proof. intro H. rewrite !rq_rp, H. reflexivity. Qed.

  Lemma Qc_pid fn : Qc fn = true -> snd fn = p.
  Proof. unfold Qc. intro H. apply andb_true_iff in H as [H _]. apply str_eqb_eq in H. exact H. Qed.

  Lemma hk_of_rp d d' fn k : Qc fn = true -> rp p d = rp p d' -> has_key d fn k -> has_key d' fn k.
  Proof.
    intros HQ H. pose proof (Qc_pid fn HQ) as Hp. destruct fn as [pre q]. cbn [snd] in Hp. subst q.
    unfold has_key, Values.fs_cell. rewrite <- (rp_content F p d pre), <- (rp_content F p d' pre), H. tauto.
  Qed.

  Lemma covered_of_rp sh d d' : rp p d = rp p d' -> covered sh d -> covered sh d'.
  Proof.
    intros H Hc f fam me Hf Hme HQ. destruct (Hc f fam me Hf Hme HQ) as [H1 H2]. split.
    - intros Hn k Hk. apply (hk_of_rp d d' _ k HQ H). apply H1; assumption.
    - intros lv Hlv k Hk. apply (hk_of_rp d d' _ k HQ H). apply (H2 lv); assumption.
  Qed.

  (* ----- the isolated single-process run ----- *)
  Lemma fams_strip_children : forall fam, In fam fams -> f_children fam = [].
  Proof. intros fam H. apply in_map_iff in H as [fam0 [<- H0]]. cbn. rewrite (Hfresh fam0 H0). reflexivity. Qed.

  Lemma covered_fresh (sh : list (shape F)) d : (forall fam, In fam sh -> f_children fam = []) ->
    (forall f fam me, nth_error sh f = Some fam -> nth_error metas f = Some me -> is_nil (f_labelnames fam) = true ->
       forall k, In k (cell_keys F fmt_le fam me []) -> has_key d (fam_file F fam me p) k) ->
    covered sh d.
  Proof.
    intros Hch H f fam me Hf Hme HQ. split; [intros Hn k Hk; apply (H f fam me Hf Hme Hn k Hk)|].
    intros lv Hlv. rewrite (Hch fam (nth_error_In _ _ Hf)) in Hlv. contradiction.
  Qed.

  Lemma iso_init : covered fams (p_fs F (MP [])).
  Proof.
    cbn. apply covered_fresh; [apply fams_strip_children|].
    intros f fam me Hf Hme Hn k Hk. destruct (init_keys F fzero fmt_le p fams metas []) as [_ H]. apply (H f fam me Hf Hme Hn k Hk).
  Qed.

  Lemma mp_eta (s : mp F) : s = mkMp F (p_shape F s) (p_fs F s).
  Proof. destruct s; reflexivity. Qed.

  Lemma iso_ok ops : map strip (p_shape F (MP ops)) = map strip fams /\ covered (p_shape F (MP ops)) (p_fs F (MP ops)).
  Proof.
    induction ops as [|[now o] ops IH] using rev_ind; [split; [reflexivity|exact iso_init]|].
    rewrite (mp_run_snoc F fzero fone fadd fneg flt fle feqb of_Z zlef fmt_le metas p). destruct IH as [IH1 IH2].
    rewrite (mp_eta (MP ops)).
    destruct (step_canon F fzero fone fadd fneg flt fle feqb of_Z zlef fmt_le Qc p metas _ _ now o IH2) as (_ & _ & H3 & H4).
    split; [rewrite H3; exact IH1|exact H4].
  Qed.

  (* ----- the invariant of the multi-process run, seen from pid p and the class ----- *)
  Definition osrc (l : life2 F) := if b then l_live F l else l_all F l.
  Definition J (l : life2 F) (s : mh F) : Prop :=
    match osrc l with
    | None => rq (h_fs F s) = []
    | Some ops => rq (h_fs F s) = rq (p_fs F (MP ops))
    end
    /\ (if l_alive F l
        then exists sh, d_find str_eqb (h_procs F s) p = Some sh /\ map strip sh = map strip fams /\ covered sh (h_fs F s) /\ osrc l <> None
        else d_find str_eqb (h_procs F s) p = None)
    /\ procs_ok F s.

  Lemma nth_strip_eq (sh sh' : list (shape F)) f fam : map strip sh = map strip sh' -> nth_error sh f = Some fam ->
    exists fam', nth_error sh' f = Some fam' /\ strip fam' = strip fam.
  Proof.
    intros E Hf. assert (H : nth_error (map strip sh) f = Some (strip fam)) by (rewrite MetricsProofs.nth_error_map', Hf; reflexivity).
    rewrite E, MetricsProofs.nth_error_map' in H. destruct (nth_error sh' f) as [fam'|]; [|discriminate].
    exists fam'. split; [reflexivity|]. cbn in H. congruence.
  Qed.

  Lemma strip_file (fam fam' : shape F) me : strip fam' = strip fam -> fam_file F fam' me p = fam_file F fam me p.
  Proof. intro E. change (fam_file F (strip fam') me p = fam_file F (strip fam) me p). rewrite E. reflexivity. Qed.
  Lemma strip_keys (fam fam' : shape F) me lv : strip fam' = strip fam -> cell_keys F fmt_le fam' me lv = cell_keys F fmt_le fam me lv.
  Proof. intro E. change (cell_keys F fmt_le (strip fam') me lv = cell_keys F fmt_le (strip fam) me lv). rewrite E. reflexivity. Qed.
  Lemma strip_names (fam fam' : shape F) : strip fam' = strip fam -> f_labelnames fam' = f_labelnames fam.
  Proof. intro E. change (f_labelnames (strip fam') = f_labelnames (strip fam)). rewrite E. reflexivity. Qed.

  (* the cells of the unlabelled metrics of the class are in the directory of the isolated run *)
  Lemma iso_unlabelled ops f fam me : nth_error fams f = Some fam -> nth_error metas f = Some me ->
    Qc (fam_file F fam me p) = true -> is_nil (f_labelnames fam) = true ->
    forall k, In k (cell_keys F fmt_le fam me []) -> has_key (p_fs F (MP ops)) (fam_file F fam me p) k.
  Proof.
    intros Hf Hme HQ Hn k Hk. destruct (iso_ok ops) as [E Hc].
    destruct (nth_strip_eq fams (p_shape F (MP ops)) f fam (eq_sym E) Hf) as (fam' & Hf' & Es).
    destruct (Hc f fam' me Hf' Hme) as [H1 _]; [rewrite (strip_file fam fam' me Es); exact HQ|].
    rewrite <- (strip_file fam fam' me Es). apply H1; [rewrite (strip_names fam fam' Es); exact Hn|].
    rewrite (strip_keys fam fam' me [] Es). exact Hk.
  Qed.

  Lemma dead_class d : rq (fs_mark_dead F p d) = if b then [] else rq d.
  Proof.
    unfold rq, fs_mark_dead. rewrite <- filter_andb.
    rewrite (filter_ext _ (fun fc : Values.fname * Values.content F => Qc (fst fc) && negb b)).
    - destruct b; [apply filter_nil_all; intros; apply andb_false_r|apply filter_ext; intro; apply andb_true_r].
    - intros [[pre q] c]. unfold Qc. cbn [fst snd]. destruct (str_eqb q p) eqn:E; [|rewrite andb_false_r; reflexivity].
      apply str_eqb_eq in E; subst q. rewrite dead_name_prefix. cbn [andb]. destruct (live_prefix pre), b; reflexivity.
  Qed.

  Hypothesis Hp : ~ In Multiproc.US p.

  Lemma J_step l s st : ~ In Multiproc.US (hpid F st) -> J l s -> J (life2_step F p l st) (fst (mh_step s st)).
  Proof.
    intros Hu (Hd & Ha & Hok). unfold life2_step. destruct (str_eqb (hpid F st) p) eqn:E.
    2:{ (* a step of another pid *)
        apply str_eqb_neq in E.
        assert (HR : Rel F p s (mkMH F (h_procs F s) (rp p (h_fs F s)))) by (split; reflexivity).
        pose proof (step_frame F fzero fone fadd fneg flt fle feqb of_Z zlef fmt_le fams metas p s _ st E Hp Hu HR) as [Hfs Hpr].
        cbn [h_fs h_procs] in Hfs, Hpr.
        split; [|split; [|apply step_procs_ok; exact Hok]].
        - rewrite (rq_of_rp _ _ Hfs). exact Hd.
        - destruct (l_alive F l); [|rewrite Hpr; exact Ha]. destruct Ha as (sh & H1 & H2 & H3 & H4).
          exists sh. rewrite Hpr. split; [exact H1|split; [exact H2|split; [|exact H4]]].
          apply (covered_of_rp sh (h_fs F s)); [symmetry; exact Hfs|exact H3]. }
    apply str_eqb_eq in E. destruct st as [q|q now o|q]; cbn [hpid] in E; subst q.
    - (* start *)
      cbn [MultiHist.mh_step fst]. unfold J. cbn [h_fs h_procs l_alive]. split; [|split].
      + unfold osrc in *. cbn [l_all l_live]. rewrite (init_resp F fzero fmt_le Qc p).
        destruct (if b then l_live F l else l_all F l) as [ops|] eqn:Eo.
        * assert (Eo' : (if b then or_nil (l_live F l) else or_nil (l_all F l)) = Some ops) by (destruct b; rewrite Eo; reflexivity).
          rewrite Eo', Hd. rewrite <- (init_resp F fzero fmt_le Qc p).
          apply (init_noop_q F fzero fmt_le Qc p). intros f fam me Hf Hme HQ Hn k Hk. apply (iso_unlabelled ops f fam me Hf Hme HQ Hn k Hk).
        * assert (Eo' : (if b then or_nil (l_live F l) else or_nil (l_all F l)) = Some []) by (destruct b; rewrite Eo; reflexivity).
          rewrite Eo', Hd. reflexivity.
      + exists fams. rewrite (df_set str_eqb seq_eq), str_eqb_refl. split; [reflexivity|split; [reflexivity|split]].
        * apply covered_fresh; [apply fams_strip_children|]. intros f fam me Hf Hme Hn k Hk.
          destruct (init_keys F fzero fmt_le p fams metas (h_fs F s)) as [_ H]. apply (H f fam me Hf Hme Hn k Hk).
        * unfold osrc. cbn [l_all l_live]. destruct b; [destruct (l_live F l)|destruct (l_all F l)]; discriminate.
      + apply (ds_NoDup str_eqb seq_eq). exact Hok.
    - (* call *)
      destruct (l_alive F l) eqn:Eal.
      2:{ cbn [MultiHist.mh_step]. rewrite Ha. cbn [fst]. unfold J. rewrite Eal. split; [exact Hd|split; [exact Ha|exact Hok]]. }
      destruct Ha as (sh & H1 & H2 & H3 & H4). cbn [MultiHist.mh_step]. rewrite H1.
      destruct (osrc l) as [ops|] eqn:Eo; [|contradiction].
      destruct (iso_ok ops) as [I1 I2].
      destruct (step_canon F fzero fone fadd fneg flt fle feqb of_Z zlef fmt_le Qc p metas sh (h_fs F s) now o H3) as (_ & C2 & C3 & C4).
      pose proof (step_canon F fzero fone fadd fneg flt fle feqb of_Z zlef fmt_le Qc p metas _ _ now o I2) as (_ & D2 & _ & _).
      rewrite <- (mp_eta (MP ops)) in D2. rewrite <- (mp_run_snoc F fzero fone fadd fneg flt fle feqb of_Z zlef fmt_le metas p) in D2.
      rewrite I1, <- H2, <- Hd in D2.
      destruct (mp_step metas p (mkMp F sh (h_fs F s)) now o) as [r out]. cbn [fst p_fs p_shape] in *.
      unfold J. cbn [h_fs h_procs l_alive]. split; [|split].
      + assert (Eo' : osrc (mkL2 F (snoc_opt (l_all F l) (now, o)) (snoc_opt (l_live F l) (now, o)) true) = Some (ops ++ [(now, o)])).
        { unfold osrc in *. cbn [l_all l_live]. destruct b; rewrite Eo; reflexivity. }
        rewrite Eo'. rewrite C2, D2. reflexivity.
      + exists (p_shape F r). rewrite (df_set str_eqb seq_eq), str_eqb_refl. split; [reflexivity|split; [congruence|split; [exact C4|]]].
        unfold osrc in *. cbn [l_all l_live]. destruct b; rewrite Eo; discriminate.
      + apply (ds_NoDup str_eqb seq_eq). exact Hok.
    - (* dead *)
      cbn [MultiHist.mh_step fst]. unfold J. cbn [h_fs h_procs l_alive]. split; [|split].
      + rewrite dead_class. unfold osrc in *. cbn [l_all l_live]. destruct b; [reflexivity|exact Hd].
      + apply (df_remove_same str_eqb seq_eq). exact Hok.
      + apply (dr_NoDup str_eqb). exact Hok.
  Qed.

  (* ===== pid reuse included: the files of pid p of the class after ANY multi-process history are the files of that
     class of the single-process run of `src_ops`: all calls ever made under that pid (other files) / the calls made
     since the pid was last marked dead (live-mode gauge files) ===== *)
  Theorem class_files steps : Forall (fun st => ~ In Multiproc.US (hpid F st)) steps ->
    rq (h_fs F (run (mh_init F) steps))
    = match src_ops F p b steps with Some ops => rq (p_fs F (MP ops)) | None => [] end.
  Proof.
    intro Hus.
    assert (G : forall sts l s, Forall (fun st => ~ In Multiproc.US (hpid F st)) sts -> J l s ->
                  J (fold_left (life2_step F p) sts l) (run s sts)).
    { induction sts as [|st sts IH]; intros l s Hu HJ; [exact HJ|]. inversion Hu; subst.
      unfold mp_run_multi. cbn [fold_left]. apply IH; [assumption|]. apply J_step; assumption. }
    destruct (G steps (mkL2 F None None false) (mh_init F) Hus) as [H _].
    - unfold J, osrc. cbn [l_all l_live l_alive]. destruct b; (split; [reflexivity|split; [reflexivity|constructor]]).
    - unfold src_ops, life2_of. unfold osrc in H. destruct b.
      + destruct (l_live F _); exact H.
      + destruct (l_all F _); exact H.
  Qed.
End Reuse.
