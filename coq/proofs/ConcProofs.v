(* C02 - proofs about the interleaving semantics of model/Conc.v *)
From V Require Import lib.PyBase lib.Tac model.Conc.
Ltac Zify.zify_post_hook ::= Z.to_euclidean_division_equations.
Open Scope N_scope.

Ltac bsplit :=
  repeat match goal with
         | H : _ && _ = true |- _ => apply andb_prop in H; destruct H
         end.

(* ---------- decidable equalities ---------- *)
Lemma loc_eqb_eq a b : loc_eqb a b = true <-> a = b.
Proof.
  destruct a, b; simpl; split; intro H; try discriminate;
    try (apply N.eqb_eq in H; subst; reflexivity);
    try (injection H as ->; apply N.eqb_refl);
    try (apply andb_prop in H as [E1 E2]; apply N.eqb_eq in E1, E2; subst; reflexivity);
    try (injection H as -> ->; rewrite !N.eqb_refl; reflexivity).
Qed.
Lemma loc_eqb_refl a : loc_eqb a a = true. Proof. apply loc_eqb_eq; reflexivity. Qed.
Lemma loc_eqb_neq a b : loc_eqb a b = false <-> a <> b.
Proof.
  split; intro H.
  - intro E; apply loc_eqb_eq in E; congruence.
  - destruct (loc_eqb a b) eqn:E; [apply loc_eqb_eq in E; contradiction|reflexivity].
Qed.
Lemma lock_eqb_eq a b : lock_eqb a b = true <-> a = b.
Proof.
  destruct a, b; simpl; split; intro H; try discriminate;
    try (apply N.eqb_eq in H; subst; reflexivity);
    try (injection H as ->; apply N.eqb_refl);
    try (apply andb_prop in H as [E1 E2]; apply N.eqb_eq in E1, E2; subst; reflexivity);
    try (injection H as -> ->; rewrite !N.eqb_refl; reflexivity).
Qed.
Lemma lock_eqb_refl a : lock_eqb a a = true. Proof. apply lock_eqb_eq; reflexivity. Qed.
Lemma lock_eqb_neq a b : lock_eqb a b = false <-> a <> b.
Proof.
  split; intro H.
  - intro E; apply lock_eqb_eq in E; congruence.
  - destruct (lock_eqb a b) eqn:E; [apply lock_eqb_eq in E; contradiction|reflexivity].
Qed.
Lemma kref_eqb_eq a b : kref_eqb a b = true <-> a = b.
Proof.
  destruct a, b; simpl; split; intro H; try discriminate;
    try (apply N.eqb_eq in H; subst; reflexivity);
    try (injection H as ->; apply N.eqb_refl);
    try (apply andb_prop in H as [E1 E2]; apply N.eqb_eq in E1, E2; subst; reflexivity);
    try (injection H as -> ->; rewrite !N.eqb_refl; reflexivity).
Qed.
Lemma lref_eqb_eq a b : lref_eqb a b = true <-> a = b.
Proof.
  destruct a, b; simpl; split; intro H; try discriminate;
    try (apply N.eqb_eq in H; subst; reflexivity);
    try (injection H as ->; apply N.eqb_refl);
    try (apply andb_prop in H as [E1 E2]; apply N.eqb_eq in E1, E2; subst; reflexivity);
    try (injection H as -> ->; rewrite !N.eqb_refl; reflexivity).
Qed.
Lemma mem_kref_In k h : mem_kref k h = true <-> In k h.
Proof.
  induction h as [|x h IH]; simpl; [split; [discriminate|tauto]|].
  rewrite orb_true_iff, IH, kref_eqb_eq. split; intros [H|H]; auto.
Qed.

Lemma updf_same {A B} (eqb : A -> A -> bool) (f : A -> B) a b :
  eqb a a = true -> updf eqb f a b a = b.
Proof. unfold updf; intros ->; reflexivity. Qed.
Lemma updf_other {A B} (eqb : A -> A -> bool) (f : A -> B) a b x :
  eqb x a = false -> updf eqb f a b x = f x.
Proof. unfold updf; intros ->; reflexivity. Qed.

(* registers not used by a held dynamic lock can be overwritten without changing what is held *)
Lemma res_lock_upd rg r v k : kref_uses r k = false -> res_lock (updf N.eqb rg r v) k = res_lock rg k.
Proof.
  destruct k as [n|s j]; simpl; [reflexivity|]. intro H.
  unfold updf. rewrite N.eqb_sym, H. reflexivity.
Qed.
Lemma map_res_lock_upd rg r v h :
  held_uses r h = false -> map (res_lock (updf N.eqb rg r v)) h = map (res_lock rg) h.
Proof.
  induction h as [|k h IH]; simpl; [reflexivity|]. intro H.
  apply orb_false_elim in H as [H1 H2]. rewrite res_lock_upd, IH; auto.
Qed.
Lemma res_loc_upd rg r v x : lref_uses r x = false -> res_loc (updf N.eqb rg r v) x = res_loc rg x.
Proof.
  destruct x as [n|s j]; simpl; [reflexivity|]. intro H.
  unfold updf. rewrite N.eqb_sym, H. reflexivity.
Qed.

(* ---------- the boolean discipline check: fuel monotonicity and sequencing ---------- *)
Section WfLemmas.
  Variable D : discipline.

  Lemma wf_mono f : forall f' h ld ms code, wf D f h ld ms code = true -> (f <= f')%nat -> wf D f' h ld ms code = true.
  Proof.
    induction f as [|f IH]; intros f' h ld ms code H Hle; [discriminate|].
    destruct f' as [|f']; [lia|]. assert (Hle' : (f <= f')%nat) by lia.
    destruct code as [|i rest]; [exact H|].
    simpl in H |- *.
    destruct i; try (bsplit; repeat (apply andb_true_intro; split); eauto; fail).
    - destruct h as [|k' h']; [discriminate|]. bsplit. apply andb_true_intro; split; eauto.
    - destruct h; [|discriminate]. destruct ld; [discriminate|]. destruct ms; try discriminate.
      bsplit. apply andb_true_intro; split; eauto.
    - destruct h; [|discriminate]. destruct ld; [discriminate|]. destruct ms; try discriminate. eauto.
  Qed.

  Lemma wf_app f1 : forall f2 h ld ms a b,
    wf D f1 h ld ms a = true -> wf D f2 [] None MNone b = true -> wf D (f1 + f2) h ld ms (a ++ b) = true.
  Proof.
    induction f1 as [|f1 IH]; intros f2 h ld ms a b Ha Hb; [discriminate|].
    destruct a as [|i rest].
    - simpl in Ha. destruct h; [|discriminate]. destruct ld; [discriminate|]. destruct ms; try discriminate.
      simpl app. eapply wf_mono; [exact Hb|lia].
    - change ((S f1 + f2)%nat) with (S (f1 + f2)). simpl app. simpl in Ha |- *.
      destruct i; try (bsplit; repeat (apply andb_true_intro; split); eauto; fail).
      + destruct h as [|k' h']; [discriminate|]. bsplit. apply andb_true_intro; split; eauto.
      + bsplit. repeat (apply andb_true_intro; split); eauto.
        * apply Nat.leb_le. apply Nat.leb_le in H. rewrite app_length. lia.
        * apply Nat.leb_le in H. rewrite skipn_app.
          replace (n - length rest)%nat with O by lia. simpl. eauto.
      + destruct h; [|discriminate]. destruct ld; [discriminate|]. destruct ms; try discriminate.
        bsplit. apply andb_true_intro; split; eauto.
      + destruct h; [|discriminate]. destruct ld; [discriminate|]. destruct ms; try discriminate. eauto.
  Qed.
End WfLemmas.

Section Pure.
  Variable h0 : loc -> Z.
  Lemma cur_sum x tr : only_incs x tr -> cur h0 x tr = (h0 x + sum_incs x tr)%Z.
  Proof.
    induction tr as [|ev tr IH]; simpl; [intros _; lia|].
    destruct ev; auto. destruct u as [z|a]; simpl.
    - intros [E Ho]. rewrite E. auto.
    - intro Ho. destruct (loc_eqb x0 x); [rewrite IH by exact Ho; simpl; lia|auto].
  Qed.

  Lemma cur_mono x a : forall b, only_incs x (a ++ b) -> nonneg_incs x (a ++ b) ->
    (cur h0 x b <= cur h0 x (a ++ b))%Z.
  Proof.
    induction a as [|ev a IH]; intros b Ho Hn; simpl in *; [lia|].
    destruct ev; auto. destruct u as [z|d]; simpl in *.
    - destruct Ho as [E Ho]. rewrite E. auto.
    - destruct Hn as [Hd Hn]. destruct (loc_eqb x0 x) eqn:E; [|auto].
      specialize (IH b Ho Hn). specialize (Hd eq_refl). simpl. lia.
  Qed.

  Lemma loads_ok_app a : forall b, loads_ok h0 (a ++ b) -> loads_ok h0 b.
  Proof. induction a as [|ev a IH]; intros b H; simpl in *; [exact H|]. destruct ev; try destruct H; auto. Qed.

  (* an older load of a counter cell never reports more than a newer one *)
  Lemma loads_monotone x tr2 tr1 tr0 t1 t2 v1 v2 :
    let tr := tr2 ++ EvLoad t2 x v2 :: tr1 ++ EvLoad t1 x v1 :: tr0 in
    loads_ok h0 tr -> only_incs x tr -> nonneg_incs x tr -> (v1 <= v2)%Z.
  Proof.
    intros tr Hl Ho Hn. subst tr.
    assert (Hsuf : forall a b, only_incs x (a ++ b) -> only_incs x b).
    { induction a as [|ev a IH]; intros b H; simpl in *; [exact H|]. destruct ev; auto. destruct u; [destruct H|]; auto. }
    assert (Hsufn : forall a b, nonneg_incs x (a ++ b) -> nonneg_incs x b).
    { induction a as [|ev a IH]; intros b H; simpl in *; [exact H|]. destruct ev; auto. destruct u; [|destruct H]; auto. }
    apply loads_ok_app in Hl. apply Hsuf in Ho. apply Hsufn in Hn.
    simpl in Hl. destruct Hl as [E2 Hl]. simpl in Ho, Hn.
    pose proof (loads_ok_app _ _ Hl) as Hl1. simpl in Hl1. destruct Hl1 as [E1 _].
    subst v1 v2.
    replace (tr1 ++ EvLoad t1 x (cur h0 x tr0) :: tr0) with ((tr1 ++ [EvLoad t1 x (cur h0 x tr0)]) ++ tr0) in *
      by (rewrite <- app_assoc; reflexivity).
    apply cur_mono; assumption.
  Qed.

End Pure.

(* ---------- the invariant ---------- *)
Section Inv.
  Variable bodies : N -> list instr.
  Variable D : discipline.
  Variable owner : loc -> lock.          (* the lock that guards a cell, semantically *)
  Variable rank : lock -> N.
  Variable maxrank : N.
  Hypothesis owner_coh : forall rg x k, owner_ref D x = Some k -> res_lock rg k = owner (res_loc rg x).
  Hypothesis rank_coh : forall rg k, rank (res_lock rg k) = krank D k.
  Hypothesis rank_bound : forall l, rank l <= maxrank.
  Hypothesis bodies_wf : forall b, exists f, wf D f [] None MNone (bodies b) = true.
  Variable h0 : loc -> Z.

  Definition tlock (tb : tbl) : lock := KStat (towner D tb).
  Definition look (tabs : tbl -> list (key * N)) (tb : tbl) (k : key) : val :=
    match d_find N.eqb (tabs tb) k with Some v => VId v | None => VNone end.

  Definition ld_sem (hp : loc -> Z) (th : thread) (ld : ldfact) : Prop :=
    match ld with
    | None => True
    | Some (r, x) => regs th r = VInt (hp (res_loc (regs th) x)) /\ In (owner (res_loc (regs th) x)) (held th)
    end.
  Definition ms_sem (tabs : tbl -> list (key * N)) (th : thread) (ms : msfact) : Prop :=
    match ms with
    | MNone => True
    | MLooked r tb k => regs th r = look tabs tb k /\ In (tlock tb) (held th)
    | MMissing tb k => d_find N.eqb (tabs tb) k = None /\ In (tlock tb) (held th)
    end.
  Definition thr_inv (hp : loc -> Z) (tabs : tbl -> list (key * N)) (th : thread) : Prop :=
    exists f h ld ms, wf D f h ld ms (code th) = true /\ map (res_lock (regs th)) h = held th
                      /\ ld_sem hp th ld /\ ms_sem tabs th ms.
  Definition lock_inv (lk : lock -> option nat) (thr : nat -> thread) : Prop :=
    (forall l t, lk l = Some t <-> In l (held (thr t))) /\ (forall t, NoDup (held (thr t))).
  Definition heap_inv (c : config) : Prop :=
    (forall x, heap c x = cur h0 x (trace c)) /\ loads_ok h0 (trace c).
  Definition calls_ok (tr : list event) : Prop := forall t cid hl, In (EvCall t cid hl) tr -> hl = [].
  (* tables are the fold of the recorded writes; insertions into create-only tables found the key absent *)
  Variable tb0 : tbl -> list (key * N).
  Fixpoint tab_hist (tb : tbl) (tr : list event) : list (key * N) :=
    match tr with
    | [] => tb0 tb
    | EvTWrite _ tb' w :: older =>
        if N.eqb tb tb' then
          match w with
          | WIns k v => d_set N.eqb (tab_hist tb older) k v
          | WDel k => d_remove N.eqb (tab_hist tb older) k
          | WClear => []
          end
        else tab_hist tb older
    | _ :: older => tab_hist tb older
    end.
  Fixpoint ins_fresh (tr : list event) : Prop :=
    match tr with
    | [] => True
    | EvTWrite _ tb (WIns k _) :: older =>
        (create_only D tb = true -> d_find N.eqb (tab_hist tb older) k = None) /\ ins_fresh older
    | _ :: older => ins_fresh older
    end.
  Fixpoint lookups_ok (tr : list event) : Prop :=
    match tr with
    | [] => True
    | EvLookup _ tb k res :: older => res = d_find N.eqb (tab_hist tb older) k /\ lookups_ok older
    | _ :: older => lookups_ok older
    end.
  Definition tab_inv (c : config) : Prop :=
    (forall tb, tabs c tb = tab_hist tb (trace c)) /\ ins_fresh (trace c) /\ lookups_ok (trace c).

  Definition Inv (c : config) : Prop :=
    lock_inv (locks c) (thr c) /\ (forall t, thr_inv (heap c) (tabs c) (thr c t)) /\ heap_inv c /\ calls_ok (trace c)
    /\ tab_inv c.

  Lemma mutex lk thr l t t' : lock_inv lk thr -> In l (held (thr t)) -> In l (held (thr t')) -> t = t'.
  Proof. intros [H _] A B. apply H in A, B. congruence. Qed.

  Lemma other_inv lk thr t t' hp hp' tabs tabs' :
    lock_inv lk thr -> t' <> t ->
    (forall a, ~ In (owner a) (held (thr t)) -> hp' a = hp a) ->
    (forall tb, ~ In (tlock tb) (held (thr t)) -> tabs' tb = tabs tb) ->
    thr_inv hp tabs (thr t') -> thr_inv hp' tabs' (thr t').
  Proof.
    intros HL Hne Hh Ht (f & h & ld & ms & Hwf & Hheld & Hld & Hms).
    exists f, h, ld, ms. repeat split; auto.
    - destruct ld as [[r x]|]; [|exact I]. destruct Hld as [A B]. split; auto.
      rewrite Hh; auto. intro C. apply Hne. eapply mutex; eauto.
    - destruct ms as [|r tb k|tb k]; [exact I| |]; destruct Hms as [A B]; split; auto.
      + unfold look in *. rewrite Ht; auto. intro C. apply Hne. eapply mutex; eauto.
      + rewrite Ht; auto. intro C. apply Hne. eapply mutex; eauto.
  Qed.

  Lemma lock_inv_same lk thr thr' :
    (forall t, held (thr' t) = held (thr t)) -> lock_inv lk thr -> lock_inv lk thr'.
  Proof. intros E [A B]. split; intros; rewrite E; auto. Qed.

  Lemma set_thr_held c t th t' :
    held th = held (thr c t) -> held (set_thr c t th t') = held (thr c t').
  Proof.
    intro E. unfold set_thr, updf. destruct (Nat.eqb t' t) eqn:Et; [|reflexivity].
    apply Nat.eqb_eq in Et; subst; exact E.
  Qed.
  Lemma set_thr_same c t th : set_thr c t th t = th.
  Proof. unfold set_thr, updf. rewrite Nat.eqb_refl. reflexivity. Qed.
  Lemma set_thr_other c t th t' : t' <> t -> set_thr c t th t' = thr c t'.
  Proof. intro H. unfold set_thr, updf. apply Nat.eqb_neq in H. rewrite H. reflexivity. Qed.

  Lemma guards_held rg h x : guards D h x = true ->
    In (owner (res_loc rg x)) (map (res_lock rg) h).
  Proof.
    unfold guards. destruct (owner_ref D x) as [k|] eqn:E; [|discriminate]. intro H.
    apply mem_kref_In in H. rewrite <- (owner_coh rg x k E). apply in_map; exact H.
  Qed.
  Lemma tguard_held rg h tb : tguard D h tb = true -> In (tlock tb) (map (res_lock rg) h).
  Proof.
    unfold tguard. intro H. apply mem_kref_In in H.
    change (tlock tb) with (res_lock rg (SLock (towner D tb))). apply in_map; exact H.
  Qed.

  Lemma ld_sem_kill hp rg r v hd ld cd cd' :
    ld_sem hp (mkThread cd rg hd) ld ->
    ld_sem hp (mkThread cd' (updf N.eqb rg r v) hd) (kill r ld).
  Proof.
    destruct ld as [[r' x]|]; simpl; [|auto]. intros [A B].
    destruct (N.eqb r r' || lref_uses r x) eqn:E; [exact I|].
    apply orb_false_elim in E as [E1 E2]. simpl.
    rewrite res_loc_upd by exact E2. split; [|exact B].
    unfold updf at 1. rewrite N.eqb_sym, E1. exact A.
  Qed.
  Lemma ms_sem_mkill tabs rg r v hd ms cd cd' :
    ms_sem tabs (mkThread cd rg hd) ms ->
    ms_sem tabs (mkThread cd' (updf N.eqb rg r v) hd) (mkill r ms).
  Proof.
    destruct ms as [|r' tb k|tb k]; simpl; auto.
    intros [A B]. destruct (N.eqb r r') eqn:E; [exact I|]. simpl. split; [|exact B].
    unfold updf. rewrite N.eqb_sym, E. exact A.
  Qed.
  Lemma ms_sem_code tabs cd cd' rg hd ms : ms_sem tabs (mkThread cd rg hd) ms -> ms_sem tabs (mkThread cd' rg hd) ms.
  Proof. destruct ms; simpl; auto. Qed.
  Lemma ld_sem_code hp cd cd' rg hd ld : ld_sem hp (mkThread cd rg hd) ld -> ld_sem hp (mkThread cd' rg hd) ld.
  Proof. destruct ld as [[? ?]|]; simpl; auto. Qed.

  Lemma others_inv c t th' hp' tabs' :
    lock_inv (locks c) (thr c) ->
    (forall a, ~ In (owner a) (held (thr c t)) -> hp' a = heap c a) ->
    (forall tb, ~ In (tlock tb) (held (thr c t)) -> tabs' tb = tabs c tb) ->
    (forall t', thr_inv (heap c) (tabs c) (thr c t')) ->
    thr_inv hp' tabs' th' -> forall t', thr_inv hp' tabs' (set_thr c t th' t').
  Proof.
    intros HL Hh Ht HT Hn t'. destruct (Nat.eq_dec t' t) as [->|Hne].
    - rewrite set_thr_same. exact Hn.
    - rewrite set_thr_other by exact Hne. eapply other_inv; eauto.
  Qed.

  Lemma lock_inv_keep c t th' :
    held th' = held (thr c t) -> lock_inv (locks c) (thr c) -> lock_inv (locks c) (set_thr c t th').
  Proof. intros E. apply lock_inv_same. intro t'. apply set_thr_held. exact E. Qed.

  Lemma lock_inv_acq c t k th' :
    lock_inv (locks c) (thr c) -> locks c k = None -> held th' = k :: held (thr c t) ->
    lock_inv (updf lock_eqb (locks c) k (Some t)) (set_thr c t th').
  Proof.
    intros [A B] Hn E. split.
    - intros l t'. unfold updf. destruct (lock_eqb l k) eqn:El.
      + apply lock_eqb_eq in El; subst l. destruct (Nat.eq_dec t' t) as [->|Hne].
        * rewrite set_thr_same, E. split; [left; reflexivity|reflexivity].
        * rewrite set_thr_other by exact Hne. split.
          -- intro H; inversion H; congruence.
          -- intro H. apply A in H. congruence.
      + apply lock_eqb_neq in El. destruct (Nat.eq_dec t' t) as [->|Hne].
        * rewrite set_thr_same, E. rewrite A. simpl. split; [auto|intros [H|H]; [congruence|auto]].
        * rewrite set_thr_other by exact Hne. apply A.
    - intro t'. destruct (Nat.eq_dec t' t) as [->|Hne].
      + rewrite set_thr_same, E. constructor; [|apply B]. intro H. apply A in H. congruence.
      + rewrite set_thr_other by exact Hne. apply B.
  Qed.

  Lemma lock_inv_rel c t k more th' :
    lock_inv (locks c) (thr c) -> held (thr c t) = k :: more -> held th' = more ->
    lock_inv (match locks c k with
              | Some o => if Nat.eqb o t then updf lock_eqb (locks c) k None else locks c
              | None => locks c end) (set_thr c t th').
  Proof.
    intros [A B] Hh E.
    assert (Hk : locks c k = Some t) by (apply A; rewrite Hh; left; reflexivity).
    rewrite Hk, Nat.eqb_refl.
    pose proof (B t) as Hnd. rewrite Hh in Hnd. apply NoDup_cons_iff in Hnd as [Hnin Hnd'].
    split.
    - intros l t'. unfold updf. destruct (lock_eqb l k) eqn:El.
      + apply lock_eqb_eq in El; subst l. split; [discriminate|]. intro H.
        destruct (Nat.eq_dec t' t) as [->|Hne].
        * rewrite set_thr_same, E in H. contradiction.
        * rewrite set_thr_other in H by exact Hne. apply A in H. congruence.
      + apply lock_eqb_neq in El. destruct (Nat.eq_dec t' t) as [->|Hne].
        * rewrite set_thr_same, E, A, Hh. simpl. split; [intros [H|H]; [congruence|auto]|auto].
        * rewrite set_thr_other by exact Hne. apply A.
    - intro t'. destruct (Nat.eq_dec t' t) as [->|Hne].
      + rewrite set_thr_same, E. exact Hnd'.
      + rewrite set_thr_other by exact Hne. apply B.
  Qed.

  Lemma loc_eqb_sym a b : loc_eqb a b = loc_eqb b a.
  Proof.
    destruct (loc_eqb a b) eqn:E.
    - apply loc_eqb_eq in E; subst. symmetry; apply loc_eqb_refl.
    - apply loc_eqb_neq in E. symmetry. apply loc_eqb_neq. congruence.
  Qed.

  Definition ev_ok (c : config) (ev : event) : Prop :=
    match ev with
    | EvLoad _ x v => v = heap c x
    | EvLookup _ tb k res => res = d_find N.eqb (tabs c tb) k
    | EvCall _ _ hl => hl = []
    | EvUpd _ _ _ | EvTWrite _ _ _ => False
    | _ => True
    end.

  (* a step that changes neither cells, tables nor locks *)
  Lemma pure_step c t th' n' evs :
    Inv c -> held th' = held (thr c t) -> thr_inv (heap c) (tabs c) th' ->
    (evs = [] \/ exists ev, evs = [ev] /\ ev_ok c ev) ->
    Inv (mkConfig (heap c) (tabs c) (locks c) (set_thr c t th') n' (evs ++ trace c)).
  Proof.
    intros (HL & HT & (HH1 & HH2) & HC & (HT1 & HT2 & HT3)) Hh Hn Hev.
    unfold Inv; simpl. split; [apply lock_inv_keep; auto|]. split; [apply others_inv; auto|].
    destruct Hev as [->|(ev & -> & Hok)]; simpl.
    - repeat split; auto.
    - unfold heap_inv, calls_ok, tab_inv; simpl.
      destruct ev; simpl in Hok |- *; try contradiction;
        (split; [split; [exact HH1| try (split; [rewrite <- HH1; exact Hok|]); exact HH2]|]);
        (split; [intros tq cq hlq [E|E]; [try discriminate; try (inversion E; subst; reflexivity)|eapply HC; eauto]|]);
        (split; [exact HT1|split; [exact HT2| try (split; [rewrite <- HT1; exact Hok|]); exact HT3]]).
  Qed.

  Lemma step_inv c t c' : Inv c -> step bodies t c = Some c' -> Inv c'.
  Proof.
    intros HI Hs. pose proof HI as (HL & HT & (HH1 & HH2) & HC & (HT1 & HT2 & HT3)).
    unfold step in Hs.
    destruct (HT t) as (f & h & ld & ms & Hwf & Hheld & Hld & Hms).
    destruct (thr c t) as [cd rg hd] eqn:Hthr. simpl in Hs, Hwf, Hheld.
    destruct cd as [|i rest]; [discriminate|].
    destruct f as [|f]; [discriminate|]. simpl in Hwf.
    assert (Hhd : held (thr c t) = hd) by (rewrite Hthr; reflexivity).
    destruct i.
    - (* Acq *)
      destruct (locks c (res_lock rg l)) eqn:Hfree; [discriminate|]. inversion Hs; subst c'; clear Hs.
      bsplit. unfold Inv; simpl.
      split; [apply lock_inv_acq; auto; simpl; congruence|].
      split; [apply others_inv; auto|].
      + exists f, (l :: h), ld, ms. simpl. repeat split; auto.
        * congruence.
        * destruct ld as [[r x]|]; simpl in *; [|exact I]. destruct Hld; split; auto.
        * destruct ms; simpl in *; auto; destruct Hms; split; auto.
      + repeat split; auto. intros t0 c0 hl0 [E|E]; [discriminate|eapply HC; eauto].
    - (* Rel *)
      destruct h as [|k' h']; [discriminate|]. bsplit. apply kref_eqb_eq in H; subst k'.
      simpl in Hheld. inversion Hs; subst c'; clear Hs.
      assert (Hrm : remove_lock (res_lock rg l) hd = map (res_lock rg) h').
      { rewrite <- Hheld. simpl. rewrite lock_eqb_refl. reflexivity. }
      unfold Inv; simpl.
      split; [apply (lock_inv_rel c t (res_lock rg l) (map (res_lock rg) h')); [exact HL|rewrite Hhd; symmetry; exact Hheld|simpl; exact Hrm]|].
      split; [apply others_inv; auto|].
      + exists f, h', (ld_keep D h' ld), (ms_keep D h' ms). simpl. rewrite Hrm. repeat split; auto.
        * destruct ld as [[r x]|]; simpl; [|exact I]. destruct (guards D h' x) eqn:G; simpl; [|exact I].
          simpl in Hld. destruct Hld as [A _]. split; [exact A|]. apply guards_held; exact G.
        * destruct ms as [|r tb k|tb k]; simpl; [exact I| |];
            (destruct (tguard D h' tb) eqn:G; simpl; [|exact I]); simpl in Hms; destruct Hms as [A _];
            (split; [exact A|apply tguard_held; exact G]).
      + repeat split; auto. intros t0 c0 hl0 [E|E]; [discriminate|eapply HC; eauto].
    - (* Load *)
      inversion Hs; subst c'; clear Hs. bsplit.
      apply (pure_step c t _ (next c) [EvLoad t (res_loc rg x) (heap c (res_loc rg x))]); auto.
      + exists f, h, (if guards D h x then Some (r, x) else kill r ld), (mkill r ms). simpl.
        apply negb_true_iff in H, H1.
        split; [exact H0|]. split; [rewrite map_res_lock_upd; auto|].
        split; [|eapply ms_sem_mkill; eauto].
        destruct (guards D h x) eqn:G.
        * simpl. rewrite res_loc_upd by exact H1. split; [unfold updf; rewrite N.eqb_refl; reflexivity|].
          rewrite <- Hheld. apply guards_held; exact G.
        * eapply ld_sem_kill; eauto.
      + right. eexists; split; [reflexivity|reflexivity].
    - (* Store *)
      inversion Hs; subst c'; clear Hs. bsplit.
      assert (Hown : In (owner (res_loc rg x)) hd) by (rewrite <- Hheld; apply guards_held; exact H).
      assert (Hval : written rg e = apply_upd (heap c (res_loc rg x)) (ev_of rg e)).
      { destruct e as [z|r0|r0 a0]; simpl; try reflexivity.
        destruct ld as [[r' x']|]; [|discriminate]. bsplit.
        apply N.eqb_eq in H1. apply lref_eqb_eq in H2. subst r' x'.
        simpl in Hld. destruct Hld as [A _]. rewrite A. reflexivity. }
      unfold Inv; simpl.
      split; [apply lock_inv_keep; auto|].
      split; [apply others_inv; auto|].
      + intros a Ha. unfold updf. destruct (loc_eqb a (res_loc rg x)) eqn:E; [|reflexivity].
        apply loc_eqb_eq in E; subst a. rewrite Hhd in Ha. contradiction.
      + exists f, h, None, ms. simpl. repeat split; auto; try (eapply ms_sem_code; eauto).
      + unfold heap_inv, calls_ok, tab_inv; simpl. repeat split; auto.
        * intro y. unfold updf. rewrite (loc_eqb_sym (res_loc rg x) y).
          destruct (loc_eqb y (res_loc rg x)) eqn:E.
          -- apply loc_eqb_eq in E; subst y. rewrite <- HH1. exact Hval.
          -- apply HH1.
        * intros t0 c0 hl0 [E|E]; [discriminate|eapply HC; eauto].
    - (* TblLookup *)
      inversion Hs; subst c'; clear Hs. bsplit. apply negb_true_iff in H1.
      apply (pure_step c t _ (next c) [EvLookup t t0 k (d_find N.eqb (tabs c t0) k)]); auto.
      + exists f, h, (kill r ld), (MLooked r t0 k). simpl.
        split; [exact H0|]. split; [rewrite map_res_lock_upd; auto|].
        split; [eapply ld_sem_kill; eauto|].
        split; [unfold updf; rewrite N.eqb_refl; reflexivity|].
        rewrite <- Hheld. apply tguard_held; exact H.
      + right. eexists; split; [reflexivity|reflexivity].
    - (* TblInsert *)
      inversion Hs; subst c'; clear Hs. bsplit.
      assert (Hown : In (tlock t0) hd) by (rewrite <- Hheld; apply tguard_held; exact H).
      unfold Inv; simpl.
      split; [apply lock_inv_keep; auto|].
      split; [apply others_inv; auto|].
      + intros tb Htb. unfold updf. destruct (N.eqb tb t0) eqn:E; [|reflexivity].
        apply N.eqb_eq in E; subst tb. rewrite Hhd in Htb. contradiction.
      + exists f, h, ld, (tkill t0 ms). simpl. split; [assumption|]. split; [assumption|]. split; [exact Hld|].
        destruct ms as [|r tb k0|tb k0]; simpl; auto; simpl in Hms; destruct Hms as [A B];
          (destruct (N.eqb t0 tb) eqn:E; simpl; [exact I|]); (split; [|exact B]);
          unfold look, updf; rewrite N.eqb_sym, E; exact A.
      + unfold heap_inv, calls_ok, tab_inv; simpl. repeat split; auto.
        * intros t1 c0 hl0 [E|E]; [discriminate|eapply HC; eauto].
        * intro tb. unfold updf. destruct (N.eqb tb t0) eqn:E; [|apply HT1].
          apply N.eqb_eq in E; subst tb. rewrite HT1. reflexivity.
        * intro Hco. rewrite Hco in H1. simpl in H1.
          destruct ms as [|r tb k0|tb k0]; simpl in H1; try discriminate.
          bsplit. apply N.eqb_eq in H1, H2. subst tb k0. simpl in Hms. destruct Hms as [A _].
          rewrite <- HT1. exact A.
    - (* TblDel *)
      inversion Hs; subst c'; clear Hs. bsplit.
      assert (Hown : In (tlock t0) hd) by (rewrite <- Hheld; apply tguard_held; exact H).
      unfold Inv; simpl.
      split; [apply lock_inv_keep; auto|].
      split; [apply others_inv; auto|].
      + intros tb Htb. unfold updf. destruct (N.eqb tb t0) eqn:E; [|reflexivity].
        apply N.eqb_eq in E; subst tb. rewrite Hhd in Htb. contradiction.
      + exists f, h, ld, (tkill t0 ms). simpl. split; [assumption|]. split; [assumption|]. split; [exact Hld|].
        destruct ms as [|r tb k0|tb k0]; simpl; auto; simpl in Hms; destruct Hms as [A B];
          (destruct (N.eqb t0 tb) eqn:E; simpl; [exact I|]); (split; [|exact B]);
          unfold look, updf; rewrite N.eqb_sym, E; exact A.
      + unfold heap_inv, calls_ok, tab_inv; simpl. repeat split; auto.
        * intros t1 c0 hl0 [E|E]; [discriminate|eapply HC; eauto].
        * intro tb. unfold updf. destruct (N.eqb tb t0) eqn:E; [|apply HT1].
          apply N.eqb_eq in E; subst tb. rewrite HT1. reflexivity.
    - (* TblClear *)
      inversion Hs; subst c'; clear Hs. bsplit.
      assert (Hown : In (tlock t0) hd) by (rewrite <- Hheld; apply tguard_held; exact H).
      unfold Inv; simpl.
      split; [apply lock_inv_keep; auto|].
      split; [apply others_inv; auto|].
      + intros tb Htb. unfold updf. destruct (N.eqb tb t0) eqn:E; [|reflexivity].
        apply N.eqb_eq in E; subst tb. rewrite Hhd in Htb. contradiction.
      + exists f, h, ld, (tkill t0 ms). simpl. split; [assumption|]. split; [assumption|]. split; [exact Hld|].
        destruct ms as [|r tb k0|tb k0]; simpl; auto; simpl in Hms; destruct Hms as [A B];
          (destruct (N.eqb t0 tb) eqn:E; simpl; [exact I|]); (split; [|exact B]);
          unfold look, updf; rewrite N.eqb_sym, E; exact A.
      + unfold heap_inv, calls_ok, tab_inv; simpl. repeat split; auto.
        * intros t1 c0 hl0 [E|E]; [discriminate|eapply HC; eauto].
        * intro tb. unfold updf. destruct (N.eqb tb t0) eqn:E; [|apply HT1].
          apply N.eqb_eq in E; subst tb. reflexivity.
    - (* TblCopy *)
      inversion Hs; subst c'; clear Hs. bsplit. apply negb_true_iff in H1.
      apply (pure_step c t _ (next c) [EvCopy t t0]); auto.
      + exists f, h, (kill r ld), (mkill r ms). simpl.
        split; [exact H0|]. split; [rewrite map_res_lock_upd; auto|].
        split; [eapply ld_sem_kill; eauto|eapply ms_sem_mkill; eauto].
      + right. eexists; split; [reflexivity|exact I].
    - (* New *)
      inversion Hs; subst c'; clear Hs. bsplit. apply negb_true_iff in H.
      apply (pure_step c t _ (next c + 1) [EvNew t (next c)]); auto.
      + exists f, h, (kill r ld), (mkill r ms). simpl.
        split; [exact H0|]. split; [rewrite map_res_lock_upd; auto|].
        split; [eapply ld_sem_kill; eauto|eapply ms_sem_mkill; eauto].
      + right. eexists; split; [reflexivity|exact I].
    - (* JmpIf *)
      inversion Hs; subst c'; clear Hs. bsplit.
      apply (pure_step c t _ (next c) []); auto.
      destruct (Bool.eqb (is_present (rg r)) present) eqn:Ej.
      + exists f, h, ld, (ms_branch present true r ms). simpl. split; [assumption|]. split; [assumption|]. split; [exact Hld|].
        destruct ms as [|r' tb k|tb k]; simpl; auto.
          destruct (N.eqb r r' && negb (Bool.eqb present true)) eqn:Eb; simpl; [|exact Hms].
          bsplit. apply N.eqb_eq in H2; subst r'. simpl in Hms. destruct Hms as [A B]. split; [|exact B].
          apply Bool.eqb_prop in Ej. rewrite A in Ej. unfold look in Ej.
          destruct (d_find N.eqb (tabs c tb) k); [|reflexivity].
          simpl in Ej. subst present. discriminate.
      + exists f, h, ld, (ms_branch present false r ms). simpl. split; [assumption|]. split; [assumption|]. split; [exact Hld|].
        destruct ms as [|r' tb k|tb k]; simpl; auto.
          destruct (N.eqb r r' && negb (Bool.eqb present false)) eqn:Eb; simpl; [|exact Hms].
          bsplit. apply N.eqb_eq in H2; subst r'. simpl in Hms. destruct Hms as [A B]. split; [|exact B].
          rewrite A in Ej. unfold look in Ej.
          destruct (d_find N.eqb (tabs c tb) k); [|reflexivity].
          simpl in Ej. destruct present; simpl in *; discriminate.
    - (* ForSnap *)
      destruct h; [|discriminate]. destruct ld; [discriminate|]. destruct ms; try discriminate. bsplit.
      simpl in Hheld. destruct (bodies_wf b) as [fb Hb].
      destruct (rg r) as [| | |[|[k0 id] more]] eqn:Er; inversion Hs; subst c'; clear Hs;
        apply (pure_step c t _ (next c) []); auto;
        try (exists f, [], None, MNone; simpl; repeat split; auto; fail).
      exists (fb + S f)%nat, [], None, MNone. simpl. repeat split; auto.
      apply wf_app; [exact Hb|]. simpl. rewrite H. exact H0.
    - (* Callout *)
      destruct h; [|discriminate]. destruct ld; [discriminate|]. destruct ms; try discriminate.
      simpl in Hheld. inversion Hs; subst c'; clear Hs.
      destruct (bodies_wf (res_id rg c0)) as [fb Hb].
      apply (pure_step c t _ (next c) [EvCall t (res_id rg c0) hd]); auto.
      + exists (fb + f)%nat, [], None, MNone. simpl. repeat split; auto. apply wf_app; auto.
      + right. eexists; split; [reflexivity|]. simpl. congruence.
    - (* Ret *)
      inversion Hs; subst c'; clear Hs.
      apply (pure_step c t _ (next c) [EvRet t (res_id rg e)]); auto.
      + exists f, h, ld, ms. simpl. split; [assumption|]. split; [assumption|]. split; [exact Hld|exact Hms].
      + right. eexists; split; [reflexivity|exact I].
    - (* RetZ *)
      inversion Hs; subst c'; clear Hs.
      apply (pure_step c t _ (next c) [EvRetZ t (written rg e)]); auto.
      + exists f, h, ld, ms. simpl. split; [assumption|]. split; [assumption|]. split; [exact Hld|exact Hms].
      + right. eexists; split; [reflexivity|exact I].
    - (* Raise *)
      destruct hd as [|k more].
      + inversion Hs; subst c'; clear Hs.
        apply (pure_step c t _ (next c) [EvExc t]); auto.
        * exists 1%nat, [], None, MNone. simpl. repeat split; auto.
        * right. eexists; split; [reflexivity|exact I].
      + simpl in Hs. inversion Hs; subst c'; clear Hs.
        destruct h as [|k' h']; [discriminate|]. simpl in Hheld. injection Hheld as Hk Hmore.
        assert (Hrm : remove_lock k (k :: more) = more) by (simpl; rewrite lock_eqb_refl; reflexivity).
        unfold Inv; simpl.
        split; [eapply lock_inv_rel; eauto|].
        split; [apply others_inv; auto|].
        * exists 1%nat, h', None, MNone. rewrite lock_eqb_refl. simpl. repeat split; auto.
        * repeat split; auto. intros t0 c0 hl0 [E|E]; [discriminate|eapply HC; eauto].
  Qed.

  (* ---------- reachability ---------- *)
  Lemma exec_inv s : forall c, Inv c -> Inv (exec bodies s c).
  Proof.
    induction s as [|t s IH]; intros c HI; simpl; [exact HI|].
    destruct (step bodies t c) eqn:E; [apply IH; eapply step_inv; eauto|apply IH; exact HI].
  Qed.

  Definition disciplined (p : list instr) : Prop := exists f, wf D f [] None MNone p = true.
  Lemma thr_of_list_inv ps : Forall disciplined ps ->
    forall t hp tabs, thr_inv hp tabs (thr_of_list ps t).
  Proof using Type.
    induction 1 as [|p ps Hp _ IH]; intros t hp tabs.
    - simpl. exists 1%nat, [], None, MNone. simpl. repeat split; auto.
    - destruct t as [|t]; simpl; [|apply IH]. destruct Hp as [f Hp].
      exists f, [], None, MNone. simpl. repeat split; auto.
  Qed.

  Lemma thr_of_list_held ps t : held (thr_of_list ps t) = [].
  Proof using Type. revert t; induction ps as [|p ps IH]; intros [|t]; simpl; auto. Qed.

  Lemma init_inv n0 ps : Forall disciplined ps -> Inv (init_config h0 tb0 n0 ps).
  Proof using Type.
    intro Hwf. unfold Inv, init_config; simpl. split; [|split; [|split; [|split]]].
    - split; intros; rewrite thr_of_list_held; simpl; [split; [discriminate|intros []]|constructor].
    - intro t. apply thr_of_list_inv; exact Hwf.
    - split; simpl; auto.
    - intros t c0 hl [].
    - repeat split; simpl; auto.
  Qed.

  (* ---------- deadlock freedom from the lock order ---------- *)
  Lemma all_below_lt h k x : all_below D h k = true -> In x h -> krank D x < krank D k.
  Proof.
    induction h as [|y h IH]; simpl; [tauto|]. intros H [->|Hin]; bsplit.
    - apply N.ltb_lt; assumption.
    - auto.
  Qed.

  Lemma enabled_or_blocked c t :
    code (thr c t) <> [] ->
    step bodies t c <> None \/
    exists k rest o, code (thr c t) = Acq k :: rest /\ locks c (res_lock (regs (thr c t)) k) = Some o.
  Proof.
    intro Hne. unfold step. destruct (thr c t) as [cd rg hd]; simpl in *.
    destruct cd as [|i rest]; [contradiction|].
    destruct i; try (left; discriminate).
    - destruct (locks c (res_lock rg l)) eqn:E; [right; eauto|left; discriminate].
    - left. destruct (rg r) as [| | |[|[? ?] ?]]; discriminate.
    - left. destruct hd; discriminate.
  Qed.

  Lemma holder_not_finished c o l : Inv c -> In l (held (thr c o)) -> code (thr c o) <> [].
  Proof.
    intros (_ & HT & _) Hin Hc. destruct (HT o) as (f & h & ld & ms & Hwf & Hheld & _).
    rewrite Hc in Hwf. destruct f; [discriminate|]. simpl in Hwf.
    destruct h; [|discriminate]. simpl in Hheld. rewrite <- Hheld in Hin. contradiction.
  Qed.

  Lemma blocked_progress c : Inv c -> forall n t k rest o,
    code (thr c t) = Acq k :: rest -> locks c (res_lock (regs (thr c t)) k) = Some o ->
    (N.to_nat (maxrank - rank (res_lock (regs (thr c t)) k)) <= n)%nat ->
    exists t', step bodies t' c <> None.
  Proof.
    intros HI n. induction n as [|n IH]; intros t k rest o Hc Hl Hm.
    - (* the wanted lock has maximal rank: its holder cannot be waiting for anything *)
      pose proof HI as (HL & HT & _).
      assert (Hin : In (res_lock (regs (thr c t)) k) (held (thr c o))) by (apply HL; exact Hl).
      destruct (enabled_or_blocked c o (holder_not_finished c o _ HI Hin)) as [He|(k' & rest' & o' & Hc' & Hl')];
        [eauto|].
      exfalso. destruct (HT o) as (f & h & ld & ms & Hwf & Hheld & _).
      rewrite Hc' in Hwf. destruct f; [discriminate|]. simpl in Hwf. bsplit.
      rewrite <- Hheld in Hin. apply in_map_iff in Hin as (x & Hx & Hxin).
      pose proof (all_below_lt _ _ _ H1 Hxin) as Hlt.
      rewrite <- (rank_coh (regs (thr c o)) x), Hx in Hlt.
      rewrite <- (rank_coh (regs (thr c o)) k') in Hlt.
      pose proof (rank_bound (res_lock (regs (thr c o)) k')). lia.
    - pose proof HI as (HL & HT & _).
      assert (Hin : In (res_lock (regs (thr c t)) k) (held (thr c o))) by (apply HL; exact Hl).
      destruct (enabled_or_blocked c o (holder_not_finished c o _ HI Hin)) as [He|(k' & rest' & o' & Hc' & Hl')];
        [eauto|].
      apply (IH o k' rest' o' Hc' Hl').
      destruct (HT o) as (f & h & ld & ms & Hwf & Hheld & _).
      rewrite Hc' in Hwf. destruct f; [discriminate|]. simpl in Hwf. bsplit.
      rewrite <- Hheld in Hin. apply in_map_iff in Hin as (x & Hx & Hxin).
      pose proof (all_below_lt _ _ _ H1 Hxin) as Hlt.
      rewrite <- (rank_coh (regs (thr c o)) x), Hx in Hlt.
      rewrite <- (rank_coh (regs (thr c o)) k') in Hlt.
      pose proof (rank_bound (res_lock (regs (thr c o)) k')). lia.
  Qed.

  Lemma deadlock_free c : Inv c -> (exists t, code (thr c t) <> []) -> exists t, step bodies t c <> None.
  Proof.
    intros HI [t Hne]. destruct (enabled_or_blocked c t Hne) as [He|(k & rest & o & Hc & Hl)]; [eauto|].
    eapply blocked_progress; eauto.
  Qed.

  (* ---------- consequences for traces (pure list reasoning) ---------- *)
  Lemma d_find_d_set (d : list (key * N)) k v k' :
    d_find N.eqb (d_set N.eqb d k v) k' = if N.eqb k' k then Some v else d_find N.eqb d k'.
  Proof using Type.
    induction d as [|[k0 v0] d IH]; simpl.
    - destruct (N.eqb k' k); reflexivity.
    - destruct (N.eqb k k0) eqn:E; simpl.
      + apply N.eqb_eq in E; subst k0. destruct (N.eqb k' k); reflexivity.
      + destruct (N.eqb k' k0) eqn:E'.
        * apply N.eqb_eq in E'; subst k0. rewrite N.eqb_sym, E. reflexivity.
        * exact IH.
  Qed.

  (* with no removal, a binding of a create-only table never changes *)
  Lemma binding_stable tb k v a : forall b, create_only D tb = true ->
    no_removal tb (a ++ b) -> ins_fresh (a ++ b) ->
    d_find N.eqb (tab_hist tb b) k = Some v -> d_find N.eqb (tab_hist tb (a ++ b)) k = Some v.
  Proof using Type.
    induction a as [|ev a IH]; intros b Hco Hnr Hf Hb; simpl in *; [exact Hb|].
    destruct ev; auto. destruct w as [k1 v1| k1 |]; simpl in *.
    - destruct Hf as [Hfr Hf]. specialize (IH b Hco Hnr Hf Hb).
      destruct (N.eqb tb tb1) eqn:E; [|exact IH]. apply N.eqb_eq in E; subst tb1.
      rewrite d_find_d_set. destruct (N.eqb k k1) eqn:Ek; [|exact IH].
      apply N.eqb_eq in Ek; subst k1. rewrite (Hfr Hco) in IH. discriminate.
    - destruct Hnr as [E Hnr]. rewrite N.eqb_sym, E. auto.
    - destruct Hnr as [E Hnr]. rewrite N.eqb_sym, E. auto.
  Qed.

  Lemma lookups_ok_app a : forall b, lookups_ok (a ++ b) -> lookups_ok b.
  Proof using Type. induction a as [|ev a IH]; intros b H; simpl in *; [exact H|]. destruct ev; try destruct H; auto. Qed.
  Lemma ins_fresh_app a : forall b, ins_fresh (a ++ b) -> ins_fresh b.
  Proof using Type.
    induction a as [|ev a IH]; intros b H; simpl in *; [exact H|]. destruct ev; auto.
    destruct w; try destruct H; auto.
  Qed.
  Lemma no_removal_app tb a : forall b, no_removal tb (a ++ b) -> no_removal tb b.
  Proof using Type.
    induction a as [|ev a IH]; intros b H; simpl in *; [exact H|]. destruct ev; auto.
    destruct w; try destruct H; auto.
  Qed.

  Lemma lookups_agree tb k tr2 tr1 tr0 t1 t2 c1 c2 :
    let tr := tr2 ++ EvLookup t2 tb k (Some c2) :: tr1 ++ EvLookup t1 tb k (Some c1) :: tr0 in
    create_only D tb = true -> no_removal tb tr -> ins_fresh tr -> lookups_ok tr -> c1 = c2.
  Proof using Type.
    intros tr Hco Hnr Hf Hl. subst tr.
    apply lookups_ok_app in Hl. apply ins_fresh_app in Hf. apply no_removal_app in Hnr.
    simpl in Hl, Hf, Hnr. destruct Hl as [E2 Hl].
    pose proof (lookups_ok_app _ _ Hl) as Hl1. simpl in Hl1. destruct Hl1 as [E1 _].
    replace (tr1 ++ EvLookup t1 tb k (Some c1) :: tr0) with ((tr1 ++ [EvLookup t1 tb k (Some c1)]) ++ tr0) in *
      by (rewrite <- app_assoc; reflexivity).
    symmetry in E1. pose proof (binding_stable tb k c1 _ tr0 Hco Hnr Hf E1) as Hs.
    rewrite Hs in E2. congruence.
  Qed.
End Inv.

(* ---------- the library's discipline: owner, rank and their coherence ---------- *)
Section Lib.
  Variable mp : bool.
  Definition lib_owner (x : loc) : lock :=
    match x with
    | LStat n => if N.eqb n 0 then KStat R_LOCK else if mp then KStat S_LOCK else KStat (100 + n)
    | LChild c j => if mp then KStat S_LOCK else KChild c j
    end.
  Definition lib_rank (l : lock) : N :=
    match l with
    | KStat n => krank (lib_disc mp) (SLock n)
    | KChild _ _ => 3
    end.
  Lemma lib_owner_coh rg x k : owner_ref (lib_disc mp) x = Some k -> res_lock rg k = lib_owner (res_loc rg x).
  Proof.
    simpl. intro H; injection H as <-. destruct x as [n|r j]; simpl.
    - destruct (N.eqb n 0); [reflexivity|]. destruct mp; reflexivity.
    - destruct mp; reflexivity.
  Qed.
  Lemma lib_rank_coh rg k : lib_rank (res_lock rg k) = krank (lib_disc mp) k.
  Proof. destruct k; reflexivity. Qed.
  Lemma lib_rank_bound l : lib_rank l <= 3.
  Proof.
    destruct l as [n|c j]; simpl; [|lia].
    destruct (n =? S_LOCK); [lia|]. destruct (n <? 50); [lia|]. destruct (n <? 100); lia.
  Qed.

  Definition lib_disciplined (p : list instr) : Prop := exists f, wf (lib_disc mp) f [] None MNone p = true.
  Definition wf_world (bodies : N -> list instr) (ps : list (list instr)) : Prop :=
    Forall lib_disciplined ps /\ forall b, lib_disciplined (bodies b).
  Definition reach bodies h0 tb0 n0 ps (c : config) : Prop :=
    exists s, c = exec bodies s (init_config h0 tb0 n0 ps).

  Lemma reach_inv bodies h0 tb0 n0 ps c :
    wf_world bodies ps -> reach bodies h0 tb0 n0 ps c ->
    Inv (lib_disc mp) lib_owner h0 tb0 c.
  Proof.
    intros [Hps Hb] [s ->]. apply exec_inv.
    - exact lib_owner_coh.
    - exact Hb.
    - apply init_inv. exact Hps.
  Qed.

  Lemma wf_prog_disciplined p : wf_prog (lib_disc mp) p = true -> lib_disciplined p.
  Proof. intro H. eexists; exact H. Qed.
End Lib.

(* ---------- the statements of props/C02.v, for the library's discipline ---------- *)
Section Final.
  Variable mp : bool.
  Variable bodies : N -> list instr.
  Variable h0 : loc -> Z.
  Variable tb0 : tbl -> list (key * N).
  Variable n0 : N.
  Variable ps : list (list instr).
  Hypothesis Hw : wf_world mp bodies ps.
  Variable c : config.
  Hypothesis Hr : reach bodies h0 tb0 n0 ps c.

  Lemma fin_mutex l t t' : In l (held (thr c t)) -> In l (held (thr c t')) -> t = t'.
  Proof. destruct (reach_inv mp _ _ _ _ _ _ Hw Hr) as (HL & _). eapply mutex; eauto. Qed.

  Lemma fin_no_lost_update x : heap c x = cur h0 x (trace c).
  Proof. destruct (reach_inv mp _ _ _ _ _ _ Hw Hr) as (_ & _ & (H & _) & _). apply H. Qed.

  Lemma fin_sum x : only_incs x (trace c) -> heap c x = (h0 x + sum_incs x (trace c))%Z.
  Proof. intro Ho. rewrite fin_no_lost_update. apply cur_sum; exact Ho. Qed.

  Lemma fin_loads : loads_ok h0 (trace c).
  Proof. destruct (reach_inv mp _ _ _ _ _ _ Hw Hr) as (_ & _ & (_ & H) & _). exact H. Qed.

  Lemma fin_monotone x tr2 tr1 tr0 t1 t2 v1 v2 :
    trace c = tr2 ++ EvLoad t2 x v2 :: tr1 ++ EvLoad t1 x v1 :: tr0 ->
    only_incs x (trace c) -> nonneg_incs x (trace c) -> (v1 <= v2)%Z.
  Proof.
    intros E Ho Hn. pose proof fin_loads as Hl. rewrite E in Hl, Ho, Hn.
    eapply loads_monotone; eauto.
  Qed.

  Lemma fin_labels tb k tr2 tr1 tr0 t1 t2 c1 c2 :
    trace c = tr2 ++ EvLookup t2 tb k (Some c2) :: tr1 ++ EvLookup t1 tb k (Some c1) :: tr0 ->
    create_only (lib_disc mp) tb = true -> no_removal tb (trace c) -> c1 = c2.
  Proof.
    intros E Hco Hnr. destruct (reach_inv mp _ _ _ _ _ _ Hw Hr) as (_ & _ & _ & _ & (_ & Hf & Hl)).
    rewrite E in Hnr, Hf, Hl. eapply lookups_agree; eauto.
  Qed.

  Lemma fin_ins_fresh : ins_fresh (lib_disc mp) tb0 (trace c) /\ forall tb, tabs c tb = tab_hist tb0 tb (trace c).
  Proof. destruct (reach_inv mp _ _ _ _ _ _ Hw Hr) as (_ & _ & _ & _ & (Ht & Hf & _)). split; assumption. Qed.

  Lemma fin_deadlock_free : (exists t, code (thr c t) <> []) -> exists t, step bodies t c <> None.
  Proof.
    intro H. destruct Hw as [_ Hb].
    eapply (deadlock_free bodies (lib_disc mp) (lib_owner mp) (lib_rank mp) 3); eauto.
    - apply lib_rank_coh.
    - apply lib_rank_bound.
    - eapply reach_inv; eauto.
  Qed.

  Lemma fin_calls t cid hl : In (EvCall t cid hl) (trace c) -> hl = [].
  Proof. destruct (reach_inv mp _ _ _ _ _ _ Hw Hr) as (_ & _ & _ & H & _). apply H. Qed.
End Final.

(* ---------- every operation of the library compiles to a disciplined program, for all parameters ---------- *)
Ltac wf_step := cbn -[N.add N.ltb N.eqb]; rewrite ?N.eqb_refl; cbn -[N.add N.ltb N.eqb].
Ltac wf_go := repeat wf_step; try reflexivity.

Definition simple_op (o : op) : Prop :=
  match o with
  | OInc (SLoc _) _ | OSet (SLoc _) _ | OGet (SLoc _) _ _ => True
  | OLabels tb _ nc | OLabelsInc tb _ nc _ _ => tb < 40 /\ nc = 1%nat
  | ORemove tb _ | OClear tb | OMulti tb _ => tb < 40
  | ORegister _ | OUnregister _ | OLookup _ | OCollect _ => True
  | _ => False
  end.

Ltac tbfacts tb Hlt :=
  assert (E2 : (10 + tb <? 50) = true) by (apply N.ltb_lt; lia);
  assert (E3 : (10 + tb =? S_LOCK) = false) by (apply N.eqb_neq; unfold S_LOCK; lia);
  assert (E4 : (S_LOCK =? 10 + tb) = false) by (apply N.eqb_neq; unfold S_LOCK; lia);
  assert (E5 : (R_LOCK =? S_LOCK) = false) by reflexivity;
  assert (E6 : (R_LOCK <? 50) = true) by reflexivity.
Ltac wf_all := repeat (wf_go; match goal with
   | E : _ = _ |- _ => rewrite E
   end); wf_go.

Lemma op_disciplined mp rb o : simple_op o -> lib_disciplined mp (compile_op mp rb o).
Proof.
  intro H. exists 40%nat. destruct o; simpl in H; try contradiction.
  - destruct x as [n|]; [|contradiction]. destruct mp; destruct (n =? 0) eqn:E; wf_go; rewrite ?E; wf_go.
  - destruct x as [n|]; [|contradiction]. destruct mp; destruct (n =? 0) eqn:E; wf_go; rewrite ?E; wf_go.
  - destruct x as [n|]; [|contradiction]. destruct mp; destruct locked; destruct exsec; destruct (n =? 0) eqn:E; wf_go; rewrite ?E; wf_go.
  - destruct H as [Hlt ->]. tbfacts tb Hlt. destruct mp; destruct (tb <? 2) eqn:E; wf_go; rewrite ?E, ?E2, ?E3, ?E4; wf_go; rewrite ?E, ?E2, ?E3, ?E4; wf_go.
  - destruct H as [Hlt ->]. tbfacts tb Hlt.
    assert (R1 : (rb + 2 =? rb) = false) by (apply N.eqb_neq; lia).
    assert (R2 : (rb =? rb + 2) = false) by (apply N.eqb_neq; lia).
    destruct mp; destruct (tb <? 2) eqn:E; wf_go; rewrite ?E, ?E2, ?E3, ?E4, ?R1, ?R2; wf_go; rewrite ?E, ?E2, ?E3, ?E4, ?R1, ?R2; wf_go.
  - tbfacts tb H. destruct mp; destruct (tb <? 2) eqn:E; wf_go; rewrite ?E, ?E2, ?E3, ?E4; wf_go; rewrite ?E, ?E2, ?E3, ?E4; wf_go.
  - tbfacts tb H. destruct mp; destruct (tb <? 2) eqn:E; wf_go; rewrite ?E, ?E2, ?E3, ?E4; wf_go; rewrite ?E, ?E2, ?E3, ?E4; wf_go.
  - tbfacts tb H. destruct mp; destruct (tb <? 2) eqn:E; wf_go; rewrite ?E, ?E2, ?E3, ?E4; wf_go; rewrite ?E, ?E2, ?E3, ?E4; wf_go.
  - destruct mp; wf_go.
  - destruct mp; wf_go.
  - destruct mp; wf_go.
  - destruct mp; wf_go.
Qed.

Lemma compile_disciplined mp ops : forall rb, Forall simple_op ops -> lib_disciplined mp (compile_from mp rb ops).
Proof.
  induction ops as [|o ops IH]; intros rb H; simpl.
  - exists 1%nat. reflexivity.
  - inversion H as [|? ? Ho Hops]; subst.
    destruct (op_disciplined mp rb o Ho) as [f1 H1]. destruct (IH (rb + 4) Hops) as [f2 H2].
    exists (f1 + f2)%nat. apply wf_app; assumption.
Qed.
