(* C04 L5: the metadata lines of the OpenMetrics exposition read back by the parser's line loop, and a whole gauge
   family followed by the end marker. *)
From V Require Import lib.PyBase lib.Tac lib.PyStr model.Utils model.Validation model.Expo model.TextParser model.OMParser
  proofs.EscapeProofs proofs.ScanFacts proofs.TextParserTotal proofs.LabelRoundTrip proofs.SampleRoundTrip
  proofs.LineProofs proofs.DocRoundTrip proofs.OMLabelRoundTrip proofs.OMSampleRoundTrip.
From Coq Require Import Permutation.
Ltac Zify.zify_post_hook ::= Z.to_euclidean_division_equations.
Open Scope N_scope.

(* ---------- L1 for the help text: _unescape_help inverts _escape ---------- *)
Lemma om_unescape_help_escape s : om_unescape_help (escape_chain s) = s.
Proof.
  rewrite escape_chain_eq. unfold om_unescape_help.
  induction s as [|c s IH]; [reflexivity|].
  unfold escape in *. cbn [flat_map]. unfold escape1 at 1, BS, LF, DQ, CH_n.
  case_char c 92; [cbn; rewrite IH; reflexivity|].
  case_char c 10; [cbn; rewrite IH; reflexivity|].
  case_char c 34; [cbn; rewrite IH; reflexivity|].
  cbn [app om_unescape_help_aux]. unfold BS.
  destruct (N.eqb_spec c 92); [contradiction|]. rewrite IH. reflexivity.
Qed.

(* ---------- _split_quoted(line, ' ', 3) on a metadata line ---------- *)
Definition skipsp (tok : str) : Prop :=
  forall r, nuq0 [SP] (tok ++ r) false false = option_map (fun k => (length tok + k)%nat) (nuq0 [SP] r false false).

Lemma nuc_at_sp pre b : okpre pre ->
  next_unquoted_char (pre ++ b) [SP] (zlen pre) =
  match nuq0 [SP] b false false with None => (-1)%Z | Some k => (zlen pre + Z.of_nat k)%Z end.
Proof.
  intros [->|(a & c & -> & Hc)].
  - cbn [app]. rewrite next_unquoted_char_rel. unfold zlen. cbn [length]. destruct (nuq0 _ _ _ _); lia.
  - apply nuc_from. exact Hc.
Qed.

Lemma sq_round_sp fuel pre tok post done last :
  okpre pre -> skipsp tok -> (length done < 3)%nat ->
  split_quoted_fuel (S fuel) (pre ++ tok ++ SP :: post) [SP] 3 (zlen pre) done last
  = split_quoted_fuel fuel (pre ++ tok ++ SP :: post) [SP] 3 (zlen (pre ++ tok ++ [SP])) (tok :: done) [].
Proof.
  intros Hp Hs Hd. cbn [split_quoted_fuel].
  assert (Hlt : (zlen pre <? zlen (pre ++ tok ++ SP :: post))%Z = true).
  { unfold zlen. rewrite !app_length. cbn [length]. lia. }
  rewrite Hlt. rewrite (nuc_at_sp pre (tok ++ SP :: post) Hp), Hs.
  rewrite nuq0_hit by (try discriminate; reflexivity). cbn [option_map]. rewrite Nat.add_0_r.
  replace (zlen pre + Z.of_nat (length tok) =? -1)%Z with false by (unfold zlen; lia).
  replace ((0 <? 3)%Z && (3 <? Z.of_nat (S (length done)))%Z) with false by lia.
  rewrite DocRoundTrip.slice_mid. f_equal. unfold zlen. rewrite !app_length. cbn [length]. lia.
Qed.

(* the fourth part: the rest of the line, whatever it is, also empty *)
Lemma sq_rest_sp fuel pre rest (done : list str) :
  okpre pre -> length done = 3%nat ->
  split_quoted_fuel (S fuel) (pre ++ rest) [SP] 3 (zlen pre) done [] = Ok (rev (rest :: done)).
Proof.
  intros Hp Hd. cbn [split_quoted_fuel].
  destruct rest as [|r0 rr].
  - rewrite app_nil_r. rewrite Z.ltb_irrefl. reflexivity.
  - assert (Hlt : (zlen pre <? zlen (pre ++ r0 :: rr))%Z = true).
    { unfold zlen. rewrite app_length. cbn [length]. lia. }
    rewrite Hlt.
    assert (Hsl : slice_from (pre ++ r0 :: rr) (zlen pre) = r0 :: rr).
    { unfold zlen. rewrite slice_from_skipn by (rewrite app_length; lia). rewrite skipn_app, skipn_all, Nat.sub_diag. reflexivity. }
    rewrite Hsl. destruct (_ =? -1)%Z; [reflexivity|].
    replace ((0 <? 3)%Z && (3 <? Z.of_nat (S (length done)))%Z) with true by lia. reflexivity.
Qed.

Lemma skipsp_plain tok : Forall (fun c => c <> BS /\ c <> DQ /\ c <> SP) tok -> skipsp tok.
Proof.
  intros H r. apply plain_scan. intros c Hc. rewrite Forall_forall in H. destruct (H c Hc) as (H1 & H2 & H3).
  repeat split; auto. cbn [mem_char]. destruct (N.eqb_spec c SP); [contradiction|reflexivity].
Qed.

Lemma skipsp_hash : skipsp T_hash.
Proof. apply skipsp_plain. repeat constructor; discriminate. Qed.

(* `# KW tok rest` *)
Lemma split_meta kw tok rest : skipsp kw -> skipsp tok ->
  split_quoted (T_hash ++ SP :: kw ++ SP :: tok ++ SP :: rest) [SP] 3 = Ok [T_hash; kw; tok; rest].
Proof.
  intros Hk Ht. unfold split_quoted.
  set (text := T_hash ++ SP :: kw ++ SP :: tok ++ SP :: rest).
  destruct (length text) as [|[|n]] eqn:El;
    try (subst text; rewrite !app_length in El; cbn [length T_hash] in El; rewrite !app_length in El; cbn [length] in El;
         rewrite app_length in El; cbn [length] in El; lia).
  change (split_quoted_fuel (S (S (S (S n)))) text [SP] 3 0 [] [])
    with (split_quoted_fuel (S (S (S (S n)))) ([] ++ T_hash ++ SP :: kw ++ SP :: tok ++ SP :: rest) [SP] 3 (zlen []) [] []).
  rewrite sq_round_sp; [|left; reflexivity|exact skipsp_hash|cbn; lia].
  cbn [app].
  change (T_hash ++ SP :: kw ++ SP :: tok ++ SP :: rest) with ((T_hash ++ [SP]) ++ kw ++ SP :: tok ++ SP :: rest).
  rewrite sq_round_sp; [|apply okpre_snoc; discriminate|exact Hk|cbn; lia].
  replace ((T_hash ++ [SP]) ++ kw ++ SP :: tok ++ SP :: rest)
    with (((T_hash ++ [SP]) ++ kw ++ [SP]) ++ tok ++ SP :: rest) by (rewrite <- !app_assoc; reflexivity).
  rewrite sq_round_sp; [|rewrite app_assoc; apply okpre_snoc; discriminate|exact Ht|cbn; lia].
  replace (((T_hash ++ [SP]) ++ kw ++ [SP]) ++ tok ++ SP :: rest)
    with ((((T_hash ++ [SP]) ++ kw ++ [SP]) ++ tok ++ [SP]) ++ rest) by (rewrite <- !app_assoc; reflexivity).
  rewrite sq_rest_sp; [reflexivity| |reflexivity].
  rewrite !app_assoc. apply okpre_snoc. discriminate.
Qed.

Lemma skipsp_mname n : n <> [] -> skipsp (mname_tok n).
Proof.
  intros Hne r. unfold mname_tok, escape_metric_name. destruct (is_valid_legacy_metric_name n) eqn:E.
  - apply name_scan; [exact E|]. intros c Hc. destruct (name_rest_plain c Hc) as (_ & _ & _ & _ & Hs & _).
    cbn [mem_char]. destruct (N.eqb_spec c SP); [contradiction|reflexivity].
  - rewrite escape_chain_eq. apply quoted_scan. reflexivity.
Qed.

Lemma skipsp_kw_HELP : skipsp OM_HELP.
Proof. apply skipsp_plain. vm_compute. repeat constructor; discriminate. Qed.
Lemma skipsp_kw_TYPE : skipsp OM_TYPE.
Proof. apply skipsp_plain. vm_compute. repeat constructor; discriminate. Qed.
Lemma skipsp_kw_UNIT : skipsp OM_UNIT.
Proof. apply skipsp_plain. vm_compute. repeat constructor; discriminate. Qed.

(* ---------- the three metadata lines ---------- *)
Definition om_help_line (n doc : str) : str := T_hash ++ SP :: OM_HELP ++ SP :: mname_tok n ++ SP :: escape_chain doc.
Definition om_type_line (n typ : str) : str := T_hash ++ SP :: OM_TYPE ++ SP :: mname_tok n ++ SP :: typ.
Definition om_unit_line (n u : str) : str := T_hash ++ SP :: OM_UNIT ++ SP :: mname_tok n ++ SP :: escape_chain u.

Section Meta.
  Variable NUM : Type.
  Variable parse_float : str -> option NUM.
  Variable num_lt num_eqb : NUM -> NUM -> bool.
  Variable num_zero num_inf : NUM.
  Notation meta := (om_meta_line false true true NUM parse_float num_lt num_eqb num_zero num_inf).
  Notation flush_ := (om_flush false NUM parse_float num_lt num_eqb num_zero num_inf).

  Lemma om_cand_of_tok n : n <> [] ->
    unquote_unescape_with true (mname_tok n) = Ok (n, negb (is_valid_legacy_metric_name n)).
  Proof. intro Hne. destruct (mname_tok_facts n Hne) as (_ & Hu & _). exact Hu. Qed.

  (* # HELP opens a new family: the one in progress is yielded *)
  Lemma meta_help st n doc out seen' :
    n <> [] -> om_opt_str_eqb (st_name st) n = false -> flush_ st = Ok (out, seen') ->
    meta st (om_help_line n doc)
    = Ok ({| st_name := Some n; st_allowed := [n]; st_eof := st_eof st; st_seen := seen'; st_typ := None;
             st_doc := Some doc; st_unit := None; st_group := None; st_seen_groups := []; st_gts := None;
             st_gts_samples := []; st_samples := [] |}, out).
  Proof.
    intros Hne Hneq Hfl. unfold om_meta_line, om_help_line.
    pose proof (split_meta OM_HELP (mname_tok n) (escape_chain doc) skipsp_kw_HELP (skipsp_mname n Hne)) as HH.
    unfold str, char in *. rewrite HH. cbn [bind].
    rewrite (om_cand_of_tok n Hne). cbn [bind]. rewrite negb_involutive.
    assert (Hchk : is_valid_legacy_metric_name n && negb (is_valid_legacy_metric_name n) = false)
      by (destruct (is_valid_legacy_metric_name n); reflexivity).
    rewrite Hchk, Hneq. cbn [andb negb]. rewrite Hfl. cbn [bind].
    change (str_eqb OM_HELP OM_HELP) with true. cbv iota.
    unfold om_new_family. cbn [st_doc st_name st_allowed st_eof st_seen st_typ st_unit st_group st_seen_groups st_gts
                                 st_gts_samples st_samples].
    rewrite om_unescape_help_escape. reflexivity.
  Qed.

  (* # TYPE inside the family just opened *)
  Lemma meta_type st n typ :
    n <> [] -> st_name st = Some n -> st_samples st = [] -> st_typ st = None -> str_eqb typ OM_untyped = false ->
    meta st (om_type_line n typ)
    = Ok ({| st_name := st_name st; st_allowed := map (fun sfx => n ++ sfx) (om_type_suffixes typ [[]]);
             st_eof := st_eof st; st_seen := st_seen st; st_typ := Some typ; st_doc := st_doc st; st_unit := st_unit st;
             st_group := st_group st; st_seen_groups := st_seen_groups st; st_gts := st_gts st;
             st_gts_samples := st_gts_samples st; st_samples := st_samples st |}, []).
  Proof.
    intros Hne Hn Hs Ht Hu. unfold om_meta_line, om_type_line.
    pose proof (split_meta OM_TYPE (mname_tok n) typ skipsp_kw_TYPE (skipsp_mname n Hne)) as HH.
    unfold str, char in *. rewrite HH. cbn [bind].
    rewrite (om_cand_of_tok n Hne). cbn [bind]. rewrite negb_involutive.
    assert (Hchk : is_valid_legacy_metric_name n && negb (is_valid_legacy_metric_name n) = false)
      by (destruct (is_valid_legacy_metric_name n); reflexivity).
    rewrite Hchk, Hn. cbn [om_opt_str_eqb]. rewrite str_eqb_refl, Hs. cbn [andb negb bind].
    change (str_eqb OM_TYPE OM_HELP) with false. change (str_eqb OM_TYPE OM_TYPE) with true. cbv iota.
    rewrite Ht, Hu. rewrite ?Hs. rewrite <- Hn. reflexivity.
  Qed.

  (* # UNIT inside the family *)
  Lemma meta_unit st n u :
    n <> [] -> st_name st = Some n -> st_samples st = [] -> st_unit st = None ->
    meta st (om_unit_line n u)
    = Ok ({| st_name := st_name st; st_allowed := st_allowed st; st_eof := st_eof st; st_seen := st_seen st;
             st_typ := st_typ st; st_doc := st_doc st; st_unit := Some u;
             st_group := st_group st; st_seen_groups := st_seen_groups st; st_gts := st_gts st;
             st_gts_samples := st_gts_samples st; st_samples := st_samples st |}, []).
  Proof.
    intros Hne Hn Hs Hu. unfold om_meta_line, om_unit_line.
    pose proof (split_meta OM_UNIT (mname_tok n) (escape_chain u) skipsp_kw_UNIT (skipsp_mname n Hne)) as HH.
    unfold str, char in *. rewrite HH. cbn [bind].
    rewrite (om_cand_of_tok n Hne). cbn [bind]. rewrite negb_involutive.
    assert (Hchk : is_valid_legacy_metric_name n && negb (is_valid_legacy_metric_name n) = false)
      by (destruct (is_valid_legacy_metric_name n); reflexivity).
    rewrite Hchk, Hn. cbn [om_opt_str_eqb]. rewrite str_eqb_refl, Hs. cbn [andb negb bind].
    change (str_eqb OM_UNIT OM_HELP) with false. change (str_eqb OM_UNIT OM_TYPE) with false.
    change (str_eqb OM_UNIT OM_UNIT) with true. cbv iota.
    rewrite Hu, om_unescape_help_escape. rewrite ?Hs. rewrite <- Hn. reflexivity.
  Qed.
End Meta.

(* ---------- the lines of one family ---------- *)
Definition om_body (s : sample) : str :=
  om_head s ++ [SP] ++ go_string (s_value s) ++ OMSampleRoundTrip.ts_text (s_ts_om s) ++ ex_text (s_ex s).

Lemma om_sample_lines ft fn ss : forall x,
  res_concat_map (Expo.om_sample_line true ft fn) ss = Ok x -> x = unlines (map om_body ss).
Proof.
  induction ss as [|s ss IH]; intros x H; cbn [res_concat_map] in H.
  - apply OMSampleRoundTrip.Ok_inj in H. subst x. reflexivity.
  - destruct (Expo.om_sample_line true ft fn s) as [l|] eqn:El; [|discriminate]. cbn [bind] in H.
    destruct (res_concat_map (Expo.om_sample_line true ft fn) ss) as [y|] eqn:Ey; [|discriminate]. cbn [bind] in H.
    apply OMSampleRoundTrip.Ok_inj in H. subst x. apply om_sample_line_shape in El. subst l.
    rewrite (IH y eq_refl). reflexivity.
Qed.

Definition om_unit_lines (n u : str) : list str := match u with [] => [] | _ => [om_unit_line n u] end.

Definition om_family_lines_of (f : family) : list str :=
  om_help_line (f_name f) (f_doc f) :: om_type_line (f_name f) (f_type f)
  :: om_unit_lines (f_name f) (f_unit f) ++ map om_body (f_samples f).

Lemma om_family_unlines f text : Expo.om_family true f = Ok text -> text = unlines (om_family_lines_of f).
Proof.
  unfold Expo.om_family. destruct (res_concat_map _ (f_samples f)) as [ss|] eqn:Es; [|discriminate]. cbn [bind].
  intro H. apply OMSampleRoundTrip.Ok_inj in H. subst text. apply om_sample_lines in Es. subst ss.
  unfold om_family_lines_of, unlines, om_help_line, om_type_line, om_unit_lines, om_unit_line, mname_tok.
  cbn [flat_map]. rewrite flat_map_app.
  destruct (f_unit f) as [|u0 ur]; cbn [flat_map]; unfold T_hash; repeat (cbn [app]; rewrite <- ?app_assoc); reflexivity.
Qed.

Lemma om_render_unlines f text : om_render true [f] = Ok text ->
  text = unlines (om_family_lines_of f ++ [S_EOF]).
Proof.
  unfold om_render. cbn [res_concat_map]. destruct (Expo.om_family true f) as [t|] eqn:Ef; [|discriminate]. cbn [bind].
  intro H. apply OMSampleRoundTrip.Ok_inj in H. subst text. apply om_family_unlines in Ef. subst t.
  unfold unlines. rewrite flat_map_app. cbn [flat_map]. rewrite !app_nil_r. reflexivity.
Qed.

(* ---------- line-feed freedom ---------- *)
Lemma nlf_om_token t : om_token_ok t -> nlf t = 0%nat.
Proof. intros [H _]. apply nlf_token. exact H. Qed.

Lemma nlf_om_head s : nlf (om_head s) = 0%nat.
Proof.
  pose proof (om_head_cases s) as H. cbv zeta in H. destruct (is_valid_legacy_metric_name (s_name s)) eqn:E; rewrite H.
  - destruct (s_labels s); [apply legacy_name_no_lf; exact E|].
    rewrite cnt_app, (legacy_name_no_lf _ E), nlf_braces, nlf_ltext. reflexivity.
  - cbn [cnt]. change (LBRACE =? LF) with false. cbv iota. rewrite !cnt_app, nlf_quote.
    assert (He : nlf (escape (s_name s)) = 0%nat) by (apply cnt_zero_iff, escape_no_lf). rewrite He.
    cbn [cnt]. change (RBRACE =? LF) with false. cbv iota.
    destruct (sort_kv (s_labels s)) as [|k0 kr]; [reflexivity|]. cbn [sep_text app cnt].
    change (COMMA =? LF) with false. change (SP =? LF) with false. cbv iota. rewrite nlf_ltext. reflexivity.
Qed.

(* ---------- small facts ---------- *)
Lemma om_kvs_eqb_eq a : forall b, om_kvs_eqb a b = true <-> a = b.
Proof.
  induction a as [|[k v] a IH]; intros [|[k' v'] b]; cbn [om_kvs_eqb]; split; intro H; try reflexivity; try discriminate.
  - unfold om_str_pair_eqb in H. cbn [fst snd] in H. apply andb_true_iff in H as [H1 H2]. apply andb_true_iff in H1 as [Hk Hv].
    apply str_eqb_eq in Hk. apply str_eqb_eq in Hv. apply IH in H2. subst. reflexivity.
  - inversion H; subst. unfold om_str_pair_eqb. cbn [fst snd]. rewrite !str_eqb_refl. cbn [andb]. apply IH. reflexivity.
Qed.

Lemma om_mem_kvs_false g l : ~ In g l -> om_mem_kvs g l = false.
Proof.
  induction l as [|x l IH]; intro H; [reflexivity|]. cbn [om_mem_kvs].
  destruct (om_kvs_eqb g x) eqn:E; [apply om_kvs_eqb_eq in E; subst; exfalso; apply H; left; reflexivity|].
  apply IH. intro Hin. apply H. right. exact Hin.
Qed.

Lemma app_neq_self (n sfx : str) : sfx <> [] -> str_eqb (n ++ sfx) n = false.
Proof.
  intro H. apply str_eqb_neq. intro E. apply (f_equal (@length char)) in E. rewrite app_length in E.
  destruct sfx; [congruence|cbn [length] in E; lia].
Qed.

Lemma om_sample_line_noex ft fn s : s_ex s = None -> Expo.om_sample_line true ft fn s = Ok (om_body s ++ [LF]).
Proof.
  intro Hex. unfold Expo.om_sample_line. cbv zeta. rewrite Hex. cbn [bind]. f_equal. unfold om_body. rewrite Hex.
  exact (line_assoc (om_head s) _ _ []).
Qed.

(* ---------- a gauge family ---------- *)
Section Family.
  Variable fix_nhkeys fix_nhsfx fix_tsmix fix_isnan fix_tsexp fix_sname : bool.
  Variable NUM : Type.
  Variable parse_num parse_float : str -> option NUM.
  Variable parse_int : str -> option Z.
  Variable num_lt num_eqb : NUM -> NUM -> bool.
  Variable num_isinf num_integral num_huge : NUM -> bool.
  Variable num_zero num_one num_inf : NUM.
  Variable ts_float : Z -> Z -> option NUM.
  Variable is_word is_space_re is_digit_re : char -> bool.
  Variable val_of : sample -> NUM.
  Variable ts_of : sample -> option (om_tsv NUM).
  Variable n : str.

  Notation step := (om_step_line false true fix_nhkeys fix_nhsfx fix_tsmix fix_isnan true true fix_tsexp fix_sname NUM
                      parse_num parse_float parse_int num_lt num_eqb num_isinf num_integral num_huge num_zero num_one num_inf
                      ts_float is_word is_space_re is_digit_re).
  Notation run := (om_run_lines false true fix_nhkeys fix_nhsfx fix_tsmix fix_isnan true true fix_tsexp fix_sname NUM
                      parse_num parse_float parse_int num_lt num_eqb num_isinf num_integral num_huge num_zero num_one num_inf
                      ts_float is_word is_space_re is_digit_re).
  Notation p_sample := (om_parse_sample false true true fix_tsexp fix_sname NUM parse_num parse_float parse_int num_eqb num_isinf).

  (* what the round trip needs of one sample of a gauge; the value / timestamp clauses are about CPython only *)
  Definition om_sample_ok (s : sample) : Prop :=
    Forall key_ok (map fst (s_labels s)) /\ NoDup (map fst (s_labels s)) /\
    om_token_ok (go_string (s_value s)) /\ parse_num (go_string (s_value s)) = Some (val_of s) /\
    ts_reads fix_tsexp NUM parse_float parse_int num_eqb num_isinf (s_ts_om s) (ts_of s) /\
    s_ex s = None.

  Definition om_ps_of (s : sample) : om_sample NUM :=
    {| os_name := s_name s; os_labels := Some (sort_kv (s_labels s)); os_value := Some (val_of s); os_ts := ts_of s;
       os_ex := None; os_nh := None |}.

  Definition gkey (s : sample) : list (str * str) := sort_kv (sort_kv (s_labels s)).

  Lemma gkey_perm s s' : gkey s = gkey s' -> Permutation (s_labels s') (s_labels s).
  Proof.
    unfold gkey. intro E.
    etransitivity; [apply sort_kv_perm|]. etransitivity; [apply sort_kv_perm|]. rewrite <- E.
    symmetry. etransitivity; [apply sort_kv_perm|]. apply sort_kv_perm.
  Qed.

  Lemma om_body_facts s : om_sample_ok s ->
    (exists c r, om_body s = c :: r /\ c <> HASH) /\ ~ In LF (om_body s) /\
    p_sample (om_body s) = Ok (om_ps_of s).
  Proof.
    intros (Hk & Hnd & Hv & Hpv & Hts & Hex). split; [|split].
    - unfold om_body. pose proof (om_head_cases s) as H. cbv zeta in H.
      destruct (is_valid_legacy_metric_name (s_name s)) eqn:E; rewrite H.
      + destruct (legacy_name_chars (s_name s) E) as (c & r & En & Hall).
        assert (Hc : name_rest c = true) by (inversion Hall; assumption).
        rewrite En. destruct (s_labels s); cbn [app]; eexists _, _; (split; [reflexivity|]);
          intro Ec; subst c; vm_compute in Hc; discriminate.
      + cbn [app]. eexists _, _. split; [reflexivity|discriminate].
    - apply cnt_zero_iff. unfold om_body. rewrite !cnt_app, nlf_om_head, (nlf_om_token _ Hv), Hex. cbn [ex_text cnt].
      unfold OMSampleRoundTrip.ts_text. red in Hts. destruct (s_ts_om s) as [t|]; [|reflexivity].
      destruct Hts as [Ht _]. rewrite nlf_sp, (nlf_om_token _ Ht). reflexivity.
    - destruct (om_sample_roundtrip fix_tsexp fix_sname NUM parse_num parse_float parse_int num_eqb num_isinf
                  S_gauge n s (om_body s ++ [LF]) (val_of s) (ts_of s) None Hk Hnd Hv Hpv Hts)
        as (body & Hb & Hp); [rewrite Hex; reflexivity|apply om_sample_line_noex; exact Hex|].
      apply app_inv_tail in Hb. subst body. exact Hp.
  Qed.

  Lemma pre_checks_gauge smp : os_name smp = n ->
    om_pre_checks NUM parse_float num_lt num_eqb num_integral num_zero num_one num_inf n (Some OM_gauge) smp = Ok tt.
  Proof.
    intro H. unfold om_pre_checks. rewrite H. change (om_typ_is (Some OM_gauge) OM_stateset) with false. cbv iota.
    cbn [bind]. rewrite !app_neq_self by discriminate. cbn [orb bind].
    change (om_typ_is (Some OM_gauge) OM_summary) with false. reflexivity.
  Qed.

  Lemma post_checks_gauge smp : os_name smp = n -> os_ex smp = None ->
    om_post_checks fix_isnan NUM num_lt num_eqb num_huge num_zero num_one n (Some OM_gauge) smp = Ok tt.
  Proof.
    intros H Hex. unfold om_post_checks. rewrite H, Hex.
    change (om_typ_is (Some OM_gauge) OM_stateset) with false. change (om_typ_is (Some OM_gauge) OM_info) with false.
    change (om_typ_is (Some OM_gauge) OM_summary) with false. cbn [andb]. cbv zeta. cbn [bind].
    rewrite skipn_all. reflexivity.
  Qed.

  Lemma group_step_gauge (st : om_st NUM) smp L :
    os_labels smp = Some L -> st_typ st = Some OM_gauge ->
    match st_group st with Some g0 => om_kvs_eqb (sort_kv L) g0 = false | None => True end ->
    om_mem_kvs (sort_kv L) (st_seen_groups st) = false ->
    om_group_step fix_tsmix NUM num_lt num_eqb ts_float st n smp
    = Ok {| st_name := st_name st; st_allowed := st_allowed st; st_eof := st_eof st;
            st_seen := st_seen st; st_typ := st_typ st; st_doc := st_doc st; st_unit := st_unit st;
            st_group := Some (sort_kv L); st_seen_groups := sort_kv L :: st_seen_groups st; st_gts := os_ts smp;
            st_gts_samples := [(os_name smp, sort_kv L)]; st_samples := smp :: st_samples st |}.
  Proof.
    intros HL Htyp Hg Hm. unfold om_group_step. rewrite Htyp. cbv zeta.
    unfold om_group_for_sample. change (str_eqb OM_gauge OM_info) with false.
    change (str_eqb OM_gauge OM_summary) with false. change (str_eqb OM_gauge OM_stateset) with false.
    change (str_eqb OM_gauge OM_histogram) with false. change (str_eqb OM_gauge OM_gaugehistogram) with false.
    cbn [andb orb]. rewrite HL. cbn [bind]. rewrite Hm. rewrite andb_false_r.
    unfold om_labels_of. rewrite HL. cbn [bind].
    destruct (st_group st) as [g0|].
    - rewrite Hg. cbn [bind]. match goal with |- context [if negb ?b then [] else _] => destruct b end;
        cbn [om_mem_sid negb orb]; rewrite ?orb_true_r; reflexivity.
    - cbn [bind]. match goal with |- context [if negb ?b then [] else _] => destruct b end;
        cbn [om_mem_sid negb orb]; rewrite ?orb_true_r; reflexivity.
  Qed.

  (* the parser state inside the family, after the samples [done] *)
  Definition Inv (seen : list str) (doc unit : option str) (st : om_st NUM) (done : list sample) : Prop :=
    st_name st = Some n /\ mem_str n (st_allowed st) = true /\ st_eof st = false /\ st_seen st = seen /\
    st_typ st = Some OM_gauge /\ st_doc st = doc /\ st_unit st = unit /\
    st_samples st = rev (map om_ps_of done) /\
    Forall (fun g => In g (map gkey done)) (st_seen_groups st) /\
    match st_group st with None => True | Some g0 => In g0 (map gkey done) end.

  Lemma step_gauge_sample seen doc unit st done s :
    Inv seen doc unit st done -> om_sample_ok s -> s_name s = n ->
    (forall s', In s' done -> ~ Permutation (s_labels s') (s_labels s)) ->
    exists st', step st (om_body s) = Ok (st', []) /\ Inv seen doc unit st' (done ++ [s]).
  Proof.
    intros (Hname & Hal & Heof & Hseen & Htyp & Hdoc & Hunit & Hsm & Hsg & Hg) Hok Hn Hdist.
    destruct (om_body_facts s Hok) as ((c & r & Eb & Hc) & _ & Hp).
    assert (Hfresh : forall g0, In g0 (map gkey done) -> om_kvs_eqb (gkey s) g0 = false).
    { intros g0 Hin. destruct (om_kvs_eqb (gkey s) g0) eqn:E; [|reflexivity]. apply om_kvs_eqb_eq in E. subst g0.
      apply in_map_iff in Hin as (s' & Es & Hs'). exfalso. apply (Hdist s' Hs'). apply gkey_perm. symmetry. exact Es. }
    assert (Hgs := group_step_gauge st (om_ps_of s) (sort_kv (s_labels s)) eq_refl Htyp).
    fold (gkey s) in Hgs. cbn [os_ts os_name om_ps_of] in Hgs.
    eexists. split.
    - unfold om_step_line. rewrite Heof. rewrite Eb in *.
      change OM_EOF with (HASH :: [32; 69; 79; 70]). cbn [str_eqb].
      destruct (N.eqb_spec c HASH); [contradiction|]. cbn [andb].
      unfold OMParser.om_sample_line, om_read_sample. rewrite Htyp.
      change (om_typ_is (Some OM_gauge) OM_histogram) with false. cbv iota.
      rewrite Hp. cbn [bind]. unfold om_enter_family. cbn [os_name om_ps_of]. rewrite Hn, Hal. cbn [negb andb bind]. cbv beta iota.
      rewrite Hname, Htyp. rewrite pre_checks_gauge by (cbn [os_name]; exact Hn). cbn [bind negb].
      rewrite Hgs.
      + cbn [bind]. rewrite post_checks_gauge by (cbn [os_name os_ex]; auto). cbn [bind]. reflexivity.
      + destruct (st_group st) as [g0|]; [apply Hfresh; exact Hg|exact I].
      + apply om_mem_kvs_false. intro Hin. rewrite Forall_forall in Hsg. specialize (Hfresh _ (Hsg _ Hin)).
        rewrite (proj2 (om_kvs_eqb_eq _ _) eq_refl) in Hfresh. discriminate.
    - unfold Inv. cbn [st_name st_allowed st_eof st_seen st_typ st_doc st_unit st_samples st_seen_groups st_group].
      repeat split; auto.
      + rewrite map_app, rev_app_distr, Hsm. reflexivity.
      + constructor; [rewrite map_app; apply in_or_app; right; left; reflexivity|].
        eapply Forall_impl; [|exact Hsg]. intros g Hin. rewrite map_app. apply in_or_app. left. exact Hin.
      + rewrite map_app. apply in_or_app. right. left. reflexivity.
  Qed.

  Lemma run_gauge_samples seen doc unit ss : forall st done more acc,
    Inv seen doc unit st done -> Forall om_sample_ok ss -> Forall (fun s => s_name s = n) ss ->
    (forall s s', In s ss -> In s' done -> ~ Permutation (s_labels s') (s_labels s)) ->
    ForallOrdPairs (fun s1 s2 => ~ Permutation (s_labels s1) (s_labels s2)) ss ->
    exists st', Inv seen doc unit st' (done ++ ss) /\ run st (map om_body ss ++ more) acc = run st' more acc.
  Proof.
    induction ss as [|s ss IH]; intros st done more acc HI Hok Hn Hd Hp.
    - exists st. rewrite app_nil_r. split; [exact HI|reflexivity].
    - inversion Hok as [|? ? Hs Hss]; subst. inversion Hn as [|? ? Hns Hnss]; subst. inversion Hp as [|? ? Hps Hpss]; subst.
      destruct (step_gauge_sample seen doc unit st done s HI Hs Hns) as (st1 & Hst & HI1).
      { intros s' Hs'. apply Hd; [left; reflexivity|exact Hs']. }
      destruct (IH st1 (done ++ [s]) more (acc ++ []) HI1 Hss Hnss) as (st2 & HI2 & Hrun); [|exact Hpss|].
      { intros s2 s' H2 Hs'. apply in_app_or in Hs' as [Hs'|[<-|[]]]; [apply Hd; [right; exact H2|exact Hs']|].
        rewrite Forall_forall in Hps. apply Hps. exact H2. }
      exists st2. rewrite <- app_assoc in HI2. cbn [app] in HI2. split; [exact HI2|].
      cbn [map app om_run_lines]. rewrite Hst. cbn [bind]. rewrite Hrun, app_nil_r. reflexivity.
  Qed.

  Notation meta := (om_meta_line false true true NUM parse_float num_lt num_eqb num_zero num_inf).
  Notation p_text := (om_parse false true fix_nhkeys fix_nhsfx fix_tsmix fix_isnan true true fix_tsexp fix_sname NUM
                      parse_num parse_float parse_int num_lt num_eqb num_isinf num_integral num_huge num_zero num_one num_inf
                      ts_float is_word is_space_re is_digit_re).

  (* a comment line that is not the end marker goes to the metadata reader *)
  Lemma step_is_meta st c0 r : st_eof st = false -> c0 <> 69 ->
    step st (HASH :: SP :: c0 :: r) = meta st (HASH :: SP :: c0 :: r).
  Proof.
    intros Heof Hc. unfold om_step_line. rewrite Heof.
    change OM_EOF with (HASH :: SP :: [69; 79; 70]). cbn [str_eqb]. rewrite !N.eqb_refl.
    destruct (N.eqb_spec c0 69); [contradiction|]. cbn [andb]. reflexivity.
  Qed.

  Lemma step_help st doc : st_eof st = false -> step st (om_help_line n doc) = meta st (om_help_line n doc).
  Proof. intro H. unfold om_help_line, T_hash. change OM_HELP with (72 :: [69; 76; 80]). cbn [app]. apply step_is_meta; [exact H|discriminate]. Qed.
  Lemma step_type st typ : st_eof st = false -> step st (om_type_line n typ) = meta st (om_type_line n typ).
  Proof. intro H. unfold om_type_line, T_hash. change OM_TYPE with (84 :: [89; 80; 69]). cbn [app]. apply step_is_meta; [exact H|discriminate]. Qed.
  Lemma step_unit st u : st_eof st = false -> step st (om_unit_line n u) = meta st (om_unit_line n u).
  Proof. intro H. unfold om_unit_line, T_hash. change OM_UNIT with (85 :: [78; 73; 84]). cbn [app]. apply step_is_meta; [exact H|discriminate]. Qed.

  Lemma step_eof st : st_eof st = false ->
    step st S_EOF = Ok ({| st_name := st_name st; st_allowed := st_allowed st; st_eof := true; st_seen := st_seen st;
                           st_typ := st_typ st; st_doc := st_doc st; st_unit := st_unit st; st_group := st_group st;
                           st_seen_groups := st_seen_groups st; st_gts := st_gts st;
                           st_gts_samples := st_gts_samples st; st_samples := st_samples st |}, []).
  Proof. intro Heof. unfold om_step_line. rewrite Heof. reflexivity. Qed.

  (* build_metric for a gauge whose name is new *)
  Lemma build_gauge seen doc unit samples :
    n <> [] -> mem_str (n ++ []) seen = false ->
    (match unit with None => True | Some u => u = [] \/ ends_with (USCORE :: u) n = true end) ->
    om_build_metric false NUM parse_float num_lt num_eqb num_zero num_inf seen n (Some doc) (Some OM_gauge) unit samples
    = Ok ({| of_name := n; of_doc := doc; of_type := OM_gauge;
             of_unit := match unit with None => [] | Some u => u end; of_samples := samples |}, seen ++ [n ++ []]).
  Proof.
    intros Hne Hseen Hu. unfold om_build_metric.
    change (om_type_suffixes OM_gauge []) with (@nil str). cbn [app om_nodup_str mem_str map existsb orb].
    rewrite Hseen. cbn [orb].
    change (str_eqb OM_gauge OM_info) with false. change (str_eqb OM_gauge OM_stateset) with false.
    change (str_eqb OM_gauge OM_histogram) with false. change (str_eqb OM_gauge OM_gaugehistogram) with false.
    cbn [orb]. rewrite andb_false_r.
    assert (Hv : om_validate_metric_name false n = Ok tt).
    { unfold om_validate_metric_name, validate_metric_name_utf8. destruct n; [congruence|reflexivity]. }
    rewrite Hv. cbn [bind].
    destruct unit as [[|u0 ur]|]; cbn [andb negb bind].
    - change (mem_str OM_gauge OM_METRIC_TYPES) with true. reflexivity.
    - destruct Hu as [Hu|Hu]; [discriminate|]. rewrite Hu. cbn [negb bind].
      change (mem_str OM_gauge OM_METRIC_TYPES) with true. reflexivity.
    - change (mem_str OM_gauge OM_METRIC_TYPES) with true. reflexivity.
  Qed.

  Lemma nlf_meta_line kw tok rest : nlf kw = 0%nat -> nlf tok = 0%nat -> nlf rest = 0%nat ->
    ~ In LF (T_hash ++ SP :: kw ++ SP :: tok ++ SP :: rest).
  Proof.
    intros H1 H2 H3. apply cnt_zero_iff. unfold T_hash. cbn [app cnt]. change (HASH =? LF) with false. change (SP =? LF) with false.
    cbv iota. rewrite cnt_app, H1. cbn [cnt]. change (SP =? LF) with false. cbv iota. rewrite cnt_app, H2. cbn [cnt].
    change (SP =? LF) with false. cbv iota. rewrite H3. reflexivity.
  Qed.

  (* the hypotheses on one gauge family *)
  Definition gauge_family_ok (f : family) : Prop :=
    f_name f <> [] /\ f_type f = Expo.S_gauge /\
    (f_unit f = [] \/ ends_with (USCORE :: f_unit f) (f_name f) = true) /\
    Forall om_sample_ok (f_samples f) /\ Forall (fun s => s_name s = f_name f) (f_samples f) /\
    ForallOrdPairs (fun s1 s2 => ~ Permutation (s_labels s1) (s_labels s2)) (f_samples f).

  Definition fam_of (f : family) : om_family NUM :=
    {| of_name := f_name f; of_doc := f_doc f; of_type := OM_gauge; of_unit := f_unit f;
       of_samples := map om_ps_of (f_samples f) |}.

  Lemma family_lines_no_lf f : f_name f = n -> gauge_family_ok f -> Forall (fun l => ~ In LF l) (om_family_lines_of f).
  Proof.
    intros Hfn (Hne & Hty & _ & Hok & _). 
    assert (Hmn : nlf (mname_tok n) = 0%nat) by apply nlf_escape_metric_name.
    unfold om_family_lines_of. rewrite Hfn, Hty. constructor; [|constructor; [|apply Forall_app; split]].
    - apply nlf_meta_line; [reflexivity|exact Hmn|apply nlf_escape].
    - apply nlf_meta_line; [reflexivity|exact Hmn|reflexivity].
    - unfold om_unit_lines. destruct (f_unit f); [constructor|]. constructor; [|constructor].
      apply nlf_meta_line; [reflexivity|exact Hmn|apply nlf_escape].
    - rewrite Forall_forall in *. intros l Hl. apply in_map_iff in Hl as (s & <- & Hs).
      destruct (om_body_facts s (Hok s Hs)) as (_ & H & _). exact H.
  Qed.

  (* the lines of one family, read in a state whose family in progress (if any) can be closed *)
  Lemma run_family st f more acc out seen' :
    f_name f = n -> gauge_family_ok f ->
    st_eof st = false -> om_flush false NUM parse_float num_lt num_eqb num_zero num_inf st = Ok (out, seen') ->
    om_opt_str_eqb (st_name st) n = false -> mem_str (n ++ []) seen' = false ->
    exists st', run st (om_family_lines_of f ++ more) acc = run st' more (acc ++ out) /\
      st_eof st' = false /\ st_name st' = Some n /\
      om_flush false NUM parse_float num_lt num_eqb num_zero num_inf st' = Ok ([fam_of f], seen' ++ [n ++ []]).
  Proof.
    intros Hfn (Hne & Hty & Hun & Hok & Hnm & Hpw) Heof Hfl Hneq Hnew. rewrite Hfn in *.
    unfold om_family_lines_of. rewrite Hfn, Hty. cbn [app om_run_lines].
    rewrite step_help by exact Heof.
    rewrite (meta_help NUM parse_float num_lt num_eqb num_zero num_inf st n (f_doc f) out seen' Hne Hneq Hfl).
    cbn [bind app].
    rewrite step_type by exact Heof.
    rewrite meta_type by (try reflexivity; exact Hne).
    cbn [bind app st_name st_allowed st_eof st_seen st_typ st_doc st_unit st_group st_seen_groups st_gts st_gts_samples st_samples].
    change (om_type_suffixes Expo.S_gauge [[]]) with [@nil char]. cbn [map]. rewrite (app_nil_r (acc ++ out)).
    destruct (f_unit f) as [|u0 ur] eqn:Eu.
    - cbn [om_unit_lines app].
      match goal with |- context [@Build_om_st ?a ?b ?c ?d ?e ?f0 ?g ?h ?i ?j ?k ?l ?m] =>
        set (st2 := @Build_om_st a b c d e f0 g h i j k l m) end.
      assert (HI : Inv seen' (Some (f_doc f)) None st2 []).
      { subst st2. unfold Inv. cbn [st_name st_allowed st_eof st_seen st_typ st_doc st_unit st_samples st_seen_groups st_group mem_str].
        rewrite app_nil_r, str_eqb_refl. repeat split; auto. }
      destruct (run_gauge_samples seen' (Some (f_doc f)) None (f_samples f) st2 [] more (acc ++ out) HI Hok Hnm)
        as (st3 & HI3 & Hrun); [intros ? ? ? []|exact Hpw|].
      exists st3. split; [exact Hrun|].
      destruct HI3 as (Hname & Hal & Heof3 & Hseen & Htyp & Hdoc & Hunit & Hsm & _).
      split; [exact Heof3|]. split; [exact Hname|]. unfold om_flush.
      rewrite Hname, Hseen, Hdoc, Htyp, Hunit, Hsm. cbn [app]. rewrite rev_involutive.
      rewrite (build_gauge seen' (f_doc f) None _ Hne Hnew I). unfold fam_of. rewrite Hfn, Eu. reflexivity.
    - cbn [om_unit_lines app om_run_lines].
      rewrite step_unit by exact Heof.
      rewrite meta_unit by (try reflexivity; exact Hne).
      cbn [bind app st_name st_allowed st_eof st_seen st_typ st_doc st_unit st_group st_seen_groups st_gts st_gts_samples st_samples].
      rewrite (app_nil_r (acc ++ out)).
      match goal with |- context [@Build_om_st ?a ?b ?c ?d ?e ?f0 ?g ?h ?i ?j ?k ?l ?m] =>
        set (st2 := @Build_om_st a b c d e f0 g h i j k l m) end.
      assert (HI : Inv seen' (Some (f_doc f)) (Some (u0 :: ur)) st2 []).
      { subst st2. unfold Inv. cbn [st_name st_allowed st_eof st_seen st_typ st_doc st_unit st_samples st_seen_groups st_group mem_str].
        rewrite app_nil_r, str_eqb_refl. repeat split; auto. }
      destruct (run_gauge_samples seen' (Some (f_doc f)) (Some (u0 :: ur)) (f_samples f) st2 [] more (acc ++ out) HI Hok Hnm)
        as (st3 & HI3 & Hrun); [intros ? ? ? []|exact Hpw|].
      exists st3. split; [exact Hrun|].
      destruct HI3 as (Hname & Hal & Heof3 & Hseen & Htyp & Hdoc & Hunit & Hsm & _).
      split; [exact Heof3|]. split; [exact Hname|]. unfold om_flush.
      rewrite Hname, Hseen, Hdoc, Htyp, Hunit, Hsm. cbn [app]. rewrite rev_involutive.
      rewrite (build_gauge seen' (f_doc f) (Some (u0 :: ur)) _ Hne Hnew Hun). unfold fam_of. rewrite Hfn, Eu. reflexivity.
  Qed.

  (* the end marker, then the end of the input *)
  Lemma run_eof st acc out seen' :
    st_eof st = false -> om_flush false NUM parse_float num_lt num_eqb num_zero num_inf st = Ok (out, seen') ->
    run st [S_EOF] acc = Ok (acc ++ out).
  Proof.
    intros Heof Hfl. cbn [om_run_lines]. rewrite (step_eof st Heof). cbn [bind om_run_lines].
    unfold om_flush in *. cbn [st_name st_seen st_doc st_typ st_unit st_samples st_eof].
    destruct (st_name st) as [nm|].
    - destruct (om_build_metric _ _ _ _ _ _ _ _ _ _ _ _ _) as [[m s']|e]; [|discriminate]. cbn [bind] in *.
      apply OMSampleRoundTrip.Ok_inj in Hfl. inversion Hfl; subst. rewrite app_nil_r. reflexivity.
    - apply OMSampleRoundTrip.Ok_inj in Hfl. inversion Hfl; subst. cbn [bind]. rewrite app_nil_r. reflexivity.
  Qed.
End Family.

(* ---------- documents: any number of gauge families ---------- *)
Lemma om_families_unlines fams : forall body,
  res_concat_map (Expo.om_family true) fams = Ok body -> body = unlines (flat_map om_family_lines_of fams).
Proof.
  induction fams as [|f fams IH]; intros body H; cbn [res_concat_map] in H.
  - apply OMSampleRoundTrip.Ok_inj in H. subst body. reflexivity.
  - destruct (Expo.om_family true f) as [t|] eqn:Ef; [|discriminate]. cbn [bind] in H.
    destruct (res_concat_map (Expo.om_family true) fams) as [y|] eqn:Ey; [|discriminate]. cbn [bind] in H.
    apply OMSampleRoundTrip.Ok_inj in H. subst body. apply om_family_unlines in Ef. subst t. rewrite (IH y eq_refl).
    cbn [flat_map]. unfold unlines. rewrite flat_map_app. reflexivity.
Qed.

Lemma om_render_all_unlines fams text : om_render true fams = Ok text ->
  text = unlines (flat_map om_family_lines_of fams ++ [S_EOF]).
Proof.
  unfold om_render. destruct (res_concat_map (Expo.om_family true) fams) as [b|] eqn:Eb; [|discriminate]. cbn [bind].
  intro H. apply OMSampleRoundTrip.Ok_inj in H. subst text. apply om_families_unlines in Eb. subst b.
  unfold unlines. rewrite flat_map_app. cbn [flat_map]. rewrite !app_nil_r. reflexivity.
Qed.

Lemma mem_str_app s a b : mem_str s (a ++ b) = mem_str s a || mem_str s b.
Proof. induction a as [|x a IH]; cbn [app mem_str]; [reflexivity|]. rewrite IH, orb_assoc. reflexivity. Qed.

Section Families.
  Variable fix_nhkeys fix_nhsfx fix_tsmix fix_isnan fix_tsexp fix_sname : bool.
  Variable NUM : Type.
  Variable parse_num parse_float : str -> option NUM.
  Variable parse_int : str -> option Z.
  Variable num_lt num_eqb : NUM -> NUM -> bool.
  Variable num_isinf num_integral num_huge : NUM -> bool.
  Variable num_zero num_one num_inf : NUM.
  Variable ts_float : Z -> Z -> option NUM.
  Variable is_word is_space_re is_digit_re : char -> bool.
  Variable val_of : sample -> NUM.
  Variable ts_of : sample -> option (om_tsv NUM).

  Notation run := (om_run_lines false true fix_nhkeys fix_nhsfx fix_tsmix fix_isnan true true fix_tsexp fix_sname NUM
                      parse_num parse_float parse_int num_lt num_eqb num_isinf num_integral num_huge num_zero num_one num_inf
                      ts_float is_word is_space_re is_digit_re).
  Notation p_text := (om_parse false true fix_nhkeys fix_nhsfx fix_tsmix fix_isnan true true fix_tsexp fix_sname NUM
                      parse_num parse_float parse_int num_lt num_eqb num_isinf num_integral num_huge num_zero num_one num_inf
                      ts_float is_word is_space_re is_digit_re).
  Notation fam_ok := (gauge_family_ok fix_tsexp NUM parse_num parse_float parse_int num_eqb num_isinf val_of ts_of).
  Notation fam := (fam_of NUM val_of ts_of).
  Notation flush_ := (om_flush false NUM parse_float num_lt num_eqb num_zero num_inf).

  Lemma run_families fams : forall st acc out seen',
    Forall fam_ok fams -> NoDup (map f_name fams) ->
    st_eof st = false -> flush_ st = Ok (out, seen') ->
    (forall f, In f fams -> om_opt_str_eqb (st_name st) (f_name f) = false /\ mem_str (f_name f ++ []) seen' = false) ->
    run st (flat_map om_family_lines_of fams ++ [S_EOF]) acc = Ok (acc ++ out ++ map fam fams).
  Proof.
    induction fams as [|f fs IH]; intros st acc out seen' Hok Hnd Heof Hfl Hnew.
    - cbn [flat_map app map]. rewrite app_nil_r. eapply run_eof; eauto.
    - inversion Hok as [|? ? Hf Hfs]; subst. inversion Hnd as [|? ? Hnin Hnd']; subst.
      destruct (Hnew f (or_introl eq_refl)) as [Hn1 Hn2].
      cbn [flat_map]. rewrite <- app_assoc.
      destruct (run_family fix_nhkeys fix_nhsfx fix_tsmix fix_isnan fix_tsexp fix_sname NUM parse_num parse_float parse_int
                  num_lt num_eqb num_isinf num_integral num_huge num_zero num_one num_inf ts_float is_word is_space_re
                  is_digit_re val_of ts_of (f_name f) st f (flat_map om_family_lines_of fs ++ [S_EOF]) acc out seen'
                  eq_refl Hf Heof Hfl Hn1 Hn2) as (st' & Hrun & Heof' & Hname' & Hfl').
      rewrite Hrun. rewrite (IH st' (acc ++ out) [fam f] (seen' ++ [f_name f ++ []]) Hfs Hnd' Heof' Hfl').
      + cbn [map app]. rewrite <- !app_assoc. reflexivity.
      + intros g Hg. rewrite Hname'. cbn [om_opt_str_eqb].
        assert (Hne : f_name f <> f_name g).
        { intro E. apply Hnin. rewrite E. apply in_map. exact Hg. }
        split; [apply str_eqb_neq; exact Hne|].
        rewrite mem_str_app. destruct (Hnew g (or_intror Hg)) as [_ ->]. cbn [orb mem_str]. rewrite orb_false_r.
        apply str_eqb_neq. rewrite !app_nil_r. intro E. apply Hne. symmetry. exact E.
  Qed.

  (* C04 L5: a document of gauge families with different names, and the end marker *)
  Theorem om_gauge_families_roundtrip fams text :
    Forall fam_ok fams -> NoDup (map f_name fams) ->
    om_render true fams = Ok text ->
    p_text text = Ok (map fam fams).
  Proof.
    intros Hok Hnd Hr. apply om_render_all_unlines in Hr. subst text.
    assert (Hlf : Forall (fun l => ~ In LF l) (flat_map om_family_lines_of fams ++ [S_EOF])).
    { apply Forall_app. split; [|repeat constructor; vm_compute; intuition discriminate].
      rewrite Forall_forall in *. intros l Hl. apply in_flat_map in Hl as (f & Hf & Hl).
      pose proof (family_lines_no_lf fix_tsexp fix_sname NUM parse_num parse_float parse_int num_eqb num_isinf val_of ts_of
                    (f_name f) f eq_refl (Hok f Hf)) as H. rewrite Forall_forall in H. apply H. exact Hl. }
    unfold om_parse, om_lines. rewrite (split_unlines _ Hlf). rewrite rev_app_distr. cbn [rev app]. rewrite rev_involutive.
    rewrite (run_families fams om_st_init [] [] [] Hok Hnd eq_refl eq_refl); [reflexivity|].
    intros f _. split; reflexivity.
  Qed.

  (* one family *)
  Corollary om_gauge_family_roundtrip n f text :
    f_name f = n -> n <> [] -> f_type f = Expo.S_gauge ->
    (f_unit f = [] \/ ends_with (USCORE :: f_unit f) n = true) ->
    Forall (om_sample_ok fix_tsexp NUM parse_num parse_float parse_int num_eqb num_isinf val_of ts_of) (f_samples f) ->
    Forall (fun s => s_name s = n) (f_samples f) ->
    ForallOrdPairs (fun s1 s2 => ~ Permutation (s_labels s1) (s_labels s2)) (f_samples f) ->
    om_render true [f] = Ok text ->
    p_text text = Ok [ {| of_name := n; of_doc := f_doc f; of_type := OM_gauge; of_unit := f_unit f;
                          of_samples := map (om_ps_of NUM val_of ts_of) (f_samples f) |} ].
  Proof.
    intros Hfn Hne Hty Hun Hok Hnm Hpw Hr. subst n.
    apply (om_gauge_families_roundtrip [f] text); [|repeat constructor; intros []|exact Hr].
    constructor; [|constructor]. repeat split; auto.
  Qed.
End Families.
