(* C08 - a USER label named `le` on a family that is not a histogram (Histogram alone reserves the name; Counter, Summary
   and Gauge accept it): _accumulate_metrics dispatches on metric.type FIRST, the bucket table is fed by histogram samples
   only.  For a counter / summary family the series key is (sample name, full label tuple), `le` included, whatever its
   value (float() is never applied to it). *)
From V Require Import lib.PyBase lib.Tac model.Multiproc model.MultiprocSpec proofs.MultiprocProofs.
Open Scope N_scope.

Section UserLe.
  Variable F : Type.
  Variable fzero : F.
  Variable fadd : F -> F -> F.
  Variable flt : F -> F -> bool.
  Variable feqb : F -> F -> bool.
  Variable parse_le : str -> F.
  Variable fmt_le : F -> str.

  Notation accumulate := (accumulate F fzero fadd flt feqb parse_le fmt_le).

  Lemma plain_family_accumulate (m : metric F) :
    str_eqb (m_typ F m) S_gauge = false -> str_eqb (m_typ F m) S_histogram = false ->
    accumulate m = acc_plain F fzero fadd (m_samples F m).
  Proof. intros H1 H2. unfold Multiproc.accumulate. rewrite H1, H2. reflexivity. Qed.

  (* no series of such a family is dropped, duplicated or re-keyed - the ones that carry a label named le included *)
  Lemma plain_family_series (m : metric F) (k : skey) :
    str_eqb (m_typ F m) S_gauge = false -> str_eqb (m_typ F m) S_histogram = false ->
    NoDup (map fst (accumulate m))
    /\ (d_find skey_eqb (accumulate m) k <> None <-> In k (map (full_key F) (m_samples F m))).
  Proof.
    intros H1 H2. rewrite (plain_family_accumulate m H1 H2). split; [apply acc_plain_NoDup|].
    rewrite (acc_plain_spec F fzero fadd (m_samples F m) k). apply plain_present.
  Qed.

  (* and the gauge branch does not look at `le` either: the series key of a gauge drops the pid label only *)
  Lemma gauge_family_accumulate (m : metric F) :
    str_eqb (m_typ F m) S_gauge = true ->
    accumulate m = acc_gauge F fzero fadd flt feqb (m_mode F m) (m_samples F m).
  Proof. intros H1. unfold Multiproc.accumulate. rewrite H1. reflexivity. Qed.
End UserLe.
