(* C02 - the final value of a LABELLED child's cell against the program text (continues proofs/ConcFinalProofs.v).
   Invariant: the remaining code of every thread is a suffix-state of its compiled operation list. *)
From V Require Import lib.PyBase lib.Tac model.Conc proofs.ConcProofs proofs.ConcFinalProofs.
Ltac Zify.zify_post_hook ::= Z.to_euclidean_division_equations.
Open Scope N_scope.

(* ---------- a table is only written by the thread that holds its lock ---------- *)
Lemma step_tabs_frame mp bodies h0 tb0 t c c' tb :
  Inv (lib_disc mp) (lib_owner mp) h0 tb0 c -> step bodies t c = Some c' ->
  ~ In (tlock (lib_disc mp) tb) (held (thr c t)) -> tabs c' tb = tabs c tb.
Proof.
  intros (_ & HT & _) Hs Hnh. destruct (HT t) as (f & h & ld & ms & Hwf & Hheld & _).
  unfold step in Hs. destruct (thr c t) as [cd rg hd] eqn:Hthr. simpl in *.
  destruct cd as [|i rest]; [discriminate|]. destruct f as [|f]; [discriminate|]. simpl in Hwf.
  destruct i; simpl in Hs;
    try (injection Hs as <-; reflexivity).
  - destruct (locks c (res_lock rg l)); [discriminate|]. injection Hs as <-. reflexivity.
  - injection Hs as <-. simpl. bsplit. unfold updf. destruct (N.eqb tb t0) eqn:E; [|reflexivity].
    apply N.eqb_eq in E; subst t0. exfalso. apply Hnh. rewrite <- Hheld. apply tguard_held. assumption.
  - injection Hs as <-. simpl. bsplit. unfold updf. destruct (N.eqb tb t0) eqn:E; [|reflexivity].
    apply N.eqb_eq in E; subst t0. exfalso. apply Hnh. rewrite <- Hheld. apply tguard_held. assumption.
  - injection Hs as <-. simpl. bsplit. unfold updf. destruct (N.eqb tb t0) eqn:E; [|reflexivity].
    apply N.eqb_eq in E; subst t0. exfalso. apply Hnh. rewrite <- Hheld. apply tguard_held. assumption.
  - destruct (rg r) as [| | |[|[k0 id] more]]; injection Hs as <-; reflexivity.
  - destruct hd; injection Hs as <-; reflexivity.
Qed.

Lemma step_next bodies t c c' : step bodies t c = Some c' ->
  next c' = match code (thr c t) with New _ :: _ => next c + 1 | _ => next c end.
Proof.
  unfold step. destruct (thr c t) as [cd rg hd]. simpl. destruct cd as [|i rest]; [discriminate|].
  destruct i; simpl; intro Hs; try (injection Hs as <-; reflexivity).
  - destruct (locks c (res_lock rg l)); [discriminate|]. injection Hs as <-. reflexivity.
  - destruct (rg r) as [| | |[|[k0 id] more]]; injection Hs as <-; reflexivity.
  - destruct hd; injection Hs as <-; reflexivity.
Qed.

(* ---------- association lists: membership ---------- *)
Lemma d_find_In (d : list (key * N)) k v : d_find N.eqb d k = Some v -> In (k, v) d.
Proof.
  induction d as [|[k0 v0] d IH]; simpl; [discriminate|].
  destruct (N.eqb k k0) eqn:E; intro H.
  - apply N.eqb_eq in E. injection H as ->. subst. left; reflexivity.
  - right; auto.
Qed.
Lemma In_d_set (d : list (key * N)) k1 v1 k v : In (k, v) (d_set N.eqb d k1 v1) -> (k, v) = (k1, v1) \/ In (k, v) d.
Proof.
  induction d as [|[k0 v0] d IH]; simpl.
  - intros [H|[]]; left; congruence.
  - destruct (N.eqb k1 k0) eqn:E; simpl.
    + apply N.eqb_eq in E; subst k0. intros [H|H]; [left; congruence|right; right; exact H].
    + intros [H|H]; [right; left; exact H|]. destruct (IH H); auto.
Qed.
Lemma In_d_remove (d : list (key * N)) k1 k v : In (k, v) (d_remove N.eqb d k1) -> In (k, v) d.
Proof.
  induction d as [|[k0 v0] d IH]; simpl; [tauto|].
  destruct (N.eqb k1 k0); simpl; [auto|]. intros [H|H]; auto.
Qed.

(* ---------- which (table, key) an id was ever bound to ---------- *)
Section Born.
  Variable D : discipline.
  Variable tb0 : tbl -> list (key * N).
  Variable n0 : N.

  Definition born (tr : list event) (id : N) (tb : tbl) (k : key) : Prop :=
    In (k, id) (tb0 tb) \/ exists t, In (EvTWrite t tb (WIns k id)) tr.

  Lemma born_mono evs tr id tb k : born tr id tb k -> born (evs ++ tr) id tb k.
  Proof. intros [H|[t H]]; [left; exact H|right; exists t; apply in_or_app; right; exact H]. Qed.
  Lemma born_cons ev tr id tb k : born (ev :: tr) id tb k ->
    (exists t, ev = EvTWrite t tb (WIns k id)) \/ born tr id tb k.
  Proof. intros [H|[t [H|H]]]; [right; left; exact H|left; eauto|right; right; eauto]. Qed.

  Lemma In_hist_born tr : forall tb k id, In (k, id) (tab_hist tb0 tb tr) -> born tr id tb k.
  Proof.
    induction tr as [|ev tr IH]; intros tb k id H; simpl in H; [left; exact H|].
    assert (Hm : born tr id tb k -> born (ev :: tr) id tb k) by apply (born_mono [ev]).
    destruct ev; auto.
    destruct (N.eqb tb tb1) eqn:E; [|auto]. apply N.eqb_eq in E; subst tb1.
    destruct w as [k1 v1|k1|].
    - apply In_d_set in H as [H|H]; [|auto]. injection H as -> ->. right. exists t. left. reflexivity.
    - apply In_d_remove in H. auto.
    - destruct H.
  Qed.
  Lemma find_born tr tb k id : d_find N.eqb (tab_hist tb0 tb tr) k = Some id -> born tr id tb k.
  Proof. intro H. apply In_hist_born. apply d_find_In. exact H. Qed.

  (* the initial child tables: entries are not shadowed, ids are below the fresh-id counter and are not shared *)
  Definition init_ok : Prop :=
    forall tb, 2 <= tb ->
      (forall k id, In (k, id) (tb0 tb) -> d_find N.eqb (tb0 tb) k = Some id /\ id < n0) /\
      (forall tb' k k' id, 2 <= tb' -> In (k, id) (tb0 tb) -> In (k', id) (tb0 tb') -> tb = tb' /\ k = k').

  (* in a create-only table that is never removed from, everything ever bound to a key is its current binding *)
  Lemma born_stable TB K id : init_ok -> 2 <= TB -> create_only D TB = true -> forall tr,
    no_removal TB tr -> ins_fresh D tb0 tr -> born tr id TB K ->
    d_find N.eqb (tab_hist tb0 TB tr) K = Some id.
  Proof.
    intros Hi HTB Hco. induction tr as [|ev tr IH]; intros Hnr Hf Hb.
    - destruct Hb as [H|[t []]]. simpl. apply (Hi TB HTB). exact H.
    - apply born_cons in Hb as [[t ->]|Hb].
      + simpl. rewrite N.eqb_refl, d_find_d_set, N.eqb_refl. reflexivity.
      + destruct ev; simpl in *; auto. destruct w as [k1 v1|k1|].
        * destruct Hf as [Hfr Hf]. specialize (IH Hnr Hf Hb).
          destruct (N.eqb TB tb) eqn:E; [|exact IH]. apply N.eqb_eq in E; subst tb.
          rewrite d_find_d_set. destruct (N.eqb K k1) eqn:Ek; [|exact IH].
          apply N.eqb_eq in Ek; subst k1. rewrite (Hfr Hco) in IH. discriminate.
        * destruct Hnr as [E Hnr]. rewrite N.eqb_sym, E. auto.
        * destruct Hnr as [E Hnr]. rewrite N.eqb_sym, E. auto.
  Qed.

  (* fresh ids: every New id is in [n0, next), one thread per id; an insertion into a child table uses an id the
     inserting thread created itself; one id is never inserted under two (table, key) pairs *)
  Definition GI (tr : list event) (nx : N) : Prop :=
    n0 <= nx /\
    (forall t id, In (EvNew t id) tr -> n0 <= id < nx) /\
    (forall t t' id, In (EvNew t id) tr -> In (EvNew t' id) tr -> t = t') /\
    (forall t tb k id, 2 <= tb -> In (EvTWrite t tb (WIns k id)) tr -> In (EvNew t id) tr) /\
    (forall t1 tb1 k1 t2 tb2 k2 id, 2 <= tb1 -> 2 <= tb2 ->
       In (EvTWrite t1 tb1 (WIns k1 id)) tr -> In (EvTWrite t2 tb2 (WIns k2 id)) tr -> tb1 = tb2 /\ k1 = k2).

  Definition ev_allowed (tr : list event) (nx : N) (ev : event) : Prop :=
    match ev with
    | EvNew _ id => id = nx
    | EvTWrite t tb (WIns k id) =>
        2 <= tb -> In (EvNew t id) tr /\ forall tb' k', 2 <= tb' -> ~ In (EvTWrite t tb' (WIns k' id)) tr
    | _ => True
    end.
  Definition nx_after (nx : N) (ev : event) : N := match ev with EvNew _ _ => nx + 1 | _ => nx end.

  Lemma GI_step tr nx ev : GI tr nx -> ev_allowed tr nx ev -> GI (ev :: tr) (nx_after nx ev).
  Proof.
    intros (G0 & G1 & G2 & G3 & G4) Ha.
    assert (Hnx : nx <= nx_after nx ev) by (destruct ev; simpl; lia).
    split; [lia|]. split; [|split; [|split]].
    - intros t id [E|H].
      + subst ev. simpl in Ha. subst id. simpl. lia.
      + specialize (G1 t id H). lia.
    - intros t t' id [E|H] [E'|H'].
      + subst ev. congruence.
      + subst ev. simpl in Ha. subst id. specialize (G1 t' nx H'). lia.
      + subst ev. simpl in Ha. subst id. specialize (G1 t nx H). lia.
      + eauto.
    - intros t tb k id Htb [E|H].
      + subst ev. simpl in Ha. right. apply (Ha Htb).
      + right. eauto.
    - intros t1 tb1 k1 t2 tb2 k2 id H1 H2 [E|H] [E'|H'].
      + subst ev. injection E' as _ -> ->. auto.
      + subst ev. simpl in Ha. destruct (Ha H1) as [Hn Hni].
        pose proof (G3 t2 tb2 k2 id H2 H') as Hn2. assert (t1 = t2) by eauto. subst t2.
        exfalso. apply (Hni tb2 k2 H2 H').
      + subst ev. simpl in Ha. destruct (Ha H2) as [Hn Hni].
        pose proof (G3 t1 tb1 k1 id H1 H) as Hn1. assert (t2 = t1) by eauto. subst t2.
        exfalso. apply (Hni tb1 k1 H1 H).
      + eauto.
  Qed.

  Lemma born_func tr nx id tb1 k1 tb2 k2 : init_ok -> GI tr nx -> 2 <= tb1 -> 2 <= tb2 ->
    born tr id tb1 k1 -> born tr id tb2 k2 -> tb1 = tb2 /\ k1 = k2.
  Proof.
    intros Hi (G0 & G1 & G2 & G3 & G4) H1 H2 [B1|[t1 B1]] [B2|[t2 B2]].
    - eapply (proj2 (Hi tb1 H1)); eauto.
    - destruct (proj1 (Hi tb1 H1) _ _ B1) as [_ Hlt].
      pose proof (G1 _ _ (G3 _ _ _ _ H2 B2)). lia.
    - destruct (proj1 (Hi tb2 H2) _ _ B2) as [_ Hlt].
      pose proof (G1 _ _ (G3 _ _ _ _ H1 B1)). lia.
    - eapply G4; eauto.
  Qed.
End Born.

Lemma raising_step bodies t t' c c' : step bodies t' c = Some c' -> raising t c -> raising t c'.
Proof.
  intros Hs Hr. destruct (step_outcome _ _ _ _ Hs) as (i & rest & Hc & Hoth & evs & Htr & Hout).
  destruct Hr as [Hex|(r0 & Hr0)]; [left; rewrite Htr; apply in_or_app; right; exact Hex|].
  destruct (Nat.eq_dec t t') as [->|Hne]; [|right; rewrite Hoth by exact Hne; eauto].
  rewrite Hc in Hr0. injection Hr0 as -> ->. simpl in Hout.
  destruct Hout as [(-> & _)|(k & _ & E & _)]; [left; rewrite Htr; left; reflexivity|right; eauto].
Qed.

Lemma remove_lock_In a k h : a <> k -> In a h -> In a (remove_lock k h).
Proof.
  intros Hne. induction h as [|y h IH]; simpl; [tauto|]. intros [->|H].
  - destruct (lock_eqb a k) eqn:E; [apply lock_eqb_eq in E; contradiction|left; reflexivity].
  - destruct (lock_eqb y k); [exact H|right; auto].
Qed.

Lemma KStat_inj a b : KStat a = KStat b -> a = b.
Proof. congruence. Qed.

Lemma ctor_cases mp m : ctor_prog mp m = [] \/
  exists m', ctor_prog mp m = Acq (SLock S_LOCK) :: Rel (SLock S_LOCK) :: ctor_prog mp m'.
Proof.
  induction m as [|m IH]; simpl; [left; reflexivity|]. destruct mp; [right; exists m; reflexivity|exact IH].
Qed.

Section Labelled.
  Variable mp : bool.
  Variable bodies : N -> list instr.
  Variable h0 : loc -> Z.
  Variable tb0 : tbl -> list (key * N).
  Variable n0 : N.
  Variables (TB : tbl) (K : key) (J : N) (cid : N).
  Hypothesis HTB : 2 <= TB.

  (* instructions that neither store to a child cell nor write a child table nor remove from table TB *)
  Definition qinstr (i : instr) : Prop :=
    match i with
    | Store (DLoc _ _) _ => False
    | TblInsert tb _ _ => tb < 2
    | TblDel tb _ | TblClear tb => tb <> TB
    | _ => True
    end.
  Definition quiet (l : list instr) : Prop := Forall qinstr l.
  Hypothesis Hbq : forall b, quiet (bodies b).
  Hypothesis Hbj : forall b, jumps_in (bodies b).

  Definition lab_ok (o : op) : Prop :=
    match o with
    | OInc (DLoc _ _) _ | OSet (DLoc _ _) _ => False
    | OLabels tb _ _ | OLabelsInc tb _ _ _ _ => 2 <= tb
    | ORemove tb _ | OClear tb => tb <> TB
    | _ => True
    end.
  Definition issuedL (o : op) : Z :=
    match o with
    | OLabelsInc tb k _ j a => if N.eqb tb TB && N.eqb k K && N.eqb j J then a else 0%Z
    | _ => 0%Z
    end.
  Definition issuedL_ops (ops : list op) : Z := zsum (map issuedL ops).

  Record lpar := mkL { l_rb : reg; l_tb : tbl; l_k : key; l_nc : nat; l_j : N; l_a : Z; l_inc : bool }.
  Definition par_of (rb : reg) (o : op) : option lpar :=
    match o with
    | OLabels tb k nc => Some (mkL rb tb k nc 0 0%Z false)
    | OLabelsInc tb k nc j a => Some (mkL rb tb k nc j a true)
    | _ => None
    end.
  Definition lx (p : lpar) : lref := DLoc (l_rb p) (l_j p).
  Definition ltail (p : lpar) : list instr :=
    if l_inc p then inc_prog mp (l_rb p + 2) (lx p) (l_a p) else [].
  Definition lsuffix (p : lpar) : list instr :=
    TblInsert (l_tb p) (l_k p) (IReg (l_rb p + 1)) :: TblLookup (l_rb p) (l_tb p) (l_k p) ::
    Rel (plock (l_tb p)) :: Ret (IReg (l_rb p)) :: ltail p.
  Inductive lst := S_acq | S_lk1 | S_jmp | S_new | S_ctor (m : nat) (relS : bool) | S_lk2 | S_rel | S_ret
                 | S_iacq | S_iload | S_istore.
  Definition lcode (p : lpar) (st : lst) : list instr :=
    let rb := l_rb p in let tb := l_tb p in let k := l_k p in
    match st with
    | S_acq => Acq (plock tb) :: TblLookup rb tb k :: JmpIf true rb (2 + length (ctor_prog mp (l_nc p))) ::
               New (rb + 1) :: ctor_prog mp (l_nc p) ++ lsuffix p
    | S_lk1 => TblLookup rb tb k :: JmpIf true rb (2 + length (ctor_prog mp (l_nc p))) ::
               New (rb + 1) :: ctor_prog mp (l_nc p) ++ lsuffix p
    | S_jmp => JmpIf true rb (2 + length (ctor_prog mp (l_nc p))) :: New (rb + 1) :: ctor_prog mp (l_nc p) ++ lsuffix p
    | S_new => New (rb + 1) :: ctor_prog mp (l_nc p) ++ lsuffix p
    | S_ctor m relS => (if relS then [Rel (SLock S_LOCK)] else []) ++ ctor_prog mp m ++ lsuffix p
    | S_lk2 => TblLookup rb tb k :: Rel (plock tb) :: Ret (IReg rb) :: ltail p
    | S_rel => Rel (plock tb) :: Ret (IReg rb) :: ltail p
    | S_ret => Ret (IReg rb) :: ltail p
    | S_iacq => inc_prog mp (rb + 2) (lx p) (l_a p)
    | S_iload => [Load (rb + 2) (lx p); Store (lx p) (EAdd (rb + 2) (l_a p)); Rel (lk mp (lx p))]
    | S_istore => [Store (lx p) (EAdd (rb + 2) (l_a p)); Rel (lk mp (lx p))]
    end.

  Definition holdsP (th : thread) (tb : tbl) : Prop := In (KStat (10 + tb)) (held th).
  Definition lfacts (c : config) (t : nat) (p : lpar) (st : lst) : Prop :=
    let th := thr c t in let rb := l_rb p in let tb := l_tb p in let k := l_k p in
    match st with
    | S_acq => True
    | S_lk1 => holdsP th tb
    | S_jmp => holdsP th tb /\ regs th rb = look (tabs c) tb k
    | S_new => holdsP th tb /\ d_find N.eqb (tabs c tb) k = None
    | S_ctor _ _ => holdsP th tb /\ d_find N.eqb (tabs c tb) k = None /\
        exists id, regs th (rb + 1) = VId id /\ In (EvNew t id) (trace c) /\
                   forall tb' k', 2 <= tb' -> ~ In (EvTWrite t tb' (WIns k' id)) (trace c)
    | S_lk2 => holdsP th tb /\ exists id, d_find N.eqb (tabs c tb) k = Some id
    | S_rel | S_ret => exists id, regs th rb = VId id /\ born tb0 (trace c) id tb k
    | S_iacq | S_iload | S_istore =>
        l_inc p = true /\ exists id, regs th rb = VId id /\ born tb0 (trace c) id tb k
    end.

  Definition lpend (p : lpar) : Z :=
    if l_inc p && (N.eqb (l_tb p) TB && N.eqb (l_k p) K && N.eqb (l_j p) J) then l_a p else 0%Z.

  Definition shape (c : config) (t : nat) (pd : Z) : Prop :=
    (exists Q rb rest, code (thr c t) = Q ++ compile_from mp rb rest /\ quiet Q /\ jumps_in Q /\
                       Forall lab_ok rest /\ pd = issuedL_ops rest) \/
    (exists p st rest, code (thr c t) = lcode p st ++ compile_from mp (l_rb p + 4) rest /\ 2 <= l_tb p /\
                       lfacts c t p st /\ Forall lab_ok rest /\ pd = (lpend p + issuedL_ops rest)%Z).

  Lemma plock_child tb : 2 <= tb -> plock tb = SLock (10 + tb).
  Proof. intro H. unfold plock. destruct (tb <? 2) eqn:E; [apply N.ltb_lt in E; lia|reflexivity]. Qed.
  Lemma tlock_child tb : 2 <= tb -> tlock (lib_disc mp) tb = KStat (10 + tb).
  Proof. intro H. unfold tlock. simpl. destruct (tb <? 2) eqn:E; [apply N.ltb_lt in E; lia|reflexivity]. Qed.

  Lemma par_code rb o p : par_of rb o = Some p -> compile_op mp rb o = lcode p S_acq /\ lpend p = issuedL o
                          /\ l_rb p = rb /\ (lab_ok o -> 2 <= l_tb p).
  Proof.
    destruct o; cbn [par_of]; try discriminate; intro H; injection H as <-.
    - split; [|split; [reflexivity|split; [reflexivity|simpl; auto]]].
      unfold compile_op. rewrite <- (app_nil_r (labels_prog _ _ _ _ _)), labels_unfold. reflexivity.
    - split; [|split; [reflexivity|split; [reflexivity|simpl; auto]]].
      unfold compile_op. rewrite labels_unfold. reflexivity.
  Qed.
  Lemma regshape_quiet l : Forall regshape l -> quiet l.
  Proof.
    clear Hbq Hbj. clear bodies h0 tb0 n0 cid.
    intro H. eapply Forall_impl; [|exact H]. intros i; destruct i; simpl; auto; try contradiction; lia.
  Qed.
  Lemma nopar_quiet rb o : par_of rb o = None -> lab_ok o ->
    quiet (compile_op mp rb o) /\ issuedL o = 0%Z.
  Proof.
    clear Hbq Hbj. clear bodies h0 tb0 n0 cid.
    intros Hp Hl. split; [|destruct o; try reflexivity; discriminate].
    destruct o; simpl in Hp, Hl; try discriminate; try (repeat constructor; simpl; auto; fail).
    - destruct locked, exsec; repeat constructor.
    - repeat constructor; unfold RN, RC; simpl; lia.
    - apply regshape_quiet, regshape_construct.
    - apply regshape_quiet, regshape_unregister.
    - destruct inlock; repeat constructor.
  Qed.

  Definition Qc (c : config) : Prop :=
    (forall id', born tb0 (trace c) id' TB K -> id' = cid) /\
    (forall tb k, 2 <= tb -> born tb0 (trace c) cid tb k -> tb = TB /\ k = K).
  Definition ev_fine (c : config) (t : nat) (ev : event) : Prop :=
    ev_tid ev = t /\ ev_allowed (trace c) (next c) ev /\
    match ev with
    | EvUpd _ y (USet _) => loc_eqb y (LChild cid J) = false
    | EvTWrite _ tb (WDel _) | EvTWrite _ tb WClear => N.eqb tb TB = false
    | _ => True
    end.
  Definition R2 (t : nat) (c : config) : Prop :=
    (code (thr c t) = [] /\ In (EvExc t) (trace c)) \/ exists rest, code (thr c t) = Raise :: rest.
  Definition step_res (c : config) (t : nat) (c' : config) (pd : Z) : Prop :=
    ((trace c' = trace c /\ next c' = next c) \/
     exists ev, trace c' = ev :: trace c /\ ev_fine c t ev /\ next c' = nx_after (next c) ev) /\
    (R2 t c' \/
     exists pd', shape c' t pd' /\
       (Qc c -> (sum_incs_t t (LChild cid J) (trace c') + pd' = sum_incs_t t (LChild cid J) (trace c) + pd)%Z)).

  Lemma jumps_in_skipn k : forall l, jumps_in l -> jumps_in (skipn k l).
  Proof.
    induction k as [|k IH]; intros [|i l] H; simpl; auto. apply IH.
    destruct i; simpl in H; try exact H. destruct H; assumption.
  Qed.
  Lemma jumps_in_tail i l : jumps_in (i :: l) -> jumps_in l.
  Proof. destruct i; simpl; auto. intros [_ H]; exact H. Qed.

  Lemma ownA c t c' i Q' rb rest :
    code (thr c t) = (i :: Q') ++ compile_from mp rb rest -> quiet (i :: Q') -> jumps_in (i :: Q') ->
    Forall lab_ok rest -> step bodies t c = Some c' -> step_res c t c' (issuedL_ops rest).
  Proof.
    intros Hc Hq Hj Hops Hs.
    destruct (step_outcome _ _ _ _ Hs) as (i0 & rest0 & Hc0 & Hoth & evs & Htr & Hout).
    pose proof (step_next _ _ _ _ Hs) as Hnx.
    rewrite Hc in Hc0. simpl in Hc0. injection Hc0 as <- <-. rewrite Hc in Hnx. simpl in Hnx.
    inversion Hq as [|? ? Hqi Hq']; subst. pose proof (jumps_in_tail _ _ Hj) as Hj'.
    assert (HA : forall Q2, code (thr c' t) = Q2 ++ compile_from mp rb rest -> quiet Q2 -> jumps_in Q2 ->
                 sum_incs_t t (LChild cid J) (trace c') = sum_incs_t t (LChild cid J) (trace c) ->
                 R2 t c' \/ exists pd', shape c' t pd' /\
                   (Qc c -> (sum_incs_t t (LChild cid J) (trace c') + pd' =
                             sum_incs_t t (LChild cid J) (trace c) + issuedL_ops rest)%Z)).
    { intros Q2 E1 E2 E3 E4. right. exists (issuedL_ops rest). split; [|intros _; rewrite E4; reflexivity].
      left. exists Q2, rb, rest. auto. }
    destruct i; simpl in Hout;
      try (destruct Hout as [(ev & -> & Htid & Hpl) Hc']; split;
           [right; exists ev; split; [exact Htr|split; [|destruct ev; simpl in Hpl; try contradiction; exact Hnx]];
            split; [exact Htid|split; destruct ev; simpl in Hpl |- *; try contradiction; exact I]
           |apply (HA Q'); auto; rewrite Htr; simpl app; apply sum_incs_t_plain; destruct ev; simpl in Hpl |- *; auto]).
    - (* Store *)
      destruct Hout as [-> Hc']. destruct x as [m|r j]; [|contradiction]. split.
      + right. eexists. split; [exact Htr|]. split; [|exact Hnx].
        split; [reflexivity|split; [exact I|]]. simpl. destruct (ev_of (regs (thr c t)) e); reflexivity.
      + apply (HA Q'); auto. rewrite Htr. simpl. destruct (ev_of (regs (thr c t)) e); [reflexivity|].
        rewrite andb_false_r. reflexivity.
    - (* TblInsert *)
      destruct Hout as [-> Hc']. split.
      + right. eexists. split; [exact Htr|]. split; [|exact Hnx].
        split; [reflexivity|split; [|exact I]]. simpl. simpl in Hqi. intro H2. lia.
      + apply (HA Q'); auto. rewrite Htr. reflexivity.
    - (* TblDel *)
      destruct Hout as [-> Hc']. split.
      + right. eexists. split; [exact Htr|]. split; [|exact Hnx].
        split; [reflexivity|split; [exact I|]]. apply N.eqb_neq. exact Hqi.
      + apply (HA Q'); auto. rewrite Htr. reflexivity.
    - (* TblClear *)
      destruct Hout as [-> Hc']. split.
      + right. eexists. split; [exact Htr|]. split; [|exact Hnx].
        split; [reflexivity|split; [exact I|]]. apply N.eqb_neq. exact Hqi.
      + apply (HA Q'); auto. rewrite Htr. reflexivity.
    - (* New *)
      destruct Hout as [-> Hc']. split.
      + right. eexists. split; [exact Htr|]. split; [|exact Hnx].
        split; [reflexivity|split; [reflexivity|exact I]].
      + apply (HA Q'); auto. rewrite Htr. reflexivity.
    - (* JmpIf *)
      destruct Hout as [-> Hc']. split; [left; split; [exact Htr|exact Hnx]|].
      destruct Hc' as [Hc'|Hc'].
      + apply (HA Q'); auto. rewrite Htr. reflexivity.
      + simpl in Hj. destruct Hj as [Hk _].
        apply (HA (skipn n Q')); [| apply Forall_skipn; exact Hq' | apply jumps_in_skipn; exact Hj' | rewrite Htr; reflexivity].
        rewrite Hc', skipn_app. replace (n - length Q')%nat with O by lia. reflexivity.
    - (* ForSnap *)
      destruct Hout as [-> Hc']. split; [left; split; [exact Htr|exact Hnx]|].
      destruct Hc' as [Hc'|Hc'].
      + apply (HA Q'); auto. rewrite Htr. reflexivity.
      + apply (HA (bodies b ++ ForSnap r rr b :: Q')); [| | |rewrite Htr; reflexivity].
        * rewrite Hc', <- app_assoc. reflexivity.
        * apply Forall_app; split; [apply Hbq|constructor; [exact I|exact Hq']].
        * apply jumps_in_app; [apply Hbj|exact Hj'].
    - (* Callout *)
      destruct Hout as [-> Hc']. split.
      + right. eexists. split; [exact Htr|]. split; [|exact Hnx].
        split; [reflexivity|split; exact I].
      + apply (HA (bodies (res_id (regs (thr c t)) c0) ++ Q')); [| | |rewrite Htr; reflexivity].
        * rewrite Hc', <- app_assoc. reflexivity.
        * apply Forall_app; split; [apply Hbq|exact Hq'].
        * apply jumps_in_app; [apply Hbj|exact Hj'].
    - (* Raise *)
      destruct Hout as [(-> & Hc' & _)|(k & -> & Hc' & _)].
      + split; [|left; left; split; [exact Hc'|rewrite Htr; left; reflexivity]].
        right. eexists. split; [exact Htr|]. split; [|exact Hnx]. split; [reflexivity|split; exact I].
      + split; [|left; right; eauto].
        right. eexists. split; [exact Htr|]. split; [|exact Hnx]. split; [reflexivity|split; exact I].
  Qed.

  Lemma mk_res c t c' pd ev pd' :
    trace c' = ev :: trace c -> ev_fine c t ev -> next c' = nx_after (next c) ev -> shape c' t pd' ->
    (Qc c -> (sum_incs_t t (LChild cid J) (trace c') + pd' = sum_incs_t t (LChild cid J) (trace c) + pd)%Z) ->
    step_res c t c' pd.
  Proof. intros H1 H2 H3 H4 H5. split; [right; exists ev; auto|right; exists pd'; auto]. Qed.
  Lemma mk_res0 c t c' pd pd' :
    trace c' = trace c -> next c' = next c -> shape c' t pd' ->
    (Qc c -> (sum_incs_t t (LChild cid J) (trace c') + pd' = sum_incs_t t (LChild cid J) (trace c) + pd)%Z) ->
    step_res c t c' pd.
  Proof. intros H1 H3 H4 H5. split; [left; auto|right; exists pd'; auto]. Qed.
  Lemma shapeB c t p st rest :
    code (thr c t) = lcode p st ++ compile_from mp (l_rb p + 4) rest -> 2 <= l_tb p -> lfacts c t p st ->
    Forall lab_ok rest -> shape c t (lpend p + issuedL_ops rest).
  Proof. intros. right. exists p, st, rest. auto. Qed.

  Section OwnB.
    Variables (c c' : config) (t : nat) (p : lpar) (rest : list op).
    Hypothesis HInv : Inv (lib_disc mp) (lib_owner mp) h0 tb0 c.
    Hypothesis HGI : GI n0 (trace c) (next c).
    Hypothesis Htb : 2 <= l_tb p.
    Hypothesis Hops : Forall lab_ok rest.
    Hypothesis Hs : step bodies t c = Some c'.
    Let Kc := compile_from mp (l_rb p + 4) rest.
    Let pd := (lpend p + issuedL_ops rest)%Z.

    Ltac csimpl := cbn -[N.add N.ltb N.eqb lk ctor_prog plock].
    Ltac ostart :=
      let Hc := fresh "Hc" in let Hthr := fresh "Hthr" in let cd := fresh "cd" in
      let rg := fresh "rg" in let hd := fresh "hd" in
      intro Hc; destruct (thr c t) as [cd rg hd] eqn:Hthr;
      cbn -[N.add N.ltb N.eqb plock lk ctor_prog] in Hc; subst cd;
      unfold step in Hs; rewrite Hthr in Hs; cbn -[N.add N.ltb N.eqb lk ctor_prog plock] in Hs.
    Lemma res_lock_plock rg : res_lock rg (plock (l_tb p)) = KStat (10 + l_tb p).
    Proof. rewrite (plock_child _ Htb). reflexivity. Qed.

    Lemma ownB_acq : code (thr c t) = lcode p S_acq ++ Kc -> step_res c t c' pd.
    Proof.
      ostart.
      match type of Hs with context [locks c ?k] => destruct (locks c k) end; [discriminate|]. injection Hs as <-.
      eapply mk_res; csimpl; [reflexivity|split; [reflexivity|split; exact I]|reflexivity| |intros _; reflexivity].
      apply (shapeB _ _ p S_lk1); auto; csimpl; rewrite set_thr_same'; csimpl.
      - reflexivity.
      - unfold holdsP. csimpl. left. apply (res_lock_plock rg).
    Qed.

    Lemma ownB_lk1 : code (thr c t) = lcode p S_lk1 ++ Kc -> lfacts c t p S_lk1 -> step_res c t c' pd.
    Proof.
      ostart. intro HP. unfold lfacts in HP. rewrite Hthr in HP. injection Hs as <-.
      eapply mk_res; csimpl; [reflexivity|split; [reflexivity|split; exact I]|reflexivity| |intros _; reflexivity].
      apply (shapeB _ _ p S_jmp); auto; csimpl; rewrite set_thr_same'; csimpl; [reflexivity|].
      split; [exact HP|]. unfold look, updf. rewrite N.eqb_refl. reflexivity.
    Qed.

    Lemma skip_ctor r ct : skipn (2 + length ct) (New r :: (ct ++ lsuffix p) ++ Kc) = lcode p S_lk2 ++ Kc.
    Proof. unfold lsuffix. rewrite <- app_assoc. cbn [app]. rewrite skipn_over2. reflexivity. Qed.

    Lemma ownB_jmp : code (thr c t) = lcode p S_jmp ++ Kc -> lfacts c t p S_jmp -> step_res c t c' pd.
    Proof.
      ostart. intros [HP Hreg]. rewrite Hthr in HP, Hreg. cbn -[N.add N.ltb N.eqb lk ctor_prog plock] in Hreg. injection Hs as <-.
      unfold look in Hreg. destruct (d_find N.eqb (tabs c (l_tb p)) (l_k p)) as [id|] eqn:Ef; rewrite Hreg; csimpl.
      - eapply mk_res0; csimpl; [reflexivity|reflexivity| |intros _; reflexivity].
        apply (shapeB _ _ p S_lk2); auto; csimpl; rewrite set_thr_same'; csimpl.
        + exact (skip_ctor (l_rb p + 1) (ctor_prog mp (l_nc p))).
        + split; [exact HP|eauto].
      - eapply mk_res0; csimpl; [reflexivity|reflexivity| |intros _; reflexivity].
        apply (shapeB _ _ p S_new); auto; csimpl; rewrite set_thr_same'; csimpl; [reflexivity|].
        split; [exact HP|exact Ef].
    Qed.

    Lemma ownB_new : code (thr c t) = lcode p S_new ++ Kc -> lfacts c t p S_new -> step_res c t c' pd.
    Proof.
      ostart. intros [HP Hmiss]. rewrite Hthr in HP. injection Hs as <-.
      eapply mk_res; csimpl; [reflexivity|split; [reflexivity|split; [reflexivity|exact I]]|reflexivity| |intros _; reflexivity].
      apply (shapeB _ _ p (S_ctor (l_nc p) false)); auto; csimpl; rewrite set_thr_same'; csimpl; [reflexivity|].
      split; [exact HP|]. split; [exact Hmiss|]. exists (next c). split; [unfold updf; rewrite N.eqb_refl; reflexivity|].
      split; [left; reflexivity|]. intros tb' k' Htb' [E|Hin]; [discriminate|].
      destruct HGI as (_ & G1 & _ & G3 & _). pose proof (G1 _ _ (G3 _ _ _ _ Htb' Hin)). lia.
    Qed.

    Lemma ownB_ins : code (thr c t) = lsuffix p ++ Kc -> lfacts c t p (S_ctor 0 false) -> step_res c t c' pd.
    Proof.
      ostart. intros (HP & Hmiss & id & Hid & Hnew & Hnins). rewrite Hthr in HP, Hid.
      cbn -[N.add N.ltb N.eqb lk ctor_prog plock] in Hid. rewrite Hid in Hs. injection Hs as <-.
      eapply mk_res; csimpl; [reflexivity| |reflexivity| |intros _; reflexivity].
      - split; [reflexivity|split; [|exact I]]. csimpl. intros _. split; [exact Hnew|exact Hnins].
      - apply (shapeB _ _ p S_lk2); auto; csimpl; rewrite set_thr_same'; csimpl; [reflexivity|].
        split; [exact HP|]. exists id. unfold updf. rewrite N.eqb_refl, d_find_d_set, N.eqb_refl. reflexivity.
    Qed.

    Lemma ownB_ctor m relS : code (thr c t) = lcode p (S_ctor m relS) ++ Kc -> lfacts c t p (S_ctor m relS) ->
      step_res c t c' pd.
    Proof.
      destruct relS.
      - ostart. intros (HP & Hmiss & id & Hid & Hnew & Hnins). rewrite Hthr in HP, Hid.
        cbn -[N.add N.ltb N.eqb lk ctor_prog plock] in Hid. injection Hs as <-.
        eapply mk_res; csimpl; [reflexivity|split; [reflexivity|split; exact I]|reflexivity| |intros _; reflexivity].
        apply (shapeB _ _ p (S_ctor m false)); auto; csimpl; rewrite set_thr_same'; csimpl; [reflexivity|].
        split; [|split; [exact Hmiss|]].
        + unfold holdsP. csimpl. apply remove_lock_In; [|exact HP]. intro E. apply KStat_inj in E. unfold S_LOCK in E. lia.
        + exists id. split; [exact Hid|]. split; [right; exact Hnew|].
          intros tb' k' Htb' [E|Hin]; [discriminate|]. eapply Hnins; eauto.
      - unfold lcode. cbn [app]. destruct (ctor_cases mp m) as [E|(m' & E)]; rewrite E.
        + cbn [app]. apply ownB_ins.
        + ostart. intros (HP & Hmiss & id & Hid & Hnew & Hnins). rewrite Hthr in HP, Hid.
          cbn -[N.add N.ltb N.eqb lk ctor_prog plock] in Hid.
          match type of Hs with context [locks c ?k] => destruct (locks c k) end; [discriminate|]. injection Hs as <-.
          eapply mk_res; csimpl; [reflexivity|split; [reflexivity|split; exact I]|reflexivity| |intros _; reflexivity].
          apply (shapeB _ _ p (S_ctor m' true)); auto; csimpl; rewrite set_thr_same'; csimpl; [reflexivity|].
          split; [right; exact HP|split; [exact Hmiss|]].
          exists id. split; [exact Hid|]. split; [right; exact Hnew|].
          intros tb' k' Htb' [E'|Hin]; [discriminate|]. eapply Hnins; eauto.
    Qed.

    Lemma ownB_lk2 : code (thr c t) = lcode p S_lk2 ++ Kc -> lfacts c t p S_lk2 -> step_res c t c' pd.
    Proof.
      ostart. intros (HP & id & Hf). injection Hs as <-.
      eapply mk_res; csimpl; [reflexivity|split; [reflexivity|split; exact I]|reflexivity| |intros _; reflexivity].
      apply (shapeB _ _ p S_rel); auto; csimpl; rewrite set_thr_same'; csimpl; [reflexivity|].
      exists id. split; [unfold updf; rewrite N.eqb_refl, Hf; reflexivity|].
      apply (born_mono tb0 [_]). apply find_born.
      destruct HInv as (_ & _ & _ & _ & (HT1 & _)). rewrite <- HT1. exact Hf.
    Qed.

    Lemma ownB_rel : code (thr c t) = lcode p S_rel ++ Kc -> lfacts c t p S_rel -> step_res c t c' pd.
    Proof.
      ostart. intros (id & Hid & Hb). rewrite Hthr in Hid. injection Hs as <-.
      eapply mk_res; csimpl; [reflexivity|split; [reflexivity|split; exact I]|reflexivity| |intros _; reflexivity].
      apply (shapeB _ _ p S_ret); auto; csimpl; rewrite set_thr_same'; csimpl; [reflexivity|].
      exists id. split; [exact Hid|apply (born_mono tb0 [_]); exact Hb].
    Qed.

    Lemma ownB_ret : code (thr c t) = lcode p S_ret ++ Kc -> lfacts c t p S_ret -> step_res c t c' pd.
    Proof.
      ostart. intros (id & Hid & Hb). rewrite Hthr in Hid. injection Hs as <-.
      destruct (l_inc p) eqn:Einc.
      - eapply mk_res; csimpl; [reflexivity|split; [reflexivity|split; exact I]|reflexivity| |intros _; reflexivity].
        apply (shapeB _ _ p S_iacq); auto; csimpl; rewrite set_thr_same'; csimpl.
        + unfold ltail. rewrite Einc. reflexivity.
        + split; [exact Einc|]. exists id. split; [exact Hid|apply (born_mono tb0 [_]); exact Hb].
      - eapply (mk_res _ _ _ _ _ (issuedL_ops rest)); csimpl;
          [reflexivity|split; [reflexivity|split; exact I]|reflexivity| |].
        + left. exists [], (l_rb p + 4), rest. csimpl. rewrite set_thr_same'. csimpl.
          unfold ltail. rewrite Einc. repeat split; auto. constructor.
        + intros _. unfold pd, lpend. rewrite Einc. reflexivity.
    Qed.

    Lemma ownB_iacq : code (thr c t) = lcode p S_iacq ++ Kc -> lfacts c t p S_iacq -> step_res c t c' pd.
    Proof.
      ostart. intros (Hinc & id & Hid & Hb). rewrite Hthr in Hid.
      match type of Hs with context [locks c ?k] => destruct (locks c k) end; [discriminate|]. injection Hs as <-.
      eapply mk_res; csimpl; [reflexivity|split; [reflexivity|split; exact I]|reflexivity| |intros _; reflexivity].
      apply (shapeB _ _ p S_iload); auto; csimpl; rewrite set_thr_same'; csimpl; [reflexivity|].
      split; [exact Hinc|]. exists id. split; [exact Hid|apply (born_mono tb0 [_]); exact Hb].
    Qed.

    Lemma ownB_iload : code (thr c t) = lcode p S_iload ++ Kc -> lfacts c t p S_iload -> step_res c t c' pd.
    Proof.
      ostart. intros (Hinc & id & Hid & Hb). rewrite Hthr in Hid. injection Hs as <-.
      eapply mk_res; csimpl; [reflexivity|split; [reflexivity|split; exact I]|reflexivity| |intros _; reflexivity].
      apply (shapeB _ _ p S_istore); auto; csimpl; rewrite set_thr_same'; csimpl; [reflexivity|].
      split; [exact Hinc|]. exists id. split; [|apply (born_mono tb0 [_]); exact Hb].
      unfold updf. replace (N.eqb (l_rb p) (l_rb p + 2)) with false by (symmetry; apply N.eqb_neq; lia). exact Hid.
    Qed.

    Lemma ownB_istore : code (thr c t) = lcode p S_istore ++ Kc -> lfacts c t p S_istore -> step_res c t c' pd.
    Proof.
      ostart. intros (Hinc & id & Hid & Hb). rewrite Hthr in Hid.
      cbn -[N.add N.ltb N.eqb lk ctor_prog plock] in Hid. rewrite Hid in Hs.
      cbn -[N.add N.ltb N.eqb lk ctor_prog plock] in Hs. injection Hs as <-.
      eapply (mk_res _ _ _ _ _ (issuedL_ops rest)); csimpl;
        [reflexivity|split; [reflexivity|split; exact I]|reflexivity| |].
      - left. exists [Rel (lk mp (lx p))], (l_rb p + 4), rest. csimpl. rewrite set_thr_same'. csimpl.
        repeat split; auto. repeat constructor.
      - intros [Q1 Q2]. rewrite Nat.eqb_refl. unfold pd, lpend. rewrite Hinc. cbn [andb].
        destruct (N.eqb (l_tb p) TB && N.eqb (l_k p) K && N.eqb (l_j p) J) eqn:ET.
        + apply andb_prop in ET as [ET E3]. apply andb_prop in ET as [E1 E2]. apply N.eqb_eq in E1, E2.
          rewrite E1, E2 in Hb. rewrite (Q1 id Hb), N.eqb_refl, E3. cbn [andb]. lia.
        + destruct (N.eqb id cid && N.eqb (l_j p) J) eqn:EI; [|lia]. exfalso.
          apply andb_prop in EI as [E4 E3]. apply N.eqb_eq in E4. subst id.
          destruct (Q2 _ _ Htb Hb) as [A B]. rewrite A, B, !N.eqb_refl, E3 in ET. discriminate.
    Qed.
  End OwnB.

  Lemma compile_op_nonempty rb o : compile_op mp rb o <> [].
  Proof.
    destruct o; try discriminate.
    - destruct locked, exsec; discriminate.
    - unfold compile_op, construct_prog, register_names_prog. destruct (ctor_prog mp nc); discriminate.
    - destruct inlock; discriminate.
  Qed.

  Lemma own_step c t c' pd :
    Inv (lib_disc mp) (lib_owner mp) h0 tb0 c -> GI n0 (trace c) (next c) ->
    shape c t pd -> step bodies t c = Some c' -> step_res c t c' pd.
  Proof.
    intros HInv HGI [(Q & rb & rest & Hc & Hq & Hj & Hops & ->)|(p & st & rest & Hc & Htb & Hf & Hops & ->)] Hs.
    - destruct Q as [|i Q'].
      + destruct rest as [|o rest'].
        { simpl in Hc. unfold step in Hs. rewrite Hc in Hs. discriminate. }
        inversion Hops as [|? ? Ho Hops']; subst.
        cbn [app compile_from] in Hc. destruct (par_of rb o) as [p|] eqn:Ep.
        * destruct (par_code rb o p Ep) as (E1 & E2 & E3 & E4). rewrite E1, <- E3 in Hc.
          replace (issuedL_ops (o :: rest')) with (lpend p + issuedL_ops rest')%Z
            by (unfold issuedL_ops; simpl; rewrite E2; reflexivity).
          eapply ownB_acq; eauto.
        * destruct (nopar_quiet rb o Ep Ho) as [Hq' E0].
          replace (issuedL_ops (o :: rest')) with (issuedL_ops rest')
            by (unfold issuedL_ops; simpl; rewrite E0; reflexivity).
          pose proof (compile_op_nonempty rb o) as Hne. pose proof (op_jumps_in mp rb o) as Hj'.
          destruct (compile_op mp rb o) as [|i Q'] eqn:Eo; [congruence|].
          eapply ownA; eauto.
      + eapply ownA; eauto.
    - destruct st.
      + eapply ownB_acq; eauto.
      + eapply ownB_lk1; eauto.
      + eapply ownB_jmp; eauto.
      + eapply ownB_new; eauto.
      + eapply ownB_ctor; eauto.
      + eapply ownB_lk2; eauto.
      + eapply ownB_rel; eauto.
      + eapply ownB_ret; eauto.
      + eapply ownB_iacq; eauto.
      + eapply ownB_iload; eauto.
      + eapply ownB_istore; eauto.
  Qed.

  Lemma other_step c t t' c' pd :
    Inv (lib_disc mp) (lib_owner mp) h0 tb0 c -> step bodies t c = Some c' -> t' <> t ->
    shape c t' pd -> shape c' t' pd.
  Proof.
    intros HInv Hs Hne Hsh.
    destruct (step_outcome _ _ _ _ Hs) as (i & rest0 & Hc0 & Hoth & evs & Htr & Hout).
    pose proof (outcome_tid _ _ _ _ _ _ _ _ _ Hout) as Htid.
    destruct Hsh as [(Q & rb & rest & Hc & Hq & Hj & Hops & ->)|(p & st & rest & Hc & Htb & Hf & Hops & ->)].
    - left. exists Q, rb, rest. rewrite (Hoth t' Hne). auto.
    - right. exists p, st, rest. rewrite (Hoth t' Hne). repeat split; auto.
      assert (Htabs : holdsP (thr c t') (l_tb p) -> tabs c' (l_tb p) = tabs c (l_tb p)).
      { intro HP. eapply step_tabs_frame; eauto. rewrite (tlock_child _ Htb). intro Hin.
        destruct HInv as (HL & _). apply Hne. eapply mutex; eauto. }
      assert (Hnot : forall ev, In ev evs -> ev_tid ev <> t').
      { intros ev Hin. rewrite Forall_forall in Htid. rewrite (Htid ev Hin). congruence. }
      destruct st; unfold lfacts in *; rewrite ?(Hoth t' Hne); rewrite ?Htr; auto.
      + destruct Hf as [HP Hr]. split; [exact HP|]. unfold look in *. rewrite (Htabs HP). exact Hr.
      + destruct Hf as [HP Hr]. split; [exact HP|]. rewrite (Htabs HP). exact Hr.
      + destruct Hf as (HP & Hm & id & Hid & Hnew & Hnins). split; [exact HP|]. split; [rewrite (Htabs HP); exact Hm|].
        exists id. split; [exact Hid|]. split; [apply in_or_app; right; exact Hnew|].
        intros tb' k' Htb' Hin. apply in_app_or in Hin as [Hin|Hin]; [|eapply Hnins; eauto].
        apply (Hnot _ Hin). reflexivity.
      + destruct Hf as (HP & id & Hfd). split; [exact HP|]. exists id. rewrite (Htabs HP). exact Hfd.
      + destruct Hf as (id & Hid & Hb). exists id. split; [exact Hid|apply born_mono; exact Hb].
      + destruct Hf as (id & Hid & Hb). exists id. split; [exact Hid|apply born_mono; exact Hb].
      + destruct Hf as (Hi & id & Hid & Hb). split; [exact Hi|]. exists id. split; [exact Hid|apply born_mono; exact Hb].
      + destruct Hf as (Hi & id & Hid & Hb). split; [exact Hi|]. exists id. split; [exact Hid|apply born_mono; exact Hb].
      + destruct Hf as (Hi & id & Hid & Hb). split; [exact Hi|]. exists id. split; [exact Hid|apply born_mono; exact Hb].
  Qed.

  Lemma R2_step t t' c c' : step bodies t' c = Some c' -> R2 t c ->
    R2 t c' /\ (t = t' -> exists ev, trace c' = ev :: trace c /\ ev_fine c t ev /\ next c' = nx_after (next c) ev).
  Proof.
    intros Hs Hr. destruct (step_outcome _ _ _ _ Hs) as (i & rest & Hc & Hoth & evs & Htr & Hout).
    pose proof (step_next _ _ _ _ Hs) as Hnx.
    destruct (Nat.eq_dec t t') as [->|Hne].
    - destruct Hr as [[Hnil _]|(r0 & Hr0)]; [rewrite Hnil in Hc; discriminate|].
      rewrite Hc in Hr0. injection Hr0 as -> ->. rewrite Hc in Hnx. simpl in Hout.
      destruct Hout as [(-> & Hc' & _)|(k & -> & Hc' & _)].
      + split; [left; split; [exact Hc'|rewrite Htr; left; reflexivity]|]. intros _.
        eexists. split; [exact Htr|]. split; [|exact Hnx]. split; [reflexivity|split; exact I].
      + split; [right; eauto|]. intros _.
        eexists. split; [exact Htr|]. split; [|exact Hnx]. split; [reflexivity|split; exact I].
    - split; [|intro; contradiction]. unfold R2. rewrite (Hoth t Hne), Htr.
      destruct Hr as [[Hnil Hex]|Hr]; [left; split; [exact Hnil|apply in_or_app; right; exact Hex]|right; exact Hr].
  Qed.

  Lemma Qc_anti c c' evs : trace c' = evs ++ trace c -> Qc c' -> Qc c.
  Proof.
    intros Htr [Q1 Q2]. split.
    - intros id' Hb. apply Q1. rewrite Htr. apply born_mono. exact Hb.
    - intros tb k Htb Hb. apply (Q2 tb k Htb). rewrite Htr. apply born_mono. exact Hb.
  Qed.

  Definition LI (ops : list op) (t : nat) (c : config) : Prop :=
    R2 t c \/ exists pd, shape c t pd /\
      (Qc c -> (sum_incs_t t (LChild cid J) (trace c) + pd = issuedL_ops ops)%Z).

  Variable opss : list (list op).
  Hypothesis Hopss : Forall (Forall lab_ok) opss.
  Hypothesis Hw : wf_world mp bodies (map (compile_thread mp) opss).

  Definition WI (c : config) : Prop :=
    Inv (lib_disc mp) (lib_owner mp) h0 tb0 c /\ GI n0 (trace c) (next c) /\
    (forall t, LI (nth t opss []) t c) /\ only_incs (LChild cid J) (trace c) /\ no_removal TB (trace c) /\
    tids_ok (length (map (compile_thread mp) opss)) c.

  Lemma fine_trace c t ev : ev_fine c t ev -> only_incs (LChild cid J) (trace c) -> no_removal TB (trace c) ->
    only_incs (LChild cid J) (ev :: trace c) /\ no_removal TB (ev :: trace c).
  Proof.
    intros (_ & _ & H3) Ho Hn. destruct ev; simpl; auto.
    - destruct u; auto.
    - destruct w; auto.
  Qed.

  Lemma WI_step t c c' : WI c -> step bodies t c = Some c' -> WI c'.
  Proof.
    intros (HInv & HGI & HLI & Ho & Hn & Ht) Hs.
    assert (HInv' : Inv (lib_disc mp) (lib_owner mp) h0 tb0 c').
    { eapply step_inv; eauto; [apply lib_owner_coh|apply Hw]. }
    destruct (step_outcome _ _ _ _ Hs) as (i & rest0 & Hc0 & Hoth & evs & Htr & Hout).
    pose proof (outcome_tid _ _ _ _ _ _ _ _ _ Hout) as Htid.
    (* the stepping thread *)
    assert (Hown : ((trace c' = trace c /\ next c' = next c) \/
                    exists ev, trace c' = ev :: trace c /\ ev_fine c t ev /\ next c' = nx_after (next c) ev) /\
                   LI (nth t opss []) t c').
    { destruct (HLI t) as [Hr|(pd & Hsh & Heq)].
      - destruct (R2_step t t c c' Hs Hr) as [Hr' Hev]. split; [right; apply Hev; reflexivity|left; exact Hr'].
      - destruct (own_step c t c' pd HInv HGI Hsh Hs) as [Hev [Hr'|(pd' & Hsh' & Heq')]].
        + split; [exact Hev|left; exact Hr'].
        + split; [exact Hev|]. right. exists pd'. split; [exact Hsh'|]. intro HQ'.
          pose proof (Qc_anti c c' evs Htr HQ') as HQ. rewrite (Heq' HQ). apply Heq; exact HQ. }
    destruct Hown as [Hev HLIt].
    assert (Hglob : GI n0 (trace c') (next c') /\ only_incs (LChild cid J) (trace c') /\ no_removal TB (trace c')).
    { destruct Hev as [[E1 E2]|(ev & E1 & Hfine & E2)].
      - rewrite E1, E2. auto.
      - rewrite E1, E2. split; [apply (GI_step tb0 n0 _ _ _ HGI); apply Hfine|]. eapply fine_trace; eauto. }
    destruct Hglob as (G' & Ho' & Hn').
    split; [exact HInv'|]. split; [exact G'|]. split; [|split; [exact Ho'|split; [exact Hn'|eapply tids_step; eauto]]].
    intro t'. destruct (Nat.eq_dec t' t) as [->|Hne]; [exact HLIt|].
    destruct (HLI t') as [Hr|(pd & Hsh & Heq)].
    - left. apply (proj1 (R2_step t' t c c' Hs Hr)).
    - right. exists pd. split; [exact (other_step c t t' c' pd HInv Hs Hne Hsh)|]. intro HQ'.
      rewrite Htr, (sum_incs_t_other t' t _ evs (trace c) Htid Hne). apply Heq. eapply Qc_anti; eauto.
  Qed.

  Lemma WI_init : WI (init_config h0 tb0 n0 (map (compile_thread mp) opss)).
  Proof.
    split; [eapply reach_inv; [exact Hw|exists []; reflexivity]|].
    split; [split; [simpl; lia|repeat split; simpl; intros; contradiction]|].
    split; [|split; [exact I|split; [exact I|apply tids_init]]].
    intro t. right. exists (issuedL_ops (nth t opss [])). split; [|intros _; simpl; reflexivity].
    left. exists [], 10, (nth t opss []). simpl. rewrite thr_of_list_code.
    change (@nil instr) with (compile_thread mp []) at 1. rewrite map_nth.
    repeat split; auto; [constructor|].
    destruct (Nat.lt_ge_cases t (length opss)) as [H|H].
    - apply (proj1 (Forall_forall _ opss) Hopss). apply nth_In; exact H.
    - rewrite nth_overflow by exact H. constructor.
  Qed.

  Lemma WI_exec s : forall c, WI c -> WI (exec bodies s c).
  Proof.
    induction s as [|t s IH]; intros c H; simpl; [exact H|].
    destruct (step bodies t c) eqn:E; [apply IH; eapply WI_step; eauto|apply IH; exact H].
  Qed.

  Lemma lcode_nonempty p st : lcode p st <> [].
  Proof.
    destruct st; try discriminate. simpl. unfold lsuffix. destruct relS; [discriminate|].
    destruct (ctor_prog mp m); discriminate.
  Qed.
  Lemma compile_from_nil rb ops : compile_from mp rb ops = [] -> ops = [].
  Proof.
    destruct ops as [|o ops]; [reflexivity|]. simpl. intro H. apply app_eq_nil in H as [H _].
    exfalso. eapply compile_op_nonempty; eauto.
  Qed.
  Lemma shape_done c t pd : code (thr c t) = [] -> shape c t pd -> pd = 0%Z.
  Proof.
    intros Hnil [(Q & rb & rest & Hc & _ & _ & _ & ->)|(p & st & rest & Hc & _)]; rewrite Hnil in Hc; symmetry in Hc.
    - apply app_eq_nil in Hc as [_ Hc]. apply compile_from_nil in Hc. subst rest. reflexivity.
    - apply app_eq_nil in Hc as [Hc _]. exfalso. eapply lcode_nonempty; eauto.
  Qed.

  Hypothesis Hinit : init_ok tb0 n0.

  Theorem final_sum_labelled c :
    reach bodies h0 tb0 n0 (map (compile_thread mp) opss) c ->
    (forall t, code (thr c t) = []) -> (forall t, ~ In (EvExc t) (trace c)) ->
    d_find N.eqb (tabs c TB) K = Some cid ->
    heap c (LChild cid J) = (h0 (LChild cid J) + zsum (map issuedL_ops opss))%Z.
  Proof.
    intros Hr Hfin Hne Hcid. pose proof Hr as [s Hs].
    assert (HW : WI c) by (rewrite Hs; apply WI_exec, WI_init).
    destruct HW as (HInv & HGI & HLI & Ho & Hn & (_ & Htids)).
    destruct (fin_ins_fresh mp bodies h0 tb0 n0 _ Hw c Hr) as [Hfresh Htabs].
    assert (Hco : create_only (lib_disc mp) TB = true).
    { simpl. destruct (TB <? 2) eqn:E; [apply N.ltb_lt in E; lia|reflexivity]. }
    assert (HQ : Qc c).
    { split.
      - intros id' Hb. pose proof (born_stable (lib_disc mp) tb0 n0 TB K id' Hinit HTB Hco _ Hn Hfresh Hb) as H.
        rewrite <- Htabs, Hcid in H. congruence.
      - intros tb k Htb Hb. apply (born_func tb0 n0 _ _ cid tb k TB K Hinit HGI Htb HTB Hb).
        apply find_born. rewrite <- Htabs. exact Hcid. }
    rewrite (fin_sum mp bodies h0 tb0 n0 _ Hw c Hr _ Ho). f_equal.
    rewrite (sum_incs_split _ _ _ Htids). rewrite map_length.
    rewrite <- (map_nth_seq issuedL_ops [] opss). f_equal. apply map_ext. intro t.
    destruct (HLI t) as [[[_ Hex]|(r0 & Hr0)]|(pd & Hsh & Heq)].
    - exfalso. eapply Hne; eauto.
    - rewrite Hfin in Hr0. discriminate.
    - rewrite (shape_done c t pd (Hfin t) Hsh) in Heq. specialize (Heq HQ). lia.
  Qed.
  (* per-thread form: also says what the threads that did not raise contributed when some thread raised *)
  Theorem labelled_per_thread c :
    reach bodies h0 tb0 n0 (map (compile_thread mp) opss) c ->
    d_find N.eqb (tabs c TB) K = Some cid ->
    heap c (LChild cid J) =
      (h0 (LChild cid J) + zsum (map (fun t => sum_incs_t t (LChild cid J) (trace c)) (seq 0 (length opss))))%Z /\
    forall t, code (thr c t) = [] -> ~ In (EvExc t) (trace c) ->
              sum_incs_t t (LChild cid J) (trace c) = issuedL_ops (nth t opss []).
  Proof.
    intros Hr Hcid. pose proof Hr as [s Hs].
    assert (HW : WI c) by (rewrite Hs; apply WI_exec, WI_init).
    destruct HW as (HInv & HGI & HLI & Ho & Hn & (_ & Htids)).
    destruct (fin_ins_fresh mp bodies h0 tb0 n0 _ Hw c Hr) as [Hfresh Htabs].
    assert (Hco : create_only (lib_disc mp) TB = true).
    { simpl. destruct (TB <? 2) eqn:E; [apply N.ltb_lt in E; lia|reflexivity]. }
    assert (HQ : Qc c).
    { split.
      - intros id' Hb. pose proof (born_stable (lib_disc mp) tb0 n0 TB K id' Hinit HTB Hco _ Hn Hfresh Hb) as H.
        rewrite <- Htabs, Hcid in H. congruence.
      - intros tb k Htb Hb. apply (born_func tb0 n0 _ _ cid tb k TB K Hinit HGI Htb HTB Hb).
        apply find_born. rewrite <- Htabs. exact Hcid. }
    split.
    - rewrite (fin_sum mp bodies h0 tb0 n0 _ Hw c Hr _ Ho). f_equal.
      rewrite (sum_incs_split _ _ _ Htids). rewrite map_length. reflexivity.
    - intros t Hfin Hne. destruct (HLI t) as [[[_ Hex]|(r0 & Hr0)]|(pd & Hsh & Heq)].
      + contradiction.
      + rewrite Hfin in Hr0. discriminate.
      + rewrite (shape_done c t pd Hfin Hsh) in Heq. specialize (Heq HQ). lia.
  Qed.
End Labelled.

(* ---------- corollaries and syntactic helpers ---------- *)
Definition nolabel (o : op) : Prop := match o with OLabels _ _ _ | OLabelsInc _ _ _ _ _ => False | _ => True end.
Lemma from_quiet mp TB ops (HTB : 2 <= TB) : forall rb, Forall (fun o => lab_ok TB o /\ nolabel o) ops -> quiet TB (compile_from mp rb ops).
Proof.
  induction ops as [|o ops IH]; intros rb H; simpl; [constructor|]. inversion H as [|? ? [Ho Hn] Hops]; subst.
  apply Forall_app; split; [|apply IH; exact Hops].
  apply (nopar_quiet mp TB 0 0 HTB rb o); [destruct o; try reflexivity; contradiction|exact Ho].
Qed.

(* every labels() look-up of (TB, K) that found a child found THE child of the final table *)
Lemma labels_returns_final mp bodies h0 tb0 n0 TB K opss :
  2 <= TB -> (forall b, quiet TB (bodies b)) -> (forall b, jumps_in (bodies b)) ->
  Forall (Forall (lab_ok TB)) opss -> wf_world mp bodies (map (compile_thread mp) opss) -> init_ok tb0 n0 ->
  forall c, reach bodies h0 tb0 n0 (map (compile_thread mp) opss) c ->
  forall cid, d_find N.eqb (tabs c TB) K = Some cid ->
  forall t id, In (EvLookup t TB K (Some id)) (trace c) -> id = cid.
Proof.
  intros HTB Hbq Hbj Hops Hw Hinit c Hr cid Hcid t id Hin. pose proof Hr as [s Hs].
  assert (HW : WI mp h0 tb0 n0 TB K 0 cid opss c).
  { rewrite Hs. apply (WI_exec mp bodies); auto. apply (WI_init mp bodies); auto. }
  destruct HW as (HInv & HGI & _ & _ & Hn & _).
  destruct (fin_ins_fresh mp bodies h0 tb0 n0 _ Hw c Hr) as [Hfresh Htabs].
  assert (Hco : create_only (lib_disc mp) TB = true).
  { simpl. destruct (TB <? 2) eqn:E; [apply N.ltb_lt in E; lia|reflexivity]. }
  destruct HInv as (_ & _ & _ & _ & (_ & _ & Hlk)).
  apply in_split in Hin as (a & older & Htr). rewrite Htr in Hlk.
  apply lookups_ok_app in Hlk. simpl in Hlk. destruct Hlk as [Hres _]. symmetry in Hres.
  apply find_born in Hres. apply (born_mono tb0 (a ++ [EvLookup t TB K (Some id)])) in Hres.
  rewrite <- app_assoc in Hres. simpl in Hres. rewrite <- Htr in Hres.
  pose proof (born_stable (lib_disc mp) tb0 n0 TB K id Hinit HTB Hco _ Hn Hfresh Hres) as H.
  rewrite <- Htabs, Hcid in H. congruence.
Qed.

Theorem final_sum_labelled_noraise mp bodies h0 tb0 n0 TB K J cid opss :
  2 <= TB ->
  (forall b, quiet TB (bodies b) /\ jumps_in (bodies b) /\ noraise (bodies b)) ->
  Forall (Forall (fun o => lab_ok TB o /\ nonraising o)) opss ->
  wf_world mp bodies (map (compile_thread mp) opss) -> init_ok tb0 n0 ->
  forall c, reach bodies h0 tb0 n0 (map (compile_thread mp) opss) c ->
  (forall t, code (thr c t) = []) ->
  d_find N.eqb (tabs c TB) K = Some cid ->
  heap c (LChild cid J) = (h0 (LChild cid J) + zsum (map (issuedL_ops TB K J) opss))%Z.
Proof.
  intros HTB Hb Hops Hw Hinit c Hr Hfin Hcid.
  apply (final_sum_labelled mp bodies h0 tb0 n0 TB K J cid HTB); auto.
  - intro b. apply Hb.
  - intro b. apply Hb.
  - eapply Forall_impl; [|exact Hops]. intros ops H. eapply Forall_impl; [|exact H]. simpl. tauto.
  - apply (noexc_reach bodies h0 tb0 n0 (map (compile_thread mp) opss) c); [intro b; apply Hb| |exact Hr].
    apply Forall_map. eapply Forall_impl; [|exact Hops]. intros ops H. apply from_noraise.
    eapply Forall_impl; [|exact H]. simpl. tauto.
Qed.
