(* C17: the families behind the body served by the three front-ends (model/HttpReg.v) are the FILTER of the
   full collection by the name[] values.  Rests on the C07 lemmas about RestrictedRegistry.collect
   (proofs/RegistryProofs.v) and on the shape lemmas of proofs/HttpProofs.v. *)
From V Require Import lib.PyBase lib.Tac model.Registry model.RegistrySpec model.Http model.HttpSpec model.HttpReg
  proofs.RegistryProofs proofs.HttpProofs.
From Coq Require Import Permutation.
Ltac Zify.zify_post_hook ::= Z.to_euclidean_division_equations.
Open Scope N_scope.

(* ================================================================ facts about the filter *)
Lemma filtered_cases ns f :
  (filter (keep ns) (f_samples f) = [] /\ filtered ns f = [])
  \/ (filter (keep ns) (f_samples f) <> []
      /\ filtered ns f = [mk_family (f_name f) (f_typ f) (f_help f) (f_unit f) (filter (keep ns) (f_samples f))]).
Proof.
  unfold filtered. destruct (filter (keep ns) (f_samples f)) as [|s ss].
  - left. split; reflexivity.
  - right. split; [discriminate|reflexivity].
Qed.

Lemma filter_collection_in ns fams g :
  In g (filter_collection ns fams) <->
  exists f, In f fams /\ filter (keep ns) (f_samples f) <> []
    /\ g = mk_family (f_name f) (f_typ f) (f_help f) (f_unit f) (filter (keep ns) (f_samples f)).
Proof.
  unfold filter_collection. rewrite in_flat_map. split.
  - intros (f & Hf & Hg). exists f. split; [exact Hf|].
    destruct (filtered_cases ns f) as [[_ E]|[Hne E]]; rewrite E in Hg.
    + destruct Hg.
    + destruct Hg as [<-|[]]. split; [exact Hne|reflexivity].
  - intros (f & Hf & Hne & ->). exists f. split; [exact Hf|].
    destruct (filtered_cases ns f) as [[E _]|[_ E]]; [contradiction|]. rewrite E. left. reflexivity.
Qed.

Lemma filtered_name ns f g : In g (filtered ns f) -> f_name g = f_name f.
Proof.
  destruct (filtered_cases ns f) as [[_ E]|[_ E]]; rewrite E; intro H.
  - destruct H.
  - destruct H as [<-|[]]. reflexivity.
Qed.

Lemma filter_collection_name_in ns fams n :
  In n (map f_name (filter_collection ns fams)) -> In n (map f_name fams).
Proof.
  rewrite !in_map_iff. intros (g & <- & Hg). unfold filter_collection in Hg.
  apply in_flat_map in Hg as (f & Hf & Hg). exists f. split; [|exact Hf].
  symmetry. exact (filtered_name ns f g Hg).
Qed.

(* every family at most once: distinct family names stay distinct *)
Lemma filter_collection_nodup ns fams :
  NoDup (map f_name fams) -> NoDup (map f_name (filter_collection ns fams)).
Proof.
  induction fams as [|f fams IH]; intro H; [constructor|].
  cbn [map] in H. inversion H as [|x l Hnin Hnd]; subst.
  change (filter_collection ns (f :: fams)) with (filtered ns f ++ filter_collection ns fams).
  rewrite map_app.
  destruct (filtered_cases ns f) as [[_ E]|[_ E]]; rewrite E; cbn [map app].
  - exact (IH Hnd).
  - constructor; [|exact (IH Hnd)].
    intro Hin. apply Hnin. exact (filter_collection_name_in ns fams _ Hin).
Qed.

Lemma filter_collection_length ns fams : (length (filter_collection ns fams) <= length fams)%nat.
Proof.
  induction fams as [|f fams IH]; [apply le_n|].
  change (filter_collection ns (f :: fams)) with (filtered ns f ++ filter_collection ns fams).
  rewrite app_length. cbn [length].
  destruct (filtered_cases ns f) as [[_ E]|[_ E]]; rewrite E; cbn [length]; lia.
Qed.

(* only requested sample names, and all of them *)
Lemma filter_collection_samples ns fams g s :
  In g (filter_collection ns fams) -> In s (f_samples g) -> In (s_name s) ns.
Proof.
  intros Hg Hs. apply filter_collection_in in Hg as (f & _ & _ & ->). cbn [f_samples] in Hs.
  apply filter_In in Hs as [_ Hk]. unfold keep in Hk. apply mem_str_In. exact Hk.
Qed.

Lemma filter_collection_complete ns fams f s :
  In f fams -> In s (f_samples f) -> In (s_name s) ns ->
  exists g, In g (filter_collection ns fams) /\ f_name g = f_name f /\ In s (f_samples g).
Proof.
  intros Hf Hs Hn.
  assert (Hin : In s (filter (keep ns) (f_samples f))).
  { apply filter_In. split; [exact Hs|]. unfold keep. apply mem_str_In. exact Hn. }
  exists (mk_family (f_name f) (f_typ f) (f_help f) (f_unit f) (filter (keep ns) (f_samples f))).
  split; [|split; [reflexivity|exact Hin]].
  apply filter_collection_in. exists f. split; [exact Hf|]. split; [|reflexivity].
  intro E. rewrite E in Hin. destruct Hin.
Qed.

(* ================================================================ the collection behind a body *)
Section Collected.
  Variable cenv : cid -> cbeh.
  Variable r : reg.
  Hypothesis HInv : Inv r.
  Hypothesis Hwd : forall c, registered r c -> well_described cenv r c.

  Lemma collected_is_restriction names :
    Permutation (h_collected cenv r names) (restricted_to names (collect cenv r)).
  Proof.
    destruct names as [ns|]; cbn [h_collected restricted_to].
    - exact (restricted_is_filter cenv r ns HInv Hwd).
    - apply Permutation_refl.
  Qed.

  Lemma collected_unrestricted : h_collected cenv r None = collect cenv r.
  Proof. reflexivity. Qed.

  Lemma collected_name_set ns ns' : (forall n, In n ns <-> In n ns') ->
    Permutation (h_collected cenv r (Some ns)) (h_collected cenv r (Some ns')).
  Proof.
    intro H. cbn [h_collected]. exact (proj1 (restricted_depends_on_name_set cenv r ns ns' HInv Hwd H)).
  Qed.

  Lemma collected_family_once names :
    NoDup (map f_name (collect cenv r)) -> NoDup (map f_name (h_collected cenv r names)).
  Proof.
    intro Hnd.
    apply (Permutation_NoDup (l := map f_name (restricted_to names (collect cenv r)))).
    - apply Permutation_map. apply Permutation_sym. apply collected_is_restriction.
    - destruct names as [ns|]; cbn [restricted_to]; [apply filter_collection_nodup|]; exact Hnd.
  Qed.

  Lemma collected_length names : (length (h_collected cenv r names) <= length (collect cenv r))%nat.
  Proof.
    rewrite (Permutation_length (collected_is_restriction names)).
    destruct names as [ns|]; cbn [restricted_to]; [apply filter_collection_length|apply le_n].
  Qed.

  Lemma collected_only_requested ns g s :
    In g (h_collected cenv r (Some ns)) -> In s (f_samples g) -> In (s_name s) ns.
  Proof.
    intros Hg Hs.
    apply (Permutation_in _ (collected_is_restriction (Some ns))) in Hg. cbn [restricted_to] in Hg.
    exact (filter_collection_samples ns _ g s Hg Hs).
  Qed.

  Lemma collected_all_requested ns f s :
    In f (collect cenv r) -> In s (f_samples f) -> In (s_name s) ns ->
    exists g, In g (h_collected cenv r (Some ns)) /\ f_name g = f_name f /\ In s (f_samples g).
  Proof.
    intros Hf Hs Hn. destruct (filter_collection_complete ns _ f s Hf Hs Hn) as (g & Hg & Hname & Hin).
    exists g. split; [|split; assumption].
    apply (Permutation_in _ (Permutation_sym (collected_is_restriction (Some ns)))). exact Hg.
  Qed.

  (* ---- the three front-ends *)
  Lemma bake_families lower accept aenc params dis :
    h_body_families cenv r (h_body (h_bake_output lower accept aenc params dis))
    = h_collected cenv r (d_find str_eqb params H_NAME_KEY).
  Proof.
    destruct (bake_shape lower accept aenc params dis) as (_ & Hb & _). rewrite Hb. reflexivity.
  Qed.

  Lemma frontends_serve_filter lower parse_qs urlquery dis (env : assoc str str) (p : str)
        (hdrs : list (str * str)) (q : option str) (accepts aencs : list str) (path : str) :
    d_find str_eqb env H_ENV_METHOD = Some H_GET ->
    d_find str_eqb env H_ENV_PATH = Some p -> p <> H_FAVICON ->
    (exists resp, h_wsgi_app lower parse_qs dis env = Ok resp
       /\ Permutation (h_body_families cenv r (h_body resp))
            (restricted_to (d_find str_eqb (parse_qs (h_or_empty (d_find str_eqb env H_ENV_QUERY))) H_NAME_KEY)
               (collect cenv r)))
    /\ (exists code hs b, h_asgi_app lower parse_qs dis hdrs q true = [HA_start code hs; HA_body b]
       /\ Permutation (h_body_families cenv r b)
            (restricted_to (d_find str_eqb (parse_qs (h_or_empty q)) H_NAME_KEY) (collect cenv r)))
    /\ Permutation (h_body_families cenv r (hh_body (h_handler_get lower parse_qs urlquery accepts aencs path)))
         (restricted_to (d_find str_eqb (parse_qs (urlquery path)) H_NAME_KEY) (collect cenv r)).
  Proof.
    intros Hm Hp Hf. split; [|split].
    - eexists. split; [apply (wsgi_get lower parse_qs dis env p Hm Hp Hf)|].
      rewrite bake_families. apply collected_is_restriction.
    - unfold h_asgi_app, h_asgi_core. do 3 eexists. split; [reflexivity|].
      rewrite bake_families. apply collected_is_restriction.
    - unfold h_handler_get, h_handler_core. cbn [hh_body].
      rewrite bake_families. apply collected_is_restriction.
  Qed.
End Collected.

Lemma body_family_once cenv r : Inv r -> (forall c, registered r c -> well_described cenv r c) ->
  forall names,
  (NoDup (map f_name (collect cenv r)) -> NoDup (map f_name (h_collected cenv r names)))
  /\ (length (h_collected cenv r names) <= length (collect cenv r))%nat.
Proof. intros HI Hw names. split; [apply collected_family_once|apply collected_length]; assumption. Qed.

Lemma body_requested_samples cenv r : Inv r -> (forall c, registered r c -> well_described cenv r c) ->
  forall ns,
  (forall g s, In g (h_collected cenv r (Some ns)) -> In s (f_samples g) -> In (s_name s) ns)
  /\ (forall f s, In f (collect cenv r) -> In s (f_samples f) -> In (s_name s) ns ->
        exists g, In g (h_collected cenv r (Some ns)) /\ f_name g = f_name f /\ In s (f_samples g)).
Proof.
  intros HI Hw ns. split; [apply collected_only_requested|apply collected_all_requested]; assumption.
Qed.

(* one request through the three front-ends: the same family list, not only the same multiset *)
Lemma frontends_same_families cenv r lower parse_qs urlquery dis (env : assoc str str)
      (hdrs : list (str * str)) (q : option str) (accepts aencs : list str) (path p : str) :
  d_find str_eqb env H_ENV_METHOD = Some H_GET ->
  d_find str_eqb env H_ENV_PATH = Some p -> p <> H_FAVICON ->
  d_find str_eqb env H_ENV_QUERY = q ->
  urlquery path = h_or_empty q ->
  exists resp code hs b,
    h_wsgi_app lower parse_qs dis env = Ok resp
    /\ h_asgi_app lower parse_qs dis hdrs q true = [HA_start code hs; HA_body b]
    /\ h_body_families cenv r b = h_body_families cenv r (h_body resp)
    /\ h_body_families cenv r (hh_body (h_handler_get lower parse_qs urlquery accepts aencs path))
       = h_body_families cenv r (h_body resp).
Proof.
  intros Hm Hp Hf Hq Hu. unfold h_asgi_app, h_asgi_core, h_handler_get, h_handler_core. cbn [hh_body].
  do 4 eexists. split; [apply (wsgi_get lower parse_qs dis env p Hm Hp Hf)|]. split; [reflexivity|].
  rewrite !bake_families, Hq, Hu. split; reflexivity.
Qed.

(* ================================================================ what the client decodes, over families *)
Section RoundtripReg.
  Variable cenv : cid -> cbeh.
  Variable encode : hfmt -> list family -> list N.
  Variable gzip gunzip : list N -> list N.
  Hypothesis gunzip_gzip : forall b, gunzip (gzip b) = b.

  Lemma bake_client_roundtrip_reg r lower accept aenc params dis :
    let resp := h_bake_output lower accept aenc params dis in
    client_decode gunzip (h_header resp H_CONTENT_ENCODING) (h_body_bytes_reg cenv encode gzip r (h_body resp))
    = encode (fst (h_choose_encoder accept)) (h_collected cenv r (d_find str_eqb params H_NAME_KEY)).
  Proof.
    cbv zeta. unfold h_body_bytes_reg.
    exact (bake_client_roundtrip (fun f names => encode f (h_collected cenv r names)) gzip gunzip gunzip_gzip
             lower accept aenc params dis).
  Qed.
End RoundtripReg.

(* ================================================================ registries built by register() calls *)
Lemma build_registry_inv cenv a l cs : Inv (h_build_registry cenv a l cs).
Proof. unfold h_build_registry. apply Inv_reachable. Qed.

(* ================================================================ non-vacuity: a summary, a histogram, target info *)
Definition exr_s : str := [115].                                        (* s *)
Definition exr_s_sum : str := [115; 95; 115; 117; 109].                  (* s_sum *)
Definition exr_s_count : str := [115; 95; 99; 111; 117; 110; 116].       (* s_count *)
Definition exr_c : str := [99].                                          (* c *)
Definition exr_c_total : str := [99; 95; 116; 111; 116; 97; 108].        (* c_total *)
Definition exr_summary : family :=
  mk_family exr_s TSummary [104] [] [mk_sample exr_s_count [] 2; mk_sample exr_s_sum [] 3].
Definition exr_counter : family := mk_family exr_c TCounter [104] [] [mk_sample exr_c_total [] 4].
Definition exr_env (c : cid) : cbeh :=
  if c =? 0 then mk_cbeh (Some [(exr_s, TSummary)]) [exr_summary]
  else mk_cbeh (Some [(exr_c, TCounter)]) [exr_counter].
Definition exr_reg : reg := h_build_registry exr_env false [] [0; 1].

Lemma exr_well_described : forall c, registered exr_reg c -> well_described exr_env exr_reg c.
Proof.
  intros c Hc. vm_compute in Hc. destruct Hc as [<-|[<-|[]]]; intros f s Hf Hs.
  - vm_compute in Hf. destruct Hf as [<-|[]]. vm_compute in Hs.
    destruct Hs as [<-|[<-|[]]]; eexists; (split; [left; reflexivity|]); vm_compute; tauto.
  - vm_compute in Hf. destruct Hf as [<-|[]]. vm_compute in Hs.
    destruct Hs as [<-|[]]; eexists; (split; [right; left; reflexivity|]); vm_compute; tauto.
Qed.

(* name[]=s_sum&name[]=s_count&name[]=s_sum (two names of ONE collector, one of them repeated): the summary
   family once, with both samples; and with c_total in between: both families once each *)
Lemma exr_example :
  h_collected exr_env exr_reg (Some [exr_s_sum; exr_s_count; exr_s_sum]) = [exr_summary]
  /\ h_collected exr_env exr_reg (Some [exr_s_sum; exr_c_total; exr_s_count])
     = [mk_family exr_s TSummary [104] [] [mk_sample exr_s_count [] 2; mk_sample exr_s_sum [] 3]; exr_counter]
  /\ h_collected exr_env exr_reg (Some [exr_s_sum])
     = [mk_family exr_s TSummary [104] [] [mk_sample exr_s_sum [] 3]]
  /\ h_collected exr_env exr_reg None = [exr_summary; exr_counter].
Proof. vm_compute. repeat split. Qed.
