(* Proofs about model/MmapDict.v (C10, C11). *)
From V Require Import lib.PyBase lib.Tac model.MmapDict.
Ltac Zify.zify_post_hook ::= Z.to_euclidean_division_equations.
Open Scope N_scope.

(* ---------- len / take / drop / slice / fill ---------- *)
Lemma len_nil {A} : len (@nil A) = 0. Proof. reflexivity. Qed.
Lemma len_cons {A} (x : A) l : len (x :: l) = 1 + len l.
Proof. unfold len. cbn [length]. lia. Qed.
Lemma len_app {A} (a b : list A) : len (a ++ b) = len a + len b.
Proof. unfold len. rewrite app_length. lia. Qed.
Lemma len_fill {A} (x : A) n : len (fill x n) = n.
Proof. unfold len, fill. rewrite repeat_length. lia. Qed.
Lemma to_nat_len {A} (l : list A) : N.to_nat (len l) = length l.
Proof. unfold len. apply Nat2N.id. Qed.

Lemma take_app_exact {A} (a b : list A) n : n = len a -> take n (a ++ b) = a.
Proof.
  intros ->. unfold take. rewrite to_nat_len.
  rewrite firstn_app, Nat.sub_diag, firstn_all. cbn. apply app_nil_r.
Qed.
Lemma drop_app_exact {A} (a b : list A) n : n = len a -> drop n (a ++ b) = b.
Proof.
  intros ->. unfold drop. rewrite to_nat_len.
  rewrite skipn_app, Nat.sub_diag, skipn_all. reflexivity.
Qed.
Lemma drop_app_plus {A} (a b : list A) n m : n = len a + m -> drop n (a ++ b) = drop m b.
Proof.
  intros ->. unfold drop. rewrite N2Nat.inj_add, to_nat_len.
  rewrite skipn_app. rewrite skipn_all2 by lia. cbn [app]. f_equal. lia.
Qed.
Lemma take_app_plus {A} (a b : list A) n m : n = len a + m -> take n (a ++ b) = a ++ take m b.
Proof.
  intros ->. unfold take. rewrite N2Nat.inj_add, to_nat_len.
  rewrite firstn_app. rewrite firstn_all2 by lia. f_equal. f_equal. lia.
Qed.
Lemma take_all {A} (l : list A) n : len l <= n -> take n l = l.
Proof. intros H. unfold take. apply firstn_all2. unfold len in H. lia. Qed.
Lemma drop_all {A} (l : list A) n : len l <= n -> drop n l = [].
Proof. intros H. unfold drop. apply skipn_all2. unfold len in H. lia. Qed.
Lemma take_0 {A} (l : list A) : take 0 l = [].
Proof. reflexivity. Qed.
Lemma drop_0 {A} (l : list A) : drop 0 l = l.
Proof. reflexivity. Qed.
Lemma len_take {A} (l : list A) n : len (take n l) = N.min n (len l).
Proof. unfold len, take. rewrite firstn_length. lia. Qed.
Lemma len_drop {A} (l : list A) n : len (drop n l) = len l - n.
Proof. unfold len, drop. rewrite skipn_length. lia. Qed.
Lemma take_drop {A} (l : list A) n : take n l ++ drop n l = l.
Proof. apply firstn_skipn. Qed.
Lemma take_take {A} (l : list A) n m : take n (take m l) = take (N.min n m) l.
Proof. unfold take. rewrite firstn_firstn. f_equal. lia. Qed.
Lemma skipn_skipn' {A} : forall m n (l : list A), skipn n (skipn m l) = skipn (m + n) l.
Proof.
  induction m as [|m IH]; intros n l; [reflexivity|].
  destruct l as [|x l]; [cbn; apply skipn_nil|]. cbn [skipn Nat.add]. apply IH.
Qed.
Lemma drop_drop {A} (l : list A) n m : drop n (drop m l) = drop (m + n) l.
Proof. unfold drop. rewrite skipn_skipn', N2Nat.inj_add. reflexivity. Qed.
Lemma take_plus {A} (l : list A) n m : take (n + m) l = take n l ++ take m (drop n l).
Proof.
  unfold take, drop. rewrite N2Nat.inj_add.
  rewrite <- (firstn_skipn (N.to_nat n) l) at 1.
  rewrite firstn_app, firstn_length.
  destruct (Nat.le_gt_cases (N.to_nat n) (length l)) as [H|H].
  - rewrite Nat.min_l by lia. rewrite (firstn_all2 (firstn _ l)) by (rewrite firstn_length; lia).
    f_equal. f_equal. lia.
  - rewrite (skipn_all2 l) by lia. rewrite !firstn_nil, !app_nil_r.
    rewrite firstn_firstn. f_equal. lia.
Qed.

Lemma slice_app_exact {A} (a b c : list A) n m :
  n = len a -> m = len b -> slice (a ++ b ++ c) n m = b.
Proof. intros Hn Hm. unfold slice. rewrite (drop_app_exact a) by exact Hn. apply take_app_exact. exact Hm. Qed.
Lemma slice_0_app {A} (b c : list A) m : m = len b -> slice (b ++ c) 0 m = b.
Proof. intros. unfold slice. rewrite drop_0. apply take_app_exact. assumption. Qed.

Lemma fill_plus {A} (x : A) n m : fill x (n + m) = fill x n ++ fill x m.
Proof. unfold fill. rewrite N2Nat.inj_add. apply repeat_app. Qed.

(* ---------- struct ---------- *)
Lemma le32_len v : len (le32 v) = 4.
Proof. reflexivity. Qed.

Lemma le32_value v : v < 4294967296 ->
  v mod 256 + 256 * ((v / 256) mod 256) + 65536 * ((v / 65536) mod 256) + 16777216 * ((v / 16777216) mod 256) = v.
Proof. intros H. lia. Qed.

Lemma unpack_le32 v rest : v < 2147483648 -> unpack_i (le32 v ++ rest) 0 = Ok (Z.of_N v).
Proof.
  intros H. unfold unpack_i. rewrite (slice_0_app (le32 v) rest 4) by reflexivity.
  unfold le32. rewrite le32_value by lia.
  destruct (v <? 2147483648) eqn:E; [reflexivity|lia].
Qed.

Lemma pack_i_ok v : v < 2147483648 -> pack_i v = Ok (le32 v).
Proof. intros H. unfold pack_i. destruct (v <? 2147483648) eqn:E; [reflexivity|lia]. Qed.

(* ---------- entries and their layout ---------- *)
Definition ehead (k : bytes) : bytes := le32 (len k) ++ k ++ fill SPACE (pad_len (len k)).
Definition enc (e : entry) : bytes := ehead (fst e) ++ fst (snd e) ++ snd (snd e).
Definition hsize (k : bytes) : N := 4 + len k + pad_len (len k).
Definition esize (k : bytes) : N := hsize k + 16.
Definition wf_value (v : value) : Prop := len (fst v) = 8 /\ len (snd v) = 8.
Definition wf_entry (e : entry) : Prop := wf_value (snd e).
Fixpoint total (es : list entry) : N :=
  match es with [] => 0 | e :: r => esize (fst e) + total r end.
Definition flat (es : list entry) : bytes := flat_map enc es.
(* key -> offset of its 16 value bytes, first entry starting at p *)
Fixpoint offsets (p : N) (es : list entry) : assoc bytes N :=
  match es with [] => [] | e :: r => (fst e, p + hsize (fst e)) :: offsets (p + esize (fst e)) r end.
Fixpoint with_pos (p : N) (es : list entry) : list (entry * N) :=
  match es with [] => [] | e :: r => (e, p + hsize (fst e)) :: with_pos (p + esize (fst e)) r end.

Lemma pad_len_range n : 1 <= pad_len n <= 8.
Proof. unfold pad_len. lia. Qed.
Lemma hsize_aligned k : hsize k mod 8 = 0.
Proof. unfold hsize, pad_len. lia. Qed.
Lemma esize_aligned k : esize k mod 8 = 0.
Proof. unfold esize. pose proof (hsize_aligned k). lia. Qed.
Lemma esize_ge k : 24 <= esize k.
Proof. unfold esize, hsize, pad_len. lia. Qed.
Lemma len_ehead k : len (ehead k) = hsize k.
Proof. unfold ehead, hsize. rewrite !len_app, le32_len, len_fill. lia. Qed.
Lemma len_enc e : wf_entry e -> len (enc e) = esize (fst e).
Proof.
  intros [H1 H2]. unfold enc, esize. rewrite !len_app, len_ehead, H1, H2. lia.
Qed.
Lemma len_flat es : Forall wf_entry es -> len (flat es) = total es.
Proof.
  induction 1 as [|e r He Hr IH]; [reflexivity|].
  unfold flat in *. cbn [flat_map total]. rewrite len_app, IH, len_enc by assumption. reflexivity.
Qed.
Lemma flat_app a b : flat (a ++ b) = flat a ++ flat b.
Proof. unfold flat. apply flat_map_app. Qed.
Lemma total_app a b : total (a ++ b) = total a + total b.
Proof. induction a as [|e a IH]; cbn [total app]; [reflexivity|]. rewrite IH. lia. Qed.
Lemma drop_pos_with_pos p es : drop_pos (with_pos p es) = es.
Proof. revert p. induction es as [|e r IH]; intros p; cbn; [reflexivity|]. f_equal. apply IH. Qed.
Lemma length_le_flat es : (length es <= length (flat es))%nat.
Proof.
  induction es as [|e r IH]; [cbn; lia|]. unfold flat in *. cbn [flat_map length]. rewrite app_length.
  assert (1 <= length (enc e))%nat by (unfold enc, ehead, le32; cbn [app length]; lia). lia.
Qed.

Lemma unpack_dd_app pre v ts rest off :
  off = len pre -> len v = 8 -> len ts = 8 -> unpack_dd (pre ++ (v ++ ts) ++ rest) off = Ok (v, ts).
Proof.
  intros Ho Hv Ht. unfold unpack_dd.
  rewrite (slice_app_exact pre (v ++ ts) rest off 16) by (rewrite ?len_app; lia).
  rewrite len_app, Hv, Ht. cbn [N.add N.eqb Pos.add Pos.succ Pos.eqb].
  rewrite (take_app_exact v ts 8) by lia. rewrite (drop_app_exact v ts 8) by lia. reflexivity.
Qed.

(* the parsing lemma: the reader inverts the layout *)
Lemma read_loop_parse : forall es fuel junk used pos,
  Forall wf_entry es -> Forall (fun e => len (fst e) < 2147483648) es ->
  (length es <= fuel)%nat -> used = pos + total es ->
  read_loop fuel (flat es ++ junk) used pos = Ok (with_pos pos es).
Proof.
  induction es as [|e r IH]; intros fuel junk used pos Hwf Hk Hf Hu.
  - cbn [total] in Hu. destruct fuel; cbn [read_loop with_pos];
      (destruct (pos <? used) eqn:E; [lia|reflexivity]).
  - inversion Hwf as [|? ? He Hr]; subst. inversion Hk as [|? ? Hke Hkr]; subst.
    destruct fuel as [|f]; [cbn in Hf; lia|].
    cbn [total]. pose proof (esize_ge (fst e)) as Hge.
    cbn [read_loop with_pos].
    destruct (pos <? pos + (esize (fst e) + total r)) eqn:E; [|lia]. clear E.
    destruct e as [k [v ts]]. destruct He as [Hv Ht]. cbn [fst snd] in *.
    unfold flat. cbn [flat_map]. fold (flat r).
    unfold enc, ehead. cbn [fst snd]. rewrite <- !app_assoc.
    rewrite unpack_le32 by assumption. cbn [bind].
    destruct (Z.of_N (len k) <? 0)%Z eqn:E; [lia|]. clear E.
    rewrite N2Z.id.
    destruct (pos + (esize k + total r) <? len k + pos) eqn:E; [unfold esize, hsize in *; lia|]. clear E.
    rewrite (slice_app_exact (le32 (len k)) k _ 4 (len k)) by reflexivity.
    (* value *)
    assert (Hpre : 4 + len k + pad_len (len k) = len (le32 (len k) ++ k ++ fill SPACE (pad_len (len k)))).
    { rewrite !len_app, le32_len, len_fill. lia. }
    replace (le32 (len k) ++ k ++ fill SPACE (pad_len (len k)) ++ v ++ ts ++ flat r ++ junk)
      with ((le32 (len k) ++ k ++ fill SPACE (pad_len (len k))) ++ (v ++ ts) ++ flat r ++ junk)
      by (rewrite <- !app_assoc; reflexivity).
    rewrite (unpack_dd_app _ v ts _ _ Hpre Hv Ht). cbn [bind].
    rewrite app_assoc.
    rewrite (drop_app_exact _ (flat r ++ junk)) by (rewrite !len_app, le32_len, len_fill, Hv, Ht; lia).
    rewrite (IH f junk _ (pos + (4 + len k + pad_len (len k)) + 16)); try assumption.
    + cbn [bind fst].
      replace (pos + (4 + len k + pad_len (len k)) + 16) with (pos + esize k) by (unfold esize, hsize; lia).
      replace (pos + (4 + len k + pad_len (len k))) with (pos + hsize k) by (unfold hsize; lia).
      reflexivity.
    + cbn in Hf. lia.
    + unfold esize, hsize. lia.
Qed.

(* ---------- files that represent a list of entries ---------- *)
Definition header (u : N) : bytes := le32 u ++ [0;0;0;0].
Lemma len_header u : len (header u) = 8.
Proof. reflexivity. Qed.

(* FR b es: b = header(used) ++ the entries, tiling [8, used) ++ anything *)
Definition FR (b : bytes) (es : list entry) : Prop :=
  exists junk, b = header (8 + total es) ++ flat es ++ junk.
Definition good (es : list entry) : Prop :=
  Forall wf_entry es /\ 8 + total es < 2147483648.

Lemma keys_small es : 8 + total es < 2147483648 -> Forall (fun e => len (fst e) < 2147483648) es.
Proof.
  induction es as [|e r IH]; intros H; constructor.
  - cbn beta. cbn [total] in H. unfold esize, hsize in H. unfold entry, bytes in *. lia.
  - apply IH. cbn [total] in H. lia.
Qed.

Lemma len_FR b es : FR b es -> Forall wf_entry es -> 8 + total es <= len b.
Proof. intros [junk ->] Hwf. rewrite !len_app, len_header, len_flat by assumption. lia. Qed.

Lemma raw_on_FR b es used : FR b es -> good es ->
  (used = Z.of_N (8 + total es) \/ (used <= 0)%Z) ->
  read_all_values_raw b used = Ok (with_pos 8 es).
Proof.
  intros [junk ->] [Hwf Hb] Hu. unfold read_all_values_raw.
  assert (Hh : unpack_i (header (8 + total es) ++ flat es ++ junk) 0 = Ok (Z.of_N (8 + total es))).
  { unfold header. rewrite <- app_assoc. apply unpack_le32. assumption. }
  assert (Hx : (do u <- (if (used <=? 0)%Z then unpack_i (header (8 + total es) ++ flat es ++ junk) 0 else Ok used);
                Ok u) = Ok (Z.of_N (8 + total es))).
  { destruct (used <=? 0)%Z eqn:E.
    - rewrite Hh. reflexivity.
    - destruct Hu as [->|Hu]; [reflexivity|lia]. }
  destruct (if (used <=? 0)%Z then unpack_i (header (8 + total es) ++ flat es ++ junk) 0 else Ok used)
    as [u|e]; cbn [bind] in Hx; [|discriminate].
  injection Hx as ->. cbn [bind]. rewrite N2Z.id.
  rewrite (drop_app_exact (header (8 + total es))) by reflexivity.
  apply read_loop_parse; try assumption.
  - apply keys_small. assumption.
  - rewrite !app_length. pose proof (length_le_flat es). lia.
  - reflexivity.
Qed.

Lemma read_all_on_FR b h es : FR b es -> good es -> used h = 8 + total es -> read_all b h = Ok es.
Proof.
  intros HF Hg Hu. unfold read_all. rewrite (raw_on_FR b es) by (auto; left; rewrite Hu; reflexivity).
  cbn [bind]. rewrite drop_pos_with_pos. reflexivity.
Qed.

Lemma take_FR b es n : FR b es -> Forall wf_entry es -> 8 + total es <= n -> FR (take n b) es.
Proof.
  intros [junk ->] Hwf Hn. exists (take (n - (8 + total es)) junk).
  rewrite app_assoc. rewrite (take_app_plus _ junk n (n - (8 + total es))).
  - rewrite <- app_assoc. reflexivity.
  - rewrite len_app, len_header, len_flat by assumption. lia.
Qed.

Lemma from_file_on_FR pg b es : 4 <= pg -> FR b es -> good es -> read_all_from_file pg b = Ok es.
Proof.
  intros Hpg HF [Hwf Hb]. pose proof (len_FR b es HF Hwf) as Hlen.
  unfold read_all_from_file. rewrite len_take.
  destruct (N.min pg (len b) =? 0) eqn:E; [lia|]. clear E.
  unfold read_all_from_file_orig.
  assert (Hh : unpack_i (take pg b) 0 = Ok (Z.of_N (8 + total es))).
  { destruct HF as [junk ->]. unfold header. rewrite <- !app_assoc.
    rewrite (take_app_plus (le32 (8 + total es)) _ pg (pg - 4)) by (rewrite le32_len; lia).
    apply unpack_le32. assumption. }
  rewrite Hh. cbn [bind]. rewrite len_take.
  match goal with |- (do l <- read_all_values_raw ?d _; _) = _ => assert (HD : FR d es) end.
  { destruct (Z.of_N (N.min pg (len b)) <? Z.of_N (8 + total es))%Z eqn:E.
    - assert (Hmin : N.min pg (len b) = pg) by lia. rewrite Hmin.
      replace (Z.to_N (Z.of_N (8 + total es) - Z.of_N pg)) with (8 + total es - pg) by lia.
      unfold slice. rewrite <- take_plus.
      apply take_FR; try assumption. lia.
    - apply take_FR; try assumption. lia. }
  rewrite (raw_on_FR _ es) by (auto; split; assumption).
  cbn [bind]. rewrite drop_pos_with_pos. reflexivity.
Qed.

(* ---------- association-list facts ---------- *)
Ltac nlia := unfold entry, value, bytes in *; lia.

Lemma keq_refl k : keq k k = true.
Proof. apply str_eqb_refl. Qed.
Lemma keq_eq a b : keq a b = true -> a = b.
Proof. apply str_eqb_eq. Qed.

Lemma d_mem_offsets p es k : d_find keq (offsets p es) k = None <-> d_find keq es k = None.
Proof.
  revert p. induction es as [|[k' v'] r IH]; intros p; cbn [offsets d_find fst]; [tauto|].
  destruct (keq k k'); [split; discriminate|apply IH].
Qed.
Lemma d_mem_offsets_eq p es k : d_mem keq (offsets p es) k = d_mem keq es k.
Proof.
  unfold d_mem. pose proof (d_mem_offsets p es k) as H.
  destruct (d_find keq (offsets p es) k), (d_find keq es k); try reflexivity.
  - destruct H as [_ H]. discriminate H. reflexivity.
  - destruct H as [H _]. discriminate H. reflexivity.
Qed.
Lemma d_mem_In (es : list entry) k : d_mem keq es k = true <-> In k (map fst es).
Proof.
  unfold d_mem. induction es as [|[k' v'] r IH]; cbn [d_find map fst In]; [split; [discriminate|tauto]|].
  destruct (keq k k') eqn:E.
  - apply keq_eq in E. subst. split; auto.
  - rewrite IH. split; [auto|]. intros [->|H]; [|exact H]. rewrite keq_refl in E. discriminate.
Qed.
Lemma d_mem_false_In (es : list entry) k : d_mem keq es k = false <-> ~ In k (map fst es).
Proof.
  rewrite <- d_mem_In. destruct (d_mem keq es k); split; intros H; try congruence.
Qed.
Lemma d_set_notin {V} (es : list (bytes * V)) k x : d_mem keq es k = false -> d_set keq es k x = es ++ [(k, x)].
Proof.
  unfold d_mem. induction es as [|[k' v'] r IH]; cbn [d_find d_set app]; [reflexivity|].
  destruct (keq k k'); [discriminate|]. intros H. rewrite IH by exact H. reflexivity.
Qed.
Lemma d_set_keys {V} (es : list (bytes * V)) k x : d_mem keq es k = true -> map fst (d_set keq es k x) = map fst es.
Proof.
  unfold d_mem. induction es as [|[k' v'] r IH]; cbn [d_find d_set map fst]; [discriminate|].
  destruct (keq k k'); [reflexivity|]. intros H. cbn [map fst]. rewrite IH by exact H. reflexivity.
Qed.
Lemma d_set_total es k x : d_mem keq es k = true -> total (d_set keq es k x) = total es.
Proof.
  unfold d_mem. induction es as [|[k' v'] r IH]; cbn [d_find d_set total fst]; [discriminate|].
  destruct (keq k k'); [reflexivity|]. intros H. cbn [total fst]. rewrite IH by exact H. reflexivity.
Qed.
Lemma d_set_offsets p es k x : d_mem keq es k = true -> offsets p (d_set keq es k x) = offsets p es.
Proof.
  unfold d_mem. revert p. induction es as [|[k' v'] r IH]; intros p; cbn [d_find d_set offsets fst]; [discriminate|].
  destruct (keq k k'); [reflexivity|]. intros H. cbn [offsets fst]. rewrite IH by exact H. reflexivity.
Qed.
Lemma d_set_d_set {V} (es : list (bytes * V)) k x y : d_set keq (d_set keq es k x) k y = d_set keq es k y.
Proof.
  induction es as [|[k' v'] r IH]; cbn [d_set].
  - rewrite keq_refl. reflexivity.
  - destruct (keq k k') eqn:E; cbn [d_set]; rewrite E; [reflexivity|]. rewrite IH. reflexivity.
Qed.
Lemma d_set_wf es k x : Forall wf_entry es -> wf_value x -> Forall wf_entry (d_set keq es k x).
Proof.
  intros H Hx. induction H as [|[k' v'] r He Hr IH]; cbn [d_set].
  - constructor; [exact Hx|constructor].
  - destruct (keq k k'); constructor; assumption.
Qed.
Lemma d_set_mem {V} (es : list (bytes * V)) k x : d_mem keq (d_set keq es k x) k = true.
Proof.
  unfold d_mem. induction es as [|[k' v'] r IH]; cbn [d_set d_find].
  - rewrite keq_refl. reflexivity.
  - destruct (keq k k') eqn:E; cbn [d_find]; rewrite E; [reflexivity|exact IH].
Qed.
Lemma offsets_app p a b : offsets p (a ++ b) = offsets p a ++ offsets (p + total a) b.
Proof.
  revert p. induction a as [|e a IH]; intros p; cbn [offsets app total].
  - f_equal. lia.
  - rewrite IH. replace (p + esize (fst e) + total a) with (p + (esize (fst e) + total a)) by lia. reflexivity.
Qed.
Lemma total_mono_set es k x : total es <= total (d_set keq es k x).
Proof.
  induction es as [|[k' v'] r IH]; cbn [d_set total fst]; [lia|].
  destruct (keq k k'); cbn [total fst]; lia.
Qed.

(* ---------- file effects on represented files ---------- *)
Lemma apply_write b off bs pre old post :
  b = pre ++ old ++ post -> off = len pre -> len old = len bs ->
  apply_effect (Some b) (WriteSlice off bs) = Ok (Some (pre ++ bs ++ post)).
Proof.
  intros -> -> Hl. cbn [apply_effect].
  rewrite (slice_app_exact pre old post (len pre) (len bs)) by (auto; lia).
  rewrite Hl, N.eqb_refl.
  rewrite (take_app_exact pre) by reflexivity.
  rewrite (drop_app_plus pre (old ++ post) (len pre + len bs) (len bs)) by reflexivity.
  rewrite (drop_app_exact old post) by lia.
  reflexivity.
Qed.
Lemma apply_truncate b n : len b <= n ->
  apply_effect (Some b) (Truncate n) = Ok (Some (b ++ fill 0 (n - len b))).
Proof. intros H. cbn [apply_effect]. rewrite take_all by exact H. reflexivity. Qed.

Lemma apply_effects_app f a b :
  apply_effects f (a ++ b) = (do f' <- apply_effects f a; apply_effects f' b).
Proof.
  revert f. induction a as [|e a IH]; intros f; cbn [app apply_effects bind]; [reflexivity|].
  destruct (apply_effect f e); cbn [bind]; [apply IH|reflexivity].
Qed.

(* the 16-byte value update rewrites exactly the addressed entry *)
Lemma write_value_at : forall es p pre junk k x pos,
  Forall wf_entry es -> wf_value x -> len pre = p ->
  d_find keq (offsets p es) k = Some pos ->
  apply_effect (Some (pre ++ flat es ++ junk)) (WriteSlice pos (fst x ++ snd x))
  = Ok (Some (pre ++ flat (d_set keq es k x) ++ junk)).
Proof.
  induction es as [|[k' [v' t']] r IH]; intros p pre junk k x pos Hwf Hx Hp Hf.
  - discriminate Hf.
  - inversion Hwf as [|? ? He Hr]; subst. destruct He as [Hv' Ht']. cbn [fst snd] in *.
    destruct Hx as [Hxv Hxt].
    cbn [offsets d_find fst] in Hf. cbn [d_set].
    destruct (keq k k') eqn:E.
    + injection Hf as <-.
      unfold flat. cbn [flat_map]. fold (flat r). unfold enc. cbn [fst snd].
      rewrite (apply_write _ (len pre + hsize k') (fst x ++ snd x) (pre ++ ehead k') (v' ++ t') (flat r ++ junk)).
      * rewrite <- !app_assoc. reflexivity.
      * rewrite <- !app_assoc. reflexivity.
      * rewrite len_app, len_ehead. reflexivity.
      * rewrite !len_app. nlia.
    + assert (Hl : len (pre ++ enc (k', (v', t'))) = len pre + esize k').
      { rewrite len_app, len_enc by (split; assumption). reflexivity. }
      pose proof (IH (len pre + esize k') (pre ++ enc (k', (v', t'))) junk k x pos Hr (conj Hxv Hxt) Hl Hf) as IH'.
      unfold flat in *. cbn [flat_map]. rewrite <- !app_assoc in IH'. rewrite <- !app_assoc. exact IH'.
Qed.

(* ---------- the doubling loop ---------- *)
Fixpoint truncs (cap : N) (j : nat) : list effect :=
  match j with O => [] | S j' => Truncate (2 * cap) :: truncs (2 * cap) j' end.

Lemma length_truncs cap j : length (truncs cap j) = j.
Proof. revert cap. induction j as [|j IH]; intros cap; cbn [truncs length]; [reflexivity|]. rewrite IH. reflexivity. Qed.

Lemma firstn_truncs : forall j n cap, firstn n (truncs cap j) = truncs cap (Nat.min n j).
Proof.
  induction j as [|j IH]; intros n cap.
  - rewrite Nat.min_0_r. cbn [truncs]. apply firstn_nil.
  - destruct n as [|n]; [reflexivity|]. cbn [truncs firstn Nat.min]. rewrite IH. reflexivity.
Qed.

Lemma pow2_succ j : 2 ^ N.of_nat (S j) = 2 * 2 ^ N.of_nat j.
Proof. rewrite Nat2N.inj_succ. apply N.pow_succ_r'. Qed.
Lemma pow2_pos j : 1 <= 2 ^ N.of_nat j.
Proof. pose proof (N.pow_nonzero 2 (N.of_nat j)). lia. Qed.

Lemma grow_spec : forall fuel cap need, need <= cap * 2 ^ N.of_nat fuel ->
  exists j, grow fuel cap need = Ok (cap * 2 ^ N.of_nat j, truncs cap j) /\ need <= cap * 2 ^ N.of_nat j.
Proof.
  induction fuel as [|f IH]; intros cap need H.
  - exists O. cbn [grow truncs N.of_nat] in *. rewrite N.pow_0_r, N.mul_1_r in *.
    destruct (need <=? cap) eqn:E; [split; [reflexivity|lia]|lia].
  - cbn [grow]. destruct (need <=? cap) eqn:E.
    + exists O. cbn [truncs N.of_nat]. rewrite N.pow_0_r, N.mul_1_r. split; [reflexivity|lia].
    + rewrite pow2_succ in H.
      destruct (IH (2 * cap) need) as [j [Hg Hn]]; [lia|].
      exists (S j). rewrite Hg. cbn [bind fst snd truncs]. rewrite pow2_succ.
      split; [|lia]. f_equal. f_equal. lia.
Qed.

(* the loop terminates: the fuel supplied by the model is enough whenever the capacity is positive *)
Lemma grow_fuel_enough cap need : 0 < cap -> need <= cap * 2 ^ N.of_nat (grow_fuel need).
Proof.
  intros Hc. unfold grow_fuel. rewrite Nat2N.inj_succ, N2Nat.id.
  destruct (N.eq_dec need 0) as [->|Hn]; [lia|].
  pose proof (N.log2_spec need ltac:(lia)) as [_ H].
  assert (2 ^ N.succ (N.log2 need) <= cap * 2 ^ N.succ (N.log2 need)); [|lia].
  rewrite <- (N.mul_1_l (2 ^ N.succ (N.log2 need))) at 1. apply N.mul_le_mono_r. lia.
Qed.

Lemma grow_terminates cap need : 0 < cap ->
  exists j, grow (grow_fuel need) cap need = Ok (cap * 2 ^ N.of_nat j, truncs cap j) /\ need <= cap * 2 ^ N.of_nat j.
Proof. intros H. apply grow_spec. apply grow_fuel_enough. exact H. Qed.

Lemma apply_truncs : forall j b,
  apply_effects (Some b) (truncs (len b) j) = Ok (Some (b ++ fill 0 (len b * 2 ^ N.of_nat j - len b))).
Proof.
  induction j as [|j IH]; intros b.
  - cbn [truncs apply_effects N.of_nat]. rewrite N.pow_0_r, N.mul_1_r, N.sub_diag. cbn. rewrite app_nil_r. reflexivity.
  - cbn [truncs apply_effects]. rewrite apply_truncate by lia. cbn [bind].
    set (b1 := b ++ fill 0 (2 * len b - len b)).
    assert (Hb1 : len b1 = 2 * len b) by (unfold b1; rewrite len_app, len_fill; lia).
    rewrite <- Hb1. rewrite IH. rewrite Hb1. unfold b1.
    rewrite <- app_assoc, <- fill_plus. rewrite pow2_succ.
    pose proof (pow2_pos j).
    assert (len b <= len b * 2 ^ N.of_nat j) by (rewrite <- (N.mul_1_r (len b)) at 1; apply N.mul_le_mono_l; assumption).
    do 4 f_equal. lia.
Qed.

Lemma len_apply_write b off bs b' :
  apply_effect (Some b) (WriteSlice off bs) = Ok (Some b') -> len b' = len b.
Proof.
  cbn [apply_effect]. destruct (len (slice b off (len bs)) =? len bs) eqn:E; [|discriminate].
  intros H. injection H as <-. unfold slice in E. rewrite len_take, len_drop in E.
  rewrite !len_app, len_take, len_drop. lia.
Qed.

Lemma NoDup_snoc {A} (l : list A) x : NoDup l -> ~ In x l -> NoDup (l ++ [x]).
Proof.
  induction 1 as [|y l Hy Hl IH]; intros Hx; cbn [app].
  - constructor; [intros []|constructor].
  - constructor.
    + rewrite in_app_iff. intros [H|[H|[]]]; [auto|]. subst. apply Hx. left. reflexivity.
    + apply IH. intros H. apply Hx. right. exact H.
Qed.

(* ---------- the representation invariant ---------- *)
Definition e0 (k : bytes) : entry := (k, (zero8, zero8)).
Lemma wf_e0 k : wf_entry (e0 k).
Proof. split; reflexivity. Qed.
Lemma entry_bytes_ok k : len k < 2147483648 -> entry_bytes k = Ok (enc (e0 k)).
Proof.
  intros H. unfold entry_bytes. rewrite pack_i_ok by assumption. cbn [bind].
  unfold enc, ehead, e0. cbn [fst snd]. rewrite <- !app_assoc. reflexivity.
Qed.

Section Inv.
Variable isz pg : N.
Hypothesis Hisz : 8 <= isz.
Hypothesis Hpg : 4 <= pg.

Record Rep (b : bytes) (h : handle) (es : list entry) : Prop := mkRep {
  rep_file : FR b es;
  rep_len : len b = capacity h;
  rep_used : used h = 8 + total es;
  rep_bound : used h < 2147483648;
  rep_cap : exists j : N, capacity h = isz * 2 ^ j;
  rep_pos : positions h = offsets 8 es;
  rep_nodup : NoDup (map fst es);
  rep_wf : Forall wf_entry es }.

Lemma Rep_good b h es : Rep b h es -> good es.
Proof. intros R. split; [apply (rep_wf _ _ _ R)|]. rewrite <- (rep_used _ _ _ R). apply (rep_bound _ _ _ R). Qed.

Lemma init_value_spec b h es k :
  Rep b h es -> d_mem keq es k = false -> 8 + total (es ++ [e0 k]) < 2147483648 ->
  exists h' tr b' (t : nat),
    init_value h k = Ok (h', tr) /\ apply_effects (Some b) tr = Ok (Some b') /\ Rep b' h' (es ++ [e0 k]) /\
    (forall n, exists bn, apply_effects (Some b) (firstn n tr) = Ok (Some bn) /\
                          (((n < t)%nat /\ FR bn es) \/ ((t <= n)%nat /\ FR bn (es ++ [e0 k])))
                          /\ exists i : N, len bn = isz * 2 ^ i).
Proof.
  intros R Hk Hb. pose proof (len_FR _ _ (rep_file _ _ _ R) (rep_wf _ _ _ R)) as Hlb.
  destruct R as [[junk Hfile] Hlen Hused Hbound [j0 Hcap] Hpos Hnd Hwf].
  rewrite total_app in Hb. cbn [total e0 fst] in Hb.
  assert (Hlk : len k < 2147483648) by (unfold esize, hsize in Hb; lia).
  destruct h as [cap u pos0]. cbn [capacity used positions] in *.
  destruct (grow_terminates cap (u + esize k)) as [j [Hg Hneed]]; [lia|].
  unfold init_value. rewrite entry_bytes_ok by assumption. cbn [bind capacity used positions].
  rewrite len_enc by apply wf_e0. cbn [e0 fst]. fold (e0 k).
  rewrite Hg. cbn [bind fst snd]. rewrite pack_i_ok by lia. cbn [bind].
  set (Z := fun i : nat => fill 0 (cap * 2 ^ N.of_nat i - cap)).
  assert (T : forall i, apply_effects (Some b) (truncs cap i) = Ok (Some (b ++ Z i))).
  { intros i. unfold Z. rewrite <- Hlen. apply apply_truncs. }
  assert (FRT : forall i, FR (b ++ Z i) es).
  { intros i. exists (junk ++ Z i). rewrite Hfile, <- !app_assoc. reflexivity. }
  set (J := junk ++ Z j).
  assert (Hb1 : b ++ Z j = header u ++ flat es ++ J).
  { unfold J. rewrite Hfile, Hused, <- !app_assoc. reflexivity. }
  assert (HlenZ : forall i, len (b ++ Z i) = cap * 2 ^ N.of_nat i).
  { intros i. unfold Z. rewrite len_app, len_fill, Hlen. pose proof (pow2_pos i).
    assert (cap <= cap * 2 ^ N.of_nat i) by (rewrite <- (N.mul_1_r cap) at 1; apply N.mul_le_mono_l; assumption). lia. }
  assert (HlenI : forall i, exists i' : N, cap * 2 ^ N.of_nat i = isz * 2 ^ i').
  { intros i. exists (j0 + N.of_nat i). rewrite Hcap, N.pow_add_r. lia. }
  assert (HlJ : esize k <= len J).
  { pose proof (HlenZ j) as H.
    rewrite Hb1 in H. rewrite !len_app, len_header, len_flat in H by assumption. lia. }
  set (b2 := header u ++ flat es ++ enc (e0 k) ++ drop (esize k) J).
  set (b3 := header (u + esize k) ++ flat (es ++ [e0 k]) ++ drop (esize k) J).
  assert (W1 : apply_effect (Some (b ++ Z j)) (WriteSlice u (enc (e0 k))) = Ok (Some b2)).
  { rewrite (apply_write _ u (enc (e0 k)) (header u ++ flat es) (take (esize k) J) (drop (esize k) J)).
    - unfold b2. rewrite <- !app_assoc. reflexivity.
    - rewrite Hb1, take_drop, <- !app_assoc. reflexivity.
    - rewrite len_app, len_header, len_flat by assumption. lia.
    - rewrite len_take, len_enc by apply wf_e0. cbn [e0 fst]. lia. }
  assert (W2 : apply_effect (Some b2) (WriteSlice 0 (le32 (u + esize k))) = Ok (Some b3)).
  { rewrite (apply_write b2 0 (le32 (u + esize k)) [] (le32 u) ([0;0;0;0] ++ flat es ++ enc (e0 k) ++ drop (esize k) J)).
    - unfold b3, header. rewrite flat_app. unfold flat at 3. cbn [flat_map]. rewrite app_nil_r, <- !app_assoc. reflexivity.
    - unfold b2, header. rewrite <- !app_assoc. reflexivity.
    - reflexivity.
    - reflexivity. }
  assert (F2 : FR b2 es).
  { exists (enc (e0 k) ++ drop (esize k) J). unfold b2. rewrite Hused. reflexivity. }
  assert (F3 : FR b3 (es ++ [e0 k])).
  { exists (drop (esize k) J). unfold b3. rewrite total_app. cbn [total e0 fst]. rewrite Hused.
    replace (8 + total es + esize k) with (8 + (total es + (esize k + 0))) by lia. reflexivity. }
  assert (Hall : apply_effects (Some b)
            (truncs cap j ++ [WriteSlice u (enc (e0 k)); WriteSlice 0 (le32 (u + esize k))]) = Ok (Some b3)).
  { rewrite apply_effects_app, T. cbn [bind apply_effects]. rewrite W1. cbn [bind]. rewrite W2. reflexivity. }
  eexists _, _, b3, (S (S j)). split; [reflexivity|]. split; [exact Hall|]. split.
  - constructor; cbn [capacity used positions].
    + exact F3.
    + rewrite (len_apply_write _ _ _ _ W2), (len_apply_write _ _ _ _ W1). apply HlenZ.
    + rewrite total_app. cbn [total e0 fst]. lia.
    + lia.
    + apply HlenI.
    + rewrite Hpos. rewrite d_set_notin by (rewrite d_mem_offsets_eq; exact Hk).
      rewrite offsets_app. cbn [offsets e0 fst]. unfold esize. do 3 f_equal. lia.
    + rewrite map_app. cbn [map e0 fst]. apply NoDup_snoc; [exact Hnd|]. apply d_mem_false_In. exact Hk.
    + apply Forall_app. split; [exact Hwf|]. constructor; [apply wf_e0|constructor].
  - intros n. rewrite firstn_app, length_truncs, firstn_truncs.
    destruct (Nat.le_gt_cases n j) as [Hn|Hn].
    + replace (n - j)%nat with O by lia. cbn [firstn]. rewrite app_nil_r, T. eexists. split; [reflexivity|].
      split; [left; split; [lia|apply FRT]|]. rewrite HlenZ. apply HlenI.
    + rewrite Nat.min_r by lia. destruct (n - j)%nat as [|[|m]] eqn:E; [lia| |].
      * cbn [firstn]. rewrite apply_effects_app, T. cbn [bind apply_effects]. rewrite W1. cbn [bind].
        eexists. split; [reflexivity|]. split; [left; split; [lia|exact F2]|].
        rewrite (len_apply_write _ _ _ _ W1), HlenZ. apply HlenI.
      * cbn [firstn]. replace (firstn m (@nil effect)) with (@nil effect) by (symmetry; apply firstn_nil).
        rewrite Hall. eexists. split; [reflexivity|]. split; [right; split; [lia|exact F3]|].
        rewrite (len_apply_write _ _ _ _ W2), (len_apply_write _ _ _ _ W1), HlenZ. apply HlenI.
Qed.

(* a file that some handle represents: what a reader or a re-opening writer may find *)
Definition Cut (b : bytes) (es : list entry) : Prop := exists h, Rep b h es.

Lemma Rep_of_FR b es :
  FR b es -> good es -> NoDup (map fst es) -> (exists j : N, len b = isz * 2 ^ j) ->
  Rep b {| capacity := len b; used := 8 + total es; positions := offsets 8 es |} es.
Proof. intros HF [Hwf Hb] Hnd Hl. constructor; cbn [capacity used positions]; auto. Qed.

Lemma Cut_of_Rep b h es : Rep b h es -> Cut b es.
Proof. intros R. exists h. exact R. Qed.

Definition ens (es : list entry) (k : bytes) : list entry := if d_mem keq es k then es else es ++ [e0 k].

Lemma ensure_spec b h es k :
  Rep b h es -> 8 + total (ens es k) < 2147483648 ->
  exists h' tr b' (t : nat),
    ensure h k = Ok (h', tr) /\ apply_effects (Some b) tr = Ok (Some b') /\ Rep b' h' (ens es k) /\
    (forall n, exists bn, apply_effects (Some b) (firstn n tr) = Ok (Some bn) /\
                          (((n < t)%nat /\ Cut bn es) \/ ((t <= n)%nat /\ Cut bn (ens es k)))).
Proof.
  intros R Hb. unfold ensure, ens in *. rewrite (rep_pos _ _ _ R), d_mem_offsets_eq.
  destruct (d_mem keq es k) eqn:E.
  - exists h, [], b, O. split; [reflexivity|]. split; [reflexivity|]. split; [exact R|].
    intros n. exists b. rewrite firstn_nil. split; [reflexivity|]. right. split; [lia|]. exists h. exact R.
  - destruct (init_value_spec b h es k R E Hb) as [h' [tr [b' [t [H1 [H2 [H3 H4]]]]]]].
    exists h', tr, b', t. split; [exact H1|]. split; [exact H2|]. split; [exact H3|].
    intros n. destruct (H4 n) as [bn [Ha [[[Hlt HF]|[Hlt HF]] Hl]]]; exists bn; (split; [exact Ha|]).
    + left. split; [exact Hlt|]. eexists. apply Rep_of_FR; try assumption.
      * apply (Rep_good _ _ _ R).
      * apply (rep_nodup _ _ _ R).
    + right. split; [exact Hlt|]. eexists. apply Rep_of_FR; try assumption.
      * apply (Rep_good _ _ _ H3).
      * apply (rep_nodup _ _ _ H3).
Qed.

Lemma ens_mem es k : d_mem keq (ens es k) k = true.
Proof.
  unfold ens. destruct (d_mem keq es k) eqn:E; [exact E|].
  assert (Hs : es ++ [e0 k] = d_set keq es k (zero8, zero8)) by (symmetry; apply d_set_notin; exact E).
  rewrite Hs. apply d_set_mem.
Qed.
Lemma d_set_ens es k x : d_set keq (ens es k) k x = d_set keq es k x.
Proof.
  unfold ens. destruct (d_mem keq es k) eqn:E; [reflexivity|].
  assert (Hs : es ++ [e0 k] = d_set keq es k (zero8, zero8)) by (symmetry; apply d_set_notin; exact E).
  rewrite Hs. apply d_set_d_set.
Qed.
Lemma total_ens_set es k x : total (ens es k) = total (d_set keq es k x).
Proof.
  unfold ens. destruct (d_mem keq es k) eqn:E.
  - rewrite d_set_total by exact E. reflexivity.
  - rewrite d_set_notin by exact E. rewrite !total_app. reflexivity.
Qed.

Lemma write_value_spec b h es k v ts :
  Rep b h es -> wf_value (v, ts) -> 8 + total (d_set keq es k (v, ts)) < 2147483648 ->
  exists h' tr b' (t1 t2 : nat),
    write_value h k v ts = Ok (h', tr) /\ apply_effects (Some b) tr = Ok (Some b') /\
    Rep b' h' (d_set keq es k (v, ts)) /\ (t1 <= t2)%nat /\
    (forall n, exists bn, apply_effects (Some b) (firstn n tr) = Ok (Some bn) /\
       (((n < t1)%nat /\ Cut bn es) \/ ((t1 <= n < t2)%nat /\ Cut bn (ens es k)) \/
        ((t2 <= n)%nat /\ Cut bn (d_set keq es k (v, ts))))).
Proof.
  intros R Hx Hb. rewrite <- (total_ens_set es k (v, ts)) in Hb.
  destruct (ensure_spec b h es k R Hb) as [h1 [tr1 [b1 [t [H1 [H2 [R1 H4]]]]]]].
  unfold write_value. rewrite H1. cbn [bind fst snd].
  pose proof (ens_mem es k) as Hm. rewrite <- (d_mem_offsets_eq 8) in Hm. unfold d_mem in Hm.
  rewrite (rep_pos _ _ _ R1). unfold d_get.
  destruct (d_find keq (offsets 8 (ens es k)) k) as [pos|] eqn:Hf; [|discriminate]. cbn [bind].
  destruct (rep_file _ _ _ R1) as [junk Hfile].
  pose proof (write_value_at (ens es k) 8 (header (8 + total (ens es k))) junk k (v, ts) pos
                (rep_wf _ _ _ R1) Hx (len_header _) Hf) as HW.
  rewrite <- Hfile in HW. cbn [fst snd] in HW. rewrite d_set_ens in HW.
  set (b' := header (8 + total (ens es k)) ++ flat (d_set keq es k (v, ts)) ++ junk) in *.
  assert (Hall : apply_effects (Some b) (tr1 ++ [WriteSlice pos (v ++ ts)]) = Ok (Some b')).
  { rewrite apply_effects_app, H2. cbn [bind apply_effects].
    exact (f_equal (fun r => bind r (fun f' => Ok f')) HW). }
  assert (R' : Rep b' h1 (d_set keq es k (v, ts))).
  { rewrite <- d_set_ens. constructor.
    - exists junk. unfold b'. rewrite d_set_ens, (total_ens_set es k (v, ts)). reflexivity.
    - rewrite (len_apply_write _ _ _ _ HW). apply (rep_len _ _ _ R1).
    - rewrite d_set_total by apply ens_mem. apply (rep_used _ _ _ R1).
    - apply (rep_bound _ _ _ R1).
    - apply (rep_cap _ _ _ R1).
    - rewrite d_set_offsets by apply ens_mem. apply (rep_pos _ _ _ R1).
    - rewrite d_set_keys by apply ens_mem. apply (rep_nodup _ _ _ R1).
    - apply d_set_wf; [apply (rep_wf _ _ _ R1)|exact Hx]. }
  exists h1, (tr1 ++ [WriteSlice pos (v ++ ts)]), b', (Nat.min t (S (length tr1))), (S (length tr1)).
  split; [reflexivity|]. split; [exact Hall|]. split; [exact R'|]. split; [lia|].
  intros n. rewrite firstn_app.
  destruct (Nat.le_gt_cases n (length tr1)) as [Hn|Hn].
  - replace (n - length tr1)%nat with O by lia. cbn [firstn]. rewrite app_nil_r.
    destruct (H4 n) as [bn [Ha [[Hlt Hc]|[Hlt Hc]]]]; exists bn; (split; [exact Ha|]).
    + left. split; [lia|exact Hc].
    + right. left. split; [lia|exact Hc].
  - rewrite firstn_all2 by lia. destruct (n - length tr1)%nat as [|m] eqn:E; [lia|].
    cbn [firstn]. replace (firstn m (@nil effect)) with (@nil effect) by (symmetry; apply firstn_nil).
    exists b'. split; [exact Hall|]. right. right. split; [lia|]. exists h1. exact R'.
Qed.

(* ---------- open / reopen ---------- *)
Lemma d_find_app_none {V} (a l : list (bytes * V)) k : d_find keq a k = None -> d_find keq (a ++ l) k = d_find keq l k.
Proof.
  induction a as [|[k' v'] a IH]; cbn [d_find app]; [reflexivity|].
  destruct (keq k k'); [discriminate|exact IH].
Qed.

Lemma fold_positions : forall es p (acc : assoc bytes N),
  (forall k, In k (map fst es) -> d_find keq acc k = None) -> NoDup (map fst es) ->
  fold_left (fun d (x : entry * N) => d_set keq d (fst (fst x)) (snd x)) (with_pos p es) acc = acc ++ offsets p es.
Proof.
  induction es as [|[k v] r IH]; intros p acc Hacc Hnd; cbn [with_pos fold_left offsets fst snd].
  - rewrite app_nil_r. reflexivity.
  - inversion Hnd as [|? ? Hk Hr]; subst.
    rewrite d_set_notin by (unfold d_mem; rewrite Hacc by (left; reflexivity); reflexivity).
    rewrite IH; [rewrite <- app_assoc; reflexivity| |exact Hr].
    intros k' Hk'. rewrite d_find_app_none by (apply Hacc; right; exact Hk').
    cbn [d_find]. destruct (keq k' k) eqn:E; [|reflexivity].
    apply keq_eq in E. subst. contradiction.
Qed.

Lemma unpack_header u rest : u < 2147483648 -> unpack_i (header u ++ rest) 0 = Ok (Z.of_N u).
Proof. intros H. unfold header. rewrite <- app_assoc. apply unpack_le32. exact H. Qed.

(* re-opening a represented file rebuilds exactly the handle: same capacity, used bytes and positions *)
Lemma reopen_spec b h es : Rep b h es -> open_ isz (Some b) = Ok (h, []).
Proof.
  intros R. pose proof (len_FR _ _ (rep_file _ _ _ R) (rep_wf _ _ _ R)) as Hlb.
  pose proof (Rep_good _ _ _ R) as Hg.
  destruct R as [HF Hlen Hused Hbound Hcap Hpos Hnd Hwf].
  unfold open_. cbv zeta.
  destruct (len b =? 0) eqn:E; [lia|]. clear E.
  assert (Hh : unpack_i b 0 = Ok (Z.of_N (8 + total es))).
  { destruct HF as [junk ->]. apply unpack_header. lia. }
  rewrite Hh. cbn [bind].
  destruct (Z.of_N (8 + total es) =? 0)%Z eqn:E; [lia|]. clear E.
  destruct (Z.of_N (8 + total es) <? 0)%Z eqn:E; [lia|]. clear E.
  rewrite (raw_on_FR b es) by (auto).
  cbn [bind app]. rewrite fold_positions by (auto).
  rewrite N2Z.id. destruct h as [c u ps]. cbn [capacity used positions] in *. subst. reflexivity.
Qed.

Lemma fill0_head n : 4 <= n -> fill 0 n = [0;0;0;0] ++ fill 0 (n - 4).
Proof. intros H. replace n with (4 + (n - 4)) at 1 by lia. rewrite fill_plus. reflexivity. Qed.

Lemma unpack_zeros n : 4 <= n -> unpack_i (fill 0 n) 0 = Ok 0%Z.
Proof. intros H. rewrite fill0_head by exact H. apply (unpack_le32 0). lia. Qed.

Definition h0 : handle := {| capacity := isz; used := 8; positions := [] |}.
Definition b0 : bytes := header 8 ++ fill 0 (isz - 8).

Lemma write_header_zeros : apply_effect (Some (fill 0 isz)) (WriteSlice 0 (le32 8)) = Ok (Some b0).
Proof.
  rewrite (apply_write _ 0 (le32 8) [] [0;0;0;0] (fill 0 (isz - 4))).
  - unfold b0, header. rewrite (fill0_head (isz - 4)) by lia. replace (isz - 4 - 4) with (isz - 8) by lia.
    rewrite <- !app_assoc. reflexivity.
  - apply fill0_head. lia.
  - reflexivity.
  - reflexivity.
Qed.

Lemma Rep0 : Rep b0 h0 [].
Proof.
  constructor; cbn [capacity used positions h0 total offsets map].
  - exists (fill 0 (isz - 8)). reflexivity.
  - unfold b0. rewrite len_app, len_header, len_fill. lia.
  - reflexivity.
  - lia.
  - exists 0. rewrite N.pow_0_r. lia.
  - reflexivity.
  - constructor.
  - constructor.
Qed.

(* opening a missing path, an empty file (writer died after open) or a sized-but-unwritten file *)
Lemma open_none : open_ isz None = Ok (h0, [Create; Truncate isz; WriteSlice 0 (le32 8)]).
Proof. unfold open_. cbv zeta. cbn [len length N.of_nat N.eqb]. rewrite unpack_zeros by lia. reflexivity. Qed.
Lemma open_empty : open_ isz (Some []) = Ok (h0, [Truncate isz; WriteSlice 0 (le32 8)]).
Proof. unfold open_. cbv zeta. cbn [len length N.of_nat N.eqb]. rewrite unpack_zeros by lia. reflexivity. Qed.
Lemma open_zeros : open_ isz (Some (fill 0 isz)) = Ok (h0, [WriteSlice 0 (le32 8)]).
Proof.
  unfold open_. cbv zeta. rewrite len_fill. destruct (isz =? 0) eqn:E; [lia|].
  rewrite unpack_zeros by lia. reflexivity.
Qed.

Lemma truncate_empty : apply_effect (Some []) (Truncate isz) = Ok (Some (fill 0 isz)).
Proof. cbn [apply_effect]. unfold take. rewrite firstn_nil. cbn [app len length N.of_nat]. rewrite N.sub_0_r. reflexivity. Qed.

Lemma start_spec : start isz = Ok (Some b0, h0, [Create; Truncate isz; WriteSlice 0 (le32 8)]).
Proof.
  unfold start. rewrite open_none. cbn [bind fst snd].
  assert (H : apply_effects None [Create; Truncate isz; WriteSlice 0 (le32 8)] = Ok (Some b0)).
  { change (apply_effects None [Create; Truncate isz; WriteSlice 0 (le32 8)])
      with (do f1 <- apply_effect (Some []) (Truncate isz);
            do f2 <- apply_effect f1 (WriteSlice 0 (le32 8)); Ok f2).
    rewrite truncate_empty. cbn [bind]. rewrite write_header_zeros. reflexivity. }
  rewrite H. reflexivity.
Qed.

(* ---------- one operation, then whole histories ---------- *)
Definition wf_op (o : op) : Prop :=
  match o with Write _ v ts => len v = 8 /\ len ts = 8 | _ => True end.
Definition keyof (o : op) : option bytes :=
  match o with Write k _ _ => Some k | ReadV k => Some k | Reopen => None end.

Lemma spec_step_ReadV es k : spec_step es (ReadV k) = ens es k.
Proof.
  unfold spec_step, ens. destruct (d_mem keq es k) eqn:E; [reflexivity|]. apply d_set_notin. exact E.
Qed.

Lemma spec_step_mono es o : total es <= total (spec_step es o).
Proof.
  destruct o as [k v ts|k|]; cbn [spec_step].
  - apply total_mono_set.
  - destruct (d_mem keq es k); [lia|apply total_mono_set].
  - lia.
Qed.
Lemma spec_from_mono : forall ops es, total es <= total (spec_from es ops).
Proof.
  induction ops as [|o r IH]; intros es; cbn [spec_from fold_left]; [lia|].
  pose proof (spec_step_mono es o). pose proof (IH (spec_step es o)). unfold spec_from in *. lia.
Qed.

(* what a cut inside operation o, started in state es, may represent *)
Definition mid (es : list entry) (o : op) (x : list entry) : Prop :=
  x = es \/ x = spec_step es o \/
  (exists k, keyof o = Some k /\ d_mem keq es k = false /\ x = es ++ [e0 k]).

(* one operation with its cut points in order: before the entry is published (n < t1) the file represents es, from
   the header write on (t1 <= n < t2) the new key is there at zero, from the value write on (t2 <= n) the operation is
   complete.  The thresholds make the cuts of one operation MONOTONE, which is what a reader whose reads are served
   from two different cuts needs (cuts2 below). *)
Lemma step_stages b h es o :
  Rep b h es -> wf_op o -> 8 + total (spec_step es o) < 2147483648 ->
  exists h' tr b' (t1 t2 : nat),
    step isz (Some b, h) o = Ok (Some b', h', tr) /\ apply_effects (Some b) tr = Ok (Some b') /\
    Rep b' h' (spec_step es o) /\ (t1 <= t2)%nat /\
    (forall n, exists bn x, apply_effects (Some b) (firstn n tr) = Ok (Some bn) /\ Cut bn x /\
       (((n < t1)%nat /\ x = es) \/
        ((t1 <= n < t2)%nat /\ exists k, keyof o = Some k /\ x = ens es k) \/
        ((t2 <= n)%nat /\ x = spec_step es o))).
Proof.
  intros R Hwf Hb. unfold step. cbn [fst snd].
  destruct o as [k v ts|k|]; cbn [op_effects].
  - destruct (write_value_spec b h es k v ts R Hwf Hb) as [h' [tr [b' [t1 [t2 [H1 [H2 [H3 [Ht H4]]]]]]]]].
    exists h', tr, b', t1, t2. rewrite H1. cbn [bind fst snd]. rewrite H2. cbn [bind].
    split; [reflexivity|]. split; [reflexivity|]. split; [exact H3|]. split; [exact Ht|].
    intros n. destruct (H4 n) as [bn [Ha [[Hlt Hc]|[[Hlt Hc]|[Hlt Hc]]]]].
    + exists bn, es. split; [exact Ha|]. split; [exact Hc|]. left. split; [exact Hlt|reflexivity].
    + exists bn, (ens es k). split; [exact Ha|]. split; [exact Hc|]. right. left. split; [exact Hlt|].
      exists k. split; reflexivity.
    + exists bn, (d_set keq es k (v, ts)). split; [exact Ha|]. split; [exact Hc|]. right. right.
      split; [exact Hlt|reflexivity].
  - rewrite spec_step_ReadV in *.
    destruct (ensure_spec b h es k R Hb) as [h' [tr [b' [t [H1 [H2 [H3 H4]]]]]]].
    exists h', tr, b', t, t. rewrite H1. cbn [bind fst snd]. rewrite H2. cbn [bind].
    split; [reflexivity|]. split; [reflexivity|]. split; [exact H3|]. split; [lia|].
    intros n. destruct (H4 n) as [bn [Ha [[Hlt Hc]|[Hlt Hc]]]].
    + exists bn, es. split; [exact Ha|]. split; [exact Hc|]. left. split; [exact Hlt|reflexivity].
    + exists bn, (ens es k). split; [exact Ha|]. split; [exact Hc|]. right. right. split; [exact Hlt|reflexivity].
  - unfold close_effects. cbn [apply_effects bind app].
    rewrite (reopen_spec b h es R). cbn [bind fst snd apply_effects spec_step].
    exists h, [], b, O, O. split; [reflexivity|]. split; [reflexivity|]. split; [exact R|]. split; [lia|].
    intros n. exists b, es. rewrite firstn_nil. split; [reflexivity|]. split; [exists h; exact R|].
    right. right. split; [lia|reflexivity].
Qed.

Lemma step_spec b h es o :
  Rep b h es -> wf_op o -> 8 + total (spec_step es o) < 2147483648 ->
  exists h' tr b',
    step isz (Some b, h) o = Ok (Some b', h', tr) /\ apply_effects (Some b) tr = Ok (Some b') /\
    Rep b' h' (spec_step es o) /\
    (forall n, exists bn x, apply_effects (Some b) (firstn n tr) = Ok (Some bn) /\ Cut bn x /\ mid es o x).
Proof.
  intros R Hwf Hb.
  destruct (step_stages b h es o R Hwf Hb) as [h' [tr [b' [t1 [t2 [H1 [H2 [H3 [_ H4]]]]]]]]].
  exists h', tr, b'. split; [exact H1|]. split; [exact H2|]. split; [exact H3|].
  intros n. destruct (H4 n) as [bn [x [Ha [Hc [[_ Hx]|[[_ [k [Hk Hx]]]|[_ Hx]]]]]]]; exists bn, x;
    (split; [exact Ha|]); (split; [exact Hc|]).
  - left. exact Hx.
  - unfold ens in Hx. destruct (d_mem keq es k) eqn:E.
    + left. exact Hx.
    + right. right. exists k. split; [exact Hk|]. split; [exact E|exact Hx].
  - right. left. exact Hx.
Qed.

Definition inflight_ok (es : list entry) (done : list op) (next : option op) (infl : list entry) : Prop :=
  infl = [] \/
  exists o k, next = Some o /\ keyof o = Some k /\ d_mem keq (spec_from es done) k = false /\ infl = [e0 k].

Lemma run_from_spec : forall ops b h es,
  Rep b h es -> Forall wf_op ops -> 8 + total (spec_from es ops) < 2147483648 ->
  exists h' tr b',
    run_from isz (Some b, h) ops = Ok (Some b', h', tr) /\ apply_effects (Some b) tr = Ok (Some b') /\
    Rep b' h' (spec_from es ops) /\
    (forall n, exists bn m infl,
        apply_effects (Some b) (firstn n tr) = Ok (Some bn) /\ (m <= length ops)%nat /\
        Cut bn (spec_from es (firstn m ops) ++ infl) /\
        inflight_ok es (firstn m ops) (nth_error ops m) infl).
Proof.
  induction ops as [|o r IH]; intros b h es R Hwf Hb.
  - exists h, [], b. cbn [run_from fst snd spec_from fold_left apply_effects].
    split; [reflexivity|]. split; [reflexivity|]. split; [exact R|].
    intros n. exists b, O, []. rewrite firstn_nil. cbn [firstn spec_from fold_left apply_effects]. rewrite app_nil_r.
    split; [reflexivity|]. split; [lia|]. split; [exists h; exact R|]. left. reflexivity.
  - inversion Hwf as [|? ? Ho Hr]; subst.
    change (spec_from es (o :: r)) with (spec_from (spec_step es o) r) in *.
    pose proof (spec_from_mono r (spec_step es o)) as Hm.
    destruct (step_spec b h es o R Ho ltac:(lia)) as [h1 [tr1 [b1 [S1 [A1 [R1 C1]]]]]].
    destruct (IH b1 h1 (spec_step es o) R1 Hr Hb) as [h2 [tr2 [b2 [S2 [A2 [R2 C2]]]]]].
    exists h2, (tr1 ++ tr2), b2.
    split; [cbn [run_from]; rewrite S1; cbn [bind fst snd];
            exact (f_equal (fun x => bind x (fun t => Ok (fst (fst t), snd (fst t), tr1 ++ snd t))) S2)|].
    split; [rewrite apply_effects_app, A1; cbn [bind]; exact A2|].
    split; [exact R2|].
    intros n. rewrite firstn_app.
    destruct (Nat.le_gt_cases n (length tr1)) as [Hn|Hn].
    + replace (n - length tr1)%nat with O by lia. cbn [firstn]. rewrite app_nil_r.
      destruct (C1 n) as [bn [x [Ha [Hc [Hx|[Hx|[k [Hk [Hd Hx]]]]]]]]]; subst x.
      * exists bn, O, []. cbn [firstn spec_from fold_left nth_error]. rewrite app_nil_r.
        split; [exact Ha|]. split; [lia|]. split; [exact Hc|]. left. reflexivity.
      * exists bn, 1%nat, []. cbn [firstn spec_from fold_left length]. rewrite app_nil_r.
        split; [exact Ha|]. split; [lia|]. split; [exact Hc|]. left. reflexivity.
      * exists bn, O, [e0 k]. cbn [firstn spec_from fold_left nth_error].
        split; [exact Ha|]. split; [lia|]. split; [exact Hc|]. right.
        exists o, k. split; [reflexivity|]. split; [exact Hk|]. split; [exact Hd|reflexivity].
    + rewrite firstn_all2 by lia. rewrite apply_effects_app, A1. cbn [bind].
      destruct (C2 (n - length tr1)%nat) as [bn [m [infl [Ha [Hm' [Hc Hi]]]]]].
      exists bn, (S m), infl. split; [exact Ha|]. split; [cbn [length]; lia|].
      split; [exact Hc|exact Hi].
Qed.

(* ---------- reading a represented file ---------- *)
Lemma total_aligned es : total es mod 8 = 0.
Proof.
  induction es as [|e r IH]; cbn [total]; [reflexivity|]. pose proof (esize_aligned (fst e)). lia.
Qed.

Lemma peek_at : forall es p pre junk k v,
  Forall wf_entry es -> NoDup (map fst es) -> len pre = p -> In (k, v) es ->
  exists pos, d_find keq (offsets p es) k = Some pos /\ unpack_dd (pre ++ flat es ++ junk) pos = Ok v.
Proof.
  induction es as [|[k' [v' t']] r IH]; intros p pre junk k v Hwf Hnd Hp Hin; [destruct Hin|].
  inversion Hwf as [|? ? [Hv Ht] Hr]; subst. inversion Hnd as [|? ? Hk' Hnr]; subst. cbn [fst snd] in *.
  cbn [offsets d_find fst].
  destruct Hin as [Heq|Hin].
  - injection Heq as Hk1 Hv1. subst k' v. rewrite keq_refl. eexists. split; [reflexivity|].
    assert (Hsh : pre ++ flat ((k, (v', t')) :: r) ++ junk = (pre ++ ehead k) ++ (v' ++ t') ++ (flat r ++ junk)).
    { unfold flat. cbn [flat_map]. unfold enc at 1. cbn [fst snd]. rewrite <- !app_assoc. reflexivity. }
    transitivity (unpack_dd ((pre ++ ehead k) ++ (v' ++ t') ++ (flat r ++ junk)) (len pre + hsize k)).
    + f_equal. exact Hsh.
    + apply unpack_dd_app; try assumption. rewrite len_app, len_ehead. reflexivity.
  - destruct (keq k k') eqn:E.
    + apply keq_eq in E. subst. exfalso. apply Hk'. change k' with (fst (k', v)). apply in_map. exact Hin.
    + assert (Hl : len (pre ++ enc (k', (v', t'))) = len pre + esize k').
      { rewrite len_app, len_enc by (split; assumption). reflexivity. }
      destruct (IH (len pre + esize k') (pre ++ enc (k', (v', t'))) junk k v Hr Hnr Hl Hin) as [pos [H1 H2]].
      exists pos. split; [exact H1|].
      unfold flat in *. cbn [flat_map]. rewrite <- !app_assoc in H2. rewrite <- !app_assoc. exact H2.
Qed.

Lemma rep_reads b h es : Rep b h es ->
  read_all b h = Ok es /\ read_all_from_file pg b = Ok es /\
  (forall k v, In (k, v) es -> peek b h k = Ok v).
Proof.
  intros R. pose proof (Rep_good _ _ _ R) as Hg. split; [|split].
  - apply read_all_on_FR; [apply (rep_file _ _ _ R)|exact Hg|apply (rep_used _ _ _ R)].
  - apply from_file_on_FR; [exact Hpg|apply (rep_file _ _ _ R)|exact Hg].
  - intros k v Hin. unfold peek. rewrite (rep_pos _ _ _ R). destruct (rep_file _ _ _ R) as [junk ->].
    destruct (peek_at es 8 (header (8 + total es)) junk k v (rep_wf _ _ _ R) (rep_nodup _ _ _ R) (len_header _) Hin)
      as [pos [H1 H2]].
    unfold d_get. rewrite H1. cbn [bind]. exact H2.
Qed.

(* layout: 8-byte header, then the entries back to back, each 8-aligned, tiling [8, used) *)
Lemma rep_layout b h es : Rep b h es ->
  (exists junk, b = header (used h) ++ flat es ++ junk) /\ used h = 8 + total es /\ used h mod 8 = 0 /\
  forall es1 e es2, es = es1 ++ e :: es2 ->
    (8 + total es1) mod 8 = 0 /\ esize (fst e) mod 8 = 0 /\ 24 <= esize (fst e) /\
    slice b (8 + total es1) (esize (fst e)) = enc e /\ 8 + total es1 + esize (fst e) <= used h.
Proof.
  intros R. pose proof (rep_used _ _ _ R) as Hu. pose proof (rep_wf _ _ _ R) as Hwf.
  destruct (rep_file _ _ _ R) as [junk Hf].
  split; [exists junk; rewrite Hu; exact Hf|]. split; [exact Hu|].
  split; [rewrite Hu; pose proof (total_aligned es); lia|].
  intros es1 e es2 ->. rewrite Hu. rewrite total_app in *. cbn [total] in *.
  apply Forall_app in Hwf as [Hw1 Hw2]. pose proof (Forall_inv Hw2) as He.
  split; [pose proof (total_aligned es1); lia|]. split; [apply esize_aligned|]. split; [apply esize_ge|].
  split; [|lia].
  rewrite Hf, flat_app. unfold flat at 2. cbn [flat_map]. fold (flat es2).
  replace (header (8 + (total es1 + (esize (fst e) + total es2))) ++ (flat es1 ++ enc e ++ flat es2) ++ junk)
    with ((header (8 + (total es1 + (esize (fst e) + total es2))) ++ flat es1) ++ enc e ++ (flat es2 ++ junk))
    by (rewrite <- !app_assoc; reflexivity).
  apply slice_app_exact.
  - rewrite len_app, len_header, len_flat by assumption. reflexivity.
  - rewrite len_enc by assumption. reflexivity.
Qed.

Lemma rep_capacity b h es : Rep b h es ->
  (exists j : N, capacity h = isz * 2 ^ j) /\ len b = capacity h /\ used h <= capacity h.
Proof.
  intros R. split; [apply (rep_cap _ _ _ R)|]. split; [apply (rep_len _ _ _ R)|].
  rewrite <- (rep_len _ _ _ R), (rep_used _ _ _ R). apply len_FR; [apply (rep_file _ _ _ R)|apply (rep_wf _ _ _ R)].
Qed.

(* ---------- C10: whole histories from a missing file ---------- *)
Lemma run_spec ops : Forall wf_op ops -> 8 + total (spec ops) < 2147483648 ->
  exists b h tr, run isz ops = Ok (Some b, h, tr) /\ Rep b h (spec ops).
Proof.
  intros Hwf Hb. destruct (run_from_spec ops b0 h0 [] Rep0 Hwf Hb) as [h' [tr [b' [H1 [H2 [H3 _]]]]]].
  exists b', h', ([Create; Truncate isz; WriteSlice 0 (le32 8)] ++ tr).
  split; [|exact H3]. unfold run. rewrite start_spec. cbn [bind fst snd].
  exact (f_equal (fun x => bind x (fun t => Ok (fst (fst t), snd (fst t),
                                               [Create; Truncate isz; WriteSlice 0 (le32 8)] ++ snd t))) H1).
Qed.

Lemma spec_from_app es a b : spec_from es (a ++ b) = spec_from (spec_from es a) b.
Proof. unfold spec_from. apply fold_left_app. Qed.
Lemma spec_reopen a b : spec (a ++ Reopen :: b) = spec (a ++ b).
Proof. unfold spec. rewrite !spec_from_app. reflexivity. Qed.

(* ---------- C11: every cut of the trace ---------- *)
Lemma reader_empty : read_all_from_file pg [] = Ok [].
Proof. unfold read_all_from_file, take. rewrite firstn_nil. reflexivity. Qed.

Lemma reader_orig_empty : read_all_from_file_orig pg [] = Err StructError.
Proof. unfold read_all_from_file_orig, take. rewrite firstn_nil. reflexivity. Qed.

Lemma reader_zeros : read_all_from_file pg (fill 0 isz) = Ok [].
Proof.
  unfold read_all_from_file. rewrite len_take, len_fill.
  destruct (N.min pg isz =? 0) eqn:E; [lia|]. clear E.
  unfold read_all_from_file_orig.
  rewrite (fill0_head isz) by lia.
  rewrite (take_app_plus [0;0;0;0] _ pg (pg - 4)) by (change (len [0;0;0;0]) with 4; lia).
  set (D := [0;0;0;0] ++ take (pg - 4) (fill 0 (isz - 4))).
  assert (HD : unpack_i D 0 = Ok 0%Z) by (apply (unpack_le32 0); lia).
  rewrite HD. cbn [bind].
  destruct (Z.of_N (len D) <? 0)%Z eqn:E; [lia|]. clear E.
  unfold read_all_values_raw. cbn [Z.leb Z.compare]. rewrite HD. cbn [bind Z.to_N read_loop N.ltb N.compare].
  reflexivity.
Qed.

Definition start_trace : list effect := [Create; Truncate isz; WriteSlice 0 (le32 8)].

Lemma cuts_spec ops tr : Forall wf_op ops -> 8 + total (spec ops) < 2147483648 ->
  trace isz ops = Ok tr ->
  forall n, (1 <= n)%nat ->
  exists bn m infl,
    cut n tr = Ok (Some bn) /\ (m <= length ops)%nat /\
    read_all_from_file pg bn = Ok (spec (firstn m ops) ++ infl) /\
    inflight_ok [] (firstn m ops) (nth_error ops m) infl /\
    (exists h' tr' b', open_ isz (Some bn) = Ok (h', tr') /\ apply_effects (Some bn) tr' = Ok (Some b') /\
                       Rep b' h' (spec (firstn m ops) ++ infl)) /\
    ((n = 1%nat /\ bn = []) \/ 8 <= len bn).
Proof.
  intros Hwf Hb Htr n Hn.
  destruct (run_from_spec ops b0 h0 [] Rep0 Hwf Hb) as [h' [tr2 [b' [H1 [H2 [H3 C]]]]]].
  assert (Htr' : tr = start_trace ++ tr2).
  { assert (Hx : trace isz ops = Ok (start_trace ++ tr2)).
    { unfold trace, run. rewrite start_spec. cbn [bind fst snd].
      exact (f_equal (fun x => bind (bind x (fun t => Ok (fst (fst t), snd (fst t), start_trace ++ snd t)))
                                    (fun t => Ok (snd t))) H1). }
    rewrite Hx in Htr. injection Htr as <-. reflexivity. }
  subst tr. unfold cut.
  assert (E1 : apply_effects None [Create] = Ok (Some [])) by reflexivity.
  assert (E2 : apply_effects None [Create; Truncate isz] = Ok (Some (fill 0 isz))).
  { change (apply_effects None [Create; Truncate isz]) with (do f1 <- apply_effect (Some []) (Truncate isz); Ok f1).
    rewrite truncate_empty. reflexivity. }
  assert (E3 : apply_effects None start_trace = Ok (Some b0)).
  { pose proof start_spec as S. unfold start in S. rewrite open_none in S. cbn [bind fst snd] in S.
    unfold start_trace. destruct (apply_effects None [Create; Truncate isz; WriteSlice 0 (le32 8)]) as [f|]; cbn [bind] in S; [|discriminate].
    injection S as ->. reflexivity. }
  destruct n as [|[|[|n]]]; [lia| | |].
  - (* after Create: an empty file *)
    exists [], O, []. cbn [firstn start_trace app]. rewrite E1.
    split; [reflexivity|]. split; [lia|]. split; [apply reader_empty|]. split; [left; reflexivity|].
    split; [|left; split; reflexivity].
    exists h0, [Truncate isz; WriteSlice 0 (le32 8)], b0. split; [apply open_empty|].
    split; [|exact Rep0].
    change (apply_effects (Some []) [Truncate isz; WriteSlice 0 (le32 8)])
      with (do f1 <- apply_effect (Some []) (Truncate isz); do f2 <- apply_effect f1 (WriteSlice 0 (le32 8)); Ok f2).
    rewrite truncate_empty. cbn [bind]. rewrite write_header_zeros. reflexivity.
  - (* after the first truncate: zeros, header not yet written *)
    exists (fill 0 isz), O, []. cbn [firstn start_trace app]. rewrite E2.
    split; [reflexivity|]. split; [lia|]. split; [apply reader_zeros|]. split; [left; reflexivity|].
    split; [|right; rewrite len_fill; exact Hisz].
    exists h0, [WriteSlice 0 (le32 8)], b0. split; [apply open_zeros|]. split; [|exact Rep0].
    change (apply_effects (Some (fill 0 isz)) [WriteSlice 0 (le32 8)])
      with (do f2 <- apply_effect (Some (fill 0 isz)) (WriteSlice 0 (le32 8)); Ok f2).
    rewrite write_header_zeros. reflexivity.
  - replace (firstn (S (S (S n))) (start_trace ++ tr2)) with (start_trace ++ firstn n tr2) by reflexivity.
    rewrite apply_effects_app, E3. cbn [bind].
    destruct (C n) as [bn [m [infl [Ha [Hm [[hc Hc] Hi]]]]]].
    exists bn, m, infl. split; [exact Ha|]. split; [exact Hm|].
    split; [apply (rep_reads _ _ _ Hc)|]. split; [exact Hi|].
    split; [exists hc, [], bn; split; [apply (reopen_spec _ _ _ Hc)|]; split; [reflexivity|exact Hc]|].
    right. pose proof (len_FR _ _ (rep_file _ _ _ Hc) (rep_wf _ _ _ Hc)). lia.
Qed.

Lemma first_cut_orig_fails tr ops : trace isz ops = Ok tr ->
  cut 1 tr = Ok (Some []) /\ read_all_from_file_orig pg [] = Err StructError.
Proof.
  intros Htr. split; [|apply reader_orig_empty].
  unfold trace, run in Htr. rewrite start_spec in Htr. cbn [bind fst snd] in Htr.
  match type of Htr with (do t <- (do t0 <- ?r; _); _) = _ => destruct r as [[[f h] t]|] end;
    cbn [bind fst snd] in Htr; [|discriminate].
  injection Htr as <-. reflexivity.
Qed.

Lemma trace_ok ops : Forall wf_op ops -> 8 + total (spec ops) < 2147483648 -> exists tr, trace isz ops = Ok tr.
Proof.
  intros Hwf Hb. destruct (run_spec ops Hwf Hb) as [b [h [tr [H _]]]]. exists tr. unfold trace. rewrite H. reflexivity.
Qed.

(* ---------- close() and forked children that inherited the handle ---------- *)
Lemma close_keeps_file (h : handle) (f : fstate) : apply_effects f (close_effects h) = Ok f.
Proof. reflexivity. Qed.

Lemma own_ops_cons_own o ws : own_ops (Own o :: ws) = o :: own_ops ws.
Proof. reflexivity. Qed.

(* the children's closes leave the writer's run exactly as it is without them *)
Lemma wrun_from_own : forall ws f h inh f' h' tr,
  run_from isz (f, h) (own_ops ws) = Ok (f', h', tr) ->
  exists inh', wrun_from isz (f, h, inh) ws = Ok (f', h', inh', tr).
Proof.
  induction ws as [|w r IH]; intros f h inh f' h' tr H.
  - cbn [own_ops flat_map run_from fst snd] in H. injection H as <- <- <-.
    exists inh. reflexivity.
  - destruct w as [o| |].
    + rewrite own_ops_cons_own in H. cbn [run_from fst snd] in H.
      destruct (step isz (f, h) o) as [[[f1 h1] tr1]|e] eqn:S1; cbn [bind fst snd] in H; [|discriminate].
      destruct (run_from isz (f1, h1) (own_ops r)) as [[[f2 h2] tr2]|e] eqn:S2; cbn [bind fst snd] in H; [|discriminate].
      injection H as <- <- <-.
      destruct (IH f1 h1 inh f2 h2 tr2 S2) as [inh' W].
      exists inh'. cbn [wrun_from wstep fst snd]. rewrite S1. cbn [bind fst snd]. rewrite W. reflexivity.
    + change (own_ops (Fork :: r)) with (own_ops r) in H.
      destruct (IH f h (inh ++ [h]) f' h' tr H) as [inh' W].
      exists inh'. cbn [wrun_from wstep fst snd bind]. rewrite W. reflexivity.
    + change (own_ops (CloseInherited :: r)) with (own_ops r) in H.
      destruct inh as [|hb r0].
      * destruct (IH f h [] f' h' tr H) as [inh' W].
        exists inh'. cbn [wrun_from wstep fst snd bind]. rewrite W. reflexivity.
      * destruct (IH f h r0 f' h' tr H) as [inh' W].
        exists inh'. cbn [wrun_from wstep fst snd]. rewrite close_keeps_file. cbn [bind fst snd].
        rewrite W. reflexivity.
Qed.

Lemma wrun_from_spec : forall ws b h inh es,
  Rep b h es -> Forall wf_op (own_ops ws) -> 8 + total (spec_from es (own_ops ws)) < 2147483648 ->
  exists h' inh' tr b',
    wrun_from isz (Some b, h, inh) ws = Ok (Some b', h', inh', tr) /\
    apply_effects (Some b) tr = Ok (Some b') /\ Rep b' h' (spec_from es (own_ops ws)) /\
    (forall n, exists bn m infl,
        apply_effects (Some b) (firstn n tr) = Ok (Some bn) /\ (m <= length (own_ops ws))%nat /\
        Cut bn (spec_from es (firstn m (own_ops ws)) ++ infl) /\
        inflight_ok es (firstn m (own_ops ws)) (nth_error (own_ops ws) m) infl).
Proof.
  intros ws b h inh es R Hwf Hb.
  destruct (run_from_spec (own_ops ws) b h es R Hwf Hb) as [h' [tr [b' [H1 [H2 [H3 C]]]]]].
  destruct (wrun_from_own ws (Some b) h inh (Some b') h' tr H1) as [inh' W].
  exists h', inh', tr, b'. auto.
Qed.

Lemma wtrace_own ws tr : trace isz (own_ops ws) = Ok tr -> wtrace isz ws = Ok tr.
Proof.
  unfold trace, run, wtrace, wrun. intros H.
  destruct (start isz) as [[[f0 h0'] tr0]|e]; cbn [bind fst snd] in *; [|discriminate].
  destruct (run_from isz (f0, h0') (own_ops ws)) as [[[f1 h1] tr1]|e] eqn:S1; cbn [bind fst snd] in H; [|discriminate].
  injection H as <-.
  destruct (wrun_from_own ws f0 h0' [] f1 h1 tr1 S1) as [inh' W]. rewrite W. reflexivity.
Qed.

Lemma wcuts_spec ws tr : Forall wf_op (own_ops ws) -> 8 + total (spec (own_ops ws)) < 2147483648 ->
  wtrace isz ws = Ok tr ->
  trace isz (own_ops ws) = Ok tr.
Proof.
  intros Hwf Hb Hw. destruct (trace_ok (own_ops ws) Hwf Hb) as [tr0 H0].
  rewrite (wtrace_own ws tr0 H0) in Hw. injection Hw as <-. exact H0.
Qed.

Lemma C10_main ops : Forall wf_op ops -> 8 + total (spec ops) < 2147483648 ->
  exists b h tr, run isz ops = Ok (Some b, h, tr) /\ Rep b h (spec ops) /\
    read_all b h = Ok (spec ops) /\ read_all_from_file pg b = Ok (spec ops) /\
    (forall k v, In (k, v) (spec ops) -> peek b h k = Ok v) /\
    open_ isz (Some b) = Ok (h, []) /\ NoDup (map fst (spec ops)).
Proof.
  intros Hwf Hb. destruct (run_spec ops Hwf Hb) as [b [h [tr [H R]]]]. exists b, h, tr.
  destruct (rep_reads _ _ _ R) as [H1 [H2 H3]].
  split; [exact H|]. split; [exact R|]. split; [exact H1|]. split; [exact H2|]. split; [exact H3|].
  split; [apply (reopen_spec _ _ _ R)|apply (rep_nodup _ _ _ R)].
Qed.

End Inv.

(* the repair changes the reader on the empty file only *)
(* ---------- files that vanish between the collector's listing and its read ---------- *)
Lemma starts_with_app p s : starts_with p (p ++ s) = true.
Proof. induction p as [|a p IH]; cbn [starts_with app]; [reflexivity|]. rewrite N.eqb_refl, IH. reflexivity. Qed.

Lemma starts_with_inv : forall p s, starts_with p s = true -> exists r, s = p ++ r.
Proof.
  induction p as [|a p IH]; intros s H.
  - exists s. reflexivity.
  - destruct s as [|b s]; cbn [starts_with] in H; [discriminate|].
    apply andb_true_iff in H. destruct H as [E H]. apply N.eqb_eq in E. subst b.
    destruct (IH s H) as [r ->]. exists r. reflexivity.
Qed.

Lemma vanish_tolerated_iff typ p1 :
  vanish_tolerated typ p1 = true <-> typ = S_GAUGE /\ exists s, p1 = S_LIVE ++ s.
Proof.
  unfold vanish_tolerated. rewrite andb_true_iff. split.
  - intros [A B]. split; [apply keq_eq; exact A|apply starts_with_inv; exact B].
  - intros [-> [s ->]]. split; [apply keq_refl|apply starts_with_app].
Qed.

Lemma vanished_live_ok pg s : read_listed pg S_GAUGE (S_LIVE ++ s) None = Ok [].
Proof.
  unfold read_listed. replace (vanish_tolerated S_GAUGE (S_LIVE ++ s)) with true; [reflexivity|].
  symmetry. apply vanish_tolerated_iff. split; [reflexivity|exists s; reflexivity].
Qed.

Lemma vanished_other_raises pg typ p1 :
  ~ (typ = S_GAUGE /\ exists s, p1 = S_LIVE ++ s) -> read_listed pg typ p1 None = Err OSError.
Proof.
  intros H. unfold read_listed. destruct (vanish_tolerated typ p1) eqn:E; [|reflexivity].
  apply vanish_tolerated_iff in E. contradiction.
Qed.

Lemma reader_fix_conservative pg b : len (take pg b) <> 0 -> read_all_from_file pg b = read_all_from_file_orig pg b.
Proof. intros H. unfold read_all_from_file. destruct (len (take pg b) =? 0) eqn:E; [lia|reflexivity]. Qed.


(* ---------- nothing that was not written can be read ---------- *)
Lemma d_set_In {V} (es : list (bytes * V)) k x k' x' :
  In (k', x') (d_set keq es k x) -> (k' = k /\ x' = x) \/ In (k', x') es.
Proof.
  induction es as [|[k0 v0] r IH]; cbn [d_set In].
  - intros [H|[]]. injection H as <- <-. left. split; reflexivity.
  - destruct (keq k k0) eqn:E; cbn [In].
    + apply keq_eq in E. subst k0. intros [H|H]; [injection H as <- <-; left; split; reflexivity|right; right; exact H].
    + intros [H|H]; [right; left; exact H|]. destruct (IH H) as [H'|H']; [left; exact H'|right; right; exact H'].
Qed.

(* e was stored by a write_value of exactly that pair, or zero-initialised by a read_value *)
Definition written (ops : list op) (e : entry) : Prop :=
  In (Write (fst e) (fst (snd e)) (snd (snd e))) ops \/ (snd e = (zero8, zero8) /\ In (ReadV (fst e)) ops).

Lemma written_cons o ops e : written ops e -> written (o :: ops) e.
Proof. intros [H|[H1 H2]]; [left; right; exact H|right; split; [exact H1|right; exact H2]]. Qed.

Lemma spec_from_written : forall ops es e, In e (spec_from es ops) -> In e es \/ written ops e.
Proof.
  induction ops as [|o r IH]; intros es e H; [left; exact H|].
  change (spec_from es (o :: r)) with (spec_from (spec_step es o) r) in H.
  destruct (IH _ _ H) as [H'|H']; [|right; apply written_cons; exact H'].
  destruct e as [k' [v' t']]. destruct o as [k v ts|k|]; cbn [spec_step] in H'.
  - apply d_set_In in H' as [[-> Hx]|H']; [|left; exact H'].
    injection Hx as -> ->. right. left. left. reflexivity.
  - destruct (d_mem keq es k); [left; exact H'|].
    apply d_set_In in H' as [[-> Hx]|H']; [|left; exact H'].
    right. right. split; [exact Hx|left; reflexivity].
  - left. exact H'.
Qed.

Lemma prefix_state_written ops m infl e :
  inflight_ok [] (firstn m ops) (nth_error ops m) infl -> In e (spec (firstn m ops) ++ infl) ->
  written (firstn m ops) e \/ (exists o k, nth_error ops m = Some o /\ keyof o = Some k /\ e = e0 k).
Proof.
  intros Hi Hin. apply in_app_or in Hin as [Hin|Hin].
  - left. destruct (spec_from_written _ _ _ Hin) as [[]|H]. exact H.
  - right. destruct Hi as [->|[o [k [H1 [H2 [_ ->]]]]]]; [destruct Hin|].
    destruct Hin as [<-|[]]. exists o, k. auto.
Qed.

(* ---------- the reader terminates on EVERY byte string ---------- *)
Lemma read_loop_fuel_enough : forall fuel rest used pos,
  (length rest < fuel)%nat -> read_loop fuel rest used pos <> Err OutOfFuel.
Proof.
  induction fuel as [|f IH]; intros rest used pos Hf; [lia|].
  cbn [read_loop]. destruct (pos <? used); [|discriminate].
  destruct (unpack_i rest 0) as [el|e] eqn:Eu; cbn [bind].
  2:{ unfold unpack_i in Eu. destruct (slice rest 0 4) as [|? [|? [|? [|? [|? ?]]]]]; congruence. }
  destruct (el <? 0)%Z; [discriminate|].
  destruct (used <? Z.to_N el + pos); [discriminate|].
  set (off := 4 + Z.to_N el + pad_len (Z.to_N el)).
  destruct (unpack_dd rest off) as [vt|e] eqn:Ed; cbn [bind].
  2:{ unfold unpack_dd in Ed. destruct (len (slice rest off 16) =? 16); congruence. }
  assert (Hlen : (length (drop (off + 16) rest) < f)%nat).
  { unfold unpack_dd in Ed. destruct (len (slice rest off 16) =? 16) eqn:E; [|discriminate].
    unfold slice in E. rewrite len_take, len_drop in E.
    pose proof (len_drop rest (off + 16)) as Hd. unfold len in *. lia. }
  specialize (IH (drop (off + 16) rest) used (pos + off + 16) Hlen).
  destruct (read_loop f (drop (off + 16) rest) used (pos + off + 16)) as [r|e]; cbn [bind]; congruence.
Qed.

Lemma read_all_values_raw_terminates d used : read_all_values_raw d used <> Err OutOfFuel.
Proof.
  unfold read_all_values_raw.
  destruct (if (used <=? 0)%Z then unpack_i d 0 else Ok used) as [u|e] eqn:E; cbn [bind].
  - apply read_loop_fuel_enough. pose proof (len_drop d 8). unfold len in *. lia.
  - destruct (used <=? 0)%Z; [|discriminate]. unfold unpack_i in E.
    destruct (slice d 0 4) as [|? [|? [|? [|? [|? ?]]]]]; congruence.
Qed.

Lemma reader_terminates pg b : read_all_from_file pg b <> Err OutOfFuel.
Proof.
  unfold read_all_from_file. destruct (len (take pg b) =? 0); [discriminate|].
  unfold read_all_from_file_orig.
  destruct (unpack_i (take pg b) 0) as [u|e] eqn:E; cbn [bind].
  - match goal with |- (do l <- read_all_values_raw ?d ?u; _) <> _ =>
      pose proof (read_all_values_raw_terminates d u) as H; destruct (read_all_values_raw d u) end;
      cbn [bind]; congruence.
  - unfold unpack_i in E. destruct (slice (take pg b) 0 4) as [|? [|? [|? [|? [|? ?]]]]]; congruence.
Qed.
(* ---------- one dead or in-flight worker cannot fail the reading phase of a scrape ---------- *)
(* a multiprocess directory: each worker file is some writer history stopped at some cut >= 1 *)
Definition worker_ok (w : list op * nat) : Prop :=
  Forall wf_op (fst w) /\ 8 + total (spec (fst w)) < 2147483648 /\ (1 <= snd w)%nat.
Definition worker_readable (isz pg : N) (w : list op * nat) : Prop :=
  exists tr bn m infl, trace isz (fst w) = Ok tr /\ cut (snd w) tr = Ok (Some bn) /\
    read_all_from_file pg bn = Ok (spec (firstn m (fst w)) ++ infl).

Lemma all_workers_readable isz pg : 8 <= isz -> 4 <= pg -> forall ws,
  Forall worker_ok ws -> Forall (worker_readable isz pg) ws.
Proof.
  intros Hi Hp ws H. eapply Forall_impl; [|exact H]. intros [ops n] [Hwf [Hb Hn]]. cbn [fst snd] in *.
  destruct (trace_ok isz pg Hi Hp ops Hwf Hb) as [tr Htr].
  destruct (cuts_spec isz pg Hi Hp ops tr Hwf Hb Htr n Hn) as [bn [m [infl [H1 [_ [H2 _]]]]]].
  exists tr, bn, m, infl. cbn [fst snd]. auto.
Qed.

(* ---------- keys as Python objects: which keys are refused, and that a refused call is the identity ---------- *)
Definition surrogate (c : N) : Prop := is_surrogate c = true.

Lemma utf8_cp_err c e : utf8_cp c = Err e -> e = ValueError /\ surrogate c.
Proof.
  unfold utf8_cp, surrogate. destruct (c <? 128); [discriminate|]. destruct (c <? 2048); [discriminate|].
  destruct (c <? 65536); [|discriminate]. destruct (is_surrogate c); [|discriminate].
  intros H. injection H as <-. split; reflexivity.
Qed.

Lemma utf8_cp_surrogate c : surrogate c -> utf8_cp c = Err ValueError.
Proof.
  unfold surrogate, utf8_cp. intros H. rewrite H. unfold is_surrogate in H.
  destruct (c <? 128) eqn:A; [lia|]. destruct (c <? 2048) eqn:B; [lia|]. destruct (c <? 65536) eqn:C; [reflexivity|lia].
Qed.

Lemma utf8_cp_ok c : ~ surrogate c -> exists b, utf8_cp c = Ok b /\ 1 <= len b <= 4.
Proof.
  unfold surrogate, utf8_cp. intros H. destruct (is_surrogate c); [contradiction H; reflexivity|].
  destruct (c <? 128); [eexists; split; [reflexivity|unfold len; cbn [length]; lia]|].
  destruct (c <? 2048); [eexists; split; [reflexivity|unfold len; cbn [length]; lia]|].
  destruct (c <? 65536); eexists; (split; [reflexivity|unfold len; cbn [length]; lia]).
Qed.

Lemma utf8_cp_nonempty c a : utf8_cp c = Ok a -> a <> [].
Proof.
  unfold utf8_cp. destruct (c <? 128); [intros H; injection H as <-; discriminate|].
  destruct (c <? 2048); [intros H; injection H as <-; discriminate|].
  destruct (c <? 65536); [destruct (is_surrogate c); [discriminate|]|]; intros H; injection H as <-; discriminate.
Qed.

(* str.encode('utf-8') refuses exactly the strs that contain a surrogate code point, with UnicodeEncodeError *)
Lemma utf8_err s e : utf8 s = Err e -> e = ValueError /\ Exists surrogate s.
Proof.
  induction s as [|c r IH]; cbn [utf8]; [discriminate|].
  destruct (utf8_cp c) as [a|e1] eqn:E; cbn [bind].
  - destruct (utf8 r) as [b|e2]; cbn [bind]; [discriminate|].
    intros H. injection H as <-. destruct (IH eq_refl) as [-> Hx]. split; [reflexivity|right; exact Hx].
  - intros H. injection H as <-. apply utf8_cp_err in E as [-> Hc]. split; [reflexivity|left; exact Hc].
Qed.

Lemma utf8_surrogate s : Exists surrogate s -> utf8 s = Err ValueError.
Proof.
  induction s as [|c r IH]; intros H; [inversion H|]. cbn [utf8].
  destruct (utf8_cp c) as [a|e1] eqn:E; cbn [bind].
  - inversion H as [? ? Hc|? ? Hr]; subst.
    + rewrite (utf8_cp_surrogate c Hc) in E. discriminate.
    + rewrite (IH Hr). reflexivity.
  - apply utf8_cp_err in E as [-> _]. reflexivity.
Qed.

Lemma utf8_ok s : Forall (fun c => ~ surrogate c) s -> exists b, utf8 s = Ok b.
Proof.
  intros H. destruct (utf8 s) as [b|e] eqn:E; [exists b; reflexivity|].
  apply utf8_err in E as [_ Hx]. apply Exists_exists in Hx as [c [Hin Hc]].
  rewrite Forall_forall in H. destruct (H c Hin Hc).
Qed.

Lemma cons_inj {A} (a b : A) l m : a :: l = b :: m -> a = b /\ l = m.
Proof. intros H. injection H. auto. Qed.
Lemma ok_inj {A} (a b : A) : @Ok A a = Ok b -> a = b.
Proof. intros H. injection H. auto. Qed.

(* the encoding is a prefix code: two strs with the same encoding are the same str, so keying the handle's mapping by
   the encoded bytes (the model) and by the str (the Python dict) is the same thing *)
Lemma utf8_cp_inj c1 c2 a1 a2 r1 r2 :
  utf8_cp c1 = Ok a1 -> utf8_cp c2 = Ok a2 -> a1 ++ r1 = a2 ++ r2 -> c1 = c2 /\ r1 = r2.
Proof.
  unfold utf8_cp. intros H1 H2 H.
  destruct (c1 <? 128) eqn:A1;
    [|destruct (c1 <? 2048) eqn:B1; [|destruct (c1 <? 65536) eqn:C1; [destruct (is_surrogate c1); [discriminate|]|]]];
  (destruct (c2 <? 128) eqn:A2;
    [|destruct (c2 <? 2048) eqn:B2; [|destruct (c2 <? 65536) eqn:C2; [destruct (is_surrogate c2); [discriminate|]|]]]);
  apply ok_inj in H1; apply ok_inj in H2; subst a1 a2; cbn [app] in H;
  repeat match goal with H : _ :: _ = _ :: _ |- _ => apply cons_inj in H; destruct H end;
  first [ split; [lia|assumption] | exfalso; lia ].
Qed.

Lemma utf8_inj : forall s1 s2 b, utf8 s1 = Ok b -> utf8 s2 = Ok b -> s1 = s2.
Proof.
  induction s1 as [|c1 r1 IH]; intros s2 b H1 H2.
  - cbn [utf8] in H1. injection H1 as <-. destruct s2 as [|c2 r2]; [reflexivity|]. cbn [utf8] in H2.
    destruct (utf8_cp c2) as [a|] eqn:E; cbn [bind] in H2; [|discriminate].
    destruct (utf8 r2); cbn [bind] in H2; [|discriminate]. injection H2 as H2.
    apply utf8_cp_nonempty in E. destruct a; [contradiction E; reflexivity|discriminate].
  - cbn [utf8] in H1. destruct (utf8_cp c1) as [a1|] eqn:E1; cbn [bind] in H1; [|discriminate].
    destruct (utf8 r1) as [b1|] eqn:F1; cbn [bind] in H1; [|discriminate]. injection H1 as <-.
    destruct s2 as [|c2 r2]; cbn [utf8] in H2.
    + injection H2 as H2. apply utf8_cp_nonempty in E1. destruct a1; [contradiction E1; reflexivity|discriminate].
    + destruct (utf8_cp c2) as [a2|] eqn:E2; cbn [bind] in H2; [|discriminate].
      destruct (utf8 r2) as [b2|] eqn:F2; cbn [bind] in H2; [|discriminate]. injection H2 as H2.
      destruct (utf8_cp_inj c1 c2 a1 a2 b1 b2 E1 E2 (eq_sym H2)) as [-> ->].
      rewrite (IH r2 b2 eq_refl F2). reflexivity.
Qed.

(* which calls are refused: exactly those whose key is unhashable, is not a str, or is a str with a surrogate *)
Definition pkeyof (o : pop) : option pykey :=
  match o with PWrite k _ _ => Some k | PReadV k => Some k | PReopen => None end.

Lemma key_bytes_err k e : key_bytes k = Err e <->
  (k = KUnhashable /\ e = TypeError) \/ (k = KNoEncode /\ e = AttributeError) \/
  (exists s, k = KStr s /\ Exists surrogate s /\ e = ValueError).
Proof.
  split.
  - destruct k as [s| |]; cbn [key_bytes]; intros H.
    + apply utf8_err in H as [-> Hx]. right. right. exists s. auto.
    + injection H as <-. right. left. auto.
    + injection H as <-. left. auto.
  - intros [[-> ->]|[[-> ->]|[s [-> [Hx ->]]]]]; cbn [key_bytes]; [reflexivity|reflexivity|apply utf8_surrogate; exact Hx].
Qed.

Lemma some_inj {A} (a b : A) : Some a = Some b -> a = b.
Proof. intros H. injection H. auto. Qed.
Lemma err_inj {A} (a b : exn) : @Err A a = Err b -> a = b.
Proof. intros H. injection H. auto. Qed.

Lemma lower_err o e : lower o = Err e <-> exists k, pkeyof o = Some k /\ key_bytes k = Err e.
Proof.
  destruct o as [k v ts|k|]; cbn [lower pkeyof].
  - destruct (key_bytes k) as [kb|e1] eqn:E; cbn [bind]; split.
    + discriminate.
    + intros [k' [H1 H2]]. apply some_inj in H1. subst k'. congruence.
    + intros H. apply err_inj in H. subst e1. exists k. split; [reflexivity|exact E].
    + intros [k' [H1 H2]]. apply some_inj in H1. subst k'. congruence.
  - destruct (key_bytes k) as [kb|e1] eqn:E; cbn [bind]; split.
    + discriminate.
    + intros [k' [H1 H2]]. apply some_inj in H1. subst k'. congruence.
    + intros H. apply err_inj in H. subst e1. exists k. split; [reflexivity|exact E].
    + intros [k' [H1 H2]]. apply some_inj in H1. subst k'. congruence.
  - split; [discriminate|]. intros [k' [H1 _]]. discriminate.
Qed.

(* a refused call raises and is the identity on the file and on the handle, in EVERY state (no hypothesis on w) *)
Lemma pstep_refused isz w o e : lower o = Err e -> pstep isz w o = Ok (fst w, snd w, [], Some e).
Proof. intros H. unfold pstep. rewrite H. reflexivity. Qed.

Lemma pstep_accepted isz w o o' : lower o = Ok o' -> pstep isz w o = do s <- step isz w o'; Ok (s, None).
Proof. intros H. unfold pstep. rewrite H. reflexivity. Qed.

(* hence a history with refused calls IS the history of its accepted calls: same file, same handle, same effect trace *)
Lemma prun_from_accepted isz : forall ops w,
  prun_from isz w ops = do t <- run_from isz w (accepted ops); Ok (t, outcomes ops).
Proof.
  induction ops as [|o r IH]; intros [f h]; [reflexivity|].
  cbn [prun_from accepted flat_map outcomes map]. unfold pstep. destruct (lower o) as [o'|e]; cbn [fst snd bind app].
  - cbn [run_from]. destruct (step isz (f, h) o') as [[[f1 h1] tr1]|e1]; cbn [bind fst snd]; [|reflexivity].
    rewrite IH. fold (accepted r). destruct (run_from isz (f1, h1) (accepted r)) as [[[f2 h2] tr2]|e2]; reflexivity.
  - rewrite IH. fold (accepted r). destruct (run_from isz (f, h) (accepted r)) as [[[f2 h2] tr2]|e2]; reflexivity.
Qed.

Lemma prun_accepted isz ops : prun isz ops = do t <- run isz (accepted ops); Ok (t, outcomes ops).
Proof.
  unfold prun, run. destruct (start isz) as [[[f0 h0'] tr0]|e]; cbn [bind fst snd]; [|reflexivity].
  rewrite prun_from_accepted. destruct (run_from isz (f0, h0') (accepted ops)) as [[[f1 h1] tr1]|e]; reflexivity.
Qed.

Lemma accepted_app a b : accepted (a ++ b) = accepted a ++ accepted b.
Proof. unfold accepted. apply flat_map_app. Qed.

Lemma accepted_refused a o b e : lower o = Err e -> accepted (a ++ o :: b) = accepted (a ++ b).
Proof.
  intros H. rewrite !accepted_app. f_equal. unfold accepted at 1. cbn [flat_map]. rewrite H. reflexivity.
Qed.

Definition wf_pop (o : pop) : Prop :=
  match o with PWrite _ v ts => len v = 8 /\ len ts = 8 | _ => True end.

Lemma accepted_wf ops : Forall wf_pop ops -> Forall wf_op (accepted ops).
Proof.
  induction 1 as [|o r Ho Hr IH]; [constructor|].
  unfold accepted. cbn [flat_map]. fold (accepted r).
  destruct o as [k v ts|k|]; cbn [lower]; [destruct (key_bytes k)|destruct (key_bytes k)|]; cbn [bind app];
    try exact IH; constructor; try exact IH; try exact Ho; exact I.
Qed.

Lemma keys_main isz pg : 8 <= isz -> 4 <= pg -> forall ops,
  Forall wf_pop ops -> 8 + total (spec (accepted ops)) < 2147483648 ->
  exists b h tr, prun isz ops = Ok (Some b, h, tr, outcomes ops) /\ run isz (accepted ops) = Ok (Some b, h, tr) /\
    Rep isz b h (spec (accepted ops)) /\
    read_all b h = Ok (spec (accepted ops)) /\ read_all_from_file pg b = Ok (spec (accepted ops)) /\
    (forall k v, In (k, v) (spec (accepted ops)) -> peek b h k = Ok v) /\
    open_ isz (Some b) = Ok (h, []) /\ NoDup (map fst (spec (accepted ops))).
Proof.
  intros Hi Hp ops Hwf Hb.
  destruct (C10_main isz pg Hi Hp (accepted ops) (accepted_wf ops Hwf) Hb) as [b [h [tr [H R]]]].
  exists b, h, tr. split; [rewrite prun_accepted, H; reflexivity|]. split; [exact H|exact R].
Qed.

(* from ANY represented state: the refused call leaves a state that represents the same entries (it is the same
   state), so the three read paths and a later reopen are as they were *)
Lemma refused_keeps isz pg : 8 <= isz -> 4 <= pg -> forall o e b h es,
  Rep isz b h es -> lower o = Err e ->
  pstep isz (Some b, h) o = Ok (Some b, h, [], Some e) /\
  read_all b h = Ok es /\ read_all_from_file pg b = Ok es /\ (forall k v, In (k, v) es -> peek b h k = Ok v) /\
  open_ isz (Some b) = Ok (h, []).
Proof.
  intros Hi Hp o e b h es R H. split; [apply (pstep_refused isz (Some b, h) o e H)|].
  destruct (rep_reads isz pg Hp _ _ _ R) as [H1 [H2 H3]].
  split; [exact H1|]. split; [exact H2|]. split; [exact H3|]. apply (reopen_spec isz pg Hi Hp _ _ _ R).
Qed.
