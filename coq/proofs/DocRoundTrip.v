(* C03 L5 (in progress): from lines to documents. *)
From V Require Import lib.PyBase lib.Tac lib.PyStr model.Utils model.Validation model.Expo model.TextParser
  proofs.EscapeProofs proofs.ScanFacts proofs.TextParserTotal proofs.LabelRoundTrip proofs.SampleRoundTrip
  proofs.LineProofs.
Ltac Zify.zify_post_hook ::= Z.to_euclidean_division_equations.
Open Scope N_scope.

(* ---------- a document made of LF-terminated, LF-free lines is split back into exactly those lines ---------- *)
Definition unlines (ls : list str) : str := flat_map (fun l => l ++ [LF]) ls.

Lemma split_char_acc_line c l rest cur : ~ In c l ->
  split_char_acc c (l ++ c :: rest) cur = (rev cur ++ l) :: split_char_acc c rest [].
Proof.
  revert cur. induction l as [|x l IH]; intros cur Hn; cbn [app split_char_acc].
  - rewrite N.eqb_refl, app_nil_r. reflexivity.
  - destruct (N.eqb_spec x c) as [->|_]; [exfalso; apply Hn; left; reflexivity|].
    rewrite IH by (intro H; apply Hn; right; exact H). cbn [rev]. rewrite <- app_assoc. reflexivity.
Qed.

Lemma split_unlines ls : Forall (fun l => ~ In LF l) ls -> split_char LF (unlines ls) = ls ++ [[]].
Proof.
  unfold split_char. induction 1 as [|l ls Hl _ IH]; [reflexivity|].
  cbn [unlines flat_map]. rewrite <- app_assoc. cbn [app].
  rewrite split_char_acc_line by exact Hl. cbn [rev app]. fold (unlines ls). rewrite IH. reflexivity.
Qed.

Section Doc.
  Variable NUM : Type.
  Variable parse_num parse_float : str -> option NUM.
  Variable div1000 : NUM -> res NUM.
  Notation p_text := (text_parse false true NUM parse_num parse_float div1000 true).
  Notation p_lines := (run_lines false true NUM parse_num parse_float div1000 true).

  (* the parser sees exactly the lines that were written *)
  Theorem text_parse_unlines ls : Forall (fun l => ~ In LF l) ls ->
    p_text (unlines ls) = p_lines (st_init NUM) ls [].
  Proof.
    intro H. unfold text_parse. rewrite split_unlines by exact H.
    rewrite rev_app_distr. cbn [rev app]. rewrite rev_involutive. reflexivity.
  Qed.
End Doc.
