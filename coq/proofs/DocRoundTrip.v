(* C03 L5 (in progress): from lines to documents. *)
From V Require Import lib.PyBase lib.Tac lib.PyStr model.Utils model.Validation model.Expo model.TextParser
  proofs.EscapeProofs proofs.ScanFacts proofs.TextParserTotal proofs.LabelRoundTrip proofs.SampleRoundTrip
  proofs.LineProofs.
Ltac Zify.zify_post_hook ::= Z.to_euclidean_division_equations.
Open Scope N_scope.

(* ---------- a document made of LF-terminated, LF-free lines is split back into exactly those lines ---------- *)
Definition unlines (ls : list str) : str := flat_map (fun l => l ++ [LF]) ls.

Lemma split_char_acc_line c l rest cur : ~ In c l ->
  split_char_acc c (l ++ c :: rest) cur = (rev cur ++ l) :: split_char_acc c rest [].
Proof.
  revert cur. induction l as [|x l IH]; intros cur Hn; cbn [app split_char_acc].
  - rewrite N.eqb_refl, app_nil_r. reflexivity.
  - destruct (N.eqb_spec x c) as [->|_]; [exfalso; apply Hn; left; reflexivity|].
    rewrite IH by (intro H; apply Hn; right; exact H). cbn [rev]. rewrite <- app_assoc. reflexivity.
Qed.

Lemma split_unlines ls : Forall (fun l => ~ In LF l) ls -> split_char LF (unlines ls) = ls ++ [[]].
Proof.
  unfold split_char. induction 1 as [|l ls Hl _ IH]; [reflexivity|].
  cbn [unlines flat_map]. rewrite <- app_assoc. cbn [app].
  rewrite split_char_acc_line by exact Hl. cbn [rev app]. fold (unlines ls). rewrite IH. reflexivity.
Qed.

Section Doc.
  Variable NUM : Type.
  Variable parse_num parse_float : str -> option NUM.
  Variable div1000 : NUM -> res NUM.
  Notation p_text := (text_parse false true NUM parse_num parse_float div1000 true).
  Notation p_lines := (run_lines false true NUM parse_num parse_float div1000 true).

  (* the parser sees exactly the lines that were written *)
  Theorem text_parse_unlines ls : Forall (fun l => ~ In LF l) ls ->
    p_text (unlines ls) = p_lines (st_init NUM) ls [].
  Proof.
    intro H. unfold text_parse. rewrite split_unlines by exact H.
    rewrite rev_app_distr. cbn [rev app]. rewrite rev_involutive. reflexivity.
  Qed.
End Doc.

(* ---------- scanning from a start index > 0 (as _split_quoted does) ---------- *)
Fixpoint par_after (l : str) (par : bool) : bool :=
  match l with [] => par | c :: r => par_after r (if c =? BS then negb par else false) end.

Lemma nuq_skip chs a : forall b i par inq,
  nuq chs (a ++ b) i (i + zlen a)%Z par inq =
  match nuq0 chs b (par_after a par) inq with None => (-1)%Z | Some k => (i + zlen a + Z.of_nat k)%Z end.
Proof.
  induction a as [|c r IH]; intros b i par inq.
  - cbn [app par_after zlen length]. rewrite nuq_rel by (cbn; lia). destruct (nuq0 chs b par inq); cbn; lia.
  - cbn [app nuq par_after]. unfold zlen in *. cbn [length]. rewrite Nat2Z.inj_succ.
    destruct (Z.ltb_spec i (i + Z.succ (Z.of_nat (length r)))); [|lia].
    replace (i + Z.succ (Z.of_nat (length r)))%Z with ((i + 1) + Z.of_nat (length r))%Z by lia.
    rewrite IH. destruct (nuq0 chs b _ inq); lia.
Qed.

Lemma par_after_last a c par : c <> BS -> par_after (a ++ [c]) par = false.
Proof.
  revert par. induction a as [|x r IH]; intros par Hc; cbn [app par_after].
  - destruct (N.eqb_spec c BS); [contradiction|reflexivity].
  - apply IH. exact Hc.
Qed.

(* next_unquoted_char text chs x, where text = a ++ b, x = len a and a ends with a non-backslash *)
Lemma nuc_from a c b chs : c <> BS ->
  next_unquoted_char ((a ++ [c]) ++ b) chs (zlen (a ++ [c])) =
  match nuq0 chs b false false with None => (-1)%Z | Some k => (zlen (a ++ [c]) + Z.of_nat k)%Z end.
Proof.
  intro Hc. unfold next_unquoted_char.
  replace (zlen (a ++ [c])) with (0 + zlen (a ++ [c]))%Z at 1 by lia.
  rewrite nuq_skip, par_after_last by exact Hc. destruct (nuq0 chs b false false); lia.
Qed.

(* a token holds no unquoted ASCII whitespace: a legacy name, or a quoted escaped string *)
Lemma ws_not_name c : name_rest c = true -> mem_char c WS_ASCII = false.
Proof.
  intro H. unfold name_rest, name_start, is_alpha, is_digit, USCORE, COLON in H. unfold WS_ASCII. cbn [mem_char].
  repeat match goal with |- context [c =? ?k] => destruct (N.eqb_spec c k); [subst c; vm_compute in H; discriminate|] end.
  reflexivity.
Qed.

Definition mname_tok (n : str) : str := escape_metric_name n.

Lemma mname_tok_facts n : n <> [] ->
  (forall rest, nuq0 WS_ASCII (mname_tok n ++ rest) false false
     = option_map (fun k => (length (mname_tok n) + k)%nat) (nuq0 WS_ASCII rest false false))
  /\ unquote_unescape_with true (mname_tok n) = Ok (n, negb (is_valid_legacy_metric_name n))
  /\ (exists p d, mname_tok n = p ++ [d] /\ d <> BS /\ is_space_uni d = false)
  /\ mname_tok n <> [].
Proof.
  intro Hne. unfold mname_tok, escape_metric_name. destruct (is_valid_legacy_metric_name n) eqn:E.
  - destruct (legacy_name_chars n E) as (c & r & -> & Hall).
    assert (Hplain : forall x, In x (c :: r) -> name_rest x = true) by (apply Forall_forall; exact Hall).
    repeat split.
    + intro rest. apply plain_scan. intros x Hx. specialize (Hplain x Hx).
      destruct (name_rest_plain x Hplain) as (H1 & H2 & _). repeat split; auto. apply ws_not_name. exact Hplain.
    + unfold unquote_unescape_with. rewrite (strip_legacy_name (c :: r) E).
      destruct (N.eqb_spec c DQ) as [->|_].
      * exfalso. destruct (name_rest_plain DQ (Hplain DQ (or_introl eq_refl))) as (_ & H2 & _). congruence.
      * cbn [negb]. rewrite replace_escaping_plain; [reflexivity|].
        intro Hin. destruct (name_rest_plain BS (Hplain BS Hin)) as (H1 & _). congruence.
    + destruct (@exists_last _ (c :: r) ltac:(discriminate)) as (p & d & Ep). exists p, d. split; [exact Ep|].
      assert (Hd : name_rest d = true) by (apply Hplain; rewrite Ep; apply in_or_app; right; left; reflexivity).
      destruct (name_rest_plain d Hd) as (H1 & _ & _ & _ & _ & _ & H7). auto.
    + discriminate.
  - rewrite escape_chain_eq. repeat split.
    + intro rest. apply quoted_scan. reflexivity.
    + apply unq_quoted.
    + exists (DQ :: escape n), DQ. split; [reflexivity|]. split; [discriminate|reflexivity].
    + discriminate.
Qed.

(* ---------- _split_quoted on a comment line ---------- *)
Definition skipws (tok : str) : Prop :=
  forall r, nuq0 WS_ASCII (tok ++ r) false false
            = option_map (fun k => (length tok + k)%nat) (nuq0 WS_ASCII r false false).

Definition okpre (pre : str) : Prop := pre = [] \/ exists a c, pre = a ++ [c] /\ c <> BS.

Lemma nuc_at pre b : okpre pre ->
  next_unquoted_char (pre ++ b) WS_ASCII (zlen pre) =
  match nuq0 WS_ASCII b false false with None => (-1)%Z | Some k => (zlen pre + Z.of_nat k)%Z end.
Proof.
  intros [->|(a & c & -> & Hc)].
  - cbn [app]. rewrite next_unquoted_char_rel. unfold zlen. cbn [length]. destruct (nuq0 _ _ _ _); lia.
  - apply nuc_from. exact Hc.
Qed.

Lemma slice_mid pre tok post :
  slice (pre ++ tok ++ post) (zlen pre) (zlen pre + Z.of_nat (length tok)) = tok.
Proof.
  unfold zlen. rewrite <- Nat2Z.inj_add. rewrite slice_nat by (rewrite !app_length; lia).
  rewrite skipn_app, skipn_all, Nat.sub_diag. cbn [skipn app].
  replace (length pre + length tok - length pre)%nat with (length tok) by lia.
  rewrite firstn_app, firstn_all, Nat.sub_diag. cbn [firstn]. apply app_nil_r.
Qed.

(* one round of the loop: a token followed by a space *)
Lemma sq_round fuel pre tok post done last :
  okpre pre -> skipws tok -> (length done < 3)%nat ->
  split_quoted_fuel (S fuel) (pre ++ tok ++ SP :: post) WS_ASCII 3 (zlen pre) done last
  = split_quoted_fuel fuel (pre ++ tok ++ SP :: post) WS_ASCII 3 (zlen (pre ++ tok ++ [SP])) (tok :: done) [].
Proof.
  intros Hp Hs Hd. cbn [split_quoted_fuel].
  assert (Hlt : (zlen pre <? zlen (pre ++ tok ++ SP :: post))%Z = true).
  { unfold zlen. rewrite !app_length. cbn [length]. lia. }
  rewrite Hlt. rewrite (nuc_at pre (tok ++ SP :: post) Hp), Hs.
  cbn [nuq0]. change (SP =? BS) with false. change (SP =? DQ) with false. cbn [andb negb].
  change (mem_char SP WS_ASCII) with true. cbn [andb option_map]. rewrite Nat.add_0_r.
  replace (zlen pre + Z.of_nat (length tok) =? -1)%Z with false by (unfold zlen; lia).
  replace ((0 <? 3)%Z && (3 <? Z.of_nat (S (length done)))%Z) with false by lia.
  rewrite slice_mid. f_equal. unfold zlen. rewrite !app_length. cbn [length]. lia.
Qed.

(* the last token: nothing after it *)
Lemma sq_last fuel pre tok done last :
  okpre pre -> skipws tok -> tok <> [] ->
  split_quoted_fuel (S fuel) (pre ++ tok) WS_ASCII 3 (zlen pre) done last = Ok (rev (tok :: done)).
Proof.
  intros Hp Hs Hne. cbn [split_quoted_fuel].
  assert (Hlt : (zlen pre <? zlen (pre ++ tok))%Z = true).
  { unfold zlen. rewrite app_length. destruct tok; [congruence|cbn [length]; lia]. }
  rewrite Hlt. rewrite (nuc_at pre tok Hp). rewrite <- (app_nil_r tok) at 1. rewrite Hs. cbn [nuq0 option_map].
  rewrite Z.eqb_refl. unfold zlen. rewrite slice_from_skipn by (rewrite app_length; lia).
  rewrite skipn_app, skipn_all, Nat.sub_diag. reflexivity.
Qed.

(* the fourth part: the rest of the line, whatever it is (maxsplit reached or no more separators) *)
Lemma sq_rest fuel pre rest (done : list str) last :
  okpre pre -> rest <> [] -> length done = 3%nat ->
  split_quoted_fuel (S fuel) (pre ++ rest) WS_ASCII 3 (zlen pre) done last = Ok (rev (rest :: done)).
Proof.
  intros Hp Hne Hd. cbn [split_quoted_fuel].
  assert (Hlt : (zlen pre <? zlen (pre ++ rest))%Z = true).
  { unfold zlen. rewrite app_length. destruct rest; [congruence|cbn [length]; lia]. }
  rewrite Hlt.
  assert (Hsl : slice_from (pre ++ rest) (zlen pre) = rest).
  { unfold zlen. rewrite slice_from_skipn by (rewrite app_length; lia). rewrite skipn_app, skipn_all, Nat.sub_diag. reflexivity. }
  rewrite Hsl. destruct (_ =? -1)%Z; [reflexivity|].
  replace ((0 <? 3)%Z && (3 <? Z.of_nat (S (length done)))%Z) with true by lia. reflexivity.
Qed.

Lemma skipws_plain tok : Forall (fun c => c <> BS /\ c <> DQ /\ mem_char c WS_ASCII = false) tok -> skipws tok.
Proof. intros H r. apply plain_scan. intros c Hc. rewrite Forall_forall in H. apply H. exact Hc. Qed.

Definition T_hash : str := [HASH].
Lemma skipws_hash : skipws T_hash.
Proof. apply skipws_plain. repeat constructor; discriminate. Qed.
Lemma skipws_HELP : skipws S_HELP.
Proof. apply skipws_plain. vm_compute. repeat constructor; discriminate. Qed.
Lemma skipws_TYPE : skipws S_TYPE.
Proof. apply skipws_plain. vm_compute. repeat constructor; discriminate. Qed.

Lemma okpre_snoc a c : c <> BS -> okpre (a ++ [c]).
Proof. intro H. right. exists a, c. auto. Qed.

(* `# KW tok`  and  `# KW tok rest` *)
Lemma split_comment3 kw tok : skipws kw -> skipws tok -> tok <> [] ->
  split_quoted (T_hash ++ SP :: kw ++ SP :: tok) WS_ASCII 3 = Ok [T_hash; kw; tok].
Proof.
  intros Hk Ht Hne. unfold split_quoted.
  set (text := T_hash ++ SP :: kw ++ SP :: tok).
  destruct (length text) as [|[|[|n]]] eqn:El;
    try (subst text; rewrite !app_length in El; cbn [length T_hash] in El; rewrite app_length in El; cbn [length] in El;
         destruct tok; [congruence|cbn [length] in El; lia]).
  change (split_quoted_fuel (S (S (S (S (S n))))) text WS_ASCII 3 0 [] [])
    with (split_quoted_fuel (S (S (S (S (S n))))) ([] ++ T_hash ++ SP :: kw ++ SP :: tok) WS_ASCII 3 (zlen []) [] []).
  rewrite sq_round; [|left; reflexivity|exact skipws_hash|cbn; lia].
  cbn [app].
  change (T_hash ++ SP :: kw ++ SP :: tok) with ((T_hash ++ [SP]) ++ kw ++ SP :: tok).
  rewrite sq_round; [|apply okpre_snoc; discriminate|exact Hk|cbn; lia].
  replace ((T_hash ++ [SP]) ++ kw ++ SP :: tok) with (((T_hash ++ [SP]) ++ kw ++ [SP]) ++ tok)
    by (rewrite <- !app_assoc; reflexivity).
  rewrite sq_last; [reflexivity|rewrite app_assoc; apply okpre_snoc; discriminate|exact Ht|exact Hne].
Qed.

Lemma split_comment4 kw tok rest : skipws kw -> skipws tok -> rest <> [] ->
  split_quoted (T_hash ++ SP :: kw ++ SP :: tok ++ SP :: rest) WS_ASCII 3 = Ok [T_hash; kw; tok; rest].
Proof.
  intros Hk Ht Hne. unfold split_quoted.
  set (text := T_hash ++ SP :: kw ++ SP :: tok ++ SP :: rest).
  destruct (length text) as [|[|[|[|n]]]] eqn:El;
    try (subst text; rewrite !app_length in El; cbn [length T_hash] in El; rewrite !app_length in El; cbn [length] in El;
         rewrite app_length in El; cbn [length] in El; destruct rest; [congruence|cbn [length] in El; lia]).
  change (split_quoted_fuel (S (S (S (S (S (S n)))))) text WS_ASCII 3 0 [] [])
    with (split_quoted_fuel (S (S (S (S (S (S n)))))) ([] ++ T_hash ++ SP :: kw ++ SP :: tok ++ SP :: rest) WS_ASCII 3 (zlen []) [] []).
  rewrite sq_round; [|left; reflexivity|exact skipws_hash|cbn; lia].
  cbn [app].
  change (T_hash ++ SP :: kw ++ SP :: tok ++ SP :: rest) with ((T_hash ++ [SP]) ++ kw ++ SP :: tok ++ SP :: rest).
  rewrite sq_round; [|apply okpre_snoc; discriminate|exact Hk|cbn; lia].
  replace ((T_hash ++ [SP]) ++ kw ++ SP :: tok ++ SP :: rest)
    with (((T_hash ++ [SP]) ++ kw ++ [SP]) ++ tok ++ SP :: rest) by (rewrite <- !app_assoc; reflexivity).
  rewrite sq_round; [|rewrite app_assoc; apply okpre_snoc; discriminate|exact Ht|cbn; lia].
  replace (((T_hash ++ [SP]) ++ kw ++ [SP]) ++ tok ++ SP :: rest)
    with ((((T_hash ++ [SP]) ++ kw ++ [SP]) ++ tok ++ [SP]) ++ rest) by (rewrite <- !app_assoc; reflexivity).
  rewrite sq_rest; [reflexivity| |exact Hne|reflexivity].
  rewrite !app_assoc. apply okpre_snoc. discriminate.
Qed.

Ltac app_norm := unfold T_hash; repeat (cbn [app]; rewrite <- ?app_assoc); reflexivity.

(* ---------- strip on a line ---------- *)
Lemma lstrip_p_app_nil p a b : lstrip_p p a = [] -> lstrip_p p (a ++ b) = lstrip_p p b.
Proof.
  induction a as [|c r IH]; intro H; [reflexivity|]. cbn [app lstrip_p] in *.
  destruct (p c); [apply IH; exact H|discriminate].
Qed.
Lemma lstrip_p_app_cons p a b x y : lstrip_p p a = x :: y -> lstrip_p p (a ++ b) = (x :: y) ++ b.
Proof.
  induction a as [|c r IH]; intro H; [discriminate|]. cbn [app lstrip_p] in *.
  destruct (p c); [apply IH; exact H|]. inversion H; subst. reflexivity.
Qed.

Lemma rstrip_p_app p a b :
  rstrip_p p (a ++ b) = match rstrip_p p b with [] => rstrip_p p a | _ => a ++ rstrip_p p b end.
Proof.
  unfold rstrip_p. rewrite rev_app_distr.
  destruct (lstrip_p p (rev b)) as [|x y] eqn:E.
  - rewrite (lstrip_p_app_nil p (rev b) (rev a) E). reflexivity.
  - rewrite (lstrip_p_app_cons p (rev b) (rev a) x y E).
    destruct (rev (x :: y)) eqn:E2; [apply (f_equal (@length char)) in E2; rewrite rev_length in E2; discriminate|].
    rewrite <- E2, rev_app_distr, rev_involutive. reflexivity.
Qed.

Lemma rstrip_p_ends p a d : p d = false -> rstrip_p p (a ++ [d]) = a ++ [d].
Proof. intro H. unfold rstrip_p. rewrite rev_app_distr. cbn [rev app lstrip_p]. rewrite H. cbn [rev]. rewrite rev_involutive. reflexivity. Qed.

(* a comment line `# KW tok SP text`: strip removes trailing whitespace of text only *)
Lemma strip_comment_line kw tok text :
  (exists p d, tok = p ++ [d] /\ is_space_uni d = false) ->
  strip (T_hash ++ SP :: kw ++ SP :: tok ++ SP :: text)
  = match rstrip text with
    | [] => T_hash ++ SP :: kw ++ SP :: tok
    | t => T_hash ++ SP :: kw ++ SP :: tok ++ SP :: t
    end.
Proof.
  intros (p & d & -> & Hd). unfold strip, strip_p, rstrip.
  assert (Hl : lstrip_p is_space_uni (T_hash ++ SP :: kw ++ SP :: (p ++ [d]) ++ SP :: text)
               = T_hash ++ SP :: kw ++ SP :: (p ++ [d]) ++ SP :: text) by reflexivity.
  rewrite Hl.
  replace (T_hash ++ SP :: kw ++ SP :: (p ++ [d]) ++ SP :: text)
    with ((T_hash ++ SP :: kw ++ SP :: p ++ [d]) ++ SP :: text)
    by app_norm.
  rewrite rstrip_p_app.
  change (SP :: text) with ([SP] ++ text). rewrite (rstrip_p_app is_space_uni [SP] text).
  destruct (rstrip_p is_space_uni text) as [|t0 tr] eqn:Et.
  - change (rstrip_p is_space_uni [SP]) with (@nil char).
    replace (T_hash ++ SP :: kw ++ SP :: p ++ [d]) with ((T_hash ++ SP :: kw ++ SP :: p) ++ [d])
      by app_norm.
    rewrite rstrip_p_ends by exact Hd. app_norm.
  - app_norm.
Qed.

(* ---------- the HELP and TYPE lines ---------- *)
Definition KW_HELP : str := TextParser.S_HELP.
Definition KW_TYPE : str := TextParser.S_TYPE.
Definition help_line (n doc : str) : str := T_hash ++ SP :: KW_HELP ++ SP :: mname_tok n ++ SP :: help_escape_chain doc.
Definition type_line (n typ : str) : str := T_hash ++ SP :: KW_TYPE ++ SP :: mname_tok n ++ SP :: typ.

Lemma text_meta_lines_eq n doc typ :
  text_meta n doc typ = help_line n doc ++ [LF] ++ type_line n typ ++ [LF].
Proof. unfold text_meta, help_line, type_line, mname_tok. app_norm. Qed.

(* what the parser stores as help text: the written help with trailing whitespace removed (LF was escaped, so it stays) *)
Definition parsed_doc (doc : str) : str := replace_help_escaping (rstrip (help_escape_chain doc)).

Section Lines.
  Variable NUM : Type.
  Variable parse_num parse_float : str -> option NUM.
  Variable div1000 : NUM -> res NUM.
  Notation step := (step_line false true NUM parse_num parse_float div1000 true).
  Notation flush_ := (flush false NUM).

  Lemma cand_of_tok n : n <> [] ->
    (do '(n0, q) <- unquote_unescape true (mname_tok n);
     if negb q && negb (is_valid_legacy_metric_name n0) then Err ValueError else Ok (n0, q))
    = Ok (n, negb (is_valid_legacy_metric_name n)).
  Proof.
    intro Hne. destruct (mname_tok_facts n Hne) as (_ & Hu & _). unfold unquote_unescape. rewrite Hu. cbn [bind].
    rewrite negb_involutive. destruct (is_valid_legacy_metric_name n); reflexivity.
  Qed.

  Lemma step_help_line st n doc out :
    n <> [] -> str_eqb n (st_name NUM st) = false -> flush_ st = Ok out ->
    step st (help_line n doc)
    = Ok ({| st_name := n; st_doc := parsed_doc doc; st_typ := TextParser.S_untyped; st_samples := [];
             st_allowed := [n] |}, out).
  Proof.
    intros Hne Hneq Hfl. unfold step_line, help_line.
    destruct (mname_tok_facts n Hne) as (Hskip & Hu & (p & d & Ep & Hd1 & Hd2) & Htne).
    rewrite strip_comment_line by (exists p, d; auto).
    unfold parsed_doc. fold (rstrip (help_escape_chain doc)).
    destruct (rstrip (help_escape_chain doc)) as [|t0 tr] eqn:Er.
    - (* empty help: three parts *)
      change (T_hash ++ SP :: KW_HELP ++ SP :: mname_tok n) with ([HASH] ++ SP :: KW_HELP ++ SP :: mname_tok n).
      cbn [app]. change (HASH =? HASH) with true. cbv iota.
      change (HASH :: SP :: KW_HELP ++ SP :: mname_tok n) with (T_hash ++ SP :: KW_HELP ++ SP :: mname_tok n).
      rewrite (split_comment3 KW_HELP (mname_tok n) skipws_HELP Hskip Htne). cbn [bind].
      rewrite (cand_of_tok n Hne). cbn [bind].
      change (str_eqb KW_HELP TextParser.S_HELP) with true. cbv iota.
      rewrite Hneq. cbn [negb]. rewrite Hfl. cbn [bind]. reflexivity.
    - change (T_hash ++ SP :: KW_HELP ++ SP :: mname_tok n ++ SP :: t0 :: tr)
        with ([HASH] ++ SP :: KW_HELP ++ SP :: mname_tok n ++ SP :: t0 :: tr).
      cbn [app]. change (HASH =? HASH) with true. cbv iota.
      change (HASH :: SP :: KW_HELP ++ SP :: mname_tok n ++ SP :: t0 :: tr)
        with (T_hash ++ SP :: KW_HELP ++ SP :: mname_tok n ++ SP :: t0 :: tr).
      rewrite (split_comment4 KW_HELP (mname_tok n) (t0 :: tr) skipws_HELP Hskip ltac:(discriminate)). cbn [bind].
      rewrite (cand_of_tok n Hne). cbn [bind].
      change (str_eqb KW_HELP TextParser.S_HELP) with true. cbv iota.
      rewrite Hneq. cbn [negb]. rewrite Hfl. cbn [bind]. reflexivity.
  Qed.

  (* a type word: no whitespace of any kind, non-empty *)
  Definition word_ok (w : str) : Prop := w <> [] /\ Forall (fun c => is_space_uni c = false) w.

  Lemma rstrip_word w : word_ok w -> rstrip w = w.
  Proof.
    intros [Hne Hall]. destruct (@exists_last _ w Hne) as (p & d & ->). apply rstrip_p_ends.
    apply Forall_app in Hall as [_ Hd]. inversion Hd. assumption.
  Qed.

  Lemma step_type_line st n typ :
    n <> [] -> str_eqb n (st_name NUM st) = true -> word_ok typ ->
    step st (type_line n typ)
    = Ok ({| st_name := st_name NUM st; st_doc := st_doc NUM st; st_typ := typ; st_samples := st_samples NUM st;
             st_allowed := allowed_for typ (st_name NUM st) |}, []).
  Proof.
    intros Hne Heq Hw. unfold step_line, type_line.
    destruct (mname_tok_facts n Hne) as (Hskip & Hu & (p & d & Ep & Hd1 & Hd2) & Htne).
    rewrite strip_comment_line by (exists p, d; auto). rewrite (rstrip_word typ Hw).
    destruct Hw as [Hwne _]. destruct typ as [|t0 tr]; [congruence|].
    change (T_hash ++ SP :: KW_TYPE ++ SP :: mname_tok n ++ SP :: t0 :: tr)
      with ([HASH] ++ SP :: KW_TYPE ++ SP :: mname_tok n ++ SP :: t0 :: tr).
    cbn [app]. change (HASH =? HASH) with true. cbv iota.
    change (HASH :: SP :: KW_TYPE ++ SP :: mname_tok n ++ SP :: t0 :: tr)
      with (T_hash ++ SP :: KW_TYPE ++ SP :: mname_tok n ++ SP :: t0 :: tr).
    rewrite (split_comment4 KW_TYPE (mname_tok n) (t0 :: tr) skipws_TYPE Hskip ltac:(discriminate)). cbn [bind].
    rewrite (cand_of_tok n Hne). cbn [bind].
    change (str_eqb KW_TYPE TextParser.S_HELP) with false. cbv iota.
    change (str_eqb KW_TYPE TextParser.S_TYPE) with true. cbv iota.
    rewrite Heq. cbn [negb bind]. reflexivity.
  Qed.
End Lines.

(* ---------- a sample line inside a family ---------- *)
From V Require Import model.LineGrammar proofs.GrammarProofs.
From Coq Require Import Permutation.

Lemma token_last t : token_ok t -> exists p d, t = p ++ [d] /\ is_space_uni d = false.
Proof.
  intros [Hne Hall]. destruct (@exists_last _ t Hne) as (p & d & ->). exists p, d. split; [reflexivity|].
  apply Forall_app in Hall as [_ Hd]. inversion Hd as [|? ? [H _] _]. exact H.
Qed.

Lemma body_ends s : token_ok (go_string (s_value s)) ->
  (match s_ts_ms s with None => True | Some ms => token_ok (dec_of_Z ms) end) ->
  exists p d, go_string (s_value s) ++ ts_text s = p ++ [d] /\ is_space_uni d = false.
Proof.
  intros Hv Ht. unfold ts_text. destruct (s_ts_ms s) as [ms|].
  - destruct (token_last _ Ht) as (p & d & E & Hd). exists (go_string (s_value s) ++ SP :: p), d.
    split; [rewrite E; rewrite <- app_assoc; reflexivity|exact Hd].
  - rewrite app_nil_r. apply token_last. exact Hv.
Qed.


Lemma nlf_token t : token_ok t -> nlf t = 0%nat.
Proof.
  intros [_ Hall]. apply cnt_zero_iff. intro Hin. rewrite Forall_forall in Hall. destruct (Hall LF Hin) as [H _].
  vm_compute in H. discriminate.
Qed.

Lemma nlf_ltext kvs : nlf (ltext kvs) = 0%nat.
Proof.
  rewrite ltext_join. apply nlf_join; [reflexivity|]. intros x Hx. apply in_map_iff in Hx as (kv & <- & _).
  apply nlf_label_pair.
Qed.

Lemma sample_body_facts s body :
  token_ok (go_string (s_value s)) ->
  (match s_ts_ms s with None => True | Some ms => token_ok (dec_of_Z ms) end) ->
  text_sample_line s = body ++ [LF] ->
  strip body = body /\ (exists c r, body = c :: r /\ c <> HASH) /\ ~ In LF body.
Proof.
  intros Hv Ht Hb.
  destruct (text_sample_line_shape s) as (body' & Hb' & Hshape).
  assert (body' = body) by (rewrite Hb in Hb'; apply app_inv_tail in Hb'; congruence). subst body'.
  destruct (body_ends s Hv Ht) as (p & d & Ep & Hd).
  assert (Hts : nlf (ts_text s) = 0%nat).
  { unfold ts_text. destruct (s_ts_ms s) as [ms|]; [|reflexivity]. rewrite nlf_sp. apply nlf_token. exact Ht. }
  destruct Hshape as [[Hn ->]|[Hn ->]].
  - destruct (legacy_name_chars (s_name s) Hn) as (c & r & En & Hall).
    assert (Hc : name_rest c = true) by (inversion Hall; assumption).
    destruct (name_rest_plain c Hc) as (_ & _ & _ & _ & _ & _ & Hsp).
    split; [|split].
    + assert (Hlast : exists B, s_name s ++ match s_labels s with [] => [] | _ => LBRACE :: ltext (sort_kv (s_labels s)) ++ [RBRACE] end
                               ++ SP :: go_string (s_value s) ++ ts_text s = B ++ [d]).
      { exists (s_name s ++ match s_labels s with [] => [] | _ => LBRACE :: ltext (sort_kv (s_labels s)) ++ [RBRACE] end ++ SP :: p).
        rewrite Ep. repeat (cbn [app]; rewrite <- ?app_assoc). reflexivity. }
      destruct Hlast as [B HB]. rewrite HB. rewrite En in HB.
      apply strip_ends.
      * destruct B; discriminate.
      * intros c0 r0 E0. rewrite <- HB in E0. cbn [app] in E0. inversion E0; subst. exact Hsp.
      * intros p0 d0 E0. apply app_inj_tail in E0 as [_ <-]. exact Hd.
    + rewrite En. eexists _, _. split; [reflexivity|]. intro E; subst c. vm_compute in Hc. discriminate.
    + apply cnt_zero_iff. rewrite !cnt_app, (legacy_name_no_lf _ Hn), nlf_sp, cnt_app, (nlf_token _ Hv), Hts.
      destruct (s_labels s); [reflexivity|]. rewrite nlf_braces, nlf_ltext. reflexivity.
  - split; [|split].
    + assert (Hlast : exists B, LBRACE :: quote (escape (s_name s)) ++ rest_text (sort_kv (s_labels s))
                               ++ RBRACE :: SP :: go_string (s_value s) ++ ts_text s = LBRACE :: B ++ [d]).
      { exists (quote (escape (s_name s)) ++ rest_text (sort_kv (s_labels s)) ++ RBRACE :: SP :: p).
        rewrite Ep. repeat (cbn [app]; rewrite <- ?app_assoc). reflexivity. }
      destruct Hlast as [B HB]. rewrite HB. apply strip_delimited; [reflexivity|exact Hd].
    + eexists _, _. split; [reflexivity|discriminate].
    + apply cnt_zero_iff. cbn [cnt]. change (LBRACE =? LF) with false. cbv iota.
      rewrite !cnt_app, nlf_quote. fold (escape (s_name s)).
      assert (He : nlf (escape (s_name s)) = 0%nat) by (apply cnt_zero_iff, escape_no_lf).
      rewrite He. cbn [cnt]. change (RBRACE =? LF) with false. change (SP =? LF) with false. cbv iota.
      rewrite cnt_app, (nlf_token _ Hv), Hts.
      destruct (sort_kv (s_labels s)) as [|k0 kr]; [reflexivity|]. cbn [rest_text cnt]. change (COMMA =? LF) with false.
      cbv iota. rewrite nlf_ltext. reflexivity.
Qed.

(* ---------- blocks: HELP, TYPE, samples ---------- *)
Definition body_of (s : sample) : str := removelast (text_sample_line s).

Lemma body_of_spec s : text_sample_line s = body_of s ++ [LF].
Proof.
  destruct (text_sample_line_shape s) as (b & Hb & _). unfold body_of. rewrite Hb. rewrite removelast_last. reflexivity.
Qed.

Section Blocks.
  Variable NUM : Type.
  Variable parse_num parse_float : str -> option NUM.
  Variable div1000 : NUM -> res NUM.
  Variable val_of : sample -> NUM.
  Variable ts_of : sample -> option NUM.
  Notation step := (step_line false true NUM parse_num parse_float div1000 true).
  Notation p_lines := (run_lines false true NUM parse_num parse_float div1000 true).
  Notation flush_ := (flush false NUM).

  (* everything the round trip needs of one sample; the last three clauses are about CPython only *)
  Definition sample_ok (s : sample) : Prop :=
    Forall key_ok (map fst (s_labels s)) /\ NoDup (map fst (s_labels s)) /\
    token_ok (go_string (s_value s)) /\ parse_num (go_string (s_value s)) = Some (val_of s) /\
    ts_spec NUM parse_num div1000 s (ts_of s).

  Definition ps_of (s : sample) : psample NUM :=
    {| ps_name := s_name s; ps_labels := sort_kv (s_labels s); ps_value := val_of s; ps_ts := ts_of s |}.

  Lemma ts_spec_token s tsv : ts_spec NUM parse_num div1000 s tsv ->
    match s_ts_ms s with None => True | Some ms => token_ok (dec_of_Z ms) end.
  Proof. unfold ts_spec. destruct (s_ts_ms s); [intros [H _]; exact H|auto]. Qed.

  Lemma step_sample st s : sample_ok s -> mem_str (s_name s) (st_allowed NUM st) = true ->
    step st (body_of s)
    = Ok ({| st_name := st_name NUM st; st_doc := st_doc NUM st; st_typ := st_typ NUM st;
             st_samples := ps_of s :: st_samples NUM st; st_allowed := st_allowed NUM st |}, []).
  Proof.
    intros (Hk & Hnd & Hv & Hpv & Hts) Hal.
    destruct (sample_body_facts s (body_of s) Hv (ts_spec_token s _ Hts) (body_of_spec s)) as (Hstrip & (c & r & Eb & Hc) & _).
    destruct (text_sample_roundtrip NUM parse_num parse_float div1000 s (val_of s) (ts_of s) Hk Hnd Hv Hpv Hts)
      as (body & Hb & Hp).
    assert (body = body_of s) by (rewrite body_of_spec in Hb; apply app_inv_tail in Hb; congruence). subst body.
    unfold step_line. rewrite Hstrip. rewrite Eb at 1. destruct (N.eqb_spec c HASH); [contradiction|].
    rewrite Hp. cbn [bind ps_name]. rewrite Hal. reflexivity.
  Qed.

  Lemma run_samples ss : forall st more acc,
    Forall sample_ok ss -> Forall (fun s => mem_str (s_name s) (st_allowed NUM st) = true) ss ->
    p_lines st (map body_of ss ++ more) acc
    = p_lines {| st_name := st_name NUM st; st_doc := st_doc NUM st; st_typ := st_typ NUM st;
                 st_samples := rev (map ps_of ss) ++ st_samples NUM st; st_allowed := st_allowed NUM st |} more acc.
  Proof.
    induction ss as [|s ss IH]; intros st more acc Hok Hal.
    - cbn [map app rev]. destruct st; reflexivity.
    - inversion Hok as [|? ? Hs Hss]; subst. inversion Hal as [|? ? Ha Has]; subst.
      cbn [map app run_lines]. rewrite (step_sample st s Hs Ha). cbn [bind]. rewrite app_nil_r.
      rewrite IH; [|exact Hss|exact Has]. cbn [st_name st_doc st_typ st_samples st_allowed rev map].
      rewrite <- app_assoc. reflexivity.
  Qed.

  (* a block: the metadata of one (possibly munged) family name and its sample lines *)
  Record block := { b_name : str; b_doc : str; b_typ : str; b_samples : list sample }.
  Definition block_lines (b : block) : list str :=
    help_line (b_name b) (b_doc b) :: type_line (b_name b) (b_typ b) :: map body_of (b_samples b).
  Definition render_block (b : block) : str :=
    text_meta (b_name b) (b_doc b) (b_typ b) ++ flat_map text_sample_line (b_samples b).

  Lemma render_block_unlines b : render_block b = unlines (block_lines b).
  Proof.
    unfold render_block, block_lines, unlines. cbn [flat_map]. rewrite text_meta_lines_eq.
    assert (Hs : flat_map text_sample_line (b_samples b)
                 = flat_map (fun l : list char => l ++ [LF]) (map body_of (b_samples b))).
    { induction (b_samples b) as [|s ss IH]; [reflexivity|]. cbn [map flat_map]. rewrite body_of_spec at 1. rewrite IH. reflexivity. }
    rewrite Hs. repeat (cbn [app]; rewrite <- ?app_assoc). reflexivity.
  Qed.

  Definition block_ok (b : block) : Prop :=
    b_name b <> [] /\ word_ok (b_typ b) /\ Forall sample_ok (b_samples b) /\
    Forall (fun s => mem_str (s_name s) (allowed_for (b_typ b) (b_name b)) = true) (b_samples b).

  Definition st_of (b : block) : pstate NUM :=
    {| st_name := b_name b; st_doc := parsed_doc (b_doc b); st_typ := b_typ b;
       st_samples := rev (map ps_of (b_samples b)); st_allowed := allowed_for (b_typ b) (b_name b) |}.

  Lemma run_block st b more acc out :
    block_ok b -> str_eqb (b_name b) (st_name NUM st) = false -> flush_ st = Ok out ->
    p_lines st (block_lines b ++ more) acc = p_lines (st_of b) more (acc ++ out).
  Proof.
    intros (Hne & Hw & Hs & Ha) Hneq Hfl. unfold block_lines. cbn [app run_lines].
    rewrite (step_help_line NUM parse_num parse_float div1000 st (b_name b) (b_doc b) out Hne Hneq Hfl). cbn [bind].
    rewrite step_type_line; [|exact Hne|apply str_eqb_refl|exact Hw]. cbn [bind st_name st_doc st_samples].
    rewrite app_nil_r. rewrite run_samples; [|exact Hs|exact Ha].
    cbn [st_name st_doc st_typ st_samples st_allowed]. rewrite app_nil_r. reflexivity.
  Qed.
End Blocks.

(* ---------- documents: a sequence of blocks ---------- *)
Section Documents.
  Variable NUM : Type.
  Variable parse_num parse_float : str -> option NUM.
  Variable div1000 : NUM -> res NUM.
  Variable val_of : sample -> NUM.
  Variable ts_of : sample -> option NUM.
  Notation p_text := (text_parse false true NUM parse_num parse_float div1000 true).
  Notation p_lines := (run_lines false true NUM parse_num parse_float div1000 true).
  Notation flush_ := (flush false NUM).
  Notation block_ok := (block_ok NUM parse_num div1000 val_of ts_of).
  Notation st_of := (st_of NUM val_of ts_of).
  Notation ps_of := (ps_of NUM val_of ts_of).

  (* the family the parser builds from a block: Metric(name, help, type) with the counter munging of build_metric *)
  Definition fam_res (b : block) : res (pfamily NUM) :=
    build_metric false NUM (b_name b) (parsed_doc (b_doc b)) (b_typ b) (map ps_of (b_samples b)).

  (* consecutive blocks carry different names (a registry never exposes one name twice: C06) *)
  Fixpoint chain (prev : str) (bs : list block) : Prop :=
    match bs with [] => True | b :: r => str_eqb (b_name b) prev = false /\ chain (b_name b) r end.

  Lemma flush_st_of b : b_name b <> [] -> flush_ (st_of b) = (do m <- fam_res b; Ok [m]).
  Proof.
    intro Hne. unfold flush, st_of, fam_res. cbn [st_name st_doc st_typ st_samples].
    destruct (b_name b) eqn:E; [congruence|]. rewrite rev_involutive. reflexivity.
  Qed.

  Lemma run_blocks bs : forall st acc out fams,
    Forall block_ok bs -> chain (st_name NUM st) bs -> flush_ st = Ok out ->
    Forall2 (fun b f => fam_res b = Ok f) bs fams ->
    p_lines st (flat_map (block_lines) bs) acc = Ok (acc ++ out ++ fams).
  Proof.
    induction bs as [|b bs IH]; intros st acc out fams Hok Hch Hfl Hf.
    - inversion Hf; subst. cbn [flat_map run_lines]. rewrite Hfl. cbn [bind]. rewrite app_nil_r. reflexivity.
    - inversion Hok as [|? ? Hb Hbs]; subst. inversion Hf as [|? f ? fs Hfb Hfs]; subst.
      destruct Hch as [Hneq Hch]. cbn [flat_map].
      rewrite (run_block NUM parse_num parse_float div1000 val_of ts_of st b _ acc out Hb Hneq Hfl).
      assert (Hne : b_name b <> []) by (destruct Hb; assumption).
      rewrite (IH (st_of b) (acc ++ out) [f] fs Hbs Hch); [rewrite <- !app_assoc; reflexivity| |exact Hfs].
      rewrite (flush_st_of b Hne), Hfb. reflexivity.
  Qed.

  Lemma nlf_help_line n doc : nlf (help_line n doc) = 0%nat.
  Proof.
    unfold help_line, mname_tok. unfold T_hash. cbn [app cnt]. change (HASH =? LF) with false. change (SP =? LF) with false.
    cbv iota. rewrite !cnt_app. change (nlf KW_HELP) with 0%nat. cbn [cnt]. change (SP =? LF) with false. cbv iota.
    rewrite cnt_app, nlf_escape_metric_name. cbn [cnt]. change (SP =? LF) with false. cbv iota.
    rewrite nlf_help_escape. reflexivity.
  Qed.

  Lemma nlf_word w : word_ok w -> nlf w = 0%nat.
  Proof.
    intros [_ Hall]. apply cnt_zero_iff. intro Hin. rewrite Forall_forall in Hall. specialize (Hall LF Hin).
    vm_compute in Hall. discriminate.
  Qed.

  Lemma nlf_type_line n typ : word_ok typ -> nlf (type_line n typ) = 0%nat.
  Proof.
    intro Hw. unfold type_line, mname_tok. unfold T_hash. cbn [app cnt]. change (HASH =? LF) with false. change (SP =? LF) with false.
    cbv iota. rewrite !cnt_app. change (nlf KW_TYPE) with 0%nat. cbn [cnt]. change (SP =? LF) with false. cbv iota.
    rewrite cnt_app, nlf_escape_metric_name. cbn [cnt]. change (SP =? LF) with false. cbv iota.
    rewrite (nlf_word typ Hw). reflexivity.
  Qed.

  Lemma block_lines_no_lf b : block_ok b -> Forall (fun l => ~ In LF l) (block_lines b).
  Proof.
    intros (Hne & Hw & Hs & _). unfold block_lines.
    constructor; [apply cnt_zero_iff, nlf_help_line|].
    constructor; [apply cnt_zero_iff, nlf_type_line; exact Hw|].
    rewrite Forall_map. eapply Forall_impl; [|exact Hs]. intros s (Hk & Hnd & Hv & Hpv & Hts).
    destruct (sample_body_facts s (body_of s) Hv (ts_spec_token NUM parse_num div1000 s _ Hts) (body_of_spec s))
      as (_ & _ & H). exact H.
  Qed.

  (* L5: a document of blocks parses to one family per block, in order *)
  Theorem text_blocks_roundtrip bs fams :
    Forall block_ok bs -> chain [] bs ->
    Forall2 (fun b f => fam_res b = Ok f) bs fams ->
    p_text (flat_map render_block bs) = Ok fams.
  Proof.
    intros Hok Hch Hf.
    assert (Hdoc : flat_map render_block bs = unlines (flat_map block_lines bs)).
    { clear Hok Hch Hf. induction bs as [|b r IH]; [reflexivity|]. cbn [flat_map]. rewrite IH, render_block_unlines.
      unfold unlines. rewrite flat_map_app. reflexivity. }
    rewrite Hdoc, text_parse_unlines.
    - rewrite (run_blocks bs (st_init NUM) [] [] fams Hok Hch eq_refl Hf). reflexivity.
    - clear Hch Hf Hdoc. induction Hok as [|b r Hb _ IH]; [constructor|]. cbn [flat_map]. apply Forall_app. split; [|exact IH].
      apply block_lines_no_lf. exact Hb.
  Qed.
End Documents.

(* ---------- families as blocks: the exposition of a family is its main block followed by its trailing gauge blocks ---------- *)
Definition fam_bucket (f : family) (k : nat) : list sample :=
  filter (fun s => match om_suffix_of (f_name f) s with Some j => Nat.eqb j k | None => false end) (f_samples f).
Definition fam_main (f : family) : list sample :=
  filter (fun s => match om_suffix_of (f_name f) s with None => true | Some _ => false end) (f_samples f).
Definition trailing_block (f : family) (k : nat) (suffix : str) : list block :=
  match fam_bucket f k with
  | [] => []
  | ss => [{| b_name := f_name f ++ suffix; b_doc := f_doc f; b_typ := Expo.S_gauge; b_samples := ss |}]
  end.
Definition blocks_of (f : family) : list block :=
  {| b_name := fst (text_munge (f_name f) (f_type f)); b_doc := f_doc f;
     b_typ := snd (text_munge (f_name f) (f_type f)); b_samples := fam_main f |}
  :: trailing_block f 0 S_created ++ trailing_block f 1 S_gcount ++ trailing_block f 2 S_gsum.

Lemma text_family_blocks f : text_family f = flat_map render_block (blocks_of f).
Proof.
  unfold text_family, blocks_of, trailing_block, fam_bucket, fam_main.
  destruct (text_munge (f_name f) (f_type f)) as [mname mtype]. cbn [fst snd flat_map].
  unfold render_block at 1. cbn [b_name b_doc b_typ b_samples]. rewrite <- !app_assoc. do 2 f_equal.
  rewrite !flat_map_app.
  repeat match goal with
  | |- context [match filter ?p ?l with [] => _ | _ => _ end] => destruct (filter p l)
  end; cbn [flat_map]; unfold render_block; cbn [b_name b_doc b_typ b_samples];
    repeat (cbn [app flat_map]; rewrite ?app_nil_r, <- ?app_assoc); reflexivity.
Qed.

Theorem text_render_blocks fams : text_render fams = flat_map render_block (flat_map blocks_of fams).
Proof.
  unfold text_render. induction fams as [|f r IH]; [reflexivity|]. cbn [flat_map].
  rewrite flat_map_app, <- IH, text_family_blocks. reflexivity.
Qed.

(* ---------- what build_metric makes of a block: the documented name/type mapping ---------- *)
Section Munge.
  Variable NUM : Type.
  Variable val_of : sample -> NUM.
  Variable ts_of : sample -> option NUM.
  Notation fam_res := (fam_res NUM val_of ts_of).
  Notation ps_of := (ps_of NUM val_of ts_of).

  Lemma ends_with_app_total n : ends_with TextParser.S_total (n ++ TextParser.S_total) = true.
  Proof.
    unfold ends_with. rewrite rev_app_distr.
    generalize (rev n). intro r. vm_compute (rev TextParser.S_total). cbn [app starts_with].
    rewrite !N.eqb_refl. reflexivity.
  Qed.

  (* counter: the family gets its name back without _total, samples keep theirs *)
  Lemma fam_res_counter n doc ss : n <> [] ->
    fam_res {| b_name := n ++ TextParser.S_total; b_doc := doc; b_typ := TextParser.S_counter; b_samples := ss |}
    = Ok {| pf_name := n; pf_doc := parsed_doc doc; pf_type := TextParser.S_counter; pf_samples := map ps_of ss |}.
  Proof.
    intro Hne.
    assert (Hfn : firstn (length (n ++ TextParser.S_total) - 6) (n ++ TextParser.S_total) = n).
    { rewrite app_length. change (length TextParser.S_total) with 6%nat.
      replace (length n + 6 - 6)%nat with (length n) by lia. rewrite firstn_app, firstn_all, Nat.sub_diag.
      cbn [firstn]. rewrite app_nil_r. reflexivity. }
    unfold DocRoundTrip.fam_res, build_metric. cbn [b_name b_doc b_typ b_samples].
    change (str_eqb TextParser.S_counter TextParser.S_counter) with true. cbv iota.
    rewrite ends_with_app_total. unfold char in *. rewrite !Hfn.
    unfold validate_metric_name_utf8. destruct n; [congruence|]. cbn [bind].
    change (str_eqb TextParser.S_counter TextParser.S_untyped) with false. cbv iota.
    change (mem_str TextParser.S_counter METRIC_TYPES) with true. reflexivity.
  Qed.

  (* gauge, summary, histogram: name and type kept; untyped is reported as unknown *)
  Lemma fam_res_plain n doc typ ss : n <> [] ->
    str_eqb typ TextParser.S_counter = false -> str_eqb typ TextParser.S_untyped = false -> mem_str typ METRIC_TYPES = true ->
    fam_res {| b_name := n; b_doc := doc; b_typ := typ; b_samples := ss |}
    = Ok {| pf_name := n; pf_doc := parsed_doc doc; pf_type := typ; pf_samples := map ps_of ss |}.
  Proof.
    intros Hne Hc Hu Hm. unfold DocRoundTrip.fam_res, build_metric. cbn [b_name b_doc b_typ b_samples].
    rewrite Hc. unfold validate_metric_name_utf8. destruct n; [congruence|]. cbn [bind]. rewrite Hu, Hm. reflexivity.
  Qed.

  Lemma fam_res_untyped n doc ss : n <> [] ->
    fam_res {| b_name := n; b_doc := doc; b_typ := TextParser.S_untyped; b_samples := ss |}
    = Ok {| pf_name := n; pf_doc := parsed_doc doc; pf_type := TextParser.S_unknown; pf_samples := map ps_of ss |}.
  Proof.
    intro Hne. unfold DocRoundTrip.fam_res, build_metric. cbn [b_name b_doc b_typ b_samples].
    change (str_eqb TextParser.S_untyped TextParser.S_counter) with false. cbv iota.
    unfold validate_metric_name_utf8. destruct n; [congruence|]. cbn [bind].
    change (str_eqb TextParser.S_untyped TextParser.S_untyped) with true. cbv iota.
    change (mem_str TextParser.S_unknown METRIC_TYPES) with true. reflexivity.
  Qed.
End Munge.
