(* C04 L5, general part: the lines of ONE family of any type, read by the line loop from a state whose family in progress
   can be closed, lead to a state whose flush yields exactly that family (family_step); documents of several families of
   any types follow by induction (om_document_roundtrip).  What makes a family acceptable is stated abstractly here
   (family_acc: every sample is read back by _parse_sample, passes the per-sample checks of its type, the group
   bookkeeping accepts the sequence without dropping anything, build_metric's histogram check passes); the files
   OMSummaryRoundTrip.v, OMHistogramRoundTrip.v, OMInfoStateRoundTrip.v, OMGaugeCounterInst.v derive family_acc from
   hypotheses on the values alone. *)
From V Require Import lib.PyBase lib.Tac lib.PyStr model.Utils model.Validation model.Expo model.TextParser model.OMParser
  proofs.EscapeProofs proofs.ScanFacts proofs.TextParserTotal proofs.LabelRoundTrip proofs.SampleRoundTrip
  proofs.LineProofs proofs.DocRoundTrip proofs.OMLabelRoundTrip proofs.OMSampleRoundTrip proofs.OMDocRoundTrip
  proofs.OMCounterRoundTrip.
From Coq Require Import Permutation.
Ltac Zify.zify_post_hook ::= Z.to_euclidean_division_equations.
Open Scope N_scope.

(* the sample names build_metric reserves for a family: name + each suffix of its type, and the name itself *)
Definition fnames (n typ : str) : list str :=
  map (fun sfx => n ++ sfx) (om_nodup_str (om_type_suffixes typ [] ++ [[]])).
(* the sample names the line loop attaches to the family *)
Definition allowed_names (n typ : str) : list str := map (fun sfx => n ++ sfx) (om_type_suffixes typ [[]]).

Lemma metric_type_cases typ : mem_str typ OM_METRIC_TYPES = true ->
  typ = OM_counter \/ typ = OM_gauge \/ typ = OM_summary \/ typ = OM_histogram \/ typ = OM_gaugehistogram \/
  typ = OM_unknown \/ typ = OM_info \/ typ = OM_stateset.
Proof.
  intro H. apply mem_str_In in H. unfold OM_METRIC_TYPES in H. cbn [In] in H.
  destruct H as [H|[H|[H|[H|[H|[H|[H|[H|[]]]]]]]]]; subst; tauto.
Qed.

Lemma metric_type_facts typ : mem_str typ OM_METRIC_TYPES = true -> nlf typ = 0%nat /\ str_eqb typ OM_untyped = false.
Proof.
  intro H. destruct (metric_type_cases typ H) as [->|[->|[->|[->|[->|[->|[->| ->]]]]]]]; split; reflexivity.
Qed.

Section Gen.
  Variable fix_nhkeys fix_nhsfx fix_tsmix fix_isnan fix_tsexp fix_sname : bool.
  Variable NUM : Type.
  Variable parse_num parse_float : str -> option NUM.
  Variable parse_int : str -> option Z.
  Variable num_lt num_eqb : NUM -> NUM -> bool.
  Variable num_isinf num_integral num_huge : NUM -> bool.
  Variable num_zero num_one num_inf : NUM.
  Variable ts_float : Z -> Z -> option NUM.
  Variable is_word is_space_re is_digit_re : char -> bool.
  Variable val_of : sample -> NUM.
  Variable ts_of : sample -> option (om_tsv NUM).
  Variable ex_of : sample -> option (om_exemplar NUM).

  Notation step := (om_step_line false true fix_nhkeys fix_nhsfx fix_tsmix fix_isnan true true fix_tsexp fix_sname NUM
                      parse_num parse_float parse_int num_lt num_eqb num_isinf num_integral num_huge num_zero num_one num_inf
                      ts_float is_word is_space_re is_digit_re).
  Notation run := (om_run_lines false true fix_nhkeys fix_nhsfx fix_tsmix fix_isnan true true fix_tsexp fix_sname NUM
                      parse_num parse_float parse_int num_lt num_eqb num_isinf num_integral num_huge num_zero num_one num_inf
                      ts_float is_word is_space_re is_digit_re).
  Notation p_text := (om_parse false true fix_nhkeys fix_nhsfx fix_tsmix fix_isnan true true fix_tsexp fix_sname NUM
                      parse_num parse_float parse_int num_lt num_eqb num_isinf num_integral num_huge num_zero num_one num_inf
                      ts_float is_word is_space_re is_digit_re).
  Notation p_sample := (om_parse_sample false true true fix_tsexp fix_sname NUM parse_num parse_float parse_int num_eqb num_isinf).
  Notation p_nh := (om_parse_nh_sample false true fix_nhkeys fix_nhsfx NUM parse_float parse_int is_word is_space_re is_digit_re).
  Notation meta := (om_meta_line false true true NUM parse_float num_lt num_eqb num_zero num_inf).
  Notation flush_ := (om_flush false NUM parse_float num_lt num_eqb num_zero num_inf).
  Notation build := (om_build_metric false NUM parse_float num_lt num_eqb num_zero num_inf).
  Notation check_hist := (om_check_histogram NUM parse_float num_lt num_eqb num_zero num_inf).
  Notation group_step := (om_group_step fix_tsmix NUM num_lt num_eqb ts_float).
  Notation pre_checks := (om_pre_checks NUM parse_float num_lt num_eqb num_integral num_zero num_one num_inf).
  Notation post_checks := (om_post_checks fix_isnan NUM num_lt num_eqb num_huge num_zero num_one).

  (* the parsed form of a sample *)
  Definition g_ps_of (s : sample) : om_sample NUM :=
    {| os_name := s_name s; os_labels := Some (sort_kv (s_labels s)); os_value := Some (val_of s); os_ts := ts_of s;
       os_ex := ex_of s; os_nh := None |}.

  (* the hypotheses of L4 *)
  Definition read_ok (s : sample) : Prop :=
    Forall key_ok (map fst (s_labels s)) /\ NoDup (map fst (s_labels s)) /\
    om_token_ok (go_string (s_value s)) /\ parse_num (go_string (s_value s)) = Some (val_of s) /\
    ts_reads fix_tsexp NUM parse_float parse_int num_eqb num_isinf (s_ts_om s) (ts_of s) /\
    ex_reads fix_tsexp NUM parse_num parse_float parse_int num_eqb num_isinf (s_ex s) (ex_of s).

  (* the exposition writes the exemplar (it refuses one on a sample that may not carry it) *)
  Definition ex_writable (typ n : str) (s : sample) : Prop :=
    s_ex s = None \/ is_valid_exemplar_metric typ n s = true.

  Lemma gen_body_facts typ n s : read_ok s -> ex_writable typ n s ->
    (exists c r, om_body s = c :: r /\ c <> HASH) /\ ~ In LF (om_body s) /\
    p_sample (om_body s) = Ok (g_ps_of s).
  Proof.
    intros (Hk & Hnd & Hv & Hpv & Hts & Hex) Hw. split; [|split].
    - unfold om_body. pose proof (om_head_cases s) as H. cbv zeta in H.
      destruct (is_valid_legacy_metric_name (s_name s)) eqn:E; rewrite H.
      + destruct (legacy_name_chars (s_name s) E) as (c & r & En & Hall).
        assert (Hc : name_rest c = true) by (inversion Hall; assumption).
        rewrite En. destruct (s_labels s); cbn [app]; eexists _, _; (split; [reflexivity|]);
          intro Ec; subst c; vm_compute in Hc; discriminate.
      + cbn [app]. eexists _, _. split; [reflexivity|discriminate].
    - apply cnt_zero_iff. unfold om_body.
      rewrite !cnt_app, nlf_om_head, (nlf_om_token _ Hv), (nlf_ex_text _ _ _ _ _ _ _ _ _ Hex). cbn [cnt].
      change (SP =? LF) with false. cbv iota.
      unfold OMSampleRoundTrip.ts_text. red in Hts. destruct (s_ts_om s) as [t|]; [|reflexivity].
      destruct Hts as [Ht _]. rewrite nlf_sp, (nlf_om_token _ Ht). reflexivity.
    - assert (Hline : Expo.om_sample_line true typ n s = Ok (om_body s ++ [LF])).
      { unfold Expo.om_sample_line. cbv zeta.
        assert (Hexs : (match s_ex s with
                        | None => Ok []
                        | Some e => if is_valid_exemplar_metric typ n s then Ok (exemplar_str true e) else Err ValueError
                        end) = Ok (ex_text (s_ex s))).
        { destruct (s_ex s) as [e|] eqn:Ee; [|reflexivity]. destruct Hw as [Hw|Hw]; [congruence|]. rewrite Hw. reflexivity. }
        rewrite Hexs. cbn [bind]. f_equal. unfold om_body. exact (line_assoc (om_head s) _ _ _). }
      destruct (om_sample_roundtrip fix_tsexp fix_sname NUM parse_num parse_float parse_int num_eqb num_isinf
                  typ n s (om_body s ++ [LF]) (val_of s) (ts_of s) (ex_of s) Hk Hnd Hv Hpv Hts Hex Hline)
        as (body & Hb & Hp).
      apply app_inv_tail in Hb. subst body. exact Hp.
  Qed.

  (* ---------- the group bookkeeping, on its own ---------- *)
  (* the fields of the parser state the group bookkeeping reads and writes *)
  Record gst := { g_cur : option (list (str * str)); g_seen : list (list (str * str)); g_gts : option (om_tsv NUM);
                  g_sids : list (str * list (str * str)) }.
  Definition gst_init : gst := {| g_cur := None; g_seen := []; g_gts := None; g_sids := [] |}.
  Definition st_of_gst (typ : str) (g : gst) : om_st NUM :=
    {| st_name := None; st_allowed := []; st_eof := false; st_seen := []; st_typ := Some typ; st_doc := None;
       st_unit := None; st_group := g_cur g; st_seen_groups := g_seen g; st_gts := g_gts g; st_gts_samples := g_sids g;
       st_samples := [] |}.
  (* one step of _group_for_sample / grouping / duplicate suppression: None when the parser rejects the sample or drops it *)
  Definition gstep (typ n : str) (g : gst) (smp : om_sample NUM) : option gst :=
    match group_step (st_of_gst typ g) n smp with
    | Ok st' => match st_samples st' with
                | [] => None
                | _ :: _ => Some {| g_cur := st_group st'; g_seen := st_seen_groups st'; g_gts := st_gts st';
                                    g_sids := st_gts_samples st' |}
                end
    | Err _ => None
    end.
  Fixpoint grun (typ n : str) (g : gst) (l : list sample) : option gst :=
    match l with
    | [] => Some g
    | s :: r => match gstep typ n g (g_ps_of s) with Some g' => grun typ n g' r | None => None end
    end.

  Lemma group_step_transfer (st : om_st NUM) typ n g smp g' :
    st_typ st = Some typ -> st_group st = g_cur g -> st_seen_groups st = g_seen g -> st_gts st = g_gts g ->
    st_gts_samples st = g_sids g ->
    gstep typ n g smp = Some g' ->
    group_step st n smp
    = Ok {| st_name := st_name st; st_allowed := st_allowed st; st_eof := st_eof st;
            st_seen := st_seen st; st_typ := st_typ st; st_doc := st_doc st; st_unit := st_unit st;
            st_group := g_cur g'; st_seen_groups := g_seen g'; st_gts := g_gts g'; st_gts_samples := g_sids g';
            st_samples := smp :: st_samples st |}.
  Proof.
    intros Htyp Hcur Hsg Hgts Hsids H. unfold gstep, om_group_step in *.
    cbn [st_of_gst st_typ st_group st_seen_groups st_gts st_gts_samples st_samples st_name st_allowed st_eof st_seen st_doc
         st_unit] in H.
    rewrite Htyp, Hcur, Hsg, Hgts, Hsids. cbv zeta in *.
    destruct (om_group_for_sample smp n typ) as [[gd|]|e]; cbn [bind] in *; try discriminate.
    match type of H with context [if ?c then Err ValueError else _] => destruct c end; [discriminate|].
    match type of H with context [bind ?m _] => destruct m as [gs|e] end; cbn [bind] in *; [|discriminate].
    destruct (om_labels_of smp) as [labels|e]; cbn [bind] in *; [|discriminate].
    cbn [st_samples st_group st_seen_groups st_gts st_gts_samples] in H.
    match type of H with context [if ?c then [smp] else []] => destruct c end; [|discriminate].
    inversion H. reflexivity.
  Qed.

  (* ---------- one sample line inside a family ---------- *)
  Definition sample_acc (typ n : str) (s : sample) : Prop :=
    read_ok s /\ ex_writable typ n s /\
    mem_str (s_name s) (allowed_names n typ) = true /\
    pre_checks n (Some typ) (g_ps_of s) = Ok tt /\
    post_checks n (Some typ) (g_ps_of s) = Ok tt /\
    (str_eqb typ OM_histogram = true -> p_nh (om_body s) = Ok None).

  Definition GInv (seen : list str) (doc unit : option str) (typ n : str) (st : om_st NUM) (done : list sample) (g : gst) : Prop :=
    st_name st = Some n /\ st_allowed st = allowed_names n typ /\ st_eof st = false /\ st_seen st = seen /\
    st_typ st = Some typ /\ st_doc st = doc /\ st_unit st = unit /\
    st_samples st = rev (map g_ps_of done) /\
    st_group st = g_cur g /\ st_seen_groups st = g_seen g /\ st_gts st = g_gts g /\ st_gts_samples st = g_sids g.

  Lemma step_gen_sample seen doc unit typ n st done g g' s :
    GInv seen doc unit typ n st done g -> sample_acc typ n s -> gstep typ n g (g_ps_of s) = Some g' ->
    exists st', step st (om_body s) = Ok (st', []) /\ GInv seen doc unit typ n st' (done ++ [s]) g'.
  Proof.
    intros (Hname & Hal & Heof & Hseen & Htyp & Hdoc & Hunit & Hsm & Hcur & Hsg & Hgts & Hsids)
           (Hr & Hw & Hmem & Hpre & Hpost & Hnh) Hg.
    destruct (gen_body_facts typ n s Hr Hw) as ((c & r & Eb & Hc) & _ & Hp).
    assert (Hgs := group_step_transfer st typ n g (g_ps_of s) g' Htyp Hcur Hsg Hgts Hsids Hg).
    eexists. split.
    - unfold om_step_line. rewrite Heof.
      assert (Hne : str_eqb (om_body s) OM_EOF = false).
      { rewrite Eb. change OM_EOF with (HASH :: [32; 69; 79; 70]). cbn [str_eqb].
        destruct (N.eqb_spec c HASH); [contradiction|]. reflexivity. }
      rewrite Hne. rewrite Eb at 1. destruct (N.eqb_spec c HASH); [contradiction|].
      unfold OMParser.om_sample_line, om_read_sample. rewrite Htyp.
      change (om_typ_is (Some typ) OM_histogram) with (str_eqb typ OM_histogram).
      assert (Hread : (if str_eqb typ OM_histogram
                       then do r0 <- p_nh (om_body s);
                            match r0 with
                            | Some s0 => Ok (s0, true)
                            | None => do s0 <- p_sample (om_body s); Ok (s0, false)
                            end
                       else do s0 <- p_sample (om_body s); Ok (s0, false)) = Ok (g_ps_of s, false)).
      { destruct (str_eqb typ OM_histogram) eqn:Eh; [rewrite (Hnh eq_refl); cbn [bind]|]; rewrite Hp; reflexivity. }
      rewrite Hread. cbn [bind]. unfold om_enter_family. cbn [os_name g_ps_of]. rewrite Hal, Hmem. cbn [negb andb bind].
      cbv beta iota. rewrite Hname, Htyp, Hpre. cbn [bind negb]. rewrite Hgs. cbn [bind]. rewrite Hpost. cbn [bind].
      reflexivity.
    - unfold GInv. cbn [st_name st_allowed st_eof st_seen st_typ st_doc st_unit st_samples st_seen_groups st_group st_gts
                          st_gts_samples].
      repeat split; auto. rewrite map_app, rev_app_distr, Hsm. reflexivity.
  Qed.

  Lemma run_gen_samples seen doc unit typ n ss : forall st done g gf more acc,
    GInv seen doc unit typ n st done g -> Forall (sample_acc typ n) ss -> grun typ n g ss = Some gf ->
    exists st', GInv seen doc unit typ n st' (done ++ ss) gf /\ run st (map om_body ss ++ more) acc = run st' more acc.
  Proof.
    induction ss as [|s ss IH]; intros st done g gf more acc HI Hok Hg.
    - cbn [grun] in Hg. inversion Hg; subst. exists st. rewrite app_nil_r. split; [exact HI|reflexivity].
    - inversion Hok as [|? ? Hs Hss]; subst. cbn [grun] in Hg.
      destruct (gstep typ n g (g_ps_of s)) as [g1|] eqn:E1; [|discriminate].
      destruct (step_gen_sample seen doc unit typ n st done g g1 s HI Hs E1) as (st1 & Hst & HI1).
      destruct (IH st1 (done ++ [s]) g1 gf more (acc ++ []) HI1 Hss Hg) as (st2 & HI2 & Hrun).
      exists st2. rewrite <- app_assoc in HI2. cbn [app] in HI2. split; [exact HI2|].
      cbn [map app om_run_lines]. rewrite Hst. cbn [bind]. rewrite Hrun, app_nil_r. reflexivity.
  Qed.

  (* ---------- build_metric ---------- *)
  Definition unit_ok (f : family) : Prop :=
    f_unit f = [] \/ (ends_with (USCORE :: f_unit f) (f_name f) = true /\
                      str_eqb (f_type f) OM_info = false /\ str_eqb (f_type f) OM_stateset = false).

  Definition gfam_of (f : family) : om_family NUM :=
    {| of_name := f_name f; of_doc := f_doc f; of_type := f_type f; of_unit := f_unit f;
       of_samples := map g_ps_of (f_samples f) |}.

  Lemma build_gen seen n doc typ unit samples :
    n <> [] -> mem_str typ OM_METRIC_TYPES = true ->
    existsb (fun x => mem_str x seen) (fnames n typ) = false ->
    (match unit with
     | None => True
     | Some u => u = [] \/ (ends_with (USCORE :: u) n = true /\ str_eqb typ OM_info = false /\ str_eqb typ OM_stateset = false)
     end) ->
    ((str_eqb typ OM_histogram || str_eqb typ OM_gaugehistogram) = true -> check_hist samples n = Ok tt) ->
    build seen n (Some doc) (Some typ) unit samples
    = Ok ({| of_name := n; of_doc := doc; of_type := typ;
             of_unit := match unit with None => [] | Some u => u end; of_samples := samples |}, seen ++ fnames n typ).
  Proof.
    intros Hne Hty Hseen Hu Hh. unfold om_build_metric. cbv zeta. fold (fnames n typ). rewrite Hseen.
    assert (Hv : om_validate_metric_name false n = Ok tt).
    { unfold om_validate_metric_name, validate_metric_name_utf8. destruct n; [congruence|reflexivity]. }
    assert (Hhist : (if str_eqb typ OM_histogram || str_eqb typ OM_gaugehistogram then check_hist samples n else Ok tt) = Ok tt).
    { destruct (str_eqb typ OM_histogram || str_eqb typ OM_gaugehistogram); [apply Hh; reflexivity|reflexivity]. }
    rewrite Hhist, Hv, Hty. cbn [bind].
    destruct unit as [[|u0 ur]|]; cbn [andb negb]; try reflexivity.
    destruct Hu as [Hu|(Hu1 & Hu2 & Hu3)]; [discriminate|]. rewrite Hu1, Hu2, Hu3. reflexivity.
  Qed.

  (* ---------- one family ---------- *)
  Definition family_acc (f : family) : Prop :=
    f_name f <> [] /\ mem_str (f_type f) OM_METRIC_TYPES = true /\ unit_ok f /\
    Forall (sample_acc (f_type f) (f_name f)) (f_samples f) /\
    (exists gf, grun (f_type f) (f_name f) gst_init (f_samples f) = Some gf) /\
    ((str_eqb (f_type f) OM_histogram || str_eqb (f_type f) OM_gaugehistogram) = true ->
     check_hist (map g_ps_of (f_samples f)) (f_name f) = Ok tt).

  Lemma gen_family_lines_no_lf f : family_acc f -> Forall (fun l => ~ In LF l) (om_family_lines_of f).
  Proof.
    intros (Hne & Hty & _ & Hok & _).
    assert (Hmn : nlf (mname_tok (f_name f)) = 0%nat) by apply nlf_escape_metric_name.
    destruct (metric_type_facts _ Hty) as [Htl _].
    unfold om_family_lines_of. constructor; [|constructor; [|apply Forall_app; split]].
    - apply nlf_meta_line; [reflexivity|exact Hmn|apply nlf_escape].
    - apply nlf_meta_line; [reflexivity|exact Hmn|exact Htl].
    - unfold om_unit_lines. destruct (f_unit f); [constructor|]. constructor; [|constructor].
      apply nlf_meta_line; [reflexivity|exact Hmn|apply nlf_escape].
    - rewrite Forall_forall in *. intros l Hl. apply in_map_iff in Hl as (s & <- & Hs).
      destruct (Hok s Hs) as (Hr & Hw & _).
      destruct (gen_body_facts _ _ s Hr Hw) as (_ & H & _). exact H.
  Qed.

  (* the lines of one family, read in a state whose family in progress (if any) can be closed *)
  Theorem family_step st f more acc out seen :
    family_acc f ->
    st_eof st = false -> flush_ st = Ok (out, seen) ->
    om_opt_str_eqb (st_name st) (f_name f) = false ->
    existsb (fun x => mem_str x seen) (fnames (f_name f) (f_type f)) = false ->
    exists st', run st (om_family_lines_of f ++ more) acc = run st' more (acc ++ out) /\
      st_eof st' = false /\ st_name st' = Some (f_name f) /\
      flush_ st' = Ok ([gfam_of f], seen ++ fnames (f_name f) (f_type f)).
  Proof.
    intros (Hne & Hty & Hun & Hok & (gf & Hg) & Hh) Heof Hfl Hneq Hnew.
    destruct (metric_type_facts _ Hty) as [_ Hunt].
    set (n := f_name f) in *. set (typ := f_type f) in *.
    unfold om_family_lines_of. fold n typ. cbn [app om_run_lines].
    rewrite step_help by exact Heof.
    rewrite (meta_help NUM parse_float num_lt num_eqb num_zero num_inf st n (f_doc f) out seen Hne Hneq Hfl).
    cbn [bind app].
    rewrite step_type by exact Heof.
    rewrite meta_type by (try reflexivity; assumption).
    cbn [bind app st_name st_allowed st_eof st_seen st_typ st_doc st_unit st_group st_seen_groups st_gts st_gts_samples st_samples].
    fold (allowed_names n typ). rewrite (app_nil_r (acc ++ out)).
    destruct (f_unit f) as [|u0 ur] eqn:Eu.
    - cbn [om_unit_lines app].
      match goal with |- context [@Build_om_st ?a ?b ?c ?d ?e ?f0 ?g ?h ?i ?j ?k ?l ?m] =>
        set (st2 := @Build_om_st a b c d e f0 g h i j k l m) end.
      assert (HI : GInv seen (Some (f_doc f)) None typ n st2 [] gst_init).
      { subst st2. unfold GInv. cbn [st_name st_allowed st_eof st_seen st_typ st_doc st_unit st_samples st_seen_groups st_group
                                       st_gts st_gts_samples gst_init g_cur g_seen g_gts g_sids]. repeat split; auto. }
      destruct (run_gen_samples seen (Some (f_doc f)) None typ n (f_samples f) st2 [] gst_init gf more (acc ++ out) HI Hok Hg)
        as (st3 & HI3 & Hrun).
      exists st3. split; [exact Hrun|].
      destruct HI3 as (Hname & Hal & Heof3 & Hseen & Htyp & Hdoc & Hunit & Hsm & _).
      split; [exact Heof3|]. split; [exact Hname|]. unfold om_flush.
      rewrite Hname, Hseen, Hdoc, Htyp, Hunit, Hsm. cbn [app]. rewrite rev_involutive.
      pose proof (build_gen seen n (f_doc f) typ None (map g_ps_of (f_samples f)) Hne Hty Hnew I Hh) as HB.
      unfold str, char in *. rewrite HB. unfold gfam_of. fold n typ. rewrite Eu. reflexivity.
    - cbn [om_unit_lines app om_run_lines].
      rewrite step_unit by exact Heof.
      rewrite meta_unit by (try reflexivity; exact Hne).
      cbn [bind app st_name st_allowed st_eof st_seen st_typ st_doc st_unit st_group st_seen_groups st_gts st_gts_samples st_samples].
      rewrite (app_nil_r (acc ++ out)).
      match goal with |- context [@Build_om_st ?a ?b ?c ?d ?e ?f0 ?g ?h ?i ?j ?k ?l ?m] =>
        set (st2 := @Build_om_st a b c d e f0 g h i j k l m) end.
      assert (HI : GInv seen (Some (f_doc f)) (Some (u0 :: ur)) typ n st2 [] gst_init).
      { subst st2. unfold GInv. cbn [st_name st_allowed st_eof st_seen st_typ st_doc st_unit st_samples st_seen_groups st_group
                                       st_gts st_gts_samples gst_init g_cur g_seen g_gts g_sids]. repeat split; auto. }
      destruct (run_gen_samples seen (Some (f_doc f)) (Some (u0 :: ur)) typ n (f_samples f) st2 [] gst_init gf more (acc ++ out)
                  HI Hok Hg) as (st3 & HI3 & Hrun).
      exists st3. split; [exact Hrun|].
      destruct HI3 as (Hname & Hal & Heof3 & Hseen & Htyp & Hdoc & Hunit & Hsm & _).
      split; [exact Heof3|]. split; [exact Hname|]. unfold om_flush.
      rewrite Hname, Hseen, Hdoc, Htyp, Hunit, Hsm. cbn [app]. rewrite rev_involutive.
      assert (Hu' : u0 :: ur = [] \/ (ends_with (USCORE :: u0 :: ur) n = true /\ str_eqb typ OM_info = false /\
                                      str_eqb typ OM_stateset = false)).
      { rewrite <- Eu. exact Hun. }
      pose proof (build_gen seen n (f_doc f) typ (Some (u0 :: ur)) (map g_ps_of (f_samples f)) Hne Hty Hnew Hu' Hh) as HB.
      unfold str, char in *. rewrite HB. unfold gfam_of. fold n typ. rewrite Eu. reflexivity.
  Qed.

  (* ---------- documents ---------- *)
  (* no sample name reserved by one family is reserved by another *)
  Definition names_apart (f g : family) : Prop :=
    forall x, In x (fnames (f_name f) (f_type f)) -> ~ In x (fnames (f_name g) (f_type g)).

  Lemma fnames_self n typ : In (n ++ []) (fnames n typ).
  Proof.
    unfold fnames. apply in_map. assert (G : forall l x, In x l -> In x (om_nodup_str l)).
    { induction l as [|y l IH]; intros x Hx; [destruct Hx|]. cbn [om_nodup_str]. destruct Hx as [->|Hx].
      - destruct (mem_str x l) eqn:E; [apply IH; apply mem_str_In; exact E|left; reflexivity].
      - destruct (mem_str y l); [apply IH; exact Hx|right; apply IH; exact Hx]. }
    apply G. apply in_or_app. right. left. reflexivity.
  Qed.

  Lemma existsb_mem_false (seen l : list str) : (forall x, In x l -> ~ In x seen) -> existsb (fun x => mem_str x seen) l = false.
  Proof.
    induction l as [|y l IH]; intro H; [reflexivity|]. cbn [existsb].
    destruct (mem_str y seen) eqn:E; [apply mem_str_In in E; exfalso; apply (H y); [left; reflexivity|exact E]|].
    apply IH. intros x Hx. apply H. right. exact Hx.
  Qed.

  Lemma run_gen_families fams : forall st acc out seen,
    Forall family_acc fams -> ForallOrdPairs names_apart fams ->
    st_eof st = false -> flush_ st = Ok (out, seen) ->
    (forall f, In f fams -> om_opt_str_eqb (st_name st) (f_name f) = false /\
                            forall x, In x (fnames (f_name f) (f_type f)) -> ~ In x seen) ->
    run st (flat_map om_family_lines_of fams ++ [S_EOF]) acc = Ok (acc ++ out ++ map gfam_of fams).
  Proof.
    induction fams as [|f fs IH]; intros st acc out seen Hok Hap Heof Hfl Hnew.
    - cbn [flat_map app map]. rewrite app_nil_r. eapply run_eof; eauto.
    - inversion Hok as [|? ? Hf Hfs]; subst. inversion Hap as [|? ? Hfa Hap']; subst.
      destruct (Hnew f (or_introl eq_refl)) as [Hn1 Hn2].
      cbn [flat_map]. rewrite <- app_assoc.
      destruct (family_step st f (flat_map om_family_lines_of fs ++ [S_EOF]) acc out seen Hf Heof Hfl Hn1
                  (existsb_mem_false _ _ Hn2)) as (st' & Hrun & Heof' & Hname' & Hfl').
      rewrite Hrun. rewrite (IH st' (acc ++ out) [gfam_of f] _ Hfs Hap' Heof' Hfl').
      + cbn [map app]. rewrite <- !app_assoc. reflexivity.
      + intros g Hg. rewrite Hname'. cbn [om_opt_str_eqb]. rewrite Forall_forall in Hfa. specialize (Hfa g Hg).
        split.
        * apply str_eqb_neq. intro E. apply (Hfa (f_name f ++ [])); [apply fnames_self|]. rewrite E. apply fnames_self.
        * intros x Hx Hin. apply in_app_or in Hin as [Hin|Hin].
          -- destruct (Hnew g (or_intror Hg)) as [_ H2]. apply (H2 x Hx Hin).
          -- apply (Hfa x Hin Hx).
  Qed.

  (* C04 L5: a document of families of any types whose reserved names do not clash, and the end marker *)
  Theorem om_document_roundtrip fams text :
    Forall family_acc fams -> ForallOrdPairs names_apart fams ->
    om_render true fams = Ok text ->
    p_text text = Ok (map gfam_of fams).
  Proof.
    intros Hok Hap Hr. apply om_render_all_unlines in Hr. subst text.
    assert (Hlf : Forall (fun l => ~ In LF l) (flat_map om_family_lines_of fams ++ [S_EOF])).
    { apply Forall_app. split; [|repeat constructor; vm_compute; intuition discriminate].
      rewrite Forall_forall in *. intros l Hl. apply in_flat_map in Hl as (f & Hf & Hl).
      pose proof (gen_family_lines_no_lf f (Hok f Hf)) as H. rewrite Forall_forall in H. apply H. exact Hl. }
    unfold om_parse, om_lines. rewrite (split_unlines _ Hlf). rewrite rev_app_distr. cbn [rev app]. rewrite rev_involutive.
    rewrite (run_gen_families fams om_st_init [] [] [] Hok Hap eq_refl eq_refl); [reflexivity|].
    intros f _. split; [reflexivity|]. intros x _ [].
  Qed.
End Gen.
