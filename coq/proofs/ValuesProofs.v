(* Proofs about model/Values.v (C09). *)
From V Require Import lib.PyBase lib.Tac model.Multiproc model.Values model.ValuesSpec proofs.MultiprocProofs.
Ltac Zify.zify_post_hook ::= Z.to_euclidean_division_equations.
Open Scope N_scope.

Lemma prefix_eqb_eq a b : prefix_eqb a b = true <-> a = b.
Proof.
  destruct a as [a1 a2], b as [b1 b2]; unfold prefix_eqb; cbn [fst snd].
  rewrite andb_true_iff, !str_eqb_eq. split; [intros [-> ->]; reflexivity | intros H; inversion H; auto].
Qed.
Lemma fname_eqb_eq a b : fname_eqb a b = true <-> a = b.
Proof.
  destruct a as [a1 a2], b as [b1 b2]; unfold fname_eqb; cbn [fst snd].
  rewrite andb_true_iff, prefix_eqb_eq, str_eqb_eq. split; [intros [-> ->]; reflexivity | intros H; inversion H; auto].
Qed.
Lemma eqb_refl_of {K} (keq : K -> K -> bool) (H : forall a b, keq a b = true <-> a = b) a : keq a a = true.
Proof. apply H; reflexivity. Qed.
Lemma eqb_false_of {K} (keq : K -> K -> bool) (H : forall a b, keq a b = true <-> a = b) a b : a <> b -> keq a b = false.
Proof. intros Hn. destruct (keq a b) eqn:E; [apply H in E; contradiction | reflexivity]. Qed.

Section VP.
  Variable F : Type.
  Variable fzero : F.
  Variable fadd : F -> F -> F.
  Variable feqb : F -> F -> bool.

  Notation cell := (cell F).
  Notation fs := (fs F).
  Notation value := (value F).
  Notation state := (state F).
  Notation op := (op F).
  Notation fs_cell := (fs_cell F).
  Notation fs_open := (fs_open F).
  Notation fs_read := (fs_read F fzero).
  Notation fs_write := (fs_write F fzero).
  Notation init_key := (init_key F fzero).
  Notation coz := (cell_or_zero F fzero).
  Notation reset := (reset F fzero).
  Notation reset_all := (reset_all F fzero).
  Notation check_pid := (check_pid F fzero).
  Notation step := (step F fzero fadd feqb).
  Notation run := (run F fzero fadd feqb).
  Notation vkey v := (p_key (v_params F v)).

  Lemma ff_set {V} (d : assoc fname V) fn c fn' :
    d_find fname_eqb (d_set fname_eqb d fn c) fn' = if fname_eqb fn' fn then Some c else d_find fname_eqb d fn'.
  Proof. exact (d_find_set fname_eqb PT (L_sym _ fname_eqb_eq) (L_trans _ fname_eqb_eq) d fn c fn' (PK_T _) I I). Qed.
  Lemma kk_set {V} (d : assoc key V) k c k' :
    d_find key_eqb (d_set key_eqb d k c) k' = if key_eqb k' k then Some c else d_find key_eqb d k'.
  Proof. exact (d_find_set key_eqb PT (L_sym _ key_eqb_eq) (L_trans _ key_eqb_eq) d k c k' (PK_T _) I I). Qed.
  Lemma pp_set {V} (d : assoc prefix V) k c k' :
    d_find prefix_eqb (d_set prefix_eqb d k c) k' = if prefix_eqb k' k then Some c else d_find prefix_eqb d k'.
  Proof. exact (d_find_set prefix_eqb PT (L_sym _ prefix_eqb_eq) (L_trans _ prefix_eqb_eq) d k c k' (PK_T _) I I). Qed.

  (* ----- the three MmapedDict operations, cell by cell ----- *)
  Lemma cell_set (d : fs) fn0 c fn k :
    fs_cell (d_set fname_eqb d fn0 c) fn k = if fname_eqb fn fn0 then d_find key_eqb c k else fs_cell d fn k.
  Proof. unfold Values.fs_cell, fs_content. rewrite ff_set. destruct (fname_eqb fn fn0); reflexivity. Qed.

  Lemma cell_open d fn0 fn k : fs_cell (fs_open d fn0) fn k = fs_cell d fn k.
  Proof.
    unfold Values.fs_open. destruct (d_find fname_eqb d fn0) eqn:E; [reflexivity|].
    rewrite cell_set. destruct (fname_eqb fn fn0) eqn:E2; [|reflexivity].
    apply fname_eqb_eq in E2; subst. unfold Values.fs_cell, fs_content. rewrite E. reflexivity.
  Qed.

  Lemma init_key_find c k0 k :
    d_find key_eqb (init_key c k0) k
    = if key_eqb k k0 then Some (match d_find key_eqb c k0 with Some x => x | None => (fzero, fzero) end)
      else d_find key_eqb c k.
  Proof.
    unfold Values.init_key. destruct (d_find key_eqb c k0) eqn:E.
    - destruct (key_eqb k k0) eqn:E2; [|reflexivity]. apply key_eqb_eq in E2; subst. exact E.
    - apply kk_set.
  Qed.

  Lemma cell_read d fn0 k0 fn k :
    fs_cell (fst (fs_read d fn0 k0)) fn k
    = if fname_eqb fn fn0 && key_eqb k k0 then Some (coz d fn0 k0) else fs_cell d fn k.
  Proof.
    unfold Values.fs_read. cbn [fst]. rewrite cell_set, init_key_find.
    destruct (fname_eqb fn fn0) eqn:E; cbn [andb]; [|reflexivity].
    apply fname_eqb_eq in E; subst. destruct (key_eqb k k0); reflexivity.
  Qed.

  Lemma read_val d fn0 k0 : snd (fs_read d fn0 k0) = coz d fn0 k0.
  Proof.
    unfold Values.fs_read. cbn [snd]. rewrite init_key_find, (eqb_refl_of _ key_eqb_eq). reflexivity.
  Qed.

  Lemma cell_write d fn0 k0 x fn k :
    fs_cell (fs_write d fn0 k0 x) fn k = if fname_eqb fn fn0 && key_eqb k k0 then Some x else fs_cell d fn k.
  Proof.
    unfold Values.fs_write. rewrite cell_set, kk_set, init_key_find.
    destruct (fname_eqb fn fn0) eqn:E; cbn [andb]; [|reflexivity].
    apply fname_eqb_eq in E; subst. destruct (key_eqb k k0); reflexivity.
  Qed.

  Lemma file_open_other d fn0 fn : fn <> fn0 -> d_find fname_eqb (fs_open d fn0) fn = d_find fname_eqb d fn.
  Proof.
    intros H. unfold Values.fs_open. destruct (d_find fname_eqb d fn0); [reflexivity|].
    rewrite ff_set, (eqb_false_of _ fname_eqb_eq _ _ H). reflexivity.
  Qed.
  Lemma file_read_other d fn0 k0 fn : fn <> fn0 -> d_find fname_eqb (fst (fs_read d fn0 k0)) fn = d_find fname_eqb d fn.
  Proof. intros H. unfold Values.fs_read. cbn [fst]. rewrite ff_set, (eqb_false_of _ fname_eqb_eq _ _ H). reflexivity. Qed.
  Lemma file_write_other d fn0 k0 x fn : fn <> fn0 -> d_find fname_eqb (fs_write d fn0 k0 x) fn = d_find fname_eqb d fn.
  Proof. intros H. unfold Values.fs_write. rewrite ff_set, (eqb_false_of _ fname_eqb_eq _ _ H). reflexivity. Qed.

  (* ----- d' extends d under identity pid: nothing existing changes, new cells are zero, other pids' files untouched ----- *)
  Definition Ext (pid : str) (d d' : fs) : Prop :=
    (forall fn k, coz d' fn k = coz d fn k)
    /\ (forall fn k c, fs_cell d fn k = Some c -> fs_cell d' fn k = Some c)
    /\ (forall fn, snd fn <> pid -> d_find fname_eqb d' fn = d_find fname_eqb d fn).

  Lemma Ext_refl pid d : Ext pid d d.
  Proof. repeat split; auto. Qed.
  Lemma Ext_trans pid d1 d2 d3 : Ext pid d1 d2 -> Ext pid d2 d3 -> Ext pid d1 d3.
  Proof.
    intros [A1 [B1 C1]] [A2 [B2 C2]]. repeat split.
    - intros. rewrite A2, A1. reflexivity.
    - intros. apply B2, B1. assumption.
    - intros. rewrite C2, C1 by assumption. reflexivity.
  Qed.

  Lemma Ext_open pid d pre : Ext pid d (fs_open d (pre, pid)).
  Proof.
    repeat split.
    - intros. unfold cell_or_zero. rewrite cell_open. reflexivity.
    - intros. rewrite cell_open. assumption.
    - intros fn H. apply file_open_other. intros ->. apply H. reflexivity.
  Qed.

  Lemma Ext_read pid d pre k0 : Ext pid d (fst (fs_read d (pre, pid) k0)).
  Proof.
    repeat split.
    - intros fn k. unfold cell_or_zero at 1. rewrite cell_read.
      destruct (fname_eqb fn (pre, pid) && key_eqb k k0) eqn:E; [|reflexivity].
      apply andb_true_iff in E as [E1 E2]. apply fname_eqb_eq in E1. apply key_eqb_eq in E2. subst. reflexivity.
    - intros fn k c H. rewrite cell_read.
      destruct (fname_eqb fn (pre, pid) && key_eqb k k0) eqn:E; [|assumption].
      apply andb_true_iff in E as [E1 E2]. apply fname_eqb_eq in E1. apply key_eqb_eq in E2. subst.
      unfold cell_or_zero. rewrite H. reflexivity.
    - intros fn H. apply file_read_other. intros ->. apply H. reflexivity.
  Qed.

  (* ----- invariants ----- *)
  Definition FilesOK (pid : str) (files : assoc prefix fname) : Prop :=
    forall pre fn, d_find prefix_eqb files pre = Some fn -> fn = (pre, pid).
  (* a live value is bound to its own pid's file and its cache is what the file holds *)
  Definition VOK (pid : str) (d : fs) (v : value) : Prop :=
    v_file F v = (prefix_of (v_params F v), pid)
    /\ fs_cell d (v_file F v) (vkey v) = Some (v_val F v, v_ts F v).

  Lemma VOK_ext pid d d' v : Ext pid d d' -> VOK pid d v -> VOK pid d' v.
  Proof. intros [_ [B _]] [H1 H2]. split; [exact H1 | apply B, H2]. Qed.

  Lemma VOK_coz pid d v : VOK pid d v -> (v_val F v, v_ts F v) = coz d (prefix_of (v_params F v), pid) (vkey v).
  Proof. intros [H1 H2]. unfold cell_or_zero. rewrite <- H1, H2. reflexivity. Qed.

  Lemma reset_ok pid files d p files' d' v : FilesOK pid files -> reset pid files d p = (files', d', v) ->
    FilesOK pid files' /\ Ext pid d d' /\ v_params F v = p /\ VOK pid d' v.
  Proof.
    intros HF. unfold Values.reset.
    destruct (d_find prefix_eqb files (prefix_of p)) as [fn0|] eqn:E.
    - rewrite E. pose proof (HF _ _ E) as ->.
      destruct (fs_read d (prefix_of p, pid) (p_key p)) as [d2 [x ts]] eqn:R.
      intros H; inversion H; subst; clear H.
      assert (Hd : d' = fst (fs_read d (prefix_of p, pid) (p_key p))) by (rewrite R; reflexivity).
      assert (Hv : (x, ts) = snd (fs_read d (prefix_of p, pid) (p_key p))) by (rewrite R; reflexivity).
      rewrite read_val in Hv. subst d'.
      split; [exact HF|]. split; [apply Ext_read|]. split; [reflexivity|]. split; cbn [v_file v_params v_val v_ts]; [reflexivity|].
      rewrite cell_read, (eqb_refl_of _ fname_eqb_eq), (eqb_refl_of _ key_eqb_eq). cbn [andb]. rewrite Hv. reflexivity.
    - rewrite pp_set, (eqb_refl_of _ prefix_eqb_eq).
      destruct (fs_read (fs_open d (prefix_of p, pid)) (prefix_of p, pid) (p_key p)) as [d2 [x ts]] eqn:R.
      intros H; inversion H; subst; clear H.
      assert (Hd : d' = fst (fs_read (fs_open d (prefix_of p, pid)) (prefix_of p, pid) (p_key p))) by (rewrite R; reflexivity).
      assert (Hv : (x, ts) = snd (fs_read (fs_open d (prefix_of p, pid)) (prefix_of p, pid) (p_key p))) by (rewrite R; reflexivity).
      rewrite read_val in Hv. subst d'.
      split; [|split; [eapply Ext_trans; [apply Ext_open | apply Ext_read]|]].
      { intros pre fn. rewrite pp_set. destruct (prefix_eqb pre (prefix_of p)) eqn:E2.
        - apply prefix_eqb_eq in E2; subst. intros H; inversion H; reflexivity.
        - apply HF. }
      split; [reflexivity|]. split; cbn [v_file v_params v_val v_ts]; [reflexivity|].
      rewrite cell_read, (eqb_refl_of _ fname_eqb_eq), (eqb_refl_of _ key_eqb_eq). cbn [andb]. rewrite Hv. reflexivity.
  Qed.

  Lemma reset_all_ok pid vs : forall files d files' d' vs', FilesOK pid files ->
    reset_all pid files d vs = (files', d', vs') ->
    FilesOK pid files' /\ Ext pid d d' /\ map (v_params F) vs' = map (v_params F) vs /\ Forall (VOK pid d') vs'.
  Proof.
    induction vs as [|v r IH]; intros files d files' d' vs' HF; cbn [Values.reset_all].
    - intros H; inversion H; subst. split; [assumption|]. split; [apply Ext_refl|]. split; [reflexivity|constructor].
    - destruct (reset pid files d (v_params F v)) as [[f1 d1] v1] eqn:R1.
      destruct (reset_all pid f1 d1 r) as [[f2 d2] r'] eqn:R2.
      intros H; inversion H; subst; clear H.
      destruct (reset_ok _ _ _ _ _ _ _ HF R1) as [HF1 [E1 [P1 V1]]].
      destruct (IH _ _ _ _ _ HF1 R2) as [HF2 [E2 [P2 V2]]].
      split; [assumption|]. split; [eapply Ext_trans; eassumption|]. split.
      + cbn [map]. rewrite P1, P2. reflexivity.
      + constructor; [eapply VOK_ext; eassumption | exact V2].
  Qed.

  Definition Inv (st : state) (d : fs) : Prop :=
    FilesOK (st_pid F st) (st_files F st)
    /\ Forall (VOK (st_pid F st) d) (st_values F st)
    /\ NoDup (map vk (map (v_params F) (st_values F st))).

  Lemma Inv_init pid d : Inv (init_state F pid) d.
  Proof. repeat split; cbn; [intros ? ? H; discriminate | constructor | constructor]. Qed.

  Lemma check_pid_ok st d st1 d1 : Inv st d -> check_pid st d = (st1, d1) ->
    Inv st1 d1 /\ st_pid F st1 = st_actual F st /\ st_actual F st1 = st_actual F st
    /\ map (v_params F) (st_values F st1) = map (v_params F) (st_values F st) /\ Ext (st_actual F st) d d1.
  Proof.
    intros [HF [HV HN]]. unfold Values.check_pid.
    destruct (str_eqb (st_pid F st) (st_actual F st)) eqn:E.
    - intros H; inversion H; subst. apply str_eqb_eq in E.
      split; [split; [|split]; assumption|]. split; [assumption|]. split; [reflexivity|]. split; [reflexivity|apply Ext_refl].
    - destruct (reset_all (st_actual F st) [] d (st_values F st)) as [[f2 d2] vs'] eqn:R.
      intros H; inversion H; subst; clear H. unfold Inv. cbn [st_pid st_actual st_files st_values].
      assert (HF0 : FilesOK (st_actual F st) []) by (intros ? ? H; discriminate).
      destruct (reset_all_ok _ _ _ _ _ _ _ HF0 R) as [HF2 [E2 [P2 V2]]].
      split; [split; [assumption|split; [assumption|rewrite P2; exact HN]]|].
      split; [reflexivity|]. split; [reflexivity|]. split; assumption.
  Qed.

  (* ----- one step ----- *)
  Lemma upd_nth_app {A} (l1 : list A) a l2 x : upd_nth (l1 ++ a :: l2) (length l1) x = l1 ++ x :: l2.
  Proof. induction l1 as [|b l1 IH]; cbn [app length Values.upd_nth]; [reflexivity | rewrite IH; reflexivity]. Qed.

  Lemma NoDup_snoc {A} (l : list A) a : NoDup l -> ~ In a l -> NoDup (l ++ [a]).
  Proof.
    intros Hn Hi. induction Hn as [|x l Hx Hn IH]; cbn [app]; [constructor; [intros []|constructor]|].
    constructor.
    - rewrite in_app_iff. intros [H|[H|[]]]; [contradiction | subst; apply Hi; left; reflexivity].
    - apply IH. intro H; apply Hi; right; exact H.
  Qed.

  Definition fresh_op (st : state) (o : op) : Prop :=
    match o with
    | New _ p => ~ In (vk p) (map vk (map (v_params F) (st_values F st)))
    | _ => True
    end.
  Definition next_actual (a : str) (o : op) : str := match o with SetPid _ p => p | _ => a end.
  Definition next_params (ps : list params) (o : op) : list params := match o with New _ p => ps ++ [p] | _ => ps end.

  (* writing a new cell through the i-th value: the shared part of inc and set *)
  Lemma write_ok (st1 : state) d1 l1 v l2 (c' : cell) :
    Inv st1 d1 -> st_values F st1 = l1 ++ v :: l2 ->
    let v' := mkValue F (v_params F v) (v_file F v) (fst c') (snd c') in
    let d' := fs_write d1 (v_file F v) (vkey v) c' in
    Inv (mkState F (st_actual F st1) (st_pid F st1) (st_files F st1) (l1 ++ v' :: l2)) d'
    /\ v_file F v = (prefix_of (v_params F v), st_pid F st1)
    /\ (v_val F v, v_ts F v) = coz d1 (v_file F v) (vkey v)
    /\ (forall fn k, coz d' fn k = if fname_eqb fn (v_file F v) && key_eqb k (vkey v) then c' else coz d1 fn k).
  Proof.
    intros [HF [HV HN]] Hs v' d'. rewrite Hs in HV, HN.
    apply Forall_app in HV as [HV1 HV2]. inversion HV2 as [|? ? Hv HV3]; subst.
    assert (Hcoz : forall fn k, coz d' fn k = if fname_eqb fn (v_file F v) && key_eqb k (vkey v) then c' else coz d1 fn k).
    { intros fn k. unfold cell_or_zero at 1. subst d'. rewrite cell_write.
      destruct (fname_eqb fn (v_file F v) && key_eqb k (vkey v)); reflexivity. }
    (* any other value keeps its cell: it has another (prefix, key) *)
    assert (Hother : forall w, VOK (st_pid F st1) d1 w -> vk (v_params F w) <> vk (v_params F v) -> VOK (st_pid F st1) d' w).
    { intros w [Hw1 Hw2] Hne. split; [exact Hw1|]. subst d'. rewrite cell_write.
      destruct (fname_eqb (v_file F w) (v_file F v) && key_eqb (vkey w) (vkey v)) eqn:E; [|exact Hw2].
      exfalso. apply andb_true_iff in E as [E1 E2]. apply fname_eqb_eq in E1. apply key_eqb_eq in E2.
      destruct Hv as [Hv1 _]. rewrite Hw1, Hv1 in E1. inversion E1. apply Hne. unfold vk. congruence. }
    rewrite !map_app in HN. cbn [map] in HN.
    pose proof (NoDup_remove_2 _ _ _ HN) as Hnot. rewrite in_app_iff in Hnot.
    split; [|split; [exact (proj1 Hv)|split; [|exact Hcoz]]].
    - unfold Inv. cbn [st_pid st_files st_values]. split; [exact HF|]. split.
      + apply Forall_app. split; [|constructor].
        * apply Forall_forall. intros w Hw. apply Hother; [eapply Forall_forall in HV1; eassumption|].
          intros Heq. apply Hnot. left. rewrite <- Heq. apply in_map, in_map, Hw.
        * destruct Hv as [Hv1 Hv2]. split; cbn [v_file v_params v_val v_ts]; [exact Hv1|].
          subst d'. rewrite cell_write, (eqb_refl_of _ fname_eqb_eq), (eqb_refl_of _ key_eqb_eq). cbn [andb].
          destruct c'; reflexivity.
        * apply Forall_forall. intros w Hw. apply Hother; [eapply Forall_forall in HV3; eassumption|].
          intros Heq. apply Hnot. right. rewrite <- Heq. apply in_map, in_map, Hw.
      + rewrite !map_app. cbn [map v_params]. exact HN.
    - destruct Hv as [Hv1 Hv2]. unfold cell_or_zero. rewrite Hv2. reflexivity.
  Qed.

  Notation apply_cellop := (apply_cellop F fzero fadd feqb).
  Notation issued := (issued F).
  Notation params_of st := (map (v_params F) (st_values F st)).

  Lemma targets_iff actual p fn k :
    targets actual p fn k = fname_eqb fn (prefix_of p, actual) && key_eqb k (p_key p).
  Proof.
    unfold targets.
    rewrite (L_sym _ fname_eqb_eq (prefix_of p, actual) fn I I), (L_sym _ key_eqb_eq (p_key p) k I I). reflexivity.
  Qed.

  Definition step_post (st : state) (d : fs) (o : op) (st' : state) (d' : fs) : Prop :=
    Inv st' d'
    /\ st_actual F st' = next_actual (st_actual F st) o
    /\ params_of st' = next_params (params_of st) o
    /\ (forall fn, snd fn <> st_actual F st -> d_find fname_eqb d' fn = d_find fname_eqb d fn)
    /\ (forall fn k, coz d' fn k
          = fold_left apply_cellop (issued (st_actual F st) (params_of st) [o] fn k) (coz d fn k)).

  Lemma step_write_case st d st1 d1 i v (c' : cell) (co : cellop F) o :
    Inv st d -> check_pid st d = (st1, d1) -> nth_error (st_values F st1) i = Some v ->
    next_actual (st_actual F st) o = st_actual F st -> next_params (params_of st) o = params_of st ->
    (forall fn k, issued (st_actual F st) (params_of st) [o] fn k
                  = match nth_error (params_of st) i with
                    | Some p => if targets (st_actual F st) p fn k then [co] else []
                    | None => [] end) ->
    apply_cellop (v_val F v, v_ts F v) co = c' ->
    (forall c1 c2 : cell, fst c1 = fst c2 -> apply_cellop c1 co = apply_cellop c2 co) ->
    step_post st d o
      (mkState F (st_actual F st1) (st_pid F st1) (st_files F st1)
         (upd_nth (st_values F st1) i (mkValue F (v_params F v) (v_file F v) (fst c') (snd c'))))
      (fs_write d1 (v_file F v) (vkey v) c').
  Proof.
    intros HI C N Ha Hp Hiss Hc Hfst.
    destruct (check_pid_ok _ _ _ _ HI C) as [HI1 [Hpid [Hact [Hps HE]]]].
    destruct (nth_error_split _ _ N) as [l1 [l2 [Hs Hl]]].
    destruct (write_ok st1 d1 l1 v l2 c' HI1 Hs) as [HI' [Hfile [Hval Hcoz]]].
    rewrite Hs, <- Hl, upd_nth_app.
    destruct HE as [E1 [E2 E3]].
    split; [exact HI'|]. cbn [st_actual st_values]. split; [congruence|]. split.
    - rewrite Hp, <- Hps, Hs, !map_app. reflexivity.
    - split.
      + intros fn Hfn. rewrite file_write_other; [apply E3, Hfn|].
        intros ->. apply Hfn. rewrite Hfile, Hpid. reflexivity.
      + intros fn k. rewrite Hcoz, Hiss, <- Hps, nth_error_map, N. cbn [option_map].
        rewrite targets_iff, Hfile, Hpid.
        destruct (fname_eqb fn (prefix_of (v_params F v), st_actual F st) && key_eqb k (vkey v)) eqn:E;
          cbn [fold_left]; [|apply E1].
        apply andb_true_iff in E as [Ea Eb]. apply fname_eqb_eq in Ea. apply key_eqb_eq in Eb. subst fn k.
        rewrite <- Hc. apply Hfst. rewrite <- E1, <- Hpid, <- Hfile, <- Hval. reflexivity.
  Qed.

  Lemma step_ok st d o st' d' x : Inv st d -> fresh_op st o -> step st d o = (st', d', x) -> step_post st d o st' d'.
  Proof.
    intros HI Hfresh. destruct o as [p|p|i a|i v ts|i]; cbn [Values.step].
    - (* SetPid *)
      intros H; inversion H; subst; clear H. destruct HI as [HF [HV HN]].
      split; [split; [|split]; assumption|]. cbn. repeat split; reflexivity.
    - (* New *)
      destruct (check_pid st d) as [st1 d1] eqn:C.
      destruct (reset (st_pid F st1) (st_files F st1) d1 p) as [[files d2] v] eqn:R.
      intros H; inversion H; subst; clear H.
      destruct (check_pid_ok _ _ _ _ HI C) as [[HF1 [HV1 HN1]] [Hpid [Hact [Hps HE]]]].
      destruct (reset_ok _ _ _ _ _ _ _ HF1 R) as [HF2 [HE2 [Hp HV2]]].
      rewrite Hpid in HE2.
      pose proof (Ext_trans _ _ _ _ HE HE2) as [E1 [E2 E3]].
      split; [|cbn [st_actual st_values next_actual next_params]; split; [exact Hact|split]].
      + unfold Inv. cbn [st_pid st_files st_values]. split; [exact HF2|]. split.
        * apply Forall_app. split; [|constructor; [exact HV2|constructor]].
          eapply Forall_impl; [|exact HV1]. intros w. apply VOK_ext. rewrite Hpid. exact HE2.
        * rewrite !map_app. cbn [map]. rewrite Hp. apply NoDup_snoc; [exact HN1|].
          rewrite Hps. exact Hfresh.
      + rewrite map_app, Hps. cbn [map]. rewrite Hp. reflexivity.
      + split; [exact E3 | intros fn k; cbn [ValuesSpec.issued fold_left]; apply E1].
    - (* Inc *)
      destruct (check_pid st d) as [st1 d1] eqn:C.
      destruct (nth_error (st_values F st1) i) as [v|] eqn:N.
      + intros H; inversion H; subst; clear H.
        apply (step_write_case st d st1 d1 i v (fadd (v_val F v) a, fzero) (CInc F a));
          [exact HI | exact C | exact N | reflexivity | reflexivity | | reflexivity | ].
        * intros fn k. cbn [ValuesSpec.issued]. destruct (nth_error (params_of st) i); [|reflexivity].
          destruct (targets _ _ _ _); reflexivity.
        * intros c1 c2 Hc. cbn [ValuesSpec.apply_cellop]. rewrite Hc. reflexivity.
      + intros H; inversion H; subst; clear H.
        destruct (check_pid_ok _ _ _ _ HI C) as [HI1 [Hpid [Hact [Hps [E1 [E2 E3]]]]]].
        split; [exact HI1|]. split; [exact Hact|]. split; [exact Hps|]. split; [exact E3|].
        intros fn k. cbn [ValuesSpec.issued]. rewrite <- Hps, nth_error_map, N. cbn [option_map fold_left]. apply E1.
    - (* Set *)
      destruct (check_pid st d) as [st1 d1] eqn:C.
      destruct (nth_error (st_values F st1) i) as [w|] eqn:N.
      + intros H; inversion H; subst; clear H.
        apply (step_write_case st d st1 d1 i w (v, ts_or_zero F fzero feqb ts) (CSet F v ts));
          [exact HI | exact C | exact N | reflexivity | reflexivity | | reflexivity | reflexivity].
        intros fn k. cbn [ValuesSpec.issued]. destruct (nth_error (params_of st) i); [|reflexivity].
        destruct (targets _ _ _ _); reflexivity.
      + intros H; inversion H; subst; clear H.
        destruct (check_pid_ok _ _ _ _ HI C) as [HI1 [Hpid [Hact [Hps [E1 [E2 E3]]]]]].
        split; [exact HI1|]. split; [exact Hact|]. split; [exact Hps|]. split; [exact E3|].
        intros fn k. cbn [ValuesSpec.issued]. rewrite <- Hps, nth_error_map, N. cbn [option_map fold_left]. apply E1.
    - (* Get *)
      destruct (check_pid st d) as [st1 d1] eqn:C.
      intros H; inversion H; subst; clear H.
      destruct (check_pid_ok _ _ _ _ HI C) as [HI1 [Hpid [Hact [Hps [E1 [E2 E3]]]]]].
      split; [exact HI1|]. split; [exact Hact|]. split; [exact Hps|]. split; [exact E3|].
      intros fn k. cbn [ValuesSpec.issued fold_left]. apply E1.
  Qed.

  (* ----- whole histories ----- *)
  Notation wf_hist := (wf_hist F).
  Notation final_actual := (final_actual F).

  Lemma issued_cons a ps o r fn k :
    issued a ps (o :: r) fn k = issued a ps [o] fn k ++ issued (next_actual a o) (next_params ps o) r fn k.
  Proof.
    destruct o as [p|p|i x|i v ts|i]; cbn [ValuesSpec.issued next_actual next_params app]; try reflexivity;
      destruct (nth_error ps i); try reflexivity; destruct (targets _ _ _ _); reflexivity.
  Qed.

  Lemma wf_hist_cons ps o r :
    wf_hist ps (o :: r) <->
    (match o with New _ p => ~ In (vk p) (map vk ps) | _ => True end) /\ wf_hist (next_params ps o) r.
  Proof. destruct o; cbn [ValuesSpec.wf_hist next_params]; tauto. Qed.

  Lemma run_ok h : forall st d st' d' xs, Inv st d -> wf_hist (params_of st) h -> run st d h = (st', d', xs) ->
    Inv st' d'
    /\ st_actual F st' = final_actual (st_actual F st) h
    /\ (forall fn k, coz d' fn k
          = fold_left apply_cellop (issued (st_actual F st) (params_of st) h fn k) (coz d fn k)).
  Proof.
    induction h as [|o r IH]; intros st d st' d' xs HI Hwf; cbn [Values.run].
    - intros H; inversion H; subst. split; [exact HI|]. split; reflexivity.
    - destruct (step st d o) as [[st1 d1] x] eqn:S. destruct (run st1 d1 r) as [[st2 d2] xs'] eqn:R.
      intros H; inversion H; subst; clear H.
      apply wf_hist_cons in Hwf as [Hf Hwf].
      assert (Hfresh : fresh_op st o) by (destruct o; exact Hf || exact I).
      destruct (step_ok _ _ _ _ _ _ HI Hfresh S) as [HI1 [Ha [Hp [_ Hc]]]].
      rewrite <- Hp in Hwf.
      destruct (IH _ _ _ _ _ HI1 Hwf R) as [HI2 [Ha2 Hc2]].
      split; [exact HI2|]. split.
      + rewrite Ha2, Ha. destruct o; reflexivity.
      + intros fn k. rewrite issued_cons, fold_left_app, <- Hc, <- Ha, <- Hp. apply Hc2.
  Qed.

  (* every state a history reaches from a fresh closure satisfies the invariant *)
  Lemma reach_Inv pid0 d0 h st d xs : wf_hist [] h -> run (init_state F pid0) d0 h = (st, d, xs) -> Inv st d.
  Proof. intros Hwf R. exact (proj1 (run_ok h _ _ _ _ _ (Inv_init pid0 d0) Hwf R)). Qed.

  (* C09_writes_only_own_files *)
  Lemma step_own_files st d o st' d' x : Inv st d -> fresh_op st o -> step st d o = (st', d', x) ->
    forall fn, snd fn <> st_actual F st -> d_find fname_eqb d' fn = d_find fname_eqb d fn.
  Proof. intros HI Hf S. exact (proj1 (proj2 (proj2 (proj2 (step_ok _ _ _ _ _ _ HI Hf S))))). Qed.

  (* C09_continues_from_file: after the identity check every live value is bound to the file of the current identity
     and its cache is what that file held (0 if the key was absent) *)
  Lemma check_pid_continues st d st1 d1 : Inv st d -> check_pid st d = (st1, d1) ->
    forall i v1, nth_error (st_values F st1) i = Some v1 ->
      nth_error (params_of st) i = Some (v_params F v1)
      /\ v_file F v1 = (prefix_of (v_params F v1), st_actual F st)
      /\ (v_val F v1, v_ts F v1) = coz d (prefix_of (v_params F v1), st_actual F st) (vkey v1).
  Proof.
    intros HI C i v1 N.
    destruct (check_pid_ok _ _ _ _ HI C) as [[HF1 [HV1 HN1]] [Hpid [Hact [Hps [E1 [E2 E3]]]]]].
    assert (Hv : VOK (st_pid F st1) d1 v1) by (eapply Forall_forall in HV1; [eassumption | eapply nth_error_In; eassumption]).
    split; [rewrite <- Hps, nth_error_map, N; reflexivity|].
    split; [rewrite <- Hpid; exact (proj1 Hv)|].
    rewrite (VOK_coz _ _ _ Hv), Hpid. apply E1.
  Qed.

  Lemma get_continues st d i st' d' x : Inv st d -> step st d (Get F i) = (st', d', x) ->
    x = option_map (fun p => fst (coz d (prefix_of p, st_actual F st) (p_key p))) (nth_error (params_of st) i).
  Proof.
    intros HI. cbn [Values.step]. destruct (check_pid st d) as [st1 d1] eqn:C.
    intros H; inversion H; subst; clear H.
    destruct (nth_error (st_values F st') i) as [v1|] eqn:N; cbn [option_map].
    - destruct (check_pid_continues _ _ _ _ HI C _ _ N) as [Hp [_ Hc]]. rewrite Hp. cbn [option_map].
      rewrite <- Hc. reflexivity.
    - destruct (check_pid_ok _ _ _ _ HI C) as [_ [_ [_ [Hps _]]]].
      rewrite <- Hps, nth_error_map, N. reflexivity.
  Qed.

  (* ----- ANY history: several live value objects may be bound to one (file prefix, key) -----
     (an application that keeps a labels() child while the label set is removed and created again, or declares a
     metric twice, has two live value objects for one series).  The caches of such objects may disagree with the file,
     so Inv does not hold; what survives without wf_hist is the BINDING invariant: every live value object is bound to
     the file of the identity the closure last saw - and the identity check re-binds every one of them. *)
  Definition Bound (pid : str) (v : value) : Prop := v_file F v = (prefix_of (v_params F v), pid).
  Definition BInv (st : state) : Prop :=
    FilesOK (st_pid F st) (st_files F st) /\ Forall (Bound (st_pid F st)) (st_values F st).

  Lemma BInv_init pid : BInv (init_state F pid).
  Proof. split; cbn; [intros ? ? H; discriminate | constructor]. Qed.

  Lemma Inv_BInv st d : Inv st d -> BInv st.
  Proof. intros [HF [HV _]]. split; [exact HF|]. eapply Forall_impl; [|exact HV]. intros v [H _]. exact H. Qed.

  Lemma VOK_Bound pid d vs : Forall (VOK pid d) vs -> Forall (Bound pid) vs.
  Proof. intros H. eapply Forall_impl; [|exact H]. intros v [H1 _]. exact H1. Qed.

  Lemma check_pid_any st d st1 d1 : BInv st -> check_pid st d = (st1, d1) ->
    BInv st1 /\ st_pid F st1 = st_actual F st /\ st_actual F st1 = st_actual F st
    /\ map (v_params F) (st_values F st1) = map (v_params F) (st_values F st) /\ Ext (st_actual F st) d d1.
  Proof.
    intros [HF HB]. unfold Values.check_pid.
    destruct (str_eqb (st_pid F st) (st_actual F st)) eqn:E.
    - intros H; inversion H; subst. apply str_eqb_eq in E.
      split; [split; assumption|]. split; [assumption|]. split; [reflexivity|]. split; [reflexivity|apply Ext_refl].
    - destruct (reset_all (st_actual F st) [] d (st_values F st)) as [[f2 d2] vs'] eqn:R.
      intros H; inversion H; subst; clear H. unfold BInv. cbn [st_pid st_actual st_files st_values].
      assert (HF0 : FilesOK (st_actual F st) []) by (intros ? ? H; discriminate).
      destruct (reset_all_ok _ _ _ _ _ _ _ HF0 R) as [HF2 [E2 [P2 V2]]].
      split; [split; [assumption|eapply VOK_Bound; eassumption]|].
      split; [reflexivity|]. split; [reflexivity|]. split; assumption.
  Qed.

  Lemma Forall_upd_nth {A} (P : A -> Prop) (l : list A) i x : Forall P l -> P x -> Forall P (upd_nth l i x).
  Proof.
    intros H Hx. revert i. induction H as [|y r Hy Hr IH]; intros i; cbn [Values.upd_nth]; [constructor|].
    destruct i; constructor; auto.
  Qed.

  (* one step from a bound state: bound again, the parameter list grows as the history says, and no file of another
     identity changes - with NO freshness condition on New *)
  Lemma step_any st d o st' d' x : BInv st -> step st d o = (st', d', x) ->
    BInv st' /\ st_actual F st' = next_actual (st_actual F st) o
    /\ params_of st' = next_params (params_of st) o
    /\ (forall fn, snd fn <> st_actual F st -> d_find fname_eqb d' fn = d_find fname_eqb d fn).
  Proof.
    intros HB. destruct o as [p|p|i a|i v ts|i]; cbn [Values.step].
    - intros H; inversion H; subst; clear H. destruct HB as [HF HV].
      split; [split; assumption|]. cbn. repeat split; reflexivity.
    - destruct (check_pid st d) as [st1 d1] eqn:C.
      destruct (reset (st_pid F st1) (st_files F st1) d1 p) as [[files d2] v] eqn:R.
      intros H; inversion H; subst; clear H.
      destruct (check_pid_any _ _ _ _ HB C) as [[HF1 HV1] [Hpid [Hact [Hps HE]]]].
      destruct (reset_ok _ _ _ _ _ _ _ HF1 R) as [HF2 [HE2 [Hp HV2]]].
      rewrite Hpid in HE2.
      pose proof (Ext_trans _ _ _ _ HE HE2) as [E1 [E2 E3]].
      split; [|cbn [st_actual st_values next_actual next_params]; split; [exact Hact|split]].
      + unfold BInv. cbn [st_pid st_files st_values]. split; [exact HF2|].
        apply Forall_app. split; [exact HV1|constructor; [exact (proj1 HV2)|constructor]].
      + rewrite map_app, Hps. cbn [map]. rewrite Hp. reflexivity.
      + exact E3.
    - destruct (check_pid st d) as [st1 d1] eqn:C.
      destruct (check_pid_any _ _ _ _ HB C) as [[HF1 HV1] [Hpid [Hact [Hps [E1 [E2 E3]]]]]].
      destruct (nth_error (st_values F st1) i) as [v|] eqn:N; intros H; inversion H; subst; clear H.
      + assert (Hv : Bound (st_pid F st1) v) by (eapply Forall_forall in HV1; [eassumption | eapply nth_error_In; eassumption]).
        cbn [st_actual st_values st_pid st_files next_actual next_params]. split; [|split; [exact Hact|split]].
        * split; cbn [st_pid st_files st_values]; [exact HF1|]. apply Forall_upd_nth; [exact HV1|exact Hv].
        * rewrite <- Hps. destruct (nth_error_split _ _ N) as [l1 [l2 [Hs Hl]]].
          rewrite Hs, <- Hl, upd_nth_app, !map_app. reflexivity.
        * intros fn Hfn. rewrite file_write_other; [apply E3, Hfn|].
          intros ->. apply Hfn. rewrite Hv, Hpid. reflexivity.
      + split; [split; assumption|]. split; [exact Hact|]. split; [exact Hps|exact E3].
    - destruct (check_pid st d) as [st1 d1] eqn:C.
      destruct (check_pid_any _ _ _ _ HB C) as [[HF1 HV1] [Hpid [Hact [Hps [E1 [E2 E3]]]]]].
      destruct (nth_error (st_values F st1) i) as [w|] eqn:N; intros H; inversion H; subst; clear H.
      + assert (Hv : Bound (st_pid F st1) w) by (eapply Forall_forall in HV1; [eassumption | eapply nth_error_In; eassumption]).
        cbn [st_actual st_values st_pid st_files next_actual next_params]. split; [|split; [exact Hact|split]].
        * split; cbn [st_pid st_files st_values]; [exact HF1|]. apply Forall_upd_nth; [exact HV1|exact Hv].
        * rewrite <- Hps. destruct (nth_error_split _ _ N) as [l1 [l2 [Hs Hl]]].
          rewrite Hs, <- Hl, upd_nth_app, !map_app. reflexivity.
        * intros fn Hfn. rewrite file_write_other; [apply E3, Hfn|].
          intros ->. apply Hfn. rewrite Hv, Hpid. reflexivity.
      + split; [split; assumption|]. split; [exact Hact|]. split; [exact Hps|exact E3].
    - destruct (check_pid st d) as [st1 d1] eqn:C.
      intros H; inversion H; subst; clear H.
      destruct (check_pid_any _ _ _ _ HB C) as [HB1 [Hpid [Hact [Hps [E1 [E2 E3]]]]]].
      split; [exact HB1|]. split; [exact Hact|]. split; [exact Hps|exact E3].
  Qed.

  Lemma run_any h : forall st d st' d' xs, BInv st -> run st d h = (st', d', xs) -> BInv st'.
  Proof.
    induction h as [|o r IH]; intros st d st' d' xs HB; cbn [Values.run].
    - intros H; inversion H; subst. exact HB.
    - destruct (step st d o) as [[st1 d1] x] eqn:S. destruct (run st1 d1 r) as [[st2 d2] xs'] eqn:R.
      intros H; inversion H; subst; clear H.
      exact (IH _ _ _ _ _ (proj1 (step_any _ _ _ _ _ _ HB S)) R).
  Qed.

  Lemma reach_BInv pid0 d0 h st d xs : run (init_state F pid0) d0 h = (st, d, xs) -> BInv st.
  Proof. exact (run_any h _ _ _ _ _ (BInv_init pid0)). Qed.

  Lemma step_own_files_any st d o st' d' x : BInv st -> step st d o = (st', d', x) ->
    forall fn, snd fn <> st_actual F st -> d_find fname_eqb d' fn = d_find fname_eqb d fn.
  Proof. intros HB S. exact (proj2 (proj2 (proj2 (step_any _ _ _ _ _ _ HB S)))). Qed.

  (* the identity check re-binds EVERY live value object - whatever their number per series - to the file of the current
     identity, and a re-bound object's cache is what that file holds for its key AFTER the check (the cell exists) *)
  Lemma check_pid_rebinds_all st d st1 d1 : BInv st -> check_pid st d = (st1, d1) ->
    length (st_values F st1) = length (st_values F st)
    /\ forall i v1, nth_error (st_values F st1) i = Some v1 ->
         nth_error (params_of st) i = Some (v_params F v1)
         /\ v_file F v1 = (prefix_of (v_params F v1), st_actual F st).
  Proof.
    intros HB C.
    destruct (check_pid_any _ _ _ _ HB C) as [[HF1 HV1] [Hpid [Hact [Hps _]]]].
    split; [rewrite <- (map_length (v_params F)), Hps, map_length; reflexivity|].
    intros i v1 N.
    split; [rewrite <- Hps, nth_error_map, N; reflexivity|].
    rewrite <- Hpid. eapply Forall_forall in HV1; [exact HV1 | eapply nth_error_In; eassumption].
  Qed.

  (* an update through the i-th live value object writes the cell of ITS series in the file of the CURRENT identity and
     changes no other cell of any file beyond the zero-initialisations of the re-binding: stated on the file names *)
  Lemma update_lands_in_own_file st d i (a v : F) (ts : option F) o st' d' x :
    BInv st -> o = Inc F i a \/ o = Set_ F i v ts -> step st d o = (st', d', x) ->
    forall p, nth_error (params_of st) i = Some p ->
      exists y, fs_cell d' (prefix_of p, st_actual F st) (p_key p) = Some y.
  Proof.
    intros HB Ho S p Hp.
    assert (G : forall st1 d1 w, check_pid st d = (st1, d1) -> nth_error (st_values F st1) i = Some w ->
                v_file F w = (prefix_of p, st_actual F st) /\ vkey w = p_key p).
    { intros st1 d1 w C N. destruct (check_pid_rebinds_all _ _ _ _ HB C) as [_ H].
      destruct (H _ _ N) as [H1 H2]. rewrite Hp in H1. inversion H1; subst p. split; [exact H2|reflexivity]. }
    assert (Hlen : forall st1 d1, check_pid st d = (st1, d1) -> nth_error (st_values F st1) i <> None).
    { intros st1 d1 C. destruct (check_pid_any _ _ _ _ HB C) as [_ [_ [_ [Hps _]]]].
      intros N. rewrite <- Hps, nth_error_map, N in Hp. discriminate. }
    destruct Ho as [-> | ->]; cbn [Values.step] in S;
      destruct (check_pid st d) as [st1 d1] eqn:C;
      (destruct (nth_error (st_values F st1) i) as [w|] eqn:N; [|exfalso; exact (Hlen _ _ eq_refl N)]);
      inversion S; subst; clear S; destruct (G _ _ _ eq_refl N) as [G1 G2];
      rewrite cell_write, G1, G2, (eqb_refl_of _ fname_eqb_eq), (eqb_refl_of _ key_eqb_eq); cbn [andb]; eexists; reflexivity.
  Qed.
End VP.

(* ---------- integer-valued corollary: the sum over all pid files is conserved ---------- *)
Section Conservation.
  Open Scope Z_scope.
  Variable pids : list str.
  Hypothesis pids_nodup : NoDup pids.
  Variable pre : prefix.
  Variable k : key.

  Notation applyZ := (apply_cellop Z 0 Z.add Z.eqb).
  Notation issuedZ := (issued Z).

  Lemma zsum_map_ext {A} (f g : A -> Z) l : (forall x, In x l -> f x = g x) -> zsum (map f l) = zsum (map g l).
  Proof.
    induction l as [|a l IH]; intros H; cbn [map zsum fold_right]; [reflexivity|].
    rewrite (H a (or_introl eq_refl)). fold (zsum (map f l)) (zsum (map g l)). rewrite IH; [reflexivity|].
    intros x Hx. apply H. right; exact Hx.
  Qed.

  Lemma zsum_point (u : str -> Z) a x l : NoDup l -> In a l ->
    zsum (map (fun pid => if str_eqb a pid then u pid + x else u pid) l) = zsum (map u l) + x.
  Proof.
    induction 1 as [|b l Hb Hn IH]; intros Hin; [destruct Hin|].
    cbn [map zsum fold_right]. fold (zsum (map u l)).
    fold (zsum (map (fun pid => if str_eqb a pid then u pid + x else u pid) l)).
    destruct Hin as [->|Hin].
    - rewrite str_eqb_refl.
      rewrite (zsum_map_ext (fun pid => if str_eqb a pid then u pid + x else u pid) u).
      + lia.
      + intros y Hy. destruct (str_eqb a y) eqn:E; [|reflexivity]. apply str_eqb_eq in E; subst. contradiction.
    - destruct (str_eqb a b) eqn:E; [apply str_eqb_eq in E; subst; contradiction|].
      rewrite IH by exact Hin. lia.
  Qed.

  Lemma targets_selects a p pid : targets a p (pre, pid) k = selects p pre k && str_eqb a pid.
  Proof.
    unfold targets, selects, fname_eqb. cbn [fst snd].
    destruct (prefix_eqb (prefix_of p) pre), (str_eqb a pid), (key_eqb (p_key p) k); reflexivity.
  Qed.

  Lemma sum_issued h : forall a ps (c : str -> cell Z),
    In a pids -> pids_in pids h -> only_incs ps h pre k ->
    zsum (map (fun pid => fst (fold_left applyZ (issuedZ a ps h (pre, pid) k) (c pid))) pids)
    = zsum (map (fun pid => fst (c pid)) pids) + inc_total ps h pre k.
  Proof.
    induction h as [|o r IH]; intros a ps c Ha Hp Ho.
    - cbn [ValuesSpec.issued fold_left inc_total]. lia.
    - destruct o as [p|p|i x|i v ts|i]; cbn [ValuesSpec.issued inc_total pids_in only_incs] in *.
      + destruct Hp as [Hp1 Hp2]. apply IH; assumption.
      + apply IH; assumption.
      + destruct (nth_error ps i) as [p|]; [|rewrite IH by assumption; lia].
        destruct (selects p pre k) eqn:Es.
        * rewrite (zsum_map_ext _ (fun pid => fst (fold_left applyZ (issuedZ a ps r (pre, pid) k)
                     (if str_eqb a pid then (fst (c pid) + x, 0) else c pid)))).
          -- rewrite IH by assumption.
             rewrite (zsum_map_ext _ (fun pid => if str_eqb a pid then fst (c pid) + x else fst (c pid))).
             ++ rewrite (zsum_point (fun pid => fst (c pid)) a x pids pids_nodup Ha). lia.
             ++ intros pid _. destruct (str_eqb a pid); reflexivity.
          -- intros pid _. rewrite targets_selects, Es. cbn [andb].
             destruct (str_eqb a pid); reflexivity.
        * rewrite (zsum_map_ext _ (fun pid => fst (fold_left applyZ (issuedZ a ps r (pre, pid) k) (c pid)))).
          -- rewrite IH by assumption. lia.
          -- intros pid _. rewrite targets_selects, Es. reflexivity.
      + destruct Ho as [Ho1 Ho2]. destruct (nth_error ps i) as [p|]; [|apply IH; assumption].
        rewrite (zsum_map_ext _ (fun pid => fst (fold_left applyZ (issuedZ a ps r (pre, pid) k) (c pid)))).
        * apply IH; assumption.
        * intros pid _. rewrite targets_selects, Ho1. reflexivity.
      + apply IH; assumption.
  Qed.

  Theorem sum_conserved_Z st d h st' d' xs :
    Inv Z st d -> wf_hist Z (map (v_params Z) (st_values Z st)) h ->
    run Z 0 Z.add Z.eqb st d h = (st', d', xs) ->
    In (st_actual Z st) pids -> pids_in pids h -> only_incs (map (v_params Z) (st_values Z st)) h pre k ->
    file_total d' pids pre k = file_total d pids pre k + inc_total (map (v_params Z) (st_values Z st)) h pre k.
  Proof.
    intros HI Hwf R Ha Hp Ho.
    destruct (run_ok Z 0 Z.add Z.eqb h _ _ _ _ _ HI Hwf R) as [_ [_ Hc]].
    unfold file_total.
    rewrite (zsum_map_ext _ (fun pid => fst (fold_left applyZ
               (issuedZ (st_actual Z st) (map (v_params Z) (st_values Z st)) h (pre, pid) k)
               (cell_or_zero Z 0 d (pre, pid) k)))).
    - apply (sum_issued h _ _ (fun pid => cell_or_zero Z 0 d (pre, pid) k)); assumption.
    - intros pid _. rewrite Hc. reflexivity.
  Qed.
End Conservation.
