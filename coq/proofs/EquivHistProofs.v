(* C12, histograms: the collector's merge of one family's bucket entries is Histogram._child_samples. *)
From V Require Import lib.PyBase lib.Tac.
From V Require model.Multiproc model.MultiprocSpec model.Values model.Gateway.
From V Require proofs.MultiprocProofs proofs.ValuesProofs proofs.GatewayProofs.
From V Require Import model.Metrics proofs.MetricsProofs model.Equiv proofs.EquivProofs.
From Coq Require Import Permutation Sorted RelationClasses.
Ltac Zify.zify_post_hook ::= Z.to_euclidean_division_equations.
Open Scope N_scope.

(* ---------- labels: the le label of a bucket key ---------- *)
Lemma find_le_none ls : (forall x, In x ls -> fst x <> Multiproc.S_le) -> Multiproc.find_le ls = None.
Proof.
  induction ls as [|l ls IH]; intro H; [reflexivity|].
  change (Multiproc.find_le (l :: ls)) with (if str_eqb (fst l) Multiproc.S_le then Some (snd l) else Multiproc.find_le ls).
  assert (E : str_eqb (fst l) Multiproc.S_le = false).
  { apply str_eqb_neq. apply H. left. reflexivity. }
  rewrite E. apply IH. intros; apply H; right; assumption.
Qed.

Lemma find_le_some ls x : NoDup (map fst ls) -> In (Multiproc.S_le, x) ls -> Multiproc.find_le ls = Some x.
Proof.
  induction ls as [|l ls IH]; intros Hnd Hin; [contradiction|].
  change (Multiproc.find_le (l :: ls)) with (if str_eqb (fst l) Multiproc.S_le then Some (snd l) else Multiproc.find_le ls).
  cbn [map] in Hnd. inversion Hnd as [|? ? Hn Hnd']; subst. destruct Hin as [->|Hin].
  - cbn [fst snd]. rewrite str_eqb_refl. reflexivity.
  - assert (E : str_eqb (fst l) Multiproc.S_le = false).
    { apply str_eqb_neq. intro E. apply Hn. rewrite E. apply (in_map fst) in Hin. exact Hin. }
    rewrite E. auto.
Qed.

Lemma lab_fst_names names (lv : list str) x : In x (lab names lv) -> In (fst x) names.
Proof.
  intro H. apply (Permutation_in _ (Permutation_sym (GatewayProofs.sort_items_perm (combine names lv)))) in H.
  destruct x as [a b]. apply in_combine_l in H. exact H.
Qed.

Lemma find_le_lab names lv : ~ In Multiproc.S_le names -> Multiproc.find_le (lab names lv) = None.
Proof. intro H. apply find_le_none. intros x Hx E. apply H. rewrite <- E. eapply lab_fst_names. exact Hx. Qed.

Lemma StronglySorted_filter {A} (R : A -> A -> Prop) (p : A -> bool) l : StronglySorted R l -> StronglySorted R (filter p l).
Proof.
  induction 1 as [|a l Hs IH Ha]; cbn [filter]; [constructor|]. destruct (p a); [|exact IH].
  constructor; [exact IH|]. rewrite Forall_forall in *. intros x Hx. apply filter_In in Hx as [Hx _]. auto.
Qed.

Section BLab.
  Variable F : Type.
  Variable fmt_le : F -> str.
  Notation blab := (blab F fmt_le).
  Notation S_le := Multiproc.S_le.

  Lemma blab_keys names (lv : list str) b : length lv = length names ->
    Permutation (map fst (blab names lv b)) (names ++ [S_le]).
  Proof.
    intro H. unfold Equiv.blab. rewrite <- (GatewayProofs.sort_items_perm _). rewrite map_app, map_fst_combine by (symmetry; exact H).
    reflexivity.
  Qed.

  Lemma find_le_blab names lv b : NoDup names -> ~ In S_le names -> length lv = length names ->
    Multiproc.find_le (blab names lv b) = Some (fmt_le b).
  Proof.
    intros Hnd Hle Hl. apply find_le_some.
    - eapply Permutation_NoDup; [symmetry; apply blab_keys; exact Hl|]. apply ValuesProofs.NoDup_snoc; assumption.
    - unfold Equiv.blab. eapply Permutation_in; [apply GatewayProofs.sort_items_perm|]. apply in_or_app. right. left. reflexivity.
  Qed.

  Lemma filter_le_blab names lv b : NoDup names -> ~ In S_le names -> length lv = length names ->
    filter Multiproc.not_le (blab names lv b) = lab names lv.
  Proof.
    intros Hnd Hle Hl. unfold lab. apply GatewayProofs.sort_items_unique.
    - rewrite map_fst_combine by (symmetry; exact Hl). exact Hnd.
    - unfold Equiv.blab.
      assert (E : combine names lv = filter Multiproc.not_le (combine names lv ++ [(S_le, fmt_le b)])).
      { rewrite filter_app. change (filter Multiproc.not_le [(S_le, fmt_le b)]) with (@nil Multiproc.label).
        rewrite app_nil_r. symmetry. apply filter_all. intros [a c] Hx. apply in_combine_l in Hx. unfold Multiproc.not_le. cbn [fst].
        destruct (str_eqb a S_le) eqn:E; [apply str_eqb_eq in E; subst; contradiction|reflexivity]. }
      rewrite E at 1. apply MultiprocProofs.Permutation_filter'. apply GatewayProofs.sort_items_perm.
    - apply StronglySorted_Sorted. apply StronglySorted_filter. apply Sorted_StronglySorted.
      + intros x y z. apply GatewayProofs.kle_trans.
      + apply GatewayProofs.sort_items_sorted_lt.
  Qed.
End BLab.

(* ---------- dict folds on grouped items ---------- *)
Section Groups.
  Context {K S A X : Type} (keq : K -> K -> bool) (keq_eq : forall a b, keq a b = true <-> a = b)
          (upd : option S -> A -> S).

  Definition kf (s0 : S) (items : list A) : S := fold_left (fun s a => upd (Some s) a) items s0.
  Lemma kfold_kf items : forall s0, Multiproc.kfold upd (Some s0) items = Some (kf s0 items).
  Proof. induction items as [|a items IH]; intro s0; cbn [Multiproc.kfold kf fold_left]; [reflexivity|apply IH]. Qed.

  (* all items of one key, consecutively, into a dict that does not have the key *)
  Lemma dfold_one_key (k : K) (items : list A) : forall (d : assoc K S) s0,
    ~ In k (map fst d) ->
    Multiproc.dfold keq upd (d ++ [(k, s0)]) (map (pair k) items) = d ++ [(k, kf s0 items)].
  Proof.
    induction items as [|a items IH]; intros d s0 Hk; cbn [map Multiproc.dfold kf fold_left]; [reflexivity|].
    rewrite (df_app keq), (df_notin keq keq_eq d k Hk). cbn [d_find]. rewrite (kq_refl keq keq_eq).
    rewrite (ds_app_r keq keq_eq) by exact Hk. cbn [d_set]. rewrite (kq_refl keq keq_eq).
    rewrite IH by exact Hk. reflexivity.
  Qed.

  Lemma dfold_groups (key : X -> K) (items : X -> list A) (res : X -> S) : forall (xs : list X) (d : assoc K S),
    NoDup (map key xs) -> (forall x, In x xs -> ~ In (key x) (map fst d)) ->
    (forall x, In x xs -> items x <> [] /\ Multiproc.kfold upd None (items x) = Some (res x)) ->
    Multiproc.dfold keq upd d (flat_map (fun x => map (pair (key x)) (items x)) xs)
    = d ++ map (fun x => (key x, res x)) xs.
  Proof.
    induction xs as [|x xs IH]; intros d Hnd Hfresh Hit; cbn [flat_map map]; [rewrite app_nil_r; reflexivity|].
    cbn [map] in Hnd. inversion Hnd as [|? ? Hx Hnd']; subst.
    destruct (Hit x (or_introl eq_refl)) as [Hne Hk].
    assert (Hxd : ~ In (key x) (map fst d)) by (apply Hfresh; left; reflexivity).
    destruct (items x) as [|a0 it] eqn:Ei; [contradiction|].
    assert (Hdf : forall l1 l2 dd, Multiproc.dfold keq upd dd (l1 ++ l2) = Multiproc.dfold keq upd (Multiproc.dfold keq upd dd l1) l2).
    { induction l1 as [|[k0 a1] l1 IHl]; intros l2 dd; cbn [app Multiproc.dfold]; [reflexivity|apply IHl]. }
    rewrite Hdf. cbn [map Multiproc.dfold]. rewrite (df_notin keq keq_eq d (key x) Hxd), (ds_notin keq keq_eq d (key x) _ Hxd).
    rewrite dfold_one_key by exact Hxd.
    cbn [Multiproc.kfold] in Hk. rewrite kfold_kf in Hk. inversion Hk as [Hres]. rewrite Hres. rewrite IH; [rewrite <- app_assoc; reflexivity|exact Hnd'| |intros; apply Hit; right; assumption].
    intros y Hy Hin. rewrite map_app in Hin. apply in_app_or in Hin as [Hin|Hin].
    - apply (Hfresh y); [right; exact Hy|exact Hin].
    - cbn in Hin. destruct Hin as [E|[]]. apply Hx. rewrite E. apply in_map. exact Hy.
  Qed.
End Groups.

(* a dict keyed by floats compared with ==: items whose keys are pairwise different *)
Section FloatKeys.
  Context {F S A : Type} (feqb : F -> F -> bool) (upd : option S -> A -> S).

  Fixpoint fresh_keys (seen : list F) (l : list F) : Prop :=
    match l with
    | [] => True
    | b :: r => (forall a, In a seen -> feqb b a = false) /\ fresh_keys (seen ++ [b]) r
    end.

  Lemma df_fnotin (d : assoc F S) b : (forall a, In a (map fst d) -> feqb b a = false) -> d_find feqb d b = None.
  Proof.
    induction d as [|[a s] d IH]; intro H; cbn [d_find]; [reflexivity|].
    rewrite (H a) by (left; reflexivity). apply IH. intros; apply H; right; assumption.
  Qed.
  Lemma ds_fnotin (d : assoc F S) b s : (forall a, In a (map fst d) -> feqb b a = false) -> d_set feqb d b s = d ++ [(b, s)].
  Proof.
    induction d as [|[a s0] d IH]; intro H; cbn [d_set app]; [reflexivity|].
    rewrite (H a) by (left; reflexivity). f_equal. apply IH. intros; apply H; right; assumption.
  Qed.

  Lemma dfold_fkeys (items : list (F * A)) : forall d, fresh_keys (map fst d) (map fst items) ->
    Multiproc.dfold feqb upd d items = d ++ map (fun ba => (fst ba, upd None (snd ba))) items.
  Proof.
    induction items as [|[b a] items IH]; intros d H; cbn [Multiproc.dfold map fst snd]; [rewrite app_nil_r; reflexivity|].
    cbn [map fst fresh_keys] in H. destruct H as [Hb Hr].
    rewrite (df_fnotin d b Hb), (ds_fnotin d b _ Hb). rewrite IH; [rewrite <- app_assoc; reflexivity|].
    rewrite map_app. exact Hr.
  Qed.
End FloatKeys.

(* ---------- sorted bounds, cumulative counts ---------- *)
Section Cumul.
  Variable F : Type.
  Variables fzero fone : F.
  Variable fadd : F -> F -> F.
  Variables flt feqb : F -> F -> bool.
  Variable fmt_le : F -> str.
  Notation fcount := (fcount F fzero fone fadd).

  Hypothesis FLT_trans : forall a b c, flt a b = true -> flt b c = true -> flt a c = true.
  Hypothesis FLT_ne : forall a b, flt a b = true -> feqb b a = false.
  (* FL4: integer-valued doubles below 2^53 add exactly *)
  Hypothesis FL4 : forall a b, a + b < 2 ^ 53 -> fadd (fcount a) (fcount b) = fcount (a + b).

  Fixpoint strictly (l : list F) : Prop :=
    match l with
    | a :: ((b :: _) as r) => flt a b = true /\ strictly r
    | _ => True
    end.

  Lemma strictly_tail a l : strictly (a :: l) -> strictly l.
  Proof. destruct l; cbn; tauto. Qed.

  Lemma strictly_all a l : strictly (a :: l) -> forall b, In b l -> flt a b = true.
  Proof.
    revert a. induction l as [|x l IH]; intros a H b Hb; [contradiction|]. cbn [strictly] in H. destruct H as [H1 H2].
    destruct Hb as [<-|Hb]; [exact H1|]. eapply FLT_trans; [exact H1|]. apply IH; assumption.
  Qed.

  Lemma strictly_fresh l : forall seen, strictly l -> (forall a b, In a seen -> In b l -> flt a b = true) ->
    fresh_keys feqb seen l.
  Proof.
    induction l as [|b l IH]; intros seen Hs Hlt; cbn [fresh_keys]; [exact I|]. split.
    - intros a Ha. apply FLT_ne. apply Hlt; [exact Ha|left; reflexivity].
    - apply IH; [eapply strictly_tail; exact Hs|]. intros a b' Ha Hb'. apply in_app_or in Ha as [Ha|[<-|[]]].
      + apply Hlt; [exact Ha|right; exact Hb'].
      + eapply strictly_all; eassumption.
  Qed.

  Lemma sort_b_sorted_id (l : list (F * F)) : strictly (map fst l) -> Multiproc.sort_b F flt l = l.
  Proof.
    induction l as [|x l IH]; intro H; cbn [Multiproc.sort_b]; [reflexivity|].
    rewrite IH by (eapply strictly_tail; exact H). destruct l as [|y l]; cbn [Multiproc.insert_b]; [reflexivity|].
    cbn [map strictly] in H. destruct H as [H _]. rewrite H. reflexivity.
  Qed.

  Lemma last_default {A} (l : list A) d d' : l <> [] -> last l d = last l d'.
  Proof. induction l as [|x l IH]; intro H; [contradiction|]. cbn [last]. destruct l; [reflexivity|apply IH; discriminate]. Qed.

  Lemma last_accum_cons n c cs : last (accum n (c :: cs)) n = last (accum (n + c) cs) (n + c).
  Proof.
    cbn [accum]. destruct (accum (n + c) cs) eqn:E; [reflexivity|]. cbn [last]. destruct l; [reflexivity|]. apply last_default. discriminate.
  Qed.

  Lemma accum_last_ge cs : forall n, n <= last (accum n cs) n.
  Proof.
    induction cs as [|c cs IH]; intro n; [cbn; lia|]. rewrite last_accum_cons. specialize (IH (n + c)). lia.
  Qed.

  Lemma cumulate_counts mname ls : forall bs cs n, length cs = length bs -> last (accum n cs) n < 2 ^ 53 ->
    Multiproc.cumulate F fadd fmt_le mname ls (fcount n)
      (map (fun bc : F * N => (fst bc, fadd fzero (fcount (snd bc)))) (combine bs cs))
    = (map (fun ba : F * N => ((mname ++ Multiproc.S_bucket, ls ++ [(Multiproc.S_le, fmt_le (fst ba))]), fcount (snd ba)))
           (combine bs (accum n cs)),
       fcount (last (accum n cs) n)).
  Proof.
    induction bs as [|b bs IH]; intros [|c cs] n Hl Hsm; try discriminate; [reflexivity|].
    rewrite !last_accum_cons in *. cbn [combine map Multiproc.cumulate fst snd accum].
    pose proof (accum_last_ge cs (n + c)) as Hge.
    assert (E0 : fadd fzero (fcount c) = fcount c).
    { change fzero with (fcount 0). rewrite FL4 by lia. reflexivity. }
    rewrite E0, FL4 by lia. rewrite (IH cs (n + c)); [|cbn in Hl; lia|exact Hsm].
    cbn [combine map fst snd]. reflexivity.
  Qed.
End Cumul.

(* ---------- the merge of a histogram family's entries ---------- *)
Section HistFamily.
  Variable F : Type.
  Variables fzero fone : F.
  Variable fadd : F -> F -> F.
  Variables flt fle feqb : F -> F -> bool.
  Variable parse_le : str -> F.
  Variable fmt_le : F -> str.

  Hypothesis FL1 : forall v, feq F feqb v (fadd fzero v).
  Hypothesis FLT_trans : forall a b c, flt a b = true -> flt b c = true -> flt a c = true.
  Hypothesis FLT_ne : forall a b, flt a b = true -> feqb b a = false.
  Hypothesis FL4 : forall a b, a + b < 2 ^ 53 ->
    fadd (fcount F fzero fone fadd a) (fcount F fzero fone fadd b) = fcount F fzero fone fadd (a + b).

  Notation skey := Multiproc.skey.
  Notation sample := (Multiproc.sample F).
  Notation content := (Values.content F).
  Notation fcount := (fcount F fzero fone fadd).
  Notation keys_wf := (keys_wf F fmt_le).
  Notation kid_ok := (kid_ok F).
  Notation enc_kids := (enc_kids F fzero fone fadd fmt_le).
  Notation benc := (benc F fzero fone fadd fmt_le).
  Notation k_sum := (k_sum F).
  Notation k_bucket := (k_bucket F fmt_le).
  Notation S_le := Multiproc.S_le.
  Notation strictly := (strictly F flt).

  Record hwf (fam : mfamily F (child F)) : Prop := mkHwf {
    hw_kind : f_kind fam = KHistogram;
    hw_keys : keys_wf fam;
    hw_strict : strictly (f_bounds fam);
    hw_pf : Forall (fun b => parse_le (fmt_le b) = b) (f_bounds fam);
    hw_sum : sum_exposed fzero fle (f_bounds fam) = true;
    hw_ne : f_bounds fam <> [] }.

  Definition hs (c : child F) : F := match c with Hst s _ => s | _ => fzero end.
  Definition hc (c : child F) : list N := match c with Hst _ cs => cs | _ => [] end.

  Lemma hist_kid (fam : mfamily F (child F)) kc : f_kind fam = KHistogram -> kid_ok fam kc ->
    snd kc = Hst (hs (snd kc)) (hc (snd kc)) /\ length (hc (snd kc)) = length (f_bounds fam)
    /\ length (fst kc) = length (f_labelnames fam).
  Proof.
    intros Hk [Hl Hc]. unfold EquivProofs.child_ok in Hc. rewrite Hk in Hc.
    destruct (snd kc) as [[v|z]|v|n s|s cs|kv|i]; try contradiction. cbn [hs hc]. auto.
  Qed.

  (* the sample _read_metrics makes of an entry of a non-gauge file *)
  Definition SM (e : Multiproc.key * (F * F)) : sample :=
    Multiproc.mkSample F (Multiproc.k_name (fst e)) (Multiproc.k_labels (fst e)) (fst (snd e)) fzero.

  Definition kidL (fam : mfamily F (child F)) me (kc : key * child F) : content :=
    (k_sum fam me (fst kc), (hs (snd kc), fzero)) :: benc fam me (fst kc) (f_bounds fam) (hc (snd kc)).

  Lemma flat_map_ext_in' {A B} (f g : A -> list B) l : (forall a, In a l -> f a = g a) -> flat_map f l = flat_map g l.
  Proof. induction l as [|a l IH]; intro H; cbn [flat_map]; [reflexivity|]. rewrite (H a) by (left; reflexivity). f_equal. apply IH. intros; apply H; right; assumption. Qed.

  Lemma enc_kids_hist (fam : mfamily F (child F)) me tsf K : f_kind fam = KHistogram -> Forall (kid_ok fam) K ->
    enc_kids fam me tsf K = flat_map (kidL fam me) K.
  Proof.
    intros Hk Hok. unfold EquivProofs.enc_kids. apply flat_map_ext_in'. intros kc Hin.
    rewrite Forall_forall in Hok. destruct (hist_kid fam kc Hk (Hok kc Hin)) as [E _]. rewrite E. reflexivity.
  Qed.

  Definition sumout (fam : mfamily F (child F)) (kc : key * child F) : skey * F :=
    ((f_name fam ++ SUF_sum, lab (f_labelnames fam) (fst kc)), fadd fzero (hs (snd kc))).
  Definition writes (fam : mfamily F (child F)) (kc : key * child F) : list (skey * F) :=
    map (fun ba : F * N => ((f_name fam ++ Multiproc.S_bucket, lab (f_labelnames fam) (fst kc) ++ [(S_le, fmt_le (fst ba))]),
                            fcount (snd ba)))
        (combine (f_bounds fam) (accum 0 (hc (snd kc))))
    ++ [((f_name fam ++ Multiproc.S_count, lab (f_labelnames fam) (fst kc)), fcount (total (hc (snd kc))))].

  Lemma benc_in (fam : mfamily F (child F)) me lv bs cs e : In e (benc fam me lv bs cs) ->
    exists b c, In (b, c) (combine bs cs) /\ e = (k_bucket fam me lv b, (fcount c, fzero)).
  Proof. unfold EquivProofs.benc. intro H. apply in_map_iff in H as [[b c] [<- H]]. exists b, c. split; [exact H|reflexivity]. Qed.

  Lemma has_le_sum (fam : mfamily F (child F)) me lv x : hwf fam ->
    Multiproc.has_le F (SM (k_sum fam me lv, x)) = false.
  Proof.
    intros [Hk [Hn Hh] _ _ _ _]. destruct (Hh Hk) as [Hle _]. unfold Multiproc.has_le, SM. cbn [Multiproc.s_labels fst Equiv.k_sum Equiv.ckey Multiproc.k_labels].
    rewrite (find_le_lab _ lv Hle). reflexivity.
  Qed.

  Lemma has_le_bucket (fam : mfamily F (child F)) me lv b x : hwf fam -> length lv = length (f_labelnames fam) ->
    Multiproc.has_le F (SM (k_bucket fam me lv b, x)) = true.
  Proof.
    intros [Hk [Hn Hh] _ _ _ _] Hl. destruct (Hh Hk) as [Hle _]. unfold Multiproc.has_le, SM.
    cbn [Multiproc.s_labels fst Equiv.k_bucket Equiv.ckey Multiproc.k_labels].
    rewrite (find_le_blab F fmt_le _ lv b Hn Hle Hl). reflexivity.
  Qed.

  Lemma bucket_item_benc (fam : mfamily F (child F)) me lv b c : hwf fam -> length lv = length (f_labelnames fam) ->
    In b (f_bounds fam) ->
    Multiproc.bucket_item F parse_le (SM (k_bucket fam me lv b, (fcount c, fzero)))
    = (lab (f_labelnames fam) lv, (b, fcount c)).
  Proof.
    intros [Hk [Hn Hh] _ Hpf _ _] Hl Hb. destruct (Hh Hk) as [Hle _]. unfold Multiproc.bucket_item, SM.
    cbn [Multiproc.s_labels Multiproc.s_value fst snd Equiv.k_bucket Equiv.ckey Multiproc.k_labels].
    rewrite (find_le_blab F fmt_le _ lv b Hn Hle Hl), (filter_le_blab F fmt_le _ lv b Hn Hle Hl). cbn [Multiproc.opt_default].
    rewrite Forall_forall in Hpf. rewrite (Hpf b Hb). reflexivity.
  Qed.

  Lemma filter_kidL (fam : mfamily F (child F)) me kc : hwf fam -> kid_ok fam kc ->
    filter (fun s => negb (Multiproc.has_le F s)) (map SM (kidL fam me kc)) = [SM (k_sum fam me (fst kc), (hs (snd kc), fzero))]
    /\ filter (Multiproc.has_le F) (map SM (kidL fam me kc)) = map SM (benc fam me (fst kc) (f_bounds fam) (hc (snd kc))).
  Proof.
    intros Hw Hok. destruct (hist_kid fam kc (hw_kind _ Hw) Hok) as (_ & _ & Hl).
    unfold kidL. cbn [map filter]. rewrite (has_le_sum fam me (fst kc) _ Hw). cbn [negb]. split.
    - f_equal. apply filter_nil_all. intros s Hs. apply in_map_iff in Hs as [e [<- He]].
      apply benc_in in He as (b & c & _ & ->). rewrite (has_le_bucket fam me (fst kc) b _ Hw Hl). reflexivity.
    - apply filter_all. intros s Hs. apply in_map_iff in Hs as [e [<- He]].
      apply benc_in in He as (b & c & _ & ->). apply (has_le_bucket fam me (fst kc) b _ Hw Hl).
  Qed.

  Lemma filters_family (fam : mfamily F (child F)) me K : hwf fam -> Forall (kid_ok fam) K ->
    filter (fun s => negb (Multiproc.has_le F s)) (map SM (flat_map (kidL fam me) K))
    = map (fun kc => SM (k_sum fam me (fst kc), (hs (snd kc), fzero))) K
    /\ filter (Multiproc.has_le F) (map SM (flat_map (kidL fam me) K))
       = flat_map (fun kc => map SM (benc fam me (fst kc) (f_bounds fam) (hc (snd kc)))) K.
  Proof.
    intros Hw Hok. induction Hok as [|kc K Hkc _ [IH1 IH2]]; [split; reflexivity|].
    change (flat_map (kidL fam me) (kc :: K)) with (kidL fam me kc ++ flat_map (kidL fam me) K).
    rewrite !map_app, !filter_app. destruct (filter_kidL fam me kc Hw Hkc) as [E1 E2]. split.
    - cbn [map]. change (?x :: ?l) with ([x] ++ l). f_equal; [exact E1|exact IH1].
    - cbn [flat_map]. f_equal; [exact E2|exact IH2].
  Qed.

  Let lbeq_eq := MultiprocProofs.labels_eqb_eq.
  Let skeq_eq := MultiprocProofs.skey_eqb_eq.

  Definition inner (fam : mfamily F (child F)) (kc : key * child F) : assoc F F :=
    map (fun bc : F * N => (fst bc, fadd fzero (fcount (snd bc)))) (combine (f_bounds fam) (hc (snd kc))).
  Definition gitems (fam : mfamily F (child F)) (kc : key * child F) : list (F * F) :=
    map (fun bc : F * N => (fst bc, fcount (snd bc))) (combine (f_bounds fam) (hc (snd kc))).

  Lemma accum_length cs : forall n, length (accum n cs) = length cs.
  Proof. induction cs as [|c cs IH]; intro n; cbn [accum length]; [reflexivity|]. rewrite IH. reflexivity. Qed.

  Lemma flat_map_map {A B C} (f : B -> list C) (g : A -> B) l : flat_map f (map g l) = flat_map (fun x => f (g x)) l.
  Proof. induction l as [|a l IH]; cbn [map flat_map]; [reflexivity|]. rewrite IH. reflexivity. Qed.

  Lemma lab_keys_nodup (fam : mfamily F (child F)) K : hwf fam -> Forall (kid_ok fam) K -> NoDup (map fst K) ->
    NoDup (map (fun kc : key * child F => lab (f_labelnames fam) (fst kc)) K).
  Proof.
    intros Hw Hok Hnd. destruct (hw_keys _ Hw) as [Hn _]. rewrite <- (map_map fst (lab (f_labelnames fam))).
    apply NoDup_map_inj_in; [|exact Hnd]. intros lv1 lv2 H1 H2 E.
    rewrite Forall_forall in Hok. apply in_map_iff in H1 as [k1 [<- H1]]. apply in_map_iff in H2 as [k2 [<- H2]].
    destruct (Hok k1 H1) as [L1 _]. destruct (Hok k2 H2) as [L2 _]. eapply lab_inj; eauto.
  Qed.

  (* the per-bound dict of one child: its bounds are pairwise different *)
  Lemma inner_of_items (fam : mfamily F (child F)) kc : hwf fam -> kid_ok fam kc ->
    gitems fam kc <> []
    /\ Multiproc.kfold (Multiproc.upd_bucket F fzero fadd feqb) None (gitems fam kc) = Some (inner fam kc).
  Proof.
    intros Hw Hok. destruct (hist_kid fam kc (hw_kind _ Hw) Hok) as (_ & Hlen & _).
    assert (Hne : gitems fam kc <> []).
    { unfold gitems. pose proof (hw_ne _ Hw) as Hb. destruct (f_bounds fam) as [|b bs]; [contradiction|].
      destruct (hc (snd kc)); [discriminate|]. discriminate. }
    split; [exact Hne|]. rewrite MultiprocProofs.kfold_bucket_None. destruct (gitems fam kc) eqn:E; [contradiction|]. rewrite <- E.
    f_equal. rewrite (dfold_fkeys feqb (Multiproc.upd_sum F fzero fadd)).
    - cbn [app]. unfold gitems, inner. rewrite map_map. reflexivity.
    - cbn [map]. unfold gitems. rewrite map_map. cbn [fst]. rewrite <- (map_map fst (fun b : F => b)), map_id.
      rewrite map_fst_combine by (symmetry; exact Hlen).
      apply (strictly_fresh F fzero flt feqb fmt_le FLT_trans FLT_ne); [exact (hw_strict _ Hw)|intros a b []].
  Qed.

  Lemma buckets_dict (fam : mfamily F (child F)) me K : hwf fam -> Forall (kid_ok fam) K -> NoDup (map fst K) ->
    Multiproc.dfold Multiproc.labels_eqb (Multiproc.upd_bucket F fzero fadd feqb) []
      (map (Multiproc.bucket_item F parse_le)
           (flat_map (fun kc => map SM (benc fam me (fst kc) (f_bounds fam) (hc (snd kc)))) K))
    = map (fun kc => (lab (f_labelnames fam) (fst kc), inner fam kc)) K.
  Proof.
    intros Hw Hok Hnd.
    assert (E : map (Multiproc.bucket_item F parse_le)
                  (flat_map (fun kc => map SM (benc fam me (fst kc) (f_bounds fam) (hc (snd kc)))) K)
                = flat_map (fun kc => map (pair (lab (f_labelnames fam) (fst kc))) (gitems fam kc)) K).
    { rewrite map_flat_map. apply flat_map_ext_in'. intros kc Hin. rewrite Forall_forall in Hok.
      destruct (hist_kid fam kc (hw_kind _ Hw) (Hok kc Hin)) as (_ & _ & Hl).
      unfold EquivProofs.benc, gitems. rewrite !map_map. apply map_ext_in. intros [b c] Hbc. cbn [fst snd].
      apply (bucket_item_benc fam me (fst kc) b c Hw Hl). apply in_combine_l in Hbc. exact Hbc. }
    rewrite E.
    rewrite (dfold_groups Multiproc.labels_eqb lbeq_eq (Multiproc.upd_bucket F fzero fadd feqb)
               (fun kc : key * child F => lab (f_labelnames fam) (fst kc)) (gitems fam) (inner fam) K []).
    - reflexivity.
    - apply lab_keys_nodup; assumption.
    - intros x _ [].
    - intros kc Hin. rewrite Forall_forall in Hok. apply inner_of_items; auto.
  Qed.

  Lemma bucket_writes_kid (fam : mfamily F (child F)) kc : hwf fam -> kid_ok fam kc -> total (hc (snd kc)) < 2 ^ 53 ->
    Multiproc.bucket_writes F fzero fadd flt fmt_le (f_name fam) (lab (f_labelnames fam) (fst kc), inner fam kc)
    = writes fam kc.
  Proof.
    intros Hw Hok Hsm. destruct (hist_kid fam kc (hw_kind _ Hw) Hok) as (_ & Hlen & _).
    unfold Multiproc.bucket_writes. cbn [fst snd].
    assert (Hs : Multiproc.sort_b F flt (inner fam kc) = inner fam kc).
    { apply (sort_b_sorted_id F fzero flt fmt_le). unfold inner. rewrite map_map. cbn [fst].
      rewrite <- (map_map fst (fun b : F => b)), map_id. rewrite map_fst_combine by (symmetry; exact Hlen). exact (hw_strict _ Hw). }
    rewrite Hs. unfold inner. change fzero with (fcount 0) at 1.
    rewrite (cumulate_counts F fzero fone fadd flt feqb fmt_le FLT_trans FLT_ne FL4 (f_name fam) _ (f_bounds fam) (hc (snd kc)) 0 Hlen Hsm).
    reflexivity.
  Qed.

  (* ----- the keys the bucket accumulation writes ----- *)
  Definition wkeys (fam : mfamily F (child F)) (kc : key * child F) : list skey :=
    map (fun b => (f_name fam ++ Multiproc.S_bucket, lab (f_labelnames fam) (fst kc) ++ [(S_le, fmt_le b)])) (f_bounds fam)
    ++ [(f_name fam ++ Multiproc.S_count, lab (f_labelnames fam) (fst kc))].

  Lemma writes_keys (fam : mfamily F (child F)) kc : f_kind fam = KHistogram -> kid_ok fam kc ->
    map fst (writes fam kc) = wkeys fam kc.
  Proof.
    intros Hk Hok. destruct (hist_kid fam kc Hk Hok) as (_ & Hlen & _). unfold writes, wkeys.
    rewrite map_app, map_map. cbn [fst map]. f_equal.
    rewrite <- (map_map fst (fun b => (f_name fam ++ Multiproc.S_bucket, lab (f_labelnames fam) (fst kc) ++ [(S_le, fmt_le b)]))).
    rewrite map_fst_combine by (rewrite accum_length; symmetry; exact Hlen). reflexivity.
  Qed.

  Lemma wkeys_nodup (fam : mfamily F (child F)) kc : hwf fam -> NoDup (wkeys fam kc).
  Proof.
    intros Hw. destruct (hw_keys _ Hw) as [_ Hh]. destruct (Hh (hw_kind _ Hw)) as [_ Hfm]. unfold wkeys.
    apply ValuesProofs.NoDup_snoc.
    - apply NoDup_map_inj_in; [|apply (NoDup_of_map fmt_le); exact Hfm]. intros b1 b2 H1 H2 E.
      injection E as E1. apply app_inv_head in E1. injection E1 as E2.
      apply (NoDup_map_on fmt_le (f_bounds fam) b1 b2 Hfm H1 H2 E2).
    - intro H. apply in_map_iff in H as [b [E _]]. injection E as E1 _. apply app_inv_head in E1. discriminate.
  Qed.

  Lemma wkeys_disj (fam : mfamily F (child F)) k1 k2 x :
    lab (f_labelnames fam) (fst k1) <> lab (f_labelnames fam) (fst k2) -> In x (wkeys fam k1) -> ~ In x (wkeys fam k2).
  Proof.
    intros Hne H1 H2. unfold wkeys in *. apply in_app_or in H1. apply in_app_or in H2.
    destruct H1 as [H1|[<-|[]]], H2 as [H2|[E|[]]].
    - apply in_map_iff in H1 as [b1 [<- _]]. apply in_map_iff in H2 as [b2 [E _]]. injection E as E2.
      apply app_inj_tail in E2 as [E2 _]. apply Hne. symmetry. exact E2.
    - apply in_map_iff in H1 as [b1 [<- _]]. injection E as E1 _. apply app_inv_head in E1. discriminate.
    - apply in_map_iff in H2 as [b2 [E _]]. injection E as E1 _. apply app_inv_head in E1. discriminate.
    - injection E as E2. apply Hne. symmetry. exact E2.
  Qed.

  Lemma writes_all_nodup (fam : mfamily F (child F)) K : hwf fam -> Forall (kid_ok fam) K -> NoDup (map fst K) ->
    NoDup (map fst (flat_map (writes fam) K)).
  Proof.
    intros Hw Hok Hnd. pose proof (lab_keys_nodup fam K Hw Hok Hnd) as Hlab.
    induction K as [|kc K IH]; [constructor|]. cbn [flat_map]. rewrite map_app.
    inversion Hok as [|? ? Hkc Hok']; subst. cbn [map] in Hnd, Hlab. inversion Hnd; inversion Hlab; subst.
    apply NoDup_app_intro.
    - rewrite (writes_keys fam kc (hw_kind _ Hw) Hkc). apply wkeys_nodup. exact Hw.
    - apply IH; assumption.
    - intros x Hx Hin. rewrite (writes_keys fam kc (hw_kind _ Hw) Hkc) in Hx.
      rewrite map_flat_map in Hin. apply in_flat_map in Hin as [k2 [Hk2 Hin]].
      rewrite Forall_forall in Hok'. rewrite (writes_keys fam k2 (hw_kind _ Hw) (Hok' k2 Hk2)) in Hin.
      revert Hin. apply (wkeys_disj fam kc k2 x); [|exact Hx].
      intro E. match goal with H : ~ In (lab _ (fst kc)) _ |- _ => apply H end. rewrite E.
      apply (in_map (fun kc0 : key * child F => lab (f_labelnames fam) (fst kc0))). exact Hk2.
  Qed.

  (* ----- _accumulate_metrics on the samples of a histogram family ----- *)
  Lemma hist_acc (fam : mfamily F (child F)) me K : hwf fam -> Forall (kid_ok fam) K -> NoDup (map fst K) ->
    (forall kc, In kc K -> total (hc (snd kc)) < 2 ^ 53) ->
    Multiproc.acc_histogram F fzero fadd flt feqb parse_le fmt_le (f_name fam) (map SM (flat_map (kidL fam me) K))
    = map (sumout fam) K ++ flat_map (writes fam) K.
  Proof.
    intros Hw Hok Hnd Hsm. unfold Multiproc.acc_histogram.
    destruct (filters_family fam me K Hw Hok) as [E1 E2].
    transitivity (Multiproc.set_all Multiproc.skey_eqb
                    (Multiproc.acc_plain F fzero fadd (map (fun kc => SM (k_sum fam me (fst kc), (hs (snd kc), fzero))) K))
                    (flat_map (Multiproc.bucket_writes F fzero fadd flt fmt_le (f_name fam))
                       (Multiproc.dfold Multiproc.labels_eqb (Multiproc.upd_bucket F fzero fadd feqb) []
                          (map (Multiproc.bucket_item F parse_le)
                             (flat_map (fun kc => map SM (benc fam me (fst kc) (f_bounds fam) (hc (snd kc)))) K))))).
    { f_equal; [f_equal; exact E1|]. f_equal. f_equal. f_equal. exact E2. }
    rewrite (buckets_dict fam me K Hw Hok Hnd). rewrite flat_map_map. cbn [fst snd].
    assert (EW : flat_map (fun x : key * child F =>
                   Multiproc.bucket_writes F fzero fadd flt fmt_le (f_name fam) (lab (f_labelnames fam) (fst x), inner fam x)) K
                 = flat_map (writes fam) K).
    { apply flat_map_ext_in'. intros kc Hin. rewrite Forall_forall in Hok. apply bucket_writes_kid; auto. }
    rewrite EW.
    assert (EP : Multiproc.acc_plain F fzero fadd (map (fun kc => SM (k_sum fam me (fst kc), (hs (snd kc), fzero))) K)
                 = map (sumout fam) K).
    { rewrite (acc_plain_explicit F fzero fadd).
      - rewrite map_map. reflexivity.
      - rewrite map_map. unfold Multiproc.full_key, SM. cbn [Multiproc.s_name Multiproc.s_labels fst Equiv.k_sum Equiv.ckey Multiproc.k_name Multiproc.k_labels].
        rewrite <- (map_map (fun kc : key * child F => lab (f_labelnames fam) (fst kc)) (fun l => (f_name fam ++ SUF_sum, l))).
        apply NoDup_map_inj_in; [intros ? ? _ _ E; inversion E; reflexivity|]. apply lab_keys_nodup; assumption. }
    rewrite EP.
    apply (set_all_fresh Multiproc.skey_eqb skeq_eq).
    - apply writes_all_nodup; assumption.
    - intros k Hk Hin. rewrite map_map in Hin. apply in_map_iff in Hin as [k1 [<- _]]. cbn [sumout fst] in Hk.
      rewrite map_flat_map in Hk. apply in_flat_map in Hk as [k2 [Hk2 Hk]]. rewrite Forall_forall in Hok.
      rewrite (writes_keys fam k2 (hw_kind _ Hw) (Hok k2 Hk2)) in Hk. unfold wkeys in Hk. apply in_app_or in Hk as [Hk|[E|[]]].
      + apply in_map_iff in Hk as [b [E _]]. injection E as E3 _. apply app_inv_head in E3. discriminate.
      + injection E as E3 _. apply app_inv_head in E3. discriminate.
  Qed.

  (* ----- C12 for one histogram family ----- *)
  Variable pid : str.
  Notation sim := (sim F feqb).
  Notation same_sample := (same_sample F feqb).
  Notation mem_ns := (mem_ns F fzero fone fadd fmt_le).

  Lemma Forall2_map_same {A B C} (R : B -> C -> Prop) (f : A -> B) (g : A -> C) l :
    (forall x, In x l -> R (f x) (g x)) -> Forall2 R (map f l) (map g l).
  Proof. induction l as [|a l IH]; intro H; cbn [map]; constructor; [apply H; left; reflexivity|apply IH; intros; apply H; right; assumption]. Qed.

  Lemma hist_kid_sim (fam : mfamily F (child F)) kc : hwf fam -> kid_ok fam kc ->
    sim (map mem_ns (child_samples fzero fone fle (f_name fam) (f_bounds fam) (f_states fam)
                       (combine (f_labelnames fam) (fst kc)) (snd kc)))
        (writes fam kc ++ [sumout fam kc]).
  Proof.
    intros Hw Hok. destruct (hist_kid fam kc (hw_kind _ Hw) Hok) as (E & Hlen & Hl). rewrite E.
    cbn [child_samples]. rewrite (hw_sum _ Hw). rewrite !map_app. unfold writes. rewrite <- app_assoc.
    apply sim_forall2. apply Forall2_app; [|apply Forall2_app].
    - unfold bucket_samples. rewrite map_map. apply Forall2_map_same. intros [b a] _.
      split; [reflexivity|split].
      + cbn [fst snd Equiv.mem_ns ms_name ms_labels ms_le]. apply Permutation_app_tail. apply lab_perm.
      + cbn [fst snd Equiv.mem_ns ms_val sval_F]. rewrite N2Z.id. apply feq_refl.
    - constructor; [|constructor]. split; [reflexivity|split].
      + cbn [fst snd Equiv.mem_ns ms_name ms_labels ms_le]. rewrite app_nil_r. apply lab_perm.
      + cbn [fst snd Equiv.mem_ns ms_val sval_F]. rewrite N2Z.id. apply feq_refl.
    - constructor; [|constructor]. split; [reflexivity|split].
      + cbn [fst snd Equiv.mem_ns ms_name ms_labels ms_le sumout]. rewrite app_nil_r. apply lab_perm.
      + cbn [fst snd Equiv.mem_ns ms_val sval_F sumout hs]. apply FL1.
  Qed.

  Lemma hist_family (fam : mfamily F (child F)) me tsf c : hwf fam -> Forall (kid_ok fam) (kids F fam) ->
    NoDup (map fst (kids F fam)) -> (forall kc, In kc (kids F fam) -> total (hc (snd kc)) < 2 ^ 53) ->
    match MultiprocProofs.metric_of F fzero
            (map (pair (FILE F Multiproc.S_histogram [] [] c)) (enc_kids fam me tsf (kids F fam))) with
    | Some m => Multiproc.accumulate F fzero fadd flt feqb parse_le fmt_le m
    | None => []
    end = map (sumout fam) (kids F fam) ++ flat_map (writes fam) (kids F fam).
  Proof.
    intros Hw Hok Hnd Hsm. rewrite (enc_kids_hist fam me tsf _ (hw_kind _ Hw) Hok).
    rewrite <- (hist_acc fam me (kids F fam) Hw Hok Hnd Hsm).
    destruct (flat_map (kidL fam me) (kids F fam)) as [|[k0 [v0 t0]] L] eqn:EL.
    - destruct (kids F fam) as [|kc K]; [reflexivity|]. cbn [flat_map kidL app] in EL. discriminate.
    - assert (Hk0 : Multiproc.k_metric k0 = f_name fam).
      { assert (Hin : In (k0, (v0, t0)) (enc_kids fam me tsf (kids F fam))).
        { rewrite (enc_kids_hist fam me tsf _ (hw_kind _ Hw) Hok), EL. left. reflexivity. }
        destruct (enc_kids_meta F fzero fone fadd fmt_le fam me tsf _ _ Hok Hin) as [H _]. exact H. }
      cbn [map MultiprocProofs.metric_of]. unfold Multiproc.accumulate.
      cbn [Multiproc.m_typ Multiproc.m_samples Multiproc.m_name]. unfold FILE at 1. cbn [Multiproc.f_typ].
      change (str_eqb Multiproc.S_histogram Multiproc.S_gauge) with false.
      change (str_eqb Multiproc.S_histogram Multiproc.S_histogram) with true. cbv iota. rewrite Hk0. f_equal.
      change ((FILE F Multiproc.S_histogram [] [] c, (k0, (v0, t0))) :: map (pair (FILE F Multiproc.S_histogram [] [] c)) L)
        with (map (pair (FILE F Multiproc.S_histogram [] [] c)) ((k0, (v0, t0)) :: L)).
      rewrite (samples_plain F fzero Multiproc.S_histogram [] [] c _ eq_refl). reflexivity.
  Qed.

  Theorem hist_family_sim (d : Values.fs F) log f (fam : mfamily F (child F)) me tsf :
    hwf fam -> (forall kc, In kc (kids F fam) -> total (hc (snd kc)) < 2 ^ 53) ->
    ~ In Multiproc.US pid -> NoDup (map fst d) ->
    fam_inv F fzero fone fadd flt fmt_le pid d log f fam me tsf ->
    sim (norm_mem F fzero fone fadd fle fmt_le me log f fam)
        (norm_mp F (f_kind fam) me
           (mp_family F (f_name fam) (collect_mp F fzero fadd flt feqb parse_le fmt_le d))).
  Proof.
    intros Hw Hsm Hp Hnd [Hwf Hsup Hkn Hok Hview Hlog Hts Hgauge].
    rewrite (family_reduce F fzero fadd flt feqb parse_le fmt_le pid d fam me (enc_kids fam me tsf (kids F fam)) Hnd Hsup
               ltac:(rewrite (hw_kind _ Hw); discriminate) Hp Hview).
    rewrite (hw_kind _ Hw). cbn [typ_of].
    rewrite (hist_family fam me tsf _ Hw Hok Hkn Hsm). cbn [Equiv.norm_mp].
    rewrite (norm_mem_kids F fzero fone fadd fle fmt_le). rewrite (hw_kind _ Hw). cbn [keep_child].
    eapply sim_perm_r.
    - etransitivity; [apply (flat_map_app_perm (writes fam) (fun kc => [sumout fam kc]))|].
      rewrite flat_map_singleton. apply Permutation_app_comm.
    - apply sim_flat_map. intros kc Hin. rewrite Forall_forall in Hok. apply hist_kid_sim; auto.
  Qed.
End HistFamily.

(* ---------- no call changes the static part of a family ---------- *)
Section Statics.
  Variable F : Type.
  Variables fzero : F.
  Variable fadd : F -> F -> F.
  Variable fneg : F -> F.
  Variables flt fle : F -> F -> bool.
  Variable of_Z : Z -> res F.
  Variable zlef : Z -> F -> bool.
  Notation MSTEP := (mstep fzero fadd fneg flt fle of_Z zlef).

  Definition statics (fam : mfamily F (child F)) := (f_kind fam, f_name fam, f_labelnames fam, f_bounds fam).

  Lemma put_statics r f (fam fam' : mfamily F (child F)) : nth_error r f = Some fam -> statics fam' = statics fam ->
    map statics (put_family r f fam') = map statics r.
  Proof. intros H E. unfold put_family. eapply map_set_nth_same; eauto. Qed.

  Lemma mstep_statics r o : map statics (fst (MSTEP r o)) = map statics r.
  Proof.
    unfold mstep, mstep_gen. destruct o as [f a m|f a|f vs|f]; destruct (nth_error r f) as [fam|] eqn:E; try reflexivity.
    - destruct (resolve (f_labelnames fam) a) as [[k|]|e]; try reflexivity.
      + destruct (apply_mop _ _ _ _ _ _ _ _ _ _ _ _ _) as [c' out]. cbn [fst]. eapply put_statics; [exact E|reflexivity].
      + destruct (is_nil (f_labelnames fam)); [|reflexivity].
        destruct (apply_mop _ _ _ _ _ _ _ _ _ _ _ _ _) as [c' out]. cbn [fst]. eapply put_statics; [exact E|reflexivity].
    - destruct (resolve (f_labelnames fam) a) as [[k|]|e]; try reflexivity. cbn [fst]. eapply put_statics; [exact E|reflexivity].
    - destruct (is_nil (f_labelnames fam)); [reflexivity|]. destruct (negb _); [reflexivity|].
      cbn [fst]. eapply put_statics; [exact E|reflexivity].
    - destruct (is_nil (f_labelnames fam)); [destruct (f_kind fam); reflexivity|].
      cbn [fst]. eapply put_statics; [exact E|reflexivity].
  Qed.

  Lemma mem_step_statics metas s o :
    map statics (m_reg F (fst (mem_step F fzero fadd fneg flt fle of_Z zlef metas s o))) = map statics (m_reg F s).
  Proof.
    unfold Equiv.mem_step. destruct o as [f a m|f a|f vs|f].
    - destruct (nth_error (m_reg F s) f) as [fam|]; [|reflexivity]. destruct (nth_error metas f) as [me|]; [|reflexivity].
      destruct (mr_blocked F (f_kind fam) (fm_mode me) m).
      + pose proof (mstep_statics (m_reg F s) (CLabels f a)) as H. destruct (MSTEP (m_reg F s) (CLabels f a)) as [r' out]. exact H.
      + pose proof (mstep_statics (m_reg F s) (CUpd f a m)) as H. destruct (MSTEP (m_reg F s) (CUpd f a m)) as [r' out]. exact H.
    - pose proof (mstep_statics (m_reg F s) (CLabels f a)) as H. destruct (MSTEP (m_reg F s) (CLabels f a)) as [r' out]. exact H.
    - pose proof (mstep_statics (m_reg F s) (CRemove f vs)) as H. destruct (MSTEP (m_reg F s) (CRemove f vs)) as [r' out]. exact H.
    - pose proof (mstep_statics (m_reg F s) (CClear f)) as H. destruct (MSTEP (m_reg F s) (CClear f)) as [r' out]. exact H.
  Qed.

  Lemma mem_run_statics metas ops : forall s,
    map statics (m_reg F (mem_run F fzero fadd fneg flt fle of_Z zlef metas s ops)) = map statics (m_reg F s).
  Proof.
    induction ops as [|[now o] ops IH]; intro s; [reflexivity|]. unfold Equiv.mem_run. cbn [fold_left fst snd].
    etransitivity; [apply IH|apply mem_step_statics].
  Qed.
End Statics.

(* ================= C12 for all four kinds ================= *)
Section Full.
  Variable F : Type.
  Variables fzero fone finf : F.
  Variable fadd : F -> F -> F.
  Variable fneg : F -> F.
  Variables flt fle feqb : F -> F -> bool.
  Variable of_Z : Z -> res F.
  Variable zlef : Z -> F -> bool.
  Variable parse_le : str -> F.
  Variable fmt_le : F -> str.

  Hypothesis FL1 : forall v, feq F feqb v (fadd fzero v).
  Hypothesis FLT_zero : flt fzero fzero = false.
  Hypothesis FLT_trans : forall a b c, flt a b = true -> flt b c = true -> flt a c = true.
  Hypothesis FLT_ne : forall a b, flt a b = true -> feqb b a = false.
  Hypothesis FL4 : forall a b, a + b < 2 ^ 53 ->
    fadd (fcount F fzero fone fadd a) (fcount F fzero fone fadd b) = fcount F fzero fone fadd (a + b).

  Lemma FLT_pos' : forall t, flt fzero t = true -> feqb t fzero = false.
  Proof. intros t H. apply FLT_ne. exact H. Qed.

  Notation hwf := (hwf F fzero flt fle parse_le fmt_le).

  Lemma hwf_statics (a b : mfamily F (child F)) : statics F a = statics F b -> hwf b -> hwf a.
  Proof.
    unfold statics. intros E [H1 H2 H3 H4 H5 H6]. inversion E as [[Ek En El Eb]].
    constructor; rewrite ?Ek, ?Eb; auto.
    unfold EquivProofs.keys_wf in *. rewrite Ek, El, Eb. exact H2.
  Qed.

  (* a histogram count cell stays below 2^53 (the domain of FL4) *)
  Definition counts_small (fam : mfamily F (child F)) : Prop :=
    forall kc, In kc (kids F fam) -> total (hc F (snd kc)) < 2 ^ 53.

  Theorem equiv_all metas pid fams ops :
    wf_reg F fzero fmt_le metas fams ->
    (forall fam0, In fam0 fams -> f_kind fam0 = KHistogram -> hwf fam0) ->
    ~ In Multiproc.US pid -> Forall (call_ok F fzero flt) ops ->
    let S := mem_run F fzero fadd fneg flt fle of_Z zlef metas (mem_init F fams) ops in
    let P := mp_run F fzero fone fadd fneg flt fle feqb of_Z zlef fmt_le metas pid (mp_init F fzero fmt_le metas pid fams) ops in
    forall f fam me, nth_error (m_reg F S) f = Some fam -> nth_error metas f = Some me ->
      (f_kind fam = KHistogram -> counts_small fam) ->
      sim F feqb (norm_mem F fzero fone fadd fle fmt_le me (m_log F S) f fam)
                 (norm_mp F (f_kind fam) me
                    (mp_family F (f_name fam) (collect_mp F fzero fadd flt feqb parse_le fmt_le (p_fs F P)))).
  Proof.
    intros Hwf Hh Hpid Hops S P f fam me Hf Hm Hsm.
    destruct (f_kind fam) eqn:Ek;
      try (rewrite <- Ek; apply (equiv_non_histogram F fzero fone fadd fneg flt fle feqb of_Z zlef parse_le fmt_le FL1 FLT_zero FLT_pos'
                                   metas pid fams ops Hwf Hpid Hops f fam me Hf Hm); congruence).
    rewrite <- Ek.
    pose proof Hwf as (Hlen & Hnd & Hw & Hg).
    pose proof (init_sim F fzero fone fadd fneg flt fle feqb zlef fmt_le pid metas fams Hlen Hnd Hw Hg) as HI0.
    destruct (run_sim F fzero fone fadd fneg flt fle feqb of_Z zlef fmt_le pid metas ops _ _ _ HI0
                (call_ok_op_ok F fzero flt feqb FLT_pos' ops Hops)) as [tsfs (_ & _ & _ & Hfiles & HF & _)].
    fold S in HF, Hfiles. fold P in HF, Hfiles. specialize (HF f fam me Hf Hm).
    (* the static part is the one the family was constructed with *)
    pose proof (mem_run_statics F fzero fadd fneg flt fle of_Z zlef metas ops (mem_init F fams)) as Hst.
    fold S in Hst. cbn [mem_init m_reg] in Hst.
    assert (H0 : exists fam0, nth_error fams f = Some fam0 /\ statics F fam = statics F fam0).
    { assert (Hn : nth_error (map (statics F) (m_reg F S)) f = Some (statics F fam)) by (rewrite nth_error_map', Hf; reflexivity).
      rewrite Hst, nth_error_map' in Hn. destruct (nth_error fams f) as [fam0|]; [|discriminate].
      exists fam0. split; [reflexivity|]. cbn in Hn. congruence. }
    destruct H0 as [fam0 [Hf0 Est]].
    assert (Hw0 : hwf fam).
    { apply (hwf_statics fam fam0 Est). apply Hh; [eapply nth_error_In; exact Hf0|].
      unfold statics in Est. inversion Est as [[E1 _ _ _]]. congruence. }
    apply (hist_family_sim F fzero fone fadd flt fle feqb parse_le fmt_le FL1 FLT_trans FLT_ne FL4 pid _ _ _ _ _ (tsfs f));
      [exact Hw0|apply Hsm; reflexivity|exact Hpid|exact Hfiles|exact HF].
  Qed.
End Full.

(* the toy instance satisfies the extra float hypotheses *)
Lemma t_FLT_trans : forall a b c : Z, Z.ltb a b = true -> Z.ltb b c = true -> Z.ltb a c = true.
Proof. intros a b c H1 H2. apply Z.ltb_lt in H1, H2. apply Z.ltb_lt. lia. Qed.
Lemma t_FLT_ne : forall a b : Z, Z.ltb a b = true -> Z.eqb b a = false.
Proof. intros a b H. apply Z.ltb_lt in H. apply Z.eqb_neq. lia. Qed.
Lemma t_fcount n : fcount Z 0%Z 1%Z Z.add n = Z.of_N n.
Proof.
  unfold fcount. induction n as [|n IH] using N.peano_ind; [reflexivity|]. rewrite N.iter_succ, IH. lia.
Qed.
Lemma t_FL4 : forall a b, a + b < 2 ^ 53 -> (fcount Z 0%Z 1%Z Z.add a + fcount Z 0%Z 1%Z Z.add b)%Z = fcount Z 0%Z 1%Z Z.add (a + b).
Proof. intros a b _. rewrite !t_fcount. lia. Qed.

(* a toy histogram family inside the domain *)
Module ToyHist.
  Import MetricsProofs.Toy Toy12.
  Definition hx_fams : mregistry Z :=
    [mkMFamily KHistogram (s2l "h") [s2l "l"] [0%Z; 5%Z; t_inf] [] (Hst 0%Z [0; 0; 0]) [];
     mkMFamily KCounter (s2l "c") [] [] [] (Ctr (CF 0%Z)) []].
  Definition hx_metas := [meta0; meta0].
  Definition hx_ops : list (Z * mcall Z) :=
    [(1000%Z, CUpd 0 (Lab [s2l "a"] []) (Observe (AInt 3)));
     (1001%Z, CUpd 0 (Lab [s2l "a"] []) (Observe (AFloat 7%Z)));
     (1002%Z, CUpd 0 (Lab [s2l "b"] []) (Observe (AInt 0)));
     (1003%Z, CUpd 1 Parent (Inc (AInt 2)));
     (1004%Z, CUpd 0 (Lab [s2l "a"] []) (Observe (AInt 5000)))].

  Lemma hx_wf : wf_reg Z 0%Z tfmt hx_metas hx_fams.
  Proof.
    split; [reflexivity|split; [|split]].
    - cbn. repeat constructor; cbn; intuition discriminate.
    - intros fam [<-|[<-|[]]].
      + split; [split; [cbn; repeat constructor; cbn; intuition discriminate|]|split; [reflexivity|split; reflexivity]].
        intros _. split; [cbn; intuition discriminate|cbn; repeat constructor; cbn; intuition discriminate].
      + split; [split; [cbn; repeat constructor|discriminate]|split; [reflexivity|split; reflexivity]].
    - intros [|[|f]] fam me Hf Hm Hk; cbn in Hf, Hm; try discriminate; inversion Hf; subst; try discriminate.
      destruct f; discriminate.
  Qed.

  Lemma hx_hwf : forall fam0, In fam0 hx_fams -> f_kind fam0 = KHistogram -> hwf Z 0%Z Z.ltb Z.leb tparse tfmt fam0.
  Proof.
    intros fam0 [<-|[<-|[]]] Hk; [|discriminate]. constructor; try reflexivity.
    - split; [cbn; repeat constructor; cbn; intuition discriminate|].
      intros _. split; [cbn; intuition discriminate|cbn; repeat constructor; cbn; intuition discriminate].
    - cbn. repeat split.
    - repeat constructor.
    - discriminate.
  Qed.

  Lemma hx_calls : Forall (call_ok Z 0%Z Z.ltb) hx_ops.
  Proof. repeat constructor. Qed.
End ToyHist.
